-------------------------------- MODULE Arith --------------------------------
(***************************************************************************)
(* Integer arithmetic of the Miller DSL (C07), written from                 *)
(* reference-main-arithmetic.md ("Conversion by math routines", "Conversion *)
(* by arithmetic operators", "Pythonic division"), reference-dsl-operators  *)
(* ("an integer raised to an int power is int") and the function help texts *)
(* (`mlr help function X`), on exact integers (BigInt).                     *)
(*                                                                         *)
(* For int operands the specification gives a RESULT DESCRIPTOR             *)
(*   [ks |-> allowed kinds, ints |-> allowed values when the kind is int,   *)
(*    free |-> any int value is allowed]                                    *)
(* A float-valued outcome is specified by kind only: TLC has no floating    *)
(* point.  "A number or an error value, never a crash" is Loose.              *)
(***************************************************************************)
EXTENDS BigInt, FiniteSets, TLC

Exact(v)        == [ks |-> {"int"}, ints |-> {v}, free |-> FALSE]
OneOf(S)       == [ks |-> {"int"}, ints |-> S, free |-> FALSE]
Float         == [ks |-> {"float"}, ints |-> {}, free |-> FALSE]
IntOrFloat(v) == [ks |-> {"int", "float"}, ints |-> {v}, free |-> FALSE]
NotInt        == [ks |-> {"float", "error"}, ints |-> {}, free |-> FALSE]
Number        == [ks |-> {"int", "float"}, ints |-> {}, free |-> TRUE]
Loose           == [ks |-> {"int", "float", "error"}, ints |-> {}, free |-> TRUE]     \* a number or an error value

\* "The sum, difference, and product of integers is again integer, except for when that would overflow a 64-bit
\* integer at which point Miller converts the result to float"
ExactOrFloat(v)  == IF Fits64(v) THEN Exact(v) ELSE Float
\* where the reference names no overflow behaviour: an int result is the exact one; if that does not fit, the
\* result is a float or an error value (never some other integer)
ExactOrNotInt(v) == IF Fits64(v) THEN Exact(v) ELSE NotInt

Allowed(R, kind, val) == kind \in R.ks /\ (kind = "int" => (R.free \/ val \in R.ints))
Deterministic(R) == Cardinality(R.ks) = 1 /\ ~R.free /\ Cardinality(R.ints) <= 1

(***************************************************************************)
(* "*": the reference describes its own overflow test ("Miller checks for   *)
(* overflow in 64-bit integer multiplication by seeing whether the absolute *)
(* value of the double-precision product exceeds the largest representable  *)
(* IEEE double less than 2**63, ... 9223372036854774784") and the           *)
(* granularity of doubles there (1024).  The double-precision product of    *)
(* two converted operands is within a factor (1 + 2^-53)^3 of the exact one,*)
(* i.e. within 3073 near 2^63: so an exact product p that fits in 64 bits   *)
(* but has |p| >= 2^63 - 4096 may, by the documented test, come out as a    *)
(* float; below that band it is the exact int; beyond 64 bits it is a float.*)
(***************************************************************************)
TimesBand == [neg |-> FALSE, mag |-> <<1712, 5477, 368, 3372, 922>>]       \* 2^63 - 4096
Times(a, b) == LET p == Mul(a, b) IN
               IF ~Fits64(p) THEN Float
               ELSE IF Cmp(Abs(p), TimesBand) >= 0 THEN IntOrFloat(p) ELSE Exact(p)

\* "/": "Quotient of integers is floating-point unless (unlike Python) exactly representable as integer"
Divide(a, b) == IF IsZero(b) THEN Loose
                ELSE LET qr == DivModTrunc(a, b) IN IF IsZero(qr[2]) THEN ExactOrFloat(qr[1]) ELSE Float
\* "//": "Pythonic integer division, rounding toward negative"
IntDivide(a, b) == IF IsZero(b) THEN Loose ELSE ExactOrNotInt(DivFloor(a, b))
\* "%": "Remainders are non-negative: 13 % 10 and -17 % 10 are both 3"; "never negative-valued (pythonic)".  For a
\* negative divisor "pythonic" (the remainder takes the divisor's sign) and "never negative" disagree: both readings
\* are accepted there.  Mod is the pythonic one.
Mod(a, b) == ModFloor(a, b)
Modulus(a, b) == IF IsZero(b) THEN Loose
                 ELSE IF ~b.neg THEN Exact(Mod(a, b)) ELSE OneOf({Mod(a, b), ModFloor(a, Neg(b))})

\* "**": "an integer raised to an int power is int, not float"; exact when it fits, else float.  A negative exponent
\* gives a float (the reference does not say so in words: 1 and -1, whose negative powers are integers, may stay int)
RECURSIVE PowSat(_, _)       \* |x| >= 2: stops multiplying once beyond 64 bits (the power is then beyond 64 bits too)
PowSat(x, n) == IF n = 0 THEN One ELSE LET p == PowSat(x, n - 1) IN IF Len(p.mag) > 5 THEN p ELSE Mul(x, p)
SignedOne(a, b) == IF a.neg /\ ~IsEven(b) THEN Neg(One) ELSE One        \* a ** b for |a| = 1
Power(a, b) ==
  IF b.neg THEN (IF IsZero(a) THEN Loose ELSE IF Abs(a) = One THEN IntOrFloat(SignedOne(a, b)) ELSE Float)
  ELSE IF IsZero(b) THEN Exact(One)
  ELSE IF IsZero(a) THEN Exact(Zero)
  ELSE IF Abs(a) = One THEN Exact(SignedOne(a, b))
  ELSE IF Cmp(b, FromInt(64)) >= 0 THEN Float
  ELSE ExactOrFloat(PowSat(a, SmallVal(b)))

(***************************************************************************)
(* 64-bit two's complement: ".+ .- .*" "with integer-to-integer overflow",  *)
(* "./" "Integer division, rounding toward zero", bitwise operators.        *)
(* A 64-bit pattern is four 16-bit chunks, little-endian.                   *)
(***************************************************************************)
RECURSIVE ChunksOf(_, _)
ChunksOf(m, n) == IF n = 0 THEN <<>> ELSE LET qr == DivModSmallMag(m, 65536) IN <<qr[2]>> \o ChunksOf(qr[1], n - 1)
RECURSIVE MagOfChunks(_, _)
MagOfChunks(c, i) == IF i > Len(c) THEN <<>> ELSE AddMag(MagOfNat(c[i]), MulSmallMag(MagOfChunks(c, i + 1), 65536))
Pattern(x) == ChunksOf(Unsigned64(x).mag, 4)
FromUnsigned(u) == IF Cmp(u, TwoTo63) >= 0 THEN Sub(u, TwoTo64) ELSE u
OfPattern(c) == FromUnsigned(Mk(FALSE, MagOfChunks(c, 1)))
AndT == << <<0, 0>>, <<0, 1>> >>
OrT  == << <<0, 1>>, <<1, 1>> >>
XorT == << <<0, 1>>, <<1, 0>> >>
RECURSIVE Bits16(_, _, _, _)
Bits16(T, x, y, n) == IF n = 0 THEN 0 ELSE T[(x % 2) + 1][(y % 2) + 1] + 2 * Bits16(T, x \div 2, y \div 2, n - 1)
BitOp(T, a, b) == LET ca == Pattern(a)  cb == Pattern(b) IN OfPattern([i \in 1..4 |-> Bits16(T, ca[i], cb[i], 16)])
BitNot(a) == Sub(Neg(a), One)
ShiftCountOK(b) == ~b.neg /\ Cmp(b, FromInt(63)) <= 0
Shift(op, a, b) ==
  IF ~ShiftCountOK(b) THEN Loose          \* "shifts beyond 63" or negative: a number or an error value
  ELSE LET p == Pow2(SmallVal(b)) IN
       CASE op = "<<"  -> Exact(Wrap64(Mul(a, p)))
         [] op = ">>"  -> Exact(DivFloor(a, p))                                    \* signed (sign-propagating)
         [] op = ">>>" -> Exact(FromUnsigned(DivFloor(Unsigned64(a), p)))          \* unsigned (zero-filling)

(***************************************************************************)
(* roundm: "Round to nearest multiple of m: roundm($x,$m) is the same as    *)
(* round($x/$m)*$m"; int in, int out.  With "/", round and "*" as           *)
(* documented: a multiple of m comes back unchanged; otherwise the quotient *)
(* is a double, which decides the nearest multiple reliably while           *)
(* |x|, |m| < 2^52 (ties: either neighbour); beyond that only "a number".   *)
(***************************************************************************)
TwoTo52 == Pow2(52)
RoundM(x, m) ==
  IF IsZero(m) THEN Loose
  ELSE LET qr == DivModFloor(x, m) IN
       IF IsZero(qr[2]) THEN Exact(x)
       ELSE IF Lt(Abs(x), TwoTo52) /\ Lt(Abs(m), TwoTo52)
       THEN LET lo == Mul(qr[1], m)
                hi == Mul(Add(qr[1], One), m)
                c == CmpMag(MulSmallMag(qr[2].mag, 2), m.mag)
            IN IF c < 0 THEN Exact(lo) ELSE IF c > 0 THEN Exact(hi) ELSE OneOf({lo, hi})
       ELSE Number

(***************************************************************************)
(* madd msub mmul mexp: "a + b mod m (integers)" ...: exact modular         *)
(* arithmetic, the residue in 0..m-1 for a positive modulus.  A zero or     *)
(* negative modulus, a negative exponent: a number or an error value.       *)
(***************************************************************************)
RECURSIVE ModPow(_, _, _)
ModPow(x, e, m) ==            \* x in 0..m-1, e a magnitude
  IF e = <<>> THEN ModFloor(One, m)
  ELSE LET qr == DivModSmallMag(e, 2)
           h == ModPow(x, qr[1], m)
           sq == ModFloor(Mul(h, h), m)
       IN IF qr[2] = 1 THEN ModFloor(Mul(sq, x), m) ELSE sq
Modular(op, a, b, m) ==
  IF Sign(m) <= 0 THEN Loose
  ELSE CASE op = "madd" -> Exact(ModFloor(Add(a, b), m))
         [] op = "msub" -> Exact(ModFloor(Sub(a, b), m))
         [] op = "mmul" -> Exact(ModFloor(Mul(a, b), m))
         [] op = "mexp" -> IF b.neg THEN Loose ELSE Exact(ModPow(ModFloor(a, m), b.mag, m))

(***************************************************************************)
(* The operators.  Unary ones ignore b and c, binary ones ignore c.         *)
(***************************************************************************)
UnaryOps   == {"neg", "pos", "~", "abs", "ceil", "floor", "round", "sgn"}
BinaryOps  == {"+", "-", "*", "/", "//", "%", "**", ".+", ".-", ".*", "./", "&", "|", "^", "<<", ">>", ">>>",
               "min", "max", "roundm"}
TernaryOps == {"madd", "msub", "mmul", "mexp"}
SmallSecond == {"**", "<<", ">>", ">>>"}       \* operators whose interesting second operands are small
MaxOf(a, b) == IF Cmp(a, b) >= 0 THEN a ELSE b
MinOf(a, b) == IF Cmp(a, b) <= 0 THEN a ELSE b

Result(op, a, b, c) ==
  CASE op = "+"   -> ExactOrFloat(Add(a, b))
    [] op = "-"   -> ExactOrFloat(Sub(a, b))
    [] op = "*"   -> Times(a, b)
    [] op = "/"   -> Divide(a, b)
    [] op = "//"  -> IntDivide(a, b)
    [] op = "%"   -> Modulus(a, b)
    [] op = "**"  -> Power(a, b)
    [] op = ".+"  -> Exact(Wrap64(Add(a, b)))
    [] op = ".-"  -> Exact(Wrap64(Sub(a, b)))
    [] op = ".*"  -> Exact(Wrap64(Mul(a, b)))
    [] op = "./"  -> IF IsZero(b) THEN Loose ELSE Exact(Wrap64(DivTrunc(a, b)))
    [] op = "&"   -> Exact(BitOp(AndT, a, b))
    [] op = "|"   -> Exact(BitOp(OrT, a, b))
    [] op = "^"   -> Exact(BitOp(XorT, a, b))
    [] op \in {"<<", ">>", ">>>"} -> Shift(op, a, b)
    [] op = "min" -> Exact(MinOf(a, b))
    [] op = "max" -> Exact(MaxOf(a, b))
    [] op = "roundm" -> RoundM(a, b)
    \* unary: "-" is the "unary negation operator" of the + - * family; "~" bitwise NOT; abs ceil floor round sgn
    \* "produce integer output if their inputs are integers"
    [] op = "neg" -> ExactOrFloat(Neg(a))
    [] op = "pos" -> Exact(a)
    [] op = "~"   -> Exact(BitNot(a))
    [] op = "abs" -> ExactOrNotInt(Abs(a))
    [] op \in {"ceil", "floor", "round"} -> Exact(a)
    [] op = "sgn" -> Exact(FromInt(Sign(a)))
    [] op \in TernaryOps -> Modular(op, a, b, c)

(***************************************************************************)
(* Operand classes, for telling one defect from another in reports         *)
(***************************************************************************)
IsMin(x) == x = MinInt64
TwoTo53 == Pow2(53)
Beyond53(x) == CmpMag(x.mag, TwoTo53.mag) > 0          \* not every integer of this size is a double
Class(op, a, b, c) ==
  LET R == Result(op, a, b, c) IN
  CASE op \in TernaryOps /\ IsZero(c) -> "zero-modulus"
    [] op \in TernaryOps /\ c.neg -> "negative-modulus"
    [] op = "mexp" /\ b.neg -> "negative-exponent"
    [] op = "mexp" /\ (IsZero(b) \/ b = One) -> "exponent-0-or-1"
    [] op = "mexp" /\ ~Fits64(Mul(a, a)) -> "base-squared-beyond-64-bits"
    [] op = "mexp" /\ ~Fits64(Mul(c, c)) -> "modulus-squared-beyond-64-bits"
    [] op = "mmul" /\ ~Fits64(Mul(a, b)) -> "product-beyond-64-bits"
    [] op \in {"madd", "msub"} /\ ~Fits64(IF op = "madd" THEN Add(a, b) ELSE Sub(a, b)) -> "sum-beyond-64-bits"
    [] op \in {"/", "//", "%", "./", "roundm"} /\ IsZero(b) -> "zero-divisor"
    [] op \in {"+", "-"} /\ (IsMin(a) \/ IsMin(b)) -> "min-int64-operand"
    [] op = "*" /\ ~Fits64(Mul(a, b)) /\ Cmp(Abs(Mul(a, b)), Add(TwoTo63, FromInt(4096))) < 0 -> "product-barely-beyond-64-bits"
    [] op \in {"neg", "abs"} /\ IsMin(a) -> "min-int64-operand"
    [] op \in {"abs", "ceil", "floor", "round"} /\ Beyond53(a) -> "operand-beyond-2^53"
    [] op \in {"/", "//"} /\ IsMin(a) /\ b = Neg(One) -> "min-int64-by-minus-one"
    [] op = "%" /\ IsZero(Mod(a, b)) -> "exact-multiple"
    [] op = "**" /\ Abs(a) = One /\ Beyond53(b) -> "unit-base-exponent-beyond-2^53"
    [] op = "**" /\ b.neg -> "negative-exponent"
    [] op = "**" /\ R.ks = {"int"} /\ (\E v \in R.ints : Beyond53(v)) -> "exact-power-beyond-2^53"
    [] op = "**" /\ R.ks = {"float"} -> "power-beyond-64-bits"
    [] op = "roundm" /\ (Beyond53(a) \/ Beyond53(b)) -> "operand-beyond-2^53"
    [] op \in {"<<", ">>", ">>>"} /\ ~ShiftCountOK(b) -> "shift-count-out-of-range"
    [] OTHER -> "general"
=============================================================================
