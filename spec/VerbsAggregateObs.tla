-------------------------- MODULE VerbsAggregateObs --------------------------
(* Judges what the real mlr printed for each case: line = [c, s, out, exit]. *)
EXTENDS VerbsAggregate, Json
CONSTANT ObsFile
Obs == ndJsonDeserialize(ObsFile)
VARIABLE l
Init == l = 1
Next == l < Len(Obs) /\ l' = l + 1
Conforms == LET o == Obs[l] IN
   (o.exit = 0 /\ Allowed(o.c, o.s, o.out)) \/ PrintT(ToJson([line |-> l] @@ Diag(o.c, o.s, o.out, o.exit)))
=============================================================================
