------------------------------ MODULE FanOutObs ------------------------------
(***************************************************************************)
(* Judges the files the real mlr produced for write histories (binding B2,   *)
(* CLI level).  Each line of ObsFile: [hist |-> Seq(<<t, r>>), files |->     *)
(* Seq(token sequence) indexed by target, uniform |-> BOOLEAN (all real      *)
(* files standing for one abstract target had the same token structure)].   *)
(* Two judgements per line: the property (Required) and conformance of the   *)
(* code to the implementation model (ImplFiles) -- the latter is drift, not  *)
(* a violation.                                                             *)
(***************************************************************************)
EXTENDS FanOut, Json
CONSTANT ObsFile
Obs == ndJsonDeserialize(ObsFile)
VARIABLE l
OInit == l = 1 /\ hist = <<>> /\ st = Init0 /\ closed = FALSE
ONext == l < Len(Obs) /\ l' = l + 1 /\ UNCHANGED vars
TargetSeq == 1..Cardinality(Targets)
Verdict(o) ==
  IF ~o.uniform THEN "files of one block differ"
  ELSE IF \E t \in Targets : o.files[t] # Required(o.hist, t) THEN "not one well-formed document with exactly the routed records"
  ELSE "ok"
Drift(o) == \E t \in Targets : o.files[t] # ImplFiles(o.hist)[t]
Conforms == LET o == Obs[l] IN
    /\ (Verdict(o) = "ok" \/ PrintT(ToJson([line |-> l, why |-> Verdict(o)])))
    /\ (~Drift(o) \/ PrintT(ToJson([line |-> l, drift |-> TRUE])))
=============================================================================
