------------------------------- MODULE RegexObs -------------------------------
(* Judges what the real mlr computed.  Two kinds of lines.                                                        *)
(*                                                                                                               *)
(* fam = "call": one pattern, one case mode, every subject; every function, the regex spelled in several ways:      *)
(*   [re, ci, t: the replacement with references, subs: <<[s, outs: <<[sp, exit, v: the 12 results [k typeof,       *)
(*    s characters], x: the map of strmatchx]>>]>>]     (spellings with the same output share one entry, sp "a+b") *)
(*   sp: "lit" "P" | "field" $r holding P            (ci = FALSE)                                                  *)
(*       "liti" "P"i | "flag" "(?i)P" | "fieldflag" $r holding (?i)P     (ci = TRUE)                               *)
(*   the 12 results:  1 sub(s,R,"_")  2 sub(s,R,t)  3 gsub(s,R,"_")  4 gsub(s,R,t)  5 regextract(s,R)                *)
(*     6 regextract_or_else(s,R,"_")  7 strmatch(s,R)  8 strmatchx(s,R)                                           *)
(*     9 s =~ R   10 "<\0:\1:\2>" after it   11 s !=~ R   12 "\1:\0" after it       (9-12 in a process of their own) *)
(* fam = "prog": a program of RegexProg.tla and the records that came out: [p, exit, out]                          *)
(*                                                                                                               *)
(* Prints [line, bad] for a line that does not conform (bad: <<subject number, spelling, result number, part>> / <<record, field, part>>), and  *)
(* [uline] for a program that leaves the documented region (not constrained; counted by the harness).            *)
EXTENDS RegexProg, Json
CONSTANT ObsFile
Obs == ndJsonDeserialize(ObsFile)
VARIABLE ln
Init == ln = 1
Next == ln < Len(Obs) /\ ln' = ln + 1

MT1 == <<"lt", "bsl", "0", "colon", "bsl", "1", "colon", "bsl", "2", "gt">>
MT2 == <<"bsl", "1", "colon", "bsl", "0">>
IsStrV(v, s) == v.k \in {"string", "empty"} /\ v.s = s /\ ((v.k = "empty") = (s = <<>>))       \* typeof("") is "empty"
IsBoolV(v, b) == v.k = "boolean" /\ v.s = <<IF b THEN "true" ELSE "false">>
\* q: one subject of the line with what came out: [s, outs]
BadQ(o, q, idx) ==
  LET re == o.re
      s == q.s
      ci == o.ci
      m == Find(re, s, ci)
      ms == All(re, s, ci)
      cap == AfterMatchM(s, m)
      x0 == StrmatchXM(s, m, NG(re))
      want == << SubM(s, m, <<"us">>), SubM(s, m, o.t), GsubM(s, ms, <<"us">>), GsubM(s, ms, o.t), Slice(s, m.b, m.e),
                 RegextractOrElseM(s, m, <<"us">>).s, <<>>, <<>>, <<>>, Interp(MT1, 1, cap), <<>>, Interp(MT2, 1, cap) >>
      OKv(out, i) ==
        LET v == out.v[i] IN
        CASE i \in {1, 2, 3, 4, 6, 10, 12} -> IsStrV(v, want[i])
          [] i = 5 -> IF m.ok THEN IsStrV(v, want[5]) ELSE v.k = "absent"
          [] i \in {7, 9} -> IsBoolV(v, m.ok)
          [] i = 11 -> IsBoolV(v, ~m.ok)
          [] i = 8 -> v.k = "map" /\ MXOK(x0, out.x)
      \* which part of the strmatchx map is wrong (for the report): keys, texts, or only the indices
      Part(out, i) == IF i # 8 \/ out.exit # 0 \/ out.v[8].k # "map" THEN ""
                      ELSE IF out.x.keys # x0.keys THEN "keys"
                      ELSE IF out.x.full # x0.full \/ out.x.caps # x0.caps THEN "text" ELSE "index"
  IN UNION {{<<ToString(idx), q.outs[j].sp, ToString(i), Part(q.outs[j], i)>> : i \in {i \in 1..12 : q.outs[j].exit # 0 \/ ~OKv(q.outs[j], i)}} :
              j \in 1..Len(q.outs)}
Bad(o) == UNION {BadQ(o, o.subs[k], k) : k \in 1..Len(o.subs)}

Judge(o) ==
  IF o.fam = "call" THEN LET bad == Bad(o) IN bad = {} \/ PrintT(ToJson([line |-> ln, bad |-> bad]))
  ELSE LET r0 == Run(o.p, FALSE)
           r1 == Run(o.p, TRUE)
       IN IF r0.u \/ r1.u THEN PrintT(ToJson([uline |-> ln]))
          ELSE (o.exit = 0 /\ (OutOK(r0.rs, o.out) \/ OutOK(r1.rs, o.out)))
               \/ PrintT(ToJson([line |-> ln, bad |-> {IF o.exit # 0 THEN <<"0", "0", "exit">> ELSE Diff(r0.rs, o.out)}]))
Conforms == Judge(Obs[ln])
=============================================================================
