----------------------------- MODULE CalendarObs -----------------------------
(* Judges what the real mlr printed.  One line per case:                                                           *)
(*   [kind |-> "sec" | "ns", n, s, f, out]   out[i] = the text printed for probe i of ProbesOf(kind)               *)
(*   [kind |-> "dur", sg, d, r, out]         out[i] for DurProbes[i]                                               *)
(*   [kind |-> "diff", n1, s1, n2, s2, out]  out[i] = datediff(t1, t2, DiffUnits[i])                               *)
(*   [kind |-> "non", x, out]                out[i] for NonProbes[i]                                               *)
(* (a probe the harness did not run, because Asked is false, carries "")                                           *)
(* Every non-conforming (line, probe) is printed; the invariant itself never fails.                                *)
EXTENDS CalendarCases, Json
CONSTANT ObsFile
Obs == ndJsonDeserialize(ObsFile)
VARIABLE l
Init == l = 1
Next == l < Len(Obs) /\ l' = l + 1
Report(i, fn, why, cls) == PrintT(ToJson([line |-> l, i |-> i, fn |-> fn, why |-> why, cls |-> cls]))     \* cls: a tuple of class names
Conforms ==
  LET o == Obs[l] IN
  CASE o.kind \in {"sec", "ns"} ->
         LET ps == ProbesOf(o.kind) IN
         /\ Len(o.out) = Len(ps) \/ Report(0, "", "shape", <<>>)
         /\ \A i \in 1..Len(ps) :
              LET v == Verdict(ps[i], o.n, o.s, o.f, o.out[i]) IN
              v = "ok" \/ Report(i, ps[i].fn, v, <<RangeClass(o.n, o.s), FracClass(o.f)>>)
    [] o.kind = "dur" ->
         /\ Len(o.out) = Len(DurProbes) \/ Report(0, "", "shape", <<>>)
         /\ \A i \in 1..Len(DurProbes) :
              LET v == DurVerdict(DurProbes[i], o.sg, o.d, o.r, o.out) IN
              v = "ok" \/ Report(i, DurProbes[i], v, <<IF o.sg < 0 THEN "negative" ELSE "non-negative">>)
    [] o.kind = "diff" ->
         /\ Len(o.out) = Len(DiffUnits) \/ Report(0, "", "shape", <<>>)
         /\ \A i \in 1..Len(DiffUnits) :
              LET v == DiffVerdict(DiffUnits[i], o.n1, o.n2, o.out[i]) IN
              v = "ok" \/ Report(i, DiffUnits[i], v, <<IF o.n1 <= o.n2 THEN "forward" ELSE "backward", DiffClass(o.n1, o.n2)>>)
    [] o.kind = "non" ->
         /\ Len(o.out) = Len(NonProbes) \/ Report(0, "", "shape", <<>>)
         /\ \A i \in 1..Len(NonProbes) : o.out[i] = o.x \/ Report(i, NonProbes[i], "changed", <<"non-number">>)
=============================================================================
