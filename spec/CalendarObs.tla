----------------------------- MODULE CalendarObs -----------------------------
(* Judges what the real mlr printed.  One line per case:                                                           *)
(*   [kind |-> "sec" | "ns", n, s, f, out]   out[i] = the text printed for probe i of ProbesOf(kind)               *)
(*   [kind |-> "dur", sg, d, r, out]         out[i] for DurProbes[i]                                               *)
(*   [kind |-> "non", x, out]                out[i] for NonProbes[i]                                               *)
(* (a probe the harness did not run, because Asked is false, carries "")                                           *)
(* Every non-conforming (line, probe) is printed; the invariant itself never fails.                                *)
EXTENDS CalendarCases, Json
CONSTANT ObsFile
Obs == ndJsonDeserialize(ObsFile)
VARIABLE l
Init == l = 1
Next == l < Len(Obs) /\ l' = l + 1
Report(i, fn, why, cls) == PrintT(ToJson([line |-> l, i |-> i, fn |-> fn, why |-> why, cls |-> cls]))
Conforms ==
  LET o == Obs[l] IN
  CASE o.kind \in {"sec", "ns"} ->
         LET ps == ProbesOf(o.kind) IN
         /\ Len(o.out) = Len(ps) \/ Report(0, "", "shape", "")
         /\ \A i \in 1..Len(ps) :
              LET v == Verdict(ps[i], o.n, o.s, o.f, o.out[i]) IN
              v = "ok" \/ Report(i, ps[i].fn, v, RangeClass(o.n, o.s))
    [] o.kind = "dur" ->
         /\ Len(o.out) = Len(DurProbes) \/ Report(0, "", "shape", "")
         /\ \A i \in 1..Len(DurProbes) :
              LET v == DurVerdict(DurProbes[i], o.sg, o.d, o.r, o.out) IN
              v = "ok" \/ Report(i, DurProbes[i], v, IF o.sg < 0 THEN "negative" ELSE "non-negative")
    [] o.kind = "non" ->
         /\ Len(o.out) = Len(NonProbes) \/ Report(0, "", "shape", "")
         /\ \A i \in 1..Len(NonProbes) : o.out[i] = o.x \/ Report(i, NonProbes[i], "changed", "non-number")
\* how many (case, probe) pairs of this line the specification decides (for the evidence)
Decided ==
  LET o == Obs[l] IN
  PrintT(ToJson([decided |->
    CASE o.kind \in {"sec", "ns"} -> Cardinality({i \in 1..Len(ProbesOf(o.kind)) : Asked(ProbesOf(o.kind)[i], o.n, o.s, o.f)})
      [] o.kind = "dur" -> Cardinality({i \in 1..Len(DurProbes) :
                               IF DurIsParse(DurProbes[i]) THEN DurInput(DurProbes[i], o.sg, o.d, o.r) # ""
                               ELSE (o.sg > 0 \/ DurProbes[i] \notin {"sec2dhms", "fsec2dhms", "fsec2dhms.f", "sec2hms", "fsec2hms", "fsec2hms.f"})})
      [] o.kind = "non" -> Len(NonProbes)]))
=============================================================================
