---------------------------- MODULE MiniMillerGen ----------------------------
EXTENDS MiniMillerCases, Json
VARIABLE x
Init == x \in Cases
Next == UNCHANGED x
\* the program text (Unparse), the input records as texts, and the AST itself (it comes back with the observation)
RecTexts(recs) == [i \in 1..Len(recs) |-> [j \in 1..Len(recs[i]) |-> <<recs[i][j][1], Str(recs[i][j][2])>>]]
IsLaw(c) == "law" \in DOMAIN c
\* (a law case carries a second, cut-down program and record list: see MiniMillerCases, family emitsnap)
Emit == PrintT(ToJson([src |-> Unparse(x.p), q |-> x.p.q, n |-> (x.p.main = <<>>), recs |-> RecTexts(x.recs),
                       src0 |-> IF IsLaw(x) THEN Unparse(x.p0) ELSE "", recs0 |-> IF IsLaw(x) THEN RecTexts(x.recs0) ELSE <<>>,
                       c |-> x]))
=============================================================================
