---------------------------- MODULE MiniMillerGen ----------------------------
EXTENDS MiniMillerCases, Json
VARIABLE x
Init == x \in Cases
Next == UNCHANGED x
\* the program text (Unparse), the input records as texts, and the AST itself (it comes back with the observation)
Emit == PrintT(ToJson([src |-> Unparse(x.p), q |-> x.p.q, n |-> (x.p.main = <<>>),
                       recs |-> [i \in 1..Len(x.recs) |-> [j \in 1..Len(x.recs[i]) |-> <<x.recs[i][j][1], Str(x.recs[i][j][2])>>]],
                       c |-> x]))
=============================================================================
