------------------------------- MODULE RegexMC -------------------------------
(* Laws of the regex reference (Regex.tla), checked by TLC on the definitions themselves for every pattern of the  *)
(* case space, every subject of its alphabet, case-sensitively and case-insensitively.  The search (sequences of   *)
(* ways in preference order) is held against an independent, order-free definition of "matches": Den(re, s), the   *)
(* set of <<begin, end>> such that s[begin..end) is in the language of re in the context of s (relations composed  *)
(* and closed; no search, no preferences).  One state per pattern and one per program of the case space, reached    *)
(* from one of Buckets start states (so that TLC's workers share them).                                           *)
EXTENDS RegexCases, SequencesExt
VARIABLE pat
Buckets == 16
PSeq == SetToSeq(Patterns)
QSeq == SetToSeq(Programs.twice \cup Programs.chain \cup Programs.caps \cup Programs.field \cup Programs.verbs)
Init == pat \in {[bucket |-> i] : i \in 0..(Buckets - 1)}
Next == /\ "bucket" \in DOMAIN pat
        /\ \/ pat' \in {PSeq[i] : i \in {i \in 1..Len(PSeq) : i % Buckets = pat.bucket}}
           \/ pat' \in {[prog |-> QSeq[i]] : i \in {i \in 1..Len(QSeq) : i % Buckets = pat.bucket}}

FoldStr(s) == [k \in 1..Len(s) |-> Fold(s[k])]
RECURSIVE NoUpper(_, _), NoNeg(_, _)
NodeNoUpper(n) == (\A k \in 1..Len(Chars(n)) : ~IsUpper(Chars(n)[k])) /\ NoUpper(Kids(n), 1)
NoUpper(ns, k) == k > Len(ns) \/ (NodeNoUpper(ns[k]) /\ NoUpper(ns, k + 1))
NodeNoNeg(n) == Tag(n) # "ncls" /\ NoNeg(Kids(n), 1)
NoNeg(ns, k) == k > Len(ns) \/ (NodeNoNeg(ns[k]) /\ NoNeg(ns, k + 1))
Starts(D) == {d[1] : d \in D}
MinOf(S) == CHOOSE v \in S : \A w \in S : v <= w
MaxOf(S) == CHOOSE v \in S : \A w \in S : v >= w
Count(t, tok) == Cardinality({k \in 1..Len(t) : t[k] = tok})
Simple(re) == Len(re) = 1 /\ Len(Kids(re[1])) = 1 /\ Tag(Kids(re[1])[1]) # "grp"        \* one item, no group: x, x*, x+, x?

LawsFor(re, s, ci) ==
  LET D == Den(re, s, ci)
      m == Find(re, s, ci)
      ms == All(re, s, ci)
      n == NG(re)
      nul == Nullable(re)
      g0 == GsubM(s, ms, <<>>)
  IN
  \* a match is found exactly when there is one; what is found is a match; none starts earlier
  /\ m.ok = (D # {})
  /\ m.ok => (<<m.b, m.e>> \in D /\ m.b = MinOf(Starts(D)))
  \* one greedy item: the longest match at the leftmost start
  /\ (m.ok /\ Simple(re)) => m.e = MaxOf({d[2] : d \in {d \in D : d[1] = m.b}})
  \* submatches lie inside the match
  /\ m.ok => /\ Len(m.c) = n
             /\ \A g \in 1..n : m.c[g] = <<-1, -1>> \/ (m.b <= m.c[g][1] /\ m.c[g][1] <= m.c[g][2] /\ m.c[g][2] <= m.e)
  \* all matches: the first is Find; successive, non-overlapping, each a match; an empty one never abuts its predecessor;
  \* and (patterns that cannot match the empty string) between two of them and after the last there is no match
  /\ (ms = <<>>) = ~m.ok
  /\ m.ok => ms[1] = m
  /\ \A k \in 1..Len(ms) : <<ms[k].b, ms[k].e>> \in D
  /\ \A k \in 1..(Len(ms) - 1) : ms[k].e <= ms[k + 1].b /\ (ms[k + 1].e = ms[k + 1].b => ms[k + 1].b > ms[k].e)
  /\ (~nul) => \A k \in 1..Len(ms) : LET lo == IF k = 1 THEN 0 ELSE ms[k - 1].e IN ~\E d \in D : d[1] >= lo /\ d[1] < ms[k].b
  /\ (~nul /\ ms # <<>>) => ~\E d \in D : d[1] >= ms[Len(ms)].e
  /\ (nul /\ Count(Text(re), "hat") + Count(Text(re), "dollar") = 0) => (m.ok /\ m.b = 0)   \* nullable, no anchors: a match at offset 0
  \* sub and gsub
  /\ ~m.ok => (SubM(s, m, <<"us">>) = s /\ GsubM(s, ms, <<"us">>) = s)                \* no match: the identity
  /\ (Len(ms) <= 1) => GsubM(s, ms, RefT(re)) = SubM(s, m, RefT(re))                  \* at most one match: gsub = sub
  /\ GsubM(s, ms, <<"bsl", "0">>) = s /\ SubM(s, m, <<"bsl", "0">>) = s               \* replacing each match by itself
  /\ (~nul) => Len(g0) = Len(s) - Cardinality(UNION {(ms[k].b + 1)..ms[k].e : k \in 1..Len(ms)})
  /\ (m.ok /\ m.e > m.b) => SubM(s, m, <<>>) # s
  /\ Len(GsubM(s, ms, <<"us">>)) = Len(g0) + Len(ms)
  \* regextract, =~, strmatchx agree with one another
  /\ (RegextractM(s, m).k = "absent") = ~m.ok
  /\ m.ok => (RegextractM(s, m).s = Slice(s, m.b, m.e) /\ RegextractOrElseM(s, m, <<"us">>) = RegextractM(s, m))
  /\ ~m.ok => RegextractOrElseM(s, m, <<"us">>) = Str(<<"us">>)
  /\ LET x == StrmatchXM(s, m, n) IN
       /\ (x.keys[1] = "matched:true") = m.ok
       /\ (m.ok /\ x.fs > 0) => x.full = SubSeq(s, x.fs, x.fe)                     \* s[full_start:full_end] is the capture
       /\ \A g \in 1..Len(x.st) : x.st[g] > 0 => x.caps[g] = SubSeq(s, x.st[g], x.en[g])
       /\ MXOK(x, x)
       /\ (m.ok /\ m.e > m.b) => ~MXOK(x, [x EXCEPT !.fs = @ + 1])
  /\ AfterMatchM(s, m).v[1] = (IF m.ok THEN Slice(s, m.b, m.e) ELSE <<>>)
  \* case: without upper-case letters in the pattern, matching case-insensitively is matching the folded subject
  /\ (ci /\ NodeNoUpper(Cat(re))) => LET f == Find(re, FoldStr(s), FALSE) IN f.ok = m.ok /\ (m.ok => (f.b = m.b /\ f.e = m.e /\ f.c = m.c))
  /\ (ci /\ \A k \in 1..Len(s) : Swap(s[k]) = s[k]) => m = Find(re, s, FALSE)          \* a subject without letters
  /\ (~ci /\ m.ok /\ NodeNoNeg(Cat(re))) => (LET f == Find(re, s, TRUE) IN f.ok /\ f.b <= m.b)   \* without [^...] folding only adds matches

PatLaws(p) ==
  /\ WellFormed(p.re)
  /\ Count(p.text, "lp") = p.ng /\ Count(p.text, "rp") = p.ng /\ Count(p.text, "bar") >= Len(p.re) - 1
  /\ p.nul = (<<0, 0>> \in Den(p.re, <<>>, FALSE))                                    \* nullable = matches the empty string
  /\ \A s \in Subjects(p.sa), ci \in BOOLEAN : LawsFor(p.re, s, ci) \/ PrintT(<<"law fails", p.text, s, ci>>) = FALSE
\* the programs of the case space: both readings of "captures from one record to the next" evaluate, what they give is
\* admitted, and (where the program is constrained at all) an output that lost its first record is not
ObsOf(rs) == [k \in 1..Len(rs) |-> [j \in 1..Len(rs[k]) |-> F(rs[k][j].n, [rs[k][j].v EXCEPT !.t = IF @ = "r" THEN "s" ELSE @])]]
ProgLaws(p) ==
  LET r0 == Run(p, FALSE)
      r1 == Run(p, TRUE)
      o0 == ObsOf(r0.rs)
  IN /\ Allowed(p, o0) /\ Allowed(p, ObsOf(r1.rs))
     /\ (~r0.u /\ ~r1.u /\ o0 # <<>>) => ~Allowed(p, Tail(o0))
     /\ (~r0.u /\ ~r1.u /\ o0 # <<>> /\ o0[1] # <<>>) => ~Allowed(p, <<Tail(o0[1])>> \o Tail(o0))
Laws == CASE "bucket" \in DOMAIN pat -> TRUE
          [] "prog" \in DOMAIN pat -> ProgLaws(pat.prog) \/ PrintT(<<"law fails", "program">>) = FALSE
          [] OTHER -> PatLaws(pat)
=============================================================================
