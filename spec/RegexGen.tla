------------------------------ MODULE RegexGen ------------------------------
(* Prints the case space of the regex part of C15, one family per run:                                           *)
(*   Fam = "patterns"            every pattern: [re, text, ng, nul, sa, t]                                         *)
(*   Fam = "subjects:std" / "subjects:dot"   every subject string of that alphabet (each pattern meets all of its sa) *)
(*   Fam = "twice" "chain" "caps" "field" "verbs"   every program of that family                                   *)
EXTENDS RegexCases, Json
CONSTANT Fam
VARIABLE cs
Init == CASE Fam = "patterns" -> cs \in Patterns
          [] Fam = "subjects:std" -> cs \in {[s |-> s] : s \in Subjects("std")}
          [] Fam = "subjects:dot" -> cs \in {[s |-> s] : s \in Subjects("dot")}
          [] OTHER -> cs \in Programs[Fam]
Next == UNCHANGED cs
Emit == PrintT(ToJson(cs))
=============================================================================
