---------------------------- MODULE PipelineGen ----------------------------
(* Emits every configuration of a PipeConfigs family as one JSON line.      *)
EXTENDS PipeConfigs, TLC, Json
VARIABLE c
Init == c \in MCConfigs
Next == UNCHANGED c
Emit == PrintT(ToJson(c))
=============================================================================
