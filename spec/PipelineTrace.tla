--------------------------- MODULE PipelineTrace ---------------------------
(***************************************************************************)
(* Trace validation (binding B1) of hook logs recorded from the real mlr    *)
(* (verif build, MLR_VERIF_TRACE) against Pipeline.tla.                     *)
(*                                                                         *)
(* Each line of TraceFile is one run:                                       *)
(*   cfg : the configuration the run was started with                       *)
(*   m, r, l, w : the event logs of main, record reader, line reader(s) and *)
(*                writer; v : one log per verb goroutine                    *)
(*   cut : per role, TRUE iff its log ends inside an operation (a Begin     *)
(*         hook without its End hook: the process exited there)             *)
(* An event is [s |-> name, a |-> arguments].  No order between the logs of *)
(* different goroutines is assumed: a run is accepted iff SOME interleaving *)
(* of its per-goroutine logs is a behaviour of Pipeline.  A role whose log  *)
(* was cut may complete, silently, the one operation it had begun.          *)
(* Runs are independent initial states; register t holds the largest number *)
(* of events of run t that could be matched (TLCSet/TLCGet, -workers 1).    *)
(***************************************************************************)
EXTENDS Pipeline, Json, TLCExt

CONSTANT TraceFile
Traces == ndJsonDeserialize(TraceFile)

VARIABLES t,            \* which run
          cm, cr, cl, cw, cv,   \* cursors: next event of main, reader, lines, writer, each verb
          used          \* roles that have used their cut allowance (0 lines, -1 reader, -2 writer, i verb i)

tvars == <<t, cm, cr, cl, cw, cv, used>>
T == Traces[t]

Total(k) == LET x == Traces[k] IN
  Len(x.m) + Len(x.r) + Len(x.l) + Len(x.w) + (LET S[i \in 0..Len(x.v)] == IF i = 0 THEN 0 ELSE S[i - 1] + Len(x.v[i]) IN S[Len(x.v)])
Consumed == (cm - 1) + (cr - 1) + (cl - 1) + (cw - 1)
            + (LET S[i \in 0..Len(cv)] == IF i = 0 THEN 0 ELSE S[i - 1] + cv[i] - 1 IN S[Len(cv)])

TInit == /\ t \in 1..Len(Traces)
         /\ InitWith(Traces[t].cfg)
         /\ cm = 1 /\ cr = 1 /\ cl = 1 /\ cw = 1
         /\ cv = [i \in 1..Len(Traces[t].cfg.chain) |-> 1]
         /\ used = {}
         /\ TLCSet(t, 0)

Arg(e, k) == e.a[k]

TL == /\ cl <= Len(T.l) /\ cl' = cl + 1 /\ UNCHANGED <<t, cm, cr, cw, cv, used>>
      /\ LET e == T.l[cl] IN
           CASE e.s = "pollNone"    -> LPollNone
             [] e.s = "pollDone"    -> LPollDone
             [] e.s = "sendEnd"     -> Len(lbuf) = Arg(e, 1) /\ LSend
             [] e.s = "lastSendEnd" -> Len(lbuf) = Arg(e, 1) /\ LLast
             [] OTHER -> FALSE

TR == /\ cr <= Len(T.r) /\ cr' = cr + 1 /\ UNCHANGED <<t, cm, cl, cw, cv, used>>
      /\ LET e == T.r[cr] IN
           CASE e.s = "fileStart"    -> RFileStart
             [] e.s = "openErrEnd"   -> ROpenErr
             [] e.s = "eosEnd"       -> REos
             [] e.s = "linesRecvEnd" -> IF Arg(e, 2) THEN lc # <<>> /\ Len(Head(lc)) = Arg(e, 1) /\ RRecvBatch
                                        ELSE RRecvClosed
             [] e.s = "dataErrEnd"   -> RDataErr
             [] e.s = "sendEnd"      -> Len(rbuf) = Arg(e, 1) /\ RSend
             [] OTHER -> FALSE

TV(i) == /\ cv[i] <= Len(T.v[i]) /\ cv' = [cv EXCEPT ![i] = @ + 1] /\ UNCHANGED <<t, cm, cr, cl, cw, used>>
         /\ LET e == T.v[i][cv[i]] IN
              CASE e.s = "recvEnd"        -> ch[i - 1] # <<>> /\ Len(Head(ch[i - 1])) = Arg(e, 1) /\ VRecv(i)
                [] e.s = "pollNone"       -> VPollNone(i)
                [] e.s = "pollFlag"       -> VPollFlag(i)
                [] e.s = "fwdEnd"         -> VFwd(i)
                [] e.s = "ownDoneEnd"     -> VOwn(i)
                [] e.s = "sendEnd"        -> Len(vout[i]) = Arg(e, 1) /\ (VSend(i) \/ VErrSend(i))
                [] e.s = "errPosted"      -> de = 0 /\ VErrPost(i)
                [] e.s = "errDropped"     -> de = 1 /\ VErrPost(i)
                [] e.s = "errDoneSent"    -> dd[i - 1] = 0 /\ VErrDone(i)
                [] e.s = "errDoneDropped" -> dd[i - 1] = 1 /\ VErrDone(i)
                [] e.s = "drainEnd"       -> SgDrain(i)
                [] e.s = "sgSendEnd"      -> Len(vout[i]) = Arg(e, 1) /\ SgSend(i)
                [] e.s = "sgPollNone"     -> SgPollNone(i)
                [] e.s = "sgPollFlag"     -> SgPollFlag(i)
                [] e.s = "sgFwdEnd"       -> SgFwd(i)
                [] e.s = "sgEosSendEnd"   -> SgEos(i)
                [] e.s = "sgLastSendEnd"  -> Len(vout[i]) = Arg(e, 1) /\ SgLast(i)
                [] OTHER -> FALSE

TW == /\ cw <= Len(T.w) /\ cw' = cw + 1 /\ UNCHANGED <<t, cm, cr, cl, cv, used>>
      /\ LET e == T.w[cw] IN
           CASE e.s = "recvEnd"    -> ch[N] # <<>> /\ Len(Head(ch[N])) = Arg(e, 1) /\ WRecv
             [] e.s = "errPosted"  -> de = 0 /\ WErrPost
             [] e.s = "errDropped" -> de = 1 /\ WErrPost
             [] e.s = "doneEnd"    -> WDone
             [] OTHER -> FALSE

TM == /\ cm <= Len(T.m) /\ cm' = cm + 1 /\ UNCHANGED <<t, cr, cl, cw, cv, used>>
      /\ LET e == T.m[cm] IN
           CASE e.s = "gotInputErr"    -> MGotInputErr
             [] e.s = "gotDataErr"     -> MGotDataErr
             [] e.s = "gotDone"        -> MGotDone
             [] e.s = "drainInputErr"  -> ie = 1 /\ MDrain1
             [] e.s = "drainInputNone" -> ie = 0 /\ MDrain1
             [] e.s = "drainDataErr"   -> de = 1 /\ MDrain2
             [] e.s = "drainDataNone"  -> de = 0 /\ MDrain2
             [] e.s = "return"         -> MFlush /\ (ret' = "err") = Arg(e, 1)
             [] OTHER -> FALSE

\* A role whose log was cut inside an operation may complete that one operation unobserved.
CutL == cl > Len(T.l) /\ T.cut.l /\ 0 \notin used /\ used' = used \cup {0} /\ LNext /\ UNCHANGED <<t, cm, cr, cl, cw, cv>>
CutR == cr > Len(T.r) /\ T.cut.r /\ (-1) \notin used /\ used' = used \cup {-1} /\ RNext /\ UNCHANGED <<t, cm, cr, cl, cw, cv>>
CutW == cw > Len(T.w) /\ T.cut.w /\ (-2) \notin used /\ used' = used \cup {-2} /\ WNext /\ UNCHANGED <<t, cm, cr, cl, cw, cv>>
CutV(i) == cv[i] > Len(T.v[i]) /\ T.cut.v[i] /\ i \notin used /\ used' = used \cup {i} /\ VNext(i) /\ UNCHANGED <<t, cm, cr, cl, cw, cv>>

TNext == TL \/ TR \/ TW \/ TM \/ (\E i \in 1..N : TV(i) \/ CutV(i)) \/ CutL \/ CutR \/ CutW

TSpec == TInit /\ [][TNext]_<<vars, tvars>>

Track == IF Consumed > TLCGet(t) THEN TLCSet(t, Consumed) ELSE TRUE

\* every invariant of the design is also evaluated on every state of every matched behaviour
Report == \A k \in 1..Len(Traces) :
            TLCGet(k) = Total(k) \/ PrintT(ToJson([rejected |-> k, matched |-> TLCGet(k), total |-> Total(k)]))
=============================================================================
