------------------------------ MODULE ArithGen ------------------------------
(***************************************************************************)
(* The case space of C07, defined by the specification: the boundary grid   *)
(* of int64 operands (as exact integers, emitted as decimal digit tokens),  *)
(* the small second operands of ** and the shifts, the smaller grid for the *)
(* three-argument modular functions, and the operator lists.  The harness   *)
(* forms the plain cartesian products.                                      *)
(***************************************************************************)
EXTENDS Arith, Json, SequencesExt
CONSTANT Tier                \* "quick" or "thorough"
VARIABLE x
Init == x = 0
Next == UNCHANGED x

D(s) == FromDigits(s)
PlusMinus(S) == S \cup {Neg(v) : v \in S}
Around(v) == {Sub(v, One), v, Add(v, One)}
Sqrt63 == D(<<"3","0","3","7","0","0","0","4","9","9">>)                     \* floor(sqrt(2^63))
Third63 == DivFloor(TwoTo63, FromInt(3))                                      \* floor(2^63 / 3); one more times 3 is 2^63 + 1
Alt01 == DivFloor(Sub(TwoTo64, One), FromInt(3))                              \* 0x5555555555555555
\* 107 times this is 2^63 + 61, while the nearest double of this operand is 7 less: the double-precision product of the
\* two is below the overflow threshold the reference describes although the exact product does not fit
RoundsDown == D(<<"8","6","1","9","9","7","3","8","6","6","2","1","9","4","1","6","7">>)
Nibbles == D(<<"1","3","1","1","7","6","8","4","6","7","4","6","3","7","9","0","3","2","0">>)   \* 0x123456789abcdef0

QuickGrid == { v \in
  PlusMinus({Zero, One, Two, FromInt(3), FromInt(7)}) \cup {FromInt(10), FromInt(-5), FromInt(65536)}
  \cup {Sub(Pow2(31), One), Pow2(31), Neg(Pow2(31)), Sub(Neg(Pow2(31)), One)}
  \cup {Sub(Pow2(32), One), Pow2(32), Neg(Pow2(32))}
  \cup PlusMinus({Add(Sqrt63, One)}) \cup {Sqrt63}
  \cup {Pow2(52), Pow2(53), Add(Pow2(53), One), Neg(Add(Pow2(53), One))}
  \cup {Sub(Pow2(62), One), Pow2(62), Neg(Pow2(62)), Sub(Neg(Pow2(62)), One)}
  \cup {Add(Third63, One), FromInt(107), RoundsDown}
  \cup {MaxInt64, Sub(MaxInt64, One), Neg(MaxInt64), MinInt64, Sub(TwoTo63, FromInt(1024))}
  \cup {Alt01, BitNot(Alt01), Nibbles} : Fits64(v) }

ThoroughGrid == { v \in QuickGrid
  \cup PlusMinus({FromInt(5), FromInt(10), FromInt(1000), FromInt(65535), FromInt(65536)})
  \cup UNION {PlusMinus(Around(Pow2(k))) : k \in {31, 32, 52, 53, 62, 63}}
  \cup PlusMinus({Sqrt63, Add(Sqrt63, One), Third63, Add(Third63, One)})
  \cup PlusMinus({Sub(MaxInt64, One), Sub(TwoTo63, FromInt(1024)), Sub(TwoTo63, FromInt(1025)), Sub(TwoTo63, FromInt(4096)), Sub(TwoTo63, FromInt(4097))})
  \cup {Add(MinInt64, One), Add(MinInt64, Two), FromInt(-107), Neg(RoundsDown)}
  \cup PlusMinus({D(<<"1","0","0","0","0","0","0","0","0","7">>), Pow2(16), Pow2(48), Sub(Pow2(48), One)})
  : Fits64(v) }

Grid == IF Tier = "quick" THEN QuickGrid ELSE ThoroughGrid

\* second operands of ** << >> >>>: every count around the word size, and a negative one
SmallSeconds == {FromInt(n) : n \in -1..66}

TriQuick == {Zero, One, Neg(One), Two, FromInt(7), FromInt(-7), D(<<"1","0","0","0","0","0","0","0","0","7">>),
             Add(Sqrt63, One), MaxInt64, MinInt64}
TriThorough == TriQuick \cup {FromInt(3), FromInt(-2), Pow2(32), Sub(Pow2(32), One), Pow2(62), Sub(MaxInt64, One), Neg(MaxInt64)}
Tri == IF Tier = "quick" THEN TriQuick ELSE TriThorough
\* bases for mexp with every small exponent
MexpBases == {Two, FromInt(7), FromInt(-7), Add(Sqrt63, One), MaxInt64} \cup (IF Tier = "quick" THEN {} ELSE {MinInt64, FromInt(3), Pow2(32)})

Digits(S) == SetToSeq({ToDigits(v) : v \in S})
Emit == PrintT(ToJson([grid |-> Digits(Grid), small |-> Digits(SmallSeconds), tri |-> Digits(Tri), mexpbases |-> Digits(MexpBases),
                        unary |-> SetToSeq(UnaryOps), binary |-> SetToSeq(BinaryOps), ternary |-> SetToSeq(TernaryOps),
                        smallsecond |-> SetToSeq(SmallSecond),
                        min64 |-> ToDigits(MinInt64), max64 |-> ToDigits(MaxInt64)]))
=============================================================================
