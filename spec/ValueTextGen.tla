----------------------------- MODULE ValueTextGen -----------------------------
EXTENDS ValueText, Json, SequencesExt
Spellings == {"0xff", "0xFF", "0XfF", "0b101", "0o17", "+5", "-0", "+0", "007", "-007", "1e5", "1E5", "1.50", "1.", ".5", "-.5e-3", "1.0e+05",
              "123456789012345678901234", "9223372036854775807", "9223372036854775808", "-9223372036854775809", "0x7fffffffffffffff",
              "0xffffffffffffffff", "1e400", "5.0000000000000000001", "0.1000", "1_000", "Inf", "-inf", "NaN", "true", "false", " 7", "7 ", "7 8",
              "abc", "", "1e", "0x", "--5", "3.0", "3.00", "1e-400", "00", "0.0", "-0.0", "1e0", "100000000000000000000.5", "0b", "é", "a\"b", "a b"}
Emit == PrintT(ToJson([spellings |-> SetToSeq(Spellings), ops |-> SetToSeq(Catalogue), copyops |-> SetToSeq(CopyThenChange)]))
VARIABLE x
GInit == x = 0 /\ v = [orig |-> "", text |-> "", typed |-> FALSE, assigned |-> FALSE] /\ emitted = "-"
GNext == UNCHANGED <<x, v, emitted>>
=============================================================================
