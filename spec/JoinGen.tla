------------------------------- MODULE JoinGen -------------------------------
(***************************************************************************)
(* The cases that are run (see JoinCases.tla for the parts):                *)
(*  MainU   : `join --ul --ur -j k`    x (left list, right list)            *)
(*  MainS   : `join -s --ul --ur -j k` x (sorted left, sorted right)        *)
(*  Two     : the two-join-field configurations x (left, right) of theirs   *)
(*  Sampled : NCfg configurations drawn from the whole option cross product *)
(*            x PerCfg (left, right) draws each                             *)
(*  Cross   : -l differs from -r, records carry an ordinary field named    *)
(*            like the other side's join field; every pair of lists of at  *)
(*            most MaxLen3 records                                          *)
(*  Escape  : join values holding comma / backslash; every pair of lists of *)
(*            at most MaxLen3 + 1 records                                    *)
(* MainU, MainS and Two take every pair of lists in which at least one list *)
(* is shorter than the longest length, and of the pairs of two longest      *)
(* lists either all (NLong.. = 0) or NLongU / NLongS / NLong2 (per          *)
(* configuration) draws.  All draws come from TLC's generator (-seed).      *)
(* Init enumerates the union of the parts without building it as one set.   *)
(***************************************************************************)
EXTENDS JoinCases, Json
CONSTANTS NLongU, NLongS, NLong2, Part

Short(l, r, n) == Len(l) < n \/ Len(r) < n
Longest(S, n) == {s \in S : Len(s) = n}
\* (zero-arity definitions: TLC evaluates each of these sets once)
LongLL1 == Longest(LL1, MaxLen)
LongRL1 == Longest(RL1, MaxLen)
LongSortedLL1 == Longest(Lefts1(MainCfgS), MaxLen)
LongSortedRL1 == Longest(Rights1(MainCfgS), MaxLen)
SampledConfigs == RandomSubset(NCfg, Configs1)

VARIABLE x
\* a draw: RandomElement is evaluated anew for every d
Draw(c, LS, RS, k) == \E d \in 1..k : x = Case(c, RandomElement(LS), RandomElement(RS))
\* Part = 0: everything; 1..5: one part (so that several TLC processes can share a large generation)
On(p) == Part = 0 \/ Part = p
PartU == \E l \in LL1, r \in RL1 : (NLongU = 0 \/ Short(l, r, MaxLen)) /\ x = Case(MainCfgU, l, r)
PartLongU == Draw(MainCfgU, LongLL1, LongRL1, NLongU)
PartS == \E l \in Lefts1(MainCfgS), r \in Rights1(MainCfgS) :
            (NLongS = 0 \/ Short(l, r, MaxLen)) /\ x = Case(MainCfgS, l, r)
PartLongS == Draw(MainCfgS, LongSortedLL1, LongSortedRL1, NLongS)
Part2(c) == \E l \in Lefts2(c), r \in Rights2(c) : (NLong2 = 0 \/ Short(l, r, MaxLen2)) /\ x = Case(c, l, r)
PartLong2(c) == Draw(c, Longest(Lefts2(c), MaxLen2), Longest(Rights2(c), MaxLen2), NLong2)
PartSampled == \E c \in SampledConfigs : Draw(c, Lefts1(c), Rights1(c), PerCfg)
Init == \/ (On(1) /\ PartU)
        \/ (On(2) /\ PartLongU)
        \/ (On(3) /\ (PartS \/ PartLongS))
        \/ (On(4) /\ \E c \in Configs2 : (Part2(c) \/ PartLong2(c)))
        \/ (On(5) /\ PartSampled)
        \/ (On(6) /\ \E c \in Configs3 : \E l \in Lefts3(c, MaxLen3), r \in Rights3(c, MaxLen3) : x = CaseX(c, l, r))
        \/ (On(7) /\ \E c \in Configs4 : \E l \in Lefts4(c, MaxLen3 + 1), r \in Rights4(c, MaxLen3 + 1) : x = Case(c, l, r))
        \/ (On(8) /\ \E c \in Configs5 : \E l \in Lefts5(c, MaxLen3), r \in Rights5(c, MaxLen3) : x = CaseJ(c, l, r))
Next == UNCHANGED x
Emit == PrintT(ToJson(x))
=============================================================================
