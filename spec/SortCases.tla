----------------------------- MODULE SortCases -----------------------------
(* The bounded case space of C09, one family per kind of case (a family is    *)
(* empty unless selected: TLC evaluates constant definitions eagerly).        *)
(* Exhaustive families enumerate every stream/collection up to a length;      *)
(* sampled families pick their members by a fixed arithmetic scrambling of    *)
(* the case number and Seed (a run is reproducible from VERIF_SEED).          *)
EXTENDS Sort
CONSTANTS Family,    \* which family Cases denotes
          MaxLen,    \* exhaustive length bound of the family
          NSample,   \* number of sampled members (sampled families)
          Seed

\* ---- arithmetic scrambling (all products stay below 2^31)
Prime == <<7919, 7927, 7933, 7937, 7949, 7951, 7963, 7993, 8009, 8011, 8017, 8039, 8053, 8059, 8069, 8081, 8087, 8089,
           8093, 8101, 8111, 8117, 8123, 8147, 8161, 8167, 8171, 8179, 8191, 8209, 7873, 7877, 7879, 7883, 7901, 7907,
           7841, 7853, 7867, 7829, 7823, 7817, 7793, 7789, 7759, 7757, 7753, 7741, 7727, 7723>>
H0(j, i) == (((j + (Seed % 40) * 1009) * Prime[i]) % 1000003) % 46337
H(j, i) == ((H0(j, i) * H0(j, i)) % 1000003) \div 13
Pick(j, i, S) == S[(H(j, i) % Len(S)) + 1]
SeqsUpTo(S, n) == UNION {[1..l -> S] : l \in 0..n}
Injective(w) == \A i, j \in 1..Len(w) : i # j => w[i] # w[j]

FlagSeq == <<"f", "r", "c", "cr", "n", "nf", "nr", "t", "tr", "rt">>
Id(i) == <<"i", ToString(i)>>
\* a record: its position as identity, then the key fields that are not "missing"
KeyNames == <<"x", "y", "z">>
Rec(i, vals) == <<Id(i)>> \o SelIdx([k \in 1..Len(vals) |-> <<KeyNames[k], vals[k]>>], LAMBDA k : vals[k] # "missing")
Rec1(i, v) == Rec(i, <<v>>)
SortCase(keys, flags, b, s) == [keys |-> keys, flags |-> flags, b |-> b, s |-> s]

\* ---- s1: one key, every flag, every stream of <= MaxLen records over the 19 values and "missing"
Ch1 == U \o <<"missing">>
Ch1Set == USet \cup {"missing"}
S1 == IF Family # "s1" THEN {} ELSE
  {SortCase(<<"x">>, <<f>>, FALSE, [i \in 1..Len(w) |-> Rec1(i, w[i])]) : f \in VerbFlags, w \in SeqsUpTo(Ch1Set, MaxLen)}

\* ---- s1s: one key, every flag, NSample sampled streams of 3..5 records; -b on a quarter of them
S1S == IF Family # "s1s" THEN {} ELSE
  {SortCase(<<"x">>, <<f>>, H(j, 32) % 4 = 0, [i \in 1..(3 + (H(j, 30) % 3)) |-> Rec1(i, Pick(j, i, Ch1))])
          : f \in VerbFlags, j \in 1..NSample}

\* ---- sk: two or three keys with independently chosen flags over a small tie-rich universe; 2..5 records
U2 == <<"1", "1.0", "abc", "Abc", "", "10", "missing">>
SKCase(j) ==
  LET nk == 2 + (H(j, 33) % 2)
      len == 2 + (H(j, 34) % 4) IN
  SortCase(SubSeq(KeyNames, 1, nk), [k \in 1..nk |-> Pick(j, 34 + k, FlagSeq)], H(j, 32) % 4 = 0,
           [i \in 1..len |-> Rec(i, [k \in 1..nk |-> Pick(j, 3 * i + k, U2)])])
SK == IF Family # "sk" THEN {} ELSE
  {SKCase(j) : j \in 1..NSample}

\* ---- sksep: two or three keys over texts that trouble an implementation which JOINS the key texts of a record (a proper
\* prefix followed by a byte below or above the joiner, the joiner and the escape character themselves), lexical and
\* case-folded flags; every stream of <= MaxLen records for two keys, NSample sampled ones of 3..5 records
USep == <<"Ann", "Ann Marie", "Ann-Marie", "Anna", "a,b", "a-b", "a\\b", ",", "+1", "a", "", "missing">>
LexFlags == <<"f", "r", "c", "cr">>
SepCase(j) ==
  LET nk == 2 + (H(j, 33) % 2)
      len == 3 + (H(j, 34) % 3) IN
  SortCase(SubSeq(KeyNames, 1, nk), [k \in 1..nk |-> Pick(j, 34 + k, LexFlags)], H(j, 32) % 4 = 0,
           [i \in 1..len |-> Rec(i, [k \in 1..nk |-> Pick(j, 3 * i + k, USep)])])
SKSEP == IF Family # "sksep" THEN {} ELSE
  {SortCase(<<"x", "y">>, <<f, g>>, FALSE, [i \in 1..Len(w) |-> Rec(i, w[i])]) :
       f \in {"f", "r"}, g \in {"f", "c"}, w \in SeqsUpTo({<<a, b>> : a \in {"Ann", "Ann Marie", "Ann-Marie", "a,b", "a-b", "a\\b", ""}, b \in {"Ann", ",", "+1"}}, MaxLen)}
  \cup {SepCase(j) : j \in 1..NSample}

\* ---- big: 24 records whose first 19 keys are a permutation i -> a*i+b (mod 19) of the whole universe (19 distinct
\* groups: beyond the 12 elements up to which Go sorts by insertion), the last 5 repeat earlier texts, one record
\* lacks the key; every flag
BigVal(a, b, i) == U[((a * i + b) % 19) + 1]
BigCase(f, j) ==
  LET a == 1 + (H(j, 1) % 18)   b == H(j, 2) % 19   hole == 1 + (H(j, 3) % 24) IN
  SortCase(<<"x">>, <<f>>, FALSE, [i \in 1..24 |-> Rec1(i, IF i = hole THEN "missing" ELSE BigVal(a, b, i))])
\* two keys: the first from four texts of which three are numerically equal, the second a permutation of the universe
Big2Case(j) ==
  LET a == 1 + (H(j, 1) % 18)   b == H(j, 2) % 19 IN
  SortCase(<<"x", "y">>, <<Pick(j, 40, FlagSeq), Pick(j, 41, FlagSeq)>>, FALSE,
           [i \in 1..24 |-> Rec(i, <<Pick(j, i, <<"1", "1.0", "0x1", "abc">>), BigVal(a, b, i)>>)])
BIG == IF Family # "big" THEN {} ELSE
  {BigCase(f, j) : f \in VerbFlags, j \in 1..NSample} \cup {Big2Case(j) : j \in (NSample + 1)..(4 * NSample)}

\* ---- swr: sort-within-records [-r | -n] on every record of 1..MaxLen distinct field names
KU1 == {"a", "B", "b", "ab", "a10", "a9", "x2", "x12", "10", "9"}
SWR == IF Family # "swr" THEN {} ELSE
  {[o |-> o, r |-> [i \in 1..Len(w) |-> <<w[i], ToString(i)>>]] : o \in {"", "-r", "-n"},
          w \in {v \in SeqsUpTo(KU1, MaxLen) : v # <<>> /\ Injective(v)}}

\* ---- top: top -n k -f x -a [--min] on every stream of <= MaxLen records over numbers and "missing"
UN == {"-2", "0x1", "1", "1.0", "1.5", "9", "10", "missing"}
TOP == IF Family # "top" THEN {} ELSE
  {[n |-> n, min |-> m, s |-> [i \in 1..Len(w) |-> Rec1(i, w[i])]] : n \in {1, 2, 3}, m \in BOOLEAN, w \in SeqsUpTo(UN, MaxLen)}

\* ---- DSL functions
FnCase(fn, coll, how, flags, lam, in) == [fn |-> fn, coll |-> coll, how |-> how, flags |-> flags, lam |-> lam, in |-> in]
Elems == {D(t) : t \in USet} \cup {<<"b", "true">>, <<"b", "false">>}
ElemSeq == [i \in 1..19 |-> D(U[i])] \o << <<"b", "true">>, <<"b", "false">> >>
ArrFlags == {<<>>, <<"n">>, <<"f">>, <<"c">>, <<"t">>, <<"r">>, <<"n", "r">>, <<"f", "r">>, <<"r", "f">>, <<"c", "r">>, <<"t", "r">>}
ArrModes(in) == {FnCase("sort", "array", "none", <<>>, "", in), FnCase("sort_collection", "array", "none", <<>>, "", in)}
                \cup {FnCase("sort", "array", "flags", f, "", in) : f \in ArrFlags}
                \cup {FnCase("sort", "array", "lambda", <<>>, l, in) : l \in {"ab", "ba"}}
\* arr: every array of <= MaxLen elements (the 19 texts as field values, and the booleans true and false)
ARR == IF Family # "arr" THEN {} ELSE
  UNION {ArrModes(in) : in \in SeqsUpTo(Elems, MaxLen)}
\* arrs: sampled arrays of 4..7 elements, and arrays of 24 (a permutation of the universe, booleans, repeats)
ArrSample(j) == [i \in 1..(4 + (H(j, 30) % 4)) |-> Pick(j, i, ElemSeq)]
ArrBig(j) == LET a == 1 + (H(j, 1) % 18)   b == H(j, 2) % 19 IN
             [i \in 1..24 |-> IF i % 11 = 5 THEN <<"b", IF H(j, i) % 2 = 0 THEN "true" ELSE "false">> ELSE D(BigVal(a, b, i))]
ARRS == IF Family # "arrs" THEN {} ELSE
  UNION {ArrModes(ArrSample(j)) : j \in 1..NSample} \cup UNION {ArrModes(ArrBig(j)) : j \in 1..(NSample \div 8 + 1)}

\* mapk: maps sorted by key: every sequence of <= MaxLen distinct keys (values 1, 9, 1, ...), plus NSample sampled ones
\* of 4..6 keys
KU2Seq == <<"a9", "a10", "Abc", "abc", "B", "9", "10", "1e1", "5x", "0xB", "-2", "1.5">>
KU2 == {KU2Seq[i] : i \in 1..Len(KU2Seq)}
MapKFlags == {<<"n">>, <<"f">>, <<"c">>, <<"t">>, <<"r">>, <<"f", "r">>, <<"c", "r">>, <<"t", "r">>, <<"n", "r">>}
MapKModes(in) == {FnCase("sort", "map", "none", <<>>, "", in)}
                 \cup {FnCase("sort", "map", "flags", f, "", in) : f \in MapKFlags}
                 \cup {FnCase("sort", "map", "lambda", <<>>, l, in) : l \in {"akbk", "bkak"}}
MapOfKeys(w) == [i \in 1..Len(w) |-> <<w[i], D(IF i % 2 = 1 THEN "1" ELSE "9")>>]
\* sampled: a rotation-and-stride walk through the keys (distinct because 12 and the stride are coprime)
MapKSample(j) == LET stride == <<1, 5, 7, 11>>[1 + (H(j, 1) % 4)]   off == H(j, 2) % 12 IN
                 MapOfKeys([i \in 1..(4 + (H(j, 3) % 3)) |-> KU2Seq[((off + stride * i) % 12) + 1]])
MAPK == IF Family # "mapk" THEN {} ELSE
  UNION {MapKModes(MapOfKeys(w)) : w \in {v \in SeqsUpTo(KU2, MaxLen) : Injective(v)}}
        \cup UNION {MapKModes(MapKSample(j)) : j \in 1..NSample}

\* mapv: maps sorted by value (and sort_collection of a map): keys b, a, ab, B in this order, every sequence of
\* <= MaxLen values, plus sampled ones of 4 values
MapVKeys == <<"b", "a", "ab", "B">>
MapVFlags == {<<"v">>, <<"v", "n">>, <<"v", "f">>, <<"v", "c">>, <<"v", "t">>, <<"v", "r">>, <<"v", "n", "r">>, <<"v", "f", "r">>,
              <<"v", "c", "r">>, <<"t", "r", "v">>, <<"r", "v">>}
MapVModes(in) == {FnCase("sort_collection", "map", "none", <<>>, "", in)}
                 \cup {FnCase("sort", "map", "flags", f, "", in) : f \in MapVFlags}
                 \cup {FnCase("sort", "map", "lambda", <<>>, l, in) : l \in {"avbv", "bvav"}}
MapOfVals(w) == [i \in 1..Len(w) |-> <<MapVKeys[i], D(w[i])>>]
MAPV == IF Family # "mapv" THEN {} ELSE
  UNION {MapVModes(MapOfVals(w)) : w \in SeqsUpTo(USet, MaxLen)}
        \cup UNION {MapVModes(MapOfVals([i \in 1..4 |-> Pick(j, i, U)])) : j \in 1..NSample}

Cases == CASE Family = "s1" -> S1 [] Family = "s1s" -> S1S [] Family = "sk" -> SK [] Family = "sksep" -> SKSEP [] Family = "big" -> BIG
           [] Family = "swr" -> SWR [] Family = "top" -> TOP [] Family = "arr" -> ARR [] Family = "arrs" -> ARRS
           [] Family = "mapk" -> MAPK [] Family = "mapv" -> MAPV
=============================================================================
