------------------------------- MODULE Strings -------------------------------
(***************************************************************************)
(* The case-analysis part of the string library (C15): indexing, slicing,   *)
(* padding, case, stripping, literal replacement, split/join.  Written from *)
(* reference-main-strings.md (1-up indices, negative aliases -n..-1 for     *)
(* 1..n, slices inclusive on both sides, out-of-bounds index = error,       *)
(* out-of-bounds slice = trimmed) and the texts of `mlr help function ...`. *)
(*                                                                         *)
(* A string is a SEQUENCE OF ABSTRACT CHARACTERS.  A character is a name;   *)
(* what the specification knows about it is its UTF-8 byte width (1..4),    *)
(* whether it is whitespace and its case partner.  The harness maps names   *)
(* to fixed representatives (a, A, é, É, 中, 😀, space, tab, ...) and       *)
(* tokenises results back by code point; an unexpected code point becomes   *)
(* the token "other", so that a function working on bytes cannot conform    *)
(* on a string with multi-byte characters.                                  *)
(*                                                                         *)
(* Every function is a predicate  Allowed(case, result).  Where the texts   *)
(* fix the result it admits exactly one result; where they are silent it    *)
(* admits every reading (noted at the operator).                            *)
(***************************************************************************)
EXTENDS Integers, Sequences, FiniteSets, TLC

\* ---- abstract characters ------------------------------------------------------------------
Chars == {"a", "A", "b", "B", "e2", "E2", "c3", "g4", "sp", "tab", "dot", "star", "comma", "eq",
          "1", "2", "3", "4", "5", "6", "7", "8", "9",
          "bel", "bs", "ff", "lf", "cr", "vt", "bsl", "dq"}          \* (control characters, backslash, double quote: literals only)
Width(c) == CASE c \in {"e2", "E2"} -> 2 [] c = "c3" -> 3 [] c = "g4" -> 4 [] OTHER -> 1
IsSpace(c) == c \in {"sp", "tab"}
\* Case partners.  "Convert string to uppercase" is definite for ASCII letters.  e2/E2 stands for a non-ASCII pair
\* (é/É): the help texts do not say whether the conversion is ASCII-only or Unicode, so both images are admitted.
\* Characters without a case partner (c3, g4, whitespace, punctuation) must come out unchanged.
UpperOf(c) == CASE c = "a" -> {"A"} [] c = "b" -> {"B"} [] c = "e2" -> {"e2", "E2"} [] OTHER -> {c}
LowerOf(c) == CASE c = "A" -> {"a"} [] c = "B" -> {"b"} [] c = "E2" -> {"e2", "E2"} [] OTHER -> {c}
\* the byte string of a character string (used only to show that the case space separates the two readings)
RECURSIVE ByteLen(_)
ByteLen(s) == IF s = <<>> THEN 0 ELSE Width(s[1]) + ByteLen(Tail(s))

Min(a, b) == IF a <= b THEN a ELSE b
Max(a, b) == IF a >= b THEN a ELSE b
MinOf(S) == CHOOSE x \in S : \A y \in S : x <= y
Sub(s, lo, hi) == IF lo > hi THEN <<>> ELSE SubSeq(s, lo, hi)        \* total version of SubSeq
RECURSIVE Rep(_, _)
Rep(p, k) == IF k <= 0 THEN <<>> ELSE p \o Rep(p, k - 1)

\* ---- results ----------------------------------------------------------------------------------
\* [k: typeof name, s: characters (strings), n: value (ints), a: values (arrays, maps), ks: keys (maps)]
Res(k, s, n, a, ks) == [k |-> k, s |-> s, n |-> n, a |-> a, ks |-> ks]
RStr(s)  == Res(IF s = <<>> THEN "empty" ELSE "string", s, 0, <<>>, <<>>)      \* typeof("") is "empty"
RInt(n)  == Res("int", <<>>, n, <<>>, <<>>)
RBool(b) == Res("boolean", <<IF b THEN "true" ELSE "false">>, 0, <<>>, <<>>)
RErr     == Res("error", <<>>, 0, <<>>, <<>>)
RArr(a)  == Res("array", <<>>, 0, a, <<>>)
RMap(ks, a) == Res("map", <<>>, 0, a, ks)
IsStr(r) == r.k \in {"string", "empty"} /\ r = RStr(r.s)

\* ---- occurrences of a literal pattern ---------------------------------------------------------------
OccursAt(s, p, k) == k >= 1 /\ k + Len(p) - 1 <= Len(s) /\ SubSeq(s, k, k + Len(p) - 1) = p
Occs(s, p) == {k \in 1..Len(s) : OccursAt(s, p, k)}                \* p non-empty
IsSubstring(v, s) == \E lo \in 1..(Len(s) + 1), hi \in 0..Len(s) : v = Sub(s, lo, hi)
\* The help is silent on this part of the domain: any error, absent, or (contiguous) substring of the argument
Loose(s, r) == r.k \in {"error", "absent"} \/ (IsStr(r) /\ IsSubstring(r.s, s))

\* ---- indices ------------------------------------------------------------------------------------
\* "If a string has length n then -n..-1 are aliases for 1..n, respectively; 0 is never a valid string index"
Alias1(i, n) == IF i < 0 THEN i + n + 1 ELSE i
InB1(i, n) == i # 0 /\ -n <= i /\ i <= n
\* substr0: "0-up position ... Negative indices -len .. -1 alias to 0 .. len-1"
Alias0(i, n) == IF i < 0 THEN i + n ELSE i
InB0(i, n) == -n <= i /\ i <= n - 1

\* s[i]: "Out-of-bounds index accesses are errors"
Index(s, i) == IF InB1(i, Len(s)) THEN RStr(<<s[Alias1(i, Len(s))]>>) ELSE RErr
\* s[i:j]: "inclusive on both sides: x[3:5] means x[3] . x[4] . x[5]"; "out-of-bounds slice accesses result in trimming
\* the indices, resulting in a short string or even the empty string. (This behavior intentionally imitates Python.)"
Trim(s, i, j) == LET n == Len(s) IN Sub(s, Max(Alias1(i, n), 1), Min(Alias1(j, n), n))
\* a slice bound 0 is out of bounds (trimmed) by one sentence and "never a valid string index" by another: both readings
SliceOK(s, i, j, r) == r = RStr(Trim(s, i, j)) \/ ((i = 0 \/ j = 0) /\ r = RErr)
\* substr1(s,m,n) "gives substring of s from 1-up position m to n inclusive"; nothing is said about positions outside
\* the string or m > n
Substr1OK(s, i, j, r) ==
  LET n == Len(s) IN
  IF InB1(i, n) /\ InB1(j, n) /\ Alias1(i, n) <= Alias1(j, n) THEN r = RStr(SubSeq(s, Alias1(i, n), Alias1(j, n)))
  ELSE Loose(s, r)
Substr0OK(s, i, j, r) ==
  LET n == Len(s) IN
  IF InB0(i, n) /\ InB0(j, n) /\ Alias0(i, n) <= Alias0(j, n) THEN r = RStr(SubSeq(s, Alias0(i, n) + 1, Alias0(j, n) + 1))
  ELSE Loose(s, r)
\* truncate: "Truncates string first argument to max length of int second argument" (negative lengths: silent)
Take(s, k) == Sub(s, 1, Min(k, Len(s)))
TruncateOK(s, k, r) == IF k >= 0 THEN r = RStr(Take(s, k)) ELSE Loose(s, r)

\* ---- padding ------------------------------------------------------------------------------------
\* "Left-pads first argument to at most the specified length ... using specified pad value":
\* leftpad("abcdefg", 10, "XY") gives "XYabcdefg" -- as many whole copies of the pad as fit; lengths in characters
\* (an EMPTY pad can fill nothing: no copy of it "fits"; the call returns its first argument, or an error)
PadCount(k, ls, lp) == IF k > ls /\ lp > 0 THEN (k - ls) \div lp ELSE 0
LeftPad(s, k, p)  == Rep(p, PadCount(k, Len(s), Len(p))) \o s
RightPad(s, k, p) == s \o Rep(p, PadCount(k, Len(s), Len(p)))

\* ---- case -------------------------------------------------------------------------------------
ImageOK(s, t, F(_)) == Len(t) = Len(s) /\ \A k \in 1..Len(s) : t[k] \in F(s[k])
UpperOK(s, r) == IsStr(r) /\ ImageOK(s, r.s, UpperOf)
LowerOK(s, r) == IsStr(r) /\ ImageOK(s, r.s, LowerOf)
\* "Convert string's first character to uppercase"
CapitalizeOK(s, r) == IsStr(r) /\ Len(r.s) = Len(s) /\
                      (s # <<>> => (r.s[1] \in UpperOf(s[1]) /\ Tail(r.s) = Tail(s)))

\* ---- whitespace ---------------------------------------------------------------------------------
RECURSIVE LStrip(_)
LStrip(s) == IF s # <<>> /\ IsSpace(s[1]) THEN LStrip(Tail(s)) ELSE s
RECURSIVE RStrip(_)
RStrip(s) == IF s # <<>> /\ IsSpace(s[Len(s)]) THEN RStrip(SubSeq(s, 1, Len(s) - 1)) ELSE s
Strip(s) == LStrip(RStrip(s))
\* collapse_whitespace: "Strip repeated whitespace from string" (the verb: "replacing multiple whitespace with
\* singles").  The texts speak of whitespace as a class: every maximal run of whitespace becomes ONE whitespace
\* character; which member of the class survives is not stated, so any is admitted.  Other characters are kept.
RECURSIVE Skel(_)
Skel(s) == IF s = <<>> THEN <<>>
           ELSE IF IsSpace(s[1]) THEN <<"ws">> \o Skel(LStrip(s)) ELSE <<s[1]>> \o Skel(Tail(s))
Blur(s) == [k \in 1..Len(s) |-> IF IsSpace(s[k]) THEN "ws" ELSE s[k]]
CollapseOK(s, r) == IsStr(r) /\ Blur(r.s) = Skel(s)
\* clean_whitespace: "Same as collapse_whitespace and strip, followed by type inference"
CleanOK(s, r) == IsStr(r) /\ Blur(r.s) = Skel(Strip(s))

\* ---- literal replacement ---------------------------------------------------------------------------
\* ssub: "Like sub but does no regexing. No characters are special"; sub: "replace once (first match, if there are
\* multiple matches)"
Ssub(s, p, q) == IF Occs(s, p) = {} THEN s
                 ELSE LET k == MinOf(Occs(s, p)) IN Sub(s, 1, k - 1) \o q \o Sub(s, k + Len(p), Len(s))
\* gssub: "Like gsub but does no regexing"; gsub: "replace all".  Which of several overlapping occurrences are
\* replaced is not stated: any maximal set of non-overlapping occurrences (the leftmost-first scan is one of them)
RECURSIVE GssubSet(_, _, _)
GssubSet(s, p, q) ==
  IF Occs(s, p) = {} THEN {s}
  ELSE UNION { {Sub(s, 1, k - 1) \o q \o x : x \in GssubSet(Sub(s, k + Len(p), Len(s)), p, q)} :
               k \in {k \in Occs(s, p) : Occs(Sub(s, 1, k - 1), p) = {}} }
RECURSIVE GssubLeft(_, _, _)
GssubLeft(s, p, q) == IF Occs(s, p) = {} THEN s
                      ELSE LET k == MinOf(Occs(s, p)) IN Sub(s, 1, k - 1) \o q \o GssubLeft(Sub(s, k + Len(p), Len(s)), p, q)

\* ---- split / join ---------------------------------------------------------------------------------
\* pieces between the occurrences of a non-empty separator (one character in the case space, so occurrences never
\* overlap)
RECURSIVE Split(_, _)
Split(s, sep) == IF Occs(s, sep) = {} THEN <<s>>
                 ELSE LET k == MinOf(Occs(s, sep)) IN <<Sub(s, 1, k - 1)>> \o Split(Sub(s, k + Len(sep), Len(s)), sep)
RECURSIVE Join(_, _)
Join(a, sep) == IF a = <<>> THEN <<>> ELSE IF Len(a) = 1 THEN a[1] ELSE a[1] \o sep \o Join(Tail(a), sep)
\* keys of an array / of splitnv's "integer-indexed map": "1", "2", ... (one character each: at most 9 pieces)
IndexKeys(n) == [k \in 1..n |-> <<ToString(k)>>]
\* whether splitting the empty string gives no piece or one empty piece is not stated
SplitArrOK(s, sep, r) == IF s = <<>> THEN r \in {RArr(<<>>), RArr(<< <<>> >>)} ELSE r = RArr(Split(s, sep))
SplitMapOK(s, sep, r) == IF s = <<>> THEN r \in {RMap(<<>>, <<>>), RMap(IndexKeys(1), << <<>> >>)}
                         ELSE LET a == Split(s, sep) IN r = RMap(IndexKeys(Len(a)), a)
KeysOf(a, ks) == IF ks = <<>> THEN IndexKeys(Len(a)) ELSE ks          \* an array (ks empty) is keyed 1..n
Pairs(a, ks, ps) == [k \in 1..Len(a) |-> KeysOf(a, ks)[k] \o ps \o a[k]]
\* splitkvx: "a=3,b=4,c=5" -> {"a":"3","b":"4","c":"5"}; defined here on well-formed text only (every field has the pair
\* separator once, keys distinct and non-empty)
SplitKV(s, ps, fs) == LET f == Split(s, fs)
                          kv == [k \in 1..Len(f) |-> Split(f[k], ps)]
                      IN RMap([k \in 1..Len(f) |-> kv[k][1]], [k \in 1..Len(f) |-> kv[k][2]])

\* ---- string literals of the DSL ----------------------------------------------------------------------
\* reference-main-strings.md, "Escape sequences for string literals": the named escapes and the character each denotes;
\* "\123: Octal 123, etc. for \000 up to \377", "\x7f: Hexadecimal 7f, etc.", "\u2766, \U00010877: Unicode literals ...
\* four hex digits after \u and eight hex digits after \U".  A literal without escapes denotes its characters.
Named == [bel |-> "\\a", bs |-> "\\b", ff |-> "\\f", lf |-> "\\n", cr |-> "\\r", tab |-> "\\t", vt |-> "\\v",
          bsl |-> "\\\\", dq |-> "\\\""]
EscapeKinds == {"named", "octal", "hex", "u4", "U8"}

(***************************************************************************)
(* Cases: [f, s, t, u, i, j, a, ks]                                          *)
(*   f function; s, t, u string arguments; i, j integer arguments;          *)
(*   a array argument (or map values), ks map keys                          *)
(***************************************************************************)
Allowed(c, r) ==
  CASE c.f = "strlen"      -> r = RInt(Len(c.s))
    [] c.f = "toupper"     -> UpperOK(c.s, r)
    [] c.f = "tolower"     -> LowerOK(c.s, r)
    [] c.f = "capitalize"  -> CapitalizeOK(c.s, r)
    [] c.f = "lstrip"      -> r = RStr(LStrip(c.s))
    [] c.f = "rstrip"      -> r = RStr(RStrip(c.s))
    [] c.f = "strip"       -> r = RStr(Strip(c.s))
    [] c.f = "collapse_whitespace" -> CollapseOK(c.s, r)
    [] c.f = "clean_whitespace"    -> CleanOK(c.s, r)
    [] c.f = "index1"      -> r = Index(c.s, c.i)                       \* s[i]
    [] c.f = "slice"       -> SliceOK(c.s, c.i, c.j, r)                  \* s[i:j]
    [] c.f = "substr1"     -> Substr1OK(c.s, c.i, c.j, r)
    [] c.f = "substr0"     -> Substr0OK(c.s, c.i, c.j, r)
    [] c.f = "substr"      -> Substr0OK(c.s, c.i, c.j, r)                \* "substr is an alias for substr0"
    [] c.f = "truncate"    -> TruncateOK(c.s, c.i, r)
    [] c.f = "leftpad"     -> r = RStr(LeftPad(c.s, c.i, c.t)) \/ (c.t = <<>> /\ r.k = "error")
    [] c.f = "rightpad"    -> r = RStr(RightPad(c.s, c.i, c.t)) \/ (c.t = <<>> /\ r.k = "error")
    [] c.f = "dot"         -> r = RStr(c.s \o c.t)
    [] c.f = "ssub"        -> r = RStr(Ssub(c.s, c.t, c.u))
    [] c.f = "gssub"       -> IsStr(r) /\ r.s \in GssubSet(c.s, c.t, c.u)
    \* index: "Returns the index (1-based) of the second argument within the first. Returns -1 if the second argument
    \* isn't a substring of the first. Uses UTF-8 encoding to count characters, not bytes." (which occurrence: not stated)
    [] c.f = "index"       -> IF Occs(c.s, c.t) = {} THEN r = RInt(-1) ELSE r.k = "int" /\ r = RInt(r.n) /\ r.n \in Occs(c.s, c.t)
    [] c.f = "contains"    -> r = RBool(Occs(c.s, c.t) # {})
    [] c.f \in {"splitax", "splita"}   -> SplitArrOK(c.s, c.t, r)
    [] c.f \in {"splitnv", "splitnvx"} -> SplitMapOK(c.s, c.t, r)
    [] c.f = "joinv"       -> r = RStr(Join(c.a, c.t))
    [] c.f = "joink"       -> r = RStr(Join(KeysOf(c.a, c.ks), c.t))
    [] c.f = "joinkv"      -> r = RStr(Join(Pairs(c.a, c.ks, c.t), c.u))
    \* the inverse pairs, evaluated by the implementation as compositions
    [] c.f = "join_split"  -> r = RStr(c.s)                               \* joinv(splitax(s, t), t)
    [] c.f = "split_join"  -> SplitArrOK(Join(c.a, c.t), c.t, r)          \* splitax(joinv(a, t), t)
    [] c.f = "splitkvx_joinkv" -> r = SplitKV(Join(Pairs(c.a, c.ks, c.t), c.u), c.t, c.u)   \* splitkvx(joinkv(m, t, u), t, u)
    \* a string literal "..." of the characters s evaluates to s
    [] c.f = "literal"     -> r = RStr(c.s)
    \* an escape sequence of kind t (for "named": spelled u[1]) denoting the character s[1], compared by == with that
    \* character read from data
    [] c.f = "escape"      -> c.t[1] \in EscapeKinds /\ r = RBool(TRUE)
    [] OTHER -> FALSE

\* One admitted result per case (the trimmed / leftmost / ASCII-only reading): shows that Allowed is satisfiable
\* everywhere and serves the laws in StringsMC.
UpperA(s) == [k \in 1..Len(s) |-> IF s[k] = "a" THEN "A" ELSE IF s[k] = "b" THEN "B" ELSE s[k]]
LowerA(s) == [k \in 1..Len(s) |-> IF s[k] = "A" THEN "a" ELSE IF s[k] = "B" THEN "b" ELSE s[k]]
UpperU(s) == [k \in 1..Len(s) |-> IF s[k] = "e2" THEN "E2" ELSE UpperA(s)[k]]
LowerU(s) == [k \in 1..Len(s) |-> IF s[k] = "E2" THEN "e2" ELSE LowerA(s)[k]]
Canon(s) == [k \in 1..Len(Skel(s)) |-> IF Skel(s)[k] = "ws" THEN "sp" ELSE Skel(s)[k]]
Witness(c) ==
  CASE c.f = "strlen"      -> RInt(Len(c.s))
    [] c.f = "toupper"     -> RStr(UpperA(c.s))
    [] c.f = "tolower"     -> RStr(LowerA(c.s))
    [] c.f = "capitalize"  -> RStr(IF c.s = <<>> THEN <<>> ELSE UpperA(<<c.s[1]>>) \o Tail(c.s))
    [] c.f = "lstrip"      -> RStr(LStrip(c.s))
    [] c.f = "rstrip"      -> RStr(RStrip(c.s))
    [] c.f = "strip"       -> RStr(Strip(c.s))
    [] c.f = "collapse_whitespace" -> RStr(Canon(c.s))
    [] c.f = "clean_whitespace"    -> RStr(Canon(Strip(c.s)))
    [] c.f = "index1"      -> Index(c.s, c.i)
    [] c.f = "slice"       -> RStr(Trim(c.s, c.i, c.j))
    [] c.f = "substr1"     -> RStr(Trim(c.s, IF c.i = 0 THEN 1 ELSE c.i, c.j))
    [] c.f \in {"substr0", "substr"} -> RStr(Trim(c.s, IF c.i >= 0 THEN c.i + 1 ELSE c.i, IF c.j >= 0 THEN c.j + 1 ELSE c.j))
    [] c.f = "truncate"    -> RStr(Take(c.s, Max(c.i, 0)))
    [] c.f = "leftpad"     -> RStr(LeftPad(c.s, c.i, c.t))
    [] c.f = "rightpad"    -> RStr(RightPad(c.s, c.i, c.t))
    [] c.f = "dot"         -> RStr(c.s \o c.t)
    [] c.f = "ssub"        -> RStr(Ssub(c.s, c.t, c.u))
    [] c.f = "gssub"       -> RStr(GssubLeft(c.s, c.t, c.u))
    [] c.f = "index"       -> RInt(IF Occs(c.s, c.t) = {} THEN -1 ELSE MinOf(Occs(c.s, c.t)))
    [] c.f = "contains"    -> RBool(Occs(c.s, c.t) # {})
    [] c.f \in {"splitax", "splita"}   -> IF c.s = <<>> THEN RArr(<<>>) ELSE RArr(Split(c.s, c.t))
    [] c.f \in {"splitnv", "splitnvx"} -> IF c.s = <<>> THEN RMap(<<>>, <<>>) ELSE RMap(IndexKeys(Len(Split(c.s, c.t))), Split(c.s, c.t))
    [] c.f = "joinv"       -> RStr(Join(c.a, c.t))
    [] c.f = "joink"       -> RStr(Join(KeysOf(c.a, c.ks), c.t))
    [] c.f = "joinkv"      -> RStr(Join(Pairs(c.a, c.ks, c.t), c.u))
    [] c.f = "join_split"  -> RStr(c.s)
    [] c.f = "split_join"  -> IF Join(c.a, c.t) = <<>> THEN RArr(<<>>) ELSE RArr(Split(Join(c.a, c.t), c.t))
    [] c.f = "splitkvx_joinkv" -> SplitKV(Join(Pairs(c.a, c.ks, c.t), c.u), c.t, c.u)
    [] c.f = "literal"     -> RStr(c.s)
    [] c.f = "escape"      -> RBool(TRUE)
=============================================================================
