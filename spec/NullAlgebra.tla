----------------------------- MODULE NullAlgebra -----------------------------
(***************************************************************************)
(* The null-data algebra of the Miller DSL (C08), as a rule table written   *)
(* from reference-main-null-data.md ("Rules for null-handling", "Arithmetic *)
(* rules": the printed tables for +, && and ||), reference-main-arithmetic  *)
(* and the built-in function help texts.  A value is [k |-> kind, v |->     *)
(* text]; a cell is (operator, left, right, result).  Every rule is an      *)
(* implication; a cell no rule speaks about is unconstrained (it must only  *)
(* not crash).  Rule names are reported so that the evidence can say how    *)
(* many cells each rule decided.                                            *)
(***************************************************************************)
EXTENDS Integers, Sequences, FiniteSets, TLC

Kinds == {"int", "float", "boolean", "empty", "string", "array", "map", "funct", "error", "absent"}

Arith   == {"+", "-", "*", "/", "//", "%", "**", ".+", ".-", ".*", "./"}
Bitwise == {"&", "|", "^", "<<", ">>", ">>>"}
MinMax  == {"min", "max"}
Logical == {"&&", "||"}
Commutative == {"+", "*", ".+", ".*", "&", "|", "^", "min", "max", "==", "!="}
MathUnary == {"abs", "ceil", "floor", "round", "sgn", "exp", "expm1", "log", "log10", "log1p", "sqrt", "cbrt",
              "sin", "cos", "tan", "asin", "acos", "atan", "sinh", "cosh", "tanh", "asinh", "acosh", "atanh",
              "invqnorm", "qnorm", "exec_time_dummy"} \ {"exec_time_dummy"}

Num(x) == x.k \in {"int", "float"}
Same(r, x) == r.k = x.k /\ r.v = x.v

(***************************************************************************)
(* The table printed in the reference for "+" (rows: left operand), over    *)
(* int, float, boolean, empty, absent, error.  "L"/"R": the left/right      *)
(* operand itself; "num": a number computed from both.                      *)
(***************************************************************************)
K6 == <<"int", "float", "boolean", "empty", "absent", "error">>
Idx6(k) == CHOOSE i \in 1..6 : K6[i] = k
PlusTable ==
  << <<"num",   "num",   "error", "L",     "L",      "error">>,    \* 1
     <<"num",   "num",   "error", "L",     "L",      "error">>,    \* 2.5
     <<"error", "error", "error", "error", "error",  "error">>,    \* true
     <<"R",     "R",     "error", "empty", "absent", "error">>,    \* (empty)
     <<"R",     "R",     "error", "absent", "absent", "error">>,   \* (absent)
     <<"error", "error", "error", "error", "error",  "error">> >>  \* (error)

\* "&&" and "||" tables of the reference, over true, false, int, empty, absent, error
L6 == <<"true", "false", "int", "empty", "absent", "error">>
LIdx(x) == IF x.k = "boolean" THEN (IF x.v = "true" THEN 1 ELSE 2)
           ELSE CHOOSE i \in 3..6 : L6[i] = x.k
AndTable ==
  << <<"true",  "false", "error", "error",  "absent", "error">>,
     <<"false", "false", "false", "false",  "false",  "false">>,
     <<"error", "error", "error", "error",  "absent", "error">>,
     <<"true",  "false", "error", "error",  "absent", "error">>,
     <<"true",  "false", "error", "absent", "absent", "error">>,
     <<"error", "error", "error", "error",  "error",  "error">> >>
OrTable ==
  << <<"true",  "true",  "true",  "true",   "true",   "true">>,
     <<"true",  "false", "error", "error",  "absent", "error">>,
     <<"error", "error", "error", "error",  "absent", "error">>,
     <<"true",  "false", "error", "error",  "absent", "error">>,
     <<"true",  "false", "error", "absent", "absent", "error">>,
     <<"error", "error", "error", "error",  "error",  "error">> >>

InK6(x) == x.k \in {"int", "float", "boolean", "empty", "absent", "error"}
InL6(x) == x.k \in {"boolean", "int", "empty", "absent", "error"}

TableCellOK(t, a, b, r) ==
  CASE t = "num"    -> Num(r)
    [] t = "error"  -> r.k = "error"
    [] t = "empty"  -> r.k = "empty"
    [] t = "absent" -> r.k = "absent"
    [] t = "L"      -> Same(r, a)
    [] t = "R"      -> Same(r, b)
    [] t = "true"   -> r.k = "boolean" /\ r.v = "true"
    [] t = "false"  -> r.k = "boolean" /\ r.v = "false"

(***************************************************************************)
(* Which rule decides a binary cell ("" = unconstrained)                    *)
(***************************************************************************)
RuleOf(op, a, b) ==
  CASE op = "+" /\ InK6(a) /\ InK6(b) -> "plus-table"
    [] op = "&&" /\ InL6(a) /\ InL6(b) -> "and-table"
    [] op = "||" /\ InL6(a) /\ InL6(b) -> "or-table"
    \* "Other arithmetic, boolean, and bitwise operators ... are similar to +": the null-related cells
    [] op \in (Arith \cup Bitwise) /\ a.k = "absent" /\ b.k = "absent" -> "absent-absent"
    [] op \in (Arith \cup Bitwise) /\ a.k = "empty" /\ b.k = "empty" -> "empty-empty"
    [] op \in (Arith \cup Bitwise) /\ {a.k, b.k} = {"empty", "absent"} -> "empty-absent"
    \* "an error operand combined with any scalar yields an error" (for an absent partner only the + table speaks)
    [] op \in (Arith \cup Bitwise) /\ (a.k = "error" \/ b.k = "error") /\ InK6(a) /\ InK6(b)
         /\ a.k # "absent" /\ b.k # "absent" -> "error-operand"
    [] op \in Arith /\ a.k = "absent" /\ Num(b) -> "null-number"
    [] op \in Arith /\ Num(a) /\ b.k = "absent" -> "number-null"
    [] op \in Bitwise /\ a.k = "absent" /\ b.k = "int" -> "null-number"
    [] op \in Bitwise /\ a.k = "int" /\ b.k = "absent" -> "number-null"
    \* "empty works like 0 for addition and subtraction, and like 1 for multiplication"
    [] op \in {"+", "-", "*", ".+", ".-", ".*"} /\ a.k = "empty" /\ Num(b) -> "null-number"
    [] op \in {"+", "-", "*", ".+", ".-", ".*"} /\ Num(a) /\ b.k = "empty" -> "number-null"
    \* the other operators: "most functions/operators which have one or more empty arguments produce empty output",
    \* or, reading "similar to +", the number: either
    [] op \in (Arith \cup Bitwise) /\ a.k = "empty" /\ Num(b) -> "empty-number-other"
    [] op \in (Arith \cup Bitwise) /\ Num(a) /\ b.k = "empty" -> "empty-number-other"
    [] op \in (Arith \cup Bitwise) /\ a.k = "boolean" /\ InK6(b) /\ b.k \notin {"absent"} -> "boolean-operand"
    [] op \in (Arith \cup Bitwise) /\ b.k = "boolean" /\ InK6(a) /\ a.k \notin {"absent"} -> "boolean-operand"
    \* min/max: "null loses"; absent is the identity
    [] op \in MinMax /\ a.k = "absent" /\ b.k = "absent" -> "absent-absent"
    [] op \in MinMax /\ a.k = "empty" /\ b.k = "empty" -> "empty-empty"
    [] op \in MinMax /\ a.k \in {"absent", "empty"} /\ Num(b) -> "minmax-null-loses"
    [] op \in MinMax /\ Num(a) /\ b.k \in {"absent", "empty"} -> "minmax-null-loses"
    [] OTHER -> ""

BinaryOK(op, a, b, r) ==
  LET rule == RuleOf(op, a, b) IN
  CASE rule = "" -> TRUE
    [] rule = "plus-table" -> TableCellOK(PlusTable[Idx6(a.k)][Idx6(b.k)], a, b, r)
    [] rule = "and-table"  -> TableCellOK(AndTable[LIdx(a)][LIdx(b)], a, b, r)
    [] rule = "or-table"   -> TableCellOK(OrTable[LIdx(a)][LIdx(b)], a, b, r)
    [] rule = "absent-absent" -> r.k = "absent"
    [] rule = "empty-empty"   -> r.k = "empty"
    [] rule = "empty-absent"  -> r.k = "absent"
    [] rule = "error-operand" -> r.k = "error"
    [] rule = "boolean-operand" -> r.k = "error"
    \* "Arithmetic operators with one absent operand return the other operand"; "empty works like 0 for addition
    \* and subtraction, and like 1 for multiplication": for + and * the other operand comes back unchanged; for the
    \* non-commutative operators only the KIND of number is pinned (the reference's own example gives "" - 3 = -3)
    [] rule = "null-number" -> IF op \in {"+", "*", ".+", ".*", "&", "|", "^"} THEN Same(r, b) ELSE Num(r)
    [] rule = "number-null" -> IF op \in {"+", "*", ".+", ".*", "&", "|", "^", "-", ".-", "/", "./", "//", "**", "<<", ">>", ">>>"}
                               THEN Same(r, a) ELSE Num(r)
    [] rule = "minmax-null-loses" -> IF Num(a) THEN Same(r, a) ELSE Same(r, b)
    [] rule = "empty-number-other" -> r.k = "empty" \/ Num(r)

\* commutative operators give the same result kind for (a, b) and (b, a): M is a whole result matrix kind x kind
Symmetric(M, ks) == \A i, j \in 1..Len(ks) : M[i][j].k = M[j][i].k

(***************************************************************************)
(* Unary: "Functions of absent variables evaluate to absent"; "Most         *)
(* functions/operators which have one or more empty arguments produce empty *)
(* output"; an error operand stays an error                                 *)
(***************************************************************************)
UnaryRuleOf(f, a) ==
  CASE f \in MathUnary \cup {"-", "+", "~"} /\ a.k = "absent" -> "unary-absent"
    [] f \in MathUnary \cup {"~"} /\ a.k = "empty" -> "unary-empty"
    [] f \in MathUnary \cup {"-", "+", "~"} /\ a.k = "error" -> "unary-error"
    [] OTHER -> ""
UnaryOK(f, a, r) ==
  LET rule == UnaryRuleOf(f, a) IN
  CASE rule = "" -> TRUE
    [] rule = "unary-absent" -> r.k = "absent"
    [] rule = "unary-empty"  -> r.k = "empty"
    [] rule = "unary-error"  -> r.k = "error"

(***************************************************************************)
(* Type predicates: kind -> required answer ("" = the help text does not    *)
(* say).  "null means either empty or absent"; is_string "including         *)
(* empty-string"; is_empty "present ... with empty string value".            *)
(***************************************************************************)
Tr == "true"
Fa == "false"
IsAnswer(p, k) ==
  CASE p = "is_absent"    -> IF k = "absent" THEN Tr ELSE Fa
    [] p = "is_present"   -> IF k = "absent" THEN Fa ELSE Tr
    [] p = "is_empty"     -> IF k = "empty" THEN Tr ELSE Fa
    [] p = "is_not_empty" -> IF k \in {"empty", "absent"} THEN Fa ELSE IF k \in {"int", "float", "boolean", "string"} THEN Tr ELSE ""
    [] p = "is_null"      -> IF k \in {"empty", "absent"} THEN Tr ELSE Fa
    [] p = "is_not_null"  -> IF k \in {"empty", "absent"} THEN Fa ELSE Tr
    [] p = "is_int"       -> IF k = "int" THEN Tr ELSE Fa
    [] p = "is_float"     -> IF k = "float" THEN Tr ELSE Fa
    [] p = "is_numeric"   -> IF k \in {"int", "float"} THEN Tr ELSE Fa
    [] p = "is_string"    -> IF k \in {"string", "empty"} THEN Tr ELSE Fa
    [] p = "is_boolean"   -> IF k = "boolean" THEN Tr ELSE Fa
    [] p = "is_bool"      -> IF k = "boolean" THEN Tr ELSE Fa
    [] p = "is_map"       -> IF k = "map" THEN Tr ELSE Fa
    [] p = "is_not_map"   -> IF k = "map" THEN Fa ELSE Tr
    [] p = "is_array"     -> IF k = "array" THEN Tr ELSE Fa
    [] p = "is_not_array" -> IF k = "array" THEN Fa ELSE Tr
    [] p = "is_error"     -> IF k = "error" THEN Tr ELSE Fa
Predicates == {"is_absent", "is_present", "is_empty", "is_not_empty", "is_null", "is_not_null", "is_int", "is_float",
               "is_numeric", "is_string", "is_boolean", "is_bool", "is_map", "is_not_map", "is_array", "is_not_array", "is_error"}
\* consistency of the classification: complementary pairs disagree on every kind, synonyms agree
Complement == { <<"is_absent", "is_present">>, <<"is_null", "is_not_null">>, <<"is_map", "is_not_map">>, <<"is_array", "is_not_array">> }
PredOK(p, k, ans) == IsAnswer(p, k) = "" \/ ans = IsAnswer(p, k)

(***************************************************************************)
(* Assignments: "any expression which evaluates to absent is not stored in  *)
(* the left-hand side of an assignment statement" -- for every kind of      *)
(* left-hand side.  The observation is whether the target exists afterwards.*)
(***************************************************************************)
LvalueKinds == {"field", "indirect-field", "positional-name", "positional-value", "oosvar", "indirect-oosvar",
                "oosvar-element", "local-untyped", "local-var", "map-element", "full-srec-element", "compound"}
AssignOK(lv, rhsKind, createdOrChanged) ==
  /\ (rhsKind = "absent" => ~createdOrChanged)
  \* present values ARE stored (what a positional-name assignment of an empty name does is not documented)
  /\ (rhsKind = "int" => createdOrChanged)
  /\ (rhsKind = "empty" /\ lv \notin {"positional-name", "compound"} => createdOrChanged)

(***************************************************************************)
(* Laws of the rule table itself (checked by TLC in NullAlgebraMC)          *)
(***************************************************************************)
V(k, v) == [k |-> k, v |-> v]
Rep(k) == CASE k = "int" -> V("int", "7") [] k = "float" -> V("float", "2.5") [] k = "boolean" -> V("boolean", "true")
            [] k = "empty" -> V("empty", "") [] k = "string" -> V("string", "abc") [] k = "array" -> V("array", "[1, 2]")
            [] k = "map" -> V("map", "{}") [] k = "funct" -> V("funct", "f") [] k = "error" -> V("error", "(error)")
            [] k = "absent" -> V("absent", "")
\* the result kind a rule demands ("any" if it does not pin the kind)
ReqKind(op, a, b) ==
  LET rule == RuleOf(op, a, b) IN
  CASE rule = "plus-table" -> (LET t == PlusTable[Idx6(a.k)][Idx6(b.k)] IN
                                 CASE t = "L" -> a.k [] t = "R" -> b.k [] t = "num" -> "any" [] OTHER -> t)
    [] rule \in {"absent-absent", "empty-absent"} -> "absent"
    [] rule = "empty-empty" -> "empty"
    [] rule \in {"error-operand", "boolean-operand"} -> "error"
    [] rule = "null-number" -> IF op \in {"+", "*", ".+", ".*", "&", "|", "^"} THEN b.k ELSE "any"
    [] rule = "number-null" -> a.k
    [] rule = "minmax-null-loses" -> IF Num(a) THEN a.k ELSE b.k
    [] OTHER -> "any"
\* the rules never demand different result kinds for (a, b) and (b, a) of a commutative operator, so the symmetry
\* check on observed matrices cannot contradict them
RulesSymmetric ==
  \A op \in Commutative \cap (Arith \cup Bitwise \cup MinMax) : \A ka, kb \in Kinds :
     LET k1 == ReqKind(op, Rep(ka), Rep(kb))  k2 == ReqKind(op, Rep(kb), Rep(ka))
     IN k1 = "any" \/ k2 = "any" \/ k1 = k2
\* the identity of accumulation: @sum += $x from an unset variable is $x, and stays put when $x is missing
AccumulationIdentity ==
  /\ \A op \in {"+", "*", "min", "max", ".+", ".*"} : \A k \in {"int", "float"} :
      /\ BinaryOK(op, Rep("absent"), Rep(k), Rep(k)) /\ ~BinaryOK(op, Rep("absent"), Rep(k), Rep("absent"))
      /\ BinaryOK(op, Rep(k), Rep("absent"), Rep(k)) /\ ~BinaryOK(op, Rep(k), Rep("absent"), Rep("error"))
  /\ \A op \in {"&", "|", "^"} :
      /\ BinaryOK(op, Rep("absent"), Rep("int"), Rep("int")) /\ ~BinaryOK(op, Rep("absent"), Rep("int"), Rep("absent"))
      /\ BinaryOK(op, Rep("int"), Rep("absent"), Rep("int"))
  /\ \A op \in Arith \cup Bitwise \cup MinMax : BinaryOK(op, Rep("absent"), Rep("absent"), Rep("absent"))
                                               /\ ~BinaryOK(op, Rep("absent"), Rep("absent"), Rep("int"))
PredicatesConsistent ==
  /\ \A pr \in Complement : \A k \in Kinds : IsAnswer(pr[1], k) # "" /\ IsAnswer(pr[2], k) # "" /\ IsAnswer(pr[1], k) # IsAnswer(pr[2], k)
  /\ \A k \in Kinds : IsAnswer("is_bool", k) = IsAnswer("is_boolean", k)
  /\ \A k \in Kinds : (IsAnswer("is_numeric", k) = Tr) = (IsAnswer("is_int", k) = Tr \/ IsAnswer("is_float", k) = Tr)
  /\ \A k \in Kinds : (IsAnswer("is_null", k) = Tr) = (IsAnswer("is_empty", k) = Tr \/ IsAnswer("is_absent", k) = Tr)
=============================================================================
