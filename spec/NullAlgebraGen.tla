---------------------------- MODULE NullAlgebraGen ----------------------------
(* The (finite) case space of C08, emitted from the specification's own sets. *)
EXTENDS NullAlgebra, Json, SequencesExt
VARIABLE x
Init == x = 0
Next == UNCHANGED x
SetToSeqS(S) == SetToSeq(S)
BinOps == Arith \cup Bitwise \cup MinMax \cup Logical \cup {".", "==", "!=", "<", "<=", ">", ">=", "^^", "??", "???"}
UnaryFns == MathUnary \cup {"-", "+", "~", "!"}
Emit == PrintT(ToJson([kinds |-> SetToSeqS(Kinds), binops |-> SetToSeqS(BinOps), unary |-> SetToSeqS(UnaryFns),
                        preds |-> SetToSeqS(Predicates), lvalues |-> SetToSeqS(LvalueKinds)]))
=============================================================================
