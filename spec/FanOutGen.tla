------------------------------ MODULE FanOutGen ------------------------------
(* Emits every write history up to MaxWrites (at the state where the manager is closed). *)
EXTENDS FanOut, Json
Emit == ~closed \/ PrintT(ToJson([hist |-> hist]))
=============================================================================
