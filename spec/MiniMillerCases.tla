--------------------------- MODULE MiniMillerCases ---------------------------
(***************************************************************************)
(* Program families for C14: ASTs built combinatorially from small sets of  *)
(* statements, so that every combination of scoping / control / record /    *)
(* indexing constructs in the bound is generated.  A case is                *)
(* [p |-> program, recs |-> input records].                                 *)
(***************************************************************************)
EXTENDS MiniMiller
CONSTANT Family

\* ---- AST constructors ---------------------------------------------------------------------------
EInt(n) == [t |-> "int", n |-> n]
EStr(s) == [t |-> "str", s |-> s]
EBool(b) == [t |-> "bool", b |-> b]
Lc(name) == [t |-> "local", name |-> name]
Fld(name) == [t |-> "field", name |-> name]
Oos(name) == [t |-> "oos", name |-> name]
NRx == [t |-> "nr"]
SRec == [t |-> "srec"]
Bin(op, l, r) == [t |-> "bin", op |-> op, l |-> l, r |-> r]
Neg(e) == [t |-> "neg", e |-> e]
Not(e) == [t |-> "not", e |-> e]
Cond(c, a, b) == [t |-> "cond", c |-> c, a |-> a, b |-> b]
MapLit(kvs) == [t |-> "maplit", kvs |-> kvs]
ArrLit(es) == [t |-> "arrlit", es |-> es]
Idx(e, path) == [t |-> "idx", e |-> e, path |-> path]
Slice(e, lo, hi) == [t |-> "slice", e |-> e, lo |-> lo, hi |-> hi]
Call(f, args) == [t |-> "call", f |-> f, args |-> args]
Bif(f, args) == [t |-> "bif", f |-> f, args |-> args]
Lhs(t, name, path) == [t |-> t, name |-> name, path |-> path]
SDecl(ty, name, e) == [t |-> "decl", ty |-> ty, name |-> name, e |-> e]
SAssign(lhs, e) == [t |-> "assign", lhs |-> lhs, e |-> e]
SLoc(name, e) == SAssign(Lhs("local", name, <<>>), e)
SOp(lhs, cur, op, e) == [t |-> "opassign", lhs |-> lhs, cur |-> cur, op |-> op, e |-> e]
SUnset(lhs) == [t |-> "unset", lhs |-> lhs]
SPrint(e) == [t |-> "print", e |-> Bin(".", EStr("P:"), e)]
Br(c, body) == [c |-> c, body |-> body]
SIf(branches, els) == [t |-> "if", branches |-> branches, els |-> els]
SWhile(c, body) == [t |-> "while", c |-> c, body |-> body]
SDo(body, c) == [t |-> "dowhile", c |-> c, body |-> body]
SFor3(init, c, upd, body) == [t |-> "for3", init |-> init, c |-> c, upd |-> upd, body |-> body]
SForKV(kn, vn, e, body) == [t |-> "forkv", kn |-> kn, vn |-> vn, e |-> e, body |-> body]
SFor1(vn, e, body) == [t |-> "for1", vn |-> vn, e |-> e, body |-> body]
SBreak == [t |-> "break"]
SCont == [t |-> "continue"]
SRet(e) == [t |-> "return", e |-> e]
SCallSub(f, args) == [t |-> "callsub", f |-> f, args |-> args]
SPattern(c, body) == [t |-> "pattern", c |-> c, body |-> body]
SFilter(e) == [t |-> "filter", e |-> e]
SEmit(name, by) == [t |-> "emit", name |-> name, by |-> by]
SEmit1(e) == [t |-> "emit1", e |-> e]
Param(name, ty) == [name |-> name, ty |-> ty]
Func(name, params, rty, body) == [name |-> name, params |-> params, rty |-> rty, body |-> body, sub |-> FALSE]
Subr(name, params, body) == [name |-> name, params |-> params, rty |-> "", body |-> body, sub |-> TRUE]
Prog(funcs, begin, main, end, q) == [funcs |-> funcs, begin |-> begin, main |-> main, end |-> end, q |-> q]
EndOnly(funcs, body) == Prog(funcs, <<>>, <<>>, body, TRUE)        \* run with mlr -n: only the end block executes
Case(p, recs) == [p |-> p, recs |-> recs]

Seqs(U, lo, hi) == UNION {[1..n -> U] : n \in lo..hi}
Opt(U) == {<<>>} \cup {<<u>> : u \in U}

(***************************************************************************)
(* "scope": s1; COMPOUND { inner }; s2; print x; print y                    *)
(***************************************************************************)
ScopeStmts == {SDecl("var", "x", EInt(1)), SLoc("x", EInt(2)), SDecl("int", "x", EInt(3)), SDecl("str", "x", EStr("s")),
               SLoc("x", EStr("t")), SDecl("var", "y", EInt(4)), SLoc("y", EInt(5)), SPrint(Lc("x")), SPrint(Lc("y"))}
Inner == Seqs(ScopeStmts, 0, 2)
Compound(b) == {SIf(<<Br(EBool(TRUE), b)>>, <<>>),
                SIf(<<Br(EBool(FALSE), <<>>)>>, <<b>>),
                SFor1("e", ArrLit(<<EInt(7)>>), b),
                SFor3(<<SDecl("int", "i", EInt(0))>>, Bin("<", Lc("i"), EInt(1)), <<SOp(Lhs("local", "i", <<>>), Lc("i"), "+", EInt(1))>>, b),
                SDo(b, EBool(FALSE))}
ScopeCases ==
  {Case(EndOnly(<<>>, s1 \o <<c>> \o s2 \o <<SPrint(Lc("x")), SPrint(Lc("y"))>>), <<>>) :
       s1 \in Opt(ScopeStmts), c \in UNION {Compound(b) : b \in Inner}, s2 \in Opt(ScopeStmts)}

(***************************************************************************)
(* "func": user functions and subroutines: locals, parameters by value,     *)
(* typed parameters and returns, recursion, no access to the caller's locals *)
(***************************************************************************)
FBody == {<<SRet(Bin("+", Lc("a"), EInt(1)))>>,
          <<SDecl("var", "x", EInt(50)), SRet(Bin("+", Lc("a"), Lc("x")))>>,
          <<SLoc("x", EInt(60)), SRet(Bin("+", Lc("a"), Lc("x")))>>,          \* does not touch the caller's x
          <<SLoc("a", EInt(70)), SRet(Lc("a"))>>,                               \* parameters can be reassigned
          <<SRet(Lc("x"))>>,                                                    \* caller's x is not visible: absent
          <<SAssign(Lhs("local", "a", <<EInt(1)>>), EInt(99)), SRet(Idx(Lc("a"), <<EInt(1)>>))>>,   \* by value: caller's map unchanged
          <<SIf(<<Br(Bin("<=", Lc("a"), EInt(0)), <<SRet(EInt(0))>>)>>, <<>>), SDecl("var", "k", Lc("a")),
            SLoc("r", Call("f", <<Bin("-", Lc("a"), EInt(1))>>)), SRet(Bin("+", Lc("k"), Lc("r")))>>,      \* recursion keeps each frame's k
          <<SPrint(Lc("a")), SRet(EStr("s"))>>}
ArithOnParam == {b \in FBody : b[Len(b)] \in {SRet(Bin("+", Lc("a"), EInt(1))), SRet(Bin("+", Lc("a"), Lc("x"))), SRet(Bin("+", Lc("k"), Lc("r")))}}
FParamTy == {"var", "int", "str", "map"}
FRetTy == {"", "int", "str"}
FArgs == {EInt(3), EStr("q"), Lc("x"), MapLit(<< <<EInt(1), EInt(5)>> >>), Lc("m")}
MapArgs == {MapLit(<< <<EInt(1), EInt(5)>> >>), Lc("m")}
\* (nor is what an indexed assignment does to a scalar-valued variable: the by-value body gets map arguments only)
ArgsFor(body) == IF body \in ArithOnParam THEN FArgs \ MapArgs
                 ELSE IF body[1].t = "assign" /\ body[1].lhs.path # <<>> THEN MapArgs ELSE FArgs
\* Several parameters and recursion reached from every argument position: each activation has its own parameter
\* values ("arguments are passed by value", "recursion is supported": reference-dsl-user-defined-functions.md), also
\* while a later argument of the same call expression is still being evaluated by a deeper activation.
Dec(v) == Bin("-", Lc(v), EInt(1))
Base(ret) == SIf(<<Br(Bin("<=", Lc("a"), EInt(0)), <<SRet(ret)>>)>>, <<>>)
G2 == Func("g", <<Param("x", "var"), Param("y", "var")>>, "", <<SRet(Bin(".", Bin(".", Lc("x"), EStr(":")), Lc("y")))>>)
G3 == Func("g", <<Param("x", "var"), Param("y", "var"), Param("z", "var")>>, "",
           <<SRet(Bin(".", Bin(".", Bin(".", Bin(".", Lc("x"), EStr(":")), Lc("y")), EStr(":")), Lc("z")))>>)
Rec2Progs ==
  {<< <<G2, Func("f", <<Param("a", "var"), Param("b", "var")>>, "", <<Base(Lc("b")), SRet(Call("f", <<Dec("a"), Bin(".", Lc("b"), Lc("a"))>>))>>)>>, "ab" >>,
   << <<G2, Func("f", <<Param("a", "var"), Param("b", "var")>>, "", <<Base(Lc("b")), SRet(Call("g", <<Lc("a"), Call("f", <<Dec("a"), Lc("b")>>)>>))>>)>>, "ab" >>,
   << <<G2, Func("f", <<Param("a", "var"), Param("b", "var")>>, "", <<Base(Lc("b")), SRet(Call("g", <<Call("f", <<Dec("a"), Lc("b")>>), Lc("a")>>))>>)>>, "ab" >>,
   << <<G2, Func("f", <<Param("a", "int"), Param("b", "var")>>, "", <<Base(Lc("b")), SDecl("var", "k", Lc("a")),
            SLoc("r", Call("g", <<Bin("*", Lc("a"), EInt(10)), Call("f", <<Dec("a"), Lc("b")>>)>>)), SRet(Bin(".", Lc("k"), Lc("r")))>>)>>, "ab" >>,
   << <<G2, Func("f", <<Param("a", "var"), Param("b", "var")>>, "",
            <<Base(Lc("b")), SRet(Call("f", <<Dec("a"), Call("f", <<Dec("a"), Bin(".", Lc("b"), Lc("a"))>>)>>))>>)>>, "ab" >>,
   << <<G3, Func("f", <<Param("a", "var"), Param("b", "var")>>, "", <<Base(Lc("b")), SRet(Call("g", <<Lc("a"), Lc("b"), Call("f", <<Dec("a"), Lc("a")>>)>>))>>)>>, "ab" >>,
   << <<G3, Func("f", <<Param("a", "var"), Param("b", "var")>>, "", <<Base(Lc("b")), SRet(Call("g", <<Lc("a"), Call("f", <<Dec("a"), Lc("a")>>), Lc("b")>>))>>)>>, "ab" >>,
   \* mutual recursion through a second function
   << <<G2, Func("h", <<Param("p", "var"), Param("q", "var")>>, "", <<SRet(Call("g", <<Lc("p"), Call("f", <<Bin("-", Lc("p"), EInt(1)), Lc("q")>>)>>))>>),
            Func("f", <<Param("a", "var"), Param("b", "var")>>, "", <<Base(Lc("b")), SRet(Call("h", <<Lc("a"), Lc("b")>>))>>)>>, "ab" >>,
   \* Ackermann's function
   << <<Func("f", <<Param("a", "int"), Param("b", "int")>>, "int",
            <<SIf(<<Br(Bin("==", Lc("a"), EInt(0)), <<SRet(Bin("+", Lc("b"), EInt(1)))>>)>>, <<>>),
              SIf(<<Br(Bin("==", Lc("b"), EInt(0)), <<SRet(Call("f", <<Dec("a"), EInt(1)>>))>>)>>, <<>>),
              SRet(Call("f", <<Dec("a"), Call("f", <<Lc("a"), Dec("b")>>)>>))>>)>>, "ack" >>}
Rec2Cases ==
  {Case(EndOnly(pk[1], <<SDecl("var", "a", EInt(40)), SPrint(Call("f", <<EInt(n), b>>)), SPrint(Lc("a"))>>), <<>>) :
     pk \in {x \in Rec2Progs : x[2] = "ab"}, n \in 0..3, b \in {EInt(7), EStr("s")}}
  \cup {Case(EndOnly(pk[1], <<SPrint(Call("f", <<EInt(m), EInt(n)>>))>>), <<>>) : pk \in {x \in Rec2Progs : x[2] = "ack"}, m \in 0..2, n \in 0..2}

FuncCases ==
  \* (what arithmetic on a map-valued operand gives is not documented: such combinations are left out)
  UNION {
  {Case(EndOnly(<<Func("f", <<Param("a", pt)>>, rt, body)>>,
                <<SDecl("var", "x", EInt(10)), SDecl("map", "m", MapLit(<< <<EInt(1), EInt(2)>> >>)),
                  SPrint(Call("f", <<arg>>)), SPrint(Lc("x")), SPrint(Bif("json_stringify", <<Lc("m")>>))>>), <<>>) :
       pt \in FParamTy, rt \in FRetTy, arg \in ArgsFor(body)} : body \in FBody}
  \cup
  {Case(EndOnly(<<Subr("s", <<Param("a", pt), Param("b", "var")>>, body)>>,
                <<SDecl("var", "x", EInt(10)), SCallSub("s", <<arg, EInt(2)>>), SPrint(Lc("x")), SPrint(Oos("o"))>>), <<>>) :
       pt \in {"var", "int", "str"}, arg \in {EInt(3), EStr("q"), Lc("x")},
       body \in {<<SPrint(Bin("+", Lc("a"), Lc("b")))>>, <<SLoc("x", EInt(5)), SAssign(Lhs("oos", "o", <<>>), Lc("a"))>>,
                 <<SIf(<<Br(Bin("==", Lc("b"), EInt(2)), <<[t |-> "returnvoid"]>>)>>, <<>>), SPrint(EStr("unreached"))>>}}
  \cup Rec2Cases

(***************************************************************************)
(* "loops": nested loops with break / continue at every position            *)
(***************************************************************************)
Jump(v) == {SIf(<<Br(Bin("==", Lc(v), EInt(2)), <<SBreak>>)>>, <<>>), SIf(<<Br(Bin("==", Lc(v), EInt(2)), <<SCont>>)>>, <<>>)}
Tr(a, b) == SPrint(Bin(".", Bin(".", a, EStr(":")), b))
InnerLoop(b) == {SFor1("j", ArrLit(<<EInt(1), EInt(2), EInt(3)>>), b),
                 SForKV("j", "w", MapLit(<< <<EInt(1), EInt(10)>>, <<EInt(2), EInt(20)>>, <<EInt(3), EInt(30)>> >>), b),
                 SFor3(<<SDecl("int", "j", EInt(1))>>, Bin("<=", Lc("j"), EInt(3)), <<SOp(Lhs("local", "j", <<>>), Lc("j"), "+", EInt(1))>>, b)}
OuterLoop(b) == {SFor3(<<SDecl("int", "i", EInt(1))>>, Bin("<=", Lc("i"), EInt(3)), <<SOp(Lhs("local", "i", <<>>), Lc("i"), "+", EInt(1))>>, b),
                 SFor1("i", ArrLit(<<EInt(1), EInt(2), EInt(3)>>), b),
                 \* while with an explicit counter: continue must not skip the increment, so the increment comes first
                 [t |-> "wrap", pre |-> SDecl("int", "i", EInt(0)),
                  loop |-> SWhile(Bin("<", Lc("i"), EInt(3)), <<SOp(Lhs("local", "i", <<>>), Lc("i"), "+", EInt(1))>> \o b)]}
Flat(s) == IF s.t = "wrap" THEN <<s.pre, s.loop>> ELSE <<s>>
LoopCases ==
  {Case(EndOnly(<<>>, Flat(o) \o <<SPrint(EStr("done"))>>), <<>>) :
     o \in UNION {OuterLoop(a \o <<il>> \o d) :
                    a \in Opt(Jump("i")), d \in Opt(Jump("i")),
                    il \in UNION {InnerLoop(b \o <<Tr(Lc("i"), Lc("j"))>> \o c) : b \in Opt(Jump("j") \cup Jump("i")), c \in Opt(Jump("j"))}}}

(***************************************************************************)
(* "multifor": multi-key for loops over nested maps (2 and 3 keys), with    *)
(* break / continue in the body, alone and inside an outer loop             *)
(***************************************************************************)
SForMulti(kns, vn, e, body) == [t |-> "formulti", kns |-> kns, vn |-> vn, e |-> e, body |-> body]
Deep3 == MapLit(<< <<EStr("x"), MapLit(<< <<EStr("a"), MapLit(<< <<EStr("p"), EInt(1)>>, <<EStr("q"), EInt(2)>> >>)>>,
                                          <<EStr("b"), MapLit(<< <<EStr("p"), EInt(3)>> >>)>> >>)>>,
                   <<EStr("y"), MapLit(<< <<EStr("a"), MapLit(<< <<EStr("p"), EInt(4)>>, <<EStr("q"), EInt(5)>> >>)>> >>)>>,
                   <<EStr("z"), MapLit(<< <<EStr("c"), MapLit(<< <<EStr("r"), EInt(6)>> >>)>> >>)>> >>)
JumpV(n) == {SIf(<<Br(Bin("==", Lc("v"), EInt(n)), <<SBreak>>)>>, <<>>), SIf(<<Br(Bin("==", Lc("v"), EInt(n)), <<SCont>>)>>, <<>>)}
JumpK(k, val) == {SIf(<<Br(Bin("==", Lc(k), EStr(val)), <<SBreak>>)>>, <<>>), SIf(<<Br(Bin("==", Lc(k), EStr(val)), <<SCont>>)>>, <<>>)}
Body3 == {b \o <<SPrint(Bin(".", Bin(".", Bin(".", Bin(".", Lc("k1"), Lc("k2")), Lc("k3")), EStr("=")), Lc("v")))>> \o c :
            b \in Opt(UNION {JumpV(n) : n \in {1, 2, 3, 5}} \cup JumpK("k1", "y") \cup JumpK("k2", "a") \cup JumpK("k3", "q")),
            c \in Opt(JumpV(2) \cup JumpV(4))}
Body2 == {b \o <<SPrint(Bin(".", Bin(".", Lc("k1"), Lc("k2")), Bif("json_stringify", <<Lc("v")>>)))>> \o c :
            b \in Opt(JumpK("k1", "y") \cup JumpK("k2", "b") \cup JumpK("k2", "a")), c \in Opt(JumpK("k2", "a"))}
MultiForCases ==
  {Case(EndOnly(<<>>, <<SDecl("map", "m", Deep3), SForMulti(<<"k1", "k2", "k3">>, "v", Lc("m"), b), SPrint(EStr("done")), SPrint(Lc("k1"))>>), <<>>) : b \in Body3}
  \cup {Case(EndOnly(<<>>, <<SDecl("map", "m", Deep3), SForMulti(<<"k1", "k2">>, "v", Lc("m"), b), SPrint(EStr("done"))>>), <<>>) : b \in Body2}
  \cup {Case(EndOnly(<<>>, <<SAssign(Lhs("oos", "m", <<>>), Deep3),
                             SFor1("o", ArrLit(<<EInt(1), EInt(2)>>), <<SForMulti(<<"k1", "k2", "k3">>, "v", Oos("m"), b), SPrint(Lc("o"))>>), SPrint(EStr("done"))>>), <<>>) :
           b \in {x \in Body3 : Len(x) = 2}}

(***************************************************************************)
(* "records": field assignment positions, unset, $*, oosvar persistence,    *)
(* NR, filter, pattern-action, emit by names                                *)
(***************************************************************************)
Recs2 == << << <<"a", I(1)>>, <<"b", S("x")>> >>, << <<"a", I(3)>>, <<"b", S("y")>> >>, << <<"a", I(5)>>, <<"b", S("x")>> >> >>
F(name) == Lhs("field", name, <<>>)
O(name, path) == Lhs("oos", name, path)
RecStmts == {SAssign(F("c"), Bin("+", Fld("a"), EInt(1))),                    \* new field appended
             SAssign(F("a"), EInt(9)),                                         \* reassigned field keeps its position
             SAssign(F("d"), Bin(".", Fld("b"), Fld("a"))),
             SUnset(F("a")),
             SAssign(Lhs("srec", "", <<>>), MapLit(<< <<EStr("z"), Fld("b")>>, <<EStr("a"), EInt(0)>> >>)),
             SOp(O("sum", <<>>), Oos("sum"), "+", Fld("a")),                   \* @sum += $a from an unset variable
             SAssign(O("cnt", <<Fld("b")>>), NRx),                              \* @cnt[$b] = NR
             SOp(O("tot", <<Fld("b")>>), Idx(Oos("tot"), <<Fld("b")>>), "+", Fld("a")),
             SAssign(F("s"), Oos("sum")),                                      \* absent on the first record unless set: skipped
             SFilter(Bin(">", Fld("a"), EInt(1))),
             SPattern(Bin("==", NRx, EInt(2)), <<SAssign(F("z"), EInt(1))>>),
             SPattern(Bin("==", NRx, EInt(2)), <<SFilter(EBool(FALSE))>>),      \* excludes the second record only
             SPattern(Bin("==", Fld("a"), EInt(1)), <<SFilter(EBool(FALSE))>>),  \* ... the first record only
             SAssign(F("n"), Fld("nosuch")),                                   \* absent: no assignment
             SDecl("var", "t", Fld("a")), SAssign(F("t"), Lc("t")),
             [t |-> "tee"]}                                                     \* the record as it is at that point, to a file
RecEnds == {<<>>, <<SEmit("sum", <<>>)>>, <<SEmit("cnt", <<"b">>)>>, <<SEmit("tot", <<"b">>), SEmit("sum", <<>>)>>, <<SPrint(Oos("sum"))>>}
\* (two tee STATEMENTS writing the same file with > each open it on their own; what the file then holds is not documented)
RecordCases == {Case(Prog(<<>>, <<>>, m, e, q), Recs2) :
                  m \in {x \in Seqs(RecStmts, 1, 2) : ~(Len(x) = 2 /\ x[1].t = "tee" /\ x[2].t = "tee")}, e \in RecEnds, q \in BOOLEAN}

(***************************************************************************)
(* "positional": $[[n]] (the name of field n) and $[[[n]]] (its value) on   *)
(* both sides of an assignment, in and out of range, followed by accesses BY *)
(* NAME to the renamed field (new name present, old name absent); emitf.     *)
(***************************************************************************)
Pad(n) == [i \in 1..n |-> <<"p" \o ToString(i), I(i)>>]
RecsWide(n) == [k \in 1..Len(Recs2) |-> Recs2[k] \o Pad(n)]
PosNameE(e) == [t |-> "posname", e |-> e]
PosValE(e) == [t |-> "posval", e |-> e]
PosNameL(e) == Lhs("posname", "", <<e>>)
PosValL(e) == Lhs("posval", "", <<e>>)
SEmitF(names) == [t |-> "emitf", names |-> names]
PosIdx == {EInt(0), EInt(1), EInt(2), EInt(3), NRx}
PosStmts == {SAssign(PosNameL(i), EStr("NEW")) : i \in PosIdx}
            \cup {SAssign(PosValL(i), v) : i \in PosIdx, v \in {EStr("NEW"), EInt(7)}}
            \cup {SAssign(F("c"), PosNameE(i)) : i \in PosIdx}
            \cup {SAssign(F("c"), PosValE(i)) : i \in PosIdx}
            \cup {SAssign(PosValL(EInt(1)), Bin(".", PosNameE(EInt(2)), PosValE(EInt(2)))),     \* $[[[1]]] = $[[2]] . $[[[2]]]
                  SAssign(PosNameL(EInt(2)), Bin(".", PosNameE(EInt(1)), EStr("x"))),              \* $[[2]] = $[[1]] . "x"
                  SUnset(F("a")), SAssign(F("a"), EInt(9)), SAssign(F("z"), EInt(0))}
\* what follows: accesses by name to the old and the new name, a second rename, unset of the new name
PosTails == {<<>>, <<SAssign(F("e"), Fld("NEW"))>>, <<SAssign(F("e"), Fld("a"))>>, <<SUnset(F("NEW"))>>, <<SAssign(F("NEW"), EInt(5))>>,
             <<SAssign(PosNameL(EInt(1)), EStr("M"))>>, <<SAssign(F("e"), Bin(".", PosNameE(EInt(1)), PosNameE(EInt(2))))>>}
\* (renaming a field to a name another field of the record already has is documented nowhere)
PositionalCases ==
  {Case(Prog(<<>>, <<>>, m \o t, <<>>, FALSE), Recs2) :
     m \in {x \in Seqs(PosStmts, 1, 2) : Cardinality({i \in 1..Len(x) : x[i].t = "assign" /\ x[i].lhs.t = "posname" /\ x[i].e = EStr("NEW")}) <= 1},
     t \in PosTails}
  \* the same on records of exactly 12 and of 13 fields (from a dozen fields on a record has a key index, which a rename
  \* must keep in step with the names)
  \cup {Case(Prog(<<>>, <<>>, m \o t, <<>>, FALSE), rs) : m \in Seqs(PosStmts, 1, 1), t \in PosTails, rs \in {RecsWide(10), RecsWide(11)}}
  \cup {Case(Prog(<<>>, <<SAssign(O("n", <<>>), EInt(0)), SAssign(O("s", <<>>), EStr("q"))>>,
                  <<SOp(O("n", <<>>), Oos("n"), "+", Fld("a")), SAssign(O("s", <<>>), Bin(".", Oos("s"), Fld("b")))>> \o x,
                  <<SEmitF(ns)>>, q), Recs2) :
           x \in {<<>>, <<SEmitF(<<"n">>)>>, <<SEmitF(<<"s", "n">>)>>}, ns \in {<<"n">>, <<"n", "s">>, <<"s", "n">>}, q \in BOOLEAN}

(***************************************************************************)
(* "abskey": an indexed assignment one of whose KEYS is absent is skipped as  *)
(* a whole - it creates no level in front of the absent key either           *)
(* (reference-main-null-data.md: "Absent ... on the left-hand side ... the   *)
(* assignment is skipped"), whatever the target and the position of the key   *)
(***************************************************************************)
Nos == Fld("nosuch")
AbsStmts == {SAssign(O("d", <<Fld("a"), Nos>>), NRx),                                                     \* @d[$a][$nosuch] = NR
             SOp(O("d", <<Fld("a"), Nos>>), Idx(Oos("d"), <<Fld("a"), Nos>>), "+", Fld("a")),               \* @d[$a][$nosuch] += $a
             SAssign(O("d", <<Nos, Fld("a")>>), NRx),
             SAssign(O("d", <<Fld("a"), Fld("b")>>), NRx),                                                 \* (all keys present)
             SAssign(O("d", <<Fld("b"), Fld("a"), Nos>>), NRx),
             SAssign(Lhs("field", "y", <<Fld("a"), Nos>>), EInt(1)),                                       \* $y[$a][$nosuch] = 1
             SAssign(O("h", <<Nos>>), EInt(1)),
             SAssign(O("d", <<Fld("b")>>), MapLit(<<>>)),
             SAssign(Lhs("local", "m", <<Fld("a"), Nos>>), EInt(1)), SAssign(Lhs("local", "m", <<Fld("a"), Fld("b")>>), EInt(1))}
SDump == [t |-> "dump"]
AbsKeyCases ==
  \* the same assignments observed by dump (all out-of-stream variables at once, in the order they were first assigned)
  {Case(Prog(<<>>, <<>>, m, <<SDump>>, TRUE), Recs2) : m \in Seqs(AbsStmts \ {x \in AbsStmts : x.t = "assign" /\ x.lhs.t = "local"}, 1, 2)}
  \cup {Case(Prog(<<>>, <<SDump>>, <<SOp(O("sum", <<>>), Oos("sum"), "+", Fld("a")), SAssign(O("cnt", <<Fld("b")>>), NRx)>> \o x, <<SDump>>, TRUE), Recs2) :
          x \in {<<>>, <<SDump>>, <<SPattern(Bin("==", NRx, EInt(2)), <<SDump>>)>>, <<SUnset(O("sum", <<>>)), SDump>>}}
  \cup
  {Case(Prog(<<>>, <<>>, <<SDecl("map", "m", MapLit(<<>>))>> \o m \o <<SPrint(Bif("json_stringify", <<Lc("m")>>))>>,
             <<SPrint(Bif("json_stringify", <<Oos("d")>>)), SPrint(Bif("json_stringify", <<Oos("h")>>))>>, q), Recs2) :
     m \in Seqs(AbsStmts, 1, 2), q \in BOOLEAN}

(***************************************************************************)
(* "emitp": emit and emitp side by side on one-, two- and three-level maps   *)
(* with fewer, as many and more names than levels                           *)
(***************************************************************************)
SEmitP(name, by) == [t |-> "emitp", name |-> name, by |-> by]
Recs4 == << << <<"a", I(1)>>, <<"b", S("x")>> >>, << <<"a", I(3)>>, <<"b", S("y")>> >>, << <<"a", I(1)>>, <<"b", S("y")>> >>,
            << <<"a", I(3)>>, <<"b", S("x")>> >> >>
EmitPMain == <<SOp(O("sum", <<>>), Oos("sum"), "+", Fld("a")),                                          \* @sum += $a
               SOp(O("tot", <<Fld("b")>>), Idx(Oos("tot"), <<Fld("b")>>), "+", Fld("a")),                 \* @tot[$b] += $a
               SAssign(O("deep", <<Fld("b"), Fld("a")>>), NRx),                                         \* @deep[$b][$a] = NR
               SAssign(O("d3", <<Fld("b"), Fld("a"), EStr("k")>>), NRx)>>                               \* @d3[$b][$a]["k"] = NR
EmitPEnds == {<<SEmit(v, by)>> : v \in {"sum", "tot", "deep", "d3"}, by \in {<<>>, <<"b">>, <<"b", "a">>}}
             \cup {<<SEmitP(v, by)>> : v \in {"sum", "tot", "deep", "d3"}, by \in {<<>>, <<"b">>, <<"b", "a">>}}
             \cup {<<SEmitP("deep", <<"b">>), SEmit("deep", <<"b">>)>>, <<SEmitP("nosuch", <<>>), SEmitP("tot", <<"b">>)>>}
\* (more names than levels, and names on a scalar, are outside what the reference shows; left out)
EmitPDocumented(e) == \A i \in 1..Len(e) :
   Len(e[i].by) <= (CASE e[i].name = "sum" -> 0 [] e[i].name = "tot" -> 1 [] e[i].name = "deep" -> 2 [] e[i].name = "d3" -> 3 [] OTHER -> 0)
EmitPCases == {Case(Prog(<<>>, <<>>, EmitPMain \o m, e, q), rs) :
                 m \in {<<>>} \cup {<<x[1]>> : x \in {y \in EmitPEnds : Len(y) = 1 /\ y[1].name \in {"sum", "tot"} /\ EmitPDocumented(y)}},
                 e \in {x \in EmitPEnds : EmitPDocumented(x)}, q \in BOOLEAN, rs \in {Recs4, SubSeq(Recs4, 1, 1)}}

(***************************************************************************)
(* "index": arrays 1-up, negative aliases, slices, out-of-bounds, auto-extend; *)
(* maps auto-create; unset of elements                                       *)
(***************************************************************************)
X == Lc("x")
IdxStmts == {SPrint(Idx(X, <<EInt(1)>>)), SPrint(Idx(X, <<EInt(3)>>)), SPrint(Idx(X, <<EInt(-1)>>)), SPrint(Idx(X, <<EInt(-3)>>)),
             SPrint(Idx(X, <<EInt(4)>>)), SPrint(Idx(X, <<EInt(-4)>>)), SPrint(Bif("is_absent", <<Idx(X, <<EInt(7)>>)>>)),
             SPrint(Bif("json_stringify", <<Slice(X, 2, 3)>>)), SPrint(Bif("json_stringify", <<Slice(X, -2, -1)>>)),
             SPrint(Bif("json_stringify", <<Slice(X, 1, 1)>>)), SPrint(Bif("json_stringify", <<Slice(X, 3, 2)>>)), SPrint(Bif("json_stringify", <<Slice(X, 2, 5)>>)),
             SAssign(Lhs("local", "x", <<EInt(1)>>), EInt(9)), SAssign(Lhs("local", "x", <<EInt(-1)>>), EInt(8)),
             SAssign(Lhs("local", "x", <<EInt(4)>>), EInt(7)), SAssign(Lhs("local", "x", <<EInt(6)>>), EInt(6)),
             SUnset(Lhs("local", "x", <<EInt(2)>>)), SUnset(Lhs("local", "x", <<EInt(-1)>>)), SUnset(Lhs("local", "x", <<EInt(1)>>)),
             SAssign(Lhs("local", "m", <<EInt(1), EStr("k")>>), EInt(3)), SAssign(Lhs("local", "m", <<EStr("a")>>), X),
             SAssign(O("a", <<EInt(1), EStr("b")>>), EInt(2)), SAssign(O("a", <<EInt(2)>>), EInt(4)), SUnset(O("a", <<EInt(1)>>)),
             SPrint(Bif("length", <<X>>)), SPrint(Bif("haskey", <<X, EInt(-3)>>)), SPrint(Bif("haskey", <<X, EInt(4)>>)),
             SPrint(Idx(Lc("m"), <<EStr("nosuch")>>)), SPrint(Bif("is_absent", <<Idx(Oos("a"), <<EInt(9)>>)>>)),
             \* values are copied by assignment: an indexed assignment to the copy leaves the source alone, also when
             \* the copy held a scalar (which the indexed assignment replaces by a collection) and for auto-extended slots
             SLoc("s", EInt(3)), SLoc("t", Lc("s")), SAssign(Lhs("local", "t", <<EInt(1)>>), EInt(5)), SPrint(Bif("json_stringify", <<Lc("s")>>)),
             SPrint(Bif("json_stringify", <<Lc("t")>>)), SLoc("t", X), SAssign(Lhs("local", "t", <<EInt(2)>>), EInt(0)),
             \* (a string key: what an integer key makes of a slot that does not exist yet is documented for variables only)
             SAssign(Lhs("local", "x", <<EInt(4), EStr("k")>>), EInt(7)), SAssign(Lhs("local", "x", <<EInt(5), EStr("j")>>), EInt(8))}
\* an indexed assignment INTO an element that exists and is not a collection (a null gap, a number) is documented nowhere
Deep4 == SAssign(Lhs("local", "x", <<EInt(4), EStr("k")>>), EInt(7))
Deep5 == SAssign(Lhs("local", "x", <<EInt(5), EStr("j")>>), EInt(8))
Set4 == SAssign(Lhs("local", "x", <<EInt(4)>>), EInt(7))
Set6 == SAssign(Lhs("local", "x", <<EInt(6)>>), EInt(6))
Undocumented(body) == Len(body) = 2 /\ ((body[2] = Deep4 /\ body[1] \in {Set4, Set6, Deep5}) \/ (body[2] = Deep5 /\ body[1] = Set6))
IndexCases ==
  {Case(EndOnly(<<>>, <<SDecl("var", "x", ArrLit(<<EInt(10), EInt(20), EInt(30)>>)), SDecl("map", "m", MapLit(<<>>))>> \o body
                      \o <<SPrint(Bif("json_stringify", <<X>>)), SPrint(Bif("json_stringify", <<Lc("m")>>)), SPrint(Bif("json_stringify", <<Oos("a")>>))>>), <<>>) :
       body \in {b \in Seqs(IdxStmts, 1, 2) : ~Undocumented(b)}}

(***************************************************************************)
(* "expr": operator precedence and associativity through the real parser    *)
(***************************************************************************)
Atoms == {EInt(1), EInt(2), EInt(3)}
ArOps == {"+", "-", "*", "."}
CmpOps == {"<", "=="}
ExprCases ==
  {Case(EndOnly(<<>>, <<SPrint(e)>>), <<>>) :
     \* (comparisons of a number with a string are left out: only ints are compared)
     e \in {Bin(o1, Bin(o2, EInt(1), EInt(2)), EInt(3)) : o1 \in ArOps, o2 \in ArOps}
       \cup {Bin(o1, EInt(1), Bin(o2, EInt(2), EInt(3))) : o1 \in ArOps, o2 \in ArOps}
       \cup {Bin(o1, Bin(o2, EInt(1), EInt(2)), EInt(3)) : o1 \in CmpOps, o2 \in {"+", "-", "*"}}
       \cup {Bin(o1, EInt(1), Bin(o2, EInt(2), EInt(3))) : o1 \in CmpOps, o2 \in {"+", "-", "*"}}
       \cup {Bin(o1, Neg(Bin(o2, EInt(1), EInt(2))), EInt(3)) : o1 \in ArOps, o2 \in ArOps}
       \cup {Bin(o1, EInt(3), Neg(EInt(2))) : o1 \in ArOps}
       \cup {Bin(l, Bin(c1, EInt(1), EInt(2)), Bin(c2, EInt(3), EInt(2))) : l \in {"&&", "||"}, c1 \in CmpOps, c2 \in CmpOps}
       \cup {Bin(l1, Bin(l2, EBool(a), EBool(b)), EBool(c)) : l1 \in {"&&", "||"}, l2 \in {"&&", "||"}, a \in BOOLEAN, b \in BOOLEAN, c \in BOOLEAN}
       \cup {Bin(l1, EBool(a), Bin(l2, EBool(b), EBool(c))) : l1 \in {"&&", "||"}, l2 \in {"&&", "||"}, a \in BOOLEAN, b \in BOOLEAN, c \in BOOLEAN}
       \cup {Cond(Bin(c1, EInt(1), EInt(2)), Bin(o, EInt(1), EInt(2)), Cond(EBool(b), EInt(5), EInt(6))) : c1 \in CmpOps, o \in ArOps, b \in BOOLEAN}
       \cup {Bin(o, Cond(EBool(b), EInt(1), EInt(2)), EInt(3)) : o \in ArOps, b \in BOOLEAN}
       \cup {Not(Bin(c1, EInt(1), EInt(2))) : c1 \in CmpOps} \cup {Bin("&&", Not(EBool(a)), EBool(b)) : a \in BOOLEAN, b \in BOOLEAN}}

(***************************************************************************)
(* "hof": function literals (with access to the enclosing locals) and the   *)
(* higher-order functions over arrays and maps                              *)
(***************************************************************************)
Lam(params, body) == [t |-> "lambda", params |-> params, body |-> body]
Hof(f, coll, fn, init) == [t |-> "hof", f |-> f, coll |-> coll, fn |-> fn, init |-> init]
E1 == Lc("e")
Unary1 == {Lam(<<"e">>, <<SRet(Bin("*", E1, EInt(2)))>>), Lam(<<"e">>, <<SRet(Bin("+", E1, Lc("cap")))>>),          \* reads the enclosing local
           Lam(<<"e">>, <<SDecl("var", "cap", EInt(100)), SRet(Bin("+", E1, Lc("cap")))>>),                          \* shadows it
           Lam(<<"e">>, <<SIf(<<Br(Bin(">", E1, Lc("cap")), <<SRet(EStr("big"))>>)>>, <<>>), SRet(E1)>>)}
Pred1 == {Lam(<<"e">>, <<SRet(Bin(">", E1, Lc("cap")))>>), Lam(<<"e">>, <<SRet(Bin("==", E1, EInt(3)))>>), Lam(<<"e">>, <<SRet(EBool(TRUE))>>),
          Lam(<<"e">>, <<SRet(Bin("<", E1, EInt(0)))>>)}
Acc2 == {Lam(<<"acc", "e">>, <<SRet(Bin("+", Lc("acc"), E1))>>), Lam(<<"acc", "e">>, <<SRet(Bin("*", Lc("acc"), E1))>>),
         Lam(<<"acc", "e">>, <<SRet(Bin(".", Lc("acc"), E1))>>), Lam(<<"acc", "e">>, <<SRet(Bin("-", E1, Lc("acc")))>>)}
KV1 == {Lam(<<"k", "v">>, <<SRet(MapLit(<< <<Bin(".", Lc("k"), EStr("x")), Bin("*", Lc("v"), EInt(2))>> >>))>>),
        Lam(<<"k", "v">>, <<SRet(MapLit(<< <<Lc("k"), Bin("+", Lc("v"), Lc("cap"))>> >>))>>)}
KVPred == {Lam(<<"k", "v">>, <<SRet(Bin(">=", Lc("v"), Lc("cap")))>>), Lam(<<"k", "v">>, <<SRet(Bin("==", Lc("k"), EStr("b")))>>)}
Colls == {Lc("x"), ArrLit(<<>>), ArrLit(<<EInt(5)>>)}
MapC == {Lc("m"), MapLit(<<>>)}
NoInit == EInt(0)
HofExprs ==
  {Hof("apply", cl, f, NoInit) : cl \in Colls, f \in Unary1} \cup {Hof("select", cl, f, NoInit) : cl \in Colls, f \in Pred1}
  \cup {Hof(h, cl, f, NoInit) : h \in {"any", "every"}, cl \in Colls, f \in Pred1}
  \* (what reduce gives for an empty array is not documented)
  \cup {Hof("reduce", cl, f, NoInit) : cl \in Colls \ {ArrLit(<<>>)}, f \in Acc2} \cup {Hof("fold", cl, f, i) : cl \in Colls, f \in Acc2, i \in {EInt(10), EStr("s")}}
  \cup {Hof("apply", mc, f, NoInit) : mc \in MapC, f \in KV1} \cup {Hof(h, mc, f, NoInit) : h \in {"select", "any", "every"}, mc \in MapC, f \in KVPred}
  \cup {Hof("apply", Hof("select", Lc("x"), p, NoInit), f, NoInit) : p \in Pred1, f \in Unary1}
  \cup {Hof("fold", Hof("apply", Lc("x"), f, NoInit), g, EInt(0)) : f \in Unary1, g \in Acc2}
HofCases ==
  {Case(EndOnly(<<>>, <<SDecl("var", "x", ArrLit(<<EInt(1), EInt(2), EInt(3), EInt(4)>>)),
                        SDecl("map", "m", MapLit(<< <<EStr("a"), EInt(1)>>, <<EStr("b"), EInt(2)>>, <<EStr("c"), EInt(3)>> >>)),
                        SDecl("var", "cap", EInt(2)), SPrint(Bif("json_stringify", <<h>>)), SPrint(Lc("cap")), SPrint(Lc("e"))>>), <<>>) : h \in HofExprs}
  \cup
  \* a function literal held in a local and called by name, defined before the local it reads
  {Case(EndOnly(<<>>, <<SDecl("funct", "f", fl), SDecl("var", "cap", EInt(c)), SPrint(Call("f", <<EInt(a)>>)), SPrint(Lc("cap"))>>), <<>>) :
       fl \in Unary1 \cup Pred1, c \in {2, 7}, a \in {1, 3}}

(***************************************************************************)
(* "unset": clearing locals.  After `unset x`, x is absent (is_absent(x) is  *)
(* true, `y = x` is skipped, `x += 5` starts from the identity) also when an  *)
(* enclosing scope has a variable of the same name, which is untouched; a    *)
(* function literal's parameter masks an enclosing local even when the        *)
(* argument is absent.  (Typed declarations are left out: whether a cleared   *)
(* int variable keeps its type gate is not documented.)                       *)
(***************************************************************************)
LX == Lhs("local", "x", <<>>)
UnsetStmts == {SDecl("var", "x", EInt(7)), SLoc("x", EInt(8)), SUnset(LX), SPrint(Lc("x")), SPrint(Bif("is_absent", <<Lc("x")>>)),
               SLoc("y", Lc("x")), SOp(LX, Lc("x"), "+", EInt(5)), SPrint(Bif("typeof", <<Lc("x")>>))}
UnsetBodies == {b \in Seqs(UnsetStmts, 1, 3) : \E i \in 1..Len(b) : b[i].t = "unset"}
UnsetCompound(b) == {SIf(<<Br(EBool(TRUE), b)>>, <<>>), SFor1("e", ArrLit(<<EInt(7)>>), b)}
LamA == {Lam(<<"a">>, <<SRet(Bin("+", Lc("a"), EInt(1)))>>), Lam(<<"a">>, <<SRet(Bif("is_absent", <<Lc("a")>>))>>),
         Lam(<<"a">>, <<SLoc("a", EInt(3)), SRet(Lc("a"))>>), Lam(<<"a">>, <<SUnset(Lhs("local", "a", <<>>)), SRet(Bif("typeof", <<Lc("a")>>))>>)}
UnsetS1 == {<<>>, <<SDecl("var", "x", EInt(1))>>, <<SLoc("x", EInt(2))>>}
UnsetTail == <<SPrint(Lc("x")), SPrint(Lc("y"))>>
UnsetCases ==
  {Case(EndOnly(<<>>, s1 \o <<c>> \o UnsetTail), <<>>) : s1 \in UnsetS1, c \in UNION {UnsetCompound(b) : b \in UnsetBodies}}
  \cup {Case(EndOnly(<<>>, s1 \o b \o UnsetTail), <<>>) : s1 \in UnsetS1, b \in UnsetBodies}          \* cleared in the scope it lives in
  \cup
  {Case(EndOnly(<<>>, <<SDecl("funct", "f", fl)>> \o s1 \o <<SPrint(Call("f", <<arg>>)), SPrint(Lc("a"))>>), <<>>) :
       fl \in LamA, s1 \in {<<>>, <<SDecl("var", "a", EInt(50))>>}, arg \in {Oos("nosuch"), EInt(4), Lc("nolocal")}}

(***************************************************************************)
(* "emitsnap": an emitted record is a snapshot.  What is emitted is what the *)
(* variable held when the emit statement ran, whatever is assigned to the     *)
(* variable (or inside it) afterwards -- by a later statement or for a later  *)
(* record; the map may mix scalar and map-valued members in either order.     *)
(***************************************************************************)
RInit == {SAssign(O("r", <<>>), MapLit(<< <<EStr("n"), EInt(1)>>, <<EStr("m"), MapLit(<< <<EStr("x"), EInt(1)>> >>)>> >>)),
          SAssign(O("r", <<>>), MapLit(<< <<EStr("m"), MapLit(<< <<EStr("x"), EInt(1)>> >>)>>, <<EStr("n"), EInt(1)>> >>)),
          SAssign(O("r", <<>>), MapLit(<< <<EStr("n"), EInt(1)>>, <<EStr("a"), ArrLit(<<EInt(1), EInt(2)>>)>> >>))}
REmit == {SEmit("r", <<>>), SEmit1(Oos("r"))}
RMut == {SAssign(O("r", <<EStr("m"), EStr("x")>>), EInt(2)), SAssign(O("r", <<EStr("n")>>), EInt(5)), SAssign(O("r", <<EStr("m"), EStr("y")>>), EInt(3)),
         SUnset(O("r", <<EStr("m"), EStr("x")>>)), SAssign(O("r", <<EStr("a"), EInt(1)>>), EInt(9)), SAssign(O("r", <<>>), MapLit(<< <<EStr("z"), EInt(0)>> >>))}
Tally == <<SOp(O("r", <<EStr("n")>>), Idx(Oos("r"), <<EStr("n")>>), "+", EInt(1)),
           SOp(O("r", <<EStr("by"), Fld("b")>>), Idx(Oos("r"), <<EStr("by"), Fld("b")>>), "+", Fld("a"))>>
TallyMapFirst == <<Tally[2], Tally[1]>>
\* The judgement of this family is a law, not the reference interpreter's output (how a map mixing scalars and maps is cut
\* into records is not documented): "emit ... send[s] out-of-stream variables' current values to the output record stream",
\* so what a program has emitted by some point is a PREFIX of everything it emits -- the output of the program cut after the
\* emit (p0), or run on a prefix of the records (recs0), is a prefix of the output of the whole.
LawCase(p, recs, p0, recs0) == [p |-> p, recs |-> recs, p0 |-> p0, recs0 |-> recs0, law |-> "prefix"]
EmitSnapCases ==
  {LawCase(EndOnly(<<>>, <<i, e1, m, e2>>), <<>>, EndOnly(<<>>, <<i, e1>>), <<>>) : i \in RInit, e1 \in REmit, m \in RMut, e2 \in REmit}
  \cup {LawCase(Prog(<<>>, <<>>, t \o <<e>>, fin, TRUE), Recs2, Prog(<<>>, <<>>, t \o <<e>>, <<>>, TRUE), SubSeq(Recs2, 1, k)) :
           t \in {Tally, TallyMapFirst}, e \in REmit, fin \in {<<>>, <<SEmit("r", <<>>)>>}, k \in {1, 2}}

Cases == CASE Family = "abskey" -> AbsKeyCases [] Family = "emitp" -> EmitPCases [] Family = "positional" -> PositionalCases [] Family = "emitsnap" -> EmitSnapCases [] Family = "unset" -> UnsetCases [] Family = "multifor" -> MultiForCases [] Family = "hof" -> HofCases [] Family = "scope" -> ScopeCases [] Family = "func" -> FuncCases [] Family = "loops" -> LoopCases
           [] Family = "records" -> RecordCases [] Family = "index" -> IndexCases [] Family = "expr" -> ExprCases
=============================================================================
