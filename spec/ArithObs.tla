------------------------------ MODULE ArithObs ------------------------------
(***************************************************************************)
(* Judges what the real mlr computed.  Line:                                *)
(*  [op, a, b, c (operands: decimal digit tokens, "0" where the operator    *)
(*   has no such operand), kind (typeof text; "crash"/"fatal" when the      *)
(*   process died on this row), val (digit tokens of the printed int, else  *)
(*   <<"0">>)]                                                              *)
(***************************************************************************)
EXTENDS Arith, Json, SequencesExt
CONSTANT ObsFile
Obs == ndJsonDeserialize(ObsFile)
VARIABLE l
Init == l = 1
Next == l < Len(Obs) /\ l' = l + 1
Why(R, kind, v) ==
  IF kind \in {"crash", "fatal"} THEN kind
  ELSE IF kind = "int" /\ "int" \notin R.ks THEN "int-where-no-int-is-specified"
  ELSE IF kind = "int" THEN "wrong-int-value"
  ELSE IF kind = "float" /\ R.ks = {"int"} THEN "float-where-the-exact-int-fits"
  ELSE "kind"
Conforms ==
  LET o == Obs[l]
      a == FromDigits(o.a)
      b == FromDigits(o.b)
      c == FromDigits(o.c)
      R == Result(o.op, a, b, c)
      v == IF o.kind = "int" THEN FromDigits(o.val) ELSE Zero
  IN Allowed(R, o.kind, v)
     \/ PrintT(ToJson([line |-> l, why |-> Why(R, o.kind, v), class |-> Class(o.op, a, b, c),
                       kinds |-> SetToSeq(R.ks), ints |-> SetToSeq({ToDigits(w) : w \in R.ints})]))
=============================================================================
