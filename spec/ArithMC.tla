------------------------------- MODULE ArithMC -------------------------------
(***************************************************************************)
(* Laws of BigInt and Arith themselves, checked by TLC over the cross       *)
(* product of the boundary grid with itself (and a few moduli/counts).      *)
(***************************************************************************)
EXTENDS ArithGen
VARIABLES a, b
vars == <<a, b, x>>
\* x = 0: a is chosen; x = 1: the pair (a, b) is chosen (so that TLC's workers share the pairs)
MCInit == a \in Grid /\ b = Zero /\ x = 0
MCNext == x = 0 /\ x' = 1 /\ a' = a /\ b' \in Grid

Digits63 == <<"9","2","2","3","3","7","2","0","3","6","8","5","4","7","7","5","8","0","8">>
Constants ==
  /\ Pow2(0) = One /\ Pow2(64) = Pow(Two, 64) /\ Pow2(10) = FromInt(1024) /\ Len(Pow2Mags) = 65
  /\ TwoTo63 = Pow2(63) /\ TwoTo64 = Pow2(64) /\ MaxInt64 = Sub(TwoTo63, One) /\ MinInt64 = Neg(TwoTo63)
  /\ One = FromInt(1) /\ Two = FromInt(2) /\ TimesBand = Sub(TwoTo63, FromInt(4096))
  /\ TwoTo63 = FromDigits(Digits63) /\ ToDigits(TwoTo63) = Digits63
  /\ ToDigits(MinInt64) = <<"-">> \o Digits63
  /\ Fits64(MaxInt64) /\ ~Fits64(Add(MaxInt64, One)) /\ Fits64(MinInt64) /\ ~Fits64(Sub(MinInt64, One))
  /\ Fits64(Zero) /\ ~Fits64(TwoTo64) /\ ~Fits64(Neg(TwoTo64))
  /\ Mul(MaxInt64, MaxInt64) = FromDigits(<<"8","5","0","7","0","5","9","1","7","3","0","2","3","4","6","1","5","8","4","7",
                                            "3","9","6","9","0","7","7","8","4","2","3","2","5","0","1","2","4","9">>)
  /\ FromDigits(<<"-","0">>) = Zero /\ FromDigits(<<"+","0","0","4","2">>) = FromInt(42) /\ ToDigits(Zero) = <<"0">>
  /\ FromInt(-123456789) = FromDigits(<<"-","1","2","3","4","5","6","7","8","9">>) /\ SmallVal(FromInt(-12345678)) = -12345678
  /\ Wrap64(TwoTo63) = MinInt64 /\ Wrap64(TwoTo64) = Zero /\ Wrap64(Sub(MinInt64, One)) = MaxInt64
  /\ Mul(Sqrt63, Sqrt63) = FromDigits(<<"9","2","2","3","3","7","2","0","3","0","9","2","6","2","4","9","0","0","1">>)
  /\ Fits64(Mul(Sqrt63, Sqrt63)) /\ ~Fits64(Mul(Add(Sqrt63, One), Add(Sqrt63, One)))
  /\ Fits64(Mul(Third63, FromInt(3))) /\ Mul(Add(Third63, One), FromInt(3)) = Add(TwoTo63, One)
  /\ Mul(FromInt(107), RoundsDown) = Add(TwoTo63, FromInt(61))
  /\ Pattern(Alt01) = <<21845, 21845, 21845, 21845>> /\ Pattern(Neg(One)) = <<65535, 65535, 65535, 65535>>
  /\ Pattern(Nibbles) = <<57072, 39612, 22136, 4660>>            \* 0xdef0 0x9abc 0x5678 0x1234
  /\ Pattern(MinInt64) = <<0, 0, 0, 32768>>
  /\ \A n \in 0..63 : Pow2(n + 1) = Add(Pow2(n), Pow2(n))

DivLaws(q, r, floor) ==
  /\ IsBig(q) /\ IsBig(r) /\ a = Add(Mul(q, b), r)
  /\ CmpMag(r.mag, b.mag) < 0
  /\ IF floor THEN (IsZero(r) \/ r.neg = b.neg) ELSE (IsZero(r) \/ r.neg = a.neg)
BigIntLaws ==
  /\ IsBig(a) /\ Fits64(a)
  /\ IsBig(Add(a, b)) /\ IsBig(Sub(a, b)) /\ IsBig(Mul(a, b))
  /\ Sub(Add(a, b), b) = a /\ Add(Sub(a, b), b) = a
  /\ Add(a, b) = Add(b, a) /\ Mul(a, b) = Mul(b, a)
  /\ Mul(a, Add(b, One)) = Add(Mul(a, b), a)
  /\ Neg(Neg(a)) = a /\ Add(a, Neg(a)) = Zero /\ Sub(Zero, a) = Neg(a)
  /\ Cmp(a, b) = -Cmp(b, a) /\ ((Cmp(a, b) = 0) = (a = b)) /\ (Cmp(a, b) < 0) = Sub(a, b).neg
  /\ FromDigits(ToDigits(a)) = a /\ FromDigits(ToDigits(Mul(a, b))) = Mul(a, b)
  /\ IsDigits(ToDigits(a))
  /\ Pow(a, 2) = Mul(a, a) /\ Pow(a, 3) = Mul(a, Mul(a, a))
  /\ ~IsZero(b) =>
       /\ DivLaws(DivModFloor(a, b)[1], DivModFloor(a, b)[2], TRUE)
       /\ DivLaws(DivModTrunc(a, b)[1], DivModTrunc(a, b)[2], FALSE)
       \* dividing a product gives the factor back, with the dividend's leftover as remainder
       /\ DivModFloor(Mul(a, b), b) = <<a, Zero>>
       /\ DivModTrunc(Mul(a, b), b) = <<a, Zero>>
  /\ LET w == Wrap64(Mul(a, b)) IN Fits64(w) /\ IsZero(ModFloor(Sub(w, Mul(a, b)), TwoTo64))
  /\ Wrap64(a) = a
  /\ \A v \in {a, Mul(a, b), Add(a, b), Neg(TwoTo64), Sub(Neg(TwoTo64), One), TwoTo64} : Unsigned64(v) = ModFloor(v, TwoTo64)

\* the documented identities, on the specification's own results
Val(R) == CHOOSE v \in R.ints : TRUE
IsInt(R) == R.ks = {"int"} /\ Cardinality(R.ints) = 1
ArithLaws ==
  /\ \A op \in BinaryOps : LET R == Result(op, a, b, Zero) IN
        /\ R.ks # {} /\ R.ks \subseteq {"int", "float", "error"}
        /\ \A v \in R.ints : IsBig(v) /\ Fits64(v)
        /\ Deterministic(R) /\ R.ks = {"int"} => (Allowed(R, "int", Val(R)) /\ ~Allowed(R, "int", Add(Val(R), One)) /\ ~Allowed(R, "float", Zero))
        /\ R = Float => (Allowed(R, "float", Zero) /\ ~Allowed(R, "int", Zero))
  /\ \A op \in UnaryOps : LET R == Result(op, a, Zero, Zero) IN R.ks # {} /\ \A v \in R.ints : Fits64(v)
  \* pythonic division: a = (a // b) * b + a % b; the remainder lies between 0 and the divisor
  /\ (~IsZero(b) /\ IsInt(IntDivide(a, b))) =>
       /\ a = Add(Mul(Val(IntDivide(a, b)), b), Mod(a, b))
       /\ (~b.neg => (~Mod(a, b).neg /\ Lt(Mod(a, b), b)))
       /\ (b.neg => (Lt(b, Mod(a, b)) /\ Le(Mod(a, b), Zero)))
       /\ Mod(a, b) \in Modulus(a, b).ints
  \* an exact quotient is an int and multiplies back; an inexact one is a float
  /\ (~IsZero(b) /\ IsInt(Divide(a, b))) => Mul(Val(Divide(a, b)), b) = a
  /\ (~IsZero(b) /\ Divide(a, b) = Float /\ ~(a = MinInt64 /\ b = Neg(One))) => ~IsZero(RemTrunc(a, b))
  /\ Divide(Mul(a, b), a) = (IF IsZero(a) THEN Loose ELSE ExactOrFloat(b))
  \* + - * are exact or float, and + - agree with the dot operators whenever they are int
  /\ IsInt(Result("+", a, b, Zero)) => Result("+", a, b, Zero) = Result(".+", a, b, Zero)
  /\ IsInt(Result("-", a, b, Zero)) => Result("-", a, b, Zero) = Result(".-", a, b, Zero)
  /\ IsInt(Result("*", a, b, Zero)) => Result("*", a, b, Zero) = Result(".*", a, b, Zero)
  /\ (Result("+", a, b, Zero) = Float) = ~Fits64(Add(a, b))
  /\ (Result("*", a, b, Zero) = Float) = ~Fits64(Mul(a, b))
  /\ Result("*", a, b, Zero) = Result("*", b, a, Zero)
  /\ Result("neg", a, Zero, Zero) = Result("-", Zero, a, Zero)
  \* bitwise identities
  /\ Add(BitOp(AndT, a, b), BitOp(OrT, a, b)) = Add(a, b)
  /\ BitOp(XorT, a, b) = Sub(BitOp(OrT, a, b), BitOp(AndT, a, b))
  /\ BitOp(XorT, a, Neg(One)) = BitNot(a) /\ BitOp(AndT, a, a) = a /\ BitOp(OrT, a, Zero) = a
  /\ BitOp(AndT, a, b) = BitOp(AndT, b, a) /\ OfPattern(Pattern(a)) = a
  \* shifts: by one is doubling modulo 2^64; right shifts undo a left shift that did not overflow
  /\ Shift("<<", a, One) = Exact(Wrap64(Add(a, a))) /\ Shift(">>>", a, Zero) = Exact(a) /\ Shift(">>", a, Zero) = Exact(a)
  /\ \A n \in {1, 7, 31, 32, 62, 63} : LET k == FromInt(n)  s == Mul(a, Pow2(n)) IN
        /\ Fits64(s) => (Shift(">>", s, k) = Exact(a) /\ (~a.neg => Shift(">>>", s, k) = Exact(a)))
        /\ Val(Shift(">>>", a, k)) = DivFloor(Unsigned64(a), Pow2(n)) /\ ~Val(Shift(">>>", a, k)).neg
        /\ Val(Shift(">>", a, k)).neg = a.neg
  /\ Shift("<<", a, FromInt(64)) = Loose /\ Shift(">>", a, Neg(One)) = Loose
  \* powers
  /\ Power(a, Two) = ExactOrFloat(Mul(a, a)) /\ Power(a, One) = Exact(a) /\ Power(a, Zero) = Exact(One)
  /\ Power(a, FromInt(3)) = ExactOrFloat(Mul(a, Mul(a, a)))
  /\ (Lt(One, Abs(a)) /\ Lt(One, b)) => (Power(a, b) = Float \/ (IsInt(Power(a, b)) /\ Lt(Abs(a), Abs(Val(Power(a, b))))))
  \* min/max, abs, sgn
  /\ {Val(Result("min", a, b, Zero)), Val(Result("max", a, b, Zero))} = {a, b}
  /\ Le(Val(Result("min", a, b, Zero)), Val(Result("max", a, b, Zero)))
  /\ (a # MinInt64) => Val(Result("abs", a, Zero, Zero)) = Mul(a, Val(Result("sgn", a, Zero, Zero)))
  \* roundm: a nearest multiple
  /\ \A v \in RoundM(a, b).ints : IsZero(ModFloor(v, b)) /\ CmpMag(MulSmallMag(Sub(v, a).mag, 2), b.mag) <= 0
  \* modular functions: residues, and agreement between them
  /\ \A m \in {One, FromInt(7), D(<<"1","0","0","0","0","0","0","0","0","7">>), MaxInt64} :
        /\ \A op \in TernaryOps \ {"mexp"} : LET r == Val(Modular(op, a, b, m)) IN ~r.neg /\ Lt(r, m)
        /\ Modular("madd", Val(Modular("msub", a, b, m)), b, m) = Exact(ModFloor(a, m))
        /\ Modular("mexp", a, Two, m) = Modular("mmul", a, a, m)
        /\ Modular("mexp", a, FromInt(5), m) = Modular("mmul", Val(Modular("mexp", a, FromInt(4), m)), a, m)
        /\ Modular("mmul", a, b, m) = Exact(ModFloor(Mul(ModFloor(a, m), ModFloor(b, m)), m))
  \* a ** (b + 1) = a ** b * a (mod m), for the exponents of the grid, on a slice of the grid
  /\ (~b.neg /\ IsSmall(b) /\ a \in Tri) => LET m == D(<<"1","0","0","0","0","0","0","0","0","7">>) IN
        Modular("mexp", a, Add(b, One), m) = Modular("mmul", Val(Modular("mexp", a, b, m)), a, m)
  /\ Modular("madd", a, b, Zero) = Loose /\ Modular("mexp", a, Neg(One), Two) = Loose
\* Fermat: a^(p-1) = 1 (mod p) for the primes 10^9 + 7 and 2^61 - 1 (a 61-bit exponent)
Fermat == \A p \in {D(<<"1","0","0","0","0","0","0","0","0","7">>), Sub(Pow2(61), One)} : \A g \in {Two, FromInt(7), Sqrt63, MaxInt64, MinInt64} :
            Modular("mexp", g, Sub(p, One), p) = Exact(One)
ASSUME Constants /\ Fermat
Laws == x = 1 => (BigIntLaws /\ ArithLaws)
=============================================================================
