-------------------------- MODULE VerbsAggregateGen --------------------------
EXTENDS VerbsAggregateCases, Json
VARIABLE x
Init == IsCase(x)
Next == UNCHANGED x
Emit == PrintT(ToJson(x))
=============================================================================
