SPECIFICATION Spec
CONSTANTS
  Configs <- MCConfigs
  DoneSendBlocking = FALSE
  ExitStops = TRUE
  FirstErrorOnly = FALSE
  MaxLen = 2
  Trailing = TRUE
  Bs = {1, 2, 3}
  Family = "plain"
INVARIANTS TypeOK PrefixOrder OutputCorrect SuccessDeterministic ErrorNotLost SuccessMeansClean FailDeterministic
CHECK_DEADLOCK TRUE
