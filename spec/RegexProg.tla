------------------------------ MODULE RegexProg ------------------------------
(***************************************************************************)
(* Several regex operations in ONE mlr process: a record stream run through *)
(* a then-chain of `put` verbs (a few statement forms) and of the verbs     *)
(* that take regexes.  The operations share nothing but what the reference  *)
(* says they share: the captures of =~ / !=~ inside one put.  Whatever else *)
(* a process keeps between two uses of a regex (compiled forms, caches) is  *)
(* not part of the meaning, so every operation means what it means alone.   *)
(*                                                                         *)
(* reference-main-regular-expressions.md:                                   *)
(*  - "Captures have in-function context for sub and gsub";  strmatch "      *)
(*    doesn't set \0..\9", strmatchx "also doesn't set"; regextract "Does not *)
(*    use capture groups"                                                   *)
(*  - "Captures endure for the entirety of a put for the =~ and !=~          *)
(*    operators"                                                            *)
(*  - "Each user-defined function has its own frame for captures"           *)
(*  - "The captures are not retained across multiple puts"                  *)
(*  - the three sentences on "\1" before a match / after a successful /     *)
(*    after an unsuccessful match (Regex.tla: Interp, AfterMatch)           *)
(* Not stated: whether captures set while one record is processed are       *)
(* still there when the next record starts ("the entirety of a put" can be  *)
(* read either way): both readings are computed (parameter carry).          *)
(* Left open (a run that gets there is not constrained): a string literal   *)
(* holding "\1" passed to sub / gsub while captures of an earlier =~ are    *)
(* set (two sentences of the page claim that "\1"); a rename that makes two *)
(* fields of one record have the same name; a statement whose subject field *)
(* is missing or not a string; a sub / gsub / ssub verb or grep meeting a   *)
(* boolean or map value; a cut that leaves a record without fields.         *)
(***************************************************************************)
EXTENDS Regex

\* ---- values, records ----------------------------------------------------------------------------------
\* value = [t: "s" string | "b" boolean | "m" the map of strmatchx | "r" a string holding the text of a regex,
\*          s: characters, m: the strmatchx map, re: the regex of an "r" value]
MX0 == MX(<<>>, <<>>, 0, 0, <<>>, <<>>, <<>>)
VStr(s) == [t |-> "s", s |-> s, m |-> MX0, re |-> <<>>]
VBool(b) == [t |-> "b", s |-> <<IF b THEN "true" ELSE "false">>, m |-> MX0, re |-> <<>>]
VMap(m) == [t |-> "m", s |-> <<>>, m |-> m, re |-> <<>>]
VRe(re) == [t |-> "r", s |-> Text(re), m |-> MX0, re |-> re]
F(n, v) == [n |-> n, v |-> v]                                   \* a field: name (characters), value
Has(rec, n) == \E k \in 1..Len(rec) : rec[k].n = n
Get(rec, n) == rec[CHOOSE k \in 1..Len(rec) : rec[k].n = n].v
\* assignment to $n: in place when the field exists, else a new last field
Put(rec, n, v) == IF Has(rec, n) THEN [k \in 1..Len(rec) |-> IF rec[k].n = n THEN F(n, v) ELSE rec[k]] ELSE Append(rec, F(n, v))
IsText(v) == v.t \in {"s", "r"}

\* ---- a regex operand ------------------------------------------------------------------------------------
\* [src: "lit" "P" | "liti" "P"i | "flag" "(?i)P" | "field" the text held by field f of the current record, re, f,
\*  tx: the text of re (for the harness, which spells it)]
RX(src, re, f) == [src |-> src, re |-> re, f |-> f, tx |-> Text(re)]
RxCI(rx) == rx.src \in {"liti", "flag"}
RxRe(rx, rec) == IF rx.src = "field" THEN Get(rec, rx.f).re ELSE rx.re
RxOK(rx, rec) == rx.src = "field" => (Has(rec, rx.f) /\ Get(rec, rx.f).t = "r")

\* ---- put ------------------------------------------------------------------------------------------------
\* statement = [k, o: output field, s: subject field, rx, a: replacement / default / template]
\*   sub gsub regextract regextract_or_else strmatch strmatchx     $o = k($s, rx [, "a"]);
\*   match / notmatch                                               $o = ($s =~ rx);   $o = ($s !=~ rx);
\*   interp                                                         $o = "a";          (a string literal with \0..\9)
\*   call                                                           $o = f();          f: the function of the put
\* function = [has: does it match first, s: the literal subject, rx, a: the template it returns]
\*   func f() { [ if ("s" =~ rx) {} ]  return "a"; }
St(k, o, s, rx, a) == [k |-> k, o |-> o, s |-> s, rx |-> rx, a |-> a]
Fn(has, s, rx, a) == [has |-> has, s |-> s, rx |-> rx, a |-> a]
\* the state while one record is processed: [rec, cap: the capture state, u: TRUE once the run has left the documented region]
Exec(st, fn, x) ==
  LET rec == x.rec
      okS == st.k \in {"interp", "call"} \/ (Has(rec, st.s) /\ IsText(Get(rec, st.s)) /\ RxOK(st.rx, rec))
  IN IF ~okS THEN [x EXCEPT !.u = TRUE] ELSE
  LET s == Get(rec, st.s).s
      re == RxRe(st.rx, rec)
      ci == RxCI(st.rx)
  IN CASE st.k = "sub" -> [x EXCEPT !.rec = Put(rec, st.o, VStr(SubStr(s, re, ci, st.a))), !.u = @ \/ (x.cap.k = "set" /\ HasRef(st.a))]
       [] st.k = "gsub" -> [x EXCEPT !.rec = Put(rec, st.o, VStr(GsubStr(s, re, ci, st.a))), !.u = @ \/ (x.cap.k = "set" /\ HasRef(st.a))]
       [] st.k = "regextract" -> (LET r == Regextract(s, re, ci) IN
                                  IF r.k = "absent" THEN x ELSE [x EXCEPT !.rec = Put(rec, st.o, VStr(r.s))])
       [] st.k = "regextract_or_else" -> [x EXCEPT !.rec = Put(rec, st.o, VStr(RegextractOrElse(s, re, ci, st.a).s))]
       [] st.k = "strmatch" -> [x EXCEPT !.rec = Put(rec, st.o, VBool(Matches(s, re, ci)))]
       [] st.k = "strmatchx" -> [x EXCEPT !.rec = Put(rec, st.o, VMap(StrmatchX(s, re, ci)))]
       [] st.k = "match" -> [x EXCEPT !.rec = Put(rec, st.o, VBool(Matches(s, re, ci))), !.cap = AfterMatch(s, re, ci)]
       [] st.k = "notmatch" -> [x EXCEPT !.rec = Put(rec, st.o, VBool(~Matches(s, re, ci))), !.cap = AfterMatch(s, re, ci)]
       [] st.k = "interp" -> [x EXCEPT !.rec = Put(rec, st.o, VStr(Interp(st.a, 1, x.cap)))]
       [] st.k = "call" -> (LET frame == IF fn.has THEN AfterMatch(fn.s, fn.rx.re, RxCI(fn.rx)) ELSE Init0 IN
                            [x EXCEPT !.rec = Put(rec, st.o, VStr(Interp(fn.a, 1, frame)))])
RECURSIVE ExecAll(_, _, _, _)
ExecAll(sts, k, fn, x) == IF k > Len(sts) THEN x ELSE ExecAll(sts, k + 1, fn, Exec(sts[k], fn, x))
\* the records one after the other; carry: the captures survive from one record to the next
RECURSIVE PutRecs(_, _, _, _, _, _)
PutRecs(sts, fn, recs, k, cap, carry) ==
  IF k > Len(recs) THEN [u |-> FALSE, rs |-> <<>>]
  ELSE LET x == ExecAll(sts, 1, fn, [rec |-> recs[k], cap |-> IF carry THEN cap ELSE Init0, u |-> FALSE])
           rest == PutRecs(sts, fn, recs, k + 1, x.cap, carry)
       IN [u |-> x.u \/ rest.u, rs |-> <<x.rec>> \o rest.rs]

\* ---- the verbs that take regexes ---------------------------------------------------------------------------
\* verb = [v, st, fn, f: field names, rx, rs: several regexes (cut), a, g: the verb's flag, m: mode]
Verb(v, st, fn, f, rx, rs, a, g, m) == [v |-> v, st |-> st, fn |-> fn, f |-> f, rx |-> rx, rs |-> rs, a |-> a, g |-> g, m |-> m]
Fn0 == Fn(FALSE, <<>>, RX("lit", <<>>, <<>>), <<>>)
Rx0 == RX("lit", <<>>, <<>>)
PutV(st, fn) == Verb("put", st, fn, <<>>, Rx0, <<>>, <<>>, FALSE, "")
SubV(v, f, rx, a) == Verb(v, <<>>, Fn0, f, rx, <<>>, a, FALSE, "f")      \* v: "sub" "gsub" "ssub";  mlr sub -f f1,f2 re a
SubVR(v, r, rx, a) == Verb(v, <<>>, Fn0, <<>>, rx, <<r>>, a, FALSE, "r")  \*   mlr sub -r fieldregex re a
SubVA(v, rx, a) == Verb(v, <<>>, Fn0, <<>>, rx, <<>>, a, FALSE, "a")      \*   mlr sub -a re a
CutV(rs, x) == Verb("cut", <<>>, Fn0, <<>>, Rx0, rs, <<>>, x, "")          \* mlr cut [-x] -r -f re1,re2
HavingV(m, rx) == Verb("having-fields", <<>>, Fn0, <<>>, rx, <<>>, <<>>, FALSE, m)   \* m: "any" "all" "none"
RenameV(rx, a, g) == Verb("rename", <<>>, Fn0, <<>>, rx, <<>>, a, g, "")   \* mlr rename [-g] -r re,a
GrepV(rx, v) == Verb("grep", <<>>, Fn0, <<>>, rx, <<>>, <<>>, v, "")       \* mlr grep [-i] [-v] re   (-i: rx.src = "liti")

SeqSet(t) == {t[k] : k \in 1..Len(t)}
\* literal replacement of the first occurrence (ssub: "Like sub but does no regexing. No characters are special.")
RECURSIVE FirstOcc(_, _, _)
FirstOcc(s, p, k) == IF k + Len(p) - 1 > Len(s) THEN 0 ELSE IF SubSeq(s, k, k + Len(p) - 1) = p THEN k ELSE FirstOcc(s, p, k + 1)
Ssub(s, p, t) == LET k == FirstOcc(s, p, 1) IN IF p = <<>> \/ k = 0 THEN s ELSE SubSeq(s, 1, k - 1) \o t \o SubSeq(s, k + Len(p), Len(s))
\* cut -r: "Treat field names as regular expressions. "ab", "a.*b" will match any field name containing the substring
\* "ab" or matching "a.*b""; -x: "Exclude, rather than include"
NameHit(n, rs) == \E k \in 1..Len(rs) : Matches(n, rs[k].re, RxCI(rs[k]))
\* sub / gsub / ssub verbs: "Replaces old string with new string in specified field(s) ... like the `sub` DSL function";
\* "-f {a,b,c} Field names to apply substitution to. -r {regex} Regular expression for field names to apply substitution
\* to. -a Apply substitution to all fields."
Selected(vb, n) == CASE vb.m = "f" -> n \in SeqSet(vb.f) [] vb.m = "r" -> NameHit(n, vb.rs) [] vb.m = "a" -> TRUE
SubField(vb, fld) ==
  IF ~Selected(vb, fld.n) \/ ~IsText(fld.v) THEN fld
  ELSE F(fld.n, VStr(CASE vb.v = "sub" -> SubStr(fld.v.s, vb.rx.re, RxCI(vb.rx), vb.a)
                       [] vb.v = "gsub" -> GsubStr(fld.v.s, vb.rx.re, RxCI(vb.rx), vb.a)
                       [] vb.v = "ssub" -> Ssub(fld.v.s, Text(vb.rx.re), vb.a)))
\* rename -r: "Treat old field names as regular expressions ... New field names may be plain strings, or may contain
\* capture groups of the form "\1" through "\9""; -g: "Do global replacement within each field name rather than
\* first-match replacement"
NewName(vb, n) == IF vb.g THEN GsubStr(n, vb.rx.re, RxCI(vb.rx), vb.a) ELSE SubStr(n, vb.rx.re, RxCI(vb.rx), vb.a)
Distinct(t) == \A p, q \in 1..Len(t) : p # q => t[p] # t[q]
\* grep: "formatting each record in memory as DKVP ... using OFS "," and OPS "=", and matching the resulting line
\* against the regex"; -i "case-insensitive search", -v "pass through records which do not match"
RECURSIVE LineOf(_, _)
LineOf(rec, k) == IF k > Len(rec) THEN <<>>
                  ELSE rec[k].n \o <<"eq">> \o rec[k].v.s \o (IF k < Len(rec) THEN <<"comma">> ELSE <<>>) \o LineOf(rec, k + 1)
AllText(rec) == \A k \in 1..Len(rec) : IsText(rec[k].v)

\* one record through one verb (not put): [u, rs: zero or one record]
Keep(b, rec) == IF b THEN <<rec>> ELSE <<>>
VerbRec(vb, rec) ==
  CASE vb.v \in {"sub", "gsub", "ssub"} -> [u |-> \E k \in 1..Len(rec) : Selected(vb, rec[k].n) /\ ~IsText(rec[k].v),     \* (a non-string field: not stated)
                                            rs |-> << [k \in 1..Len(rec) |-> SubField(vb, rec[k])] >>]
    [] vb.v = "cut" -> (LET out == SelectSeq(rec, LAMBDA fld : NameHit(fld.n, vb.rs) # vb.g) IN [u |-> out = <<>>, rs |-> <<out>>])   \* (a record left without fields: not stated)
    [] vb.v = "having-fields" ->
         (LET hits == {k \in 1..Len(rec) : Matches(rec[k].n, vb.rx.re, RxCI(vb.rx))} IN
          [u |-> FALSE, rs |-> Keep(CASE vb.m = "any" -> hits # {} [] vb.m = "all" -> hits = 1..Len(rec) [] vb.m = "none" -> hits = {}, rec)])
    [] vb.v = "rename" ->
         (LET out == [k \in 1..Len(rec) |-> F(NewName(vb, rec[k].n), rec[k].v)] IN
          [u |-> ~Distinct([k \in 1..Len(out) |-> out[k].n]), rs |-> <<out>>])
    [] vb.v = "grep" -> [u |-> ~AllText(rec), rs |-> Keep(Matches(LineOf(rec, 1), vb.rx.re, RxCI(vb.rx)) # vb.g, rec)]
RECURSIVE VerbRecs(_, _, _)
VerbRecs(vb, recs, k) ==
  IF k > Len(recs) THEN [u |-> FALSE, rs |-> <<>>]
  ELSE LET a == VerbRec(vb, recs[k]) b == VerbRecs(vb, recs, k + 1) IN [u |-> a.u \/ b.u, rs |-> a.rs \o b.rs]

\* ---- a program: records through a chain --------------------------------------------------------------------
\* prog = [recs, chain]
RECURSIVE RunChain(_, _, _, _)
RunChain(chain, k, recs, carry) ==
  IF k > Len(chain) THEN [u |-> FALSE, rs |-> recs]
  ELSE LET a == IF chain[k].v = "put" THEN PutRecs(chain[k].st, chain[k].fn, recs, 1, Init0, carry) ELSE VerbRecs(chain[k], recs, 1)
           b == RunChain(chain, k + 1, a.rs, carry)
       IN [u |-> a.u \/ b.u, rs |-> b.rs]
Run(prog, carry) == RunChain(prog.chain, 1, prog.recs, carry)

\* what is observed: the output records, as [n, v] with v of kind "s" / "b" / "m" ("r" values are strings)
ValOK(want, got) == IF want.t = "m" THEN got.t = "m" /\ MXOK(want.m, got.m)
                    ELSE got.t = (IF want.t = "r" THEN "s" ELSE want.t) /\ got.s = want.s
RecOK(want, got) == Len(want) = Len(got) /\ \A k \in 1..Len(want) : want[k].n = got[k].n /\ ValOK(want[k].v, got[k].v)
OutOK(want, got) == Len(want) = Len(got) /\ \A k \in 1..Len(want) : RecOK(want[k], got[k])
\* where the first difference is (for the report): <<record, field, part>>; part: "count" (number of records), "shape" (the
\* field names of the record), "value", or for a strmatchx map "keys" / "text" / "index"
MinOfSet(S) == CHOOSE v \in S : \A w \in S : v <= w
PartOf(want, got) == IF want.t # "m" \/ got.t # "m" THEN "value"
                     ELSE IF got.m.keys # want.m.keys THEN "keys"
                     ELSE IF got.m.full # want.m.full \/ got.m.caps # want.m.caps THEN "text" ELSE "index"
Diff(want, got) ==
  IF Len(want) # Len(got) THEN <<"0", "0", "count">>
  ELSE LET R == {k \in 1..Len(want) : ~RecOK(want[k], got[k])} IN
       IF R = {} THEN <<"0", "0", "">>
       ELSE LET k == MinOfSet(R) IN
            IF Len(want[k]) # Len(got[k]) \/ \E j \in 1..Len(want[k]) : want[k][j].n # got[k][j].n THEN <<ToString(k), "0", "shape">>
            ELSE LET j == MinOfSet({j \in 1..Len(want[k]) : ~ValOK(want[k][j].v, got[k][j].v)}) IN
                 <<ToString(k), ToString(j), PartOf(want[k][j].v, got[k][j].v)>>
Allowed(prog, out) == \E carry \in BOOLEAN : LET r == Run(prog, carry) IN r.u \/ OutOK(r.rs, out)
=============================================================================
