----------------------------- MODULE StringsGen -----------------------------
(* The bounded case space of C15, one family per run (constant Fam), every case printed as JSON.               *)
(* L is the size level: 3 = quick, 4 = thorough (string lengths and alphabets grow with it).                    *)
(* All indices range over -(n+2)..n+2 for a string of n characters.                                            *)
EXTENDS Strings, PrintfInt, Json
CONSTANTS Fam, L
VARIABLE x
Big == L >= 4
Seqs(S, lo, hi) == UNION {[1..n -> S] : n \in lo..hi}
Case(f, s, t, u, i, j, a, ks) == [f |-> f, s |-> s, t |-> t, u |-> u, i |-> i, j |-> j, a |-> a, ks |-> ks]
E == <<>>
Range(s) == (-(Len(s) + 2))..(Len(s) + 2)

\* ---- one-argument functions: ASCII letters of both cases among multi-byte bystanders and whitespace ----------
AU == IF Big THEN {"a", "A", "b", "e2", "E2", "c3", "g4", "sp", "tab"} ELSE {"a", "A", "e2", "g4", "sp", "tab"}
Unary == {"strlen", "toupper", "tolower", "capitalize", "lstrip", "rstrip", "strip", "collapse_whitespace", "clean_whitespace"}
InitUnary == \E f \in Unary, s \in Seqs(AU, 0, L) : x = Case(f, s, E, E, 0, 0, E, E)

\* ---- indices: characters of every byte width ----------------------------------------------------------------
AI == IF Big THEN {"a", "e2", "c3", "g4"} ELSE {"a", "e2", "g4"}
InitIndex == \E s \in Seqs(AI, 0, L) :
  \/ \E i \in Range(s), f \in {"index1", "truncate"} : x = Case(f, s, E, E, i, 0, E, E)
  \/ \E i \in Range(s), j \in Range(s), f \in {"slice", "substr", "substr0", "substr1"} : x = Case(f, s, E, E, i, j, E, E)

\* ---- padding: one-character pads of each width and multi-character pads ------------------------------------------
Pads == {<<>>, <<"b">>, <<"e2">>, <<"g4">>, <<"a", "b">>, <<"e2", "g4">>} \cup (IF Big THEN {<<"c3">>, <<"a", "e2", "b">>} ELSE {})
InitPad == \E s \in Seqs(AI, 0, L - 1) : \E i \in (-1)..(Len(s) + 5), t \in Pads, f \in {"leftpad", "rightpad"} :
             x = Case(f, s, t, E, i, 0, E, E)

\* ---- literal replacement: the pattern alphabet contains regex metacharacters ---------------------------------------
AR == IF Big THEN {"a", "dot", "star", "e2"} ELSE {"a", "dot", "e2"}
Repls == {<<>>, <<"b">>, <<"g4">>, <<"dot", "a">>} \cup (IF Big THEN {<<"a", "a">>, <<"star">>} ELSE {})
InitReplace == \E s \in Seqs(AR, 0, L), t \in Seqs(AR, 1, 2), u \in Repls, f \in {"ssub", "gssub"} :
                 x = Case(f, s, t, u, 0, 0, E, E)

\* ---- concatenation, index, contains ------------------------------------------------------------------------------
InitFind ==
  \/ \E s \in Seqs(AI, 0, L), t \in Seqs(AI, 1, 2), f \in {"index", "contains"} : x = Case(f, s, t, E, 0, 0, E, E)
  \/ \E s \in Seqs(AI \cup {"sp"}, 0, 2), t \in Seqs(AI \cup {"sp"}, 0, 2) : x = Case("dot", s, t, E, 0, 0, E, E)

\* ---- split and join on a one-character separator (1-byte and multi-byte) ---------------------------------------------
AS == IF Big THEN {"a", "b", "comma", "e2"} ELSE {"a", "comma", "e2"}
InitSplit == \E s \in Seqs(AS, 0, L + 1), t \in {<<"comma">>, <<"e2">>},
                f \in {"splitax", "splita", "splitnv", "splitnvx", "join_split"} : x = Case(f, s, t, E, 0, 0, E, E)
Elems == IF Big THEN Seqs({"a", "e2"}, 0, 2) ELSE {<<>>, <<"a">>, <<"e2">>, <<"a", "e2">>}
Arrays == Seqs(Elems, 0, 3)
Keys == {<<"a">>, <<"e2">>, <<"b", "a">>}
KeyLists == {ks \in Seqs(Keys, 1, IF Big THEN 3 ELSE 2) : \A p, q \in 1..Len(ks) : p # q => ks[p] # ks[q]}
Vals == {<<>>, <<"a">>, <<"e2">>, <<"a", "e2">>}
InitJoin ==
  \/ \E a \in Arrays, t \in {<<"comma">>, <<"g4">>}, f \in {"joinv", "joink", "split_join"} : x = Case(f, E, t, E, 0, 0, a, E)
  \/ \E a \in Arrays, tu \in {<< <<"eq">>, <<"comma">> >>, << <<"g4">>, <<"c3">> >>} : x = Case("joinkv", E, tu[1], tu[2], 0, 0, a, E)
  \/ \E ks \in KeyLists : \E a \in [1..Len(ks) -> Vals] :
       \/ \E t \in {<<"comma">>, <<"g4">>}, f \in {"joinv", "joink"} : x = Case(f, E, t, E, 0, 0, a, ks)
       \/ \E tu \in {<< <<"eq">>, <<"comma">> >>, << <<"g4">>, <<"c3">> >>} :
            \/ x = Case("joinkv", E, tu[1], tu[2], 0, 0, a, ks)
            \/ x = Case("splitkvx_joinkv", E, tu[1], tu[2], 0, 0, a, ks)

\* ---- string literals in the DSL text itself (one program per case: a literal the lexer rejects fails the program) ----
InitLiteral ==
  \/ \E s \in Seqs({"a", "e2", "c3", "g4", "sp"}, 0, IF Big THEN 3 ELSE 2) : x = Case("literal", s, E, E, 0, 0, E, E)
  \/ \E ch \in DOMAIN Named : x = Case("escape", <<ch>>, <<"named">>, <<Named[ch]>>, 0, 0, E, E)
  \/ \E ch \in {"a", "A", "tab", "sp"}, k \in {"octal", "hex"} : x = Case("escape", <<ch>>, <<k>>, E, 0, 0, E, E)   \* (ASCII only: whether \351
  \/ \E ch \in {"a", "e2", "E2", "c3", "tab"} : x = Case("escape", <<ch>>, <<"u4">>, E, 0, 0, E, E)                \*  is a byte or U+00E9 is not stated)
  \/ \E ch \in {"a", "e2", "c3", "g4"} : x = Case("escape", <<ch>>, <<"U8">>, E, 0, 0, E, E)

\* ---- integer formatting ----------------------------------------------------------------------------------------
FCase(f, n, F, w, lm, v) == [f |-> f, n |-> n, F |-> F, w |-> w, lm |-> lm, v |-> v]
Ns == {-17, -1, 0, 1, 17, 255} \cup (IF Big THEN {5, -255, 65535, 1234567, -1234567, 2147483647} ELSE {})
FlagSets == IF Big THEN SUBSET Flags ELSE {F \in SUBSET Flags : Cardinality(F) <= 2}
Widths == 0..(IF Big THEN 8 ELSE 6)
InitFmt ==
  \/ \E n \in Ns, F \in FlagSets, w \in Widths, lm \in {"", "l", "ll"}, v \in Verbs, f \in {"fmtnum", "fmtifnum"} :
       /\ x = FCase(f, n, F, w, lm, v)
       /\ Constrained(x)
       /\ (f = "fmtifnum" /\ ~Big => lm = "")
  \/ \E n \in {0, 17, 999, 1000, -1000, 1234567, -1234567}, w \in {0, 5, 12}, f \in {"fmtnum", "fmtifnum"} : x = FCase(f, n, {}, w, "", "_d")
  \/ \E n \in {n \in Ns : n >= 0} : x = FCase("hexfmt", n, {}, 0, "", "x")
  \/ \E v \in {"d", "x"}, w \in {0, 5}, f \in {"fmtnum_s", "fmtifnum_s"} : x = FCase(f, 0, {}, w, "", v)

Init == CASE Fam = "unary" -> InitUnary [] Fam = "index" -> InitIndex [] Fam = "pad" -> InitPad
          [] Fam = "replace" -> InitReplace [] Fam = "find" -> InitFind [] Fam = "split" -> InitSplit
          [] Fam = "join" -> InitJoin [] Fam = "fmt" -> InitFmt [] Fam = "literal" -> InitLiteral
Next == UNCHANGED x
Emit == PrintT(ToJson(x))
=============================================================================
