SPECIFICATION Spec
CONSTANTS
  Targets = {1, 2, 3}
  K = 2
  Kind = "plain"
  Mode = "write"
  Pre = {}
  MaxWrites = 6
  Suspend = TRUE
INVARIANTS Refines AtMostKOpen OpenNotEvicted CompleteAndOrdered
CHECK_DEADLOCK TRUE
