------------------------------- MODULE SortMC -------------------------------
(* The laws of C09 on the specification itself.                               *)
(*  Law = "preorder": every collation is a total preorder on the whole        *)
(*     universe of elements (exhaustive over triples), descending is the      *)
(*     mirror image, lexical order is a total order on texts, numbers precede *)
(*     everything else in numeric order.                                      *)
(*  Law = "sort": over all bounded (configuration, stream): ValidSort is      *)
(*     satisfiable; what it accepts is an ordered permutation with the        *)
(*     keyless records last; the stable sort is accepted, and is the only     *)
(*     accepted-and-stable rearrangement; truncated or altered outputs are    *)
(*     rejected; a verb result's key column is a valid result of the sort     *)
(*     function with the same collation.                                      *)
(*  Law = "fn": ValidFn is satisfiable, accepts only permutations, a          *)
(*     comparator function equals its flag string, reversal mirrors.          *)
EXTENDS Sort
CONSTANTS Law, MaxLen
VARIABLE v

AllElems == {D(t) : t \in Texts} \cup {<<"b", "true">>, <<"b", "false">>}
Types == {"n", "f", "c", "t"}

\* ---------------------------------------------------------------- preorder
\* the choices that matter to a collation (the others do not occur in its definition)
Relevant(ty) == CASE ty = "n" -> {ch \in OrderChoices : ch.nc = "cs" /\ ch.en = "first"}
                  [] ty = "t" -> {ch \in OrderChoices : ch.es = "ef"}
                  [] OTHER -> {ch \in OrderChoices : ch.es = "ef" /\ ch.nc = "cs" /\ ch.en = "first"}
\* the state is a pair <<a, b>>; transitivity quantifies over every third element, so all triples are covered
PreorderAt(a, b) ==
  /\ \A ty \in Types : \A ch \in Relevant(ty) :
       LET cmp(p, q) == ElemCmp(ch, ty, p, q) IN
       /\ cmp(a, b) \in {-1, 0, 1}
       /\ cmp(a, a) = 0
       /\ cmp(a, b) = -cmp(b, a)
       /\ cmp(a, b) <= 0 => \A c \in AllElems : cmp(b, c) <= 0 => cmp(a, c) <= 0
       /\ a = b => cmp(a, b) = 0
  /\ \A f \in VerbFlags : \A ch \in Relevant(FlagType(f)) : (a[1] = "d" /\ b[1] = "d") =>
       /\ KeyCmp(ch, f, a[2], b[2]) = (IF FlagRev(f) THEN -1 ELSE 1) * ElemCmp(ch, FlagType(f), a, b)
       /\ DevKeyCmp(ch, f, a[2], b[2]) = -DevKeyCmp(ch, f, b[2], a[2])
       /\ DevKeyCmp(ch, f, a[2], b[2]) <= 0 =>
            \A c \in AllElems : (c[1] = "d" /\ DevKeyCmp(ch, f, b[2], c[2]) <= 0) => DevKeyCmp(ch, f, a[2], c[2]) <= 0
  \* lexical order is a total order of the texts; texts equal up to case are equal in case-folded order
  /\ (LexT[a[2], b[2]] = 0) <=> (a[2] = b[2])
  /\ LexT[a[2], b[2]] = 0 => FoldT[a[2], b[2]] = 0
  \* "numeric order places numbers by value before booleans, empties and strings"
  /\ \A ch \in Choices :
       /\ (a[1] = "d" /\ IsNum(a[2]) /\ ~(b[1] = "d" /\ IsNum(b[2]))) => NumCmp(ch, a, b) = -1
       /\ (a[1] = "d" /\ IsNum(a[2]) /\ b[1] = "d" /\ IsNum(b[2])) => NumCmp(ch, a, b) = Sign(Row[a[2]].n - Row[b[2]].n)
       /\ (a[1] = "b" /\ b[1] = "d" /\ ~IsNum(b[2])) => NumCmp(ch, a, b) = -1

\* ---------------------------------------------------------------- sort
MU == {"1", "1.0", "abc", "Abc", "", "missing"}
MU2 == {"1", "1.0", "Abc", "abc", "missing"}
Names == <<"x", "y">>
MRec(i, vals) == <<<<"i", ToString(i)>>>> \o SelIdx([k \in 1..Len(vals) |-> <<Names[k], vals[k]>>], LAMBDA k : vals[k] # "missing")
Streams1 == UNION {[1..n -> MU] : n \in 0..MaxLen}
MU3 == {"1", "abc", "missing"}
Streams2 == UNION {[1..n -> MU2 \X MU3] : n \in 0..(IF MaxLen > 2 THEN 2 ELSE MaxLen)}
SortStates ==
  {[c |-> [keys |-> <<"x">>, flags |-> <<f>>, b |-> b], s |-> [i \in 1..Len(w) |-> MRec(i, <<w[i]>>)]]
      : f \in VerbFlags, b \in BOOLEAN, w \in Streams1}
  \cup {[c |-> [keys |-> <<"x", "y">>, flags |-> <<f, g>>, b |-> FALSE], s |-> [i \in 1..Len(w) |-> MRec(i, w[i])]]
      : f \in {"f", "nr", "c", "tr"}, g \in {"r", "nf"}, w \in Streams2}
Perms(s) == {[i \in 1..Len(s) |-> s[p[i]]] : p \in {q \in [1..Len(s) -> 1..Len(s)] : \A i, j \in 1..Len(s) : i # j => q[i] # q[j]}}
\* the stable sort, by insertion after everything not greater
InsertAfter(ch, c, sorted, r) ==
  LET pos == Cardinality({i \in 1..Len(sorted) : MultiCmp(ch, c.flags, GroupKey(sorted[i], c.keys), GroupKey(r, c.keys), 1) <= 0})
  IN SubSeq(sorted, 1, pos) \o <<r>> \o SubSeq(sorted, pos + 1, Len(sorted))
RECURSIVE InsertAll(_, _, _, _)
InsertAll(ch, c, sorted, rest) == IF rest = <<>> THEN sorted ELSE InsertAll(ch, c, InsertAfter(ch, c, sorted, Head(rest)), Tail(rest))
Reference(ch, c, s) == InsertAll(ch, c, <<>>, Want(c, s)) \o Keyless(s, c.keys)
AdjacentOrdered(ch, c, recs) ==
  \A i \in 1..(Len(recs) - 1) : MultiCmp(ch, c.flags, GroupKey(recs[i], c.keys), GroupKey(recs[i + 1], c.keys), 1) <= 0
FlagChars(f) == CASE f = "f" -> <<"f">> [] f = "r" -> <<"f", "r">> [] f = "c" -> <<"c">> [] f = "cr" -> <<"c", "r">>
                  [] f \in {"n", "nf"} -> <<"n">> [] f = "nr" -> <<"n", "r">> [] f = "t" -> <<"t">> [] f \in {"tr", "rt"} -> <<"t", "r">>
KeyColumn(recs) == [i \in 1..Len(recs) |-> D(Get(recs[i], "x"))]
SortLawsAt(c, s) ==
  LET perms == Perms(s)
      valid == {out \in perms : ValidSort(c, s, out)} IN
  /\ c.b = FALSE => valid # {}
  /\ \A out \in valid :
       /\ IsPerm(s, out)
       /\ \E ch \in Choices : ch.en = "any" \/ AdjacentOrdered(ch, c, Keyed(out, c.keys))
       /\ \A i, j \in 1..Len(out) : (i < j /\ HasAll(out[j], c.keys)) => HasAll(out[i], c.keys)
       /\ Keyless(out, c.keys) = Keyless(s, c.keys)
       /\ Len(c.keys) = 1 => ValidFn([fn |-> "sort", coll |-> "array", how |-> "flags", flags |-> FlagChars(c.flags[1]), lam |-> ""],
                                      KeyColumn(Keyed(s, c.keys)), KeyColumn(Keyed(out, c.keys)))
  /\ \A ch \in OrderChoices :
       LET ref == Reference(ch, c, s) IN
       /\ ValidSort(c, s, ref)
       /\ StableSort(c, s, ref)
       /\ c.b = FALSE => {out \in perms : OrderedUnder(ch, c, Keyed(out, c.keys)) /\ StableUnder(ch, c, s, out) /\ ValidSort(c, s, out)} = {ref}
  /\ s # <<>> => /\ ~ValidSort(c, s, Tail(s))
                 /\ ~ValidSort(c, s, <<Append(s[1], <<"w", "1">>)>> \o Tail(s))
                 /\ ~ValidSort(c, s, <<s[1]>> \o s)

\* ---------------------------------------------------------------- fn
FU == {D("1"), D("1.0"), D("abc"), D("Abc"), D(""), D("10"), <<"b", "true">>}
FnStates == {[c |-> [fn |-> "sort", coll |-> "array", how |-> "flags", flags |-> f, lam |-> ""], in |-> w]
               : f \in {<<>>, <<"n">>, <<"f">>, <<"c">>, <<"t">>, <<"r">>, <<"f", "r">>, <<"c", "r">>, <<"t", "r">>, <<"r", "n">>},
                 w \in UNION {[1..n -> FU] : n \in 0..MaxLen}}
FnLawsAt(c, in) ==
  LET perms == Perms(in)
      valid == {out \in perms : ValidFn(c, in, out)}
      lam(l) == [fn |-> "sort", coll |-> "array", how |-> "lambda", flags |-> <<>>, lam |-> l]
      withKeys(a) == [i \in 1..Len(a) |-> <<U[i], a[i]>>]          \* the same elements as the values of a map
      byv == [c EXCEPT !.coll = "map", !.flags = <<"v">> \o c.flags] IN
  /\ valid # {}
  /\ \A out \in valid : IsPerm(in, out)
  \* sorting a map by value orders the values as sorting the array of the values does
  /\ \A p \in Perms(withKeys(in)) : ValidFn(byv, withKeys(in), p) <=> ValidFn(c, in, [i \in 1..Len(p) |-> p[i][2]])
  \* sorting.md: func(a,b) {return a <=> b} is "another way to get default ordering", b <=> a reverse-default: on
  \* collections of numbers only, or of non-empty strings only
  /\ (c.flags \in {<<>>, <<"r">>} /\ ((\A i \in 1..Len(in) : in[i][1] = "d" /\ IsNum(in[i][2]))
                                     \/ (\A i \in 1..Len(in) : in[i][1] = "d" /\ Row[in[i][2]].k = "string"))) =>
        /\ LamConsistent(lam("ab"), in)
        /\ \A out \in perms : ValidFn(c, in, out) <=> ValidFn(lam(IF c.flags = <<>> THEN "ab" ELSE "ba"), in, out)
  \* a comparator function never excuses a non-permutation
  /\ \A out \in perms : ValidFn(lam("ab"), in, out) \/ LamConsistent(lam("ab"), in)
  /\ c.flags \in {<<>>, <<"n">>} => \A out \in perms :
        ValidFn(c, in, out) <=> ValidFn([fn |-> "sort_collection", coll |-> "array", how |-> "none", flags |-> <<>>, lam |-> ""], in, out)
  /\ in # <<>> => ~ValidFn(c, in, Tail(in)) /\ ~ValidFn(c, in, <<in[1]>> \o in)
  \* reversing a valid ascending result gives a valid descending result
  /\ \A out \in valid : ValidFn([c EXCEPT !.flags = IF InSeq(c.flags, "r") THEN SelIdx(c.flags, LAMBDA i : c.flags[i] # "r") ELSE c.flags \o <<"r">>],
                                in, Rev(out))

Init == v \in CASE Law = "preorder" -> AllElems \X AllElems
               [] Law = "sort" -> SortStates
               [] Law = "fn" -> FnStates
Next == UNCHANGED v
Laws == CASE Law = "preorder" -> PreorderAt(v[1], v[2])
          [] Law = "sort" -> SortLawsAt(v.c, v.s)
          [] Law = "fn" -> FnLawsAt(v.c, v.in)
=============================================================================
