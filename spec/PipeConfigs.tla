---------------------------- MODULE PipeConfigs ----------------------------
(* Bounded configuration spaces of the pipeline model: explored exhaustively *)
(* by TLC (MCPipeline.tla) and executed one by one on the real binary         *)
(* (PipelineGen.tla emits them, PipelineObs.tla judges the outcomes).         *)
EXTENDS PipeSem

CONSTANTS MaxLen,      \* user verbs per chain (the implicit trailing verb is added on top)
          Trailing,    \* TRUE: append the implicit flatten/unflatten verb (a "cat") as the code does
          Bs,          \* batch sizes
          Family       \* which configuration family to explore

V(k, p) == [k |-> k, p |-> p]
Cat == V("cat", 0)

PlainKinds == {V("cat", 0), V("filt", 0), V("dup", 0), V("head", 1), V("head", 2), V("tac", 0),
               V("tee", 0), V("print", 0)}
HeadKinds  == {V("head", 0), V("head", 1), V("head", 2), V("cat", 0), V("tee", 0), V("tac", 0)}
FailKinds  == {V("fail", 1), V("fail", 2), V("fail", 3)}

SeqsUpTo(S, n) == UNION {[1..l -> S] : l \in 1..n}

WithTrailing(c) == IF Trailing THEN c \o <<Cat>> ELSE c

\* side-effecting text upstream of an early-exit head is schedule dependent by design
\* (how many records the upstream verb sees before the reader stops); excluded here and
\* explored separately in family "printhead".
PrintBeforeHead(c) == \E i, j \in 1..Len(c) : i < j /\ c[i].k = "print" /\ c[j].k = "head"

Files0 == {<< >>, << <<1>> >>, << <<1, 2, 3>> >>, << <<1, 2>>, <<3, 4>> >>, << <<1, 2, 3, 4>> >>, << << >>, <<1, 2, 3>> >>}
FilesSmall == {<< <<1, 2, 3>> >>, << <<1, 2>>, <<3>> >>}
FilesMissing == {<< Missing >>, << Missing, <<1, 2, 3>> >>, << <<1, 2>>, Missing >>, << <<1>>, Missing, <<2, 3>> >>}
FilesBad == {<< <<-1>> >>, << <<-1, 2, 3>> >>, << <<1, -2, 3>> >>, << <<1, 2, -3>> >>, << <<1, 2, 3, -4>> >>,
             << <<1, 2>>, <<-3, 4>> >>, << <<1, -2, -3, 4>> >>}

Mk(files, chain, b, werr, ferr) == [files |-> files, chain |-> chain, b |-> b, sgp |-> 2, werr |-> werr, ferr |-> ferr, feed |-> FALSE, fflush |-> FALSE]
\* input fed line by line with the pipe held open, flush after every record (the tail -f contract)
MkFed(files, chain, b) == [files |-> files, chain |-> chain, b |-> b, sgp |-> 2, werr |-> 0, ferr |-> FALSE, feed |-> TRUE, fflush |-> TRUE]
StreamingKinds == {V("cat", 0), V("filt", 0), V("dup", 0), V("head", 1), V("head", 2), V("tee", 0), V("print", 0)}

MCConfigs ==
  CASE Family = "plain" ->
         {Mk(f, WithTrailing(c), b, 0, FALSE) : f \in Files0, c \in {x \in SeqsUpTo(PlainKinds, MaxLen) : ~PrintBeforeHead(x)}, b \in Bs}
    [] Family = "heads" ->
         {Mk(f, WithTrailing(c), b, 0, FALSE) : f \in {<< <<1, 2, 3, 4>> >>, << <<1, 2>>, <<3, 4>> >>}, c \in SeqsUpTo(HeadKinds, MaxLen), b \in Bs}
    [] Family = "seqgen" ->
         {Mk(<< >>, WithTrailing(<<V("seqgen", n)>> \o c), b, 0, FALSE) :
              n \in {0, 1, 2, 3, 4, 5}, c \in SeqsUpTo({V("head", 1), V("head", 2), V("cat", 0), V("tee", 0), V("tac", 0)}, MaxLen) \cup {<< >>}, b \in {1}}
    [] Family = "verbfail" ->
         {Mk(f, WithTrailing(c), b, 0, FALSE) : f \in FilesSmall,
              c \in {x \in SeqsUpTo(PlainKinds \cup FailKinds, MaxLen) : (\E i \in 1..Len(x) : x[i].k = "fail") /\ ~PrintBeforeHead(x)}, b \in Bs}
    [] Family = "missing" ->
         {Mk(f, WithTrailing(c), b, 0, FALSE) : f \in FilesMissing, c \in {x \in SeqsUpTo(PlainKinds, MaxLen) : ~PrintBeforeHead(x)}, b \in Bs}
    [] Family = "badline" ->
         {Mk(f, WithTrailing(c), b, 0, FALSE) : f \in FilesBad, c \in {x \in SeqsUpTo(PlainKinds, MaxLen) : ~PrintBeforeHead(x)}, b \in Bs}
    [] Family = "writerfail" ->
         \* the last user verb is a pass-through (on the real binary it is the verb that makes the
         \* werr-th record inexpressible in the output format)
         {Mk(f, WithTrailing(c \o <<Cat>>), b, w, fe) : f \in FilesSmall,
              c \in {x \in SeqsUpTo(PlainKinds, MaxLen - 1) \cup {<< >>} : ~PrintBeforeHead(x)}, b \in Bs,
              w \in {0, 2, 3, 4}, fe \in BOOLEAN}   \* (a CSV writer cannot fail on its first record)
           \ {Mk(f, WithTrailing(c \o <<Cat>>), b, 0, FALSE) : f \in FilesSmall, c \in SeqsUpTo(PlainKinds, MaxLen - 1) \cup {<< >>}, b \in Bs}
    [] Family = "twofaults" ->
         {Mk(f, WithTrailing(c \o <<Cat>>), b, w, FALSE) : f \in {<< Missing, <<1, 2, 3>> >>, << <<1, -2, 3>> >>, << <<1, 2>>, Missing, <<-3, 4>> >>},
              c \in SeqsUpTo({V("fail", 1), V("fail", 2), V("cat", 0)}, MaxLen), b \in Bs, w \in {0, 2}}
    \* three and more input-side errors in one run: the reader posts every one of them (blocking send, capacity 1) and goes
    \* on with the next file / batch, so main must keep draining the error channels until the writer is done
    [] Family = "manyfaults" ->
         {Mk(f, WithTrailing(c), b, 0, FALSE) :
              f \in {<< Missing, Missing, Missing >>, << Missing, <<1>>, Missing, Missing >>, << Missing, Missing, <<1, 2>>, Missing, Missing >>,
                     << <<-1, -2, -3>> >>, << <<-1, 2, -3, -4>> >>, << <<-1>>, Missing, <<-2>>, Missing >>, << <<-1>>, <<-2>>, <<-3>>, <<4>> >>},
              c \in SeqsUpTo({V("cat", 0), V("head", 1), V("tac", 0)}, MaxLen), b \in Bs}
    [] Family = "tailf" ->
         {MkFed(f, WithTrailing(c), b) : f \in {<< <<1, 2, 3>> >>, << <<1>> >>, << << >> >>},
              c \in {x \in SeqsUpTo(StreamingKinds, MaxLen) : ~PrintBeforeHead(x)}, b \in Bs}
    [] Family = "printhead" ->
         {Mk(<< <<1, 2, 3, 4, 5, 6>> >>, WithTrailing(<<V("print", 0), V("head", 1)>>), b, 0, FALSE) : b \in Bs}
=============================================================================
