------------------------------ MODULE StringsMC ------------------------------
(* The laws C15 states, checked by TLC on the specification itself, for every string up to MaxLen over an     *)
(* alphabet with 1-, 2- and 4-byte characters, both letter cases, whitespace and a separator; plus the laws of  *)
(* integer formatting over a grid of values x flag sets x widths x verbs (evaluated once).                     *)
EXTENDS Strings, PrintfInt
CONSTANT MaxLen
A == {"a", "A", "e2", "g4", "sp", "comma"}
VARIABLE s
Init == s = <<>>
Next == Len(s) < MaxLen /\ \E c \in A : s' = Append(s, c)

Seqs(S, lo, hi) == UNION {[1..n -> S] : n \in lo..hi}
n == Len(s)
Idx == (-(n + 2))..(n + 2)
T2 == {<<>>, <<"a">>, <<"e2">>, <<"g4", "a">>, <<"sp", "a">>, <<"a", "a">>}
P2 == T2 \ {<<>>}
Case(f, s0, t, u, i, j, a, ks) == [f |-> f, s |-> s0, t |-> t, u |-> u, i |-> i, j |-> j, a |-> a, ks |-> ks]
E == <<>>

LenLaws ==
  /\ \A t \in T2 : Len(s \o t) = Len(s) + Len(t)                    \* strlen(a . b) = strlen(a) + strlen(b)
  /\ (ByteLen(s) = Len(s)) = (\A k \in 1..n : Width(s[k]) = 1)      \* characters and bytes differ exactly on multi-byte strings
IndexLaws ==
  /\ Trim(s, 1, n) = s /\ Trim(s, -n, -1) = s /\ Trim(s, 1, n + 2) = s /\ Trim(s, -(n + 2), n + 2) = s
  /\ n > 0 => /\ Substr1OK(s, 1, n, RStr(s)) /\ ~Substr1OK(s, 1, n, RStr(Take(s, n - 1))) /\ ~Substr1OK(s, 1, n, RErr)
              /\ Substr0OK(s, 0, n - 1, RStr(s)) /\ ~Substr0OK(s, 0, n - 1, RStr(Tail(s))) /\ Substr1OK(s, -n, -1, RStr(s))
              /\ SliceOK(s, 1, n, RStr(s)) /\ ~SliceOK(s, 1, n, RErr) /\ ~SliceOK(s, 1, n, RStr(Tail(s)))
  /\ \A i \in Idx : InB1(i, n) => /\ RStr(Trim(s, i, i)) = Index(s, i)                     \* a slice of one is the index
                                  /\ Index(s, i) = Index(s, Alias1(i, n))                  \* -n..-1 alias 1..n
  /\ \A i \in Idx : ~InB1(i, n) => Index(s, i) = RErr
  \* "x[3:5] means x[3] . x[4] . x[5]"
  /\ \A i, j \in Idx : (InB1(i, n) /\ InB1(j, n) /\ Alias1(i, n) <= Alias1(j, n)) =>
        /\ Trim(s, i, j) = [k \in 1..(Alias1(j, n) - Alias1(i, n) + 1) |-> Index(s, Alias1(i, n) + k - 1).s[1]]
        /\ Trim(s, i, j) = Trim(s, Alias1(i, n), Alias1(j, n))
        /\ Substr1OK(s, i, j, RStr(Trim(s, i, j)))
  /\ \A i, j \in Idx : IsSubstring(Trim(s, i, j), s)
  /\ \A i, j \in 0..(n - 1) : i <= j => (Substr0OK(s, i, j, RStr(Trim(s, i + 1, j + 1))) /\ Substr1OK(s, i + 1, j + 1, RStr(Trim(s, i + 1, j + 1))))
TruncateLaws == \A k \in 0..(n + 2) : LET t == Take(s, k) IN Len(t) = Min(k, n) /\ t = Sub(s, 1, Len(t))
PadLaws == \A k \in (-1)..(n + 4), p \in {<<"b">>, <<"g4">>, <<"e2", "g4">>, <<"a", "e2", "b">>} :
  LET lp == LeftPad(s, k, p)
      rp == RightPad(s, k, p) IN
  /\ Len(lp) = Len(rp) /\ Len(lp) <= Max(k, n) /\ Len(lp) > Max(k, n) - Len(p) /\ (Len(p) = 1 => Len(lp) = Max(k, n))
  /\ Sub(lp, Len(lp) - n + 1, Len(lp)) = s /\ Sub(rp, 1, n) = s /\ (Len(lp) - n) % Len(p) = 0
  /\ Sub(lp, 1, Len(lp) - n) = Sub(rp, n + 1, Len(rp))
CaseLaws ==
  /\ UpperA(LowerA(s)) = UpperA(s) /\ LowerA(UpperA(s)) = LowerA(s) /\ UpperA(UpperA(s)) = UpperA(s)
  /\ UpperU(LowerU(s)) = UpperU(s) /\ LowerU(UpperU(s)) = LowerU(s) /\ LowerU(LowerU(s)) = LowerU(s)
  /\ UpperOK(s, RStr(UpperA(s))) /\ UpperOK(s, RStr(UpperU(s))) /\ LowerOK(s, RStr(LowerA(s))) /\ LowerOK(s, RStr(LowerU(s)))
  /\ (\E k \in 1..n : s[k] = "a") => ~UpperOK(s, RStr(s))
  /\ (\E k \in 1..n : s[k] = "A") => ~LowerOK(s, RStr(s))
  /\ n > 0 => ~UpperOK(s, RStr(Tail(s)))
WhitespaceLaws ==
  /\ Strip(s) = RStrip(LStrip(s)) /\ Strip(Strip(s)) = Strip(s)
  /\ \E k \in 0..n : LStrip(s) = Sub(s, k + 1, n) /\ \A q \in 1..k : IsSpace(s[q])
  /\ \E k \in 0..n : RStrip(s) = Sub(s, 1, k) /\ \A q \in (k + 1)..n : IsSpace(s[q])
  /\ CollapseOK(s, RStr(Canon(s))) /\ Canon(Canon(s)) = Canon(s)
  /\ CleanOK(s, RStr(Strip(Canon(s)))) /\ CleanOK(s, RStr(Canon(Strip(s))))       \* collapse and strip, in either order
  /\ (\A k \in 1..n : ~IsSpace(s[k])) => (Canon(s) = s /\ Strip(s) = s)
  /\ (\E k \in 1..(n - 1) : IsSpace(s[k]) /\ IsSpace(s[k + 1])) => ~CollapseOK(s, RStr(s))
ReplaceLaws == \A p \in P2, q \in T2 :
  /\ GssubLeft(s, p, q) \in GssubSet(s, p, q)
  /\ Occs(s, p) = {} => (Ssub(s, p, q) = s /\ GssubSet(s, p, q) = {s})
  /\ Cardinality(Occs(s, p)) = 1 => GssubSet(s, p, q) = {Ssub(s, p, q)}
  /\ Len(p) = 1 => GssubSet(s, p, q) = {GssubLeft(s, p, q)}
  /\ Ssub(s, p, p) = s /\ GssubLeft(s, p, p) = s
  /\ (Occs(s, p) # {}) = IsSubstring(p, s)
SplitLaws == \A sep \in {<<"comma">>, <<"e2">>} :
  LET a == Split(s, sep) IN
  /\ Join(a, sep) = s                                                                 \* join . split = id
  /\ \A k \in 1..Len(a) : Occs(a[k], sep) = {}
  /\ Len(a) = Cardinality(Occs(s, sep)) + 1
  /\ Allowed(Case("join_split", s, sep, E, 0, 0, E, E), RStr(Join(Witness(Case("splitax", s, sep, E, 0, 0, E, E)).a, sep)))
\* one admitted result for every case of this string: Allowed is satisfiable everywhere
WitnessLaws ==
  LET cases ==
        {Case(f, s, E, E, 0, 0, E, E) : f \in {"strlen", "toupper", "tolower", "capitalize", "lstrip", "rstrip", "strip",
                                                 "collapse_whitespace", "clean_whitespace"}}
        \cup {Case(f, s, E, E, i, 0, E, E) : f \in {"index1", "truncate"}, i \in Idx}
        \cup {Case(f, s, E, E, i, j, E, E) : f \in {"slice", "substr", "substr0", "substr1"}, i \in Idx, j \in Idx}
        \cup {Case(f, s, p, E, k, 0, E, E) : f \in {"leftpad", "rightpad"}, p \in P2, k \in (-1)..(n + 3)}
        \cup {Case(f, s, p, q, 0, 0, E, E) : f \in {"ssub", "gssub"}, p \in P2, q \in T2}
        \cup {Case(f, s, p, E, 0, 0, E, E) : f \in {"index", "contains", "dot"}, p \in P2}
        \cup {Case("literal", s, E, E, 0, 0, E, E)}
        \cup {Case(f, s, sep, E, 0, 0, E, E) : f \in {"splitax", "splita", "splitnv", "splitnvx", "join_split"}, sep \in {<<"comma">>, <<"e2">>}}
  IN \A c \in cases : Allowed(c, Witness(c))

\* ---- evaluated once (they do not depend on s) ----------------------------------------------------------------
Elems == Seqs({"a", "e2"}, 0, 2)
Keys == {<<"a">>, <<"e2">>, <<"a", "A">>}
KeyLists == {ks \in Seqs(Keys, 1, 3) : \A p, q \in 1..Len(ks) : p # q => ks[p] # ks[q]}
ArrayLaws ==
  /\ \A a \in Seqs(Elems, 0, 3), sep \in {<<"comma">>, <<"g4">>} :
       /\ (a \notin {<<>>, << <<>> >>}) => Split(Join(a, sep), sep) = a                 \* split . join = id
       /\ Allowed(Case("split_join", E, sep, E, 0, 0, a, E), Witness(Case("split_join", E, sep, E, 0, 0, a, E)))
       /\ (a \notin {<<>>, << <<>> >>}) => ~Allowed(Case("split_join", E, sep, E, 0, 0, a, E), RArr(Tail(a)))
       /\ Allowed(Case("joinv", E, sep, E, 0, 0, a, E), Witness(Case("joinv", E, sep, E, 0, 0, a, E)))
       /\ Allowed(Case("joink", E, sep, E, 0, 0, a, E), Witness(Case("joink", E, sep, E, 0, 0, a, E)))
       /\ Len(Join(a, sep)) = (IF a = <<>> THEN 0 ELSE Len(a) - 1) + Len(Join(a, <<>>))
  /\ \A ks \in KeyLists : \A a \in [1..Len(ks) -> {<<>>, <<"a">>, <<"e2", "a">>}] :
       /\ SplitKV(Join(Pairs(a, ks, <<"eq">>), <<"comma">>), <<"eq">>, <<"comma">>) = RMap(ks, a)   \* splitkvx . joinkv = id
       /\ Allowed(Case("splitkvx_joinkv", E, <<"eq">>, <<"comma">>, 0, 0, a, ks), RMap(ks, a))
       /\ Allowed(Case("joinkv", E, <<"eq">>, <<"comma">>, 0, 0, a, ks), Witness(Case("joinkv", E, <<"eq">>, <<"comma">>, 0, 0, a, ks)))

NsMC == {-1234567, -255, -17, -1, 0, 1, 7, 8, 9, 10, 15, 16, 17, 255, 4095, 65535, 1234567, 2147483647}
Strip0(t, S) == DropWhile(t, S)
FmtLaws ==
  /\ \A m \in NsMC : m >= 0 => Text(DigitsOf(m, 10, FALSE)) = ToString(m)               \* div/mod digits = ToString
  /\ \A m \in NsMC, F \in SUBSET Flags, w \in 0..8, v \in Verbs, rd \in {"C", "Go"} :
       LET c == [f |-> "fmtnum", n |-> m, F |-> F, w |-> w, lm |-> "", v |-> v] IN
       Constrained(c) =>
         LET t == Render(m, F, w, v, rd)
             t0 == Render(m, F, 0, v, rd) IN
         /\ Len(t) >= w                                                                \* width law
         /\ (rd = "C" \/ ~({"#", "0"} \subseteq F) \/ "-" \in F) => Len(t) = Max(w, Len(t0))
         /\ Len(Text(t)) = Len(t)
         /\ ("#" \notin F) => ParseInt(t, Base(v)) = m                                  \* the text reads back as the value
         /\ ("#" \in F /\ v \in {"x", "X"} /\ m > 0 /\ rd = "C" /\ F \cap {"+", " "} = {}) =>
               LET u == DropWhile(t, {" "}) IN u[1] = "0" /\ u[2] = v /\ ParseInt(SubSeq(u, 3, Len(u)), 16) = m
         /\ ("-" \in F) => t = t0 \o Fill(" ", w - Len(t0))
         /\ (F \cap {"-", "0"} = {}) => t = Fill(" ", w - Len(t0)) \o t0
         /\ (v = "d") => Render(m, F, w, v, "C") = Render(m, F, w, v, "Go")            \* no freedom on %d
         /\ FmtAllowed(c, "string", Text(t))
  /\ \A m \in NsMC, w \in {0, 5, 12} :
       LET t == RenderGrouped(m, w) IN
       /\ Len(t) >= w
       /\ ParseInt(SelectSeq(t, LAMBDA ch : ch # ","), 10) = m
       /\ \A k \in 1..Len(t) : (t[k] = ",") = (t[k] \notin {" ", "-"} /\ (Len(t) - k) % 4 = 3)
  /\ HexFmt(255) = <<"0", "x", "f", "f">> /\ \A m \in NsMC : m >= 0 => ParseInt(SubSeq(HexFmt(m), 3, Len(HexFmt(m))), 16) = m
Once == s = <<>> => (ArrayLaws /\ FmtLaws)

Laws == /\ LenLaws /\ IndexLaws /\ TruncateLaws /\ PadLaws /\ CaseLaws /\ WhitespaceLaws /\ ReplaceLaws /\ SplitLaws
        /\ WitnessLaws /\ Once
=============================================================================
