------------------------------ MODULE PrintfInt ------------------------------
(***************************************************************************)
(* Integer formatting (C15): fmtnum / fmtifnum / hexfmt on integers.        *)
(* References: `mlr help function fmtnum` ("printf-style format string      *)
(* (https://pkg.go.dev/fmt)", "%08d", "%12d", "%_d ... comma-separated      *)
(* thousands"), reference-main-number-formatting.md ("%08x", hexfmt 255 ->  *)
(* 0xff; "supported options are those at pkg.go.dev/fmt"), format-values    *)
(* ("%06lld", "%08llx": "formats which apply to long long, e.g. with ll in  *)
(* them") and the property statement ("render as C printf would for the     *)
(* supported verbs, flags, widths").                                        *)
(*                                                                         *)
(* A format is  % flags width lmod verb  with flags a subset of             *)
(* {"-", "0", "+", " ", "#"}, width 0 (none) .. , lmod "" | "l" | "ll",      *)
(* verb d x X o b.  The specification BUILDS the text as a sequence of      *)
(* one-character strings (digits by div/mod, padding by concatenation);     *)
(* Text() joins it into a TLA+ string that TLC compares with the observed   *)
(* one.  C printf and Go fmt agree on almost all of this grammar; where     *)
(* they differ both readings are admitted (Render's last argument):         *)
(*   "+" / " " with x X o b   C: ignored (unsigned conversion), Go: honoured *)
(*   "#" with value 0         C: "0" for x X b, Go: "0x0" "0X0" "0b0"        *)
(*   "#" with "0" and a width C: zeros fill the width after the prefix,      *)
(*                            Go: digits are zero-filled to the width, then  *)
(*                            the prefix is added                            *)
(* Left out (no reference): negative values with x X o b, "#" with d,       *)
(* precisions, %i %u %c, "%s" of a number.                                  *)
(***************************************************************************)
EXTENDS Integers, Sequences, FiniteSets, TLC

Flags == {"-", "0", "+", " ", "#"}
Verbs == {"d", "x", "X", "o", "b"}
Base(v) == CASE v = "d" -> 10 [] v \in {"x", "X"} -> 16 [] v = "o" -> 8 [] v = "b" -> 2
Dig(d, upper) == CASE d = 0 -> "0" [] d = 1 -> "1" [] d = 2 -> "2" [] d = 3 -> "3" [] d = 4 -> "4" [] d = 5 -> "5"
                   [] d = 6 -> "6" [] d = 7 -> "7" [] d = 8 -> "8" [] d = 9 -> "9"
                   [] d = 10 -> IF upper THEN "A" ELSE "a" [] d = 11 -> IF upper THEN "B" ELSE "b"
                   [] d = 12 -> IF upper THEN "C" ELSE "c" [] d = 13 -> IF upper THEN "D" ELSE "d"
                   [] d = 14 -> IF upper THEN "E" ELSE "e" [] d = 15 -> IF upper THEN "F" ELSE "f"
RECURSIVE DigitsOf(_, _, _)
DigitsOf(n, base, upper) == IF n < base THEN <<Dig(n, upper)>>                   \* n >= 0
                            ELSE Append(DigitsOf(n \div base, base, upper), Dig(n % base, upper))
RECURSIVE Fill(_, _)
Fill(ch, k) == IF k <= 0 THEN <<>> ELSE <<ch>> \o Fill(ch, k - 1)
RECURSIVE Text(_)
Text(t) == IF t = <<>> THEN "" ELSE t[1] \o Text(Tail(t))

Prefix(v) == CASE v = "x" -> <<"0", "x">> [] v = "X" -> <<"0", "X">> [] v = "o" -> <<"0">> [] v = "b" -> <<"0", "b">> [] v = "d" -> <<>>

\* rd \in {"C", "Go"}
Render(n, F, w, v, rd) ==
  LET neg == n < 0
      mag == IF neg THEN -n ELSE n
      digits == DigitsOf(mag, Base(v), v = "X")
      signed == v = "d" \/ rd = "Go"
      sign == IF neg THEN <<"-">>
              ELSE IF signed /\ "+" \in F THEN <<"+">>
              ELSE IF signed /\ " " \in F THEN <<" ">> ELSE <<>>
      prefix == IF "#" \notin F THEN <<>>
                ELSE IF v = "o" THEN (IF mag = 0 THEN <<>> ELSE <<"0">>)
                ELSE IF mag = 0 /\ rd = "C" THEN <<>> ELSE Prefix(v)
      body == sign \o prefix \o digits
  IN
  IF "-" \in F THEN body \o Fill(" ", w - Len(body))                         \* "-" overrides "0"
  ELSE IF "0" \in F THEN
       (IF rd = "C" \/ prefix = <<>> THEN sign \o prefix \o Fill("0", w - Len(body)) \o digits
        ELSE LET zd == Fill("0", (w - Len(sign)) - Len(digits)) \o digits IN
             sign \o (IF v = "o" /\ zd[1] = "0" THEN <<>> ELSE prefix) \o zd)
  ELSE Fill(" ", w - Len(body)) \o body

\* "%_d": "comma-separated thousands" (Miller-specific), with an optional width: right-aligned
RECURSIVE Grouped(_)
Grouped(n) == IF n < 1000 THEN DigitsOf(n, 10, FALSE)
              ELSE Grouped(n \div 1000) \o <<",">> \o Fill("0", 3 - Len(DigitsOf(n % 1000, 10, FALSE))) \o DigitsOf(n % 1000, 10, FALSE)
RenderGrouped(n, w) == LET body == (IF n < 0 THEN <<"-">> ELSE <<>>) \o Grouped(IF n < 0 THEN -n ELSE n)
                       IN Fill(" ", w - Len(body)) \o body

\* hexfmt: "Convert int to hex string, e.g. 255 to "0xff"" (negative values: no reference)
HexFmt(n) == <<"0", "x">> \o DigitsOf(n, 16, FALSE)

(***************************************************************************)
(* Cases: [f, n, F, w, lm, v]   f in fmtnum, fmtifnum, hexfmt, fmtnum_s,     *)
(* fmtifnum_s (first argument the non-numeric string "abc").                 *)
(* v = "_d" is the grouped form.  out is the observed text, k the observed  *)
(* typeof.                                                                  *)
(***************************************************************************)
Constrained(c) ==
  CASE c.f = "hexfmt" -> c.n >= 0
    [] c.v = "_d" -> c.F = {} /\ c.lm = ""
    [] OTHER -> /\ c.v \in Verbs /\ c.F \subseteq Flags /\ c.w >= 0 /\ c.lm \in {"", "l", "ll"}
                /\ (c.n < 0 => c.v = "d")
                /\ ("#" \in c.F => c.v # "d")
                /\ (c.v = "b" => c.lm = "")                  \* %llb is not a C format of the time, nor a Go one
Readings(c) == {Text(Render(c.n, c.F, c.w, c.v, rd)) : rd \in {"C", "Go"}}
FmtAllowed(c, k, out) ==
  CASE c.f \in {"fmtnum", "fmtifnum"} ->
         k # "error" /\ (IF c.v = "_d" THEN out = Text(RenderGrouped(c.n, c.w)) ELSE out \in Readings(c))
    [] c.f = "hexfmt"     -> k # "error" /\ out = Text(HexFmt(c.n))
    \* fmtifnum: "Identical to fmtnum, except returns the first argument as-is if the output would be an error":
    \* so fmtnum of a non-numeric string is an error and fmtifnum returns the string
    [] c.f = "fmtnum_s"   -> k = "error"
    [] c.f = "fmtifnum_s" -> k = "string" /\ out = "abc"
    [] OTHER -> FALSE
FmtDeterministic(c) == c.f \in {"fmtnum", "fmtifnum"} /\ c.v # "_d" => Cardinality(Readings(c)) = 1

\* ---- reading a rendered %d back (for the laws) ------------------------------------------------------
DigVal(ch) == CASE ch = "0" -> 0 [] ch = "1" -> 1 [] ch = "2" -> 2 [] ch = "3" -> 3 [] ch = "4" -> 4
                [] ch = "5" -> 5 [] ch = "6" -> 6 [] ch = "7" -> 7 [] ch = "8" -> 8 [] ch = "9" -> 9
                [] ch \in {"a", "A"} -> 10 [] ch \in {"b", "B"} -> 11 [] ch \in {"c", "C"} -> 12
                [] ch \in {"d", "D"} -> 13 [] ch \in {"e", "E"} -> 14 [] ch \in {"f", "F"} -> 15
IsDig(ch, base) == ch \in {"0", "1", "2", "3", "4", "5", "6", "7", "8", "9", "a", "b", "c", "d", "e", "f",
                           "A", "B", "C", "D", "E", "F"} /\ DigVal(ch) < base
RECURSIVE DropWhile(_, _)
DropWhile(t, S) == IF t # <<>> /\ t[1] \in S THEN DropWhile(Tail(t), S) ELSE t
RECURSIVE DropEnd(_, _)
DropEnd(t, S) == IF t # <<>> /\ t[Len(t)] \in S THEN DropEnd(SubSeq(t, 1, Len(t) - 1), S) ELSE t
ValOf(t, base) == LET G[k \in 0..Len(t)] == IF k = 0 THEN 0 ELSE G[k - 1] * base + DigVal(t[k]) IN G[Len(t)]
\* [spaces] [sign] digits [spaces]  ->  value (strtol-like); -1000000000 if the text has another shape
NoParse == -1000000000
ParseInt(t, base) ==
  LET u == DropEnd(DropWhile(t, {" "}), {" "})
      neg == u # <<>> /\ u[1] = "-"
      d == IF u # <<>> /\ u[1] \in {"-", "+"} THEN Tail(u) ELSE u
  IN IF d # <<>> /\ \A k \in 1..Len(d) : IsDig(d[k], base)
     THEN (IF neg THEN -ValOf(d, base) ELSE ValOf(d, base)) ELSE NoParse
=============================================================================
