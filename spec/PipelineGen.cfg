INIT Init
NEXT Next
CONSTANTS
  MaxLen = 2
  Trailing = TRUE
  Bs = {1, 2, 3}
  Family = "plain"
INVARIANT Emit
CHECK_DEADLOCK FALSE
