-------------------------------- MODULE Join --------------------------------
(***************************************************************************)
(* The verb `join` (C13) as a relational definition over a whole left file  *)
(* L and a whole right stream R (sequences of records, Records.tla),        *)
(* written from `mlr join --help` (reference-verbs.md) and                  *)
(* questions-about-joins.md.                                                *)
(*                                                                          *)
(* A configuration is a record                                             *)
(*   j, l, r : output / left / right join-field names (sequences)          *)
(*   lg, rg  : whether -l / -r is given ("defaults to -j values if omitted")*)
(*   np, ul, ur : --np, --ul, --ur                                          *)
(*   lp, rp  : --lp / --rp texts ("" = not given)                           *)
(*   lk      : [on |-> --lk given, f |-> its field names]                   *)
(*   ie      : --ignore-empty                                               *)
(*   mode    : "" | "-u" | "-s"                                             *)
(*   fmt, ifs: how the harness spells the inputs (no meaning here: every    *)
(*             file format denotes the same records)                        *)
(*                                                                          *)
(* What the documentation fixes is an exact definition (which records pair, *)
(* what a paired / unpaired output record looks like, the order of the      *)
(* paired records, unpaired left records after the paired ones); what it    *)
(* leaves open (where unpaired right records stand, the order of unpaired   *)
(* records among themselves, every order in sorted-input mode) is left open *)
(* by the predicate Allowed.                                                *)
(***************************************************************************)
EXTENDS Records, TLC

Range(s) == {s[i] : i \in 1..Len(s)}
Pos(s, x) == CHOOSE i \in 1..Len(s) : s[i] = x

\* "-l: defaults to -j values if omitted", same for -r
LF(c) == IF c.lg THEN c.l ELSE c.j
RF(c) == IF c.rg THEN c.r ELSE c.j

\* assignment to a record: an existing key keeps its position and takes the new value, a new key goes to the end
Put(rec, k, v) == IF Has(rec, k) THEN [i \in 1..Len(rec) |-> IF rec[i][1] = k THEN <<k, v>> ELSE rec[i]]
                  ELSE Append(rec, <<k, v>>)
RECURSIVE PutAll(_, _)
PutAll(rec, ps) == IF ps = <<>> THEN rec ELSE PutAll(Put(rec, Head(ps)[1], Head(ps)[2]), Tail(ps))

\* --lk: "keep only the specified field names from the left file. Automatically includes the join-field name(s)."
KeepLeft(c, rec) ==
  IF c.lk.on THEN SelIdx(rec, LAMBDA i : rec[i][1] \in (Range(c.lk.f) \cup Range(LF(c)))) ELSE rec

\* a record takes part in pairing iff it has every join field; --ignore-empty: "Treat records with empty-string
\* values in any join-field as if that join-field were absent, on both the left and right files."
Keyed(c, rec, fs) == HasAll(rec, fs) /\ (c.ie => \A i \in 1..Len(fs) : Get(rec, fs[i]) # "")
\* join-field values equal as text, field by field
Match(c, lrec, rrec) ==
  /\ Keyed(c, lrec, LF(c)) /\ Keyed(c, rrec, RF(c))
  /\ GroupKey(lrec, LF(c)) = GroupKey(rrec, RF(c))

\* ---- output records -----------------------------------------------------------------------------
\* the non-join fields of rec under the side's prefix ("Additional prefix for non-join output field names from the
\* left file [right file(s)]. Applies to paired and unpaired output records.")
NonJoin(rec, fs, prefix) ==
  LET nj == SelIdx(rec, LAMBDA i : rec[i][1] \notin Range(fs))
  IN [i \in 1..Len(nj) |-> <<prefix \o nj[i][1], nj[i][2]>>]

\* paired record: the join fields under their output names, then the left record's other fields, then the right
\* record's other fields; "when a non-join field is present on both sides of a paired record, the value from the
\* right file overwrites the value from the left file" (in the left field's place: Put)
Paired(c, lrec, rrec) ==
  PutAll(<<>>, [i \in 1..Len(c.j) |-> <<c.j[i], Get(lrec, LF(c)[i])>>]
                 \o NonJoin(KeepLeft(c, lrec), LF(c), c.lp)
                 \o NonJoin(rrec, RF(c), c.rp))

\* unpaired record: the record itself with its join fields renamed to the output names and the side's prefix on
\* the other fields, every field in its place (reference-verbs.md: the unpaired right record status=missing,
\* idcode=600 of `join --np --ul --ur -j id -r idcode` is printed as status=missing,id=600)
Renamed(c, rec, fs, prefix) ==
  PutAll(<<>>, [i \in 1..Len(rec) |-> IF rec[i][1] \in Range(fs) THEN <<c.j[Pos(fs, rec[i][1])], rec[i][2]>>
                                       ELSE <<prefix \o rec[i][1], rec[i][2]>>])
UnpairedLeft(c, lrec) == Renamed(c, KeepLeft(c, lrec), LF(c), c.lp)
UnpairedRight(c, rrec) == Renamed(c, rrec, RF(c), c.rp)

\* ---- which records pair --------------------------------------------------------------------------
\* the left records matching right record j, in left-file order
Partners(c, L, R, j) == IdxWhere(L, LAMBDA i : Match(c, L[i], R[j]))
\* all pairs <<i, j>>: right-stream order, left-file order within one right record
PairIdx(c, L, R) ==
  Flatten1([j \in 1..Len(R) |-> LET ps == Partners(c, L, R, j) IN [n \in 1..Len(ps) |-> <<ps[n], j>>]])
ULIdx(c, L, R) == IdxWhere(L, LAMBDA i : \A j \in 1..Len(R) : ~Match(c, L[i], R[j]))
URIdx(c, L, R) == IdxWhere(R, LAMBDA j : \A i \in 1..Len(L) : ~Match(c, L[i], R[j]))

PairedRecs(c, L, R) == LET pi == PairIdx(c, L, R) IN [n \in 1..Len(pi) |-> Paired(c, L[pi[n][1]], R[pi[n][2]])]
ULRecs(c, L, R) == LET ix == ULIdx(c, L, R) IN [n \in 1..Len(ix) |-> UnpairedLeft(c, L[ix[n]])]
URRecs(c, L, R) == LET ix == URIdx(c, L, R) IN [n \in 1..Len(ix) |-> UnpairedRight(c, R[ix[n]])]

\* what is emitted of each kind: "--np Do not emit paired records", "--ul/--ur Emit unpaired records from ..."
EP(c, L, R) == IF c.np THEN <<>> ELSE PairedRecs(c, L, R)
EUL(c, L, R) == IF c.ul THEN ULRecs(c, L, R) ELSE <<>>
EUR(c, L, R) == IF c.ur THEN URRecs(c, L, R) ELSE <<>>

\* One output the documentation allows, with the kind of every record: the right stream is processed record by
\* record (pairs or the unpaired right record), the unpaired left records follow in left-file order.
Tagged(c, L, R) ==
  Flatten1([j \in 1..Len(R) |->
     LET ps == Partners(c, L, R, j) IN
     IF ps # <<>> THEN (IF c.np THEN <<>> ELSE [n \in 1..Len(ps) |-> <<"paired", Paired(c, L[ps[n]], R[j])>>])
     ELSE IF c.ur THEN << <<"ur", UnpairedRight(c, R[j])>> >> ELSE <<>>])
  \o (LET ul == EUL(c, L, R) IN [n \in 1..Len(ul) |-> <<"ul", ul[n]>>])
Streamed(c, L, R) == LET t == Tagged(c, L, R) IN [n \in 1..Len(t) |-> t[n][2]]

\* ---- sorted inputs ("records must be sorted lexically by their join-field names"; "sorted (lexically
\* ascending)", questions-about-joins.md) ----------------------------------------------------------
\* TLC cannot compare strings: the key texts of the bounded universe, in ascending byte order
KeyTexts == <<"", "10", "9", "a", "a,a", "a,b", "a\\", "a\\\\", "a\\b", "b">>
TextRank(t) == CHOOSE i \in 1..Len(KeyTexts) : KeyTexts[i] = t
RECURSIVE LexLeq(_, _)
LexLeq(u, v) == IF u = <<>> THEN TRUE
                ELSE IF TextRank(Head(u)) < TextRank(Head(v)) THEN TRUE
                ELSE IF TextRank(Head(u)) > TextRank(Head(v)) THEN FALSE
                ELSE LexLeq(Tail(u), Tail(v))
\* the records that have a key are in ascending order of their keys (records without a key have no place in it)
SortedBy(c, s, fs) ==
  LET keyed == SelIdx(s, LAMBDA i : Keyed(c, s[i], fs))
  IN \A i \in 1..(Len(keyed) - 1) : LexLeq(GroupKey(keyed[i], fs), GroupKey(keyed[i + 1], fs))
SortedInputs(c, L, R) == SortedBy(c, L, LF(c)) /\ SortedBy(c, R, RF(c))

\* ---- the judgement -------------------------------------------------------------------------------
RECURSIVE IsSubseq(_, _)
IsSubseq(p, s) == IF p = <<>> THEN TRUE
                  ELSE IF s = <<>> THEN FALSE
                  ELSE IF Head(p) = Head(s) THEN IsSubseq(Tail(p), Tail(s))
                  ELSE IsSubseq(p, Tail(s))

\* Unsorted mode: the output is, as a multiset, the emitted paired + unpaired-right + unpaired-left records; the
\* paired records stand in right-stream order, left-file order within a right record; the unpaired left records
\* come after all paired records ("Paired records are emitted first (in download order, since the right file is the
\* one being streamed), then the unpaired database records"). Identical records are interchangeable, so this is: some
\* prefix of the output contains the paired records as a subsequence and otherwise only unpaired right records.
\* Sorted-input mode: on sorted inputs, the same multiset as the unsorted mode.
Allowed(c, L, R, out) ==
  LET P == EP(c, L, R)  UR == EUR(c, L, R)  UL == EUL(c, L, R) IN
  IF c.mode = "-s" THEN (SortedInputs(c, L, R) => SameBag(out, P \o UR \o UL))
  ELSE /\ SameBag(out, P \o UR \o UL)
       /\ \E n \in 0..Len(out) : IsSubseq(P, SubSeq(out, 1, n)) /\ SubBag(SubSeq(out, 1, n), P \o UR)

(***************************************************************************)
(* A merge join over sorted inputs, as an independent definition: both      *)
(* lists are consumed from the front; the smaller key is released as        *)
(* unpaired (unless its key was paired before), equal keys pair the right   *)
(* record with every left record of that key.  wp = <<key>> of the left run *)
(* that has been paired, or <<>>.                                           *)
(***************************************************************************)
RECURSIVE MergeJoin(_, _, _, _)
MergeJoin(c, L, R, wp) ==
  LET lf == LF(c)  rf == RF(c) IN
  IF L = <<>> THEN [j \in 1..Len(R) |-> <<"ur", UnpairedRight(c, R[j])>>]
  ELSE IF ~Keyed(c, Head(L), lf) THEN << <<"ul", UnpairedLeft(c, Head(L))>> >> \o MergeJoin(c, Tail(L), R, wp)
  ELSE IF R = <<>> THEN
         (IF wp = <<GroupKey(Head(L), lf)>> THEN <<>> ELSE << <<"ul", UnpairedLeft(c, Head(L))>> >>)
         \o MergeJoin(c, Tail(L), R, wp)
  ELSE IF ~Keyed(c, Head(R), rf) THEN << <<"ur", UnpairedRight(c, Head(R))>> >> \o MergeJoin(c, L, Tail(R), wp)
  ELSE LET kl == GroupKey(Head(L), lf)  kr == GroupKey(Head(R), rf) IN
       IF kl = kr THEN
            LET run == SelIdx(L, LAMBDA i : Keyed(c, L[i], lf) /\ GroupKey(L[i], lf) = kl)
            IN [n \in 1..Len(run) |-> <<"paired", Paired(c, run[n], Head(R))>>] \o MergeJoin(c, L, Tail(R), <<kl>>)
       ELSE IF LexLeq(kl, kr) THEN
            (IF wp = <<kl>> THEN <<>> ELSE << <<"ul", UnpairedLeft(c, Head(L))>> >>) \o MergeJoin(c, Tail(L), R, wp)
       ELSE << <<"ur", UnpairedRight(c, Head(R))>> >> \o MergeJoin(c, L, Tail(R), wp)
EmittedOf(c, tagged) ==
  LET keep == SelIdx(tagged, LAMBDA n : (tagged[n][1] = "paired" /\ ~c.np) \/ (tagged[n][1] = "ul" /\ c.ul)
                                         \/ (tagged[n][1] = "ur" /\ c.ur))
  IN [n \in 1..Len(keep) |-> keep[n][2]]

(***************************************************************************)
(* Laws of C13 as theorems of these definitions (checked by TLC in JoinMC)  *)
(***************************************************************************)
\* the distinct keys occurring on either side
KeysIn(c, L, R) == {GroupKey(L[i], LF(c)) : i \in {i \in 1..Len(L) : Keyed(c, L[i], LF(c))}}
                   \cup {GroupKey(R[j], RF(c)) : j \in {j \in 1..Len(R) : Keyed(c, R[j], RF(c))}}
NL(c, L, k) == Cardinality({i \in 1..Len(L) : Keyed(c, L[i], LF(c)) /\ GroupKey(L[i], LF(c)) = k})
NR(c, R, k) == Cardinality({j \in 1..Len(R) : Keyed(c, R[j], RF(c)) /\ GroupKey(R[j], RF(c)) = k})
RECURSIVE SumOver(_, _, _, _)
SumOver(c, L, R, ks) == IF ks = {} THEN 0
                        ELSE LET k == CHOOSE k \in ks : TRUE IN NL(c, L, k) * NR(c, R, k) + SumOver(c, L, R, ks \ {k})
Count(s, x) == Cardinality({n \in 1..Len(s) : s[n] = x})

\* with --ul --ur every input record is accounted for exactly once: #paired = sum over keys of L_k * R_k, every left
\* record is in exactly as many pairs as there are right records with its key and is unpaired iff that number is 0
\* (never both), same for right records
EveryRecordOnce(c, L, R) ==
  LET pi == PairIdx(c, L, R)  ul == ULIdx(c, L, R)  ur == URIdx(c, L, R) IN
  /\ Len(pi) = SumOver(c, L, R, KeysIn(c, L, R))
  /\ \A i \in 1..Len(L) :
       LET np == Cardinality({n \in 1..Len(pi) : pi[n][1] = i})
           want == IF Keyed(c, L[i], LF(c)) THEN NR(c, R, GroupKey(L[i], LF(c))) ELSE 0
       IN np = want /\ Count(ul, i) = (IF np = 0 THEN 1 ELSE 0)
  /\ \A j \in 1..Len(R) :
       LET np == Cardinality({n \in 1..Len(pi) : pi[n][2] = j})
           want == IF Keyed(c, R[j], RF(c)) THEN NL(c, L, GroupKey(R[j], RF(c))) ELSE 0
       IN np = want /\ Count(ur, j) = (IF np = 0 THEN 1 ELSE 0)
  /\ Len(ul) = Cardinality({i \in 1..Len(L) : ~Keyed(c, L[i], LF(c)) \/ NR(c, R, GroupKey(L[i], LF(c))) = 0})
  /\ Len(ur) = Cardinality({j \in 1..Len(R) : ~Keyed(c, R[j], RF(c)) \/ NL(c, L, GroupKey(R[j], RF(c))) = 0})
  /\ Len(Streamed([c EXCEPT !.np = FALSE, !.ul = TRUE, !.ur = TRUE], L, R)) = Len(pi) + Len(ul) + Len(ur)

\* --np removes exactly the paired records
NpRemovesPaired(c, L, R) ==
  LET all == Tagged([c EXCEPT !.np = FALSE], L, R) IN
  Tagged([c EXCEPT !.np = TRUE], L, R) = SelIdx(all, LAMBDA n : all[n][1] # "paired")

\* --ignore-empty never pairs empty keys
IgnoreEmptyNeverPairs(c, L, R) ==
  LET pi == PairIdx(c, L, R) IN
  c.ie => \A n \in 1..Len(pi) :
            /\ \A m \in 1..Len(LF(c)) : Get(L[pi[n][1]], LF(c)[m]) # ""
            /\ \A m \in 1..Len(RF(c)) : Get(R[pi[n][2]], RF(c)[m]) # ""

\* paired records in right-stream order, and within one right record in left-file order
PairOrder(c, L, R) ==
  LET pi == PairIdx(c, L, R) IN
  \A n \in 1..(Len(pi) - 1) : pi[n][2] < pi[n + 1][2] \/ (pi[n][2] = pi[n + 1][2] /\ pi[n][1] < pi[n + 1][1])

\* paired records carry the join fields first, under the output names, with the common key
PairedShape(c, L, R) ==
  LET pi == PairIdx(c, L, R) IN
  \A n \in 1..Len(pi) :
    LET o == Paired(c, L[pi[n][1]], R[pi[n][2]]) IN
    /\ Len(o) >= Len(c.j)
    /\ \A m \in 1..Len(c.j) : o[m] = <<c.j[m], Get(R[pi[n][2]], RF(c)[m])>>

\* on sorted inputs the merge join yields the same multiset as the relational definition
MergeAgrees(c, L, R) ==
  SortedInputs(c, L, R) =>
    SameBag(EmittedOf(c, MergeJoin(c, L, R, <<>>)), EP(c, L, R) \o EUR(c, L, R) \o EUL(c, L, R))

\* the reference output is allowed, in both modes
ReferenceAllowed(c, L, R) == Allowed(c, L, R, Streamed(c, L, R))
=============================================================================
