------------------------------ MODULE ReaderMC ------------------------------
EXTENDS ReaderCases
VARIABLE fl
Init == fl \in FileLists
Next == UNCHANGED fl
Names == [k \in 1..3 |-> "f" \o ToString(k)]
Laws == ConcatLaw(fl) /\ ContextLaw(fl, Names) /\ UseLaw(fl, Names) /\ (\A c \in ChainVerbs : Composable(c))
=============================================================================
