SPECIFICATION Spec
CONSTANTS
  MaxRuns = 2
  ReuseStaleTemp = FALSE
  Scenarios <- MCScenarios
  MaxFiles = 3
INVARIANTS Atomic LaterUntouched EarlierDone NoTempAfterErrReturn SuccessMeansAll RefusedBeforeModify LeftoverOnlyByCrash FreshTemp
PROPERTY RenameOnlyComplete
CHECK_DEADLOCK TRUE
