SPECIFICATION Spec
CONSTANTS
  Scenarios <- MCScenarios
  MaxFiles = 3
INVARIANTS Atomic LaterUntouched EarlierDone NoTempAfterErrReturn SuccessMeansAll RefusedBeforeModify LeftoverOnlyByCrash
PROPERTY RenameOnlyComplete
CHECK_DEADLOCK TRUE
