---------------------------- MODULE PipelineObs ----------------------------
(***************************************************************************)
(* Validation of what the real mlr binary did on Pipeline configurations   *)
(* (binding B3).  Each line of ObsFile is                                   *)
(*   [cfg |-> configuration, out |-> items read back from stdout,           *)
(*    exit |-> exit status, timedout |-> BOOLEAN, diag |-> BOOLEAN (stderr   *)
(*    names a problem), tee |-> Seq of [i |-> chain position, recs |-> ids,  *)
(*    present |-> BOOLEAN]]                                                  *)
(* The harness only renders a configuration as a command line and parses    *)
(* stdout back into item numbers; every judgement is made here.             *)
(***************************************************************************)
EXTENDS PipeSem, TLC, Json

CONSTANT ObsFile
Obs == ndJsonDeserialize(ObsFile)

VARIABLE l
Init == l = 1
Next == l < Len(Obs) /\ l' = l + 1

TeeOk(o) == \A j \in 1..Len(o.tee) :
               o.tee[j].present /\ o.tee[j].recs = ExpectedTee(o.cfg, o.tee[j].i - 1)

Verdict(o) ==
  LET c == o.cfg IN
  IF o.timedout THEN "hang"                                                   \* C04: every run terminates
  ELSE IF FaultFree(c) /\ o.exit # 0 THEN "fault-free run failed"              \* C04: exit status independent of batching
  ELSE IF o.exit = 0 /\ o.out # Expected(c) THEN "successful run with wrong output"   \* C04 / C17 converse
  ELSE IF o.exit = 0 /\ ~TeeOk(o) THEN "successful run with incomplete tee file"      \* C04 / C20
  ELSE IF MustFail(c) /\ o.exit = 0 THEN "fault lost: exit 0"                  \* C17
  ELSE IF o.exit # 0 /\ ~o.diag THEN "failure without diagnostic"              \* C17
  ELSE "ok"

Conforms == LET v == Verdict(Obs[l]) IN
              v = "ok" \/ PrintT(ToJson([line |-> l, why |-> v]))
=============================================================================
