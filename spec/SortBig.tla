------------------------------- MODULE SortBig -------------------------------
(***************************************************************************)
(* C09, the clause "the ... numeric comparators are total preorders on all   *)
(* values exactly representable as doubles": numeric sorting of numbers at   *)
(* the edges of the 53-bit and the 64-bit integer ranges, where an           *)
(* implementation converts between int64 and float64.                        *)
(*                                                                           *)
(* Every text below denotes a number that is exactly representable as a      *)
(* double, so its place in numeric order is its mathematical value whatever  *)
(* conversions an implementation makes.  kind is what type inference gives   *)
(* the text from data (a decimal integer outside the int64 range is a float).*)
(* The values exceed TLC's 32-bit integers; r is the position of the value   *)
(* in ascending mathematical order (equal values, equal r):                  *)
(*   -(2^63+2048) < -2^63 < -3 < 5 = 5.0 < 100 < 2^53 < 2^62 = 2^62 (float)  *)
(*   < 2^63 < 2^63+2048 < 10^19                                              *)
(***************************************************************************)
EXTENDS Integers, Sequences, FiniteSets, TLC
B(t, k, r) == [t |-> t, k |-> k, r |-> r]
BigTable == <<
  B("-9223372036854777856",   "float", 1),
  B("-9223372036854775808",   "int",   2),
  B("-3",                     "int",   3),
  B("5",                      "int",   4),
  B("5.0",                    "float", 4),
  B("100",                    "int",   5),
  B("9007199254740992",       "int",   6),
  B("4611686018427387904",    "int",   7),
  B("4611686018427387904.0",  "float", 7),
  B("9223372036854775808",    "float", 8),
  B("9223372036854777856",    "float", 9),
  B("1e19",                   "float", 10) >>
UB == {BigTable[i].t : i \in 1..Len(BigTable)}
Rank(t) == BigTable[CHOOSE i \in 1..Len(BigTable) : BigTable[i].t = t].r

\* a command is one of the ways of sorting numerically; every one takes the list of values s (one record x=<text> per
\* element, the DSL forms collect the field values into an array or map first) and yields a list of values
Cmds == {"sort-nf", "sort-nr", "sort-f-nf", "dsl-sort", "dsl-sort-nr", "dsl-sort-func", "sort_collection", "dsl-sort-map-by-value",
         "top-max", "top-min"}
Descending(c) == c \in {"sort-nr", "dsl-sort-nr"}
IsTop(c) == c \in {"top-max", "top-min"}

Count(s, x) == Cardinality({i \in 1..Len(s) : s[i] = x})
SameBag(a, b) == Len(a) = Len(b) /\ \A x \in UB : Count(a, x) = Count(b, x)
Ascending(out) == \A i, j \in 1..Len(out) : i < j => Rank(out[i]) <= Rank(out[j])
Descends(out) == \A i, j \in 1..Len(out) : i < j => Rank(out[i]) >= Rank(out[j])
MaxRank(s) == CHOOSE r \in {Rank(s[i]) : i \in 1..Len(s)} : \A i \in 1..Len(s) : Rank(s[i]) <= r
MinRank(s) == CHOOSE r \in {Rank(s[i]) : i \in 1..Len(s)} : \A i \in 1..Len(s) : Rank(s[i]) >= r

\* the judgement: a permutation of the input in numeric order (values that are numerically equal but differ in text
\* may stand in either order); top -n 1 -a shows one record holding the largest / smallest value
Allowed(c, s, out) ==
  IF IsTop(c) THEN (IF s = <<>> THEN out = <<>>
                    ELSE Len(out) = 1 /\ out[1] \in {s[i] : i \in 1..Len(s)}
                         /\ Rank(out[1]) = (IF c = "top-max" THEN MaxRank(s) ELSE MinRank(s)))
  ELSE SameBag(out, s) /\ (IF Descending(c) THEN Descends(out) ELSE Ascending(out))

\* the law behind it: by-value order is a total preorder on UB (TLC checks it on the table)
TotalPreorder ==
  /\ \A a, b \in UB : Rank(a) <= Rank(b) \/ Rank(b) <= Rank(a)
  /\ \A a, b, c \in UB : (Rank(a) <= Rank(b) /\ Rank(b) <= Rank(c)) => Rank(a) <= Rank(c)
  /\ \A i, j \in 1..Len(BigTable) : i < j => BigTable[i].r <= BigTable[j].r
=============================================================================
