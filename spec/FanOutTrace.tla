----------------------------- MODULE FanOutTrace -----------------------------
(***************************************************************************)
(* Trace validation (B1) of the output-handler cache: each lookup logged by  *)
(* the hooks (fo.hit / fo.evict / fo.open) must give the replies the         *)
(* implementation model gives -- hit or miss, which target was evicted,      *)
(* whether the file was re-opened in append mode -- with the real capacity.  *)
(* Each line of TraceFile is one run: [ev |-> Seq([t, hit, evict, append])]  *)
(***************************************************************************)
EXTENDS FanOut, Json
CONSTANT TraceFile
Traces == ndJsonDeserialize(TraceFile)
VARIABLES k, l
TInit == k \in 1..Len(Traces) /\ l = 1 /\ hist = <<>> /\ st = Init0 /\ closed = FALSE /\ TLCSet(k, 0)
TNext == /\ l <= Len(Traces[k].ev) /\ l' = l + 1 /\ UNCHANGED <<k, closed>>
         /\ LET e == Traces[k].ev[l] IN
              /\ st' = Step(st, e.t, l)
              /\ hist' = Append(hist, <<e.t, l>>)
              /\ st'.lastHit = e.hit /\ st'.lastEvict = e.evict /\ st'.lastAppend = e.append
Track == IF l - 1 > TLCGet(k) THEN TLCSet(k, l - 1) ELSE TRUE
Report == \A j \in 1..Len(Traces) : TLCGet(j) = Len(Traces[j].ev)
            \/ PrintT(ToJson([rejected |-> j, matched |-> TLCGet(j), total |-> Len(Traces[j].ev)]))
=============================================================================
