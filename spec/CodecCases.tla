----------------------------- MODULE CodecCases -----------------------------
(* The bounded case space of C01: format x option variant x stream ("rt": written and read back by the real code),
   and, for the formats with an outside standard, format x variant x stream x legal spelling ("tx": a text produced
   by the specification's encoder, read by the real code). *)
EXTENDS Codec
CONSTANTS MaxTok,     \* probe cells have at most this many tokens
          F,          \* the format to enumerate ("all" for every format)
          LongN       \* the lengths of the long cells (family XL)

\* the option variants of each format (spelled out as mlr flags by the harness)
Variants(f) == CASE f = "csv" -> {"default", "quoteall", "crlf", "semi", "tabfs", "headerless", "ragged"}
                 [] f = "tsv" -> {"default", "crlf", "headerless"}
                 [] f = "json" -> {"default", "jsonl", "nowrap", "oneline"}
                 [] f = "dkvp" -> {"default", "semi"}
                 [] f = "nidx" -> {"default", "comma"}
                 [] f = "xtab" -> {"default", "wideps"}        \* wideps: a pair separator of one character and several bytes
                 [] f = "pprint" -> {"default", "barred", "right"}
                 [] f = "markdown" -> {"default"}
                 [] f = "csvlite" -> {"default", "semi"}

\* probe alphabet: the classes the rules of the format tell apart, plus neutral ones (letters, multi-byte characters)
Alpha(f, v) ==
  CASE f = "csv" -> {"a", "FS", "Q", "CR", "LF", "SP", "BS", "HASH", "U2", "U4", "1"} \cup (IF v = "tabfs" THEN {} ELSE {"TAB"})
    [] f = "tsv" -> {"a", "TAB", "LF", "CR", "BS", "t", "n", "r", "Q", "SP", "U2", "U4"}
    [] f = "json" -> {"a", "Q", "BS", "LF", "CR", "TAB", "C1", "BSP", "SLASH", "U2", "U4", "u", "n", "COMMA", "LBRACE", "SP"}
    [] f = "dkvp" -> {"a", "FS", "PS", "LF", "CR", "Q", "SP", "BS", "TAB", "HASH", "U2", "U4", "1"}
    [] f = "nidx" -> {"a", "FS", "LF", "CR", "Q", "BS", "TAB", "HASH", "U2", "U4", "1", "EQ", "NBSP", "IDSP"} \cup (IF v = "comma" THEN {"SP"} ELSE {"COMMA"})
    [] f = "xtab" -> {"a", "PS", "LF", "CR", "Q", "BS", "TAB", "HASH", "U2", "U4", "1", "EQ", "COMMA", "NBSP"}
    \* (NBSP, IDSP, EMSP: white space other than the separator U+0020 -- plain characters of a space-separated format)
    [] f = "pprint" -> {"a", "FS", "Q", "BS", "HASH", "U2", "U4", "1", "DASH", "PIPE", "PLUS", "EQ", "COMMA", "LF", "CR", "TAB", "NBSP", "IDSP", "EMSP"}
    [] f = "markdown" -> {"a", "FS", "Q", "BS", "HASH", "U2", "U4", "DASH", "PIPE", "COLON", "LF", "CR", "TAB"}
    [] f = "csvlite" -> {"a", "FS", "Q", "CR", "LF", "SP", "BS", "TAB", "HASH", "U2", "U4", "1"}
Cells(A, k) == UNION {[1..n -> A] : n \in 0..k}
\* the classes the rules of the format really hinge on: probes of three tokens are taken over these only
Core(f, v) ==
  CASE f = "csv" -> {"a", "FS", "Q", "CR", "LF", "SP"}
    [] f = "tsv" -> {"a", "TAB", "BS", "t", "LF", "CR"}
    [] f = "json" -> {"a", "Q", "BS", "u", "C1", "U4"}
    [] f = "dkvp" -> {"a", "CR", "Q", "SP", "BS", "U4"}
    [] f = "nidx" -> {"a", "CR", "Q", "BS", "U4", "EQ"}
    [] f = "xtab" -> {"a", "PS", "CR", "Q", "BS", "U4"}
    [] f = "pprint" -> {"a", "DASH", "Q", "U4", "PLUS", "PIPE"}
    [] f = "markdown" -> {"a", "FS", "DASH", "Q", "U4", "COLON"}
    [] f = "csvlite" -> {"a", "Q", "CR", "SP", "BS", "U4"}
ProbeCells(f, v) == Cells(Alpha(f, v), Min(MaxTok, 2)) \cup (IF MaxTok >= 3 THEN [1..3 -> Core(f, v)] ELSE {})

\* plain keys and values around the probe; formats/variants that cannot carry keys get positional ones
PositionalOnly(f, v) == f = "nidx" \/ Headerless(v)
K(f, v, j) == IF PositionalOnly(f, v) THEN NumKey(j) ELSE <<"k">> \o NumKey(j)
P(k, c) == <<k, c>>
Y == <<"y">>
Z == <<"z">>

\* the families: where the probe cell c sits
Families == {"KA", "KB1", "KB2", "VA", "VB", "VC"}
StreamOf(fam, f, v, c) ==
  CASE fam = "KA" -> << <<P(c, Z)>> >>                                      \* the only key
    [] fam = "KB1" -> << <<P(c, Z), P(K(f, v, 2), Y)>> >>                   \* first key
    [] fam = "KB2" -> << <<P(K(f, v, 1), Y), P(c, Z)>> >>                   \* last key
    [] fam = "VA" -> << <<P(K(f, v, 1), c)>> >>                             \* the only value
    [] fam = "VB" -> << <<P(K(f, v, 1), c), P(K(f, v, 2), c)>>, <<P(K(f, v, 1), c), P(K(f, v, 2), c)>> >>   \* first/last field x first/last record
    [] fam = "VC" -> << <<P(K(f, v, 1), c)>>, <<P(K(f, v, 1), c)>> >>       \* only field, first/last record

\* wide and heterogeneous streams (probe cells of at most one token)
Wide(f, v, c) == << [j \in 1..13 |-> P(K(f, v, j), IF j \in {1, 12, 13} THEN c ELSE <<"a">>)],
                    [j \in 1..13 |-> P(K(f, v, j), IF j \in {2, 13} THEN c ELSE Y)] >>
R1(f, v, c) == <<P(K(f, v, 1), c)>>
R2(f, v, c) == <<P(K(f, v, 1), c), P(K(f, v, 2), Z)>>
R3(f, v, c) == <<P(K(f, v, 1), Y), P(K(f, v, 2), c), P(NumKey(3), c)>>
RX(f, v, c) == <<P(K(f, v, 2), c), P(<<"x">>, Y)>>
RS(f, v, c) == <<P(K(f, v, 2), Z), P(K(f, v, 1), c)>>
Het(f, v, c) == { <<R2(f, v, c), R2(f, v, Y), RX(f, v, c), RX(f, v, Z)>>,        \* key change
                  <<R1(f, v, c), R2(f, v, c), R1(f, v, Y)>>,                     \* longer, shorter
                  <<R2(f, v, Y), R3(f, v, c), R2(f, v, c)>>,                     \* an extra field keyed by its position
                  <<R2(f, v, c), RS(f, v, c)>>,                                  \* same keys, other order
                  <<R2(f, v, c), R1(f, v, c), R2(f, v, Z)>> }                    \* a record lacking the last key
Specials(f, v) == {Wide(f, v, c) : c \in Cells(Alpha(f, v), 1)} \cup UNION {Het(f, v, c) : c \in Cells(Alpha(f, v), 1)}
                  \cup (IF f = "json" THEN {<<>>, << <<>> >>, << <<>>, <<P(<<>>, <<>>)>>, <<>> >>} ELSE {})

\* the legal spellings of a stream in the standard formats
StyleNames(f, v) ==
  CASE f = "csv" -> (IF v = "default" THEN {"c1", "c2", "c3", "c4", "c5", "c6"} ELSE IF v \in {"semi", "tabfs", "headerless", "ragged"} THEN {"c2", "c3"} ELSE {})
    [] f = "tsv" -> (IF v = "default" THEN {"t1", "t2", "t3", "t4", "t5"} ELSE IF v = "headerless" THEN {"t4"} ELSE {})
    [] f = "json" -> (IF v = "default" THEN {"j1", "j2", "j3", "j4", "j5", "j6"} ELSE IF v = "jsonl" THEN {"j1", "j5"} ELSE {})
    [] OTHER -> {}
LFs == <<"LF">>
CRLFs == <<"CR", "LF">>
CSt(v, q, eol, final, bom) == [hdr |-> ~Headerless(v), q |-> q, eol |-> eol, final |-> final, bom |-> bom]
StyledText(f, v, st, s) ==
  CASE st = "c1" -> CSVText(CSt(v, "min", LFs, TRUE, FALSE), s)
    [] st = "c2" -> CSVText(CSt(v, "all", CRLFs, TRUE, TRUE), s)
    [] st = "c3" -> CSVText(CSt(v, "alt", LFs, FALSE, FALSE), s)
    [] st = "c4" -> CSVText(CSt(v, "alt", CRLFs, TRUE, FALSE), s)
    [] st = "c5" -> CSVText(CSt(v, "all", LFs, FALSE, TRUE), s)
    [] st = "c6" -> CSVText(CSt(v, "min", CRLFs, FALSE, FALSE), s)
    [] st = "t1" -> TSVText([hdr |-> ~Headerless(v), eol |-> LFs, final |-> TRUE, lazy |-> FALSE], s)
    [] st = "t2" -> TSVText([hdr |-> ~Headerless(v), eol |-> CRLFs, final |-> TRUE, lazy |-> FALSE], s)
    [] st = "t3" -> TSVText([hdr |-> ~Headerless(v), eol |-> LFs, final |-> FALSE, lazy |-> FALSE], s)
    [] st = "t4" -> TSVText([hdr |-> ~Headerless(v), eol |-> CRLFs, final |-> FALSE, lazy |-> FALSE], s)
    [] st = "t5" -> TSVText([hdr |-> ~Headerless(v), eol |-> LFs, final |-> TRUE, lazy |-> TRUE], s)
    [] st = "j1" -> JSONText([lay |-> "lines", esc |-> "min", sp |-> TRUE], s)
    [] st = "j2" -> JSONText([lay |-> "array", esc |-> "u", sp |-> FALSE], s)
    [] st = "j3" -> JSONText([lay |-> "stack", esc |-> "slash", sp |-> TRUE], s)
    [] st = "j4" -> JSONText([lay |-> "concat", esc |-> "U", sp |-> TRUE], s)
    [] st = "j5" -> JSONText([lay |-> "lines", esc |-> "u", sp |-> FALSE], s)
    [] st = "j6" -> JSONText([lay |-> "array", esc |-> "min", sp |-> FALSE], s)
\* long cells: a run of n plain characters, written as the ONE token "L<n>" (the harness renders it as n letters and reads such
\* a run back as the token), as a value in the first / last field of the first / last record, and inside a key.  Lines whose
\* lengths straddle the sizes of an implementation's buffers must come back like any other line, whatever ends them.
LTok(n) == "L" \o ToString(n)
LongStreams(f, v) ==
  IF f \in {"pprint", "markdown"} THEN {}          \* (aligned formats pad every other cell to the long one's width: left out)
  ELSE
  UNION {{ << <<P(K(f, v, 1), <<LTok(n)>>), P(K(f, v, 2), Y)>>, <<P(K(f, v, 1), Z), P(K(f, v, 2), <<LTok(n)>>)>> >> }
         \cup (IF PositionalOnly(f, v) \/ f = "xtab" THEN {}
               ELSE { << <<P(<<"k", LTok(n)>>, Y), P(K(f, v, 2), Z)>>, <<P(<<"k", LTok(n)>>, Z), P(K(f, v, 2), Y)>> >>,
                      << <<P(K(f, v, 1), Y), P(<<"k", LTok(n)>>, Z)>> >> }) : n \in LongN}
FVs == {<<f, v>> : f \in (IF F = "all" THEN Formats ELSE {F}), v \in {"default", "quoteall", "crlf", "semi", "tabfs", "headerless", "ragged",
                                                                      "jsonl", "nowrap", "oneline", "comma", "barred", "right", "wideps"}}
Case(k, f, v, fam, st, s) == [k |-> k, f |-> f, v |-> v, fam |-> fam, st |-> st, s |-> s]
RawRT == UNION {
           {Case("rt", fv[1], fv[2], fam, "-", StreamOf(fam, fv[1], fv[2], c)) : fam \in Families, c \in ProbeCells(fv[1], fv[2])}
           \cup {Case("rt", fv[1], fv[2], "X", "-", s) : s \in Specials(fv[1], fv[2])}
           \cup {Case("rt", fv[1], fv[2], "XL", "-", s) : s \in LongStreams(fv[1], fv[2])}
         : fv \in {x \in FVs : x[2] \in Variants(x[1])}}
RawTX == UNION {
           {Case("tx", fv[1], fv[2], fam, st, StreamOf(fam, fv[1], fv[2], c)) :
              fam \in {"KB1", "KB2", "VB"}, st \in StyleNames(fv[1], fv[2]), c \in ProbeCells(fv[1], fv[2])}
           \* (the \\u-escaping JSON styles spell every character by its code point, which a run token does not have)
           \cup {Case("tx", fv[1], fv[2], "XL", st, s) : st \in StyleNames(fv[1], fv[2]) \ {"j2", "j4", "j5"}, s \in LongStreams(fv[1], fv[2])}
         : fv \in {x \in FVs : x[2] \in Variants(x[1])}}
\* only streams inside the documented representable domain are cases
Cases == {x \in RawRT \cup RawTX : Representable(x.f, x.v, x.s)}
=============================================================================
