--------------------------- MODULE VerbsSelectCases ---------------------------
(* The bounded case space of C11: verb configurations x streams. *)
EXTENDS VerbsSelect
CONSTANTS MaxLen

P(k, v) == <<k, v>>
RU == { <<P("a", "1"), P("b", "x")>>, <<P("a", "2"), P("b", "y")>>, <<P("a", "1"), P("b", "y")>>,
        <<P("b", "x")>>, <<P("a", ""), P("b", "")>>, <<P("a", "1")>> }
Streams == UNION {[1..l -> RU] : l \in 0..MaxLen}

Cfg(v, n, g, o) == [v |-> v, n |-> n, g |-> g, o |-> o]
Ns == {0, 1, 2, 3}
Gs == {<<>>, <<"a">>, <<"a", "b">>}
Exprs == {"true", "false", "is_present($a)", "$b == \"x\"", "$nosuch", "NR % 2 == 1", "is_present($a) && $b == \"y\""}
\* literal grep patterns over the texts "a=1,b=x" / "1,x" of the records above (one-character strings; no regex operators)
GrepPatterns == {<<"a", "=", "1">>, <<"1", ",", "b">>, <<"x">>, <<"=">>, <<"b", "=", "x">>, <<"A", "=", "1">>, <<"1", ",", "x">>,
                 <<"y">>, <<"=", ",">>, <<"b", "=">>, <<"2">>, <<"X">>, <<",">>}
GrepOpts == {<<>>, <<"-i">>, <<"-v">>, <<"-a">>, <<"-i", "-v">>, <<"-a", "-v">>, <<"-a", "-i">>}
\* regular expressions on field names, each with the names of the case space ("a", "b") it matches
NamePatterns == {<<"^a$", <<"a">>>>, <<"^[ab]$", <<"a", "b">>>>, <<"b", <<"b">>>>, <<"^z", <<>>>>, <<"\"A\"i", <<"a">>>>, <<"^.$", <<"a", "b">>>>,
                 <<"a|b", <<"a", "b">>>>, <<"[^a]", <<"b">>>>}
Configs ==
  {Cfg("cat", 0, <<>>, ""), Cfg("nothing", 0, <<>>, ""), Cfg("tac", 0, <<>>, ""), Cfg("group-like", 0, <<>>, ""),
   Cfg("skip-trivial-records", 0, <<>>, ""), Cfg("shuffle", 0, <<>>, ""), Cfg("bootstrap", 0, <<>>, "")}
  \cup {Cfg("cat", 0, g, o) : g \in Gs, o \in {"-n", "-N"}}
  \cup {Cfg("head", n, g, "") : n \in Ns \cup {-1, -2, 5}, g \in Gs}
  \cup {Cfg("tail", n, g, "") : n \in Ns \cup {5}, g \in Gs}
  \cup {Cfg("tail", n, g, "+") : n \in {1, 2, 3, 5}, g \in Gs}
  \cup {Cfg("decimate", n, g, o) : n \in {1, 2, 3}, g \in {<<>>, <<"a">>}, o \in {"-b", "-e"}}
  \cup {Cfg(v, 0, <<>>, e) : v \in {"filter", "filter-x"}, e \in Exprs}
  \cup {Cfg("having-fields", 0, g, o) : g \in {<<"a">>, <<"a", "b">>, <<"b">>}, o \in {"--at-least", "--which-are", "--at-most"}}
  \cup {Cfg("group-by", 0, g, "") : g \in {<<"a">>, <<"b">>, <<"a", "b">>}}
  \cup {Cfg("uniq-a", 0, <<>>, o) : o \in {"", "-c", "-n"}}
  \cup {Cfg("sample", n, g, "") : n \in {0, 1, 2}, g \in {<<>>, <<"a">>}}
  \cup {Cfg("grep", 0, p, o) : p \in GrepPatterns, o \in GrepOpts}
  \cup {[v |-> "having-fields-re", n |-> 0, g |-> <<pm[1]>>, o |-> o, m |-> pm[2]] :
           pm \in NamePatterns, o \in {"--all-matching", "--any-matching", "--none-matching"}}
\* Group-by values containing the comma or empty: a record's group is the TUPLE of its group-by values, so ("x,y","z") and
\* ("x","y,z") are different groups whatever text an implementation joins them into.  (The engine renders DKVP with ";".)
RUsep == { <<P("a", "x,y"), P("b", "z")>>, <<P("a", "x"), P("b", "y,z")>>, <<P("a", "x"), P("b", "y")>>,
           <<P("a", ","), P("b", "")>>, <<P("a", ""), P("b", ",")>>,
           \* one field whose value reads like two fields: a record is its sequence of (name, value) pairs, whatever text an
           \* implementation writes it as to compare it with another
           <<P("a", "x,b=y")>> }
StreamsSep == UNION {[1..l -> RUsep] : l \in 0..MaxLen}
AB == <<"a", "b">>
SepConfigs ==
  {Cfg("head", 1, AB, ""), Cfg("head", 2, AB, ""), Cfg("tail", 1, AB, ""), Cfg("tail", 2, AB, ""), Cfg("cat", 0, AB, "-n"),
   Cfg("cat", 0, AB, "-N"), Cfg("group-by", 0, AB, ""), Cfg("decimate", 2, AB, "-b"), Cfg("decimate", 2, AB, "-e"),
   Cfg("uniq-a", 0, <<>>, ""), Cfg("uniq-a", 0, <<>>, "-c"), Cfg("uniq-a", 0, <<>>, "-n"), Cfg("group-like", 0, <<>>, ""), Cfg("tac", 0, <<>>, "")}
\* Slow arrival: longer streams delivered one record at a time with a pause after each (the engine runs these cases with
\* --records-per-batch 1 and a delay at the line reader's hook), so that a verb that tells the reader to stop - or believes
\* it may - does so while most of the input has not been read yet.  What the verb outputs does not depend on arrival times.
RU3 == { <<P("a", "1"), P("b", "x")>>, <<P("a", "2"), P("b", "y")>>, <<P("b", "x")>> }
SlowStreams == UNION {[1..l -> RU3] : l \in 4..5}
SlowConfigs ==
  {Cfg("head", n, g, "") : n \in {0, 1, 2}, g \in Gs}
  \cup {Cfg("tail", n, g, "") : n \in {1, 2}, g \in {<<>>, <<"a">>}}
  \cup {Cfg("decimate", 2, g, "-b") : g \in {<<>>, <<"a">>}}
  \cup {Cfg("cat", 0, <<"a">>, "-n"), Cfg("group-by", 0, <<"a">>, ""), Cfg("uniq-a", 0, <<>>, "-c"), Cfg("filter", 0, <<>>, "NR % 2 == 1"),
        Cfg("head", -1, <<"a">>, ""), Cfg("tail", 2, <<"a">>, "+"), Cfg("nothing", 0, <<>>, ""), Cfg("tac", 0, <<>>, ""),
        Cfg("sample", 1, <<"a">>, ""), Cfg("having-fields", 0, <<"a">>, "--at-least")}
Cases == {[c |-> c, s |-> s] : c \in Configs, s \in Streams} \cup {[c |-> c, s |-> s] : c \in SepConfigs, s \in StreamsSep}
         \cup {[c |-> c, s |-> s, slow |-> TRUE] : c \in SlowConfigs, s \in SlowStreams}
=============================================================================
