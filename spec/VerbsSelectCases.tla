--------------------------- MODULE VerbsSelectCases ---------------------------
(* The bounded case space of C11: verb configurations x streams. *)
EXTENDS VerbsSelect
CONSTANTS MaxLen

P(k, v) == <<k, v>>
RU == { <<P("a", "1"), P("b", "x")>>, <<P("a", "2"), P("b", "y")>>, <<P("a", "1"), P("b", "y")>>,
        <<P("b", "x")>>, <<P("a", ""), P("b", "")>>, <<P("a", "1")>> }
Streams == UNION {[1..l -> RU] : l \in 0..MaxLen}

Cfg(v, n, g, o) == [v |-> v, n |-> n, g |-> g, o |-> o]
Ns == {0, 1, 2, 3}
Gs == {<<>>, <<"a">>, <<"a", "b">>}
Exprs == {"true", "false", "is_present($a)", "$b == \"x\"", "$nosuch", "NR % 2 == 1", "is_present($a) && $b == \"y\""}
Configs ==
  {Cfg("cat", 0, <<>>, ""), Cfg("nothing", 0, <<>>, ""), Cfg("tac", 0, <<>>, ""), Cfg("group-like", 0, <<>>, ""),
   Cfg("skip-trivial-records", 0, <<>>, ""), Cfg("shuffle", 0, <<>>, ""), Cfg("bootstrap", 0, <<>>, "")}
  \cup {Cfg("cat", 0, g, o) : g \in Gs, o \in {"-n", "-N"}}
  \cup {Cfg("head", n, g, "") : n \in Ns \cup {-1, -2, 5}, g \in Gs}
  \cup {Cfg("tail", n, g, "") : n \in Ns \cup {5}, g \in Gs}
  \cup {Cfg("tail", n, g, "+") : n \in {1, 2, 3, 5}, g \in Gs}
  \cup {Cfg("decimate", n, g, o) : n \in {1, 2, 3}, g \in {<<>>, <<"a">>}, o \in {"-b", "-e"}}
  \cup {Cfg(v, 0, <<>>, e) : v \in {"filter", "filter-x"}, e \in Exprs}
  \cup {Cfg("having-fields", 0, g, o) : g \in {<<"a">>, <<"a", "b">>, <<"b">>}, o \in {"--at-least", "--which-are", "--at-most"}}
  \cup {Cfg("group-by", 0, g, "") : g \in {<<"a">>, <<"b">>, <<"a", "b">>}}
  \cup {Cfg("uniq-a", 0, <<>>, o) : o \in {"", "-c", "-n"}}
  \cup {Cfg("sample", n, g, "") : n \in {0, 1, 2}, g \in {<<>>, <<"a">>}}
\* Group-by values containing the comma or empty: a record's group is the TUPLE of its group-by values, so ("x,y","z") and
\* ("x","y,z") are different groups whatever text an implementation joins them into.  (The engine renders DKVP with ";".)
RUsep == { <<P("a", "x,y"), P("b", "z")>>, <<P("a", "x"), P("b", "y,z")>>, <<P("a", "x"), P("b", "y")>>,
           <<P("a", ","), P("b", "")>>, <<P("a", ""), P("b", ",")>> }
StreamsSep == UNION {[1..l -> RUsep] : l \in 0..MaxLen}
AB == <<"a", "b">>
SepConfigs ==
  {Cfg("head", 1, AB, ""), Cfg("head", 2, AB, ""), Cfg("tail", 1, AB, ""), Cfg("tail", 2, AB, ""), Cfg("cat", 0, AB, "-n"),
   Cfg("cat", 0, AB, "-N"), Cfg("group-by", 0, AB, ""), Cfg("decimate", 2, AB, "-b"), Cfg("decimate", 2, AB, "-e")}
Cases == {[c |-> c, s |-> s] : c \in Configs, s \in Streams} \cup {[c |-> c, s |-> s] : c \in SepConfigs, s \in StreamsSep}
=============================================================================
