------------------------------ MODULE SortBigObs ------------------------------
(* lines: [c (command), s (input values), out (values as printed), exit] *)
EXTENDS SortBig, Json
CONSTANT ObsFile
Obs == ndJsonDeserialize(ObsFile)
VARIABLE l
Init == l = 1
Next == l < Len(Obs) /\ l' = l + 1
Known(out) == \A i \in 1..Len(out) : out[i] \in UB
Why(o) == IF o.exit # 0 THEN "exit status"
          ELSE IF ~Known(o.out) THEN "a value was altered"
          ELSE IF ~IsTop(o.c) /\ ~SameBag(o.out, o.s) THEN "not a permutation"
          ELSE "order"
Conforms == LET o == Obs[l] IN
   (o.exit = 0 /\ Known(o.out) /\ Allowed(o.c, o.s, o.out)) \/ PrintT(ToJson([line |-> l, why |-> Why(o)]))
=============================================================================
