------------------------------ MODULE InPlaceGen ------------------------------
(* Enumerates, from the specification, every run of every scenario: the run  *)
(* to completion and one run per crash point (site, n) = "kill the process   *)
(* at the n-th passage of hook site".                                        *)
EXTENDS InPlace, InPlaceConfigs, Json
Emit == alive \/ PrintT(ToJson([sc |-> sc, crash |-> exit = "killed", site |-> last, n |-> IF last = "none" THEN 0 ELSE cnt[last]]))
=============================================================================
