------------------------------ MODULE InPlaceGen ------------------------------
(* Enumerates, from the specification, every run of every scenario: the run  *)
(* to completion and one run per crash point (site, n) = "kill the process   *)
(* at the n-th passage of hook site".                                        *)
EXTENDS InPlace, InPlaceConfigs, Json
\* (with MaxRuns = 2: one line per pair of runs, prev naming how and where the first one ended)
Emit == alive \/ run < MaxRuns
        \/ PrintT(ToJson([sc |-> sc, crash |-> exit = "killed", site |-> last, n |-> IF last = "none" THEN 0 ELSE cnt[last], prev |-> prev]))
=============================================================================
