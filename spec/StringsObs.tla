----------------------------- MODULE StringsObs -----------------------------
(* Judges what the real mlr computed.  Lines:                                                                   *)
(*  [fam |-> "str", c |-> case of Strings.tla, exit, r |-> [k typeof, s characters, n value, a values, ks keys]]   *)
(*  [fam |-> "fmt", c |-> case of PrintfInt.tla (flags as a sequence), exit, k |-> typeof, out |-> text]           *)
(* The characters of results are the harness's re-tokenisation by code point ("other" for a code point that is   *)
(* not the representative of any abstract character).                                                           *)
EXTENDS Strings, PrintfInt, Json
CONSTANT ObsFile
Obs == ndJsonDeserialize(ObsFile)
VARIABLE l
Init == l = 1
Next == l < Len(Obs) /\ l' = l + 1
SetOf(t) == {t[k] : k \in 1..Len(t)}
OK(o) == /\ o.exit = 0
         /\ IF o.fam = "str" THEN Allowed(o.c, o.r)
            ELSE LET c == [o.c EXCEPT !.F = SetOf(o.c.F)] IN Constrained(c) /\ FmtAllowed(c, o.k, o.out)
Conforms == OK(Obs[l]) \/ PrintT(ToJson([line |-> l]))
=============================================================================
