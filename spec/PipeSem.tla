------------------------------ MODULE PipeSem ------------------------------
(***************************************************************************)
(* Constant-level meaning of a Pipeline configuration: what the chain       *)
(* computes from the input (the reference that is free of batching and      *)
(* scheduling), and which configurations must succeed / must fail.          *)
(* Shared by Pipeline.tla (invariants over all interleavings),              *)
(* PipelineObs.tla (validation of what the real binary did) and             *)
(* PipelineTrace.tla.                                                       *)
(***************************************************************************)
EXTENDS Integers, Sequences, FiniteSets

EOS == 0
Missing == <<0>>          \* a file that cannot be opened (0 is not a line)
IsMissing(f) == f = Missing
IsRec(x) == x >= 1 /\ x <= 99
IsStr(x) == x >= 100


(***************************************************************************)
(* Sequential meaning of the verbs (the chain-defined output).             *)
(***************************************************************************)
RECURSIVE SelectOdd(_), Dup(_), Rev(_), WithPrint(_), Take(_, _)
SelectOdd(s) == IF s = <<>> THEN <<>>
                ELSE IF IsRec(Head(s)) /\ Head(s) % 2 = 0 THEN SelectOdd(Tail(s))
                ELSE <<Head(s)>> \o SelectOdd(Tail(s))
Dup(s) == IF s = <<>> THEN <<>>
          ELSE IF IsRec(Head(s)) THEN <<Head(s), Head(s)>> \o Dup(Tail(s))
          ELSE <<Head(s)>> \o Dup(Tail(s))
Rev(s) == IF s = <<>> THEN <<>> ELSE Rev(Tail(s)) \o <<Head(s)>>
WithPrint(s) == IF s = <<>> THEN <<>>
                ELSE IF IsRec(Head(s)) THEN <<100 + Head(s), Head(s)>> \o WithPrint(Tail(s))
                ELSE <<Head(s)>> \o WithPrint(Tail(s))
\* first k records of s; text items pass (they bypass the verb)
Take(s, k) == IF s = <<>> THEN <<>>
              ELSE IF IsStr(Head(s)) THEN <<Head(s)>> \o Take(Tail(s), k)
              ELSE IF k > 0 THEN <<Head(s)>> \o Take(Tail(s), k - 1)
              ELSE Take(Tail(s), 0)
RecsOnly(s) == SelectSeq(s, IsRec)
StrsOnly(s) == SelectSeq(s, IsStr)
\* tac: text items pass at once, records come reversed at end of stream
TacOf(s) == StrsOnly(s) \o Rev(RecsOnly(s))

SeqgenOut(k) == [j \in 1..k |-> j]

ApplyVerb(v, s) ==
  CASE v.k = "cat"    -> s
    [] v.k = "filt"   -> SelectOdd(s)
    [] v.k = "dup"    -> Dup(s)
    [] v.k = "head"   -> Take(s, v.p)
    [] v.k = "tac"    -> TacOf(s)
    [] v.k = "tee"    -> s
    [] v.k = "print"  -> WithPrint(s)
    [] v.k = "fail"   -> s
    [] v.k = "seqgen" -> SeqgenOut(v.p)

RECURSIVE ApplyUpTo(_, _, _)
ApplyUpTo(chain, i, s) == IF i = 0 THEN s ELSE ApplyVerb(chain[i], ApplyUpTo(chain, i - 1, s))

RECURSIVE GoodLines(_), Concat(_)
GoodLines(f) == IF IsMissing(f) THEN <<>> ELSE SelectSeq(f, LAMBDA x : x > 0)
Concat(fs) == IF fs = <<>> THEN <<>> ELSE GoodLines(Head(fs)) \o Concat(Tail(fs))

InputRecords(c) == Concat(c.files)
Expected(c) == ApplyUpTo(c.chain, Len(c.chain), InputRecords(c))
\* what a tee at position i must have in its file
ExpectedTee(c, i) == RecsOnly(ApplyUpTo(c.chain, i, InputRecords(c)))

\* A configuration is fault-free iff nothing in it can fail.
HasMissing(c) == \E j \in 1..Len(c.files) : IsMissing(c.files[j])
HasBadLine(c) == \E j \in 1..Len(c.files) : ~IsMissing(c.files[j]) /\ \E x \in 1..Len(c.files[j]) : c.files[j][x] < 0
FaultFree(c) == /\ ~HasMissing(c) /\ ~HasBadLine(c)
                /\ c.werr = 0 /\ ~c.ferr
                /\ \A i \in 1..Len(c.chain) : c.chain[i].k # "fail"
FaultFreeButFlush(c) == /\ ~HasMissing(c) /\ ~HasBadLine(c) /\ c.werr = 0
                        /\ \A i \in 1..Len(c.chain) : c.chain[i].k # "fail"
HasHead(c) == \E i \in 1..Len(c.chain) : c.chain[i].k = "head"


\* A verb "fail p" fails iff p records reach it. With an early-exit head anywhere downstream of
\* it the reader may legitimately stop before that record is read, so only these must fail:
FailReached(c, i) == c.chain[i].k = "fail" /\ Len(RecsOnly(ApplyUpTo(c.chain, i - 1, InputRecords(c)))) >= c.chain[i].p
HeadAfter(c, i) == \E j \in (i + 1)..Len(c.chain) : c.chain[j].k = "head"
\* the writer fails iff at least werr records reach it
WriterFails(c) == c.werr > 0 /\ Len(RecsOnly(Expected(c))) >= c.werr

\* Faults that every schedule and every batch size must run into. A malformed line behind the
\* point where an early-exit head stops the reader may legitimately never be read; a failing
\* flush of an empty output is not a failure.
MustFail(c) == \/ HasMissing(c)
               \/ (c.ferr /\ Expected(c) # <<>> /\ FaultFreeButFlush(c))
               \/ (HasBadLine(c) /\ ~HasHead(c))
               \/ (~HasBadLine(c) /\ \E i \in 1..Len(c.chain) : FailReached(c, i) /\ ~HeadAfter(c, i))
               \/ (~HasBadLine(c) /\ WriterFails(c) /\ \A i \in 1..Len(c.chain) : c.chain[i].k # "fail")
=============================================================================
