-------------------------------- MODULE Sort --------------------------------
(***************************************************************************)
(* Sorting (C09): the `sort` verb, `sort-within-records`, `top -a` and the   *)
(* DSL functions sort / sort_collection, written from the documentation      *)
(* (reference-verbs.md "sort", "sort-within-records", "top"; sorting.md;     *)
(* reference-main-null-data.md; `mlr help function sort`; the type-inference *)
(* rules of reference-main-arithmetic.md / reference-main-data-types.md).    *)
(*                                                                           *)
(* A value is its TEXT.  The finite universe of texts is tabulated below     *)
(* with, per text, its characters (so that the byte-lexical, case-folded and *)
(* natural orders are COMPUTED by the definitions here, not tabulated), the  *)
(* kind Miller infers for it from data and, for numbers, the value x 10.     *)
(*                                                                           *)
(* Every judgement is a PREDICATE (ValidSort, ValidFn, ValidTop): the        *)
(* documentation fixes the order only up to ties of keys that compare equal  *)
(* but differ in text (1, 1.0, 0x1) and is silent or two-voiced on a few     *)
(* collation details, which are explicit choices here (see Choices).         *)
(***************************************************************************)
EXTENDS Records, TLC

(* ------------------------------------------------------------------------ *)
(* The universe of texts                                                     *)
(* ------------------------------------------------------------------------ *)
R(t, ch, k, n) == [t |-> t, ch |-> ch, k |-> k, n |-> n]
\* kind: what type inference gives a field value with this text ("Anything scannable as int, e.g 123 or 0xabcd, is
\* treated as an integer; otherwise, input scannable as float (4.56 or 8e9) is treated as float; everything else is a
\* string"; 0b prefix binary; numbers with leading zeroes are strings; the empty value is "empty"; `true` from data
\* is a string).  n: ten times the numeric value.
Table == <<
  R("",      <<>>,                    "empty",  0),
  R("-2",    <<"-", "2">>,            "int",    -20),
  R("0x1",   <<"0", "x", "1">>,       "int",    10),
  R("1",     <<"1">>,                 "int",    10),
  R("1.0",   <<"1", ".", "0">>,       "float",  10),
  R("1e0",   <<"1", "e", "0">>,       "float",  10),
  R("0b11",  <<"0", "b", "1", "1">>,  "int",    30),
  R("1.5",   <<"1", ".", "5">>,       "float",  15),
  R("9",     <<"9">>,                 "int",    90),
  R("10",    <<"1", "0">>,            "int",    100),
  R("0xa",   <<"0", "x", "a">>,       "int",    100),
  R("0xB",   <<"0", "x", "B">>,       "int",    110),
  R("007",   <<"0", "0", "7">>,       "string", 0),
  R("Abc",   <<"A", "b", "c">>,       "string", 0),
  R("abc",   <<"a", "b", "c">>,       "string", 0),
  R("abd",   <<"a", "b", "d">>,       "string", 0),
  R("a10",   <<"a", "1", "0">>,       "string", 0),
  R("a9",    <<"a", "9">>,            "string", 0),
  R("true",  <<"t", "r", "u", "e">>,  "string", 0),
  \* texts that occur only as boolean literals, field names or map keys
  R("false", <<"f", "a", "l", "s", "e">>, "string", 0),
  R("a",     <<"a">>,                 "string", 0),
  R("b",     <<"b">>,                 "string", 0),
  R("B",     <<"B">>,                 "string", 0),
  R("ab",    <<"a", "b">>,            "string", 0),
  R("x2",    <<"x", "2">>,            "string", 0),
  R("x12",   <<"x", "1", "2">>,       "string", 0),
  R("5x",    <<"5", "x">>,            "string", 0),
  R("1e1",   <<"1", "e", "1">>,       "float",  100),
  \* texts of the family "sksep" (SortCases): one a proper prefix of another that goes on with a byte below or above the
  \* comma, texts holding the comma or the backslash themselves, a sign
  R("Ann",       <<"A", "n", "n">>,                                    "string", 0),
  R("Ann Marie", <<"A", "n", "n", " ", "M", "a", "r", "i", "e">>,      "string", 0),
  R("Ann-Marie", <<"A", "n", "n", "-", "M", "a", "r", "i", "e">>,      "string", 0),
  R("Anna",      <<"A", "n", "n", "a">>,                               "string", 0),
  R("a,b",       <<"a", ",", "b">>,                                    "string", 0),
  R("a-b",       <<"a", "-", "b">>,                                    "string", 0),
  R("a\\b",      <<"a", "\\", "b">>,                                   "string", 0),
  R(",",         <<",">>,                                              "string", 0),
  R("+1",        <<"+", "1">>,                                         "int",    10)
>>
\* the 19 value texts (the first 19 rows), in table order
U == [i \in 1..19 |-> Table[i].t]
USet == {U[i] : i \in 1..19}
Texts == {Table[i].t : i \in 1..Len(Table)}
Row == [t \in Texts |-> Table[CHOOSE i \in 1..Len(Table) : Table[i].t = t]]
IsNum(t) == Row[t].k \in {"int", "float"}

\* ASCII
Code == " " :> 32 @@ "+" :> 43 @@ "," :> 44 @@ "M" :> 77 @@ "\\" :> 92 @@ "i" :> 105 @@ "n" :> 110 @@ "-" :> 45 @@ "." :> 46 @@ "0" :> 48 @@ "1" :> 49 @@ "2" :> 50 @@ "5" :> 53 @@ "7" :> 55 @@ "9" :> 57 @@
        "A" :> 65 @@ "B" :> 66 @@ "a" :> 97 @@ "b" :> 98 @@ "c" :> 99 @@ "d" :> 100 @@ "e" :> 101 @@ "f" :> 102 @@
        "l" :> 108 @@ "r" :> 114 @@ "s" :> 115 @@ "t" :> 116 @@ "u" :> 117 @@ "x" :> 120
Codes(t) == [i \in 1..Len(Row[t].ch) |-> Code[Row[t].ch[i]]]
FoldC(c) == IF c >= 65 /\ c <= 90 THEN c + 32 ELSE c
Folded(s) == [i \in 1..Len(s) |-> FoldC(s[i])]
Sign(n) == IF n < 0 THEN -1 ELSE IF n > 0 THEN 1 ELSE 0

(* ------------------------------------------------------------------------ *)
(* The four collations; a comparison is -1, 0 or 1                           *)
(* ------------------------------------------------------------------------ *)
\* lexical: byte by byte, a proper prefix first
RECURSIVE SeqCmp(_, _)
SeqCmp(s, t) == IF s = <<>> THEN (IF t = <<>> THEN 0 ELSE -1)
                ELSE IF t = <<>> THEN 1
                ELSE IF Head(s) # Head(t) THEN Sign(Head(s) - Head(t))
                ELSE SeqCmp(Tail(s), Tail(t))
LexT  == [a \in Texts, b \in Texts |-> SeqCmp(Codes(a), Codes(b))]
\* case-folded lexical: the same after folding upper-case letters to lower case
FoldT == [a \in Texts, b \in Texts |-> SeqCmp(Folded(Codes(a)), Folded(Codes(b)))]

\* natural (https://en.wikipedia.org/wiki/Natural_sort_order): the text is cut into maximal runs of digits and of
\* non-digits; runs are compared left to right, two digit runs by their integer value, any other pair as text; a
\* proper prefix comes first.
IsDigit(c) == c >= 48 /\ c <= 57
RunLen(s) == CHOOSE k \in 1..Len(s) : /\ \A i \in 1..k : IsDigit(s[i]) = IsDigit(s[1])
                                       /\ (k = Len(s) \/ IsDigit(s[k + 1]) # IsDigit(s[1]))
RECURSIVE Chunks(_)
Chunks(s) == IF s = <<>> THEN <<>> ELSE <<SubSeq(s, 1, RunLen(s))>> \o Chunks(SubSeq(s, RunLen(s) + 1, Len(s)))
RECURSIVE DigitsVal(_)
DigitsVal(d) == IF d = <<>> THEN 0 ELSE 10 * DigitsVal(SubSeq(d, 1, Len(d) - 1)) + (d[Len(d)] - 48)
ChunkCmp(x, y) == IF IsDigit(x[1]) /\ IsDigit(y[1]) THEN Sign(DigitsVal(x) - DigitsVal(y)) ELSE SeqCmp(x, y)
RECURSIVE ChunksCmp(_, _)
ChunksCmp(cs, ds) == IF cs = <<>> THEN (IF ds = <<>> THEN 0 ELSE -1)
                     ELSE IF ds = <<>> THEN 1
                     ELSE IF ChunkCmp(Head(cs), Head(ds)) # 0 THEN ChunkCmp(Head(cs), Head(ds))
                     ELSE ChunksCmp(Tail(cs), Tail(ds))
NatCS == [a \in Texts, b \in Texts |-> ChunksCmp(Chunks(Codes(a)), Chunks(Codes(b)))]
NatCI == [a \in Texts, b \in Texts |-> ChunksCmp(Chunks(Folded(Codes(a))), Chunks(Folded(Codes(b))))]

(* Choices: points on which the documentation is silent or speaks with two   *)
(* voices.  A result is accepted if it is sorted under ONE choice, used for  *)
(* the whole result.                                                         *)
(*  es: numeric order among non-numbers.  "numbers ... before booleans,      *)
(*      empties and strings" (property statement; read as an order: "ef")    *)
(*      but `sort -n`: "nulls sort last" ("sf": strings before empties).     *)
(*  nc: natural order is nowhere said to be case-sensitive ("cs") or         *)
(*      case-insensitive ("ci").                                             *)
(*  en: the place of the empty text in natural order (it has no runs at      *)
(*      all): "first", "last", or "any" = unconstrained.                     *)
Choices == [es : {"ef", "sf"}, nc : {"cs", "ci"}, en : {"first", "last", "any"}]
OrderChoices == {ch \in Choices : ch.en # "any"}     \* those under which every collation is a total preorder

\* an element is <<"d", text>> (typed by inference from its text, as a field value is), <<"b", "true"|"false">>
\* (a boolean of the DSL) or, only as an argument of a comparator function, <<"s", text>> (a string whatever its text)
D(t) == <<"d", t>>
NumClass(ch, e) == IF e[1] = "b" THEN 1
                   ELSE IF IsNum(e[2]) THEN 0
                   ELSE IF Row[e[2]].k = "empty" THEN (IF ch.es = "ef" THEN 2 ELSE 3)
                   ELSE (IF ch.es = "ef" THEN 3 ELSE 2)
\* numeric: numbers by value, then booleans (false before true), then empties and strings (strings lexically)
NumCmp(ch, a, b) ==
  IF NumClass(ch, a) # NumClass(ch, b) THEN Sign(NumClass(ch, a) - NumClass(ch, b))
  ELSE IF NumClass(ch, a) = 0 THEN Sign(Row[a[2]].n - Row[b[2]].n)
  ELSE LexT[a[2], b[2]]
NatCmp(ch, a, b) ==
  IF a = b THEN 0
  ELSE IF a = "" \/ b = "" THEN
     (CASE ch.en = "any" -> 0
        [] ch.en = "first" -> (IF a = "" THEN -1 ELSE 1)
        [] ch.en = "last" -> (IF a = "" THEN 1 ELSE -1))
  ELSE IF ch.nc = "cs" THEN NatCS[a, b] ELSE NatCI[a, b]

\* type in {"n", "f", "c", "t"}; elements; lexical kinds compare the texts ("stringify")
ElemCmp(ch, type, a, b) ==
  CASE type = "n" -> NumCmp(ch, a, b)
    [] type = "f" -> LexT[a[2], b[2]]
    [] type = "c" -> FoldT[a[2], b[2]]
    [] type = "t" -> NatCmp(ch, a[2], b[2])

\* the flags of the sort verb: -f -r lexical, -c -cr case-folded, -n = -nf, -nr numeric, -t, -tr = -rt natural
FlagType(f) == CASE f \in {"f", "r"} -> "f" [] f \in {"c", "cr"} -> "c" [] f \in {"n", "nf", "nr"} -> "n"
                 [] f \in {"t", "tr", "rt"} -> "t"
FlagRev(f) == f \in {"r", "cr", "nr", "tr", "rt"}
VerbFlags == {"f", "r", "c", "cr", "n", "nf", "nr", "t", "tr", "rt"}
\* descending is the ascending order reversed as a whole ("-nr ... nulls sort first")
KeyCmp(ch, f, a, b) == IF FlagRev(f) THEN -ElemCmp(ch, FlagType(f), D(a), D(b)) ELSE ElemCmp(ch, FlagType(f), D(a), D(b))
\* "primarily by the first specified field, secondarily by the second field, and so on"
RECURSIVE MultiCmp(_, _, _, _, _)
MultiCmp(ch, flags, ka, kb, i) ==
  IF i > Len(flags) THEN 0
  ELSE IF KeyCmp(ch, flags[i], ka[i], kb[i]) # 0 THEN KeyCmp(ch, flags[i], ka[i], kb[i])
  ELSE MultiCmp(ch, flags, ka, kb, i + 1)

(* ------------------------------------------------------------------------ *)
(* mlr sort                                                                  *)
(* c = [keys |-> field names, flags |-> one flag per key, b |-> BOOLEAN]     *)
(* ------------------------------------------------------------------------ *)
\* -b: "Move sort fields to start of record": the sort fields in the order given, then the others as they were
MoveFront(r, keys) == [i \in 1..Len(keys) |-> <<keys[i], Get(r, keys[i])>>]
                      \o SelIdx(r, LAMBDA i : \A k \in 1..Len(keys) : r[i][1] # keys[k])
\* only the sort fields that are there (for records lacking some; the reference does not say whether they are moved)
MovePresent(r, keys) ==
  LET present == SelIdx(keys, LAMBDA k : Has(r, keys[k])) IN MoveFront(r, present)

Keyed(s, keys) == SelIdx(s, LAMBDA i : HasAll(s[i], keys))
Keyless(s, keys) == SelIdx(s, LAMBDA i : ~HasAll(s[i], keys))
SameKeyText(r1, r2, keys) == GroupKey(r1, keys) = GroupKey(r2, keys)

\* all pairs in order under one choice (for a total preorder the same as: adjacent pairs in order)
OrderedUnder(ch, c, recs) ==
  \A i, j \in 1..Len(recs) : i < j => MultiCmp(ch, c.flags, GroupKey(recs[i], c.keys), GroupKey(recs[j], c.keys), 1) <= 0
Ordered(c, recs) == \E ch \in Choices : OrderedUnder(ch, c, recs)

LengthOK(c, s, out) == Len(out) = Len(s)
\* "Any records not having all specified sort keys will appear at the end of the output, in the order they were
\* encountered"
KeylessLast(c, s, out) ==
  LET nk == Len(Keyed(s, c.keys)) IN
  /\ \A j \in 1..Len(out) : HasAll(out[j], c.keys) <=> j <= nk
KeylessInOrder(c, s, out) ==
  LET want == Keyless(s, c.keys)  got == Keyless(out, c.keys) IN
  /\ Len(got) = Len(want)
  /\ \A j \in 1..Len(want) : got[j] = want[j] \/ (c.b /\ got[j] = MovePresent(want[j], c.keys))
\* the records that have all sort keys, as they must look in the output
Want(c, s) == LET k == Keyed(s, c.keys) IN IF c.b THEN [j \in 1..Len(k) |-> MoveFront(k[j], c.keys)] ELSE k
\* a permutation, every record unchanged
IsPermutation(c, s, out) == SameBag(Keyed(out, c.keys), Want(c, s))
\* "Records whose key texts are identical keep their input order"
EqualTextsKeepOrder(c, s, out) ==
  LET want == Want(c, s)  got == Keyed(out, c.keys) IN
  \A k \in 1..Len(want) : SelIdx(got, LAMBDA j : SameKeyText(got[j], want[k], c.keys))
                           = SelIdx(want, LAMBDA j : SameKeyText(want[j], want[k], c.keys))
ValidSort(c, s, out) ==
  /\ LengthOK(c, s, out)
  /\ KeylessLast(c, s, out)
  /\ KeylessInOrder(c, s, out)
  /\ IsPermutation(c, s, out)
  /\ EqualTextsKeepOrder(c, s, out)
  /\ Ordered(c, Keyed(out, c.keys))

\* The stricter reading of the verb's help ("The sort is stable: records that compare equal will sort in the order
\* they were encountered"): NOT part of the verdict (C09 as stated only fixes the order of identical key texts); it
\* is evaluated for information.
StableUnder(ch, c, s, out) ==
  LET want == Want(c, s)  got == Keyed(out, c.keys)
      eq(r1, r2) == MultiCmp(ch, c.flags, GroupKey(r1, c.keys), GroupKey(r2, c.keys), 1) = 0 IN
  \A k \in 1..Len(want) : SelIdx(got, LAMBDA j : eq(got[j], want[k])) = SelIdx(want, LAMBDA j : eq(want[j], want[k]))
StableSort(c, s, out) == \E ch \in OrderChoices : OrderedUnder(ch, c, Keyed(out, c.keys)) /\ StableUnder(ch, c, s, out)

(* Named deviations: NOT allowed behaviour; used only to label a finding so that it can be told from other defects.   *)
(*  "casefold-skips-numbers": -c/-cr fold the case of string-typed keys only, a key that is a number (0xB, 1E5)      *)
(*  is compared with its letters as written.                                                                         *)
DevFoldT == [a \in Texts, b \in Texts |->
               SeqCmp(IF IsNum(a) THEN Codes(a) ELSE Folded(Codes(a)), IF IsNum(b) THEN Codes(b) ELSE Folded(Codes(b)))]
DevKeyCmp(ch, f, a, b) == IF FlagType(f) = "c" THEN (IF FlagRev(f) THEN -DevFoldT[a, b] ELSE DevFoldT[a, b])
                          ELSE KeyCmp(ch, f, a, b)
RECURSIVE DevMultiCmp(_, _, _, _, _)
DevMultiCmp(ch, flags, ka, kb, i) ==
  IF i > Len(flags) THEN 0
  ELSE IF DevKeyCmp(ch, flags[i], ka[i], kb[i]) # 0 THEN DevKeyCmp(ch, flags[i], ka[i], kb[i])
  ELSE DevMultiCmp(ch, flags, ka, kb, i + 1)
DevOrdered(c, recs) ==
  \E ch \in Choices : \A i, j \in 1..Len(recs) : i < j =>
      DevMultiCmp(ch, c.flags, GroupKey(recs[i], c.keys), GroupKey(recs[j], c.keys), 1) <= 0
WhySort(c, s, out) ==
  IF ~LengthOK(c, s, out) THEN "length"
  ELSE IF ~KeylessLast(c, s, out) THEN "keyless-not-last"
  ELSE IF ~KeylessInOrder(c, s, out) THEN "keyless-order"
  ELSE IF ~IsPermutation(c, s, out) THEN "not-a-permutation"
  ELSE IF ~EqualTextsKeepOrder(c, s, out) THEN "equal-texts-reordered"
  ELSE IF ~Ordered(c, Keyed(out, c.keys)) THEN
         (IF (\E i \in 1..Len(c.flags) : FlagType(c.flags[i]) = "c") /\ DevOrdered(c, Keyed(out, c.keys))
          THEN "order:casefold-skips-numbers" ELSE "order")
  ELSE "ok"

(* ------------------------------------------------------------------------ *)
(* mlr sort-within-records: "Outputs records sorted lexically ascending by   *)
(* keys"; -r (no argument) "recursively sorts subobjects/submaps" - nothing  *)
(* more on flat records; -n "Sort field names naturally".                    *)
(* ------------------------------------------------------------------------ *)
ValidSWR(o, r, out) ==
  /\ SameBag(out, r)
  /\ \E ch \in Choices : \A i, j \in 1..Len(out) : i < j =>
        ElemCmp(ch, IF o = "-n" THEN "t" ELSE "f", D(out[i][1]), D(out[j][1])) <= 0

(* ------------------------------------------------------------------------ *)
(* mlr top -n k -f x -a [--min]: "Prints the n records with smallest/largest *)
(* values at specified fields", "-a Print all fields for top-value records". *)
(* Judged for numeric values only.  c = [n |-> k, min |-> BOOLEAN]           *)
(* ------------------------------------------------------------------------ *)
TopCmp(c, a, b) == IF c.min THEN Sign(Row[a].n - Row[b].n) ELSE Sign(Row[b].n - Row[a].n)   \* <= 0: a may precede b
ValidTop(c, s, out) ==
  LET keyed == Keyed(s, <<"x">>)
      rest == Keyless(out, <<"x">>) IN
  /\ rest = <<>>
  /\ SubBag(out, keyed)
  /\ Len(out) = (IF Len(keyed) < c.n THEN Len(keyed) ELSE c.n)
  /\ \A i, j \in 1..Len(out) : i < j => TopCmp(c, Get(out[i], "x"), Get(out[j], "x")) <= 0
  \* nothing left out beats anything chosen: for each value, the records of the input better than it are all chosen
  /\ \A j \in 1..Len(out) :
       LET better(r) == TopCmp(c, Get(r, "x"), Get(out[j], "x")) < 0 IN
       SameBag(SelIdx(keyed, LAMBDA i : better(keyed[i])), SelIdx(out, LAMBDA i : better(out[i])))

(* ------------------------------------------------------------------------ *)
(* The DSL functions.  c = [fn |-> "sort" | "sort_collection",               *)
(*   coll |-> "array" | "map", how |-> "none" | "flags" | "lambda",          *)
(*   flags |-> the flag characters, lam |-> name of the comparator function] *)
(* An array is a sequence of elements, a map a sequence of <<key, element>>. *)
(* sort: "returns a sorted copy of the input. With one argument, sorts array *)
(* elements with numbers first numerically and then strings lexically, and   *)
(* map elements likewise by map keys. ... "f" for lexical ("n" is for the    *)
(* above default), "c" for case-folded lexical, or "t" for natural sort      *)
(* order. An additional "r" in that string is for reverse. An additional "v" *)
(* in that string means sort maps by value, rather than by key."             *)
(* "If the second argument is a function, then for arrays it should take two  *)
(* arguments a and b, returning < 0, 0, or > 0 as a < b, a == b, or a > b     *)
(* respectively; for maps the function should take four arguments ak, av, bk, *)
(* and bv".                                                                   *)
(* ------------------------------------------------------------------------ *)
EffFlags(c) == IF c.how = "flags" THEN c.flags ELSE <<>>
InSeq(s, x) == \E i \in 1..Len(s) : s[i] = x
FnType(c) == LET f == EffFlags(c) IN
             IF InSeq(f, "f") THEN "f" ELSE IF InSeq(f, "c") THEN "c" ELSE IF InSeq(f, "t") THEN "t" ELSE "n"
FnRev(c) == InSeq(EffFlags(c), "r")
FnByValue(c) == InSeq(EffFlags(c), "v")
\* what an item (array element, or map entry) is sorted on
SortOn(c, item) == IF c.coll = "array" THEN item ELSE IF FnByValue(c) THEN item[2] ELSE D(item[1])
FnOrdered(c, out) ==
  \E ch \in Choices : \A i, j \in 1..Len(out) : i < j =>
     (IF FnRev(c) THEN ElemCmp(ch, FnType(c), SortOn(c, out[j]), SortOn(c, out[i]))
      ELSE ElemCmp(ch, FnType(c), SortOn(c, out[i]), SortOn(c, out[j]))) <= 0

\* A comparator function: "returning < 0, 0, or > 0 as a < b, a == b, or a > b".  The functions of the case space are
\* a <=> b, b <=> a on array elements and ak <=> bk, bk <=> ak, av <=> bv, bv <=> av on map entries.  <=>: "Given
\* a <=> b, returns <0, 0, >0 as a < b, a == b, or a > b"; <: "String/numeric less-than. Mixing number and string
\* results in string compare."  Map keys are strings ("All Miller map keys are strings").  Nothing is said about
\* booleans.  This comparison is NOT the sorting collation and is not an ordering of every collection (9 < 10,
\* "10" < "5x", "5x" < "9"): the result is required to be ordered by the function when the function orders the
\* elements present consistently (is transitive on them); otherwise it must only be a permutation.
LamRev(lam) == lam \in {"ba", "bkak", "bvav"}
LamOn(c, item) == IF c.coll = "array" THEN item ELSE IF c.lam \in {"avbv", "bvav"} THEN item[2] ELSE <<"s", item[1]>>
Spaceship(a, b) == IF a[1] = "d" /\ b[1] = "d" /\ IsNum(a[2]) /\ IsNum(b[2]) THEN Sign(Row[a[2]].n - Row[b[2]].n)
                   ELSE LexT[a[2], b[2]]
LamConsistent(c, in) ==
  LET E == {LamOn(c, in[i]) : i \in 1..Len(in)} IN
  /\ \A e \in E : e[1] # "b"
  /\ \A x, y \in E : Spaceship(x, y) <= 0 => \A z \in E : Spaceship(y, z) <= 0 => Spaceship(x, z) <= 0
LamOrdered(c, out) ==
  \A i, j \in 1..Len(out) : i < j =>
     (IF LamRev(c.lam) THEN Spaceship(LamOn(c, out[j]), LamOn(c, out[i])) ELSE Spaceship(LamOn(c, out[i]), LamOn(c, out[j]))) <= 0
ValuesOf(c, in) == IF c.coll = "array" THEN in ELSE [i \in 1..Len(in) |-> in[i][2]]
ValidFn(c, in, out) ==
  IF c.fn = "sort" /\ c.how = "lambda" THEN SameBag(out, in) /\ (LamConsistent(c, in) => LamOrdered(c, out))
  ELSE IF c.fn = "sort" THEN SameBag(out, in) /\ FnOrdered(c, out)
  ELSE \* sort_collection: the values, as an array, in the default ascending order
       /\ SameBag(out, ValuesOf(c, in))
       /\ \E ch \in Choices : \A i, j \in 1..Len(out) : i < j => NumCmp(ch, out[i], out[j]) <= 0
\* labels for findings: is a map being sorted by key numerically, and do its keys mix numbers with other texts (or
\* use a non-decimal notation)?
KeyMix(c, in) ==
  IF c.coll = "map" /\ c.fn = "sort" /\ c.how # "lambda" /\ ~FnByValue(c) /\ FnType(c) = "n" THEN
     (IF \A i \in 1..Len(in) : ~IsNum(in[i][1]) THEN "all-strings"
      ELSE IF \A i \in 1..Len(in) : IsNum(in[i][1]) /\ (Len(Row[in[i][1]].ch) < 2 \/ Row[in[i][1]].ch[2] \notin {"x", "b"})
           THEN "all-decimal-numbers"
      ELSE "mixed")
  ELSE "n/a"
\* natural sorting of a collection in which the empty text occurs among the texts sorted on
NaturalWithEmpty(c, in) == c.fn = "sort" /\ c.how # "lambda" /\ FnType(c) = "t" /\ \E i \in 1..Len(in) : SortOn(c, in[i])[2] = ""
WhyFn(c, in, out) ==
  IF ~SameBag(out, ValuesOf([c EXCEPT !.coll = IF c.fn = "sort" THEN "array" ELSE c.coll], in)) THEN "not-a-permutation"
  ELSE IF ~ValidFn(c, in, out) THEN (IF NaturalWithEmpty(c, in) THEN "order:natural-with-empty-text" ELSE "order")
  ELSE "ok"
=============================================================================
