------------------------------ MODULE Inference ------------------------------
(***************************************************************************)
(* Type inference from data (C06) as a recogniser over sequences of         *)
(* one-character tokens, written from the property statement and            *)
(* reference-main-arithmetic.md ("Input scanning") /                        *)
(* reference-main-data-types.md ("Type inference for literal and record     *)
(* data"):                                                                  *)
(*   [sign] digits                      int   (float if it does not fit)    *)
(*   [sign] 0x hex | 0b bin | 0o oct    int   (16 hex digits from 0x8 up:   *)
(*                                             two's complement)            *)
(*   [sign] 0 digits                    string, unless -O (octal / decimal) *)
(*   decimal point / exponent forms     float                               *)
(*   ""                                 empty                               *)
(*   everything else                    string                              *)
(*   -S: all strings; -A: ints become floats; JSON strings never inferred.  *)
(* Classify gives the SET of kinds the documentation allows (a singleton    *)
(* wherever it is definite) and, for definite short ints, the value.        *)
(***************************************************************************)
EXTENDS Integers, Sequences, FiniteSets, TLC

Digits == {"0", "1", "2", "3", "4", "5", "6", "7", "8", "9"}
OctDigits == {"0", "1", "2", "3", "4", "5", "6", "7"}
BinDigits == {"0", "1"}
HexDigits == Digits \cup {"a", "b", "c", "d", "e", "f", "A", "B", "C", "D", "E", "F"}
Signs == {"+", "-"}

AllIn(s, S) == \A i \in 1..Len(s) : s[i] \in S
HasSign(s) == s # <<>> /\ s[1] \in Signs
Unsigned(s) == IF HasSign(s) THEN Tail(s) ELSE s
IsNeg(s) == s # <<>> /\ s[1] = "-"

DigitVal(c) == CASE c = "0" -> 0 [] c = "1" -> 1 [] c = "2" -> 2 [] c = "3" -> 3 [] c = "4" -> 4 [] c = "5" -> 5
                 [] c = "6" -> 6 [] c = "7" -> 7 [] c = "8" -> 8 [] c = "9" -> 9
                 [] c \in {"a", "A"} -> 10 [] c \in {"b", "B"} -> 11 [] c \in {"c", "C"} -> 12
                 [] c \in {"d", "D"} -> 13 [] c \in {"e", "E"} -> 14 [] c \in {"f", "F"} -> 15
\* value of a digit string in a base (only used on short strings: TLC integers are 32-bit)
BaseVal(s, base) == LET F[i \in 0..Len(s)] == IF i = 0 THEN 0 ELSE F[i - 1] * base + DigitVal(s[i]) IN F[Len(s)]
Short(s) == Len(s) <= 7

RECURSIVE StripZeros(_)
StripZeros(d) == IF Len(d) > 1 /\ d[1] = "0" THEN StripZeros(Tail(d)) ELSE d

\* ---- the forms ------------------------------------------------------------------------------
DecInt(u)      == u # <<>> /\ AllIn(u, Digits) /\ (Len(u) = 1 \/ u[1] # "0")
LeadingZero(u) == Len(u) >= 2 /\ AllIn(u, Digits) /\ u[1] = "0"
Prefixed(u, p, S) == Len(u) >= 3 /\ u[1] = "0" /\ u[2] = p /\ AllIn(SubSeq(u, 3, Len(u)), S)
HexLower(u) == Prefixed(u, "x", HexDigits)
BinLower(u) == Prefixed(u, "b", BinDigits)
OctLower(u) == Prefixed(u, "o", OctDigits)
\* upper-case prefixes 0X 0B 0O: the reference only shows the lower-case spellings
UpperPrefixed(u) == Prefixed(u, "X", HexDigits) \/ Prefixed(u, "B", BinDigits) \/ Prefixed(u, "O", OctDigits)

\* mantissa [exponent], with at least a decimal point or an exponent
PosOf(u, S) == IF \E i \in 1..Len(u) : u[i] \in S THEN CHOOSE i \in 1..Len(u) : u[i] \in S /\ \A j \in 1..(i - 1) : u[j] \notin S ELSE 0
Mantissa(m) ==      \* digits | digits . [digits] | . digits
  LET dot == PosOf(m, {"."}) IN
  IF dot = 0 THEN m # <<>> /\ AllIn(m, Digits)
  ELSE LET ip == SubSeq(m, 1, dot - 1)  fp == SubSeq(m, dot + 1, Len(m)) IN
       AllIn(ip, Digits) /\ AllIn(fp, Digits) /\ (ip # <<>> \/ fp # <<>>)
Exponent(x) == LET d == Unsigned(x) IN d # <<>> /\ AllIn(d, Digits)     \* [sign] digits
FloatForm(u) ==
  LET e == PosOf(u, {"e", "E"}) IN
  IF e = 0 THEN PosOf(u, {"."}) # 0 /\ Mantissa(u)
  ELSE Mantissa(SubSeq(u, 1, e - 1)) /\ Exponent(SubSeq(u, e + 1, Len(u)))
\* spellings of floats on whose acceptance the reference is silent: a bare trailing or leading point ("1.", ".5",
\* "1.e3"), exponents of three or more digits (magnitudes at or beyond the range of doubles)
FloatEdge(u) ==
  LET e == PosOf(u, {"e", "E"})
      m == IF e = 0 THEN u ELSE SubSeq(u, 1, e - 1)
      dot == PosOf(m, {"."})
  IN \/ (dot # 0 /\ (dot = 1 \/ dot = Len(m)))
     \/ (e # 0 /\ Len(StripZeros(Unsigned(SubSeq(u, e + 1, Len(u))))) >= 3)

\* does a decimal digit string (no leading zeros) fit in int64?  compare with 9223372036854775807 / ...808
MaxPos == <<"9","2","2","3","3","7","2","0","3","6","8","5","4","7","7","5","8","0","7">>
MaxNeg == <<"9","2","2","3","3","7","2","0","3","6","8","5","4","7","7","5","8","0","8">>
RECURSIVE LexLeq(_, _)
LexLeq(a, b) == IF a = <<>> THEN TRUE
                ELSE IF DigitVal(a[1]) < DigitVal(b[1]) THEN TRUE
                ELSE IF DigitVal(a[1]) > DigitVal(b[1]) THEN FALSE ELSE LexLeq(Tail(a), Tail(b))
FitsDec(u, neg) == Len(u) < 19 \/ (Len(u) = 19 /\ LexLeq(u, IF neg THEN MaxNeg ELSE MaxPos))
NoVal == -1000000
(***************************************************************************)
(* Classify: flags is a set of "-S" "-A" "-O"; src in "field" (DKVP/CSV/...   *)
(* text), "jsonnumber", "jsonstring"                                        *)
(***************************************************************************)
IntOr(flags) == IF "-A" \in flags THEN {"float"} ELSE {"int"}
\* an undocumented region: any of these kinds (with -A an int reading becomes a float reading)
Loose(ks, flags) == IF "-A" \in flags THEN (ks \ {"int"}) \cup {"float"} ELSE ks
Classify(flags, src, s) ==
  LET u == Unsigned(s)
      neg == IsNeg(s)
      sgn == IF neg THEN -1 ELSE 1
      R(ks, v) == [ks |-> ks, v |-> v]
  IN
  IF s = <<>> THEN R({"empty"}, NoVal)
  ELSE IF "-S" \in flags \/ src = "jsonstring" THEN R({"string"}, NoVal)
  ELSE IF DecInt(u) THEN
       (IF FitsDec(u, neg) THEN R(IntOr(flags), IF Short(u) /\ "-A" \notin flags THEN sgn * BaseVal(u, 10) ELSE NoVal)
        ELSE R({"float"}, NoVal))                       \* "integers that do not fit in 64 bits become floats"
  ELSE IF LeadingZero(u) THEN
       (IF "-O" \in flags
        THEN R(IntOr(flags), IF Short(u) /\ "-A" \notin flags
                             THEN sgn * (IF AllIn(u, OctDigits) THEN BaseVal(u, 8) ELSE BaseVal(u, 10)) ELSE NoVal)
        ELSE R({"string"}, NoVal))
  ELSE IF HexLower(u) THEN
       LET d == StripZeros(SubSeq(u, 3, Len(u))) IN
       (IF Len(d) < 16 \/ (Len(d) = 16 /\ ~HasSign(s))
        THEN R(IntOr(flags), IF Short(d) /\ "-A" \notin flags THEN sgn * BaseVal(d, 16) ELSE NoVal)
        ELSE IF Len(d) = 16 THEN R(Loose({"int", "float"}, flags), NoVal)       \* signed 16-digit hex: not documented
        ELSE R({"float", "string"}, NoVal))                                    \* more than 64 bits of hex
  ELSE IF BinLower(u) THEN
       LET d == StripZeros(SubSeq(u, 3, Len(u))) IN
       (IF Len(d) <= 63 THEN R(IntOr(flags), IF Len(d) <= 20 /\ "-A" \notin flags THEN sgn * BaseVal(d, 2) ELSE NoVal)
        \* 64 binary digits and more do not fit in a signed 64-bit integer, and the two's-complement reading is documented
        \* for 16-digit hex only: whatever such a value is taken for, it is not an int (which could only have another value)
        ELSE R(Loose({"float", "string"}, flags), NoVal))
  ELSE IF OctLower(u) THEN
       LET d == StripZeros(SubSeq(u, 3, Len(u))) IN
       (IF Len(d) <= 20 THEN R(IntOr(flags), IF Short(d) /\ "-A" \notin flags THEN sgn * BaseVal(d, 8) ELSE NoVal)
        ELSE IF Len(d) = 21 THEN R(Loose({"int", "float", "string"}, flags), NoVal)
        ELSE R(Loose({"float", "string"}, flags), NoVal))                      \* 22 octal digits and more: at least 64 bits
  ELSE IF UpperPrefixed(u) THEN R(Loose({"int", "float", "string"}, flags), NoVal)
  ELSE IF FloatForm(u) THEN (IF FloatEdge(u) THEN R({"float", "string"}, NoVal) ELSE R({"float"}, NoVal))
  ELSE R({"string"}, NoVal)

(***************************************************************************)
(* A second, declarative formulation for short strings, to guard the        *)
(* recogniser itself (InferenceMC): membership in explicitly built sets.    *)
(***************************************************************************)
Definite(flags, src, s) == Cardinality(Classify(flags, src, s).ks) = 1

\* What the observable functions must say, as a function of Classify: typeof names, and x + 0
TypeofOK(c, t) == t \in c.ks
\* arithmetic agrees: x + 0 is a number of that kind for numbers, an error for strings, and for an empty x the 0
PlusZeroOK(c, t, tplus) ==
  CASE t = "int"    -> tplus = "int"
    [] t = "float"  -> tplus = "float"
    [] t = "string" -> tplus = "error"
    [] t = "empty"  -> tplus = "int"
    [] OTHER -> FALSE
ValueOK(c, t, vplus) == (t = "int" /\ c.v # NoVal) => vplus = ToString(c.v)
PredsOK(t, isint, isfloat, isstring, isempty) ==
  /\ isint = (t = "int") /\ isfloat = (t = "float")
  /\ isstring = (t \in {"string", "empty"}) /\ isempty = (t = "empty")
=============================================================================
