----------------------------- MODULE InferenceGen -----------------------------
(* Emits the case space of C06: the token alphabet (all strings up to a bound are formed by the harness as the  *)
(* plain cartesian product), the boundary spellings, the flag sets and the sources.                            *)
EXTENDS Inference, Json, SequencesExt
VARIABLE x
Init == x = 0
Next == UNCHANGED x
Alphabet == {"0", "1", "7", "8", "9", "+", "-", ".", "e", "E", "x", "X", "o", "O", "b", "B", "a", "f", "A", "F", "_", " "}
Boundary == {
  "9223372036854775807", "9223372036854775808", "-9223372036854775808", "-9223372036854775809", "+9223372036854775807",
  "99999999999999999999", "-99999999999999999999", "18446744073709551615", "18446744073709551616",
  "0x7fffffffffffffff", "0x8000000000000000", "0xffffffffffffffff", "0x10000000000000000", "0xfffffffffffffffff",
  "-0x7fffffffffffffff", "-0x8000000000000000", "0x0000000000000000ff",
  "0b111111111111111111111111111111111111111111111111111111111111111", "0o777777777777777777777", "0o1777777777777777777777",
  "1e308", "1e309", "-1e309", "1e-320", "1e-400", "4.9e-324", "1.7976931348623157e308", "0.000000000000000000001",
  "123456789012345678", "1234567890123456789012", "1.2345678901234567890123", "007", "-007", "+007", "0089", "08", "0.7", "00.7", "-00.7",
  "1e5", "1E5", "1e+5", "1e-5", "1.e5", ".1e5", "1e05", "inf", "+inf", "-inf", "Inf", "infinity", "NaN", "nan", "true", "false",
  "1_000", "1,5", "0x", "0b", "0o", "0x1g", "0b12", "0o18", "1 ", " 1", "1 2", "--1", "+-1", "1-", "1e", "1e+", "e5", ".", "-", "+", "-.", "1..2",
  "0x1.8p3", "1d5", "1f", "0xFF", "0XFF", "0Xff", "1/2", "1:2", "abc", "0xabcdefg" }
\* hexadecimal digits are letters of either case: the 15- and 16-digit spellings (the latter reach bit 63, "0x8000000000000000 ..
\* 0xffffffffffffffff are two's-complement negative ints") under every leading digit of both cases
HexFirst == {"1", "7", "8", "9", "a", "A", "b", "B", "c", "C", "d", "D", "e", "E", "f", "F"}
HexRest15 == {"000000000000000", "fffffffffffffff", "FFFFFFFFFFFFFFF", "bcdef0123456789", "BCDEF0123456789"}
HexEdge == {"0x" \o d \o r : d \in HexFirst, r \in HexRest15} \cup {"0x" \o r : r \in HexRest15}
           \cup {"-0x" \o d \o "000000000000000" : d \in {"7", "8", "F", "f"}}
\* binary and octal spellings at the 64-bit boundary (63 / 64 / 65 binary digits, 21 / 22 octal digits), both signs
Rep(c, n) == [i \in 1..n |-> c]
RECURSIVE Cat(_)
Cat(q) == IF q = <<>> THEN "" ELSE q[1] \o Cat(Tail(q))
BinOctEdge == LET ones(n) == Cat(Rep("1", n))  zeros(n) == Cat(Rep("0", n))  sevens(n) == Cat(Rep("7", n))
                  mags == {"0b" \o ones(63), "0b" \o ones(64), "0b1" \o zeros(63), "0b1" \o zeros(64), "0b0" \o ones(63), "0b" \o ones(65),
                           "0o" \o sevens(21), "0o1" \o zeros(21), "0o1" \o sevens(21), "0o2" \o zeros(21), "0o" \o sevens(22), "0o7" \o zeros(20)}
              IN mags \cup {"-" \o m : m \in mags} \cup {"+" \o m : m \in mags}
FlagSets == { {}, {"-S"}, {"-A"}, {"-O"} }      \* (the effect of combining inference flags is not documented)
Sources == {"field", "jsonnumber", "jsonstring"}
Emit == PrintT(ToJson([alphabet |-> SetToSeq(Alphabet), boundary |-> SetToSeq(Boundary \cup HexEdge \cup BinOctEdge),
                        flagsets |-> SetToSeq({SetToSeq(f) : f \in FlagSets}), sources |-> SetToSeq(Sources)]))
=============================================================================
