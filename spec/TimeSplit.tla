------------------------------ MODULE TimeSplit ------------------------------
(***************************************************************************)
(* The d/h/m/s splitters of C16: sec2dhms, fsec2dhms, sec2hms, fsec2hms     *)
(* and their inverses dhms2sec, dhms2fsec, hms2sec, hms2fsec, on integers.  *)
(*                                                                          *)
(* A duration is <<sg, d, r>>: sign sg (1 or -1), d whole days (>= 0) and   *)
(* r seconds of the last day (0..86399); its value is sg * (d*86400 + r).   *)
(* (As for instants, the NUMBER only ever exists as decimal text, so the    *)
(* range is not limited by TLC's 32-bit integers.)                          *)
(*                                                                          *)
(* What the documentation fixes (function help texts; "Special case: dhms   *)
(* and seconds" in parsing-and-formatting-fields.md; kubectl-and-helm.md):  *)
(*   sec2dhms(500000) = "5d18h53m20s", 1 -> "1s", 100 -> "1m40s",           *)
(*   10000 -> "2h46m40s", 1000000 -> "11d13h46m40s": leading zero units are *)
(*   dropped.  No example shows an inner unit below ten, so both "1m05s"    *)
(*   and "1m5s" are admitted.                                               *)
(*   fsec2dhms(500000.25) = "5d18h53m20.250000s": six decimals; whether     *)
(*   leading zero units are dropped is not shown: both admitted.            *)
(*   sec2hms(5000) = "01:23:20", fsec2hms(5000.25) = "01:23:20.250000".     *)
(*   dhms2sec("5d18h53m20s") = 500000, "6h22m" -> 22920, "8h" -> 28800;     *)
(*   hms2sec("01:23:20") = 5000; dhms2fsec / hms2fsec likewise with six     *)
(*   decimals.                                                              *)
(* Nothing is said about how negative durations are written: for those the  *)
(* texts are unconstrained and only the property's own demand is judged,    *)
(* that each parser inverts its formatter.                                  *)
(***************************************************************************)
EXTENDS Calendar

Split(r) == [h |-> r \div 3600, m |-> (r % 3600) \div 60, s |-> r % 60]
Join(d, p) == ((d * 24 + p.h) * 60 + p.m) * 60 + p.s          \* only evaluated where it fits 32 bits (TimeSplit laws)
ValidSplit(p) == p.h \in 0..23 /\ p.m \in 0..59 /\ p.s \in 0..59

\* decimal text of the value
DurText(sg, d, r) == (IF sg < 0 THEN "-" ELSE "") \o NatText(d, r)
\* the same value spelled as a float (for the f-functions' float argument)
DurFloatText(sg, d, r) == DurText(sg, d, r) \o ".0"

\* the d/h/m/s text of a non-negative duration; drop: leading zero units are dropped; pad: inner units have two
\* digits; sfx: "" or ".000000" after the seconds
DhmsText(d, r, drop, pad, sfx) ==
  LET p == Split(r)
      N(x) == IF pad THEN Pad(x, 2) ELSE ToString(x)
      ss(first) == (IF first THEN ToString(p.s) ELSE N(p.s)) \o sfx \o "s"
      mm(first) == (IF first THEN ToString(p.m) ELSE N(p.m)) \o "m" \o ss(FALSE)
      hh(first) == (IF first THEN ToString(p.h) ELSE N(p.h)) \o "h" \o mm(FALSE)
  IN IF d > 0 \/ ~drop THEN ToString(d) \o "d" \o hh(FALSE)
     ELSE IF p.h > 0 THEN hh(TRUE)
     ELSE IF p.m > 0 THEN mm(TRUE)
     ELSE ss(TRUE)
Sec2dhmsTexts(d, r)  == {DhmsText(d, r, TRUE, pad, "") : pad \in BOOLEAN}
Fsec2dhmsTexts(d, r) == {DhmsText(d, r, drop, pad, ".000000") : drop \in BOOLEAN, pad \in BOOLEAN}
\* hours are not reduced modulo anything: 100 hours is "100:00:00"
HmsText(d, r, sfx) == LET p == Split(r) IN Pad(d * 24 + p.h, 2) \o ":" \o Pad(p.m, 2) \o ":" \o Pad(p.s, 2) \o sfx
\* the kubectl AGE style the reference feeds to dhms2sec ("6h22m", "8h"): from the highest non-zero unit down to the
\* lowest non-zero unit, no padding
ShortDhms(d, r) ==
  LET p == Split(r)
      lowest == IF p.s > 0 THEN 4 ELSE IF p.m > 0 THEN 3 ELSE IF p.h > 0 THEN 2 ELSE 1
      highest == IF d > 0 THEN 1 ELSE IF p.h > 0 THEN 2 ELSE IF p.m > 0 THEN 3 ELSE 4
      U(i, v, u) == IF i >= highest /\ i <= lowest THEN ToString(v) \o u ELSE ""
  IN U(1, d, "d") \o U(2, p.h, "h") \o U(3, p.m, "m") \o U(4, p.s, "s")
\* is every inner unit of the short form written the same way by every reading (>= 10, so padding cannot matter)?
ShortUnambiguous(d, r) ==
  LET p == Split(r)
      highest == IF d > 0 THEN 1 ELSE IF p.h > 0 THEN 2 ELSE IF p.m > 0 THEN 3 ELSE 4
      lowest == IF p.s > 0 THEN 4 ELSE IF p.m > 0 THEN 3 ELSE IF p.h > 0 THEN 2 ELSE 1
      inner(i, v) == (i > highest /\ i <= lowest) => v >= 10
  IN (d > 0 \/ r > 0) /\ inner(2, p.h) /\ inner(3, p.m) /\ inner(4, p.s)
=============================================================================
