--------------------------- MODULE VerbsAggregate ---------------------------
(***************************************************************************)
(* The aggregating verbs (C10), written from reference-verbs.md (help texts *)
(* and worked examples), reference-main-null-data.md and                    *)
(* reference-dsl-builtin-functions.md (percentile examples).  Every          *)
(* quantity is a definition over the WHOLE input stream (set / sequence      *)
(* comprehensions): the first-principles recomputation the property talks    *)
(* about.  The implementation streams.                                       *)
(*                                                                           *)
(* A case is [c |-> configuration, s |-> stream].  A configuration is        *)
(*   [v |-> verb, g |-> group-by names, f |-> value-field names,             *)
(*    a |-> accumulators / steppers as [k |-> name, p |-> number],           *)
(*    n |-> count, o |-> further command-line words, verbatim].              *)
(*                                                                           *)
(* The expectation is a PATTERN: a sequence of [opt, p] where p is a         *)
(* sequence of <<key, value, kind>>.  kind "req": the field is there with    *)
(* exactly that text.  kind "opt": the documentation does not say whether    *)
(* the field is written, but if it is its text is fixed.  kind "any": the    *)
(* documentation fixes neither presence nor text (empty accumulations,       *)
(* arithmetic on non-numeric text, values that are not exact decimals).      *)
(* A pattern record with opt = TRUE may be left out of the output.           *)
(* Verbs whose output order the documentation leaves open (ties of           *)
(* most-frequent / top -a, records held back by shift_lead) have their own   *)
(* predicates in Allowed.                                                    *)
(***************************************************************************)
EXTENDS Records, TLC

\* ---------------------------------------------------------------- numerals
IntRange == -20..120
NumOf == [t \in {ToString(n) : n \in IntRange} |-> CHOOSE n \in IntRange : ToString(n) = t]
IsNum(t) == t \in DOMAIN NumOf

\* "In case of mixed data, numbers are less than strings."  The order among different non-numeric texts is not
\* modelled (OneText below keeps such bags out of the decided part).
LeV(a, b) == IF IsNum(a) THEN (IF IsNum(b) THEN NumOf[a] <= NumOf[b] ELSE TRUE)
             ELSE (IF IsNum(b) THEN FALSE ELSE a = b)
LtV(a, b) == LeV(a, b) /\ ~LeV(b, a)

\* ---------------------------------------------------------------- options
HasOpt(c, w) == \E i \in 1..Len(c.o) : c.o[i] = w
OptVal(c, w, dflt) == IF \E i \in 1..(Len(c.o) - 1) : c.o[i] = w
                      THEN c.o[(CHOOSE i \in 1..(Len(c.o) - 1) : c.o[i] = w) + 1] ELSE dflt

\* ---------------------------------------------------------------- patterns
Req(k, v) == <<k, v, "req">>
Opt(k, v) == <<k, v, "opt">>
AnyV(k)    == <<k, "", "any">>
Rec(p)    == [opt |-> FALSE, alts |-> {p}]
OptRec(p) == [opt |-> TRUE, alts |-> {p}]
GPairs(g, k) == [i \in 1..Len(g) |-> Req(g[i], k[i])]
AsReq(r) == [i \in 1..Len(r) |-> Req(r[i][1], r[i][2])]

RecMatch(p, r) ==
  LET q == SelIdx(p, LAMBDA i : p[i][3] = "req" \/ Has(r, p[i][1])) IN
  /\ Len(q) = Len(r)
  /\ \A i \in 1..Len(r) : q[i][1] = r[i][1] /\ (q[i][3] = "any" \/ q[i][2] = r[i][2])
RECURSIVE Match(_, _)
Match(pat, out) ==
  IF pat = <<>> THEN out = <<>>
  ELSE \/ (out # <<>> /\ (\E p \in Head(pat).alts : RecMatch(p, Head(out))) /\ Match(Tail(pat), Tail(out)))
       \/ (Head(pat).opt /\ Match(Tail(pat), out))
\* a pattern record is optional when nothing but group-by fields is required of it
\* blocks: one sequence of fields per value field; the documentation's examples show them in the order of -f with data
\* that has the fields in that order too, so the order of the blocks is left open
OrdersOf(n) == {q \in [1..n -> 1..n] : \A i, j \in 1..n : i # j => q[i] # q[j]}
OptIfNothingRequired(gp, blocks) ==
  LET rest == Flatten1(blocks) IN
  [opt |-> ~\E i \in 1..Len(rest) : rest[i][3] = "req",
   alts |-> {gp \o Flatten1([m \in 1..Len(blocks) |-> blocks[q[m]]]) : q \in OrdersOf(Len(blocks))}]

\* ---------------------------------------------------------------- groups
InGroup(s, g, k, i) == HasAll(s[i], g) /\ GroupKey(s[i], g) = k
\* the distinct group keys in the order in which they first appear
GroupKeys(s, g) ==
  LET firsts == IdxWhere(s, LAMBDA i : HasAll(s[i], g) /\ \A j \in 1..(i - 1) : ~InGroup(s, g, GroupKey(s[i], g), j))
  IN [n \in 1..Len(firsts) |-> GroupKey(s[firsts[n]], g)]
\* "first-appearance order" can be read over the records having the group-by fields (go = "keyed") or over those that also
\* have one of the value fields fs, i.e. contribute (go = "contributing"); both are accepted
GroupKeysBy(s, g, fs, go) ==
  LET counts(i) == HasAll(s[i], g) /\ (go = "keyed" \/ \E m \in 1..Len(fs) : Has(s[i], fs[m]))
      firsts == IdxWhere(s, LAMBDA i : counts(i) /\ \A j \in 1..(i - 1) : ~(counts(j) /\ GroupKey(s[j], g) = GroupKey(s[i], g)))
  IN [n \in 1..Len(firsts) |-> GroupKey(s[firsts[n]], g)]
GroupOrders == {"keyed", "contributing"}
GroupCount(s, g, k) == Cardinality({i \in 1..Len(s) : InGroup(s, g, k, i)})
\* the texts of field f in the records of group k that have f, in input order
Vals(s, g, k, f) ==
  LET idx == IdxWhere(s, LAMBDA i : InGroup(s, g, k, i) /\ Has(s[i], f)) IN [n \in 1..Len(idx) |-> Get(s[idx[n]], f)]

\* the indices of the records of i's group (i has the group-by fields)
GIdx(s, g, i) == IdxWhere(s, LAMBDA j : SameGroup(s, g, i, j))
PosIn(idx, i) == CHOOSE n \in 1..Len(idx) : idx[n] = i

\* ---------------------------------------------------------------- accumulators over a sequence of texts
\* reference-main-null-data.md: an empty value is the CSV way of a missing one, "the sum should simply continue":
\* empty texts take part in null_count only.
Bag(vs) == SelIdx(vs, LAMBDA i : vs[i] # "")
AllNum(b) == \A i \in 1..Len(b) : IsNum(b[i])
OneText(b) == Cardinality({b[i] : i \in {j \in 1..Len(b) : ~IsNum(b[j])}}) <= 1
SumN(b) == LET F[i \in 0..Len(b)] == IF i = 0 THEN 0 ELSE F[i - 1] + NumOf[b[i]] IN F[Len(b)]
ProdN(b) == LET F[i \in 0..Len(b)] == IF i = 0 THEN 1 ELSE F[i - 1] * NumOf[b[i]] IN F[Len(b)]
Mult(b, i) == Cardinality({j \in 1..Len(b) : b[j] = b[i]})
\* "When there are mode ties, the first-encountered datum wins."
Mode(b) == b[CHOOSE i \in 1..Len(b) : (\A j \in 1..Len(b) : Mult(b, j) <= Mult(b, i)) /\ (\A j \in 1..(i - 1) : Mult(b, j) < Mult(b, i))]
AntiMode(b) == b[CHOOSE i \in 1..Len(b) : (\A j \in 1..Len(b) : Mult(b, j) >= Mult(b, i)) /\ (\A j \in 1..(i - 1) : Mult(b, j) > Mult(b, i))]
MinV(b) == b[CHOOSE i \in 1..Len(b) : \A j \in 1..Len(b) : LeV(b[i], b[j])]
MaxV(b) == b[CHOOSE i \in 1..Len(b) : \A j \in 1..Len(b) : LeV(b[j], b[i])]
MinLen(b) == CHOOSE n \in {Len(b[i]) : i \in 1..Len(b)} : \A i \in 1..Len(b) : n <= Len(b[i])
MaxLen_(b) == CHOOSE n \in {Len(b[i]) : i \in 1..Len(b)} : \A i \in 1..Len(b) : n >= Len(b[i])
\* the element at 0-based position k of b sorted ascending (equal elements have equal texts in the decided part)
SortedAt(b, k) ==
  b[CHOOSE i \in 1..Len(b) : /\ Cardinality({j \in 1..Len(b) : LtV(b[j], b[i])}) <= k
                             /\ k < Cardinality({j \in 1..Len(b) : LeV(b[j], b[i])})]
\* non-interpolated percentile: the element at 0-based index floor(p*n/100), clamped to the last one
\* (median([3,4,5,6,9,10]) is 6; percentiles(..., [25,75]) is 4, 9; p0 = min, p100 = max)
PctIndex(p, n) == IF (p * n) \div 100 >= n THEN n - 1 ELSE (p * n) \div 100
Percentile(b, p) == SortedAt(b, PctIndex(p, Len(b)))
\* n / d as text when it is an integer or a half
Halves(n, d) == (2 * n) % d = 0
Abs(n) == IF n < 0 THEN -n ELSE n
QuotText(n, d) == IF n % d = 0 THEN ToString(n \div d)
                  ELSE (IF n < 0 THEN "-" ELSE "") \o ToString(Abs(n) \div d) \o ".5"

AccName(a) == IF a.k = "p" THEN "p" \o ToString(a.p) ELSE a.k
\* does the documentation fix the value of accumulator a over the texts vs?
Determined(a, vs) ==
  LET b == Bag(vs) IN
  CASE a.k \in {"count", "null_count", "distinct_count"} -> TRUE
    [] a.k = "sum" -> AllNum(b)
    [] a.k = "mean" -> b # <<>> /\ AllNum(b) /\ Halves(SumN(b), Len(b))
    [] a.k \in {"mode", "antimode", "minlen", "maxlen"} -> b # <<>>
    [] a.k \in {"min", "max", "median", "p"} -> b # <<>> /\ OneText(b)
    [] OTHER -> FALSE
AccValue(a, vs) ==
  LET b == Bag(vs) IN
  CASE a.k = "count" -> ToString(Len(b))
    [] a.k = "null_count" -> ToString(Cardinality({i \in 1..Len(vs) : vs[i] = ""}))
    [] a.k = "distinct_count" -> ToString(Cardinality({b[i] : i \in 1..Len(b)}))
    [] a.k = "sum" -> ToString(SumN(b))
    [] a.k = "mean" -> QuotText(SumN(b), Len(b))
    [] a.k = "mode" -> Mode(b)
    [] a.k = "antimode" -> AntiMode(b)
    [] a.k = "minlen" -> ToString(MinLen(b))
    [] a.k = "maxlen" -> ToString(MaxLen_(b))
    [] a.k = "min" -> MinV(b)
    [] a.k = "max" -> MaxV(b)
    [] a.k = "median" -> Percentile(b, 50)
    [] a.k = "p" -> Percentile(b, a.p)
\* the output fields <prefix>_<accumulator> for one accumulation
AccPairs(prefix, accs, vs) ==
  [m \in 1..Len(accs) |->
     LET a == accs[m]  key == prefix \o "_" \o AccName(a) IN
     IF ~Determined(a, vs) THEN AnyV(key)
     ELSE IF Bag(vs) = <<>> THEN Opt(key, AccValue(a, vs))   \* nothing accumulated: whether anything is written is not documented
     ELSE Req(key, AccValue(a, vs))]

\* ---------------------------------------------------------------- count, count-distinct, uniq -g
CountRec(g, k, name, n) == Rec(GPairs(g, k) \o <<Req(name, ToString(n))>>)
ExpCount(c, s) ==
  LET name == OptVal(c, "-o", "count")  ks == GroupKeys(s, c.g) IN
  IF c.g = <<>> THEN << Rec(<<Req(name, ToString(Len(s)))>>) >>
  ELSE IF HasOpt(c, "-n") THEN << Rec(<<Req(name, ToString(Len(ks)))>>) >>
  ELSE [n \in 1..Len(ks) |-> CountRec(c.g, ks[n], name, GroupCount(s, c.g, ks[n]))]
ExpCountDistinct(c, s) ==
  LET name == OptVal(c, "-o", "count")  ks == GroupKeys(s, c.g) IN
  IF HasOpt(c, "-n") THEN << Rec(<<Req("count", ToString(Len(ks)))>>) >>
  ELSE IF HasOpt(c, "-u") THEN        \* "counts for distinct a field values and counts for distinct b field values separately"
    Flatten1([m \in 1..Len(c.g) |->
       LET f == <<c.g[m]>>  fk == GroupKeys(s, f) IN
       [n \in 1..Len(fk) |-> Rec(<<Req("field", c.g[m]), Req("value", fk[n][1]), Req("count", ToString(GroupCount(s, f, fk[n])))>>)]])
  ELSE [n \in 1..Len(ks) |-> CountRec(c.g, ks[n], name, GroupCount(s, c.g, ks[n]))]
ExpUniq(c, s) ==        \* "Output fields are written in the order in which they are named with -g"
  LET name == OptVal(c, "-o", "count")  ks == GroupKeys(s, c.g) IN
  IF HasOpt(c, "-n") THEN << Rec(<<Req("count", ToString(Len(ks)))>>) >>
  ELSE IF HasOpt(c, "-c") THEN [n \in 1..Len(ks) |-> CountRec(c.g, ks[n], name, GroupCount(s, c.g, ks[n]))]
  ELSE [n \in 1..Len(ks) |-> Rec(GPairs(c.g, ks[n]))]

\* ---------------------------------------------------------------- stats1
\* one record per group (first-appearance order): group-by fields, then for each value field its accumulators in -a order
ExpStats1(c, s, go) ==
  LET ks == GroupKeysBy(s, c.g, c.f, go) IN
  [n \in 1..Len(ks) |->
     OptIfNothingRequired(GPairs(c.g, ks[n]), [m \in 1..Len(c.f) |-> AccPairs(c.f[m], c.a, Vals(s, c.g, ks[n], c.f[m]))])]

\* stats1 -w n: "compute statistics over a trailing window of up to n records (including the current one) ... Windows are kept
\* per group when -g is used.  One output record is emitted per input record, with the windowed statistics appended to it."
\* The window can be read as the last n records of the group (rd = "records") or the last n of them having the value field
\* (rd = "contributing"); what happens to a record lacking a group-by field is not documented (dropped or passed unchanged).
ExpStats1W(c, s, rd) ==
  [i \in 1..Len(s) |->
     IF ~HasAll(s[i], c.g) THEN OptRec(AsReq(s[i]))
     ELSE LET G == GIdx(s, c.g, i)
              upto == SelIdx(G, LAMBDA n : G[n] <= i)
              blocks == [m \in 1..Len(c.f) |->
                 LET f == c.f[m]
                     cand == IF rd = "records" THEN upto ELSE SelIdx(upto, LAMBDA n : Has(s[upto[n]], f))
                     w == IF Len(cand) <= c.n THEN cand ELSE SubSeq(cand, Len(cand) - c.n + 1, Len(cand))
                     have == SelIdx(w, LAMBDA n : Has(s[w[n]], f))
                 IN AccPairs(f, c.a, [n \in 1..Len(have) |-> Get(s[have[n]], f)])]
          IN [opt |-> FALSE, alts |-> {AsReq(s[i]) \o Flatten1([m \in 1..Len(blocks) |-> blocks[q[m]]]) : q \in OrdersOf(Len(blocks))}]]

\* stats1 -s: "Print iterative stats": one output record per input record, with the statistics of its group over the records
\* read so far (including the current one) appended -- the window of -w without a bound.
ExpStats1S(c, s) == ExpStats1W([c EXCEPT !.n = Len(s) + 1], s, "records")

\* ---------------------------------------------------------------- merge-fields -f / -r (the harness derives the regex ^(x|y)$ from
\* the names) / -c (collapse names are given as a table: field name -> name after removing the substring)
Named(c, k) == \E m \in 1..Len(c.f) : c.f[m] = k
ExpMergeRec(c, r) ==
  LET vs == LET idx == IdxWhere(r, LAMBDA i : Named(c, r[i][1])) IN [n \in 1..Len(idx) |-> r[idx[n]][2]]
      kept == IF HasOpt(c, "-k") THEN r ELSE SelIdx(r, LAMBDA i : ~Named(c, r[i][1]))
  IN Rec(AsReq(kept) \o AccPairs(OptVal(c, "-o", "out"), c.a, vs))
ExpMerge(c, s) == [i \in 1..Len(s) |-> ExpMergeRec(c, s[i])]
\* collapse mode with the substrings "_in", "_out": a_in, a_out -> a; b_in, b_out -> b; other names are not touched
CollapseOf(k) == CASE k \in {"a_in", "a_out"} -> "a" [] k \in {"b_in", "b_out"} -> "b" [] OTHER -> ""
ExpMergeCollapseRec(c, r) ==
  LET idx == IdxWhere(r, LAMBDA i : CollapseOf(r[i][1]) # "")
      shorts == LET fi == SelIdx(idx, LAMBDA n : \A m \in 1..(n - 1) : CollapseOf(r[idx[m]][1]) # CollapseOf(r[idx[n]][1]))
                IN [n \in 1..Len(fi) |-> CollapseOf(r[fi[n]][1])]
      kept == IF HasOpt(c, "-k") THEN r ELSE SelIdx(r, LAMBDA i : CollapseOf(r[i][1]) = "")
      vsOf(sh) == LET ii == SelIdx(idx, LAMBDA n : CollapseOf(r[idx[n]][1]) = sh) IN [n \in 1..Len(ii) |-> r[ii[n]][2]]
  IN Rec(AsReq(kept) \o Flatten1([n \in 1..Len(shorts) |-> AccPairs(shorts[n], c.a, vsOf(shorts[n]))]))
ExpMergeCollapse(c, s) == [i \in 1..Len(s) |-> ExpMergeCollapseRec(c, s[i])]

\* ---------------------------------------------------------------- step
\* The documentation says "from the previous record", "between successive records".  When a record of the group lacks the
\* value field there are two readings: rd.lag = "skip" (the property's: such a record is left out of the accumulation, the
\* previous record is the previous one HAVING the field) and rd.lag = "literal" (the record just before in the group; if it
\* lacks the field there is no previous value).  For counts n >= 2 across such a gap nothing is decided.  The name of the
\* from-first output field is not documented: rd.ff is "x_from-first" or "x_from_first" style.
StepName(a, rd) == IF a.k = "from-first" THEN rd.ff
                   ELSE IF a.p = 0 THEN a.k ELSE a.k \o "_" \o ToString(a.p)
StepCount(a) == IF a.p = 0 THEN 1 ELSE a.p
IsLead(a) == a.k = "shift_lead"
StepValue(a, s, g, f, i, rd) ==     \* <<text, decided>>
  LET G == GIdx(s, g, i)
      Gf == SelIdx(G, LAMBDA n : Has(s[G[n]], f))
      gap == Len(Gf) # Len(G)
      pf == PosIn(Gf, i)
      pg == PosIn(G, i)
      x(j) == NumOf[Get(s[j], f)]
      upto == [n \in 1..pf |-> Get(s[Gf[n]], f)]
      k == StepCount(a)
      \* the record k back (dir = -1) or k forward (dir = 1) under the reading; 0 if there is none
      other(dir) == IF rd.lag = "skip" \/ ~gap
                    THEN (IF pf + dir * k \in 1..Len(Gf) THEN Gf[pf + dir * k] ELSE 0)
                    ELSE (IF pg + dir * k \in 1..Len(G) /\ Has(s[G[pg + dir * k]], f) THEN G[pg + dir * k] ELSE 0)
      decided == ~gap \/ k = 1
  IN CASE a.k = "counter" -> <<ToString(pf), TRUE>>
       [] a.k = "rsum" -> <<ToString(SumN(upto)), TRUE>>
       [] a.k = "rprod" -> <<ToString(ProdN(upto)), TRUE>>
       [] a.k = "from-first" -> <<ToString(x(i) - x(Gf[1])), TRUE>>
       [] a.k \in {"shift", "shift_lag"} -> <<IF other(-1) = 0 THEN "" ELSE Get(s[other(-1)], f), decided>>
       [] a.k = "shift_lead" -> <<IF other(1) = 0 THEN "" ELSE Get(s[other(1)], f), decided>>
       [] a.k = "delta" -> <<IF other(-1) = 0 THEN "0" ELSE ToString(x(i) - x(other(-1))), decided>>
ExpStepRec(c, s, i, rd) ==
  IF ~HasAll(s[i], c.g) THEN Rec(AsReq(s[i]))
  ELSE Rec(AsReq(s[i]) \o Flatten1([m \in 1..Len(c.f) |->
         IF ~Has(s[i], c.f[m]) THEN <<>>
         ELSE [n \in 1..Len(c.a) |->
                LET v == StepValue(c.a[n], s, c.g, c.f[m], i, rd)  key == c.f[m] \o "_" \o StepName(c.a[n], rd)
                IN IF v[2] THEN Req(key, v[1]) ELSE AnyV(key)]]))
ExpStep(c, s, rd) == [i \in 1..Len(s) |-> ExpStepRec(c, s, i, rd)]
StepReadings == [lag : {"skip", "literal"}, ff : {"from-first", "from_first"}]
HasLead(c) == \E n \in 1..Len(c.a) : IsLead(c.a[n])
\* with a forward-looking stepper records are held back until their successors are seen; the documentation says nothing about
\* the resulting order, so only the order within each group (and among the records lacking a group-by field) is required
RECURSIVE MatchBag(_, _)
MatchBag(pat, out) ==       \* some arrangement of out matches pat record by record
  IF pat = <<>> THEN out = <<>>
  ELSE \E j \in 1..Len(out) : (\E p \in Head(pat).alts : RecMatch(p, out[j])) /\ MatchBag(Tail(pat), SelIdx(out, LAMBDA m : m # j))
AllowedStep(c, s, out) ==
  \E rd \in StepReadings :
    LET pat == ExpStep(c, s, rd) IN
    IF ~HasLead(c) THEN Match(pat, out)
    ELSE /\ Len(out) = Len(s)
         /\ MatchBag(pat, out)
         /\ \A i \in 1..Len(s) :
              LET mine(r) == IF HasAll(s[i], c.g) THEN HasAll(r, c.g) /\ GroupKey(r, c.g) = GroupKey(s[i], c.g) ELSE ~HasAll(r, c.g)
              IN Match(SelIdx(pat, LAMBDA j : mine(s[j])), SelIdx(out, LAMBDA j : mine(out[j])))

\* ---------------------------------------------------------------- count-similar
\* "emits each record augmented by a count": records batched by group in first-appearance order (worked example); what happens
\* to records lacking a group-by field is not documented: they may be dropped or passed along unchanged.
AllowedCountSimilar(c, s, out) ==
  LET name == OptVal(c, "-o", "count")
      keyedIdx == IdxWhere(s, LAMBDA i : HasAll(s[i], c.g))
      want == Grouped(s, c.g)
      countOf(r) == Cardinality({i \in 1..Len(s) : HasAll(s[i], c.g) /\ GroupKey(s[i], c.g) = GroupKey(r, c.g)})
  IN /\ SelIdx(out, LAMBDA j : HasAll(out[j], c.g)) = [n \in 1..Len(want) |-> want[n] \o <<<<name, ToString(countOf(want[n]))>>>>]
     /\ SubBag(SelIdx(out, LAMBDA j : ~HasAll(out[j], c.g)), SelIdx(s, LAMBDA i : ~HasAll(s[i], c.g)))

\* ---------------------------------------------------------------- most-frequent / least-frequent
\* "the most frequently occurring distinct values ... The first entry is the statistical mode; the remaining are runners-up";
\* -n maximum number of results; -b no counts.  The order among equally frequent values is not documented.
AllowedFrequent(c, s, out) ==
  LET name == OptVal(c, "-o", "count")
      ks == GroupKeys(s, c.g)
      most == c.v = "most-frequent"
      cnt(k) == GroupCount(s, c.g, k)
      better(a, b) == IF most THEN a > b ELSE a < b
      keyOf(r) == [i \in 1..Len(c.g) |-> r[i][2]]
      width == IF HasOpt(c, "-b") THEN Len(c.g) ELSE Len(c.g) + 1
  IN /\ Len(out) = (IF Len(ks) < c.n THEN Len(ks) ELSE c.n)
     /\ \A j \in 1..Len(out) :
          /\ Len(out[j]) = width
          /\ \A i \in 1..Len(c.g) : out[j][i][1] = c.g[i]
          /\ \E n \in 1..Len(ks) : ks[n] = keyOf(out[j])
          /\ HasOpt(c, "-b") \/ out[j][width] = <<name, ToString(cnt(keyOf(out[j])))>>
     /\ \A j1, j2 \in 1..Len(out) : j1 < j2 => keyOf(out[j1]) # keyOf(out[j2]) /\ ~better(cnt(keyOf(out[j2])), cnt(keyOf(out[j1])))
     /\ \A n \in 1..Len(ks) : (\A j \in 1..Len(out) : keyOf(out[j]) # ks[n]) =>
                                \A j \in 1..Len(out) : ~better(cnt(ks[n]), cnt(keyOf(out[j])))

\* ---------------------------------------------------------------- top (integer data)
\* the values of field f in group k sorted from the top (largest first, or smallest first with --min), at most c.n of them
TopVals(c, s, k, f) ==
  LET b == Vals(s, c.g, k, f)  n == Len(b) IN
  [m \in 1..n |-> SortedAt(b, IF HasOpt(c, "--min") THEN m - 1 ELSE n - m)]
TopN(c, s, k, f) == LET t == TopVals(c, s, k, f) IN IF Len(t) < c.n THEN t ELSE SubSeq(t, 1, c.n)
\* without -a: "only fields from -f, fields from -g, and the top-index field": per group, rows top_idx = 1..n
\* ("How many records to print per category") with <field>_top for every value field; what is printed beyond the number of
\* values a group has is not documented
ExpTop(c, s, go) ==
  LET ks == GroupKeysBy(s, c.g, c.f, go)  idx == OptVal(c, "-o", "top_idx") IN
  Flatten1([n \in 1..Len(ks) |->
     [m \in 1..c.n |->
        LET pairs == [k \in 1..Len(c.f) |-> LET t == TopN(c, s, ks[n], c.f[k]) IN
                                             IF m <= Len(t) THEN Req(c.f[k] \o "_top", t[m]) ELSE AnyV(c.f[k] \o "_top")]
            gp == GPairs(c.g, ks[n]) \o <<Req(idx, ToString(m))>>
        IN IF \E k \in 1..Len(pairs) : pairs[k][3] = "req" THEN Rec(gp \o pairs) ELSE OptRec(gp \o pairs)]])
\* with -a: "the top records are emitted with the same fields as they appeared in the input"; which of several records with
\* the same value is shown is not documented
AllowedTopA(c, s, out) ==
  \E go \in GroupOrders :
  LET ks == GroupKeysBy(s, c.g, c.f, go)  f == c.f[1]
      wantKeys == Flatten1([n \in 1..Len(ks) |-> [m \in 1..Len(TopN(c, s, ks[n], f)) |-> ks[n]]])
      wantVals == Flatten1([n \in 1..Len(ks) |-> TopN(c, s, ks[n], f)])
  IN /\ Len(out) = Len(wantVals)
     /\ \A j \in 1..Len(out) : HasAll(out[j], c.g) /\ Has(out[j], f) /\ GroupKey(out[j], c.g) = wantKeys[j] /\ Get(out[j], f) = wantVals[j]
     /\ SubBag(out, s)

\* ---------------------------------------------------------------- fill-down, fill-empty
\* "If a given record has a missing value for a given field, fill that from the corresponding value from a previous record, if
\* any.  By default, a 'missing' field either is absent, or has the empty-string value.  With -a, a field is 'missing' only if
\* it is absent."  Where in the record an absent field is put is not documented.
MissingIn(c, r, f) == IF HasOpt(c, "-a") THEN ~Has(r, f) ELSE (~Has(r, f) \/ Get(r, f) = "")
\* the last value of f that was not missing before record i: <<found, text>>
LastSeen(c, s, f, i) ==
  LET js == {j \in 1..(i - 1) : ~MissingIn(c, s[j], f)} IN
  IF js = {} THEN <<FALSE, "">> ELSE <<TRUE, Get(s[CHOOSE j \in js : \A m \in js : m <= j], f)>>
AllowedFillDown(c, s, out) ==
  /\ Len(out) = Len(s)
  /\ \A i \in 1..Len(s) :
       LET r == s[i]
           fills(f) == MissingIn(c, r, f) /\ LastSeen(c, s, f, i)[1]
           base == [n \in 1..Len(r) |-> IF Named(c, r[n][1]) /\ fills(r[n][1]) THEN <<r[n][1], LastSeen(c, s, r[n][1], i)[2]>> ELSE r[n]]
           added == {m \in 1..Len(c.f) : ~Has(r, c.f[m]) /\ fills(c.f[m])}
       IN /\ Len(out[i]) = Len(base) + Cardinality(added)
          /\ SelIdx(out[i], LAMBDA n : \A m \in added : c.f[m] # out[i][n][1]) = base
          /\ \A m \in added : Has(out[i], c.f[m]) /\ Get(out[i], c.f[m]) = LastSeen(c, s, c.f[m], i)[2]
\* --all: "Operate on all fields in the input": every field of the record that has the empty value gets the last non-empty value
\* of that field; nothing is decided about fields the record does not have (they may be added or not)
AllowedFillDownAll(c, s, out) ==
  /\ Len(out) = Len(s)
  /\ \A i \in 1..Len(s) :
       LET r == s[i]
           last(f) == LET js == {j \in 1..(i - 1) : Has(s[j], f) /\ Get(s[j], f) # ""} IN
                      IF js = {} THEN "" ELSE Get(s[CHOOSE j \in js : \A m \in js : m <= j], f)
           base == [n \in 1..Len(r) |-> IF r[n][2] = "" THEN <<r[n][1], last(r[n][1])>> ELSE r[n]]
       IN SelIdx(out[i], LAMBDA n : Has(r, out[i][n][1])) = base
\* fill-empty: "Fills empty-string fields with specified fill-value": -v, default "N/A"; -S changes the type, not the text
ExpFillEmpty(c, s) ==
  LET v == OptVal(c, "-v", "N/A") IN
  [i \in 1..Len(s) |-> Rec([n \in 1..Len(s[i]) |-> Req(s[i][n][1], IF s[i][n][2] = "" THEN v ELSE s[i][n][2])])]

\* ---------------------------------------------------------------- fraction (positive integers; decided where the quotient is a
\* dyadic rational with at most three binary places, so that every floating-point evaluation order is exact)
Dyadic8(n, d) == (8 * (IF n < 0 THEN 0 - n ELSE n)) % d = 0
Eighths == <<"", "125", "25", "375", "5", "625", "75", "875">>
\* n/d as decimal text; an integer value is written "1" by the worked examples and "1.0" by the usage text: rd says which
DyadicTextPos(n, d, rd) ==
  LET e == (8 * n) \div d IN
  IF e % 8 = 0 THEN ToString(e \div 8) \o (IF rd = "1.0" THEN ".0" ELSE "") ELSE ToString(e \div 8) \o "." \o Eighths[(e % 8) + 1]
\* (values of mixed sign: a negative numerator is the negated text; zero is written "0")
DyadicText(n, d, rd) == IF n < 0 THEN "-" \o DyadicTextPos(0 - n, d, rd) ELSE DyadicTextPos(n, d, rd)
ExpFraction(c, s, rd) ==
  LET f == c.f[1]
      mul == IF HasOpt(c, "-p") THEN 100 ELSE 1
      name == f \o (IF HasOpt(c, "-c") THEN "_cumulative" ELSE "") \o (IF HasOpt(c, "-p") THEN "_percent" ELSE "_fraction")
  IN [i \in 1..Len(s) |->
       IF ~(HasAll(s[i], c.g) /\ Has(s[i], f)) THEN Rec(AsReq(s[i]))
       ELSE LET k == GroupKey(s[i], c.g)
                all == Vals(s, c.g, k, f)
                upto == Vals(SubSeq(s, 1, i), c.g, k, f)
                num == mul * (IF HasOpt(c, "-c") THEN SumN(upto) ELSE NumOf[Get(s[i], f)])
                den == SumN(all)
            IN Rec(AsReq(s[i]) \o <<IF den > 0 /\ Dyadic8(num, den) THEN Req(name, DyadicText(num, den, rd)) ELSE AnyV(name)>>)]

\* ---------------------------------------------------------------- histogram (integer data, bins whose inner edges no integer hits)
\* "Input values < lo or > hi are not counted.  Input numbers equal to hi are counted in the last bin."  bin i is
\* lo + i*w <= x < lo + (i+1)*w with w = (hi - lo) / nbins; configurations are restricted (HistOK) to 2*w integer and odd,
\* nbins = 2, so that the only integer on an edge is lo or hi.  c.n = nbins, lo and hi from --lo/--hi via HistLo/HistHi tables.
HistLo(c) == NumOf[OptVal(c, "--lo", "0")]
HistHi(c) == NumOf[OptVal(c, "--hi", "0")]
HalfText(twice) == IF twice % 2 = 0 THEN ToString(twice \div 2) ELSE ToString(twice \div 2) \o ".5"   \* twice >= 0
ExpHistogram(c, s) ==
  LET lo == HistLo(c)  hi == HistHi(c)  nb == c.n  pre == OptVal(c, "-o", "")
      \* twice the edges, exact: 2*lo + i * (2*(hi-lo)/nb)
      w2 == (2 * (hi - lo)) \div nb
      edge2(i) == 2 * lo + i * w2
      inBin(x, i) == 2 * x >= edge2(i) /\ (2 * x < edge2(i + 1) \/ (i = nb - 1 /\ x = hi))
      cnt(f, i) == Cardinality({j \in 1..Len(s) : Has(s[j], f) /\ inBin(NumOf[Get(s[j], f)], i)})
  IN [i \in 1..nb |->
        Rec(<<Req(pre \o "bin_lo", HalfText(edge2(i - 1))), Req(pre \o "bin_hi", HalfText(edge2(i)))>>
            \o [m \in 1..Len(c.f) |-> Req(pre \o c.f[m] \o "_count", ToString(cnt(c.f[m], i - 1)))])]

\* ---------------------------------------------------------------- the DSL statistics functions (reference-dsl-builtin-functions.md)
\* applied to the collection of the values of field f of the records having it (the harness spells
\* put -q 'begin{@v={}} @v[NR]=$x; end{@o={}; @o["count"]=count(@v); ...; @o["p25"]=percentile(@v,25); ...; emit @o}').
\* Unlike the verbs these functions are documented over ALL elements: count is "the length of an array or map", null_count
\* counts the empty ones, mode/antimode/distinct_count work on the stringified values, minlen/maxlen on string lengths ("void for
\* array/map of length less than two" next to an example of length two: shorter ones are not decided), mean/median/percentile
\* "Returns empty string AKA void for empty array/map".  Sorting a collection that contains empty values is not documented.
NoEmpty(vs) == \A i \in 1..Len(vs) : vs[i] # ""
SumSq(b) == LET F[i \in 0..Len(b)] == IF i = 0 THEN 0 ELSE F[i - 1] + NumOf[b[i]] * NumOf[b[i]] IN F[Len(b)]
PercentilesList == <<25, 75>>          \* the harness spells percentiles(@v,[25,75])
DslDetermined(a, vs) ==
  CASE a.k \in {"count", "null_count", "distinct_count"} -> TRUE
    [] a.k \in {"sum", "sum2"} -> AllNum(vs)
    [] a.k = "mean" -> vs = <<>> \/ (AllNum(vs) /\ Halves(SumN(vs), Len(vs)))
    [] a.k \in {"mode", "antimode"} -> vs # <<>>
    [] a.k \in {"minlen", "maxlen"} -> Len(vs) >= 2
    [] a.k \in {"median", "p"} -> vs = <<>> \/ (NoEmpty(vs) /\ OneText(vs))
    [] OTHER -> FALSE
DslValue(a, vs) ==
  CASE a.k = "count" -> ToString(Len(vs))
    [] a.k = "null_count" -> ToString(Cardinality({i \in 1..Len(vs) : vs[i] = ""}))
    [] a.k = "distinct_count" -> ToString(Cardinality({vs[i] : i \in 1..Len(vs)}))
    [] a.k = "sum" -> ToString(SumN(vs))
    [] a.k = "sum2" -> ToString(SumSq(vs))
    [] a.k = "mean" -> IF vs = <<>> THEN "" ELSE QuotText(SumN(vs), Len(vs))
    [] a.k = "mode" -> Mode(vs)
    [] a.k = "antimode" -> AntiMode(vs)
    [] a.k = "minlen" -> ToString(MinLen(vs))
    [] a.k = "maxlen" -> ToString(MaxLen_(vs))
    [] a.k = "median" -> IF vs = <<>> THEN "" ELSE Percentile(vs, 50)
    [] a.k = "p" -> IF vs = <<>> THEN "" ELSE Percentile(vs, a.p)
ExpDsl(c, s) ==
  LET vs == Vals(s, <<>>, <<>>, c.f[1])
      sortable == vs # <<>> /\ NoEmpty(vs) /\ OneText(vs)
      one(a) == LET key == AccName(a) IN
                CASE a.k = "sort_collection" ->      \* an array: emitted flattened as sort_collection.1, .2, ...
                       IF sortable THEN [k \in 1..Len(vs) |-> Req(key \o "." \o ToString(k), SortedAt(vs, k - 1))]
                       ELSE IF vs = <<>> THEN <<AnyV(key)>> ELSE [k \in 1..Len(vs) |-> AnyV(key \o "." \o ToString(k))]
                  [] a.k = "percentiles" ->          \* a map keyed by percentile: emitted flattened as percentiles.25, percentiles.75
                       [k \in 1..Len(PercentilesList) |->
                          IF sortable THEN Req(key \o "." \o ToString(PercentilesList[k]), Percentile(vs, PercentilesList[k]))
                          ELSE AnyV(key \o "." \o ToString(PercentilesList[k]))]
                  [] OTHER -> <<IF DslDetermined(a, vs) THEN Req(key, DslValue(a, vs)) ELSE AnyV(key)>>
  IN << Rec(Flatten1([m \in 1..Len(c.a) |-> one(c.a[m])])) >>

\* ---------------------------------------------------------------- the verdict on one observed output
Allowed(c, s, out) ==
  CASE c.v = "count" -> Match(ExpCount(c, s), out)
    [] c.v = "count-distinct" -> Match(ExpCountDistinct(c, s), out)
    [] c.v = "uniq" -> Match(ExpUniq(c, s), out)
    [] c.v = "count-similar" -> AllowedCountSimilar(c, s, out)
    [] c.v = "stats1" /\ HasOpt(c, "-s") -> Match(ExpStats1S(c, s), out)
    [] c.v = "stats1" /\ c.n > 0 -> \E rd \in {"records", "contributing"} : Match(ExpStats1W(c, s, rd), out)
    [] c.v = "stats1" -> \E go \in GroupOrders : Match(ExpStats1(c, s, go), out)
    [] c.v = "merge-fields" -> Match(IF HasOpt(c, "-c") THEN ExpMergeCollapse(c, s) ELSE ExpMerge(c, s), out)
    [] c.v = "step" -> AllowedStep(c, s, out)
    [] c.v = "top" -> IF HasOpt(c, "-a") THEN AllowedTopA(c, s, out) ELSE \E go \in GroupOrders : Match(ExpTop(c, s, go), out)
    [] c.v \in {"most-frequent", "least-frequent"} -> AllowedFrequent(c, s, out)
    [] c.v = "fill-down" -> IF HasOpt(c, "--all") THEN AllowedFillDownAll(c, s, out) ELSE AllowedFillDown(c, s, out)
    [] c.v = "fill-empty" -> Match(ExpFillEmpty(c, s), out)
    [] c.v = "fraction" -> \E rd \in {"1", "1.0"} : Match(ExpFraction(c, s, rd), out)
    [] c.v = "histogram" -> Match(ExpHistogram(c, s), out)
    [] c.v = "dsl-stats" -> Match(ExpDsl(c, s), out)
    [] OTHER -> FALSE

\* ---------------------------------------------------------------- what to say about a non-conforming observation (no verdict here)
OnePat(rp) == CHOOSE p \in rp.alts : TRUE
Pattern(c, s) ==
  CASE c.v = "count" -> ExpCount(c, s)
    [] c.v = "count-distinct" -> ExpCountDistinct(c, s)
    [] c.v = "uniq" -> ExpUniq(c, s)
    [] c.v = "stats1" /\ HasOpt(c, "-s") -> ExpStats1S(c, s)
    [] c.v = "stats1" /\ c.n > 0 -> ExpStats1W(c, s, "records")
    [] c.v = "stats1" -> ExpStats1(c, s, "keyed")
    [] c.v = "merge-fields" -> IF HasOpt(c, "-c") THEN ExpMergeCollapse(c, s) ELSE ExpMerge(c, s)
    [] c.v = "step" -> ExpStep(c, s, [lag |-> "skip", ff |-> "from_first"])
    [] c.v = "top" /\ ~HasOpt(c, "-a") -> ExpTop(c, s, "keyed")
    [] c.v = "fill-empty" -> ExpFillEmpty(c, s)
    [] c.v = "fraction" -> ExpFraction(c, s, "1")
    [] c.v = "histogram" -> ExpHistogram(c, s)
    [] c.v = "dsl-stats" -> ExpDsl(c, s)
    [] OTHER -> <<>>
\* names of the fields whose text differs, when the output has the shape of the pattern
MismatchFields(pat, out) ==
  IF Len(pat) # Len(out) THEN {"#records"}
  ELSE UNION {LET p == OnePat(pat[i]) IN
              IF Len(p) # Len(out[i]) \/ \E n \in 1..Len(p) : p[n][1] # out[i][n][1] THEN {"#fields"}
              ELSE {p[n][1] : n \in {m \in 1..Len(p) : p[m][3] # "any" /\ p[m][2] # out[i][m][2]}} : i \in 1..Len(pat)}
Gap(c, s) == \E i \in 1..Len(s) : HasAll(s[i], c.g) /\ \E m \in 1..Len(c.f) : ~Has(s[i], c.f[m])
\* the first record of some group lacks a value field that a later record of the group has
GapFirst(c, s) == \E i \in 1..Len(s) : /\ HasAll(s[i], c.g) /\ (\A j \in 1..(i - 1) : ~SameGroup(s, c.g, i, j))
                                      /\ \E m \in 1..Len(c.f) : ~Has(s[i], c.f[m]) /\ \E j \in (i + 1)..Len(s) : SameGroup(s, c.g, i, j) /\ Has(s[j], c.f[m])
\* some group has fewer records than a forward-looking stepper looks ahead
Short(c, s) == c.v = "step" /\ \E i \in 1..Len(s) : HasAll(s[i], c.g) /\ \E n \in 1..Len(c.a) : IsLead(c.a[n]) /\ Len(GIdx(s, c.g, i)) < StepCount(c.a[n])
Diag(c, s, out, exit) ==
  LET mm == IF exit # 0 THEN {} ELSE MismatchFields(Pattern(c, s), out) IN
  [why |-> IF exit # 0 THEN "exit" ELSE "output",
   mismatch |-> mm, nullonly |-> mm # {} /\ mm \subseteq {"out_null_count", "a_null_count", "b_null_count"},
   gap |-> Gap(c, s), gapfirst |-> GapFirst(c, s), lead |-> c.v = "step" /\ HasLead(c), short |-> Short(c, s), multi |-> Len(c.f) > 1]

\* ---------------------------------------------------------------- helpers for the laws (VerbsAggregateMC)
\* a concrete output realising a pattern: every field written, "any" fields with the text w
Realize(pat, w) == [i \in 1..Len(pat) |-> LET p == OnePat(pat[i]) IN [n \in 1..Len(p) |-> <<p[n][1], IF p[n][3] = "any" THEN w ELSE p[n][2]>>]]
\* the smallest output realising it: optional records and fields left out
RealizeMin(pat) ==
  LET keep == SelIdx(pat, LAMBDA i : ~pat[i].opt) IN
  [i \in 1..Len(keep) |-> LET p == OnePat(keep[i])  q == SelIdx(p, LAMBDA n : p[n][3] = "req") IN [n \in 1..Len(q) |-> <<q[n][1], q[n][2]>>]]
PatGet(p, k) == p[CHOOSE n \in 1..Len(p) : p[n][1] = k]
PatHas(p, k) == \E n \in 1..Len(p) : p[n][1] = k
=============================================================================
