------------------------------- MODULE CodecMC -------------------------------
(* The laws of C01 on the specification itself, over the whole case space:
   - every stream of the representable domain is recovered by the specification's decoder from the
     specification's encoder's text (for CSV/TSV/JSON that decoder is the standard's grammar);
   - every legal spelling of the same cells decodes to the same cells. *)
EXTENDS CodecCases
VARIABLE x
Init == x \in Cases
Next == UNCHANGED x
Laws == /\ Representable(x.f, x.v, x.s)
        /\ x.k = "rt" => Decode(x.f, x.v, Encode(x.f, x.v, x.s)) = OK(x.s)
        /\ x.k = "tx" => Decode(x.f, x.v, StyledText(x.f, x.v, x.st, x.s)) = OK(x.s)
\* how much the documented domain leaves out although the specification's own codec would carry it (a diagnostic:
\* the domain comes from the documentation, not from what happens to work)
Encodable(c) == /\ \A i \in 1..Len(c.s) : Len(c.s[i]) >= 1
                /\ c.f \in {"csv", "tsv"} => HeaderWritable(c.s)
Loose == Representable(x.f, x.v, x.s) \/ ~(Encodable(x) /\ Decode(x.f, x.v, Encode(x.f, x.v, x.s)) = OK(x.s)) \/ PrintT(<<"loose", x.f, x.v, x.fam>>)
InitRaw == x \in RawRT
=============================================================================
