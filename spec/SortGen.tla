------------------------------- MODULE SortGen -------------------------------
EXTENDS SortCases, Json
VARIABLE x
Init == x \in Cases
Next == UNCHANGED x
Emit == PrintT(ToJson(x))
=============================================================================
