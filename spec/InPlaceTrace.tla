----------------------------- MODULE InPlaceTrace -----------------------------
(***************************************************************************)
(* Validation of real `mlr -I` runs (crashed at a chosen hook site, or run   *)
(* to completion) against InPlace.tla: the hook log must be a behaviour of   *)
(* the specification, and the directory found afterwards must be the         *)
(* specification's state after Crash / Finish / error return / Abort.        *)
(* One line of TraceFile per run:                                            *)
(*   sc   : scenario;  ev : Seq([s |-> site, a |-> args]) in log order       *)
(*   obs  : [exit |-> "ok" | "err" | "killed", temps |-> temp files found,   *)
(*           files |-> Seq([exists, isOrig, isNew, mode])]                   *)
(* Two commands run one after the other on the same files (the retry after  *)
(* a crash) are ONE line: the first run's log, then the harness's records    *)
(* [s |-> "exit", a |-> <<how the first process ended>>] and                 *)
(* [s |-> "restart"], then the second run's log; obs is the directory after  *)
(* the second run, with isNew2 = "equals what the second command prints for  *)
(* this file alone".                                                         *)
(***************************************************************************)
EXTENDS InPlace, Json, TLCExt

CONSTANT TraceFile
Traces == ndJsonDeserialize(TraceFile)

VARIABLES t, l, done
T == Traces[t]

TInit == /\ t \in 1..Len(Traces) /\ InitWith(Traces[t].sc) /\ l = 1 /\ done = FALSE /\ TLCSet(t, 0)

Ev == T.ev[l]
TStep == /\ l <= Len(T.ev) /\ ~done /\ l' = l + 1 /\ UNCHANGED <<t, done>>
         /\ CASE Ev.s = "begin"         -> Begin
              [] Ev.s = "errReturn"     -> CASE Ev.a[1] = "stat"   -> File.kind = "missing" /\ ErrEarly
                                             [] Ev.a[1] = "refuse" -> sc.prepipe /\ ErrEarly
                                             [] Ev.a[1] = "temp"   -> File.kind = "tempfail" /\ ErrEarly
                                             [] Ev.a[1] = "wrap"   -> ErrWrap
                                             [] Ev.a[1] = "stream" -> ErrStream
                                             [] Ev.a[1] = "wrapperClose" -> ErrWrapperClose
                                             [] OTHER -> FALSE
              [] Ev.s = "tempCreated"   -> TempCreated
              [] Ev.s = "wrapped"       -> Wrapped /\ Ev.a[1] = File.gz
              [] Ev.s = "wrote"         -> Wrote
              \* (the logged flag: the stream's final flush failed. With a recompressor in between it may succeed although
              \* the temp file cannot take the data)
              [] Ev.s = "flushed"       -> Flushed /\ (Ev.a[1] = (File.kind \in {"streamerr", "writefail"}) \/ (File.kind = "writefail" /\ File.gz))
              [] Ev.s = "streamDone"    -> StreamDone
              [] Ev.s = "wrapperClosed" -> WrapperClosed
              [] Ev.s = "closed"        -> Closed
              [] Ev.s = "renamed"       -> Renamed
              [] Ev.s = "chmodded"      -> Chmodded
              [] Ev.s = "exit"          -> CASE Ev.a[1] = "killed" -> Crash
                                             [] Ev.a[1] = "ok"     -> Finish
                                             [] Ev.a[1] = "err"    -> (exit = "err" /\ UNCHANGED vars) \/ Abort
                                             [] OTHER -> FALSE
              [] Ev.s = "restart"       -> Restart
              [] OTHER -> FALSE

\* the directory as found afterwards is what the specification says it is
Matches(o) ==
  /\ leftovers = o.temps
  /\ \A f \in 1..F :
       LET x == o.files[f] IN
         IF sc.files[f].kind = "missing" THEN ~x.exists
         ELSE /\ x.exists
              /\ (content[f] = "orig" => x.isOrig)
              /\ (content[f] = "new" => x.isNew)
              /\ (content[f] = "new2" => "isNew2" \in DOMAIN x /\ x.isNew2)
              /\ content[f] \in {"orig", "new", "new2"}
              /\ x.mode = mode[f]

TConclude == /\ l = Len(T.ev) + 1 /\ ~done /\ done' = TRUE /\ UNCHANGED <<t, l>>
             /\ CASE T.obs.exit = "killed" -> Crash
                  [] T.obs.exit = "ok"     -> Finish
                  [] T.obs.exit = "err"    -> (exit = "err" /\ UNCHANGED vars) \/ Abort
                  [] OTHER -> FALSE
             /\ Matches(T.obs)'

TNext == TStep \/ TConclude
Track == IF done THEN TLCSet(t, Len(T.ev) + 1) ELSE IF l - 1 > TLCGet(t) THEN TLCSet(t, l - 1) ELSE TRUE
Report == \A k \in 1..Len(Traces) :
            TLCGet(k) = Len(Traces[k].ev) + 1
            \/ PrintT(ToJson([rejected |-> k, matched |-> TLCGet(k), total |-> Len(Traces[k].ev) + 1]))
=============================================================================
