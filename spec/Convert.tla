------------------------------- MODULE Convert -------------------------------
(***************************************************************************)
(* C02: what a format conversion does to the records of a stream.           *)
(*                                                                          *)
(* Written from docs/src/flatten-unflatten.md, file-formats.md,             *)
(* record-heterogeneity.md, reference-main-flag-list.md ("Flatten-unflatten *)
(* flags") and the help of the flatten/unflatten/arrayify verbs/functions.   *)
(*                                                                          *)
(* Data.  A key is its text as a sequence of one-character strings (the     *)
(* specification has to look for the flatten separator inside keys); the    *)
(* text of a scalar is an uninspected string.  A value is tagged:           *)
(*     <<"s", text>>                      a scalar (its text)               *)
(*     <<"m", <<  <<key, value>>, ... >> >> a map (insertion-ordered)        *)
(*     <<"a", << value, ... >> >>          an array                          *)
(* A record is the body of a map: a sequence of <<key, value>>; a stream is *)
(* a sequence of records.  A separator is a non-empty sequence of           *)
(* one-character strings.                                                   *)
(***************************************************************************)
EXTENDS Integers, Sequences, FiniteSets, TLC

S(t) == <<"s", t>>
M(b) == <<"m", b>>
A(e) == <<"a", e>>
IsS(v) == v[1] = "s"
IsM(v) == v[1] = "m"
IsA(v) == v[1] = "a"

\* the same sequence, as an explicit tuple (TLC evaluates [i \in 1..n |-> e] anew at every application otherwise)
Tup(f) == f \o <<>>

RECURSIVE Cat(_)
Cat(ss) == IF ss = <<>> THEN <<>> ELSE Head(ss) \o Cat(Tail(ss))

\* the decimal digits of a positive integer, as a key: the 1-up array index i becomes the string key "i"
RECURSIVE DigitsOf(_)
DigitsOf(i) == IF i < 10 THEN <<ToString(i)>> ELSE DigitsOf(i \div 10) \o <<ToString(i % 10)>>

KeysOf(r) == Tup([i \in 1..Len(r) |-> r[i][1]])
DistinctKeys(r) == \A i, j \in 1..Len(r) : i # j => r[i][1] # r[j][1]
IsFlat(r) == \A i \in 1..Len(r) : IsS(r[i][2])

(***************************************************************************)
(* Flatten (key-spreading): "the single map-valued field b={"x": 2, "y": 3} *)
(* spreads into multiple fields b.x=2,b.y=3"; "each level of map keys is     *)
(* joined in"; "the 1-up array indices 1,2,3,... become string keys".  An    *)
(* empty map or array has no keys to spread to: it is kept as the field      *)
(* k={} / k=[] (otherwise the field would vanish and the conversion could    *)
(* not be undone, which the property demands).                               *)
(***************************************************************************)
EmptyMapText == "{}"
EmptyArrayText == "[]"

RECURSIVE FlatVal(_, _, _)
FlatVal(sep, k, v) ==
  IF IsS(v) THEN << <<k, v>> >>
  ELSE IF v[2] = <<>> THEN << <<k, S(IF IsM(v) THEN EmptyMapText ELSE EmptyArrayText)>> >>
  ELSE IF IsM(v) THEN Cat([i \in 1..Len(v[2]) |-> FlatVal(sep, k \o sep \o v[2][i][1], v[2][i][2])])
  ELSE Cat([i \in 1..Len(v[2]) |-> FlatVal(sep, k \o sep \o DigitsOf(i), v[2][i])])

Flatten(sep, r) == Cat([i \in 1..Len(r) |-> FlatVal(sep, r[i][1], r[i][2])])

(***************************************************************************)
(* Arrayify: "if it's unflattening and gets a map with keys "1", "2", etc.  *)
(* -- starting with "1", consecutively, and with no gaps -- it turns that    *)
(* back into an array" (at every level: "walks through a nested map/array,   *)
(* converting any map with consecutive keys "1", "2", ... into an array").   *)
(***************************************************************************)
RECURSIVE Arrayify(_)
Arrayify(v) ==
  IF IsS(v) THEN v
  ELSE IF IsA(v) THEN A(Tup([i \in 1..Len(v[2]) |-> Arrayify(v[2][i])]))
  ELSE LET b == Tup([i \in 1..Len(v[2]) |-> <<v[2][i][1], Arrayify(v[2][i][2])>>]) IN
       IF Len(b) >= 1 /\ \A i \in 1..Len(b) : b[i][1] = DigitsOf(i)
       THEN A(Tup([i \in 1..Len(b) |-> b[i][2]])) ELSE M(b)
ArrayifyRec(r) == Tup([i \in 1..Len(r) |-> <<r[i][1], Arrayify(r[i][2])>>])

(***************************************************************************)
(* Unflatten: "simply the reverse".  A field name is split at the           *)
(* separator; "if a field name starts with a `.`, ends with a `.`, or has    *)
(* two or more consecutive `.` characters, no attempt is made to unflatten   *)
(* it" (an empty piece), and a name without the separator is left alone.     *)
(* The pieces index into nested maps, which keep insertion order (maps are   *)
(* insertion-ordered throughout Miller); finally the maps that were built    *)
(* are arrayified.  The texts {} and [] come back as the empty collections.  *)
(* What happens when one name is a proper prefix of another (a=1,a.b=2) is   *)
(* not documented: Clash marks those records and nothing is demanded.        *)
(***************************************************************************)
RECURSIVE Split(_, _, _)
Split(sep, k, cur) ==
  IF k = <<>> THEN <<cur>>
  ELSE IF Len(k) >= Len(sep) /\ SubSeq(k, 1, Len(sep)) = sep
       THEN <<cur>> \o Split(sep, SubSeq(k, Len(sep) + 1, Len(k)), <<>>)
       ELSE Split(sep, Tail(k), Append(cur, Head(k)))
Pieces(sep, k) == Split(sep, k, <<>>)
Contains(sep, k) == Len(Pieces(sep, k)) > 1
PathOf(sep, k) == LET p == Pieces(sep, k) IN IF \E i \in 1..Len(p) : p[i] = <<>> THEN <<k>> ELSE p

RECURSIVE Paths(_, _)
Paths(sep, r) == IF r = <<>> THEN <<>> ELSE <<PathOf(sep, r[1][1])>> \o Paths(sep, Tail(r))
IsPrefix(p, q) == Len(p) <= Len(q) /\ SubSeq(q, 1, Len(p)) = p
Clash(sep, r) == LET ps == Paths(sep, r) IN \E i, j \in 1..Len(r) : i # j /\ IsPrefix(ps[i], ps[j])

Terminal(v) == IF v = S(EmptyMapText) THEN M(<<>>) ELSE IF v = S(EmptyArrayText) THEN A(<<>>) ELSE v

RECURSIVE PutPath(_, _, _)
PutPath(body, path, val) ==
  LET k == Head(path)
      idx == {i \in 1..Len(body) : body[i][1] = k}
  IN IF Len(path) = 1
     THEN (IF idx = {} THEN Append(body, <<k, val>>)
           ELSE [body EXCEPT ![CHOOSE i \in idx : TRUE] = <<k, val>>])
     ELSE (IF idx = {} THEN Append(body, <<k, M(PutPath(<<>>, Tail(path), val))>>)
           ELSE LET i == CHOOSE i \in idx : TRUE IN
                [body EXCEPT ![i] = <<k, M(PutPath(body[i][2][2], Tail(path), val))>>])

\* r is a flat record without Clash
Unflatten(sep, r) ==
  LET ps == Paths(sep, r)
      F[i \in 0..Len(r)] == IF i = 0 THEN <<>> ELSE PutPath(F[i - 1], ps[i], Terminal(r[i][2]))
      b == F[Len(r)]
      built == {ps[i][1] : i \in {j \in 1..Len(r) : Len(ps[j]) > 1}}
  IN Tup([i \in 1..Len(b) |-> IF b[i][1] \in built THEN <<b[i][1], Arrayify(b[i][2])>> ELSE b[i]])

(***************************************************************************)
(* When they happen.  "When the output format is not JSON or YAML ... Miller *)
(* appends, in effect, `then flatten` to the end of the chain" (also for     *)
(* CSV-to-CSV).  "When the output format is JSON or YAML and the input       *)
(* format is neither, then (similarly) Miller appends, in effect, `then      *)
(* unflatten`", unless --no-auto-unflatten (noun = TRUE).  JSON Lines is JSON.*)
(***************************************************************************)
Nestable(f) == f \in {"json", "jsonl", "yaml"}
AutoFlatten(i, o) == ~Nestable(o)
AutoUnflatten(i, o, noun) == ~Nestable(i) /\ Nestable(o) /\ ~noun

Undefined(i, o, sep, noun, r) == AutoUnflatten(i, o, noun) /\ ~AutoFlatten(i, o) /\ IsFlat(r) /\ Clash(sep, r)
ConvertRec(i, o, sep, noun, r) ==
  IF AutoFlatten(i, o) THEN Flatten(sep, r)
  ELSE IF AutoUnflatten(i, o, noun) THEN Unflatten(sep, r)
  ELSE r
\* the records a reader of format o gets from what `mlr --i<i> --o<o> cat` wrote for the records s
ConvertAB(i, o, sep, noun, s) == Tup([n \in 1..Len(s) |-> ConvertRec(i, o, sep, noun, s[n])])

(***************************************************************************)
(* What each format can carry (the common domain of the property), clause    *)
(* by clause from file-formats.md / record-heterogeneity.md.  The cell       *)
(* alphabet is benign by construction (letters, digits, the three flatten    *)
(* separators . : ; and the texts {} []): quoting is C01's question.          *)
(*  - every record has at least one field, keys are non-empty and distinct   *)
(*  - only JSON, JSON Lines and YAML nest                                    *)
(*  - NIDX has no keys: "assigns integer field names starting with 1";       *)
(*    fields are split on repeated spaces, so no empty values                *)
(*  - CSV, TSV "do not allow heterogeneous data" (same keys, same order);    *)
(*    markdown: nothing is said, treated alike                               *)
(*  - CSV-lite, TSV-lite, PPRINT print a new header block on schema change   *)
(*    and read it back the same way; DKVP, XTAB, JSON carry any keys          *)
(*  - PPRINT and XTAB align with repeated spaces and markdown trims them:    *)
(*    no empty values (PPRINT shows them as -)                               *)
(*  - a line-oriented record with a single empty value is an empty line      *)
(***************************************************************************)
Homogeneous(s) == \A n \in 1..Len(s) : KeysOf(s[n]) = KeysOf(s[1])
NoEmptyValues(s) == \A n \in 1..Len(s) : \A i \in 1..Len(s[n]) : s[n][i][2] # S("")
NotJustEmpty(s) == \A n \in 1..Len(s) : ~(Len(s[n]) = 1 /\ s[n][1][2] = S(""))
WellFormed(s) == \A n \in 1..Len(s) : Len(s[n]) >= 1 /\ DistinctKeys(s[n]) /\ \A i \in 1..Len(s[n]) : s[n][i][1] # <<>>
Positional(s) == \A n \in 1..Len(s) : \A i \in 1..Len(s[n]) : s[n][i][1] = DigitsOf(i)
Carries(f, s) ==
  /\ WellFormed(s)
  /\ Nestable(f) \/ \A n \in 1..Len(s) : IsFlat(s[n])
  /\ CASE f \in {"json", "jsonl", "yaml", "dkvp"} -> TRUE
       [] f = "nidx" -> Positional(s) /\ NoEmptyValues(s)
       [] f \in {"csv", "tsv"} -> Homogeneous(s) /\ NotJustEmpty(s)
       [] f = "markdown" -> Homogeneous(s) /\ NoEmptyValues(s)
       [] f \in {"csvlite", "tsvlite"} -> NotJustEmpty(s)
       [] f \in {"pprint", "xtab"} -> NoEmptyValues(s)

(***************************************************************************)
(* A pipeline  F1 -> F2 -> ... -> Fn  of `mlr --iFk --oFk+1 cat` processes,  *)
(* all with the same flatten separator; the last reader may be run with      *)
(* --no-auto-unflatten (noun).  s is what the first reader gets.              *)
(***************************************************************************)
RECURSIVE ConvertPath(_, _, _, _)
ConvertPath(path, sep, noun, s) ==
  IF Len(path) < 2 THEN s
  ELSE ConvertPath(Tail(path), sep, noun, ConvertAB(path[1], path[2], sep, noun /\ Len(path) = 2, s))

\* every intermediate text is within what its format carries, and no undocumented unflatten arises
RECURSIVE InDomain(_, _, _, _)
InDomain(path, sep, noun, s) ==
  IF Len(path) < 2 THEN TRUE
  ELSE /\ \A n \in 1..Len(s) : ~Undefined(path[1], path[2], sep, noun /\ Len(path) = 2, s[n])
       /\ LET t == ConvertAB(path[1], path[2], sep, noun /\ Len(path) = 2, s) IN
          Carries(path[2], t) /\ InDomain(Tail(path), sep, noun, t)

\* both at once, for judging observations: <<InDomain, ConvertPath>> (the second is meaningful only if the first holds)
RECURSIVE Walk(_, _, _, _)
Walk(path, sep, noun, s) ==
  IF Len(path) < 2 THEN <<TRUE, s>>
  ELSE IF \E n \in 1..Len(s) : Undefined(path[1], path[2], sep, noun /\ Len(path) = 2, s[n]) THEN <<FALSE, s>>
  ELSE LET t == ConvertAB(path[1], path[2], sep, noun /\ Len(path) = 2, s) IN
       IF Carries(path[2], t) THEN Walk(Tail(path), sep, noun, t) ELSE <<FALSE, t>>

\* the judgement of one observed pipeline
Allowed(path, sep, noun, s, out) == InDomain(path, sep, noun, s) => out = ConvertPath(path, sep, noun, s)
=============================================================================
