----------------------------- MODULE VerbsSelect -----------------------------
(***************************************************************************)
(* The record-selecting verbs (C11), written from reference-verbs.md: each  *)
(* is a definition over the whole input stream.  A verb configuration is    *)
(* [v |-> name, n |-> count, g |-> group-by field names, o |-> option].     *)
(* Deterministic verbs have an Expected output; where the documentation     *)
(* leaves freedom (cross-group order of `head -n -k -g`, `tail -n +k -g`;    *)
(* shuffle, bootstrap, sample) Allowed is a predicate.                       *)
(***************************************************************************)
EXTENDS Records, TLC

\* ---- filter expressions of the bound set: value is "true", "false" or "absent"
Expr(e, r, nr) ==
  CASE e = "true"  -> "true"
    [] e = "false" -> "false"
    [] e = "is_present($a)" -> IF Has(r, "a") THEN "true" ELSE "false"
    [] e = "$b == \"x\"" -> IF ~Has(r, "b") THEN "absent" ELSE IF Get(r, "b") = "x" THEN "true" ELSE "false"
    [] e = "$nosuch" -> "absent"
    [] e = "NR % 2 == 1" -> IF nr % 2 = 1 THEN "true" ELSE "false"
    [] e = "is_present($a) && $b == \"y\"" ->
         IF ~Has(r, "a") THEN "false" ELSE IF ~Has(r, "b") THEN "absent" ELSE IF Get(r, "b") = "y" THEN "true" ELSE "false"

Trivial(r) == \A i \in 1..Len(r) : r[i][2] = ""

\* decimate: "-b: printing first of every n", "-e: printing last of every n (default)", per group, in input order
Decimate(s, g, n, first) ==
  SelIdx(s, LAMBDA i : HasAll(s[i], g) /\ (IF first THEN (Rank(s, g, i) - 1) % n = 0 ELSE Rank(s, g, i) % n = 0))

\* distinct records in first-appearance order, with their multiplicities
FirstIdx(s) == IdxWhere(s, LAMBDA i : \A j \in 1..(i - 1) : s[j] # s[i])
Mult(s, i) == Cardinality({j \in 1..Len(s) : s[j] = s[i]})

CounterName(c) == IF c.o = "-n" THEN "n" ELSE "idx"

\* grep: "formatting each record in memory as DKVP (or NIDX, if -a is supplied), using OFS "," and OPS "=", and matching
\* the resulting line against the regex".  Texts are sequences of one-character strings (field names and values of the
\* case space are at most one character long); the patterns of the case space are literal texts (no regex operators), so
\* "matches" is "contains"; -i folds the letters of both sides.
Chars(v) == IF v = "" THEN <<>> ELSE <<v>>
GrepText(r, valuesOnly) ==
  LET part(i) == IF valuesOnly THEN Chars(r[i][2]) ELSE <<r[i][1], "=">> \o Chars(r[i][2])
      RECURSIVE From(_)
      From(i) == IF i > Len(r) THEN <<>> ELSE (IF i > 1 THEN <<",">> ELSE <<>>) \o part(i) \o From(i + 1)
  IN From(1)
FoldChar(ch) == CASE ch = "A" -> "a" [] ch = "B" -> "b" [] ch = "X" -> "x" [] ch = "Y" -> "y" [] OTHER -> ch
Fold(t) == [i \in 1..Len(t) |-> FoldChar(t[i])]
Contains(t, p) == \E i \in 0..(Len(t) - Len(p)) : SubSeq(t, i + 1, i + Len(p)) = p
HasOpt(c, x) == \E i \in 1..Len(c.o) : c.o[i] = x
GrepMatches(c, r) ==
  LET t == GrepText(r, HasOpt(c, "-a")) IN
  IF HasOpt(c, "-i") THEN Contains(Fold(t), Fold(c.g)) ELSE Contains(t, c.g)
Expected(c, s) ==
  LET g == c.g  n == c.n IN
  CASE c.v = "cat" /\ c.o = ""  -> s
    [] c.v = "cat" /\ c.o \in {"-n", "-N"} /\ (\A i \in 1..Len(s) : HasAll(s[i], g)) ->
         [i \in 1..Len(s) |-> <<<<CounterName(c), ToString(Rank(s, g, i))>>>> \o s[i]]
    [] c.v = "nothing" -> <<>>
    [] c.v = "tac" -> Rev(s)
    [] c.v = "head" /\ n >= 0 -> SelIdx(s, LAMBDA i : HasAll(s[i], g) /\ Rank(s, g, i) <= n)
    [] c.v = "tail" /\ c.o = "" -> GroupedWhere(s, g, LAMBDA i : Rank(s, g, i) > GroupSize(s, g, i) - n)
    [] c.v = "decimate" -> Decimate(s, g, n, c.o = "-b")
    [] c.v = "filter" -> SelIdx(s, LAMBDA i : Expr(c.o, s[i], i) = "true")
    [] c.v = "filter-x" -> SelIdx(s, LAMBDA i : Expr(c.o, s[i], i) # "true")
    [] c.v = "having-fields" ->
         LET want == {g[i] : i \in 1..Len(g)} IN
         (CASE c.o = "--at-least"  -> SelIdx(s, LAMBDA i : want \subseteq KeySet(s[i]))
            [] c.o = "--which-are" -> SelIdx(s, LAMBDA i : want = KeySet(s[i]))
            [] c.o = "--at-most"   -> SelIdx(s, LAMBDA i : KeySet(s[i]) \subseteq want))
    \* the regex modes: c.g = <<pattern text>>, c.m = the field names of the case space the pattern matches (derived with
    \* the pattern in the case module: anchored names, a character class, a case-insensitive literal)
    [] c.v = "having-fields-re" ->
         LET m == {c.m[i] : i \in 1..Len(c.m)} IN      \* (the records of the case space have at least one field)
         (CASE c.o = "--all-matching"  -> SelIdx(s, LAMBDA i : KeySet(s[i]) \subseteq m)
            [] c.o = "--any-matching"  -> SelIdx(s, LAMBDA i : KeySet(s[i]) \cap m # {})
            [] c.o = "--none-matching" -> SelIdx(s, LAMBDA i : KeySet(s[i]) \cap m = {}))
    [] c.v = "grep" -> SelIdx(s, LAMBDA i : GrepMatches(c, s[i]) # HasOpt(c, "-v"))
    [] c.v = "group-by" -> Grouped(s, g)
    [] c.v = "group-like" ->
         LET firsts == IdxWhere(s, LAMBDA i : \A j \in 1..(i - 1) : KeysOf(s[j]) # KeysOf(s[i]))
         IN Flatten1([k \in 1..Len(firsts) |-> SelIdx(s, LAMBDA j : KeysOf(s[j]) = KeysOf(s[firsts[k]]))])
    [] c.v = "uniq-a" ->
         LET fi == FirstIdx(s) IN
         (CASE c.o = ""   -> [k \in 1..Len(fi) |-> s[fi[k]]]
           [] c.o = "-c" -> [k \in 1..Len(fi) |-> <<<<"count", ToString(Mult(s, fi[k]))>>>> \o s[fi[k]]]
           [] c.o = "-n" -> << <<<<"count", ToString(Len(fi))>>>> >>)
    [] c.v = "skip-trivial-records" -> SelIdx(s, LAMBDA i : ~Trivial(s[i]))
    [] OTHER -> <<"no deterministic expectation">>

Deterministic(c) == ~(c.v \in {"shuffle", "bootstrap", "sample"} \/ (c.v = "cat" /\ c.o # "" /\ c.g # <<>>) \/ (c.v = "head" /\ c.n < 0) \/ (c.v = "tail" /\ c.o = "+"))

\* order within each group as in the input, multiset as given
PerGroupOrdered(out, want, g) ==
  /\ SameBag(out, want)
  /\ \A i \in 1..Len(want) :
       SelIdx(out, LAMBDA j : HasAll(out[j], g) /\ GroupKey(out[j], g) = GroupKey(want[i], g))
         = SelIdx(want, LAMBDA j : GroupKey(want[j], g) = GroupKey(want[i], g))

Allowed(c, s, out) ==
  LET g == c.g  n == c.n IN
  CASE Deterministic(c) -> out = Expected(c, s)
    [] c.v = "head" /\ n < 0 ->     \* all but the last -n of each group
         PerGroupOrdered(out, SelIdx(s, LAMBDA i : HasAll(s[i], g) /\ Rank(s, g, i) <= GroupSize(s, g, i) + n), g)
    [] c.v = "tail" /\ c.o = "+" -> \* from the n-th of each group on
         PerGroupOrdered(out, SelIdx(s, LAMBDA i : HasAll(s[i], g) /\ Rank(s, g, i) >= n), g)
    [] c.v = "cat" ->               \* cat -n/-N -g: "numbers each group 1..n"; the reference does not say what happens to
                                    \* records lacking the group-by fields: they may be dropped or passed with some counter
         /\ Len(out) <= Len(s)
         /\ \A j \in 1..Len(out) : Len(out[j]) >= 1 /\ out[j][1][1] = CounterName(c)
         /\ LET body == [j \in 1..Len(out) |-> Tail(out[j])]
                keyedOut == SelIdx(out, LAMBDA j : HasAll(body[j], g))
                keyedIn == IdxWhere(s, LAMBDA i : HasAll(s[i], g))
            IN /\ keyedOut = [k \in 1..Len(keyedIn) |-> <<<<CounterName(c), ToString(Rank(s, g, keyedIn[k]))>>>> \o s[keyedIn[k]]]
               /\ SubBag(SelIdx(body, LAMBDA j : ~HasAll(body[j], g)), SelIdx(s, LAMBDA i : ~HasAll(s[i], g)))
    [] c.v = "shuffle" -> SameBag(out, s)
    [] c.v = "bootstrap" -> Len(out) = Len(s) /\ AllFrom(out, s)
    [] c.v = "sample" ->            \* per group: all of a group not larger than k, else k of its records, without replacement
         LET keyed == SelIdx(s, LAMBDA i : HasAll(s[i], g)) IN
         /\ SubBag(out, keyed)
         /\ \A i \in 1..Len(keyed) :
              LET have == Len(SelIdx(out, LAMBDA j : HasAll(out[j], g) /\ GroupKey(out[j], g) = GroupKey(keyed[i], g)))
                  size == Len(SelIdx(keyed, LAMBDA j : GroupKey(keyed[j], g) = GroupKey(keyed[i], g)))
              IN have = (IF size <= n THEN size ELSE n)

(***************************************************************************)
(* Laws of C11 as theorems of these definitions (checked by TLC over the     *)
(* whole bounded space in VerbsSelectMC.tla)                                 *)
(***************************************************************************)
HeadK(k, g) == [v |-> "head", n |-> k, g |-> g, o |-> ""]
OnlySelects(c, s) == Deterministic(c) /\ c.v \notin {"cat", "uniq-a"} => SubBag(Expected(c, s), s)
HeadTailSplit(s, k) ==      \* |head -n k| + |tail -n +(k+1)| = N, and together they are the input
  Expected(HeadK(k, <<>>), s) \o SelIdx(s, LAMBDA i : i >= k + 1) = s
FilterPartition(e, s) ==
  SameBag(Expected([v |-> "filter", n |-> 0, g |-> <<>>, o |-> e], s) \o Expected([v |-> "filter-x", n |-> 0, g |-> <<>>, o |-> e], s), s)
TacTwice(s) == Rev(Rev(s)) = s
GroupSizesAddUp(s, g) == Len(Grouped(s, g)) = Cardinality({i \in 1..Len(s) : HasAll(s[i], g)})
GroupByIsPermOfKeyed(s, g) == SameBag(Grouped(s, g), SelIdx(s, LAMBDA i : HasAll(s[i], g)))
=============================================================================
