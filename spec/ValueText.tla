------------------------------ MODULE ValueText ------------------------------
(***************************************************************************)
(* C03: a field value that nothing assigns is emitted with exactly the text *)
(* it had on input.  Each field value is a little machine                   *)
(*    [orig, text, typed, assigned]                                         *)
(* Infer (just-in-time typing) and ReadBy (any operation that inspects the  *)
(* value) must not change `text`; Assign does; Emit prints `text`, except   *)
(* for the two documented re-renderings: JSON/YAML output of a numeral that *)
(* is not a legal JSON number, and --ofmt applied to (computed) floats.     *)
(* The invariant is what the design promises; the binding to the code is    *)
(* the catalogue of read-only operations below, composed in chains.         *)
(***************************************************************************)
EXTENDS Integers, Sequences, FiniteSets, TLC

CONSTANT Texts            \* a few spellings, for the model-checked machine
VARIABLES v, emitted      \* the value machine; what the writer printed last ("-" = nothing yet)
vars == <<v, emitted>>

Init == \E t \in Texts : v = [orig |-> t, text |-> t, typed |-> FALSE, assigned |-> FALSE] /\ emitted = "-"
Infer == ~v.typed /\ v' = [v EXCEPT !.typed = TRUE] /\ UNCHANGED emitted           \* type inferred from the text; text kept
ReadBy == v' = [v EXCEPT !.typed = TRUE] /\ UNCHANGED emitted                      \* sort key, comparison, arithmetic into another field ...
Copy == UNCHANGED vars                                                             \* copying a record copies the text
Assign(t) == v' = [orig |-> v.orig, text |-> t, typed |-> TRUE, assigned |-> TRUE] /\ UNCHANGED emitted
EmitPlain == emitted' = v.text /\ UNCHANGED v                                      \* non-JSON output, no --ofmt
Next == Infer \/ ReadBy \/ Copy \/ (\E t \in Texts : Assign(t)) \/ EmitPlain
Spec == Init /\ [][Next]_vars
PassThrough == (~v.assigned /\ emitted # "-") => emitted = v.orig
TextStable == ~v.assigned => v.text = v.orig

(***************************************************************************)
(* The catalogue of operations that READ field x (and may write other       *)
(* fields) but never assign it.  Attributes say what such an operation may  *)
(* legitimately do to the stream, from reference-verbs.md:                  *)
(*   perm : may reorder records      sub : may drop records                 *)
(*   move : may move field x within its record                              *)
(*   only : emits x's distinct values instead of the records                *)
(***************************************************************************)
Op(argv, perm, sub, move, only) == [argv |-> argv, perm |-> perm, sub |-> sub, move |-> move, only |-> only]
Plain(argv) == Op(argv, FALSE, FALSE, FALSE, FALSE)
Catalogue == {
  Plain(<<"cat">>), Plain(<<"cat", "-n", "-g", "x">>), Plain(<<"tee", "tee.out">>),
  Op(<<"sort", "-f", "x">>, TRUE, FALSE, FALSE, FALSE), Op(<<"sort", "-r", "x">>, TRUE, FALSE, FALSE, FALSE),
  Op(<<"sort", "-nf", "x">>, TRUE, FALSE, FALSE, FALSE), Op(<<"sort", "-nr", "x">>, TRUE, FALSE, FALSE, FALSE),
  Op(<<"sort", "-c", "x">>, TRUE, FALSE, FALSE, FALSE), Op(<<"sort", "-t", "x">>, TRUE, FALSE, FALSE, FALSE),
  Op(<<"sort", "-f", "k", "-nr", "x">>, TRUE, FALSE, FALSE, FALSE),
  Op(<<"tac">>, TRUE, FALSE, FALSE, FALSE), Op(<<"group-by", "x">>, TRUE, FALSE, FALSE, FALSE),
  Op(<<"group-like">>, TRUE, FALSE, FALSE, FALSE), Op(<<"shuffle">>, TRUE, FALSE, FALSE, FALSE),
  Op(<<"count-similar", "-g", "x">>, TRUE, FALSE, FALSE, FALSE),
  Op(<<"head", "-n", "2", "-g", "x">>, FALSE, TRUE, FALSE, FALSE), Op(<<"tail", "-n", "2", "-g", "x">>, TRUE, TRUE, FALSE, FALSE),
  Op(<<"top", "-n", "3", "-f", "x", "-a">>, TRUE, TRUE, FALSE, FALSE),
  Op(<<"uniq", "-g", "x">>, FALSE, TRUE, TRUE, TRUE), Op(<<"count-distinct", "-f", "x">>, FALSE, TRUE, TRUE, TRUE),
  Op(<<"uniq", "-a">>, FALSE, TRUE, FALSE, FALSE),
  Plain(<<"step", "-a", "delta,shift,counter,rsum", "-f", "x">>), Plain(<<"step", "-a", "shift_lag,ratio", "-f", "x">>),
  Plain(<<"merge-fields", "-k", "-a", "sum,max,count", "-f", "x,y", "-o", "m">>),
  Plain(<<"merge-fields", "-k", "-a", "min,mean", "-c", "x,y", "-o", "m">>),
  Plain(<<"fill-down", "-f", "y">>), Plain(<<"fill-down", "-a">>), Plain(<<"sec2gmt", "y">>),
  Plain(<<"fraction", "-f", "y">>), Plain(<<"stats1", "-a", "sum,p50", "-f", "y", "-s">>) ,
  Op(<<"filter", "$x != \"zzz\"">>, FALSE, TRUE, FALSE, FALSE), Op(<<"filter", "is_present($x)">>, FALSE, TRUE, FALSE, FALSE),
  Op(<<"filter", "$x < 1000000 || true">>, FALSE, TRUE, FALSE, FALSE),
  Plain(<<"put", "$z = $x + 1">>), Plain(<<"put", "$z = $x . \"s\"">>), Plain(<<"put", "$z = typeof($x)">>),
  Plain(<<"put", "$z = is_int($x) || is_float($x)">>), Plain(<<"put", "$z = $x < 3">>), Plain(<<"put", "$z = $x == $y">>),
  Plain(<<"put", "$z = fmtnum($x, \"%08.3lf\")">>), Plain(<<"put", "$z = fmtifnum($x, \"%d\")">>), Plain(<<"put", "$z = abs($x)">>),
  Plain(<<"put", "$z = strlen($x)">>), Plain(<<"put", "$z = $x ?? \"d\"">>), Plain(<<"put", "$z = asserting_not_null($x . \"a\")">>),
  Plain(<<"put", "$z = min($x, $y)">>), Plain(<<"put", "$z = $x * 1.5">>), Plain(<<"put", "$z = $x // 2">>),
  Plain(<<"put", "$z = hexfmt($x)">>), Plain(<<"put", "$z = int($x)">>), Plain(<<"put", "$z = float($x)">>),
  Plain(<<"put", "$z = string($x)">>), Plain(<<"put", "$z = sec2gmt($x)">>), Plain(<<"put", "$z = $x =~ \"^0x\"">>),
  Plain(<<"put", "$z = splitax($x, \".\")[1]">>), Plain(<<"put", "$z = json_stringify($x)">>), Plain(<<"put", "$z = bitcount($x)">>),
  Plain(<<"put", "m = $*; $z = m[\"x\"] . \"\"">>), Plain(<<"put", "@s[$x] = $y; $z = 1">>), Plain(<<"put", "@sum += $x; $z = @sum">>),
  Plain(<<"put", "func f(a) { return a + 1 } $z = f($x)">>), Plain(<<"put", "if ($x > 0) {$z = 1} else {$z = 2}">>),
  Plain(<<"put", "for (k, v in $*) { if (k == \"x\") {$z = v . \"\"} }">>), Plain(<<"put", "$z = sort_by_key($*)[\"x\"] . \"\"">>),
  Plain(<<"put", "$z = percentile([$x, $y], 50)">>), Plain(<<"put", "$z = format_values is_absent">>) ,
  Op(<<"reorder", "-f", "y">>, FALSE, FALSE, TRUE, FALSE), Op(<<"reorder", "-e", "-f", "k">>, FALSE, FALSE, TRUE, FALSE),
  Op(<<"rename", "y,w">>, FALSE, FALSE, FALSE, FALSE), Op(<<"cut", "-o", "-f", "y,x,k">>, FALSE, FALSE, TRUE, FALSE),
  Op(<<"cut", "-x", "-f", "y">>, FALSE, FALSE, TRUE, FALSE), Op(<<"sort-within-records">>, FALSE, FALSE, TRUE, FALSE),
  Op(<<"sort-within-records", "-r">>, FALSE, FALSE, TRUE, FALSE), Plain(<<"regularize">>), Plain(<<"unsparsify">>),
  \* (no `label`: it renames by POSITION, and after `reorder -e -f k` the first field is x itself)
  Op(<<"nest", "--ivar", ";", "-f", "y">>, TRUE, TRUE, FALSE, FALSE),
  Op(<<"template", "-f", "k,x,y,z">>, FALSE, FALSE, TRUE, FALSE), Plain(<<"sparsify", "-f", "y">>),
  Op(<<"sec2gmtdate", "y">>, FALSE, FALSE, FALSE, FALSE), Plain(<<"gap", "-n", "100">>), Plain(<<"fill-empty", "--only-if-blank", "-v", "X", "--only-if-all-blank">>)
} \ {Plain(<<"put", "$z = format_values is_absent">>), Plain(<<"fill-empty", "--only-if-blank", "-v", "X", "--only-if-all-blank">>)}

\* Operations that COPY x (into another field, a map, an out-of-stream variable) and then change the copy, in the same
\* verb or in a following one (an operation may be a short then-chain): assignment copies, so x keeps its text.  The engine
\* runs every catalogue operation in front of each of these (the value has then been read, typed, compared ... before it is
\* copied).
CopyThenChange == {
  Plain(<<"put", "$z = $x", "then", "json-parse", "-f", "z">>), Plain(<<"put", "$z = $x", "then", "json-stringify", "-f", "z">>),
  Plain(<<"put", "$z = $x", "then", "sec2gmt", "z">>), Plain(<<"put", "$z = $x", "then", "put", "$z[1] = \"q\"">>),
  Plain(<<"put", "$z = $x; $z[\"k\"] = 1">>), Plain(<<"put", "$z = $x; $z[1] = 5">>), Plain(<<"put", "$z = $x; $z .= \"s\"">>),
  Plain(<<"put", "m = $*; m[\"x\"][1] = 5; $z = 1">>), Plain(<<"put", "@v = $x; @v[1] = 5; $z = 1">>),
  Plain(<<"put", "v = $x; v[1][2] = 5; $z = 1">>), Plain(<<"put", "$z = $x", "then", "sub", "-f", "z", "0", "Q">>),
  Plain(<<"put", "$z = $x", "then", "fill-empty", "-v", "E", "--only-if-blank">>),
  Plain(<<"put", "$z = $x", "then", "nest", "--explode", "--values", "--across-fields", "-f", "z", "--nested-fs", ";">>),
  Plain(<<"put", "if (is_string($x) || is_present($x)) {$z = $x; $z[1] = \"q\"}">>),
  Plain(<<"put", "$z = typeof($x); $w = $x; $w[1] = $z">>),
  \* an indexed assignment INTO another field that is empty on input (every record has such a field, e): the empty texts of
  \* the stream are not one shared value
  Plain(<<"put", "$e[1] = \"t\"">>), Plain(<<"put", "$e[\"k\"] = 1">>), Plain(<<"put", "NR == 2 {$e[1][2] = 3}">>),
  Plain(<<"put", "-q", "tee > \"tee2.out\", $*; $x_copy = $x; emit mapsum($*, {\"z\": 1})">>) }

(***************************************************************************)
(* Judgement of one run: inx / outx are the texts of field x in the input   *)
(* and output records (a record without x contributes nothing); pos is, per *)
(* output record having x, whether x is still at its input position.        *)
(***************************************************************************)
RECURSIVE RemoveOne(_, _)
RemoveOne(s, e) == IF s = <<>> THEN <<>> ELSE IF Head(s) = e THEN Tail(s) ELSE <<Head(s)>> \o RemoveOne(Tail(s), e)
RECURSIVE SubBag(_, _)
SubBag(t, s) == IF t = <<>> THEN TRUE ELSE (\E i \in 1..Len(s) : s[i] = Head(t)) /\ SubBag(Tail(t), RemoveOne(s, Head(t)))
RECURSIVE IsSubseq(_, _)
IsSubseq(t, s) == IF t = <<>> THEN TRUE ELSE IF s = <<>> THEN FALSE
                  ELSE IF Head(t) = Head(s) THEN IsSubseq(Tail(t), Tail(s)) ELSE IsSubseq(t, Tail(s))
Distinct(s) == LET F[i \in 0..Len(s)] == IF i = 0 THEN <<>> ELSE IF \E j \in 1..(i - 1) : s[j] = s[i] THEN F[i - 1] ELSE Append(F[i - 1], s[i]) IN F[Len(s)]

\* the combined licence of a chain of operations
ChainPerm(ops) == \E i \in 1..Len(ops) : ops[i].perm
ChainSub(ops)  == \E i \in 1..Len(ops) : ops[i].sub
ChainMove(ops) == \E i \in 1..Len(ops) : ops[i].move
ChainOnly(ops) == \E i \in 1..Len(ops) : ops[i].only

TextsOK(ops, inx, outx) ==
  IF ChainOnly(ops) THEN \A i \in 1..Len(outx) : \E j \in 1..Len(inx) : inx[j] = outx[i]    \* every emitted value is an input text
  ELSE IF ChainSub(ops) THEN (IF ChainPerm(ops) THEN SubBag(outx, inx) ELSE IsSubseq(outx, inx))
  ELSE IF ChainPerm(ops) THEN Len(outx) = Len(inx) /\ SubBag(outx, inx)
  ELSE outx = inx
PositionsOK(ops, pos) == ChainMove(ops) \/ ChainOnly(ops) \/ \A i \in 1..Len(pos) : pos[i]
=============================================================================
