------------------------------- MODULE Zones -------------------------------
(***************************************************************************)
(* The zone part of C16: a TABULATED model of some IANA time zones and the  *)
(* texts Miller's local-time functions are documented to print and parse    *)
(* for them.                                                                *)
(*                                                                          *)
(* The table (section 2) is written down from the rules of the IANA tz      *)
(* database (release 2025b; files northamerica, europe, asia, australasia,  *)
(* southamerica) in the form the database itself uses: "at wall-clock time  *)
(* hh:mm of the n-th / last Sunday of a month" for the regular rules,       *)
(* explicit local dates where a government decreed them (Brazil, Turkey,    *)
(* Samoa).  A table entry ("segment") describes one zone for a range of     *)
(* whole UTC years: the state in force at the start and every transition in *)
(* the range.  Nothing is claimed outside the listed ranges.                *)
(*                                                                          *)
(* An instant is <<n, s>>: n days since 1970-01-01, s second of that day    *)
(* (as in Calendar.tla; nothing needs more than 32 bits).  A state is the   *)
(* offset from UTC in seconds (east positive), the is-DST flag of the       *)
(* database (documentation only: no Miller function shows it) and the       *)
(* abbreviation.  A transition is an instant plus the state after it.       *)
(*                                                                          *)
(* Semantics (reference-dsl-time.md "Local times with standard format;      *)
(* specifying timezones", "strptime_local and strftime_local", the help     *)
(* texts of the twelve functions with "local" in their names, the flag      *)
(* table entry of --tz):                                                    *)
(*  - the local text of instant t in zone z is the GMT calendar text of     *)
(*    t + Offset(z, t); %z / %Z print the offset / abbreviation in force,   *)
(*    %s stays the epoch seconds of t;                                      *)
(*  - parsing a local text without zone information yields an instant whose *)
(*    local text it is (Candidates: none in a gap, two in an overlap);      *)
(*  - with %z the offset IN THE TEXT decides, whatever zone is in force;    *)
(*  - the zone is the function's own argument if supplied, else the current *)
(*    value of the TZ environment variable inside the process: the last     *)
(*    assignment to ENV["TZ"], else --tz ("overriding $TZ"), else TZ.       *)
(***************************************************************************)
EXTENDS Calendar

(***************************************************************************)
(* 1. Instants, states, transitions, the rule vocabulary of the database.   *)
(***************************************************************************)
Leq(a, b) == a[1] < b[1] \/ (a[1] = b[1] /\ a[2] <= b[2])
Lt(a, b)  == a[1] < b[1] \/ (a[1] = b[1] /\ a[2] < b[2])
\* the instant d seconds after a (d may be negative; |d| is far below 2^31)
Plus(a, d) == <<a[1] + ((a[2] + d) \div 86400), (a[2] + d) % 86400>>
Utc(y, m, d, sod) == <<DaysFromCivil(y, m, d), sod>>
H(h) == h * 3600
HM(h, m) == h * 3600 + m * 60

St(off, dst, abbr) == [off |-> off, dst |-> dst, abbr |-> abbr]
Tr(at, st) == [at |-> at, off |-> st.off, dst |-> st.dst, abbr |-> st.abbr]
\* "at wall-clock time `wall` (seconds of the day) of local day n, read under the state in force before it"
AtWall(n, wall, before, after) == Tr(Plus(<<n, 0>>, wall - before.off), after)
\* "at time u of day n, universal time" (the database's `u` suffix)
AtUtc(n, u, after) == Tr(<<n, u>>, after)
\* the database's day forms "Sun>=d" and "lastSun"
SunOnOrAfter(y, m, d) == LET n == DaysFromCivil(y, m, d) IN n + ((7 - Weekday(n)) % 7)
LastSun(y, m) == LET n == DaysFromCivil(y, m, DaysInMonth(y, m)) IN n - Weekday(n)
Day(y, m, d) == DaysFromCivil(y, m, d)
\* the two transitions F(y) of every year y1..y2, in order
Years(y1, y2, F(_)) == [i \in 1..(2 * (y2 - y1 + 1)) |-> F(y1 + ((i - 1) \div 2))[((i - 1) % 2) + 1]]
Seg(zone, y1, y2, init, tr) ==
  [zone |-> zone, y1 |-> y1, y2 |-> y2, lo |-> Utc(y1, 1, 1, 0), hi |-> Utc(y2 + 1, 1, 1, 0),
   init |-> Tr(Utc(y1, 1, 1, 0), init), tr |-> tr,
   offs |-> {init.off} \cup {tr[i].off : i \in 1..Len(tr)}]           \* every offset the zone has in the segment

(***************************************************************************)
(* 2. The table.                                                            *)
(***************************************************************************)
\* ---- United States (Rule US): 1967-1973 and 1976-1986 last Sunday of April, 1987-2006 first Sunday of April, from
\* 2007 second Sunday of March; until 2006 last Sunday of October, from 2007 first Sunday of November; 2:00 wall clock.
\* (1974 and 1975 had emergency dates: not tabulated.)
UsStart(y) == IF y >= 2007 THEN SunOnOrAfter(y, 3, 8) ELSE IF y >= 1987 THEN SunOnOrAfter(y, 4, 1) ELSE LastSun(y, 4)
UsEnd(y)   == IF y >= 2007 THEN SunOnOrAfter(y, 11, 1) ELSE LastSun(y, 10)
US(y, std, dst) == <<AtWall(UsStart(y), H(2), std, dst), AtWall(UsEnd(y), H(2), dst, std)>>
EST == St(-18000, FALSE, "EST")
EDT == St(-14400, TRUE, "EDT")
\* Alaska: Alaska-Hawaii time (-10) until 1983; Alaska time (-9) named AKST/AKDT since 1983-11-30
AHST == St(-36000, FALSE, "AHST")
AHDT == St(-32400, TRUE, "AHDT")
AKST == St(-32400, FALSE, "AKST")
AKDT == St(-28800, TRUE, "AKDT")
\* Newfoundland (Rule Canada since 2011-11: the US days at 2:00 wall clock), -3:30 / -2:30
NST == St(-12600, FALSE, "NST")
NDT == St(-9000, TRUE, "NDT")

\* ---- European Union (Rule EU since 1996): last Sunday of March and of October at 1:00 universal time
GMT0 == St(0, FALSE, "GMT")
BST  == St(3600, TRUE, "BST")
\* "British Standard Time": 1968-10-27 .. 1971-10-31 the United Kingdom stayed on +1 all year, not as daylight saving
BSTstd == St(3600, FALSE, "BST")
EU(y, std, dst) == <<AtUtc(LastSun(y, 3), H(1), dst), AtUtc(LastSun(y, 10), H(1), std)>>

\* ---- Turkey: 1996-2006 last Sunday of March / October at 1:00 standard time (Rule Turkey); 2007-2010, 2012, 2013 the EU
\* rule; 2011 one day late (Monday 28 March), 2014 one day late (Monday 31 March, local elections), 2015 end on
\* 8 November (general election); 2016 start on 27 March, and from 2016-09-07 00:00 permanent +03 without a name
EET  == St(7200, FALSE, "EET")
EEST == St(10800, TRUE, "EEST")
TRT  == St(10800, FALSE, "+03")
TurkeyOld(y) == <<AtWall(LastSun(y, 3), H(1), EET, EEST), AtWall(LastSun(y, 10), H(2), EEST, EET)>>
Turkey(y) ==
  CASE y <= 2006 -> TurkeyOld(y)
    [] y = 2011 -> <<AtUtc(Day(2011, 3, 28), H(1), EEST), EU(y, EET, EEST)[2]>>
    [] y = 2014 -> <<AtUtc(Day(2014, 3, 31), H(1), EEST), EU(y, EET, EEST)[2]>>
    [] y = 2015 -> <<EU(y, EET, EEST)[1], AtUtc(Day(2015, 11, 8), H(1), EET)>>
    [] y = 2016 -> <<EU(y, EET, EEST)[1], AtWall(Day(2016, 9, 7), 0, EEST, TRT)>>
    [] OTHER -> EU(y, EET, EEST)

\* ---- Brazil (Rule Brazil, decrees): summer time began at 0:00 and ended at 0:00 (wall clock) on these local dates;
\* abolished in 2019.  Per year: <<month, day>> of the end (February) and of the start (October / November).
BRT  == St(-10800, FALSE, "-03")
BRST == St(-7200, TRUE, "-02")
BrazilDates == [y \in 2000..2018 |->
  CASE y = 2000 -> <<2, 27, 10, 8>>   [] y = 2001 -> <<2, 18, 10, 14>>  [] y = 2002 -> <<2, 17, 11, 3>>
    [] y = 2003 -> <<2, 16, 10, 19>>  [] y = 2004 -> <<2, 15, 11, 2>>   [] y = 2005 -> <<2, 20, 10, 16>>
    [] y = 2006 -> <<2, 19, 11, 5>>   [] y = 2007 -> <<2, 25, 10, 14>>  [] y = 2008 -> <<2, 17, 10, 19>>
    [] y = 2009 -> <<2, 15, 10, 18>>  [] y = 2010 -> <<2, 21, 10, 17>>  [] y = 2011 -> <<2, 20, 10, 16>>
    [] y = 2012 -> <<2, 26, 10, 21>>  [] y = 2013 -> <<2, 17, 10, 20>>  [] y = 2014 -> <<2, 16, 10, 19>>
    [] y = 2015 -> <<2, 22, 10, 18>>  [] y = 2016 -> <<2, 21, 10, 16>>  [] y = 2017 -> <<2, 19, 10, 15>>
    [] y = 2018 -> <<2, 18, 11, 4>>]
Brazil(y) == LET b == BrazilDates[y] IN
  <<AtWall(Day(y, b[1], b[2]), 0, BRST, BRT), AtWall(Day(y, b[3], b[4]), 0, BRT, BRST)>>
\* the last summer time ended on 2019-02-17 and none began in 2019
BrazilTr == Years(2000, 2018, Brazil) \o <<AtWall(Day(2019, 2, 17), 0, BRST, BRT)>>

\* ---- Australia (Rule AN since 2008): first Sunday of October to first Sunday of April, at 2:00 STANDARD time;
\* Lord Howe Island (Rule LH since 2008): the same days at 2:00 WALL clock, and only half an hour of shift
AEST == St(36000, FALSE, "AEST")
AEDT == St(39600, TRUE, "AEDT")
Sydney(y) == <<AtWall(SunOnOrAfter(y, 4, 1), H(3), AEDT, AEST), AtWall(SunOnOrAfter(y, 10, 1), H(2), AEST, AEDT)>>
LHST == St(37800, FALSE, "+1030")
LHDT == St(39600, TRUE, "+11")
LordHowe(y) == <<AtWall(SunOnOrAfter(y, 4, 1), H(2), LHDT, LHST), AtWall(SunOnOrAfter(y, 10, 1), H(2), LHST, LHDT)>>

\* ---- Samoa (Zone Pacific/Apia, Rule WS): -11 with a first summer time from 2010-09-26 0:00; summer time ended
\* 2011-04-02 4:00, began again 2011-09-24 3:00; at the end of 2011-12-29 the country moved across the date line
\* (2011-12-30 does not exist there: -10 became +14); from 2012 first Sunday of April 4:00 to last Sunday of September
\* 3:00; the last summer time ended 2021-04-04.
WSTold  == St(-39600, FALSE, "-11")
WSDTold == St(-36000, TRUE, "-10")
WST     == St(46800, FALSE, "+13")
WSDT    == St(50400, TRUE, "+14")
Samoa(y) == <<AtWall(SunOnOrAfter(y, 4, 1), H(4), WSDT, WST), AtWall(LastSun(y, 9), H(3), WST, WSDT)>>
ApiaTr ==
  <<AtWall(Day(2010, 9, 26), 0, WSTold, WSDTold), AtWall(Day(2011, 4, 2), H(4), WSDTold, WSTold),
    AtWall(Day(2011, 9, 24), H(3), WSTold, WSDTold), AtWall(Day(2011, 12, 30), 0, WSDTold, WSDT)>>
  \o Years(2012, 2020, Samoa) \o <<Samoa(2021)[1]>>

\* ---- Hong Kong (Rule HK 1965-1976): third Sunday of April ("Sun>=16") to third Sunday of October, at 3:30 wall clock
HKT  == St(28800, FALSE, "HKT")
HKST == St(32400, TRUE, "HKST")
HongKong(y) == <<AtWall(SunOnOrAfter(y, 4, 16), HM(3, 30), HKT, HKST), AtWall(SunOnOrAfter(y, 10, 16), HM(3, 30), HKST, HKT)>>

\* ---- Nepal: +5:30 until the end of 1985, +5:45 from 1986-01-01 0:00 (no daylight saving, no names)
NPT1 == St(19800, FALSE, "+0530")
NPT2 == St(20700, FALSE, "+0545")

None0 == <<>>
Segs == <<
  Seg("Asia/Tokyo",          1970, 2037, St(32400, FALSE, "JST"), None0),
  Seg("Asia/Kolkata",        1970, 2037, St(19800, FALSE, "IST"), None0),
  Seg("Asia/Kathmandu",      1970, 2037, NPT1, <<AtWall(Day(1986, 1, 1), 0, NPT1, NPT2)>>),
  Seg("Asia/Hong_Kong",      1969, 1970, HKT, Years(1969, 1970, HongKong)),
  Seg("Asia/Hong_Kong",      1980, 2037, HKT, None0),
  Seg("Asia/Istanbul",       1969, 1970, EET, None0),
  Seg("Asia/Istanbul",       1996, 2037, EET, Years(1996, 2016, Turkey)),
  Seg("Europe/London",       1969, 1970, BSTstd, None0),
  Seg("Europe/London",       1996, 2037, GMT0, Years(1996, 2037, LAMBDA y : EU(y, GMT0, BST))),
  Seg("America/New_York",    1967, 1973, EST, Years(1967, 1973, LAMBDA y : US(y, EST, EDT))),
  Seg("America/New_York",    1976, 2037, EST, Years(1976, 2037, LAMBDA y : US(y, EST, EDT))),
  Seg("America/Anchorage",   1969, 1970, AHST, Years(1969, 1970, LAMBDA y : US(y, AHST, AHDT))),
  Seg("America/Anchorage",   1984, 2037, AKST, Years(1984, 2037, LAMBDA y : US(y, AKST, AKDT))),
  Seg("America/St_Johns",    2012, 2037, NST, Years(2012, 2037, LAMBDA y : US(y, NST, NDT))),
  Seg("America/Sao_Paulo",   1969, 1970, BRT, None0),
  Seg("America/Sao_Paulo",   2000, 2037, BRST, BrazilTr),
  Seg("Australia/Sydney",    2008, 2037, AEDT, Years(2008, 2037, Sydney)),
  Seg("Australia/Lord_Howe", 2008, 2037, LHDT, Years(2008, 2037, LordHowe)),
  Seg("Pacific/Apia",        2010, 2037, WSTold, ApiaTr)
>>
NSegs == Len(Segs)
ZoneNames == <<"Asia/Tokyo", "Asia/Kolkata", "Asia/Kathmandu", "Asia/Hong_Kong", "Asia/Istanbul", "Europe/London",
               "America/New_York", "America/Anchorage", "America/St_Johns", "America/Sao_Paulo", "Australia/Sydney",
               "Australia/Lord_Howe", "Pacific/Apia">>
\* abbreviations that are numbers, not names (the database gives no name to these states)
NumericAbbrs == {"+0530", "+0545", "+03", "-03", "-02", "+1030", "+11", "-11", "-10", "+13", "+14"}
\* a class name, only used to describe a finding (TLA+ strings cannot be measured)
NameClass(abbr) == IF abbr \in NumericAbbrs THEN "numeric"
                   ELSE IF abbr \in {"AHST", "AHDT", "AKST", "AKDT", "HKST", "EEST", "AEST", "AEDT"} THEN "four-letter" ELSE "three-letter"

(***************************************************************************)
(* 3. Lookup.  The state in force at t is that of the last transition not   *)
(*    after t (the initial state if there is none); found by bisection,     *)
(*    which ZonesMC proves equal to the definition.                         *)
(***************************************************************************)
InSeg(sg, t) == Leq(sg.lo, t) /\ Lt(t, sg.hi)
RECURSIVE CountLeq(_, _, _, _)
CountLeq(tr, t, lo, hi) ==          \* the number of transitions not after t, known to lie in lo..hi
  IF lo >= hi THEN lo
  ELSE LET mid == (lo + hi + 1) \div 2 IN
       IF Leq(tr[mid].at, t) THEN CountLeq(tr, t, mid, hi) ELSE CountLeq(tr, t, lo, mid - 1)
StateIn(sg, t) == LET k == CountLeq(sg.tr, t, 0, Len(sg.tr)) IN IF k = 0 THEN sg.init ELSE sg.tr[k]
\* the same, as a definition: the transitions not after t are a prefix of the (strictly ordered: ZonesMC.Table) sequence,
\* and the last of them is in force
StateDef(sg, t) ==
  LET S == {i \in 1..Len(sg.tr) : Leq(sg.tr[i].at, t)} IN IF S = {} THEN sg.init ELSE sg.tr[Cardinality(S)]
Offset(sg, t) == StateIn(sg, t).off
Local(sg, t) == Plus(t, Offset(sg, t))          \* the local civil time, as an "instant" of the GMT calendar
\* the state before transition i
Before(sg, i) == IF i = 1 THEN sg.init ELSE sg.tr[i - 1]
OffsetsOf(sg) == sg.offs
\* the instants whose local time is L: the inverse image of Local (L - o for an offset o of the zone, if o is in force then)
Candidates(sg, L) == {t \in {Plus(L, -o) : o \in OffsetsOf(sg)} : InSeg(sg, t) /\ Local(sg, t) = L}
\* which segment of the table speaks about zone z at instant t
KnownAt(z, t) == \E k \in 1..NSegs : Segs[k].zone = z /\ InSeg(Segs[k], t)
SegAt(z, t) == CHOOSE k \in 1..NSegs : Segs[k].zone = z /\ InSeg(Segs[k], t)
\* local times that do not exist / exist twice because of transition i
GapOf(sg, i, L) == Leq(Plus(sg.tr[i].at, Before(sg, i).off), L) /\ Lt(L, Plus(sg.tr[i].at, sg.tr[i].off))
OverlapOf(sg, i, L) == Leq(Plus(sg.tr[i].at, sg.tr[i].off), L) /\ Lt(L, Plus(sg.tr[i].at, Before(sg, i).off))
\* what a parser may make of a local time inside the gap of transition i.  The reference is silent; admitted: reading
\* it with the offset before (the usual "spring forward" reading), with the offset after, the transition instant, or
\* refusing it
GapReadings(sg, i, L) == {Plus(L, -Before(sg, i).off), Plus(L, -sg.tr[i].off), sg.tr[i].at}

(***************************************************************************)
(* 4. Texts.                                                                *)
(***************************************************************************)
\* a format for a local text: %z, %Z and %s do not come from the shifted calendar fields
LocalFmt(fmt, t, st) ==
  [i \in 1..Len(fmt) |-> CASE fmt[i] = "%z" -> OffsetText(st.off \div 60)
                           [] fmt[i] = "%Z" -> st.abbr
                           [] fmt[i] = "%s" -> SecsText(t[1], t[2])
                           [] OTHER -> fmt[i]]
\* strftime_local / strfntime_local
LocalFormatted(fmt, sg, t, f) ==
  LET st == StateIn(sg, t)
      L  == Plus(t, st.off)
  IN Formatted(LocalFmt(fmt, t, st), L[1], L[2], f)
\* sec2localtime / nsec2localtime with k decimals: "for local times, Miller omits the T and the Z"
Stamp(L, f, k) ==
  LET F == Fields(L[1], L[2], f) IN
  IsoDate(F) \o " " \o Pad(F.H, 2) \o ":" \o Pad(F.M, 2) \o ":" \o Pad(F.S, 2) \o (IF k = 0 THEN "" ELSE "." \o FracDigits(f, k))
\* the text of instant t written with a fixed offset of `mins` minutes (for %z in texts to be parsed)
FixedFmt(fmt, mins, name) ==
  [i \in 1..Len(fmt) |-> CASE fmt[i] = "%z" -> OffsetText(mins) [] fmt[i] = "%Z" -> name [] OTHER -> fmt[i]]

(***************************************************************************)
(* 5. Which zone a call uses.  A setting says how zones were named to the   *)
(*    process and the call: arg (the function's own zone argument), env     *)
(*    (the last value assigned to ENV["TZ"] before the call), flag (--tz),  *)
(*    var (the TZ environment variable of the process); "" = not given.     *)
(***************************************************************************)
EffectiveZone(set) == IF set.arg # "" THEN set.arg ELSE IF set.env # "" THEN set.env ELSE IF set.flag # "" THEN set.flag ELSE set.var
=============================================================================
