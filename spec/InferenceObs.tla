----------------------------- MODULE InferenceObs -----------------------------
(* Judges what the real mlr inferred. Line: [s |-> tokens, flags |-> Seq(flag), src, t |-> typeof($x),          *)
(*  tp |-> typeof($x + 0), vp |-> text of $x + 0, isint, isfloat, isstring, isempty (BOOLEANs)]               *)
EXTENDS Inference, Json
CONSTANT ObsFile
Obs == ndJsonDeserialize(ObsFile)
VARIABLE l
Init == l = 1
Next == l < Len(Obs) /\ l' = l + 1
Why(o) ==
  LET c == Classify({o.flags[i] : i \in 1..Len(o.flags)}, o.src, o.s) IN
  IF ~TypeofOK(c, o.t) THEN "kind"
  ELSE IF ~PlusZeroOK(c, o.t, o.tp) THEN "arithmetic disagrees with typeof"
  ELSE IF ~ValueOK(c, o.t, o.vp) THEN "value"
  ELSE IF ~PredsOK(o.t, o.isint, o.isfloat, o.isstring, o.isempty) THEN "is_* disagree with typeof"
  ELSE "ok"
Conforms == Why(Obs[l]) = "ok" \/ PrintT(ToJson([line |-> l, why |-> Why(Obs[l])]))
=============================================================================
