--------------------------- MODULE InPlaceConfigs ---------------------------
(* Bounded scenario spaces for InPlace.tla *)
EXTENDS Integers, Sequences, FiniteSets

CONSTANT MaxFiles

Fk(k, n, gz) == [kind |-> k, n |-> n, gz |-> gz]
FileKinds == {Fk("ok", 1, FALSE), Fk("ok", 2, FALSE), Fk("ok", 1, TRUE), Fk("ok", 0, FALSE),
              Fk("missing", 0, FALSE),
              Fk("streamerr", 0, FALSE), Fk("streamerr", 2, FALSE), Fk("streamerr", 1, TRUE),
              Fk("abort", 1, FALSE), Fk("wrapfail", 0, FALSE), Fk("tempfail", 0, FALSE),
              Fk("writefail", 2, FALSE), Fk("writefail", 2, TRUE)}
FileLists == UNION {[1..l -> FileKinds] : l \in 1..MaxFiles}
MCScenarios == {[files |-> fl, prepipe |-> FALSE] : fl \in FileLists}
               \cup {[files |-> fl, prepipe |-> TRUE] : fl \in {x \in FileLists : \A i \in 1..Len(x) : x[i].kind = "ok"}}
=============================================================================
