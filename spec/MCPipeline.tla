---------------------------- MODULE MCPipeline ----------------------------
(* Exhaustive exploration of Pipeline.tla over the spaces of PipeConfigs.tla *)
EXTENDS Pipeline, PipeConfigs
=============================================================================
