-------------------------------- MODULE Regex --------------------------------
(***************************************************************************)
(* The regular-expression part of C15: an executable reference semantics   *)
(* for a sub-language of Miller's regexes and for the DSL functions and     *)
(* verbs built on it.                                                       *)
(*                                                                         *)
(* Sources.  reference-main-regular-expressions.md ("regular expressions    *)
(* of the types accepted by Go", the quoted `go doc regexp/syntax` table,    *)
(* "no implicit anchors", `"..."i`, the capture rules of `=~`, strmatchx),   *)
(* pkg.go.dev/regexp, which that page names as the reference ("the regexp   *)
(* returns a match that begins as early as possible in the input            *)
(* (leftmost), and among those it chooses the one that a backtracking       *)
(* search would have found first"; submatches "numbered from left to right  *)
(* in order of opening parenthesis"; 'All' routines: "successive            *)
(* non-overlapping matches of the entire expression.  Empty matches         *)
(* abutting a preceding match are ignored"), and `mlr help function ...` /   *)
(* `mlr <verb> --help` for sub gsub regextract regextract_or_else strmatch  *)
(* strmatchx =~ !=~ and the verbs sub gsub ssub cut having-fields rename    *)
(* grep.  Nothing here is taken from pkg/lib/regex.go.                      *)
(*                                                                         *)
(* The sub-language (regexp/syntax): single characters `x`, `.`, `[xyz]`,    *)
(* `[a-b]`, `[^xyz]`, `\d`, an escaped punctuation character `\.`; `xy`;     *)
(* `x|y` (prefer x); `x*` `x+` `x?` (prefer more / one); `(re)` numbered      *)
(* capturing group (one level); `^` `$` at beginning / end of text.          *)
(* A quantified group has a body that cannot match the empty string.        *)
(*                                                                         *)
(* A string is a sequence of abstract characters (as in Strings.tla); a      *)
(* regex is a syntax tree whose TEXT is defined here too (Text), so that    *)
(* the harness only spells tokens.  The matcher is the documented           *)
(* "backtracking search": M...(node, position) is the SEQUENCE of all ways   *)
(* the node can match from the position, in the order a backtracking        *)
(* search would try them; the first element of the whole-regex sequence at  *)
(* the leftmost position that has one is the match.                         *)
(***************************************************************************)
EXTENDS Integers, Sequences, FiniteSets, TLC

\* ---- characters ---------------------------------------------------------------------------------
\* Letters with case partners: a/A, b/B.  "Case-insensitive" folds (at least) the ASCII letters; the alphabet has no
\* non-ASCII letter with a partner, so that question does not arise.  e2 is a 2-byte character (é), c3 a 3-byte one.
Swap(c) == CASE c = "a" -> "A" [] c = "A" -> "a" [] c = "b" -> "B" [] c = "B" -> "b" [] OTHER -> c
Fold(c) == CASE c = "A" -> "a" [] c = "B" -> "b" [] OTHER -> c
IsUpper(c) == c \in {"A", "B"}
\* The order of the characters that occur (only the relative order matters: it decides membership in a range x-y;
\* ranges are used between two digits, two lower-case or two upper-case letters only).
Ord(c) == CASE c = "comma" -> 44 [] c = "dot" -> 46 [] c = "0" -> 48 [] c = "1" -> 49 [] c = "2" -> 50 [] c = "5" -> 53 [] c = "9" -> 57
            [] c = "colon" -> 58 [] c = "lt" -> 60 [] c = "eq" -> 61 [] c = "gt" -> 62
            [] c = "A" -> 65 [] c = "B" -> 66 [] c = "bsl" -> 92 [] c = "us" -> 95 [] c = "a" -> 97 [] c = "b" -> 98
            [] c = "e2" -> 233 [] c = "c3" -> 20013
IsDigit(c) == Ord(c) >= 48 /\ Ord(c) <= 57
DigitVal(c) == Ord(c) - 48
Width(c) == CASE c = "e2" -> 2 [] c = "c3" -> 3 [] OTHER -> 1

\* ---- syntax trees -----------------------------------------------------------------------------------
\* node = <<tag, quantifier, characters, children>>   (one shape for every node: TLC compares them freely)
\*   "lit" c        the character c                      "esc" c     \c for a punctuation character c
\*   "dot"          .                                   "dig"       \d  (== [0-9])
\*   "cls" body     [body]     "ncls" body   [^body]     body: characters; x "dash" y is the range x-y
\*   "bol" ^        "eol" $
\*   "grp" alts     (alt1|alt2|...)   numbered capturing group; children = alternatives
\*   "cat" items    one alternative: a concatenation of items (children)
\* quantifier: "" | "*" | "+" | "?"      A regex is a non-empty sequence of "cat" nodes (its alternatives).
N(tag, q, cs, kids) == <<tag, q, cs, kids>>
Lit(c) == N("lit", "", <<c>>, <<>>)
Esc(c) == N("esc", "", <<c>>, <<>>)
Dot == N("dot", "", <<>>, <<>>)
Dig == N("dig", "", <<>>, <<>>)
Cls(body) == N("cls", "", body, <<>>)
NCls(body) == N("ncls", "", body, <<>>)
Bol == N("bol", "", <<>>, <<>>)
Eol == N("eol", "", <<>>, <<>>)
Cat(items) == N("cat", "", <<>>, items)
Grp(alts) == N("grp", "", <<>>, alts)
Q(n, q) == <<n[1], q, n[3], n[4]>>
Tag(n) == n[1]
Quant(n) == n[2]
Chars(n) == n[3]
Kids(n) == n[4]

RECURSIVE NGItems(_, _), NGAlts(_, _)
NGItems(items, k) == IF k > Len(items) THEN 0
                     ELSE (IF Tag(items[k]) = "grp" THEN 1 + NGAlts(Kids(items[k]), 1) ELSE 0) + NGItems(items, k + 1)
NGAlts(alts, j) == IF j > Len(alts) THEN 0 ELSE NGItems(Kids(alts[j]), 1) + NGAlts(alts, j + 1)
NG(re) == NGAlts(re, 1)                                              \* number of capturing groups

\* can the node match the empty string? (syntactic)
RECURSIVE NullItems(_, _), NullAlts(_, _)
NullItem(it) == \/ Quant(it) \in {"*", "?"}
                \/ Tag(it) \in {"bol", "eol"}
                \/ (Tag(it) = "grp" /\ NullAlts(Kids(it), 1))
NullItems(items, k) == k > Len(items) \/ (NullItem(items[k]) /\ NullItems(items, k + 1))
NullAlts(alts, j) == j <= Len(alts) /\ (NullItems(Kids(alts[j]), 1) \/ NullAlts(alts, j + 1))
Nullable(re) == NullAlts(re, 1)

\* the sub-language: one level of groups, quantified groups not nullable, anchors not quantified
AnchorOK(it) == Tag(it) \in {"bol", "eol"} => Quant(it) = ""
InnerOK(alts) == \A j \in 1..Len(alts) : \A k \in 1..Len(Kids(alts[j])) :
                    Tag(Kids(alts[j])[k]) # "grp" /\ AnchorOK(Kids(alts[j])[k])
GroupOK(it) == Tag(it) = "grp" =>
                 (InnerOK(Kids(it)) /\ Len(Kids(it)) >= 1 /\ (Quant(it) \in {"*", "+"} => ~NullAlts(Kids(it), 1)))
WellFormed(re) == /\ Len(re) >= 1
                  /\ \A j \in 1..Len(re) : Tag(re[j]) = "cat"
                  /\ \A j \in 1..Len(re) : \A k \in 1..Len(Kids(re[j])) : AnchorOK(Kids(re[j])[k]) /\ GroupOK(Kids(re[j])[k])

\* ---- the text of a regex (what is written between the double quotes) -----------------------------------
\* tokens: characters, and lp rp bar lb rb hat dollar star plus qm bsl dash d  for ( ) | [ ] ^ $ * + ? \ - d
RECURSIVE TextItems(_, _), TextAlts(_, _)
QText(q) == CASE q = "" -> <<>> [] q = "*" -> <<"star">> [] q = "+" -> <<"plus">> [] q = "?" -> <<"qm">>
TextItem(it) == (CASE Tag(it) = "lit" -> Chars(it)
                   [] Tag(it) = "esc" -> <<"bsl">> \o Chars(it)
                   [] Tag(it) = "dot" -> <<"dot">>
                   [] Tag(it) = "dig" -> <<"bsl", "d">>
                   [] Tag(it) = "cls" -> <<"lb">> \o Chars(it) \o <<"rb">>
                   [] Tag(it) = "ncls" -> <<"lb", "hat">> \o Chars(it) \o <<"rb">>
                   [] Tag(it) = "bol" -> <<"hat">>
                   [] Tag(it) = "eol" -> <<"dollar">>
                   [] Tag(it) = "grp" -> <<"lp">> \o TextAlts(Kids(it), 1) \o <<"rp">>) \o QText(Quant(it))
TextItems(items, k) == IF k > Len(items) THEN <<>> ELSE TextItem(items[k]) \o TextItems(items, k + 1)
TextAlts(alts, j) == IF j > Len(alts) THEN <<>>
                     ELSE TextItems(Kids(alts[j]), 1) \o (IF j < Len(alts) THEN <<"bar">> ELSE <<>>) \o TextAlts(alts, j + 1)
Text(re) == TextAlts(re, 1)

\* ---- single characters -----------------------------------------------------------------------------------
RECURSIVE ClassHas(_, _, _)
ClassHas(body, k, c) ==
  IF k > Len(body) THEN FALSE
  ELSE IF k + 2 <= Len(body) /\ body[k + 1] = "dash"
       THEN (Ord(body[k]) <= Ord(c) /\ Ord(c) <= Ord(body[k + 2])) \/ ClassHas(body, k + 3, c)
       ELSE body[k] = c \/ ClassHas(body, k + 1, c)
InClass(body, c, ci) == ClassHas(body, 1, c) \/ (ci /\ ClassHas(body, 1, Swap(c)))
\* does the single-character node a match the character c?  ci: case-insensitive
CharOK(a, c, ci) == CASE Tag(a) \in {"lit", "esc"} -> c = Chars(a)[1] \/ (ci /\ Fold(c) = Fold(Chars(a)[1]))
                      [] Tag(a) = "dot" -> TRUE                         \* (no newline in the alphabet)
                      [] Tag(a) = "dig" -> IsDigit(c)
                      [] Tag(a) = "cls" -> InClass(Chars(a), c, ci)
                      [] Tag(a) = "ncls" -> ~InClass(Chars(a), c, ci)
                      [] OTHER -> FALSE

\* ---- the backtracking search ------------------------------------------------------------------------------
\* positions are offsets 0..Len(s); a way to match is [p: the offset reached, c: the submatches <<begin, end>> (<<-1,-1>>: none)]
Way(p, c) == [p |-> p, c |-> c]
NoCaps(n) == [g \in 1..n |-> <<-1, -1>>]
RECURSIVE MAtom(_, _, _, _, _, _), MItem(_, _, _, _, _, _), MStar(_, _, _, _, _, _), BindStar(_, _, _, _, _),
          MItems(_, _, _, _, _, _, _), BindItems(_, _, _, _, _, _), MAlts(_, _, _, _, _, _, _)
\* g: the number of the group when a is one
MAtom(a, g, s, p, c, ci) ==
  CASE Tag(a) = "bol" -> IF p = 0 THEN <<Way(p, c)>> ELSE <<>>                  \* "at beginning of text"
    [] Tag(a) = "eol" -> IF p = Len(s) THEN <<Way(p, c)>> ELSE <<>>             \* "at end of text"
    [] Tag(a) = "grp" -> LET ws == MAlts(Kids(a), 1, 0, s, p, c, ci) IN
                         [k \in 1..Len(ws) |-> Way(ws[k].p, [ws[k].c EXCEPT ![g] = <<p, ws[k].p>>])]
    [] OTHER -> IF p < Len(s) /\ CharOK(a, s[p + 1], ci) THEN <<Way(p + 1, c)>> ELSE <<>>
\* "x* zero or more x, prefer more; x+ one or more x, prefer more; x? zero or one x, prefer one"
MStar(a, g, s, p, c, ci) ==
  BindStar(SelectSeq(MAtom(a, g, s, p, c, ci), LAMBDA w : w.p > p), a, g, s, ci) \o <<Way(p, c)>>
BindStar(ws, a, g, s, ci) ==
  IF ws = <<>> THEN <<>> ELSE MStar(a, g, s, ws[1].p, ws[1].c, ci) \o BindStar(Tail(ws), a, g, s, ci)
MItem(it, g, s, p, c, ci) ==
  CASE Quant(it) = "" -> MAtom(it, g, s, p, c, ci)
    [] Quant(it) = "?" -> MAtom(it, g, s, p, c, ci) \o <<Way(p, c)>>
    [] Quant(it) = "*" -> MStar(it, g, s, p, c, ci)
    [] Quant(it) = "+" -> BindStar(MAtom(it, g, s, p, c, ci), it, g, s, ci)
\* "xy: x followed by y";  g0: the number of groups opened before items[k]
MItems(items, k, g0, s, p, c, ci) ==
  IF k > Len(items) THEN <<Way(p, c)>>
  ELSE LET isg == Tag(items[k]) = "grp" IN
       BindItems(MItem(items[k], IF isg THEN g0 + 1 ELSE 0, s, p, c, ci), items, k + 1, IF isg THEN g0 + 1 ELSE g0, s, ci)
BindItems(ws, items, k, g0, s, ci) ==
  IF ws = <<>> THEN <<>> ELSE MItems(items, k, g0, s, ws[1].p, ws[1].c, ci) \o BindItems(Tail(ws), items, k, g0, s, ci)
\* "x|y: x or y (prefer x)"
MAlts(alts, j, g0, s, p, c, ci) ==
  IF j > Len(alts) THEN <<>>
  ELSE MItems(Kids(alts[j]), 1, g0, s, p, c, ci) \o MAlts(alts, j + 1, g0 + NGItems(Kids(alts[j]), 1), s, p, c, ci)

\* the match: leftmost, and among those the first the search finds.  Searching starts at offset `from`, in the context
\* of the whole text (^ is offset 0 whatever `from` is).
NoMatch == [ok |-> FALSE, b |-> 0, e |-> 0, c |-> <<>>]
RECURSIVE FindFrom(_, _, _, _)
FindFrom(re, s, ci, from) ==
  IF from > Len(s) THEN NoMatch
  ELSE LET ws == MAlts(re, 1, 0, s, from, NoCaps(NG(re)), ci) IN
       IF ws # <<>> THEN [ok |-> TRUE, b |-> from, e |-> ws[1].p, c |-> ws[1].c] ELSE FindFrom(re, s, ci, from + 1)
Find(re, s, ci) == FindFrom(re, s, ci, 0)
\* "successive non-overlapping matches of the entire expression. Empty matches abutting a preceding match are ignored."
RECURSIVE AllFrom(_, _, _, _, _)
AllFrom(re, s, ci, from, prevEnd) ==
  LET m == FindFrom(re, s, ci, from) IN
  IF ~m.ok THEN <<>>
  ELSE IF m.e > m.b THEN <<m>> \o AllFrom(re, s, ci, m.e, m.e)
  ELSE (IF m.b = prevEnd THEN <<>> ELSE <<m>>) \o AllFrom(re, s, ci, m.b + 1, m.b)
All(re, s, ci) == AllFrom(re, s, ci, 0, -1)

\* ---- strings ----------------------------------------------------------------------------------------
Slice(s, b, e) == IF e <= b THEN <<>> ELSE SubSeq(s, b + 1, e)                 \* the characters at offsets b..e-1
SubText(s, c, g) == IF g > Len(c) \/ c[g][1] < 0 THEN <<>> ELSE Slice(s, c[g][1], c[g][2])
\* "\0 is the entire match string", "\1 through \9" the submatches; a group that does not exist or did not take part
\* in the match gives the empty string (the reference page shows "\1:\2" = ":" after "abc" =~ "..."; pkg.go.dev/regexp:
\* an unmatched submatch is the empty string)
Cap(s, m, d) == IF d = 0 THEN Slice(s, m.b, m.e) ELSE SubText(s, m.c, d)
\* a replacement / string literal with \d in it: "\15 is treated as \1 followed by an unrelated 5"
RECURSIVE Expand(_, _, _, _)
Expand(t, k, s, m) ==
  IF k > Len(t) THEN <<>>
  ELSE IF t[k] = "bsl" /\ k < Len(t) /\ IsDigit(t[k + 1]) THEN Cap(s, m, DigitVal(t[k + 1])) \o Expand(t, k + 2, s, m)
  ELSE <<t[k]>> \o Expand(t, k + 1, s, m)
HasRef(t) == \E k \in 1..(Len(t) - 1) : t[k] = "bsl" /\ IsDigit(t[k + 1])

\* ---- the functions -------------------------------------------------------------------------------------
\* (each function twice: ...M on a match / on the sequence of all matches, so that a judgement searches only once)
\* sub: "replace once (first match, if there are multiple matches) ... Capture groups \1 through \9 in the new part are
\* matched from (...) in the old part";  gsub: "replace all"
SubM(s, m, t) == IF ~m.ok THEN s ELSE Slice(s, 0, m.b) \o Expand(t, 1, s, m) \o Slice(s, m.e, Len(s))
RECURSIVE Rebuild(_, _, _, _, _)
Rebuild(s, ms, k, from, t) ==
  IF k > Len(ms) THEN Slice(s, from, Len(s))
  ELSE Slice(s, from, ms[k].b) \o Expand(t, 1, s, ms[k]) \o Rebuild(s, ms, k + 1, ms[k].e, t)
GsubM(s, ms, t) == Rebuild(s, ms, 1, 0, t)
SubStr(s, re, ci, t) == SubM(s, Find(re, s, ci), t)
GsubStr(s, re, ci, t) == GsubM(s, All(re, s, ci), t)
\* regextract: "Extracts a substring (the first, if there are multiple matches), matching a regular expression";
\* no match: "(absent), which will result in an assignment not happening";  regextract_or_else: the third argument
Absent == [k |-> "absent", s |-> <<>>]
Str(s) == [k |-> "string", s |-> s]
Bool(b) == [k |-> "boolean", s |-> <<IF b THEN "true" ELSE "false">>]
RegextractM(s, m) == IF m.ok THEN Str(Slice(s, m.b, m.e)) ELSE Absent
RegextractOrElseM(s, m, d) == IF m.ok THEN Str(Slice(s, m.b, m.e)) ELSE Str(d)
Regextract(s, re, ci) == RegextractM(s, Find(re, s, ci))
RegextractOrElse(s, re, ci, d) == RegextractOrElseM(s, Find(re, s, ci), d)
Matches(s, re, ci) == Find(re, s, ci).ok                                        \* =~ , strmatch;  !=~ is the negation

\* strmatchx: the documented map.  No match: only "matched": false.  Match: matched, full_capture, full_start, full_end
\* and, when the regex has groups, captures / starts / ends.  "the starts and ends arrays are indices into the input
\* string": string indices are 1-up and count characters (reference-main-strings.md), both ends inclusive, as in
\* "full_start": 2, "full_end": 8 for "ab:3458" in "[ab:3458]".  Where a piece is empty (an empty match, a group that did
\* not take part) no index is stated: 0 here means "not constrained".
MX(keys, full, fs, fe, caps, st, en) == [keys |-> keys, full |-> full, fs |-> fs, fe |-> fe, caps |-> caps, st |-> st, en |-> en]
StrmatchXM(s, m, n) ==
  IF ~m.ok THEN MX(<<"matched:false">>, <<>>, 0, 0, <<>>, <<>>, <<>>)
  ELSE MX(<<"matched:true", "full_capture", "full_start", "full_end">> \o (IF n > 0 THEN <<"captures", "starts", "ends">> ELSE <<>>),
          Slice(s, m.b, m.e),
          IF m.e > m.b THEN m.b + 1 ELSE 0, IF m.e > m.b THEN m.e ELSE 0,
          [g \in 1..n |-> SubText(s, m.c, g)],
          [g \in 1..n |-> IF m.c[g][2] > m.c[g][1] THEN m.c[g][1] + 1 ELSE 0],
          [g \in 1..n |-> IF m.c[g][2] > m.c[g][1] THEN m.c[g][2] ELSE 0])
StrmatchX(s, re, ci) == StrmatchXM(s, Find(re, s, ci), NG(re))
IdxOK(want, got) == want = 0 \/ want = got
MXOK(x, o) == /\ o.keys = x.keys /\ o.full = x.full /\ o.caps = x.caps
              /\ IdxOK(x.fs, o.fs) /\ IdxOK(x.fe, o.fe)
              /\ Len(o.st) = Len(x.st) /\ Len(o.en) = Len(x.en)
              /\ \A g \in 1..Len(x.st) : IdxOK(x.st[g], o.st[g]) /\ IdxOK(x.en[g], o.en[g])

\* ---- the captures of =~ and !=~ -----------------------------------------------------------------------------
\* "Before any match is done, "\1" etc. in a string evaluate to themselves.  After a successful match is done, "\1" etc.
\* in a string evaluate to the matched substring.  After an unsuccessful match is done, "\1" etc. in a string evaluate to
\* the empty string."   state = [k: "init" | "set", v: the texts of \0..\9]
Init0 == [k |-> "init", v |-> [d \in 1..10 |-> <<>>]]
AfterMatchM(s, m) == [k |-> "set", v |-> [d \in 1..10 |-> IF m.ok THEN Cap(s, m, d - 1) ELSE <<>>]]
AfterMatch(s, re, ci) == AfterMatchM(s, Find(re, s, ci))
RECURSIVE Interp(_, _, _)
Interp(t, k, st) ==
  IF k > Len(t) THEN <<>>
  ELSE IF st.k = "set" /\ t[k] = "bsl" /\ k < Len(t) /\ IsDigit(t[k + 1]) THEN st.v[DigitVal(t[k + 1]) + 1] \o Interp(t, k + 2, st)
  ELSE <<t[k]>> \o Interp(t, k + 1, st)

\* ---- an independent definition of "matches": the positional language of a node as a set of <<begin, end>> ----------
\* (no search order, no preferences: relations composed and closed; used only by the laws)
Comp(R, S) == UNION {{<<x[1], y[2]>> : y \in {z \in S : z[1] = x[2]}} : x \in R}
RECURSIVE Closure(_), DenItems(_, _, _, _), DenAlts(_, _, _, _)
Closure(R) == LET R2 == R \cup Comp(R, R) IN IF R2 = R THEN R ELSE Closure(R2)
IdRel(s) == {<<i, i>> : i \in 0..Len(s)}
DenAtom(a, s, ci) ==
  CASE Tag(a) = "bol" -> {<<0, 0>>}
    [] Tag(a) = "eol" -> {<<Len(s), Len(s)>>}
    [] Tag(a) = "grp" -> DenAlts(Kids(a), 1, s, ci)
    [] OTHER -> {<<i - 1, i>> : i \in {i \in 1..Len(s) : CharOK(a, s[i], ci)}}
DenItem(it, s, ci) == LET A == DenAtom(it, s, ci) IN
  CASE Quant(it) = "" -> A
    [] Quant(it) = "?" -> A \cup IdRel(s)
    [] Quant(it) = "*" -> Closure(A \cup IdRel(s))
    [] Quant(it) = "+" -> Comp(A, Closure(A \cup IdRel(s)))
DenItems(items, k, s, ci) == IF k > Len(items) THEN IdRel(s) ELSE Comp(DenItem(items[k], s, ci), DenItems(items, k + 1, s, ci))
DenAlts(alts, j, s, ci) == IF j > Len(alts) THEN {} ELSE DenItems(Kids(alts[j]), 1, s, ci) \cup DenAlts(alts, j + 1, s, ci)
Den(re, s, ci) == DenAlts(re, 1, s, ci)
=============================================================================
