--------------------------- MODULE VerbsRestructure ---------------------------
(***************************************************************************)
(* The field-restructuring verbs (C12), written from reference-verbs.md     *)
(* (the text `mlr <verb> --help` prints, and the worked examples).          *)
(*                                                                         *)
(* A record is a sequence of <<key, value>> pairs (Records.tla); a key is a *)
(* string; a VALUE IS ITS TEXT AS A SEQUENCE OF 1-CHARACTER STRINGS (TLC     *)
(* cannot look inside a string, and nest/altkv/reshape/unspace must), so    *)
(* "a;b" is <<"a", ";", "b">> and the empty value is <<>>.  The harness     *)
(* joins and splits characters, nothing else.                               *)
(*                                                                         *)
(* A verb configuration is                                                  *)
(*   [v |-> verb, o |-> option/mode, f |-> field names, p |-> further       *)
(*    names or separators, w |-> <<>> or <<fill value>>]                    *)
(*                                                                         *)
(* Where the reference determines the output: a finite set of candidate     *)
(* outputs with one element.  Where it leaves freedom (a name listed twice, *)
(* renaming onto an existing field, label colliding with a later field,     *)
(* records lacking the field of a non-streaming verb, ...) the set has more *)
(* elements or Allowed is a predicate that demands only what the reference  *)
(* and the property statement say (bystander fields keep name, value text   *)
(* and relative order).  A configuration [v |-> "chain", o |-> name] is two  *)
(* fixed verbs joined by `then` (ChainParts): the observed output must be an *)
(* allowed outcome of the second verb on some allowed outcome of the first.  *)
(***************************************************************************)
EXTENDS Records, TLC

\* ---------------------------------------------------------------- helpers
SetOf(q) == {q[i] : i \in 1..Len(q)}
NoDup(q) == \A i, j \in 1..Len(q) : i # j => q[i] # q[j]
Dedup(q) == SelIdx(q, LAMBDA i : \A j \in 1..(i - 1) : q[j] # q[i])      \* first occurrences, in order
\* ks mentions every element of q once, in an order in which q mentions them (any occurrence of a repeated name)
IsOrderOf(ks, q) ==
  /\ NoDup(ks)
  /\ SetOf(ks) = SetOf(q)
  /\ \E g \in [1..Len(ks) -> 1..Len(q)] :
        (\A i \in 1..Len(ks) : q[g[i]] = ks[i]) /\ (\A i \in 1..(Len(ks) - 1) : g[i] < g[i + 1])
Orders(q) == {ks \in [1..Len(Dedup(q)) -> SetOf(q)] : IsOrderOf(ks, q)}    \* = {q} when q has no repeats

FieldsIn(r, K)    == SelIdx(r, LAMBDA i : r[i][1] \in K)
FieldsNotIn(r, K) == SelIdx(r, LAMBDA i : r[i][1] \notin K)
Present(r, q)     == SelIdx(q, LAMBDA i : Has(r, q[i]))                   \* the names of q the record has
Pick(r, ks)       == [i \in 1..Len(ks) |-> <<ks[i], Get(r, ks[i])>>]      \* ks all present in r
Pos(r, k)         == CHOOSE i \in 1..Len(r) : r[i][1] = k                 \* Has(r, k)
\* r with the field at position n replaced by the fields fs
Splice(r, n, fs)  == SubSeq(r, 1, n - 1) \o fs \o SubSeq(r, n + 1, Len(r))

Perms(n) == {g \in [1..n -> 1..n] : \A i, j \in 1..n : i # j => g[i] # g[j]}

\* ---------------------------------------------------------------- text
RECURSIVE Concat(_)
Concat(cs) == IF cs = <<>> THEN "" ELSE Head(cs) \o Concat(Tail(cs))       \* characters -> a key
RECURSIVE Split(_, _)
Split(t, sep) ==                                                           \* the pieces between separators
  IF \A i \in 1..Len(t) : t[i] # sep THEN <<t>>
  ELSE LET n == CHOOSE i \in 1..Len(t) : t[i] = sep /\ \A j \in 1..(i - 1) : t[j] # sep
       IN <<SubSeq(t, 1, n - 1)>> \o Split(SubSeq(t, n + 1, Len(t)), sep)
RECURSIVE Join(_, _)
Join(ps, sep) == IF Len(ps) = 0 THEN <<>> ELSE IF Len(ps) = 1 THEN ps[1] ELSE ps[1] \o <<sep>> \o Join(Tail(ps), sep)
\* the reference explains nest by examples whose pieces are non-empty; an empty piece (empty value, leading,
\* trailing or doubled separator) is outside what it states
GoodPieces(t, sep) == \A i \in 1..Len(Split(t, sep)) : Split(t, sep)[i] # <<>>
\* a piece "k:v" with exactly one pair separator and a non-empty key
GoodPair(p, ps) == Len(Split(p, ps)) = 2 /\ Split(p, ps)[1] # <<>>

Fill(c, dflt) == IF Len(c.w) = 0 THEN dflt ELSE c.w[1]
NA == <<"N", "/", "A">>                                                    \* fill-empty: "defaults to N/A"
\* "lexically ascending" on the key alphabet of the case space
KeyRank == ("a" :> 1) @@ ("b" :> 2) @@ ("c" :> 3) @@ ("d" :> 4) @@ ("e" :> 5) @@ ("f" :> 6) @@ ("g" :> 7) @@ ("h" :> 8)
           @@ ("i" :> 9) @@ ("j" :> 10) @@ ("l" :> 12) @@ ("m" :> 13) @@ ("n" :> 14) @@ ("o" :> 15)
Ranked(r) == \A i \in 1..Len(r) : r[i][1] \in DOMAIN KeyRank
Ascending(ks) == \A i \in 1..(Len(ks) - 1) : KeyRank[ks[i]] < KeyRank[ks[i + 1]]

\* ---------------------------------------------------------------- rename / label
RenOlds(q) == [i \in 1..(Len(q) \div 2) |-> q[2 * i - 1]]
RenNews(q) == [i \in 1..(Len(q) \div 2) |-> q[2 * i]]
\* "Renames specified fields" decides the outcome when no new name meets an existing or another new or old name
\* (then renaming one pair after the other, all at once, or in record order are the same thing)
RenClean(r, q) ==
  LET olds == RenOlds(q)  news == RenNews(q)  n == Len(olds)
      eff == {i \in 1..n : Has(r, olds[i])} IN
  /\ NoDup(olds)
  /\ \A i \in eff : news[i] = olds[i] \/ ~Has(r, news[i])
  /\ \A i, j \in eff : i # j => news[i] # news[j]
  /\ \A i \in eff, j \in 1..n : i # j => news[i] # olds[j]
NewName(q, k) == IF \E i \in 1..Len(RenOlds(q)) : RenOlds(q)[i] = k
                 THEN RenNews(q)[CHOOSE i \in 1..Len(RenOlds(q)) : RenOlds(q)[i] = k] ELSE k
Renamed(r, q) == [i \in 1..Len(r) |-> <<NewName(q, r[i][1]), r[i][2]>>]    \* the renamed field keeps its place

LabelM(r, q) == IF Len(q) < Len(r) THEN Len(q) ELSE Len(r)
\* "renames the first n fields ... (Fields past the nth are left with their original names.)": silent on a new
\* name that a field past the nth already has
LabelClean(r, q) == NoDup(q) /\ \A i \in 1..LabelM(r, q) : \A j \in (LabelM(r, q) + 1)..Len(r) : q[i] # r[j][1]
Labelled(r, q) == [i \in 1..Len(r) |-> IF i <= LabelM(r, q) THEN <<q[i], r[i][2]>> ELSE r[i]]

\* ---------------------------------------------------------------- nest
NestField(c) == c.f[1]
FS(c) == c.p[1]
PS(c) == c.p[2]
ExplodedName(f, i) == f \o "_" \o ToString(i)                              \* "x_1=a,x_2=b,x_3=c"
PairField(p, ps) == <<Concat(Split(p, ps)[1]), Split(p, ps)[2]>>
\* the stated domain of explode for one record
ExplodeDomain(c, r) ==
  Has(r, NestField(c)) =>
    LET t == Get(r, NestField(c)) IN
    /\ GoodPieces(t, FS(c))
    /\ c.o \in {"explode-pairs-records", "explode-pairs-fields"} =>
         LET ps == Split(t, FS(c))
             ks == [i \in 1..Len(ps) |-> IF GoodPair(ps[i], PS(c)) THEN PairField(ps[i], PS(c))[1] ELSE ""] IN
         /\ \A i \in 1..Len(ps) : GoodPair(ps[i], PS(c)) /\ ~Has(r, ks[i])
         /\ (c.o = "explode-pairs-fields" => NoDup(ks))
    /\ c.o = "explode-values-fields" =>
         \A i \in 1..Len(Split(t, FS(c))) : ~Has(r, ExplodedName(NestField(c), i))
\* one input record -> its output records
Exploded(c, r) ==
  LET f == NestField(c) IN
  IF ~Has(r, f) THEN <<r>> ELSE
  LET n == Pos(r, f)  ps == Split(r[n][2], FS(c)) IN
  CASE c.o \in {"explode-values-records", "evar"} -> [i \in 1..Len(ps) |-> Splice(r, n, <<<<f, ps[i]>>>>)]
    [] c.o = "explode-values-fields"  -> <<Splice(r, n, [i \in 1..Len(ps) |-> <<ExplodedName(f, i), ps[i]>>])>>
    [] c.o = "explode-pairs-records"  -> [i \in 1..Len(ps) |-> Splice(r, n, <<PairField(ps[i], PS(c))>>)]
    [] c.o = "explode-pairs-fields"   -> <<Splice(r, n, [i \in 1..Len(ps) |-> PairField(ps[i], PS(c))])>>

\* implode across fields, "the reverse": the fields f_1..f_n standing next to each other in this order become f
ImplodeIdx(r, f) == {i \in 1..Len(r) : \E k \in 1..20 : r[i][1] = ExplodedName(f, k)}
ImplodeFieldsDomain(r, f) ==
  LET I == ImplodeIdx(r, f) IN
  I # {} => /\ \E lo \in I : I = lo..(lo + Cardinality(I) - 1) /\ \A i \in I : r[i][1] = ExplodedName(f, i - lo + 1)
            /\ ~Has(r, f)
ImplodedFields(c, r) ==
  LET f == NestField(c)  I == ImplodeIdx(r, f) IN
  IF I = {} THEN r ELSE
  LET lo == CHOOSE i \in I : \A j \in I : i <= j
      hi == lo + Cardinality(I) - 1
  IN SubSeq(r, 1, lo - 1) \o <<<<f, Join([i \in 1..(hi - lo + 1) |-> r[lo + i - 1][2]], FS(c))>>>> \o SubSeq(r, hi + 1, Len(r))

\* implode across records: records having f, grouped by their other fields; the reference only says "the reverse"
\* and that nothing is produced before the end of input; records lacking f are not mentioned
Others1(r, f) == FieldsNotIn(r, {f})
ImplodeFirsts(s, f) == IdxWhere(s, LAMBDA i : Has(s[i], f) /\ \A j \in 1..(i - 1) : ~(Has(s[j], f) /\ Others1(s[j], f) = Others1(s[i], f)))
ImplodeGroup(s, f, i) == IdxWhere(s, LAMBDA j : Has(s[j], f) /\ Others1(s[j], f) = Others1(s[i], f))
ImplodedRecord(c, s, i, n) ==      \* the record of the group of s[i], with f at position n
  LET f == NestField(c)  g == ImplodeGroup(s, f, i)  o == Others1(s[i], f)
  IN SubSeq(o, 1, n - 1) \o <<<<f, Join([k \in 1..Len(g) |-> Get(s[g[k]], f)], FS(c))>>>> \o SubSeq(o, n, Len(o))
ImplodedRecordsAllowed(c, s, out) ==
  LET f == NestField(c)  firsts == ImplodeFirsts(s, f)
      pass == SelIdx(s, LAMBDA i : ~Has(s[i], f)) IN
  /\ Len(out) = Len(firsts) + Len(pass)
  /\ \E I \in SUBSET (1..Len(out)) :
       /\ Cardinality(I) = Len(firsts)
       /\ SelIdx(out, LAMBDA i : i \notin I) = pass
       /\ LET G == SelIdx(out, LAMBDA i : i \in I) IN
          \E pi \in Perms(Len(firsts)) :
            /\ \A k \in 1..Len(firsts) :      \* f stands where it stood in some record of the group
                 \E j \in SetOf(ImplodeGroup(s, f, firsts[pi[k]])) : G[k] = ImplodedRecord(c, s, firsts[pi[k]], Pos(s[j], f))
            \* groups whose other fields have the same names come in first-appearance order (as in the worked
            \* examples, which are homogeneous); the reference says nothing on the order across differently
            \* shaped groups
            /\ \A k1, k2 \in 1..Len(firsts) :
                 (k1 < k2 /\ KeysOf(Others1(s[firsts[pi[k1]]], f)) = KeysOf(Others1(s[firsts[pi[k2]]], f))) => pi[k1] < pi[k2]
ImplodedRecordsCanon(c, s) ==      \* one allowed outcome (used for the laws): passed-through records first
  LET f == NestField(c)  firsts == ImplodeFirsts(s, f) IN
  SelIdx(s, LAMBDA i : ~Has(s[i], f)) \o [k \in 1..Len(firsts) |-> ImplodedRecord(c, s, firsts[k], Pos(s[firsts[k]], f))]

\* ---------------------------------------------------------------- reshape
KF(c) == c.p[1]
VF(c) == c.p[2]
\* wide-to-long: "the input fields are removed and separate records are emitted for each key/value pair" (example:
\* the other fields, then key field, then value field).  Silent on: the order of the pairs when the -i list and
\* the record disagree; a record with none of the input fields; key/value names the record already has.
W2LDomain(c, r) == ~Has(r, KF(c)) /\ ~Has(r, VF(c))
W2LBlock(c, r, ks) == [i \in 1..Len(ks) |-> FieldsNotIn(r, SetOf(c.f)) \o <<<<KF(c), <<ks[i]>>>>, <<VF(c), Get(r, ks[i])>>>>]
W2LBlocks(c, r) ==
  LET byList == Dedup(Present(r, c.f))
      byRec == KeysOf(FieldsIn(r, SetOf(c.f))) IN
  IF byList = <<>> THEN {<<>>, <<r>>} ELSE {W2LBlock(c, r, byList), W2LBlock(c, r, byRec)}
\* NB the key field's value is the field NAME: a 1-character name in the case space, hence <<name>> as text.

\* long-to-wide: "undo the wide-to-long operation", output only at end of input.  Records having both the key and
\* the value field are grouped by their other fields; one record per group, in first-appearance order: the other
\* fields, then a field per pair.
IsLong(c, r) == Has(r, KF(c)) /\ Has(r, VF(c))
OthersKV(c, r) == FieldsNotIn(r, {KF(c), VF(c)})
L2WFirsts(c, s) == IdxWhere(s, LAMBDA i : IsLong(c, s[i]) /\ \A j \in 1..(i - 1) : ~(IsLong(c, s[j]) /\ OthersKV(c, s[j]) = OthersKV(c, s[i])))
L2WGroup(c, s, i) == IdxWhere(s, LAMBDA j : IsLong(c, s[j]) /\ OthersKV(c, s[j]) = OthersKV(c, s[i]))
L2WPairs(c, s, i) == LET g == L2WGroup(c, s, i) IN [k \in 1..Len(g) |-> <<Concat(Get(s[g[k]], KF(c))), Get(s[g[k]], VF(c))>>]
L2WRecord(c, s, i) == OthersKV(c, s[i]) \o L2WPairs(c, s, i)
L2WAllKeys(c, s) == {Concat(Get(s[i], KF(c))) : i \in {j \in 1..Len(s) : IsLong(c, s[j])}}
\* determined by the reference: every group has the same keys in the same order, none twice, none an existing
\* field name, and no two groups differ only in the order of their other fields
L2WRect(c, s) ==
  LET firsts == L2WFirsts(c, s) IN
  /\ \A a, b \in 1..Len(firsts) : KeysOf(L2WPairs(c, s, firsts[a])) = KeysOf(L2WPairs(c, s, firsts[b]))
  /\ \A a \in 1..Len(firsts) : /\ NoDup(KeysOf(L2WPairs(c, s, firsts[a])))
                               /\ \A k \in L2WAllKeys(c, s) : ~Has(OthersKV(c, s[firsts[a]]), k)
  /\ \A a, b \in 1..Len(firsts) : a # b => KeySet(OthersKV(c, s[firsts[a]])) # KeySet(OthersKV(c, s[firsts[b]]))
                                            \/ KeysOf(OthersKV(c, s[firsts[a]])) = KeysOf(OthersKV(c, s[firsts[b]]))
\* always demanded of a group's record o: its other fields first and intact; each of its keys present (value: one
\* the group gives for that key); nothing but keys seen somewhere in the stream besides (missing cells may be filled)
L2WGroupOK(c, s, i, o) ==
  LET oth == OthersKV(c, s[i])  prs == L2WPairs(c, s, i)  all == L2WAllKeys(c, s) IN
  /\ Len(o) >= Len(oth) /\ SubSeq(o, 1, Len(oth)) = oth
  /\ LET rest == SubSeq(o, Len(oth) + 1, Len(o)) IN
     /\ NoDup(KeysOf(rest)) /\ KeySet(rest) \subseteq all
     /\ \A k \in 1..Len(prs) : Has(rest, prs[k][1]) /\ \E m \in 1..Len(prs) : prs[m][1] = prs[k][1] /\ Get(rest, prs[k][1]) = prs[m][2]
     /\ (\A k \in all : ~Has(oth, k)) /\ NoDup(KeysOf(prs)) => FieldsIn(rest, KeySet(prs)) = prs
L2WAllowed(c, s, out) ==
  LET firsts == L2WFirsts(c, s)
      pass == SelIdx(s, LAMBDA i : ~IsLong(c, s[i])) IN
  /\ Len(out) = Len(firsts) + Len(pass)
  /\ \E I \in SUBSET (1..Len(out)) :
       /\ Cardinality(I) = Len(firsts)
       /\ SelIdx(out, LAMBDA i : i \notin I) = pass
       /\ LET G == SelIdx(out, LAMBDA i : i \in I) IN
          \E pi \in Perms(Len(firsts)) :
            /\ \A k \in 1..Len(firsts) : L2WGroupOK(c, s, firsts[pi[k]], G[k])
            /\ \A k \in 1..Len(firsts) : (L2WRect(c, s) => G[k] = L2WRecord(c, s, firsts[pi[k]]))
            \* order of the groups: as for nest implode (first appearance among groups with the same other field names)
            /\ \A k1, k2 \in 1..Len(firsts) :
                 (k1 < k2 /\ KeysOf(OthersKV(c, s[firsts[pi[k1]]])) = KeysOf(OthersKV(c, s[firsts[pi[k2]]]))) => pi[k1] < pi[k2]
L2WCanon(c, s) ==
  LET firsts == L2WFirsts(c, s) IN
  SelIdx(s, LAMBDA i : ~IsLong(c, s[i])) \o [k \in 1..Len(firsts) |-> L2WRecord(c, s, firsts[k])]

\* ---------------------------------------------------------------- altkv
\* "Given fields with values of the form a,b,c,d,e,f emits a=b,c=d,e=f pairs"; 7 values: "a=b,c=d,e=f,4=g"
AltKeys(r) == [i \in 1..((Len(r) + 1) \div 2) |-> IF 2 * i <= Len(r) THEN Concat(r[2 * i - 1][2]) ELSE ToString(i)]
AltClean(r) == NoDup(AltKeys(r))
AltKv(r) == [i \in 1..((Len(r) + 1) \div 2) |-> <<AltKeys(r)[i], IF 2 * i <= Len(r) THEN r[2 * i][2] ELSE r[2 * i - 1][2]>>]

\* ---------------------------------------------------------------- unspace, sec2gmt (small tables)
Unspaced(t, fill) == Flatten1([i \in 1..Len(t) |-> IF t[i] = " " THEN fill ELSE <<t[i]>>])
\* the keys with a space in the case space
UnspacedKey(k, fill) == CASE k = "a b" -> "a" \o Concat(fill) \o "b"
                          [] k = " c"  -> Concat(fill) \o "c"
                          [] OTHER -> k
\* sec2gmt: integer seconds of the case space (0 is the epoch by definition; 1234567890 is the worked example of
\* `mlr help function sec2gmt`); "leaves non-numbers as-is"
Epoch0 == <<"1","9","7","0","-","0","1","-","0","1","T","0","0",":","0","0",":","0","0","Z">>
Epoch1234567890 == <<"2","0","0","9","-","0","2","-","1","3","T","2","3",":","3","1",":","3","0","Z">>
Sec2Gmt(t) == CASE t = <<"0">> -> Epoch0
                [] t = <<"1","2","3","4","5","6","7","8","9","0">> -> Epoch1234567890
                [] OTHER -> t
Sec2GmtKnown(t) == t \in {<<"0">>, <<"1","2","3","4","5","6","7","8","9","0">>, <<>>, <<"x">>, <<"y","z">>}

\* case -u / -l: the letters of the case space (keys there are single letters); other characters are left alone
UpCh == ("a" :> "A") @@ ("b" :> "B") @@ ("c" :> "C") @@ ("d" :> "D") @@ ("p" :> "P") @@ ("q" :> "Q") @@ ("x" :> "X")
LowCh == ("A" :> "a") @@ ("B" :> "b") @@ ("C" :> "c") @@ ("D" :> "d") @@ ("P" :> "p") @@ ("Q" :> "q") @@ ("X" :> "x")
CaseCh(o, ch) == IF o = "-u" THEN (IF ch \in DOMAIN UpCh THEN UpCh[ch] ELSE ch) ELSE (IF ch \in DOMAIN LowCh THEN LowCh[ch] ELSE ch)
Cased(c, r) ==      \* c.p: <<>> keys and values, <<"-k">> only keys, <<"-v">> only values; c.f = <<>>: all fields
  [i \in 1..Len(r) |->
     IF c.f # <<>> /\ r[i][1] \notin SetOf(c.f) THEN r[i]
     ELSE <<IF c.p = <<"-v">> THEN r[i][1] ELSE CaseCh(c.o, r[i][1]),
            IF c.p = <<"-k">> THEN r[i][2] ELSE [k \in 1..Len(r[i][2]) |-> CaseCh(c.o, r[i][2][k])]>>]

\* ---------------------------------------------------------------- per-record verbs
PerRecord == {"cut", "template", "reorder", "rename", "label", "sort-within-records", "sparsify", "fill-empty",
              "unsparsify-f", "nest-fields", "altkv", "unspace", "sec2gmt", "case"}
MultiEmit == {"nest-explode-records", "reshape-w2l"}
WholeStream == {"regularize", "unsparsify", "nest-implode-records", "reshape-l2w"}

\* is the outcome for this record one of a finite candidate set?
Finite1(c, r) ==
  CASE c.v = "rename" -> RenClean(r, c.f)
    [] c.v = "label" -> LabelClean(r, c.f)
    [] c.v = "sort-within-records" -> c.o # "-f" /\ Ranked(r)
    [] c.v = "nest-fields" -> IF c.o = "implode-values-fields" THEN ImplodeFieldsDomain(r, NestField(c)) ELSE ExplodeDomain(c, r)
    [] c.v = "altkv" -> AltClean(r)
    [] c.v = "unspace" -> NoDup([i \in 1..Len(r) |-> UnspacedKey(r[i][1], Fill(c, <<"_">>))])
    [] c.v = "sec2gmt" -> \A i \in 1..Len(r) : Sec2GmtKnown(r[i][2])
    [] c.v = "case" -> NoDup(KeysOf(Cased(c, r)))
    [] c.v = "reorder" -> c.o \in {"-b", "-a"} => c.p[1] \notin SetOf(c.f)
    [] OTHER -> TRUE

Cands1(c, r) ==
  LET F == c.f  K == SetOf(c.f) IN
  CASE c.v = "cut" ->
         (CASE c.o \in {"-f", "-r"}    -> {FieldsIn(r, K)}         \* "in input-record order"
            [] c.o \in {"-x", "-rx"}   -> {FieldsNotIn(r, K)}
            [] c.o = "-o"              -> {Pick(r, ks) : ks \in Orders(Present(r, F))})
    [] c.v = "template" ->
         {[i \in 1..Len(ks) |-> <<ks[i], IF Has(r, ks[i]) THEN Get(r, ks[i]) ELSE Fill(c, <<>>)>>] : ks \in Orders(F)}
    [] c.v = "reorder" ->
         (CASE c.o = ""   -> {Pick(r, ks) \o FieldsNotIn(r, K) : ks \in Orders(Present(r, F))}
            [] c.o = "-e" -> {FieldsNotIn(r, K) \o Pick(r, ks) : ks \in Orders(Present(r, F))}
            \* "-b {x} Put field names specified with -f before field name specified by {x}, if any. If {x} isn't
            \* present in a given record, the specified fields will not be moved."  (-a: after.)  The order of the
            \* moved fields among themselves is not stated.
            [] c.o \in {"-b", "-a"} ->
                 (IF ~Has(r, c.p[1]) THEN {r} ELSE
                  LET n == Pos(r, c.p[1])
                      pre == FieldsNotIn(SubSeq(r, 1, n - 1), K)
                      post == FieldsNotIn(SubSeq(r, n + 1, Len(r)), K)
                      named == Dedup(Present(r, F))
                  IN {pre \o (IF c.o = "-b" THEN Pick(r, ks) \o <<r[n]>> ELSE <<r[n]>> \o Pick(r, ks)) \o post :
                        ks \in {q \in [1..Len(named) -> SetOf(named)] : NoDup(q)}}))
    [] c.v = "rename" -> {Renamed(r, F)}
    [] c.v = "label" -> {Labelled(r, F)}
    [] c.v = "sort-within-records" -> {SortSeq(r, LAMBDA x, y : KeyRank[x[1]] < KeyRank[y[1]])}
    [] c.v = "sparsify" ->
         {SelIdx(r, LAMBDA i : ~(r[i][2] = Fill(c, <<>>) /\ (c.o = "-f" => r[i][1] \in K)))}
    [] c.v = "fill-empty" -> {[i \in 1..Len(r) |-> IF r[i][2] = <<>> THEN <<r[i][1], Fill(c, NA)>> ELSE r[i]]}
    [] c.v = "unsparsify-f" ->     \* "Fields filled in by -f are appended to each record"
         {r \o [i \in 1..Len(SelIdx(Dedup(F), LAMBDA j : ~Has(r, Dedup(F)[j]))) |->
                  <<SelIdx(Dedup(F), LAMBDA j : ~Has(r, Dedup(F)[j]))[i], Fill(c, <<>>)>>]}
    [] c.v = "nest-fields" -> IF c.o = "implode-values-fields" THEN {ImplodedFields(c, r)} ELSE {Exploded(c, r)[1]}
    [] c.v = "altkv" -> {AltKv(r)}
    [] c.v = "unspace" ->
         {[i \in 1..Len(r) |-> <<IF c.o = "-v" THEN r[i][1] ELSE UnspacedKey(r[i][1], Fill(c, <<"_">>)),
                                 IF c.o = "-k" THEN r[i][2] ELSE Unspaced(r[i][2], Fill(c, <<"_">>))>>]}
    [] c.v = "sec2gmt" -> {[i \in 1..Len(r) |-> IF r[i][1] \in K THEN <<r[i][1], Sec2Gmt(r[i][2])>> ELSE r[i]]}
    [] c.v = "case" -> {Cased(c, r)}

\* what the reference and the property statement still demand where the candidates are not determined:
\* fields the configuration does not name keep name, value text and relative order
Touched(c, r) ==
  CASE c.v = "rename" -> SetOf(c.f)
    [] c.v = "label" -> SetOf(c.f) \cup {r[i][1] : i \in 1..LabelM(r, c.f)}
    [] c.v = "nest-fields" -> {NestField(c)} \cup {ExplodedName(NestField(c), i) : i \in 1..(Len(r) + 8)}
    [] c.v = "sec2gmt" -> SetOf(c.f)
    [] c.v = "case" -> (IF c.f = <<>> THEN KeySet(r) ELSE SetOf(c.f)) \cup {CaseCh(c.o, k) : k \in (IF c.f = <<>> THEN KeySet(r) ELSE SetOf(c.f))}
    [] OTHER -> {}
Weak1(c, r, o) ==
  CASE c.v = "rename" -> FieldsNotIn(o, Touched(c, r)) = FieldsNotIn(r, Touched(c, r))
    [] c.v = "label" ->
         IF ~NoDup(c.f) THEN TRUE ELSE
         LET m == LabelM(r, c.f) IN
         /\ Len(o) >= m /\ SubSeq(o, 1, m) = SubSeq(Labelled(r, c.f), 1, m)
         /\ FieldsNotIn(SubSeq(o, m + 1, Len(o)), SetOf(c.f)) = FieldsNotIn(SubSeq(r, m + 1, Len(r)), SetOf(c.f))
    [] c.v = "sort-within-records" ->       \* "-f: Sort only these keys; others preserve record order"
         /\ SameBag(o, r)
         /\ (c.o = "-f" => FieldsNotIn(o, SetOf(c.f)) = FieldsNotIn(r, SetOf(c.f)))
         /\ (c.o = "-f" /\ Ranked(FieldsIn(r, SetOf(c.f))) => Ascending(KeysOf(FieldsIn(o, SetOf(c.f)))))
    [] c.v = "nest-fields" ->
         IF c.o \in {"explode-pairs-fields"} THEN ~Has(r, NestField(c)) => o = r
         ELSE FieldsNotIn(o, Touched(c, r)) = FieldsNotIn(r, Touched(c, r))
    [] c.v = "sec2gmt" -> Len(o) = Len(r) /\ \A i \in 1..Len(r) : o[i][1] = r[i][1] /\ (r[i][1] \notin SetOf(c.f) => o[i] = r[i])
    [] c.v = "case" -> FieldsNotIn(o, Touched(c, r)) = FieldsNotIn(r, Touched(c, r))
    [] c.v = "reorder" -> SameBag(o, r) /\ FieldsNotIn(o, SetOf(c.f)) = FieldsNotIn(r, SetOf(c.f))
    [] OTHER -> TRUE                       \* altkv with colliding keys, unspace onto an existing key: nothing stated

Allowed1(c, r, o) == IF Finite1(c, r) THEN o \in Cands1(c, r) ELSE Weak1(c, r, o)

\* ---------------------------------------------------------------- verbs emitting several records per record
Blocks(c, r) ==
  CASE c.v = "nest-explode-records" -> {Exploded(c, r)}
    [] c.v = "reshape-w2l" -> W2LBlocks(c, r)
    [] c.v \in PerRecord -> {<<o>> : o \in Cands1(c, r)}          \* (used for chains; needs Finite1(c, r))
BlocksDomain(c, r) ==
  CASE c.v = "nest-explode-records" -> ExplodeDomain(c, r)
    [] c.v = "reshape-w2l" -> W2LDomain(c, r)
RECURSIVE StreamCands(_, _)
StreamCands(c, s) == IF s = <<>> THEN {<<>>} ELSE {b \o rest : b \in Blocks(c, Head(s)), rest \in StreamCands(c, Tail(s))}

\* ---------------------------------------------------------------- whole-stream verbs
\* regularize: record-heterogeneity.md: "tries to re-order subsequent rows to look like the first (whatever order that
\* is)"; worked example `unsparsify -f a,b,u,v,w,x then regularize` (first record's order a b v u w x, not sorted)
Regularized(s) ==
  [i \in 1..Len(s) |-> Pick(s[i], KeysOf(s[CHOOSE j \in 1..i : KeySet(s[j]) = KeySet(s[i]) /\ \A m \in 1..(j - 1) : KeySet(s[m]) # KeySet(s[i])]))]
\* unsparsify: "the union of field names over all input records", example order a b v u x w = first seen
UnionKeys(s) == Dedup(Flatten1([i \in 1..Len(s) |-> KeysOf(s[i])]))
Unsparsified(c, s) ==
  LET U == UnionKeys(s) IN
  [i \in 1..Len(s) |-> [k \in 1..Len(U) |-> <<U[k], IF Has(s[i], U[k]) THEN Get(s[i], U[k]) ELSE Fill(c, <<>>)>>]]

\* ---------------------------------------------------------------- the stream-level judgement
InDomain(c, s) ==      \* outside it the reference says nothing this specification could hold the code to
  CASE c.v \in MultiEmit -> \A i \in 1..Len(s) : BlocksDomain(c, s[i])
    [] c.v = "nest-implode-records" -> \A i \in 1..Len(s) : Has(s[i], NestField(c)) => Get(s[i], NestField(c)) # <<>>
    [] OTHER -> TRUE

Allowed0(c, s, out) ==
  CASE ~InDomain(c, s) -> TRUE
    [] c.v \in PerRecord -> Len(out) = Len(s) /\ \A i \in 1..Len(s) : Allowed1(c, s[i], out[i])
    [] c.v \in MultiEmit -> out \in StreamCands(c, s)
    [] c.v = "regularize" -> out = Regularized(s)
    [] c.v = "unsparsify" -> out = Unsparsified(c, s)
    [] c.v = "nest-implode-records" -> ImplodedRecordsAllowed(c, s, out)
    [] c.v = "reshape-l2w" -> L2WAllowed(c, s, out)

\* one allowed outcome, and whether it is the only one
Expected0(c, s) ==
  CASE c.v \in PerRecord -> [i \in 1..Len(s) |-> IF Finite1(c, s[i]) THEN CHOOSE o \in Cands1(c, s[i]) : TRUE ELSE s[i]]
    [] c.v \in MultiEmit -> CHOOSE o \in StreamCands(c, s) : TRUE
    [] c.v = "regularize" -> Regularized(s)
    [] c.v = "unsparsify" -> Unsparsified(c, s)
    [] c.v = "nest-implode-records" -> ImplodedRecordsCanon(c, s)
    [] c.v = "reshape-l2w" -> L2WCanon(c, s)
Deterministic0(c, s) ==
  /\ InDomain(c, s)
  /\ CASE c.v \in PerRecord -> \A i \in 1..Len(s) : Finite1(c, s[i]) /\ Cardinality(Cands1(c, s[i])) = 1
       [] c.v \in MultiEmit -> Cardinality(StreamCands(c, s)) = 1
       [] c.v \in {"regularize", "unsparsify"} -> TRUE
       [] c.v = "nest-implode-records" ->
            /\ \A i \in 1..Len(s) : Has(s[i], NestField(c))
            /\ \A i, j \in 1..Len(s) : Others1(s[i], NestField(c)) = Others1(s[j], NestField(c)) => Pos(s[i], NestField(c)) = Pos(s[j], NestField(c))
            /\ \A i, j \in 1..Len(s) : KeysOf(Others1(s[i], NestField(c))) = KeysOf(Others1(s[j], NestField(c)))
       [] c.v = "reshape-l2w" -> /\ L2WRect(c, s) /\ \A i \in 1..Len(s) : IsLong(c, s[i])
                                 /\ \A i, j \in 1..Len(s) : KeysOf(OthersKV(c, s[i])) = KeysOf(OthersKV(c, s[j]))

\* ---------------------------------------------------------------- two verbs chained with `then`
\* A chain configuration is [v |-> "chain", o |-> name, ...]; its parts are fixed here.  The second verb works on the
\* very record objects the first one left behind, so this is where a stale key index or a broken link shows; the
\* inverse pairs of the property statement are among the chains.
Cfg(v, o, f, p, w) == [v |-> v, o |-> o, f |-> f, p |-> p, w |-> w]
Semi == <<";", ":">>
ChainParts(c) ==
  CASE c.o = "rename-back"        -> <<Cfg("rename", "", <<"a", "x">>, <<>>, <<>>), Cfg("rename", "", <<"x", "a">>, <<>>, <<>>)>>
    [] c.o = "rename-cut"         -> <<Cfg("rename", "", <<"a", "x">>, <<>>, <<>>), Cfg("cut", "-o", <<"x", "b">>, <<>>, <<>>)>>
    [] c.o = "rename-r-reorder"   -> <<Cfg("rename", "-r", <<"a", "x">>, <<>>, <<>>), Cfg("reorder", "", <<"x">>, <<>>, <<>>)>>
    [] c.o = "rename-sort"        -> <<Cfg("rename", "", <<"d", "a">>, <<>>, <<>>), Cfg("sort-within-records", "", <<>>, <<>>, <<>>)>>
    [] c.o = "reorder-rename"     -> <<Cfg("reorder", "-e", <<"a">>, <<>>, <<>>), Cfg("rename", "", <<"a", "x">>, <<>>, <<>>)>>
    [] c.o = "reorder-cut"        -> <<Cfg("reorder", "", <<"c", "a">>, <<>>, <<>>), Cfg("cut", "-x", <<"a">>, <<>>, <<>>)>>
    [] c.o = "cut-template"       -> <<Cfg("cut", "-x", <<"b">>, <<>>, <<>>), Cfg("template", "", <<"a", "z", "c">>, <<>>, <<>>)>>
    [] c.o = "label-rename"       -> <<Cfg("label", "", <<"x", "y">>, <<>>, <<>>), Cfg("rename", "", <<"x", "z">>, <<>>, <<>>)>>
    [] c.o = "unsparsify-sparsify" -> <<Cfg("unsparsify-f", "", <<"z", "a">>, <<>>, <<>>), Cfg("sparsify", "", <<>>, <<>>, <<>>)>>
    [] c.o = "template-reorder"   -> <<Cfg("template", "", <<"d", "a", "z">>, <<>>, <<>>), Cfg("reorder", "-e", <<"a">>, <<>>, <<>>)>>
    [] c.o = "unsparsify-regularize" -> <<Cfg("unsparsify", "", <<>>, <<>>, <<>>), Cfg("regularize", "", <<>>, <<>>, <<>>)>>
    [] c.o = "nest-fields-back"   -> <<Cfg("nest-fields", "explode-values-fields", <<"a">>, Semi, <<>>),
                                      Cfg("nest-fields", "implode-values-fields", <<"a">>, Semi, <<>>)>>
    [] c.o = "nest-records-back"  -> <<Cfg("nest-explode-records", "explode-values-records", <<"a">>, Semi, <<>>),
                                      Cfg("nest-implode-records", "implode-values-records", <<"a">>, Semi, <<>>)>>
    [] c.o = "nest-pairs-cut"     -> <<Cfg("nest-fields", "explode-pairs-fields", <<"a">>, Semi, <<>>), Cfg("cut", "-x", <<"p">>, <<>>, <<>>)>>
    [] c.o = "nest-fields-rename" -> <<Cfg("nest-fields", "explode-values-fields", <<"a">>, Semi, <<>>), Cfg("rename", "", <<"a_2", "x">>, <<>>, <<>>)>>
    [] c.o = "reshape-back"       -> <<Cfg("reshape-w2l", "-i", <<"a", "b">>, <<"k", "v">>, <<>>), Cfg("reshape-l2w", "-s", <<>>, <<"k", "v">>, <<>>)>>
    [] c.o = "reshape-cut"        -> <<Cfg("reshape-w2l", "-i", <<"b", "c">>, <<"k", "v">>, <<>>), Cfg("cut", "-x", <<"v">>, <<>>, <<>>)>>
Parts(c) == IF c.v = "chain" THEN ChainParts(c) ELSE <<c>>
\* the outcomes of a first verb as a finite set (where it has one)
FiniteStream(c, s) ==
  /\ InDomain(c, s)
  /\ c.v \in PerRecord \cup MultiEmit \cup {"regularize", "unsparsify"}
  /\ c.v \in PerRecord => \A i \in 1..Len(s) : Finite1(c, s[i])
OutSet(c, s) == CASE c.v = "regularize" -> {Regularized(s)}
                  [] c.v = "unsparsify" -> {Unsparsified(c, s)}
                  [] OTHER -> StreamCands(c, s)
Allowed(c, s, out) ==
  IF c.v # "chain" THEN Allowed0(c, s, out)
  ELSE LET c1 == ChainParts(c)[1]  c2 == ChainParts(c)[2] IN
       FiniteStream(c1, s) => \E mid \in OutSet(c1, s) : Allowed0(c2, mid, out)
Expected(c, s) ==
  IF c.v # "chain" THEN Expected0(c, s) ELSE Expected0(ChainParts(c)[2], Expected0(ChainParts(c)[1], s))
Deterministic(c, s) ==
  IF c.v # "chain" THEN Deterministic0(c, s)
  ELSE Deterministic0(ChainParts(c)[1], s) /\ Deterministic0(ChainParts(c)[2], Expected0(ChainParts(c)[1], s))

(***************************************************************************)
(* Laws of C12 as theorems of these definitions (checked by TLC over the     *)
(* whole bounded space in VerbsRestructureMC.tla)                            *)
(***************************************************************************)
\* cut -f F and cut -x -f F split each record into complementary parts
CutComplement(r, F) ==
  LET a == CHOOSE o \in Cands1(Cfg("cut", "-f", F, <<>>, <<>>), r) : TRUE
      b == CHOOSE o \in Cands1(Cfg("cut", "-x", F, <<>>, <<>>), r) : TRUE IN
  /\ KeySet(a) \cup KeySet(b) = KeySet(r) /\ KeySet(a) \cap KeySet(b) = {}
  /\ SameBag(a \o b, r)
  /\ a = FieldsIn(r, KeySet(a)) /\ b = FieldsIn(r, KeySet(b))              \* each part in record order, texts intact
\* rename a,b then rename b,a is the identity when b is new
RenameRoundTrip(r, a, b) ==
  (a # b /\ ~Has(r, b)) =>
     /\ RenClean(r, <<a, b>>) /\ RenClean(Renamed(r, <<a, b>>), <<b, a>>)
     /\ Renamed(Renamed(r, <<a, b>>), <<b, a>>) = r
\* unsparsify output is rectangular over the union of keys in first-seen order
UnsparsifyRectangular(c, s) ==
  LET out == Unsparsified(c, s) IN
  /\ Len(out) = Len(s)
  /\ \A i \in 1..Len(s) : /\ KeysOf(out[i]) = UnionKeys(s)
                          /\ \A k \in 1..Len(s[i]) : Get(out[i], s[i][k][1]) = s[i][k][2]
                          /\ \A k \in 1..Len(out[i]) : ~Has(s[i], out[i][k][1]) => out[i][k][2] = Fill(c, <<>>)
  /\ \A a, b \in 1..Len(UnionKeys(s)) : a < b =>      \* first-seen order
        LET fa == CHOOSE i \in 1..Len(s) : Has(s[i], UnionKeys(s)[a]) /\ \A j \in 1..(i - 1) : ~Has(s[j], UnionKeys(s)[a])
            fb == CHOOSE i \in 1..Len(s) : Has(s[i], UnionKeys(s)[b]) /\ \A j \in 1..(i - 1) : ~Has(s[j], UnionKeys(s)[b])
        IN fa < fb \/ (fa = fb /\ Pos(s[fa], UnionKeys(s)[a]) < Pos(s[fa], UnionKeys(s)[b]))
\* nest explode then implode is the identity (stated domain: good pieces; across records: no two records with
\* the field agree on all their other fields, and the original is an allowed outcome)
NestFieldsRoundTrip(c, r) ==      \* c: explode-values-fields; the record has no field named like an exploded one
  ExplodeDomain(c, r) /\ ImplodeIdx(r, NestField(c)) = {} =>
     LET e == Exploded(c, r)[1]  ci == [c EXCEPT !.o = "implode-values-fields"] IN
     ImplodeFieldsDomain(e, NestField(c)) /\ ImplodedFields(ci, e) = r
NestRecordsRoundTrip(c, s) ==     \* c: explode-values-records
  LET f == NestField(c)  ci == [c EXCEPT !.v = "nest-implode-records", !.o = "implode-values-records"] IN
  ((\A i \in 1..Len(s) : ExplodeDomain(c, s[i]))
     /\ \A i, j \in 1..Len(s) : (i # j /\ Has(s[i], f) /\ Has(s[j], f)) => Others1(s[i], f) # Others1(s[j], f))
  => LET e == CHOOSE o \in StreamCands(c, s) : TRUE IN
     /\ Cardinality(StreamCands(c, s)) = 1
     /\ ImplodedRecordsAllowed(ci, e, s)
     /\ Deterministic(ci, e) => Expected(ci, e) = s             \* and where only one outcome is allowed, it is the original
\* reshape wide-to-long then long-to-wide is the identity (stated domain: every record has all the input fields,
\* last and in the order of the -i list; no two records agree on all other fields) -- and vice versa
WideDomain(c, s) ==
  /\ NoDup(c.f) /\ c.f # <<>>
  /\ \A i \in 1..Len(s) : /\ W2LDomain(c, s[i]) /\ Len(s[i]) >= Len(c.f)
                          /\ KeysOf(SubSeq(s[i], Len(s[i]) - Len(c.f) + 1, Len(s[i]))) = c.f
  /\ \A i, j \in 1..Len(s) : i # j => FieldsNotIn(s[i], SetOf(c.f)) # FieldsNotIn(s[j], SetOf(c.f))
ReshapeWideLongWide(c, s) ==      \* c: reshape-w2l
  WideDomain(c, s) =>
     LET cl == [c EXCEPT !.v = "reshape-l2w", !.o = "-s"]
         long == CHOOSE o \in StreamCands(c, s) : TRUE IN
     /\ Cardinality(StreamCands(c, s)) = 1
     /\ L2WAllowed(cl, long, s)
     /\ Deterministic(cl, long) => Expected(cl, long) = s
ReshapeLongWideLong(c, s, F) ==   \* c: reshape-l2w; F: the keys as an -i list
  (Deterministic(c, s) /\ s # <<>>
     /\ KeysOf(L2WPairs(c, s, 1)) = F
     /\ (\A i \in 1..Len(s) : Len(Get(s[i], KF(c))) = 1 /\ KeysOf(s[i]) = KeysOf(OthersKV(c, s[i])) \o <<KF(c), VF(c)>>)
     /\ (\A i \in 1..(Len(s) - 1) : OthersKV(c, s[i]) = OthersKV(c, s[i + 1]) \/ \A j \in (i + 1)..Len(s) : OthersKV(c, s[j]) # OthersKV(c, s[i])))
  => LET cw == [c EXCEPT !.v = "reshape-w2l", !.o = "-i", !.f = F]
         wide == Expected(c, s) IN
     (\A i \in 1..Len(wide) : W2LDomain(cw, wide[i])) => StreamCands(cw, wide) = {s}
\* the inverse pairs as chains: where the premises of the round-trip laws hold and the outcome is unique, it is the input
ChainIdentity(c, s) ==
  (c.v = "chain" /\ c.o \in {"rename-back", "nest-fields-back", "nest-records-back", "reshape-back"} /\ Deterministic(c, s)
     /\ LET c1 == ChainParts(c)[1]  f == NestField(c1) IN
        CASE c.o = "rename-back" -> \A i \in 1..Len(s) : ~Has(s[i], "x")
          [] c.o = "nest-fields-back" -> \A i \in 1..Len(s) : ImplodeIdx(s[i], f) = {}
          [] c.o = "nest-records-back" -> \A i, j \in 1..Len(s) : (i # j /\ Has(s[i], f) /\ Has(s[j], f)) => Others1(s[i], f) # Others1(s[j], f)
          [] c.o = "reshape-back" -> WideDomain(c1, s))
  => Expected(c, s) = s
\* bystander fields keep name, value text and relative order, for every verb that passes records one to one
Bystanders(c, r, o) ==
  CASE c.v \in {"cut", "template"} ->      \* kept fields keep their text; cut without -o keeps their order
         /\ \A i \in 1..Len(o) : Has(r, o[i][1]) => o[i][2] = Get(r, o[i][1])
         /\ (c.v = "cut" /\ c.o # "-o") => o = FieldsIn(r, KeySet(o))
    [] c.v \in {"reorder", "sort-within-records"} ->
         /\ SameBag(o, r)
         /\ (c.v = "reorder" \/ c.o = "-f") => FieldsNotIn(o, SetOf(c.f)) = FieldsNotIn(r, SetOf(c.f))
    [] c.v \in {"rename", "label", "nest-fields", "sec2gmt", "case"} ->
         IF c.o = "explode-pairs-fields" THEN FieldsIn(o, KeySet(r) \ {NestField(c)}) = FieldsNotIn(r, {NestField(c)})
         ELSE FieldsNotIn(o, Touched(c, r)) = FieldsNotIn(r, Touched(c, r))
    [] c.v = "sparsify" -> o = FieldsIn(r, KeySet(o)) /\ (c.o = "-f" => FieldsNotIn(o, SetOf(c.f)) = FieldsNotIn(r, SetOf(c.f)))
    [] c.v = "fill-empty" -> KeysOf(o) = KeysOf(r) /\ \A i \in 1..Len(r) : r[i][2] # <<>> => o[i] = r[i]
    [] c.v = "unsparsify-f" -> SubSeq(o, 1, Len(r)) = r
    [] c.v = "unspace" -> Len(o) = Len(r) /\ \A i \in 1..Len(r) :
                            (\A k \in 1..Len(r[i][2]) : r[i][2][k] # " ") /\ r[i][1] \notin {"a b", " c"} => o[i] = r[i]
    [] OTHER -> TRUE
BystandersKept(c, s) ==
  c.v \in PerRecord /\ InDomain(c, s) => \A i \in 1..Len(s) : Finite1(c, s[i]) => \A o \in Cands1(c, s[i]) : Bystanders(c, s[i], o)
\* explode across records / wide-to-long: every emitted record carries the untouched fields of its source intact
BystandersKeptMulti(c, s) ==
  c.v \in MultiEmit /\ InDomain(c, s) =>
     \A i \in 1..Len(s) : \A b \in Blocks(c, s[i]) : \A k \in 1..Len(b) :
        LET K == IF c.v = "reshape-w2l" THEN SetOf(c.f) \cup {KF(c), VF(c)} ELSE {NestField(c)} IN
        \/ b[k] = s[i]
        \/ c.o # "explode-pairs-records" /\ FieldsNotIn(b[k], K) = FieldsNotIn(s[i], K)
        \/ c.o = "explode-pairs-records" /\ \E n \in 1..Len(b[k]) : Splice(b[k], n, <<>>) = FieldsNotIn(s[i], K)
=============================================================================
