------------------------------- MODULE Reader -------------------------------
(***************************************************************************)
(* C05: how inputs become one record stream, and how chains compose.        *)
(*  * Reading files f1..fn yields the concatenation of reading each alone,  *)
(*    with NR counting 1..N across files, FNR restarting at 1 in each file, *)
(*    FILENAME/FILENUM naming the file each record came from, NF the        *)
(*    current field count even mid-expression, end blocks seeing the final  *)
(*    NR.  For CSV/TSV each file has its own header line; with an implicit  *)
(*    header the keys are 1, 2, ...                                         *)
(*  * `A then B` equals feeding A's output to B: ChainExpected composes the *)
(*    verb definitions of VerbsSelect.tla.                                  *)
(*  * The same records arrive from a file, stdin, --from, a compressed file *)
(*    or a prepipe: a Source does not appear in Records at all.             *)
(***************************************************************************)
EXTENDS VerbsSelect

\* A file is [header |-> Seq(key), rows |-> Seq(Seq(value))] (every row as wide as the header)
RecOf(h, row) == [i \in 1..Len(row) |-> <<h[i], row[i]>>]
RecordsOf(f) == [j \in 1..Len(f.rows) |-> RecOf(f.header, f.rows[j])]
RECURSIVE Concat(_)
Concat(ss) == IF ss = <<>> THEN <<>> ELSE Head(ss) \o Concat(Tail(ss))
Records(files) == Concat([k \in 1..Len(files) |-> RecordsOf(files[k])])

\* number of records before file k
RECURSIVE Before(_, _)
Before(files, k) == IF k <= 1 THEN 0 ELSE Before(files, k - 1) + Len(files[k - 1].rows)

\* What   put '$nr = NR; $fnr = FNR; $fnum = FILENUM; $fname = FILENAME; $nf = NF'   appends to record j of file k.
\* NF is evaluated after four fields have been appended: "NF equal to the current field count even mid-expression".
Annotated(files, names) ==
  Concat([k \in 1..Len(files) |->
     [j \in 1..Len(files[k].rows) |->
         RecOf(files[k].header, files[k].rows[j])
           \o << <<"nr", ToString(Before(files, k) + j)>>, <<"fnr", ToString(j)>>, <<"fnum", ToString(k)>>,
                 <<"fname", names[k]>>, <<"nf", ToString(Len(files[k].header) + 4)>> >>]])
FinalNR(files) == Before(files, Len(files) + 1)

\* The law itself, for files whose BYTES are spelled in ways the record model above does not describe (a byte-order mark,
\* CR LF line ends, no newline at the end): whatever a reader makes of such a file read alone, reading the files together
\* gives the concatenation - the same records, NR running on and FILENUM counting the files.
\* alone[k] is the annotated output of `mlr ... file_k`, a sequence of records (sequences of <<name, text>>).
SetField(r, k, v) == [i \in 1..Len(r) |-> IF r[i][1] = k THEN <<k, v>> ELSE r[i]]
RECURSIVE ConcatOf(_, _, _)
ConcatOf(alone, k, before) ==
  IF k > Len(alone) THEN <<>>
  ELSE [i \in 1..Len(alone[k]) |-> SetField(SetField(alone[k][i], "nr", ToString(before + i)), "fnum", ToString(k))]
       \o ConcatOf(alone, k + 1, before + Len(alone[k]))

\* CSV-lite and PPRINT input may change schema INSIDE a file: "a blank line followed by a new header line" starts a new
\* block (file-formats.md, "Schema change"). A block file is a sequence of blocks [header, rows]; its records are the blocks'
\* records in order, FNR counts them through the whole file, NR through all files.
BRecordsOf(bf) == Concat([b \in 1..Len(bf) |-> RecordsOf(bf[b])])
BHeaders(bf) == Concat([b \in 1..Len(bf) |-> [j \in 1..Len(bf[b].rows) |-> bf[b].header]])
RECURSIVE BBefore(_, _)
BBefore(bfiles, k) == IF k <= 1 THEN 0 ELSE BBefore(bfiles, k - 1) + Len(BRecordsOf(bfiles[k - 1]))
AnnotatedB(bfiles, names) ==
  Concat([k \in 1..Len(bfiles) |->
     LET recs == BRecordsOf(bfiles[k])  hs == BHeaders(bfiles[k]) IN
     [j \in 1..Len(recs) |->
         recs[j] \o << <<"nr", ToString(BBefore(bfiles, k) + j)>>, <<"fnr", ToString(j)>>, <<"fnum", ToString(k)>>,
                       <<"fname", names[k]>>, <<"nf", ToString(Len(hs[j]) + 4)>> >>]])
BFinalNR(bfiles) == BBefore(bfiles, Len(bfiles) + 1)

\* "The input-record reader assigns their values" (reference-dsl-variables.md; `repeat -n 3 then put '$nr = NR'` shows the
\* reader's NR three times): the context variables belong to the record, wherever in the program or the chain they are
\* consulted.  A use is [mode, sel]: mode "every" (the assignments run on every record), "cond" (they run under the pattern
\* sel { ... }, the other records pass unannotated), "filter" (filter sel then put: only selected records arrive at the put),
\* "tac" (tac then put: every record arrives, in reverse order).  sel names a condition on the record's origin: file k,
\* record j of that file, nr-th record overall.
Sel(sel, k, j, nr) == CASE sel = "all" -> TRUE [] sel = "fnr1" -> j = 1 [] sel = "fnr2" -> j = 2 [] sel = "fnrgt1" -> j > 1
                        [] sel = "file2" -> k = 2 [] sel = "filegt1" -> k > 1 [] sel = "nreven" -> nr % 2 = 0 [] sel = "nrgt1" -> nr > 1
Origins(files) == Concat([k \in 1..Len(files) |-> [j \in 1..Len(files[k].rows) |-> <<k, j>>]])
Used(files, names, mode, sel) ==
  LET og == Origins(files)
      ann == Annotated(files, names)
      plain == Records(files)
      hit(i) == Sel(sel, og[i][1], og[i][2], i)
  IN CASE mode = "every" -> ann
       [] mode = "cond" -> [i \in 1..Len(og) |-> IF hit(i) THEN ann[i] ELSE plain[i]]
       [] mode = "filter" -> (LET keep == IdxWhere(og, hit) IN [n \in 1..Len(keep) |-> ann[keep[n]]])
       [] mode = "tac" -> [i \in 1..Len(og) |-> ann[Len(og) + 1 - i]]
Modes == {"every", "cond", "filter", "tac"}
SelNames == {"fnr1", "fnr2", "fnrgt1", "file2", "filegt1", "nreven", "nrgt1"}
Uses == {[mode |-> "every", sel |-> "all"], [mode |-> "tac", sel |-> "all"]} \cup {[mode |-> m, sel |-> x] : m \in {"cond", "filter"}, x \in SelNames}

\* then-chains: the composition of the verb definitions
RECURSIVE ChainExpected(_, _)
ChainExpected(cs, s) == IF cs = <<>> THEN s ELSE ChainExpected(Tail(cs), Expected(Head(cs), s))
\* verbs whose definition does not consult the original record counters (NR-based filters do: a pipe renumbers)
Composable(c) == Deterministic(c) /\ ~(c.v \in {"filter", "filter-x"} /\ c.o = "NR % 2 == 1")

\* laws: concatenation and context
ConcatLaw(files) == \A k \in 1..Len(files) :
    SubSeq(Records(files), Before(files, k) + 1, Before(files, k) + Len(files[k].rows)) = RecordsOf(files[k])
\* wherever the context is consulted, an annotated record carries the values of its own origin
UseLaw(files, names) ==
  \A u \in Uses : LET out == Used(files, names, u.mode, u.sel)  ann == Annotated(files, names) IN
     \A i \in 1..Len(out) : Has(out[i], "fname") => \E n \in 1..Len(ann) : out[i] = ann[n]
ContextLaw(files, names) ==
  LET a == Annotated(files, names) IN
  /\ Len(a) = FinalNR(files)
  /\ \A i \in 1..Len(a) : Get(a[i], "nr") = ToString(i)
  /\ \A i \in 1..Len(a) : (Get(a[i], "fnr") = "1") = (i = 1 \/ Get(a[i - 1], "fnum") # Get(a[i], "fnum"))
=============================================================================
