------------------------------ MODULE MiniMiller ------------------------------
(***************************************************************************)
(* A reference interpreter (big-step, in TLA+) for a core of the Miller DSL *)
(* (C14), written from reference-dsl-variables.md (scoping, type           *)
(* declarations, absent rules), reference-dsl-control-structures.md,        *)
(* reference-dsl-user-defined-functions.md, reference-main-arrays.md /      *)
(* -maps.md (1-up indexing, negative aliases, slices, auto-create,          *)
(* auto-extend) and reference-dsl-output-statements.md (print, emit).       *)
(*                                                                         *)
(* Programs are ASTs (records tagged by t); Unparse turns an AST into the   *)
(* token sequence that the real parser reads -- WITHOUT redundant            *)
(* parentheses, using the documented operator precedence -- so precedence   *)
(* is exercised through the real parser.  Run(prog, input) is the sequence  *)
(* of output items: <<"p", text>> for a printed line, <<"r", record>> for an *)
(* emitted/passed record, or the single item <<"fatal">> when the program   *)
(* must end in an error (failed type gate, redeclaration, bad index).       *)
(***************************************************************************)
EXTENDS Integers, Sequences, FiniteSets, TLC

(***************************************************************************)
(* Values                                                                  *)
(***************************************************************************)
I(n) == [k |-> "int", n |-> n, s |-> "", b |-> FALSE, m |-> <<>>]
S(s) == [k |-> IF s = "" THEN "empty" ELSE "str", n |-> 0, s |-> s, b |-> FALSE, m |-> <<>>]
B(b) == [k |-> "bool", n |-> 0, s |-> "", b |-> b, m |-> <<>>]
Absent == [k |-> "absent", n |-> 0, s |-> "", b |-> FALSE, m |-> <<>>]
Err == [k |-> "error", n |-> 0, s |-> "", b |-> FALSE, m |-> <<>>]
Null == [k |-> "null", n |-> 0, s |-> "", b |-> FALSE, m |-> <<>>]       \* JSON null: fills the gaps of an auto-extended array
M(pairs) == [k |-> "map", n |-> 0, s |-> "", b |-> FALSE, m |-> pairs]      \* pairs: Seq(<<key value, value>>), insertion order
A(items) == [k |-> "arr", n |-> 0, s |-> "", b |-> FALSE, m |-> items]      \* items: Seq(value)
IsNum(v) == v.k = "int"
IsStrish(v) == v.k \in {"str", "empty"}

\* text of a scalar as print / record output shows it
RECURSIVE Join(_, _)
Join(ss, sep) == IF ss = <<>> THEN "" ELSE IF Len(ss) = 1 THEN ss[1] ELSE ss[1] \o sep \o Join(Tail(ss), sep)
RECURSIVE Str(_), Json(_)
Str(v) == CASE v.k = "int" -> ToString(v.n)
            [] v.k \in {"str", "empty"} -> v.s
            [] v.k = "bool" -> (IF v.b THEN "true" ELSE "false")
            [] v.k = "absent" -> ""
            [] v.k = "null" -> ""
            [] v.k = "error" -> "(error)"
            \* single-line JSON, as json_stringify prints it
            [] v.k = "map" -> "{" \o Join([i \in 1..Len(v.m) |-> "\"" \o Str(v.m[i][1]) \o "\": " \o Json(v.m[i][2])], ", ") \o "}"
            [] v.k = "arr" -> "[" \o Join([i \in 1..Len(v.m) |-> Json(v.m[i])], ", ") \o "]"
Json(v) == IF v.k \in {"str", "empty"} THEN "\"" \o v.s \o "\"" ELSE IF v.k = "null" THEN "null" ELSE Str(v)

\* ---- maps and arrays -----------------------------------------------------------------------------
KeyEq(a, b) == Str(a) = Str(b)          \* map keys are strings or ints; an int key equals the string of its digits
MapHas(m, key) == \E i \in 1..Len(m) : KeyEq(m[i][1], key)
MapGet(m, key) == IF MapHas(m, key) THEN m[CHOOSE i \in 1..Len(m) : KeyEq(m[i][1], key)][2] ELSE Absent
MapPut(m, key, val) == IF MapHas(m, key)
                       THEN [i \in 1..Len(m) |-> IF KeyEq(m[i][1], key) THEN <<m[i][1], val>> ELSE m[i]]   \* keeps its position
                       ELSE Append(m, <<key, val>>)                                                       \* new keys go last
MapDel(m, key) == SelectSeq(m, LAMBDA p : ~KeyEq(p[1], key))
\* arrays are 1-up; -1 is the last element ... -n the first; 0 and out-of-bounds are errors on read access
ArrIdx(n, i) == IF i >= 1 /\ i <= n THEN i ELSE IF i <= -1 /\ i >= -n THEN n + 1 + i ELSE 0

(***************************************************************************)
(* Operators (ints are small; only what the generated programs use)         *)
(***************************************************************************)
Truthy(v) == v.k = "bool" /\ v.b
BinOp(op, a, b) ==
  CASE op \in {"+", "-", "*"} ->
         (IF a.k = "absent" /\ b.k = "absent" THEN Absent
          ELSE IF a.k = "absent" THEN (IF IsNum(b) THEN b ELSE Err)          \* absent is the identity
          ELSE IF b.k = "absent" THEN (IF IsNum(a) THEN a ELSE Err)
          ELSE IF IsNum(a) /\ IsNum(b) THEN I(CASE op = "+" -> a.n + b.n [] op = "-" -> a.n - b.n [] op = "*" -> a.n * b.n)
          ELSE Err)
    [] op = "." ->                      \* dot: string concatenation, stringifies numbers; absent is the identity
         (IF a.k = "absent" /\ b.k = "absent" THEN Absent
          ELSE IF a.k \in {"map", "arr", "error"} \/ b.k \in {"map", "arr", "error"} THEN Err
          ELSE S(Str(a) \o Str(b)))
    [] op \in {"<", "<=", ">", ">="} ->
         (IF IsNum(a) /\ IsNum(b) THEN B(CASE op = "<" -> a.n < b.n [] op = "<=" -> a.n <= b.n [] op = ">" -> a.n > b.n [] op = ">=" -> a.n >= b.n)
          ELSE IF a.k = "absent" \/ b.k = "absent" THEN Absent ELSE Err)
    [] op \in {"==", "!="} ->
         (IF a.k = "absent" \/ b.k = "absent" THEN Absent
          ELSE IF a.k \in {"map", "arr", "error"} \/ b.k \in {"map", "arr", "error"} THEN Err
          ELSE LET same == IF IsNum(a) /\ IsNum(b) THEN a.n = b.n ELSE IF a.k = b.k THEN Str(a) = Str(b) ELSE FALSE
               IN B(IF op = "==" THEN same ELSE ~same))
    [] OTHER -> Err

\* operator precedence (reference-dsl-operators.md, "Operator precedence": highest first -- ** ; ??? ; ?? ; unary ! ~ + - ;
\* . ; * / // % ; + - ; shifts ; & ; ^ ; | ; < <= > >= ; == != ; && ; ^^ ; || ; ?:).  Larger number = binds tighter.
\* All binary operators used here are left-associative.
Prec(op) == CASE op = "?:" -> 1 [] op = "||" -> 2 [] op = "&&" -> 4 [] op \in {"==", "!="} -> 5 [] op \in {"<", "<=", ">", ">="} -> 6
              [] op \in {"+", "-"} -> 10 [] op = "*" -> 11 [] op = "." -> 12 [] op \in {"neg", "not"} -> 13 [] OTHER -> 20

(***************************************************************************)
(* Types of local declarations                                             *)
(***************************************************************************)
TypeOK(ty, v) ==
  CASE ty \in {"var", "any"} -> TRUE
    [] ty = "int" -> v.k = "int"
    [] ty = "num" -> v.k = "int"
    [] ty = "str" -> v.k \in {"str", "empty"}
    [] ty = "bool" -> v.k = "bool"
    [] ty = "map" -> v.k = "map"
    [] ty = "arr" -> v.k = "arr"
    [] ty = "funct" -> v.k = "funct"
    [] OTHER -> FALSE

(***************************************************************************)
(* Interpreter state                                                       *)
(*  fr   : stack of frames (innermost last); a frame is a sequence of       *)
(*         [name, ty, v] bindings                                          *)
(*  oos  : map (pairs) of out-of-stream variables (persist across records)  *)
(*  rec  : the current record as pairs <<S(name), value>>                   *)
(*  out  : output items so far                                             *)
(*  ctl  : "go" | "break" | "continue" | "return" | "fatal"                  *)
(*  ret  : value being returned; flt : filter condition (TRUE keeps record) *)
(*  nr   : NR;  fuel: bound on loop iterations and call depth               *)
(***************************************************************************)
St0 == [fr |-> << <<>> >>, oos |-> <<>>, rec |-> <<>>, out |-> <<>>, ctl |-> "go", ret |-> Absent, flt |-> TRUE, nr |-> 0, fuel |-> 60, tee |-> <<>>]
Fatal(st) == [st EXCEPT !.ctl = "fatal"]

FrameHas(f, name) == \E i \in 1..Len(f) : f[i].name = name
FrameGet(f, name) == f[CHOOSE i \in 1..Len(f) : f[i].name = name]
\* innermost frame (searching outwards) that binds name; 0 if none
Where(fr, name) == IF \E d \in 1..Len(fr) : FrameHas(fr[d], name)
                   THEN CHOOSE d \in 1..Len(fr) : FrameHas(fr[d], name) /\ \A e \in (d + 1)..Len(fr) : ~FrameHas(fr[e], name)
                   ELSE 0
LocalGet(st, name) == LET d == Where(st.fr, name) IN IF d = 0 THEN Absent ELSE FrameGet(st.fr[d], name).v
SetIn(f, name, v) == [i \in 1..Len(f) |-> IF f[i].name = name THEN [f[i] EXCEPT !.v = v] ELSE f[i]]
\* var/typed declaration at the current scope: error if already declared in this very scope; type gate
Declare(st, ty, name, v) ==
  LET top == Len(st.fr) IN
  IF v.k = "absent" THEN st                                 \* an absent right-hand side is skipped, for locals too
  ELSE IF FrameHas(st.fr[top], name) THEN Fatal(st)
  ELSE IF ~TypeOK(ty, v) THEN Fatal(st)
  ELSE [st EXCEPT !.fr[top] = Append(@, [name |-> name, ty |-> ty, v |-> v])]
\* untyped assignment: updates the nearest enclosing binding (re-checking its declared type), else defines here
AssignLocal(st, name, v) ==
  LET d == Where(st.fr, name) IN
  IF v.k = "absent" THEN st
  ELSE IF d = 0 THEN [st EXCEPT !.fr[Len(st.fr)] = Append(@, [name |-> name, ty |-> "var", v |-> v])]
  ELSE IF ~TypeOK(FrameGet(st.fr[d], name).ty, v) THEN Fatal(st)
  ELSE [st EXCEPT !.fr[d] = SetIn(@, name, v)]
Push(st) == [st EXCEPT !.fr = Append(@, <<>>)]
Pop(st) == [st EXCEPT !.fr = SubSeq(@, 1, Len(@) - 1)]

(***************************************************************************)
(* Indexed reads and writes on nested maps/arrays                           *)
(***************************************************************************)
RECURSIVE GetPath(_, _), PutPath(_, _, _), DelPath(_, _)
\* read v[i1][i2]...: absent when a map key is missing; error for a bad array index or indexing a scalar
GetPath(v, path) ==
  IF path = <<>> THEN v
  ELSE LET i == Head(path) IN
       IF v.k = "absent" THEN Absent
       ELSE IF v.k = "map" THEN GetPath(MapGet(v.m, i), Tail(path))
       \* "Out-of-bounds index accesses are absent"
       ELSE IF v.k = "arr" THEN (IF i.k # "int" THEN Err ELSE IF ArrIdx(Len(v.m), i.n) = 0 THEN Absent ELSE GetPath(v.m[ArrIdx(Len(v.m), i.n)], Tail(path)))
       ELSE Err
\* write: maps are auto-created along the path; arrays: in-bounds (incl. negative aliases) replaces, n+1 extends by one,
\* further beyond the end extends with JSON-null gaps; zero and out-of-bounds negative indices are errors (returns Err)
PutPath(v, path, val) ==
  IF path = <<>> THEN val
  ELSE LET i == Head(path) IN
       IF v.k \in {"absent", "map"} THEN
            LET m == IF v.k = "map" THEN v.m ELSE <<>>
                sub == PutPath(MapGet(m, i), Tail(path), val)
            IN IF sub.k = "error" \/ i.k \notin {"int", "str"} THEN Err ELSE M(MapPut(m, i, sub))
       ELSE IF v.k = "arr" THEN
            (IF i.k # "int" THEN Err
             ELSE LET n == Len(v.m)  j == ArrIdx(n, i.n) IN
                  IF j # 0 THEN (LET sub == PutPath(v.m[j], Tail(path), val) IN
                                 IF sub.k = "error" THEN Err ELSE A([x \in 1..n |-> IF x = j THEN sub ELSE v.m[x]]))
                  ELSE IF i.n > n THEN (LET sub == PutPath(Absent, Tail(path), val) IN
                                        IF sub.k = "error" THEN Err ELSE A(v.m \o [g \in 1..(i.n - n - 1) |-> Null] \o <<sub>>))
                  ELSE Err)
       ELSE Err
DelPath(v, path) ==
  IF Len(path) = 1 THEN (IF v.k = "map" THEN M(MapDel(v.m, path[1])) ELSE v)
  ELSE IF v.k = "map" /\ MapHas(v.m, path[1]) THEN M(MapPut(v.m, path[1], DelPath(MapGet(v.m, path[1]), Tail(path)))) ELSE v

(***************************************************************************)
(* Expressions.  Eval returns [v |-> value, st |-> state] (calls may print) *)
(***************************************************************************)
RECURSIVE Eval(_, _, _), EvalSeq(_, _, _), Exec(_, _, _), ExecBlock(_, _, _), CallFunc(_, _, _, _), Loop(_, _, _, _), ForEach(_, _, _, _, _, _),
          CallLambda(_, _, _, _), HofMapArr(_, _, _, _, _, _), HofAcc(_, _, _, _, _, _), HofMapMap(_, _, _, _, _, _)
Funct(node) == [k |-> "funct", n |-> 0, s |-> "", b |-> FALSE, m |-> <<node>>]
R(v, st) == [v |-> v, st |-> st]

EvalSeq(P, es, st) ==      \* left to right; returns [vs |-> Seq(value), st]
  IF es = <<>> THEN [vs |-> <<>>, st |-> st]
  ELSE LET h == Eval(P, Head(es), st)
           t == EvalSeq(P, Tail(es), h.st)
       IN [vs |-> <<h.v>> \o t.vs, st |-> t.st]

Eval(P, e, st) ==
  IF st.ctl = "fatal" THEN R(Err, st)
  ELSE
  CASE e.t = "int"   -> R(I(e.n), st)
    [] e.t = "str"   -> R(S(e.s), st)
    [] e.t = "bool"  -> R(B(e.b), st)
    [] e.t = "local" -> R(LocalGet(st, e.name), st)
    [] e.t = "field" -> R(MapGet(st.rec, S(e.name)), st)
    [] e.t = "oos"   -> R(MapGet(st.oos, S(e.name)), st)
    [] e.t = "nr"    -> R(I(st.nr), st)
    [] e.t = "srec"  -> R(M(st.rec), st)                                 \* $*
    \* positional names (reference-dsl-variables.md): $[[n]] is the NAME of field n, $[[[n]]] its value; "accesses to
    \* non-existent fields -- i.e., with index less than 1 or greater than NF -- return an absent value"
    [] e.t \in {"posname", "posval"} ->
         LET x == Eval(P, e.e, st) IN
         IF x.v.k # "int" THEN R(IF x.v.k = "absent" THEN Absent ELSE Err, x.st)
         ELSE IF x.v.n < 1 \/ x.v.n > Len(x.st.rec) THEN R(Absent, x.st)
         ELSE R(IF e.t = "posname" THEN S(Str(x.st.rec[x.v.n][1])) ELSE x.st.rec[x.v.n][2], x.st)
    [] e.t = "bin" /\ e.op \in {"&&", "||"} ->                            \* short-circuit
         LET l == Eval(P, e.l, st) IN
         IF e.op = "&&" /\ l.v.k = "bool" /\ ~l.v.b THEN R(B(FALSE), l.st)
         ELSE IF e.op = "||" /\ l.v.k = "bool" /\ l.v.b THEN R(B(TRUE), l.st)
         ELSE LET r == Eval(P, e.r, l.st) IN
              IF l.v.k = "bool" /\ r.v.k = "bool" THEN R(r.v, r.st)
              ELSE IF l.v.k = "absent" /\ r.v.k \in {"bool", "absent"} THEN R(r.v, r.st)
              ELSE IF r.v.k = "absent" /\ l.v.k = "bool" THEN R(Absent, r.st)
              ELSE R(Err, r.st)
    [] e.t = "bin" -> LET l == Eval(P, e.l, st)  r == Eval(P, e.r, l.st) IN R(BinOp(e.op, l.v, r.v), r.st)
    [] e.t = "neg" -> LET x == Eval(P, e.e, st) IN R(IF x.v.k = "int" THEN I(0 - x.v.n) ELSE IF x.v.k = "absent" THEN Absent ELSE Err, x.st)
    [] e.t = "not" -> LET x == Eval(P, e.e, st) IN R(IF x.v.k = "bool" THEN B(~x.v.b) ELSE IF x.v.k = "absent" THEN Absent ELSE Err, x.st)
    [] e.t = "cond" -> LET c == Eval(P, e.c, st) IN
                       IF c.v.k # "bool" THEN R(Err, Fatal(c.st)) ELSE Eval(P, IF c.v.b THEN e.a ELSE e.b, c.st)
    [] e.t = "maplit" -> LET ks == EvalSeq(P, [i \in 1..Len(e.kvs) |-> e.kvs[i][1]], st)
                             vs == EvalSeq(P, [i \in 1..Len(e.kvs) |-> e.kvs[i][2]], ks.st)
                             F[i \in 0..Len(e.kvs)] == IF i = 0 THEN <<>> ELSE IF vs.vs[i].k = "absent" THEN F[i - 1] ELSE MapPut(F[i - 1], ks.vs[i], vs.vs[i])
                         IN R(M(F[Len(e.kvs)]), vs.st)
    [] e.t = "arrlit" -> LET vs == EvalSeq(P, e.es, st) IN R(A(vs.vs), vs.st)
    [] e.t = "idx" -> LET b == Eval(P, e.e, st)  ix == EvalSeq(P, e.path, b.st) IN R(GetPath(b.v, ix.vs), ix.st)
    [] e.t = "slice" -> LET b == Eval(P, e.e, st) IN          \* [m:n] inclusive, 1-up, negative aliases; out-of-bounds indices are trimmed
         (IF b.v.k # "arr" THEN R(Err, b.st)
          ELSE LET n == Len(b.v.m)
                   lo0 == IF e.lo < 0 THEN n + 1 + e.lo ELSE e.lo
                   hi0 == IF e.hi < 0 THEN n + 1 + e.hi ELSE e.hi
                   lo == IF lo0 < 1 THEN 1 ELSE lo0
                   hi == IF hi0 > n THEN n ELSE hi0
               IN IF lo > hi THEN R(A(<<>>), b.st) ELSE R(A(SubSeq(b.v.m, lo, hi)), b.st))
    [] e.t = "call" -> LET as == EvalSeq(P, e.args, st) IN
                       IF LocalGet(st, e.f).k = "funct" THEN CallLambda(P, LocalGet(st, e.f), as.vs, as.st) ELSE CallFunc(P, e.f, as.vs, as.st)
    [] e.t = "lambda" -> R(Funct(e), st)
    \* higher-order functions (reference-dsl-higher-order-functions.md): apply / select / reduce / fold / any / every
    [] e.t = "hof" ->
         LET c == Eval(P, e.coll, st)
             f == Eval(P, e.fn, c.st)
             i == IF e.f = "fold" THEN Eval(P, e.init, f.st) ELSE R(Absent, f.st)
         IN IF f.v.k # "funct" \/ c.v.k \notin {"arr", "map"} THEN R(Err, Fatal(i.st))
            ELSE IF c.v.k = "arr" THEN
                 (CASE e.f \in {"apply", "select", "any", "every"} -> HofMapArr(P, e.f, c.v.m, 1, f.v, [acc |-> <<>>, st |-> i.st])
                    [] e.f = "reduce" -> (IF c.v.m = <<>> THEN R(Absent, i.st) ELSE HofAcc(P, c.v.m, 2, f.v, c.v.m[1], i.st))
                    [] e.f = "fold" -> HofAcc(P, c.v.m, 1, f.v, i.v, i.st))
            ELSE (CASE e.f \in {"apply", "select", "any", "every"} -> HofMapMap(P, e.f, c.v.m, 1, f.v, [acc |-> <<>>, st |-> i.st])
                    [] OTHER -> R(Err, Fatal(i.st)))
    [] e.t = "bif" ->
         LET as == EvalSeq(P, e.args, st)  a1 == as.vs[1] IN
         (CASE e.f = "length"     -> R(IF a1.k = "absent" THEN I(0) ELSE IF a1.k \in {"map", "arr"} THEN I(Len(a1.m)) ELSE I(1), as.st)
            [] e.f = "is_absent"  -> R(B(a1.k = "absent"), as.st)
            [] e.f = "is_present" -> R(B(a1.k # "absent"), as.st)
            [] e.f = "haskey"     -> R(IF a1.k = "map" THEN B(MapHas(a1.m, as.vs[2]))
                                       ELSE IF a1.k = "arr" THEN B(as.vs[2].k = "int" /\ ArrIdx(Len(a1.m), as.vs[2].n) # 0) ELSE B(FALSE), as.st)
            [] e.f = "json_stringify" -> R(IF a1.k = "absent" THEN Err ELSE IF a1.k = "error" THEN S("(error)") ELSE S(Json(a1)), as.st)
            [] e.f = "typeof"     -> R(S(CASE a1.k = "str" -> "string" [] a1.k = "bool" -> "boolean" [] a1.k = "arr" -> "array" [] OTHER -> a1.k), as.st)
            [] OTHER -> R(Err, as.st))

\* user-defined functions and subroutines: a fresh frame set (no access to the caller's locals), arguments passed
\* by value and type-checked at the call site, return type checked
CallFunc(P, fname, args, st) ==
  IF st.fuel = 0 \/ st.ctl = "fatal" THEN R(Err, Fatal(st))
  ELSE
  LET f == P.funcs[CHOOSE i \in 1..Len(P.funcs) : P.funcs[i].name = fname]
      typed == \A i \in 1..Len(f.params) : TypeOK(f.params[i].ty, args[i])
      frame == [i \in 1..Len(f.params) |-> [name |-> f.params[i].name, ty |-> f.params[i].ty, v |-> args[i]]]
      frame2 == frame        \* a parameter is a local of the function whatever it is bound to, an absent argument included
      inner == [st EXCEPT !.fr = << frame2 >>, !.fuel = @ - 1, !.ctl = "go", !.ret = Absent]
      done == ExecBlock(P, f.body, Push(inner))
      back == [done EXCEPT !.fr = st.fr, !.fuel = st.fuel, !.ctl = IF done.ctl = "fatal" THEN "fatal" ELSE "go", !.ret = Absent]
  IN IF ~typed THEN R(Err, Fatal(st))
     ELSE IF done.ctl = "fatal" THEN R(Err, back)
     ELSE IF f.rty # "" /\ ~(done.ret.k = "absent" /\ f.rty \in {"var", "any"}) /\ ~TypeOK(f.rty, done.ret) THEN R(Err, Fatal(back))
     ELSE R(done.ret, back)

\* a function literal is called in the scope where the call happens: "function literals ... have access to local variables
\* defined in their enclosing scope"; its parameters and locals live in frames of their own on top
CallLambda(P, fv, args, st) ==
  IF st.fuel = 0 \/ st.ctl = "fatal" THEN R(Err, Fatal(st))
  ELSE LET node == fv.m[1]
           frame == [i \in 1..Len(node.params) |-> [name |-> node.params[i], ty |-> "var", v |-> args[i]]]
           frame2 == frame        \* a parameter is a local of the function whatever it is bound to, an absent argument included
           inner == [st EXCEPT !.fr = Append(@, frame2), !.fuel = @ - 1, !.ret = Absent]
           done == ExecBlock(P, node.body, Push(inner))
           back == [done EXCEPT !.fr = st.fr, !.fuel = st.fuel, !.ctl = IF done.ctl = "fatal" THEN "fatal" ELSE "go", !.ret = Absent]
       IN IF Len(args) # Len(node.params) THEN R(Err, Fatal(st)) ELSE IF done.ctl = "fatal" THEN R(Err, back) ELSE R(done.ret, back)
\* apply / select / any / every over an array
HofMapArr(P, f, items, i, fv, a) ==
  IF a.st.ctl = "fatal" THEN R(Err, a.st)
  ELSE IF i > Len(items) THEN
       (CASE f \in {"apply", "select"} -> R(A(a.acc), a.st) [] f = "any" -> R(B(FALSE), a.st) [] f = "every" -> R(B(TRUE), a.st))
  ELSE LET r == CallLambda(P, fv, <<items[i]>>, a.st) IN
       CASE f = "apply"  -> HofMapArr(P, f, items, i + 1, fv, [acc |-> Append(a.acc, r.v), st |-> r.st])
         [] f = "select" -> (IF r.v.k # "bool" THEN R(Err, Fatal(r.st))
                             ELSE HofMapArr(P, f, items, i + 1, fv, [acc |-> IF r.v.b THEN Append(a.acc, items[i]) ELSE a.acc, st |-> r.st]))
         [] f = "any"    -> (IF r.v.k # "bool" THEN R(Err, Fatal(r.st)) ELSE IF r.v.b THEN R(B(TRUE), r.st) ELSE HofMapArr(P, f, items, i + 1, fv, [acc |-> <<>>, st |-> r.st]))
         [] f = "every"  -> (IF r.v.k # "bool" THEN R(Err, Fatal(r.st)) ELSE IF ~r.v.b THEN R(B(FALSE), r.st) ELSE HofMapArr(P, f, items, i + 1, fv, [acc |-> <<>>, st |-> r.st]))
\* reduce / fold over an array
HofAcc(P, items, i, fv, acc, st) ==
  IF st.ctl = "fatal" THEN R(Err, st)
  ELSE IF i > Len(items) THEN R(acc, st)
  ELSE LET r == CallLambda(P, fv, <<acc, items[i]>>, st) IN HofAcc(P, items, i + 1, fv, r.v, r.st)
\* apply / select / any / every over a map: the function takes key and value; apply's function returns a single-pair map
HofMapMap(P, f, pairs, i, fv, a) ==
  IF a.st.ctl = "fatal" THEN R(Err, a.st)
  ELSE IF i > Len(pairs) THEN
       (CASE f \in {"apply", "select"} -> R(M(a.acc), a.st) [] f = "any" -> R(B(FALSE), a.st) [] f = "every" -> R(B(TRUE), a.st))
  ELSE LET r == CallLambda(P, fv, <<pairs[i][1], pairs[i][2]>>, a.st) IN
       CASE f = "apply"  -> (IF r.v.k # "map" \/ Len(r.v.m) # 1 THEN R(Err, Fatal(r.st))
                             ELSE HofMapMap(P, f, pairs, i + 1, fv, [acc |-> MapPut(a.acc, r.v.m[1][1], r.v.m[1][2]), st |-> r.st]))
         [] f = "select" -> (IF r.v.k # "bool" THEN R(Err, Fatal(r.st))
                             ELSE HofMapMap(P, f, pairs, i + 1, fv, [acc |-> IF r.v.b THEN Append(a.acc, pairs[i]) ELSE a.acc, st |-> r.st]))
         [] f = "any"    -> (IF r.v.k # "bool" THEN R(Err, Fatal(r.st)) ELSE IF r.v.b THEN R(B(TRUE), r.st) ELSE HofMapMap(P, f, pairs, i + 1, fv, [acc |-> <<>>, st |-> r.st]))
         [] f = "every"  -> (IF r.v.k # "bool" THEN R(Err, Fatal(r.st)) ELSE IF ~r.v.b THEN R(B(FALSE), r.st) ELSE HofMapMap(P, f, pairs, i + 1, fv, [acc |-> <<>>, st |-> r.st]))

(***************************************************************************)
(* Statements                                                              *)
(***************************************************************************)
\* lvalues: [t |-> "local"|"field"|"oos", name, path |-> Seq(expr)]
AssignTo(P, lhs, v, st0) ==
  LET ix == EvalSeq(P, lhs.path, st0)
      st == ix.st
  IN
  IF v.k = "absent" \/ (\E i \in 1..Len(ix.vs) : ix.vs[i].k = "absent") THEN st      \* skipped
  ELSE
  CASE lhs.t = "local" ->
         (IF lhs.path = <<>> THEN AssignLocal(st, lhs.name, v)
          ELSE LET nv == PutPath(LocalGet(st, lhs.name), ix.vs, v) IN IF nv.k = "error" THEN Fatal(st) ELSE AssignLocal(st, lhs.name, nv))
    [] lhs.t = "field" ->
         (IF lhs.path = <<>>
          THEN (IF v.k \in {"map", "arr"} THEN [st EXCEPT !.rec = MapPut(@, S(lhs.name), v)] ELSE [st EXCEPT !.rec = MapPut(@, S(lhs.name), v)])
          ELSE LET nv == PutPath(MapGet(st.rec, S(lhs.name)), ix.vs, v) IN IF nv.k = "error" THEN Fatal(st) ELSE [st EXCEPT !.rec = MapPut(@, S(lhs.name), nv)])
    [] lhs.t = "oos" ->
         LET nv == PutPath(MapGet(st.oos, S(lhs.name)), ix.vs, v) IN IF nv.k = "error" THEN Fatal(st) ELSE [st EXCEPT !.oos = MapPut(@, S(lhs.name), nv)]
    [] lhs.t = "srec" -> (IF v.k = "map" THEN [st EXCEPT !.rec = v.m] ELSE Fatal(st))
    \* "left-hand side accesses only refer to fields that already exist ... assigning the name or value of the 6th (or
    \* 600th) field results in a no-op": $[[n]] = "NEW" renames field n in place, $[[[n]]] = v changes its value
    [] lhs.t \in {"posname", "posval"} ->
         LET n == ix.vs[1] IN
         IF n.k # "int" THEN Fatal(st)
         ELSE IF n.n < 1 \/ n.n > Len(st.rec) THEN st
         ELSE IF lhs.t = "posname" THEN [st EXCEPT !.rec = [j \in 1..Len(st.rec) |-> IF j = n.n THEN <<S(Str(v)), st.rec[j][2]>> ELSE st.rec[j]]]
         ELSE [st EXCEPT !.rec = [j \in 1..Len(st.rec) |-> IF j = n.n THEN <<st.rec[j][1], v>> ELSE st.rec[j]]]

\* a record as a non-JSON writer prints it (flatten-unflatten.md: "if the output format is non-JSON, then ... map-valued
\* fields are converted to multiple fields, keyed by the original name, a dot and the map keys; empty key-value pairs are
\* written as {} and []"; arrays flatten by their 1-up positions)
RECURSIVE FlatPairs(_, _)
FlatPairs(prefix, v) ==
  IF v.k = "map" THEN
       (IF v.m = <<>> THEN << <<prefix, "{}">> >>
        ELSE LET F[i \in 0..Len(v.m)] == IF i = 0 THEN <<>> ELSE F[i - 1] \o FlatPairs(prefix \o "." \o Str(v.m[i][1]), v.m[i][2]) IN F[Len(v.m)])
  ELSE IF v.k = "arr" THEN
       (IF v.m = <<>> THEN << <<prefix, "[]">> >>
        ELSE LET F[i \in 0..Len(v.m)] == IF i = 0 THEN <<>> ELSE F[i - 1] \o FlatPairs(prefix \o "." \o ToString(i), v.m[i]) IN F[Len(v.m)])
  ELSE << <<prefix, Str(v)>> >>
RecText(rec) == LET F[i \in 0..Len(rec)] == IF i = 0 THEN <<>> ELSE F[i - 1] \o FlatPairs(Str(rec[i][1]), rec[i][2]) IN F[Len(rec)]

\* emit @name, "by1", "by2": split the nested map by its first levels, one record per leaf map, prefixed with the by-fields
RECURSIVE EmitBy(_, _, _, _)
EmitBy(name, v, bys, prefix) ==
  IF bys = <<>> THEN (IF v.k = "map" THEN << <<"r", RecText(prefix \o v.m)>> >>
                      ELSE << <<"r", RecText(Append(prefix, <<S(name), v>>))>> >>)         \* a scalar leaf is named after the variable
  ELSE IF v.k # "map" THEN <<>>
  ELSE LET F[i \in 0..Len(v.m)] == IF i = 0 THEN <<>>
                                   ELSE F[i - 1] \o EmitBy(name, v.m[i][2], Tail(bys), Append(prefix, <<S(Head(bys)), v.m[i][1]>>))
       IN F[Len(v.m)]

\* emit @name without names: "use emit to output an out-of-stream variable. If it's non-indexed, you'll get a simple key-value
\* pair ... If it's indexed then use as many names after @sum as there are indices", and the example `emit @sum` on a
\* two-level map prints one record per first-level key: a map of maps is split down to its terminal maps
RECURSIVE EmitTerminal(_, _)
EmitTerminal(name, v) ==
  IF v.k # "map" THEN << <<"r", RecText(<< <<S(name), v>> >>)>> >>
  ELSE IF v.m # <<>> /\ (\A i \in 1..Len(v.m) : v.m[i][2].k = "map")
       THEN LET F[i \in 0..Len(v.m)] == IF i = 0 THEN <<>> ELSE F[i - 1] \o EmitTerminal(name, v.m[i][2]) IN F[Len(v.m)]
       ELSE << <<"r", RecText(v.m)>> >>

\* emitp @name, "by1", ...: the same split, but what is left below the named levels stays under the variable's name
\* ("emitp includes full prefixing ... while emit takes the deepest map key as the output-record key"): the record is the
\* by-fields and ONE field, name |-> rest, which a non-JSON writer flattens to name.k1.k2 (RecText)
RECURSIVE EmitPBy(_, _, _, _)
EmitPBy(name, v, bys, prefix) ==
  IF bys = <<>> THEN << <<"r", RecText(Append(prefix, <<S(name), v>>))>> >>
  ELSE IF v.k # "map" THEN <<>>
  ELSE LET F[i \in 0..Len(v.m)] == IF i = 0 THEN <<>>
                                   ELSE F[i - 1] \o EmitPBy(name, v.m[i][2], Tail(bys), Append(prefix, <<S(Head(bys)), v.m[i][1]>>))
       IN F[Len(v.m)]

\* the entries of a nested map at depth n, depth first in insertion order, each as <<k1, ..., kn, value>>
RECURSIVE EntriesAt(_, _, _), DeepEnough(_, _)
EntriesAt(v, n, prefix) ==
  IF n = 0 THEN << Append(prefix, v) >>
  ELSE LET F[i \in 0..Len(v.m)] == IF i = 0 THEN <<>> ELSE F[i - 1] \o EntriesAt(v.m[i][2], n - 1, Append(prefix, v.m[i][1])) IN F[Len(v.m)]
DeepEnough(v, n) == n = 0 \/ (v.k = "map" /\ \A i \in 1..Len(v.m) : DeepEnough(v.m[i][2], n - 1))

ExecBlock(P, body, st) ==       \* statements in sequence, stopping at break/continue/return/fatal
  IF body = <<>> \/ st.ctl # "go" THEN st ELSE ExecBlock(P, Tail(body), Exec(P, Head(body), st))
Scoped(P, body, st) == LET r == ExecBlock(P, body, Push(st)) IN Pop(r)       \* a block is a scope

\* while / do-while / triple-for: cond, update and body share one loop; `first` skips the test once (do-while)
Loop(P, l, st, first) ==
  IF st.ctl # "go" THEN st
  ELSE IF st.fuel = 0 THEN Fatal(st)
  ELSE LET c == IF first THEN R(B(TRUE), st) ELSE Eval(P, l.c, st) IN
       IF c.st.ctl = "fatal" THEN c.st
       ELSE IF c.v.k # "bool" THEN Fatal(c.st)
       ELSE IF ~c.v.b THEN c.st
       ELSE LET b == Scoped(P, l.body, [c.st EXCEPT !.fuel = @ - 1])
                after == IF b.ctl \in {"break"} THEN [b EXCEPT !.ctl = "go"] ELSE IF b.ctl = "continue" THEN [b EXCEPT !.ctl = "go"] ELSE b
            IN IF b.ctl = "break" THEN after
               ELSE IF after.ctl # "go" THEN after
               ELSE Loop(P, l, ExecBlock(P, l.upd, after), FALSE)

\* for (k, v in map) / for (e in array-or-map): bound variables are local to the loop body; iterates over a copy
ForEach(P, s, items, i, st, isKV) ==
  IF i > Len(items) \/ st.ctl # "go" THEN st
  ELSE LET scope0 == Push(st)
           bound == IF s.t = "formulti"       \* for ((k1, ..., kn), v in m): one item per entry at depth n, as <<k1, ..., kn, v>>
                    THEN [j \in 1..(Len(s.kns) + 1) |-> [name |-> IF j <= Len(s.kns) THEN s.kns[j] ELSE s.vn, ty |-> "var", v |-> items[i][j]]]
                    ELSE IF isKV THEN << [name |-> s.kn, ty |-> "var", v |-> items[i][1]], [name |-> s.vn, ty |-> "var", v |-> items[i][2]] >>
                    ELSE << [name |-> s.vn, ty |-> "var", v |-> items[i]] >>
           scope == [scope0 EXCEPT !.fr[Len(scope0.fr)] = bound]
           b == Pop(ExecBlock(P, s.body, Push(scope)))
           b2 == Pop(b)
       IN IF b2.ctl = "break" THEN [b2 EXCEPT !.ctl = "go"]
          ELSE IF b2.ctl = "continue" THEN ForEach(P, s, items, i + 1, [b2 EXCEPT !.ctl = "go"], isKV)
          ELSE ForEach(P, s, items, i + 1, b2, isKV)

Exec(P, s, st) ==
  IF st.ctl # "go" THEN st
  ELSE
  CASE s.t = "decl"   -> LET x == Eval(P, s.e, st) IN IF x.st.ctl = "fatal" THEN x.st ELSE Declare(x.st, s.ty, s.name, x.v)
    [] s.t = "assign" -> LET x == Eval(P, s.e, st) IN IF x.st.ctl = "fatal" THEN x.st ELSE AssignTo(P, s.lhs, x.v, x.st)
    [] s.t = "opassign" ->     \* lhs op= e   is   lhs = lhs op e
         LET cur == Eval(P, s.cur, st)  x == Eval(P, s.e, cur.st) IN
         IF x.st.ctl = "fatal" THEN x.st ELSE AssignTo(P, s.lhs, BinOp(s.op, cur.v, x.v), x.st)
    [] s.t = "unset" ->
         (CASE s.lhs.t = "field" /\ s.lhs.path = <<>> -> [st EXCEPT !.rec = MapDel(@, S(s.lhs.name))]
            [] s.lhs.t = "oos" /\ s.lhs.path = <<>> -> [st EXCEPT !.oos = MapDel(@, S(s.lhs.name))]
            [] s.lhs.t = "oos" -> LET ix == EvalSeq(P, s.lhs.path, st) IN
                                  [ix.st EXCEPT !.oos = IF MapHas(@, S(s.lhs.name)) THEN MapPut(@, S(s.lhs.name), DelPath(MapGet(@, S(s.lhs.name)), ix.vs)) ELSE @]
            [] s.lhs.t = "local" /\ Len(s.lhs.path) = 1 ->          \* "Unsetting an array index results in shifting all higher-index elements down by one"
                 LET ix == EvalSeq(P, s.lhs.path, st)  cur == LocalGet(st, s.lhs.name) IN
                 IF cur.k = "arr" /\ ix.vs[1].k = "int" /\ ArrIdx(Len(cur.m), ix.vs[1].n) # 0
                 THEN AssignLocal(ix.st, s.lhs.name, A([j \in 1..(Len(cur.m) - 1) |-> IF j < ArrIdx(Len(cur.m), ix.vs[1].n) THEN cur.m[j] ELSE cur.m[j + 1]]))
                 ELSE IF cur.k = "map" THEN AssignLocal(ix.st, s.lhs.name, M(MapDel(cur.m, ix.vs[1]))) ELSE ix.st
            \* "unset: clears ... a local variable": the variable is absent afterwards.  It stays the variable of its scope
            \* (declared "in the current curly-braced scope"), so an outer variable of the same name does not show through.
            [] s.lhs.t = "local" /\ s.lhs.path = <<>> ->
                 LET d == Where(st.fr, s.lhs.name) IN IF d = 0 THEN st ELSE [st EXCEPT !.fr[d] = SetIn(@, s.lhs.name, Absent)]
            [] OTHER -> st)
    [] s.t = "print"  -> LET x == Eval(P, s.e, st) IN IF x.st.ctl = "fatal" THEN x.st ELSE [x.st EXCEPT !.out = Append(@, <<"p", Str(x.v)>>)]
    [] s.t = "if" ->
         LET Try[i \in 1..(Len(s.branches) + 1)] ==
               IF i > Len(s.branches) THEN (IF s.els = <<>> THEN st ELSE Scoped(P, s.els[1], st))
               ELSE Try[i + 1]
             \* evaluate conditions in order (they may not have side effects in the generated programs)
             Pick[i \in 1..(Len(s.branches) + 1)] ==
               IF i > Len(s.branches) THEN (IF s.els = <<>> THEN st ELSE Scoped(P, s.els[1], st))
               ELSE LET c == Eval(P, s.branches[i].c, st) IN
                    IF c.st.ctl = "fatal" THEN c.st
                    ELSE IF c.v.k = "absent" THEN Pick[i + 1]        \* an absent condition is treated as false
                    ELSE IF c.v.k # "bool" THEN Fatal(c.st)
                    ELSE IF c.v.b THEN Scoped(P, s.branches[i].body, c.st) ELSE Pick[i + 1]
         IN Pick[1]
    [] s.t = "while"   -> Loop(P, [c |-> s.c, body |-> s.body, upd |-> <<>>], st, FALSE)
    [] s.t = "dowhile" -> Loop(P, [c |-> s.c, body |-> s.body, upd |-> <<>>], st, TRUE)
    [] s.t = "for3" ->   \* for (init; cond; update) body: the init statements run in a scope of their own enclosing the loop
         LET s0 == ExecBlock(P, s.init, Push(st)) IN Pop(Loop(P, [c |-> s.c, body |-> s.body, upd |-> s.upd], s0, FALSE))
    [] s.t = "forkv" -> LET x == Eval(P, s.e, st) IN
                        IF x.v.k = "map" THEN ForEach(P, s, x.v.m, 1, x.st, TRUE) ELSE IF x.v.k = "absent" THEN x.st ELSE Fatal(x.st)
    [] s.t = "formulti" -> LET x == Eval(P, s.e, st) IN           \* break ends the WHOLE loop, continue goes on with the next entry
                           IF x.v.k = "absent" THEN x.st
                           ELSE IF x.v.k # "map" \/ ~DeepEnough(x.v, Len(s.kns)) THEN Fatal(x.st)
                           ELSE ForEach(P, s, EntriesAt(x.v, Len(s.kns), <<>>), 1, x.st, FALSE)
    [] s.t = "for1" -> LET x == Eval(P, s.e, st) IN
                       IF x.v.k = "map" THEN ForEach(P, s, [i \in 1..Len(x.v.m) |-> x.v.m[i][1]], 1, x.st, FALSE)     \* single-variable for over a map binds the keys
                       ELSE IF x.v.k = "arr" THEN ForEach(P, s, x.v.m, 1, x.st, FALSE)
                       ELSE IF x.v.k = "absent" THEN x.st ELSE Fatal(x.st)
    [] s.t = "break"    -> [st EXCEPT !.ctl = "break"]
    [] s.t = "continue" -> [st EXCEPT !.ctl = "continue"]
    [] s.t = "return"   -> LET x == Eval(P, s.e, st) IN IF x.st.ctl = "fatal" THEN x.st ELSE [x.st EXCEPT !.ctl = "return", !.ret = x.v]
    [] s.t = "returnvoid" -> [st EXCEPT !.ctl = "return", !.ret = Absent]
    [] s.t = "callsub"  -> LET as == EvalSeq(P, s.args, st) IN CallFunc(P, s.f, as.vs, as.st).st
    [] s.t = "pattern"  -> LET c == Eval(P, s.c, st) IN          \* pattern-action block
                           IF c.st.ctl = "fatal" THEN c.st ELSE IF c.v.k = "absent" THEN c.st ELSE IF c.v.k # "bool" THEN Fatal(c.st)
                           ELSE IF c.v.b THEN Scoped(P, s.body, c.st) ELSE c.st
    [] s.t = "filter"   -> LET c == Eval(P, s.e, st) IN IF c.v.k = "bool" THEN [c.st EXCEPT !.flt = c.v.b] ELSE IF c.v.k = "absent" THEN c.st ELSE Fatal(c.st)
    [] s.t = "emit"     -> LET v == MapGet(st.oos, S(s.name)) IN
                           IF v.k = "absent" THEN st
                           ELSE [st EXCEPT !.out = @ \o (IF s.by = <<>> THEN EmitTerminal(s.name, v) ELSE EmitBy(s.name, v, s.by, <<>>))]
    \* dump: "prints all defined out-of-stream variables immediately to stdout as JSON" (the harness joins the lines of the
    \* block into one: "D:" and the map as json_stringify prints it)
    \* tee > "tee.out", $*: "prints the current record to specified file" - the record as it is at that moment
    [] s.t = "tee"      -> [st EXCEPT !.tee = Append(@, RecText(st.rec))]
    [] s.t = "dump"     -> [st EXCEPT !.out = Append(@, <<"p", "D:" \o Str(M(st.oos))>>)]
    [] s.t = "emitp"    -> LET v == MapGet(st.oos, S(s.name)) IN
                           IF v.k = "absent" THEN st
                           ELSE [st EXCEPT !.out = @ \o EmitPBy(s.name, v, s.by, <<>>)]
    \* emitf @a, @b: "several out-of-stream variables side-by-side in the same output record" (the variables of the case
    \* space are assigned before they are emitted: what emitf makes of an absent one is not documented)
    [] s.t = "emitf"    -> [st EXCEPT !.out = Append(@, <<"r", RecText([j \in 1..Len(s.names) |-> <<S(s.names[j]), MapGet(st.oos, S(s.names[j]))>>])>>)]
    [] s.t = "emit1"    -> LET x == Eval(P, s.e, st) IN IF x.v.k = "map" THEN [x.st EXCEPT !.out = Append(@, <<"r", RecText(x.v.m)>>)] ELSE x.st

(***************************************************************************)
(* Running a program over input records.  P = [funcs, begin, main, end, q]  *)
(* (q: put -q, no record pass-through).  Each block is its own scope; locals *)
(* do not survive from one record to the next; oosvars do.                  *)
(***************************************************************************)
RECURSIVE RunRecs(_, _, _, _)
TopBlock(P, body, st) == LET r == ExecBlock(P, body, [st EXCEPT !.fr = << <<>> >>, !.ctl = "go"]) IN
                         [r EXCEPT !.ctl = IF r.ctl = "fatal" THEN "fatal" ELSE "go"]
RunRecs(P, recs, i, st) ==
  IF i > Len(recs) \/ st.ctl = "fatal" THEN st
  ELSE LET s1 == TopBlock(P, P.main, [st EXCEPT !.rec = [j \in 1..Len(recs[i]) |-> <<S(recs[i][j][1]), recs[i][j][2]>>], !.nr = i, !.flt = TRUE])
           s2 == IF s1.ctl = "fatal" \/ P.q \/ ~s1.flt THEN s1 ELSE [s1 EXCEPT !.out = Append(@, <<"r", RecText(s1.rec)>>)]
       IN RunRecs(P, recs, i + 1, s2)
\* (input records carry typed values: the harness writes Str(value); a digit string is inferred as an int by mlr)
Run(P, recs) ==
  LET b == TopBlock(P, P.begin, St0)
      m == RunRecs(P, recs, 1, b)
      e == IF m.ctl = "fatal" THEN m ELSE TopBlock(P, P.end, [m EXCEPT !.rec = <<>>])
  \* (what `tee > "tee.out", $*` wrote to its file follows the standard output, as items <<"t", record text>>)
  IN IF e.ctl = "fatal" THEN << <<"fatal">> >> ELSE e.out \o [i \in 1..Len(e.tee) |-> <<"t", e.tee[i]>>]

(***************************************************************************)
(* Unparse: the program text, with only the parentheses precedence needs    *)
(***************************************************************************)
RECURSIVE UnE(_), UnS(_), UnBlock(_), UnLhs(_)
PrecOf(e) == CASE e.t = "bin" -> Prec(e.op) [] e.t \in {"neg", "not"} -> 13 [] e.t = "cond" -> 1
               [] e.t = "int" /\ e.n < 0 -> 13 [] OTHER -> 20
Par(e, need) == IF need THEN "(" \o UnE(e) \o ")" ELSE UnE(e)
Commas(ss) == Join(ss, ", ")
UnE(e) ==
  CASE e.t = "int"   -> ToString(e.n)
    [] e.t = "str"   -> "\"" \o e.s \o "\""
    [] e.t = "bool"  -> (IF e.b THEN "true" ELSE "false")
    [] e.t = "local" -> e.name
    [] e.t = "field" -> "$" \o e.name
    [] e.t = "oos"   -> "@" \o e.name
    [] e.t = "nr"    -> "NR"
    [] e.t = "srec"  -> "$*"
    [] e.t = "posname" -> "$[[" \o UnE(e.e) \o "]]"
    [] e.t = "posval"  -> "$[[[" \o UnE(e.e) \o "]]]"
    [] e.t = "bin"   -> Par(e.l, PrecOf(e.l) < Prec(e.op)) \o " " \o e.op \o " " \o Par(e.r, PrecOf(e.r) <= Prec(e.op))
    [] e.t = "neg"   -> "-" \o Par(e.e, PrecOf(e.e) <= 13)
    [] e.t = "not"   -> "!" \o Par(e.e, PrecOf(e.e) <= 13)
    [] e.t = "cond"  -> Par(e.c, PrecOf(e.c) <= 1) \o " ? " \o Par(e.a, PrecOf(e.a) <= 1) \o " : " \o Par(e.b, PrecOf(e.b) < 1)
    [] e.t = "maplit" -> "{" \o Commas([i \in 1..Len(e.kvs) |-> UnE(e.kvs[i][1]) \o ": " \o UnE(e.kvs[i][2])]) \o "}"
    [] e.t = "arrlit" -> "[" \o Commas([i \in 1..Len(e.es) |-> UnE(e.es[i])]) \o "]"
    [] e.t = "idx"   -> Par(e.e, PrecOf(e.e) < 20) \o Join([i \in 1..Len(e.path) |-> "[" \o UnE(e.path[i]) \o "]"], "")
    [] e.t = "slice" -> Par(e.e, PrecOf(e.e) < 20) \o "[" \o ToString(e.lo) \o ":" \o ToString(e.hi) \o "]"
    [] e.t = "call"  -> e.f \o "(" \o Commas([i \in 1..Len(e.args) |-> UnE(e.args[i])]) \o ")"
    [] e.t = "lambda" -> "func(" \o Commas(e.params) \o ") " \o UnBlock(e.body)
    [] e.t = "hof"   -> e.f \o "(" \o UnE(e.coll) \o ", " \o UnE(e.fn) \o (IF e.f = "fold" THEN ", " \o UnE(e.init) ELSE "") \o ")"
    [] e.t = "bif"   -> e.f \o "(" \o Commas([i \in 1..Len(e.args) |-> UnE(e.args[i])]) \o ")"
UnLhs(l) == IF l.t = "posname" THEN "$[[" \o UnE(l.path[1]) \o "]]"
            ELSE IF l.t = "posval" THEN "$[[[" \o UnE(l.path[1]) \o "]]]"
            ELSE (CASE l.t = "local" -> l.name [] l.t = "field" -> "$" \o l.name [] l.t = "oos" -> "@" \o l.name [] l.t = "srec" -> "$*")
                 \o Join([i \in 1..Len(l.path) |-> "[" \o UnE(l.path[i]) \o "]"], "")
UnBlock(body) == "{" \o Join([i \in 1..Len(body) |-> UnS(body[i])], " ") \o "}"
\* statements of a for-loop header: no trailing semicolon, comma-separated
Bare(s) == CASE s.t = "decl" -> s.ty \o " " \o s.name \o " = " \o UnE(s.e)
             [] s.t = "assign" -> UnLhs(s.lhs) \o " = " \o UnE(s.e)
             [] s.t = "opassign" -> UnLhs(s.lhs) \o " " \o s.op \o "= " \o UnE(s.e)
UnS(s) ==
  CASE s.t \in {"decl", "assign", "opassign"} -> Bare(s) \o ";"
    [] s.t = "unset"  -> "unset " \o UnLhs(s.lhs) \o ";"
    [] s.t = "print"  -> "print " \o UnE(s.e) \o ";"
    [] s.t = "if"     -> Join([i \in 1..Len(s.branches) |-> (IF i = 1 THEN "if (" ELSE "elif (") \o UnE(s.branches[i].c) \o ") " \o UnBlock(s.branches[i].body)], " ")
                         \o (IF s.els = <<>> THEN "" ELSE " else " \o UnBlock(s.els[1]))
    [] s.t = "while"  -> "while (" \o UnE(s.c) \o ") " \o UnBlock(s.body)
    [] s.t = "dowhile" -> "do " \o UnBlock(s.body) \o " while (" \o UnE(s.c) \o ");"
    [] s.t = "for3"   -> "for (" \o Commas([i \in 1..Len(s.init) |-> Bare(s.init[i])]) \o "; " \o UnE(s.c) \o "; "
                         \o Commas([i \in 1..Len(s.upd) |-> Bare(s.upd[i])]) \o ") " \o UnBlock(s.body)
    [] s.t = "forkv"  -> "for (" \o s.kn \o ", " \o s.vn \o " in " \o UnE(s.e) \o ") " \o UnBlock(s.body)
    [] s.t = "for1"   -> "for (" \o s.vn \o " in " \o UnE(s.e) \o ") " \o UnBlock(s.body)
    [] s.t = "formulti" -> "for ((" \o Commas(s.kns) \o "), " \o s.vn \o " in " \o UnE(s.e) \o ") " \o UnBlock(s.body)
    [] s.t = "break"  -> "break;"
    [] s.t = "continue" -> "continue;"
    [] s.t = "return" -> "return " \o UnE(s.e) \o ";"
    [] s.t = "returnvoid" -> "return;"
    [] s.t = "callsub" -> "call " \o s.f \o "(" \o Commas([i \in 1..Len(s.args) |-> UnE(s.args[i])]) \o ");"
    [] s.t = "pattern" -> UnE(s.c) \o " " \o UnBlock(s.body)
    [] s.t = "filter" -> "filter " \o UnE(s.e) \o ";"
    [] s.t = "emit"   -> "emit @" \o s.name \o Join([i \in 1..Len(s.by) |-> ", \"" \o s.by[i] \o "\""], "") \o ";"
    [] s.t = "tee"    -> "tee > \"tee.out\", $*;"
    [] s.t = "dump"   -> "dump;"
    [] s.t = "emitp"  -> "emitp @" \o s.name \o Join([i \in 1..Len(s.by) |-> ", \"" \o s.by[i] \o "\""], "") \o ";"
    [] s.t = "emitf"  -> "emitf " \o Join([i \in 1..Len(s.names) |-> "@" \o s.names[i]], ", ") \o ";"
    [] s.t = "emit1"  -> "emit1 " \o UnE(s.e) \o ";"
UnFunc(f) == (IF f.sub THEN "subr " ELSE "func ") \o f.name \o "("
             \o Commas([i \in 1..Len(f.params) |-> (IF f.params[i].ty = "var" THEN "" ELSE f.params[i].ty \o " ") \o f.params[i].name]) \o ")"
             \o (IF f.rty = "" THEN "" ELSE ": " \o f.rty) \o " " \o UnBlock(f.body)
Unparse(P) == Join([i \in 1..Len(P.funcs) |-> UnFunc(P.funcs[i])], " ")
              \o (IF P.begin = <<>> THEN "" ELSE " begin " \o UnBlock(P.begin))
              \o " " \o Join([i \in 1..Len(P.main) |-> UnS(P.main[i])], " ")
              \o (IF P.end = <<>> THEN "" ELSE " end " \o UnBlock(P.end))
=============================================================================
