----------------------------- MODULE CalendarMC -----------------------------
(***************************************************************************)
(* The laws C16 states, proved by TLC on the specification itself:          *)
(*  Gregorian  - the closed forms of Calendar.tla ARE the calendar: day 0   *)
(*               is 1970-01-01, the civil date of day n+1 is the definitio- *)
(*               nal successor (month lengths, leap-year rule) of that of   *)
(*               day n, days-from-civil inverts civil-from-days, day of     *)
(*               year, weekday and the three week numbers agree with their  *)
(*               counting definitions - for every day of a block of days    *)
(*               (the configuration tiles the years 1..9999 with blocks)    *)
(*  Texts      - the limb arithmetic that renders epoch seconds as decimal  *)
(*               text agrees with a second splitting and, where 32 bits     *)
(*               suffice, with plain multiplication                         *)
(*  ParseFormat- parse o format = id: every format of the case space that   *)
(*               determines the instant lets the instant be rebuilt from    *)
(*               the fields it shows, and distinct instants get distinct    *)
(*               texts; zone offsets shift back and forth                   *)
(*  Splitters  - split and join are mutually inverse on every integer of a  *)
(*               dense range (negatives by sign symmetry), candidate texts  *)
(*               of different values never coincide                         *)
(***************************************************************************)
EXTENDS CalendarCases
CONSTANTS BlockLo, BlockHi,     \* the blocks of days to prove Gregorian on: block b >= 0 covers the BlockSize days
          BlockSize,            \* from 0001-01-01 + b*BlockSize on
          SplitRange            \* Splitters on 0..SplitRange (per block: a slice of it)
VARIABLE b
\* the blocks are visited along a binary tree so that TLC's workers share them
Init == b = BlockLo
Next == \E k \in 1..2 : 2 * (b - BlockLo) + k + BlockLo <= BlockHi /\ b' = 2 * (b - BlockLo) + k + BlockLo

\* ---- Gregorian -------------------------------------------------------------------------------------
\* %U / %W count the Sundays / Mondays of the year so far: 1 January counts itself, every later day adds itself to
\* the count of the day before
CountLaw(Week(_, _), first, n, j, w) ==
  IF j = 1 THEN Week(j, w) = (IF w = first THEN 1 ELSE 0)
  ELSE Week(j, w) = Week(j - 1, (w + 6) % 7) + (IF w = first THEN 1 ELSE 0)
DayLaw(n) ==
  LET c == CivilFromDays(n)
      j == DayOfYear(c.y, c.m, c.d)
      w == Weekday(n)
      thu == n - IsoWeekday(w) + 4                  \* the Thursday of the ISO week of day n
      ct == CivilFromDays(thu)
  IN /\ ValidCivil(c)
     /\ DaysFromCivil(c.y, c.m, c.d) = n
     /\ (n < MaxDay => CivilFromDays(n + 1) = NextDay(c))
     /\ (n = 0 => c = [y |-> 1970, m |-> 1, d |-> 1])
     /\ j = n - DaysFromCivil(c.y, 1, 1) + 1 /\ j \in 1..DaysInYear(c.y)
     /\ w \in 0..6 /\ Weekday(n + 1) = (w + 1) % 7
     /\ (n = 0 => w = 4) /\ (n = -1 => w = 3)     \* "Thursday, January  1, 1970", "Wednesday, December 31, 1969"
     /\ CountLaw(WeekU, 0, n, j, w) /\ CountLaw(WeekW, 1, n, j, w)
     /\ (InYears(thu) => WeekV(c.y, j, w) = ((DayOfYear(ct.y, ct.m, ct.d) - 1) \div 7) + 1)
     /\ WeekV(c.y, j, w) \in 1..53 /\ WeekU(j, w) \in 0..53 /\ WeekW(j, w) \in 0..53
Block == {n \in (MinDay + b * BlockSize)..(MinDay + b * BlockSize + BlockSize - 1) : InYears(n)}
Gregorian == \A n \in Block : DayLaw(n)

\* ---- Texts (on the days of the case space and a slice of small days) -------------------------------------------
LawSods == {0, 1, 59, 60, 3599, 3600, 43200, 85636, 86398, 86399}
\* this block's share of a set of integers / of a range (every K-th element, K the number of blocks)
K == BlockHi - BlockLo + 1
Mine(S) == {n \in S : n % K = (b - BlockLo)}
MineRange(lo, hi) == {lo + (b - BlockLo) + K * i : i \in 0..((hi - lo - (b - BlockLo)) \div K)}
SmallDays == {n \in MineRange(-24000, 24000) : n % 7 = 0 \/ (n > -1000 /\ n < 1000) \/ n > 23900 \/ n < -23900}
TextLaw(n, s) ==
  /\ (n >= 0 => NatText(n, s) = NatText2(n, s))
  /\ (n < 0 => AbsText(n, s) = (IF s = 0 THEN NatText2(-n, 0) ELSE NatText2(-n - 1, 86400 - s)))
  /\ (n \in -24000..24000 =>
        /\ SecsText(n, s) = ToString(n * 86400 + s)
        /\ (IF n * 86400 + s < 0 THEN IsNegT(n, s) /\ AbsText(n, s) = ToString(-(n * 86400 + s)) ELSE ~IsNegT(n, s)))
  /\ (n \in -20..20 => \A q \in {0, 1, 99, 100, 999} : UnitText(n, s, q, 3) = ToString((n * 86400 + s) * 1000 + q))
  /\ UnitText(n, s, 0, 9) = (IF IsZeroT(n, s) THEN "0" ELSE SecsText(n, s) \o "000000000")
  /\ UnitText(n, s, 0, 3) = (IF IsZeroT(n, s) THEN "0" ELSE SecsText(n, s) \o "000")
Texts == \A n \in Mine(Days) \cup SmallDays : \A s \in LawSods : TextLaw(n, s)

\* ---- parse o format = id ------------------------------------------------------------------------------------
AllParseFormats == {ParseFormats[i] : i \in 1..Len(ParseFormats)} \cup {CLong, ZoneFormat, <<"%c">>}
FormatLaw(n, s) ==
  LET F == Fields(n, s, 0) IN
  /\ \A fmt \in AllParseFormats :
       /\ Determines(fmt)
       /\ Recover(fmt, F) = <<n, s>>
       /\ (fmt # <<"%c">> =>
            /\ Formatted(fmt, n, s, 0) # {}
            /\ (F.Y >= 1000 => Determined(fmt, n, s, 0))
            \* the next second and the same second of the next day are written differently
            /\ Formatted(fmt, n, s, 0) \cap Formatted(fmt, SuccN(n, s), SuccS(n, s), 0) = {}
            /\ (n < MaxDay => Formatted(fmt, n, s, 0) \cap Formatted(fmt, n + 1, s, 0) = {}))
  /\ \A i \in 1..Len(StrfFormats) : Determines(StrfFormats[i]) => Recover(StrfFormats[i], F) = <<n, s>>
  /\ Determines(<<"%s">>) /\ ~Determines(<<"%F">>) /\ ~Determines(<<"%T">>) /\ ~Determines(<<"%D", " ", "%T">>)
  /\ IsoText(n, s, 0, 0) \in Formatted(Iso, n, s, 0) /\ Formatted(Iso, n, s, 0) = Formatted(IsoFT, n, s, 0)
  /\ DateText(n) \in Formatted(<<"%F">>, n, s, 0)
  /\ \A i \in 1..Len(Offsets) :
       LET n2 == ShiftN(n, s, Offsets[i])  s2 == ShiftS(n, s, Offsets[i]) IN
       s2 \in 0..86399 /\ ShiftN(n2, s2, -Offsets[i]) = n /\ ShiftS(n2, s2, -Offsets[i]) = s
  /\ OffsetText(-240) = "-0400" /\ OffsetText(120) = "+0200" /\ OffsetText(0) = "+0000" /\ OffsetText(-1) = "-0001"
  \* the worked examples of the reference
  /\ (n = 0 /\ s = 0 => IsoText(n, s, 0, 0) = "1970-01-01T00:00:00Z" /\ "Thursday, January  1, 1970" \in Formatted(<<"%A", ", ", "%B", " ", "%e", ", ", "%Y">>, n, s, 0))
ParseFormat == \A n \in Mine(Days) : n < MaxDay => \A s \in {0, 59, 43199, 46800, 86399} : FormatLaw(n, s)
Examples ==
  /\ IsoText(14288, 84690, 0, 0) = "2009-02-13T23:31:30Z" /\ SecsText(14288, 84690) = "1234567890"
  /\ IsoText(14288, 84690, 123456789, 6) = "2009-02-13T23:31:30.123456Z"
  /\ DateText(16675) = "2015-08-28" /\ SecsText(16675, 48801) = "1440768801"
  /\ IsoText(-14289, 1709, 0, 0) = "1930-11-18T00:28:29Z"              \* sec2gmt(-1234567890.123): the second that holds it
  /\ SecsText(11356, 14706) = "981173106" /\ IsoText(11356, 14706, 0, 0) = "2001-02-03T04:05:06Z"
  /\ "09:33 PM" \in Formatted(<<"%I", ":", "%M", " ", "%p">>, 1428, 77589, 0) /\ SecsText(1428, 77589) = "123456789"
  /\ "1970-01-02 10:17:36.7" \in Formatted(<<"%Y", "-", "%m", "-", "%d", " ", "%H", ":", "%M", ":", "%1S">>, 1, 37056, 789000000)
  /\ "000000123" \in Formatted(<<"%N">>, 0, 0, 123) /\ "123" \in Formatted(<<"%O">>, 0, 0, 123)
  /\ UnitText(16675, 48801, 123456789, 9) = "1440768801123456789"
  /\ UnitText(-1, 86399, 1, 9) = "-999999999" /\ UnitText(-1, 86398, 999999999, 9) = "-1000000001"
  /\ UnitText(0, 0, 123, 9) = "123" /\ UnitText(-1, 0, 0, 3) = "-86400000"
  /\ HalfText(0, 0) = "0.5" /\ HalfText(-1, 86399) = "-0.5" /\ HalfText(-1, 86398) = "-1.5" /\ HalfText(0, 1) = "1.5"
  /\ HalfText(-14289, 1709) = "-1234567890.5"
  \* the datediff examples of the reference and of the function help
  /\ LET d1 == DaysFromCivil(2001, 6, 1)  d2 == DaysFromCivil(2002, 8, 15)  d3 == DaysFromCivil(2020, 1, 1)  d4 == DaysFromCivil(2023, 5, 15) IN
       /\ DateDiff("y", d1, d2) = {1} /\ DateDiff("m", d1, d2) = {14} /\ DateDiff("d", d1, d2) = {440}
       /\ DateDiff("ym", d1, d2) = {2} /\ DateDiff("yd", d1, d2) = {75} /\ DateDiff("md", d1, d2) = {14}
       /\ DateDiff("y", d3, d4) = {3} /\ DateDiff("m", d3, d4) = {40} /\ DateDiff("d", d3, d4) = {1230}
       /\ DateDiff("ym", d3, d4) = {4} /\ DateDiff("yd", d3, d4) = {134} /\ DateDiff("md", d3, d4) = {14}
       /\ DateDiff("d", d2, d1) = {-440} /\ DateDiff("y", d4, d3) = {-3}
  /\ InNsRange(106751, 85635) /\ ~InNsRange(106751, 85636) /\ InNsRange(-106752, 764) /\ ~InNsRange(-106752, 763)
  /\ IsLeap(2000) /\ ~IsLeap(1900) /\ IsLeap(2024) /\ ~IsLeap(2023) /\ ~IsLeap(2100) /\ IsLeap(4) /\ ~IsLeap(1)
  /\ MinDay = -719162 /\ MaxDay = 2932896

\* ---- the splitters ------------------------------------------------------------------------------------------
SplitLaw(v) ==
  LET d == v \div 86400
      r == v % 86400
      p == Split(r)
      d1 == (v + 1) \div 86400
      r1 == (v + 1) % 86400
  IN /\ ValidSplit(p) /\ Join(d, p) = v
     /\ Split(p.h * 3600 + p.m * 60 + p.s) = p
     /\ Sec2dhmsTexts(d, r) \cap Sec2dhmsTexts(d1, r1) = {}
     /\ Fsec2dhmsTexts(d, r) \cap Fsec2dhmsTexts(d1, r1) = {}
     /\ HmsText(d, r, "") # HmsText(d1, r1, "")
     /\ DhmsText(d, r, TRUE, TRUE, "") \in Sec2dhmsTexts(d, r)
     /\ (ShortUnambiguous(d, r) => ShortDhms(d, r) # ShortDhms(d1, r1))
     /\ DurText(1, d, r) = ToString(v) /\ (v > 0 => DurText(-1, d, r) = ToString(-v))
SplitExamples ==
  /\ Sec2dhmsTexts(5, 68000) = {"5d18h53m20s"} /\ "1s" \in Sec2dhmsTexts(0, 1) /\ "1m40s" \in Sec2dhmsTexts(0, 100)
  /\ "2h46m40s" \in Sec2dhmsTexts(0, 10000) /\ "11d13h46m40s" \in Sec2dhmsTexts(11, 49600)
  /\ "5d18h53m20.000000s" \in Fsec2dhmsTexts(5, 68000)
  /\ HmsText(0, 5000, "") = "01:23:20" /\ HmsText(0, 5000, ".000000") = "01:23:20.000000"
  /\ ShortDhms(0, 22920) = "6h22m" /\ ShortDhms(0, 28800) = "8h" /\ ShortDhms(0, 46800) = "13h" /\ ShortDhms(0, 840) = "14m"
  /\ ShortUnambiguous(0, 22920) /\ ~ShortUnambiguous(1, 1) /\ DurText(1, 5, 68000) = "500000"
\* every integer up to SplitRange, and the neighbourhoods of whole days up to the end of 32 bits
WholeDays == {k * 86400 + e : k \in (2..30) \cup {99, 100, 101, 999, 1000, 1001, 11574, 24854}, e \in -61..61}
Splitters == SplitExamples /\ \A v \in MineRange(0, SplitRange) \cup Mine(WholeDays) : SplitLaw(v)

\* datediff: the units hang together, whichever admitted reading is taken
DiffLaw(n1, n2) ==
  /\ DateDiff("d", n1, n2) = {n2 - n1}
  /\ \A u \in {"y", "m", "ym", "yd", "md"} : DateDiff(u, n1, n2) # {} /\ DateDiff(u, n2, n1) = {-v : v \in DateDiff(u, n1, n2)}
  /\ (n1 <= n2 =>
        /\ \A k \in DateDiff("m", n1, n2) : k >= 0 /\ k \div 12 \in DateDiff("y", n1, n2) /\ k % 12 \in DateDiff("ym", n1, n2)
        /\ \A v \in DateDiff("yd", n1, n2) : v \in 0..366
        /\ \A v \in DateDiff("md", n1, n2) : v \in 0..30
        /\ (n1 = n2 => \A u \in {"y", "m", "ym", "yd", "md"} : DateDiff(u, n1, n2) = {0}))
DateDiffs == \A n \in Mine(Days) : \A i \in 1..Len(Deltas) : InYears(n + Deltas[i]) => DiffLaw(n, n + Deltas[i])

Laws == DateDiffs /\ Gregorian /\ Texts /\ ParseFormat /\ Examples /\ Splitters
=============================================================================
