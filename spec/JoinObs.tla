------------------------------- MODULE JoinObs -------------------------------
(* Judges what the real mlr printed for each case: line = [c, left, right, out, exit]. *)
EXTENDS Join, Json
CONSTANT ObsFile
Obs == ndJsonDeserialize(ObsFile)
VARIABLE l
Init == l = 1
Next == l < Len(Obs) /\ l' = l + 1
\* a coarse description of a disagreement (for the report only)
Why(o) == LET want == EP(o.c, o.left, o.right) \o EUR(o.c, o.left, o.right) \o EUL(o.c, o.left, o.right) IN
          IF o.exit # 0 THEN "exit status"
          ELSE IF Len(o.out) > Len(want) THEN "too many records"
          ELSE IF Len(o.out) < Len(want) THEN "too few records"
          ELSE IF ~SameBag(o.out, want) THEN "wrong records"
          ELSE "order"
\* a law case (collision family): the run succeeds and every output record has distinct field names
DistinctNames(r) == \A i, j \in 1..Len(r) : i # j => r[i][1] # r[j][1]
Conforms == LET o == Obs[l] IN
   IF "law" \in DOMAIN o
   THEN (o.exit = 0 /\ \A k \in 1..Len(o.out) : DistinctNames(o.out[k]))
        \/ PrintT(ToJson([line |-> l, why |-> IF o.exit # 0 THEN "exit status" ELSE "a record with two fields of the same name"]))
   ELSE (o.exit = 0 /\ Allowed(o.c, o.left, o.right, o.out)) \/ PrintT(ToJson([line |-> l, why |-> Why(o)]))
\* measured, not judged: does an unsorted-mode output equal the reference output Streamed (right stream processed in
\* order, then the unpaired left records in left-file order)?  The reference does not promise it.
InReferenceOrder == LET o == Obs[l] IN
   ("law" \in DOMAIN o \/ o.exit # 0 \/ o.c.mode = "-s" \/ o.out = Streamed(o.c, o.left, o.right)) \/ PrintT(ToJson([line |-> l]))
=============================================================================
