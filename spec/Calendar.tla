------------------------------ MODULE Calendar ------------------------------
(***************************************************************************)
(* The integer part of C16: the proleptic Gregorian calendar in GMT and the *)
(* texts Miller's GMT time functions are documented to print for it.        *)
(*                                                                          *)
(* An instant is <<n, s, f>>: n = days since 1970-01-01 (may be negative),  *)
(* s = second of that day (0..86399), f = nanosecond of that second         *)
(* (0..999999999; 0 for the functions that take integer seconds). Nothing   *)
(* here needs more than 32 bits: the epoch-seconds NUMBER n*86400+s is only *)
(* ever produced as decimal TEXT (SecsText), by splitting the product into  *)
(* limbs.                                                                   *)
(*                                                                          *)
(* Sources: reference-dsl-time.md (the strftime / strptime directive tables *)
(* and the worked examples), the help texts of sec2gmt, sec2gmtdate,        *)
(* strftime, strfntime, strptime, strpntime, gmt2sec, gmt2nsec, nsec2gmt,   *)
(* nsec2gmtdate and of the verbs sec2gmt / sec2gmtdate; ISO 8601 for the    *)
(* shape of the sec2gmt text; the Gregorian leap-year rule.                 *)
(***************************************************************************)
EXTENDS Integers, Sequences, FiniteSets, TLC

(***************************************************************************)
(* 1. The calendar, definitionally: leap years, month lengths, the day      *)
(*    after a day.                                                          *)
(***************************************************************************)
IsLeap(y) == (y % 4 = 0 /\ y % 100 # 0) \/ y % 400 = 0
DaysInMonth(y, m) == CASE m \in {1, 3, 5, 7, 8, 10, 12} -> 31
                       [] m \in {4, 6, 9, 11} -> 30
                       [] m = 2 -> IF IsLeap(y) THEN 29 ELSE 28
DaysInYear(y) == IF IsLeap(y) THEN 366 ELSE 365
ValidCivil(c) == c.y >= 1 /\ c.m \in 1..12 /\ c.d \in 1..DaysInMonth(c.y, c.m)
NextDay(c) == IF c.d < DaysInMonth(c.y, c.m) THEN [y |-> c.y, m |-> c.m, d |-> c.d + 1]
              ELSE IF c.m < 12 THEN [y |-> c.y, m |-> c.m + 1, d |-> 1]
              ELSE [y |-> c.y + 1, m |-> 1, d |-> 1]
\* day of the year, 1-based: the lengths of the months before m, plus d
DayOfYear(y, m, d) == LET F[k \in 0..11] == IF k = 0 THEN 0 ELSE F[k - 1] + DaysInMonth(y, k) IN F[m - 1] + d

(***************************************************************************)
(* 2. Closed forms (H. Hinnant, "chrono-compatible low-level date           *)
(*    algorithms"): days since 1970-01-01 <-> civil date, for years >= 1.   *)
(*    CalendarMC proves them against section 1: CivilFromDays(0) is         *)
(*    1970-01-01, CivilFromDays(n+1) = NextDay(CivilFromDays(n)), and the   *)
(*    two are mutually inverse.  All intermediates stay far below 2^31.     *)
(***************************************************************************)
DaysFromCivil(y, m, d) ==
  LET yy  == IF m <= 2 THEN y - 1 ELSE y
      era == yy \div 400
      yoe == yy - era * 400
      mp  == IF m > 2 THEN m - 3 ELSE m + 9
      doy == (153 * mp + 2) \div 5 + d - 1
      doe == yoe * 365 + yoe \div 4 - yoe \div 100 + doy
  IN era * 146097 + doe - 719468
CivilFromDays(n) ==
  LET z   == n + 719468
      era == z \div 146097
      doe == z - era * 146097
      yoe == (doe - doe \div 1460 + doe \div 36524 - doe \div 146096) \div 365
      doy == doe - (365 * yoe + yoe \div 4 - yoe \div 100)
      mp  == (5 * doy + 2) \div 153
      d   == doy - (153 * mp + 2) \div 5 + 1
      m   == IF mp < 10 THEN mp + 3 ELSE mp - 9
      y   == yoe + era * 400 + (IF m <= 2 THEN 1 ELSE 0)
  IN [y |-> y, m |-> m, d |-> d]
MinDay == DaysFromCivil(1, 1, 1)          \* -719162
MaxDay == DaysFromCivil(9999, 12, 31)     \* 2932896
\* 1970-01-01 was a Thursday (reference-dsl-time.md: strftime(0, "%A, %B %e, %Y") is "Thursday, January  1, 1970")
Weekday(n) == (n + 4) % 7                 \* 0 = Sunday .. 6 = Saturday

\* week numbers. %U / %W: weeks start on Sunday / Monday, the days before the first such day are week 0, i.e. the
\* number of Sundays / Mondays of the year up to and including the day (CalendarMC checks the closed forms against
\* that count). %V: ISO 8601 week (Monday first, 01-53): week 1 is the week holding the year's first Thursday.
WeekU(j, w) == (j + 6 - w) \div 7
WeekW(j, w) == (j + 6 - ((w + 6) % 7)) \div 7
IsoWeekday(w) == IF w = 0 THEN 7 ELSE w
LongIsoYear(y) ==       \* a year with 53 ISO weeks: 1 January is a Thursday, or a Wednesday in a leap year
  LET w1 == Weekday(DaysFromCivil(y, 1, 1)) IN w1 = 4 \/ (w1 = 3 /\ IsLeap(y))
WeekV(y, j, w) ==
  LET k == (j - IsoWeekday(w) + 10) \div 7 IN
  IF k < 1 THEN (IF LongIsoYear(y - 1) THEN 53 ELSE 52)
  ELSE IF k = 53 /\ ~LongIsoYear(y) THEN 1 ELSE k

(***************************************************************************)
(* 3. Decimal text.                                                         *)
(***************************************************************************)
Zeros(k) == CASE k <= 0 -> "" [] k = 1 -> "0" [] k = 2 -> "00" [] k = 3 -> "000" [] k = 4 -> "0000" [] k = 5 -> "00000"
              [] k = 6 -> "000000" [] k = 7 -> "0000000" [] k = 8 -> "00000000" [] k >= 9 -> "000000000"
NDigits(n) == IF n < 10 THEN 1 ELSE IF n < 100 THEN 2 ELSE IF n < 1000 THEN 3 ELSE IF n < 10000 THEN 4
              ELSE IF n < 100000 THEN 5 ELSE IF n < 1000000 THEN 6 ELSE IF n < 10000000 THEN 7
              ELSE IF n < 100000000 THEN 8 ELSE IF n < 1000000000 THEN 9 ELSE 10
Pad(n, w) == Zeros(w - NDigits(n)) \o ToString(n)                 \* n >= 0, zero-padded to at least w digits
Blank2(n) == IF n < 10 THEN " " \o ToString(n) ELSE ToString(n)    \* "single digits are preceded by a blank"
Pow10(k) == CASE k = 0 -> 1 [] k = 1 -> 10 [] k = 2 -> 100 [] k = 3 -> 1000 [] k = 4 -> 10000 [] k = 5 -> 100000
              [] k = 6 -> 1000000 [] k = 7 -> 10000000 [] k = 8 -> 100000000 [] k = 9 -> 1000000000

\* decimal text of d*86400 + s for 0 <= d < 5000000, 0 <= s < 86400: limbs of 10^6 (86400000 = 86*10^6 + 400000)
NatText(d, s) ==
  LET a  == d \div 1000
      b  == d % 1000
      lo == a * 400000 + b * 86400 + s
      hi == a * 86 + lo \div 1000000
      l6 == lo % 1000000
  IN IF hi = 0 THEN ToString(l6) ELSE ToString(hi) \o Pad(l6, 6)
\* the same number by a different splitting (limbs of 10^4; 86400 = 8*10^4 + 6400), to guard NatText (CalendarMC)
NatText2(d, s) ==
  LET d1 == d \div 10000
      d0 == d % 10000
      L0 == d0 * 6400 + s
      L1 == d1 * 6400 + d0 * 8 + L0 \div 10000
      L2 == d1 * 8 + L1 \div 10000
      l0 == L0 % 10000
      l1 == L1 % 10000
  IN IF L2 > 0 THEN ToString(L2) \o Pad(l1, 4) \o Pad(l0, 4)
     ELSE IF l1 > 0 THEN ToString(l1) \o Pad(l0, 4) ELSE ToString(l0)
\* |n*86400 + s| and the sign, for an instant with n possibly negative
IsNegT(n, s) == n < 0
IsZeroT(n, s) == n = 0 /\ s = 0
AbsText(n, s) == IF n >= 0 THEN NatText(n, s)
                 ELSE IF s = 0 THEN NatText(-n, 0) ELSE NatText(-n - 1, 86400 - s)
SecsText(n, s) == IF n >= 0 THEN NatText(n, s) ELSE "-" \o AbsText(n, s)
\* the second after <<n, s>>
SuccN(n, s) == IF s = 86399 THEN n + 1 ELSE n
SuccS(n, s) == IF s = 86399 THEN 0 ELSE s + 1
\* decimal text of (n*86400 + s) * 10^u + q with 0 <= q < 10^u (u = 3, 6, 9: epoch milli-, micro-, nanoseconds)
UnitText(n, s, q, u) ==
  IF IsZeroT(n, s) THEN ToString(q)
  ELSE IF n >= 0 THEN NatText(n, s) \o Pad(q, u)
  ELSE IF q = 0 THEN "-" \o AbsText(n, s) \o Zeros(u)
  ELSE IF IsZeroT(SuccN(n, s), SuccS(n, s)) THEN "-" \o ToString(Pow10(u) - q)
  ELSE "-" \o AbsText(SuccN(n, s), SuccS(n, s)) \o Pad(Pow10(u) - q, u)
\* decimal text of n*86400 + s + 1/2 (exactly representable in binary floating point)
HalfText(n, s) == IF n >= 0 THEN NatText(n, s) \o ".5" ELSE "-" \o AbsText(SuccN(n, s), SuccS(n, s)) \o ".5"
\* the spellings of an integer-valued number a function documented to return "floating-point seconds" may print
\* (the help texts print such results both ways: "= 14400" and "= 1440768801.000000")
NumSpellings(t) == {t, t \o ".000000"}

(***************************************************************************)
(* 4. What is printed for an instant.                                       *)
(***************************************************************************)
Fields(n, s, f) ==
  LET c == CivilFromDays(n) IN
  [Y |-> c.y, m |-> c.m, d |-> c.d, H |-> s \div 3600, M |-> (s % 3600) \div 60, S |-> s % 60,
   j |-> DayOfYear(c.y, c.m, c.d), w |-> Weekday(n), n |-> n, s |-> s, f |-> f]
DayName   == <<"Sunday", "Monday", "Tuesday", "Wednesday", "Thursday", "Friday", "Saturday">>
DayAbbr   == <<"Sun", "Mon", "Tue", "Wed", "Thu", "Fri", "Sat">>
MonthName == <<"January", "February", "March", "April", "May", "June", "July", "August", "September", "October",
               "November", "December">>
MonthAbbr == <<"Jan", "Feb", "Mar", "Apr", "May", "Jun", "Jul", "Aug", "Sep", "Oct", "Nov", "Dec">>
Hour12(H) == IF H % 12 = 0 THEN 12 ELSE H % 12
\* ISO 8601 years have four digits; the reference shows five for years beyond 9999 (sec2gmt(1500000000000))
IsoYear(Y) == Pad(Y, 4)
\* "%Y the year with century as a decimal number": the padding of years below 1000 is not stated
YearTexts(Y) == IF Y >= 1000 THEN {ToString(Y)} ELSE {Pad(Y, 4), ToString(Y)}
\* the first k of the nine sub-second digits: the examples truncate (strftime(123456.789, "...%1S") is "...36.7",
\* nsec2gmt(1234567890123456789, 6) is "...30.123456Z")
FracDigits(f, k) == Pad(f \div Pow10(9 - k), k)
Cat(A, B) == {a \o b : a \in A, b \in B}

RECURSIVE FmtSet(_, _, _)
RECURSIVE Tok(_, _)
\* the set of texts the documentation allows for one format token: a directive of the strftime table of
\* reference-dsl-time.md, or literal text
Tok(t, F) ==
  CASE t = "%Y" -> YearTexts(F.Y)
    [] t = "%m" -> {Pad(F.m, 2)}
    [] t = "%d" -> {Pad(F.d, 2)}
    [] t = "%H" -> {Pad(F.H, 2)}
    [] t = "%M" -> {Pad(F.M, 2)}
    [] t = "%S" -> {Pad(F.S, 2)}
    [] t = "%j" -> {Pad(F.j, 3)}
    [] t = "%y" -> {Pad(F.Y % 100, 2)}
    [] t = "%C" -> {Pad(F.Y \div 100, 2)}
    [] t = "%e" -> {Blank2(F.d)}
    [] t = "%k" -> {Blank2(F.H)}
    [] t = "%I" -> {Pad(Hour12(F.H), 2)}
    [] t = "%l" -> {Blank2(Hour12(F.H))}
    [] t = "%p" -> {IF F.H < 12 THEN "AM" ELSE "PM"}
    [] t = "%s" -> {SecsText(F.n, F.s)}
    [] t = "%A" -> {DayName[F.w + 1]}
    [] t = "%a" -> {DayAbbr[F.w + 1]}
    [] t = "%B" -> {MonthName[F.m]}
    [] t \in {"%b", "%h"} -> {MonthAbbr[F.m]}
    [] t = "%u" -> {ToString(IsoWeekday(F.w))}
    [] t = "%w" -> {ToString(F.w)}
    [] t = "%U" -> {Pad(WeekU(F.j, F.w), 2)}
    [] t = "%W" -> {Pad(WeekW(F.j, F.w), 2)}
    [] t = "%V" -> {Pad(WeekV(F.Y, F.j, F.w), 2)}
    [] t = "%F" -> FmtSet(<<"%Y", "-", "%m", "-", "%d">>, 1, F)
    [] t = "%T" -> FmtSet(<<"%H", ":", "%M", ":", "%S">>, 1, F)
    [] t = "%D" -> FmtSet(<<"%m", "/", "%d", "/", "%y">>, 1, F)
    [] t = "%R" -> FmtSet(<<"%H", ":", "%M">>, 1, F)
    [] t = "%r" -> FmtSet(<<"%I", ":", "%M", ":", "%S", " ", "%p">>, 1, F)
    [] t = "%v" -> FmtSet(<<"%e", "-", "%b", "-", "%Y">>, 1, F)
    [] t = "%1S" -> {Pad(F.S, 2) \o "." \o FracDigits(F.f, 1)}
    [] t = "%2S" -> {Pad(F.S, 2) \o "." \o FracDigits(F.f, 2)}
    [] t = "%3S" -> {Pad(F.S, 2) \o "." \o FracDigits(F.f, 3)}
    [] t = "%4S" -> {Pad(F.S, 2) \o "." \o FracDigits(F.f, 4)}
    [] t = "%5S" -> {Pad(F.S, 2) \o "." \o FracDigits(F.f, 5)}
    [] t = "%6S" -> {Pad(F.S, 2) \o "." \o FracDigits(F.f, 6)}
    [] t = "%7S" -> {Pad(F.S, 2) \o "." \o FracDigits(F.f, 7)}
    [] t = "%8S" -> {Pad(F.S, 2) \o "." \o FracDigits(F.f, 8)}
    [] t = "%9S" -> {Pad(F.S, 2) \o "." \o FracDigits(F.f, 9)}
    [] t = "%N" -> {Pad(F.f, 9)}                 \* "zero-padded nanoseconds"
    [] t = "%O" -> {ToString(F.f)}               \* "non-zero-padded nanoseconds"
    [] t = "%f" -> {Pad(F.f \div 1000, 6)}       \* strptime only: "Microsecond as a decimal number, zero-padded on the left"
    [] t = "%Z" -> {"UTC"}                       \* the GMT functions: strftime(0, "... %Z") is "... UTC" whatever TZ says
    [] t = "%z" -> {"+0000"}
    [] t = "%%" -> {"%"}
    [] OTHER -> {t}
FmtSet(fmt, i, F) == IF i > Len(fmt) THEN {""} ELSE Cat(Tok(fmt[i], F), FmtSet(fmt, i + 1, F))
\* all texts allowed for strftime / strfntime of an instant under a format (a sequence of tokens)
Formatted(fmt, n, s, f) == FmtSet(fmt, 1, Fields(n, s, f))
\* the text, where the documentation determines it
Determined(fmt, n, s, f) == Cardinality(Formatted(fmt, n, s, f)) = 1
TheText(fmt, n, s, f) == CHOOSE x \in Formatted(fmt, n, s, f) : TRUE

\* sec2gmt / nsec2gmt with k decimals (k = 0: none), sec2gmtdate / nsec2gmtdate
IsoDate(F) == IsoYear(F.Y) \o "-" \o Pad(F.m, 2) \o "-" \o Pad(F.d, 2)
IsoText(n, s, f, k) ==
  LET F == Fields(n, s, f) IN
  IsoDate(F) \o "T" \o Pad(F.H, 2) \o ":" \o Pad(F.M, 2) \o ":" \o Pad(F.S, 2)
             \o (IF k = 0 THEN "" ELSE "." \o FracDigits(f, k)) \o "Z"
DateText(n) == IsoDate(Fields(n, 0, 0))

(***************************************************************************)
(* 5. Parsing is the inverse relation: strptime(x, fmt) is the instant      *)
(*    whose formatting under fmt is x, provided the directives of fmt       *)
(*    determine an instant.  The directive sets below say which fields a    *)
(*    format shows; Recover rebuilds the instant from exactly those fields  *)
(*    (CalendarMC: Recover(fmt, Fields(t)) = t for every determining fmt).  *)
(***************************************************************************)
RECURSIVE Shown(_, _)
Expand(t) == CASE t = "%F" -> <<"%Y", "%m", "%d">> [] t = "%T" -> <<"%H", "%M", "%S">> [] t = "%R" -> <<"%H", "%M">>
               [] t = "%r" -> <<"%I", "%M", "%S", "%p">> [] t = "%D" -> <<"%m", "%d", "%y">> [] t = "%v" -> <<"%e", "%b", "%Y">>
               [] t = "%c" -> <<"%a", "%b", "%e", "%H", "%M", "%S", "%Y">>
               [] t = "%X" -> <<"%H", "%M", "%S">> [] t = "%x" -> <<"%m", "%d", "%y">>
               [] OTHER -> <<t>>
Shown(fmt, i) == IF i > Len(fmt) THEN {} ELSE {Expand(fmt[i])[k] : k \in 1..Len(Expand(fmt[i]))} \cup Shown(fmt, i + 1)
Determines(fmt) ==
  LET D == Shown(fmt, 1) IN
  \/ "%s" \in D
  \/ /\ "%Y" \in D
     /\ ("%j" \in D \/ ((D \cap {"%m", "%b", "%B", "%h"}) # {} /\ (D \cap {"%d", "%e"}) # {}))
     /\ ("%H" \in D \/ "%k" \in D \/ ((D \cap {"%I", "%l"}) # {} /\ "%p" \in D))
     /\ "%M" \in D
     /\ (D \cap {"%S", "%1S", "%2S", "%3S", "%4S", "%5S", "%6S", "%7S", "%8S", "%9S"}) # {}
\* the instant rebuilt from only the fields fmt shows (F is a Fields record); <<n, s>>
Recover(fmt, F) ==
  LET D == Shown(fmt, 1)
      n == IF "%s" \in D THEN F.n
           ELSE IF (D \cap {"%m", "%b", "%B", "%h"}) # {} /\ (D \cap {"%d", "%e"}) # {} THEN DaysFromCivil(F.Y, F.m, F.d)
           ELSE DaysFromCivil(F.Y, 1, 1) + F.j - 1
      h == IF "%H" \in D \/ "%k" \in D THEN F.H ELSE (Hour12(F.H) % 12) + (IF F.H >= 12 THEN 12 ELSE 0)
      s == IF "%s" \in D THEN F.s ELSE h * 3600 + F.M * 60 + F.S
  IN <<n, s>>

\* a numeric-offset zone "+HHMM" / "-HHMM" (strptime's %z): the text shows the civil fields of the instant shifted
\* by the offset (strptime("1970-01-01 00:00:00 -0400", "%Y-%m-%d %H:%M:%S %z") = 14400)
OffsetText(off) ==      \* off in minutes east of Greenwich
  LET a == IF off < 0 THEN -off ELSE off IN (IF off < 0 THEN "-" ELSE "+") \o Pad(a \div 60, 2) \o Pad(a % 60, 2)
ShiftN(n, s, off) == n + ((s + off * 60) \div 86400)
ShiftS(n, s, off) == (s + off * 60) % 86400

(***************************************************************************)
(* 6. datediff(t1, t2, unit): "like the spreadsheet DATEDIF function ...     *)
(*    "y", "m", or "d" for complete years, complete months, or days between *)
(*    the two dates, "ym", "yd", "md" for months ignoring years, days        *)
(*    ignoring years, days ignoring months and years (case-insensitive).    *)
(*    Differences are computed on calendar dates in GMT, ignoring any       *)
(*    time-of-day parts. The result is negative if the first date is after  *)
(*    the second."  DateDiff gives the SET of admitted answers: DATEDIF is   *)
(*    ambiguous where a month end or 29 February is involved, and the       *)
(*    reference does not settle those cases.                                *)
(***************************************************************************)
LastOfMonth(c) == c.d = DaysInMonth(c.y, c.m)
MonthDayLeq(a, b) == a.m < b.m \/ (a.m = b.m /\ a.d <= b.d)
\* complete months from date a to date b (a not after b): the month count, less one if b's day of the month has not
\* reached a's; if b is the last day of a month too short to reach it (31 Jan -> 28 Feb) both readings are admitted
MonthsBetween(a, b) ==
  LET raw == (b.y - a.y) * 12 + (b.m - a.m) IN
  IF b.d >= a.d THEN {raw} ELSE IF LastOfMonth(b) THEN {raw - 1, raw} ELSE {raw - 1}
\* "days ignoring years": from a's month and day, put in the last year where that is not after b, to b (the reference:
\* 2020-01-01 .. 2023-05-15 is 134 days, 2001-06-01 .. 2002-08-15 is 75); a 29 February put in a common year is
\* 28 February or 1 March
YearDayAnchors(a, b) ==
  LET ya == IF MonthDayLeq(a, b) THEN b.y ELSE b.y - 1 IN
  IF a.m = 2 /\ a.d = 29 /\ ~IsLeap(ya) THEN {DaysFromCivil(ya, 2, 28), DaysFromCivil(ya, 3, 1)} ELSE {DaysFromCivil(ya, a.m, a.d)}
DateDiffFwd(u, n1, n2) ==        \* n1 <= n2
  LET a == CivilFromDays(n1)
      b == CivilFromDays(n2)
  IN CASE u = "d"  -> {n2 - n1}
       [] u = "m"  -> MonthsBetween(a, b)
       [] u = "y"  -> {k \div 12 : k \in MonthsBetween(a, b)}
       [] u = "ym" -> {k % 12 : k \in MonthsBetween(a, b)}
       [] u = "md" -> (IF b.d >= a.d THEN {b.d - a.d} ELSE 0..30)      \* which month's length is borrowed is not said
       [] u = "yd" -> {n2 - x : x \in {y \in YearDayAnchors(a, b) : y <= n2}}
\* a class name for findings: does the later date's day of the month reach the earlier date's?
DiffClass(n1, n2) ==
  LET a == CivilFromDays(IF n1 <= n2 THEN n1 ELSE n2)
      b == CivilFromDays(IF n1 <= n2 THEN n2 ELSE n1)
  IN IF b.d >= a.d THEN "day-of-month-reached" ELSE "day-of-month-not-reached"
DateDiff(u, n1, n2) == IF n1 <= n2 THEN DateDiffFwd(u, n1, n2) ELSE {-x : x \in DateDiffFwd(u, n2, n1)}

\* which instants fit signed 64-bit nanoseconds (the domain of the nsec / strfntime / strpntime family)
\* 2^63 ns = 106751 days 23:47:16.854775808
InNsRange(n, s) == (n > -106752 /\ n < 106751) \/ (n = 106751 /\ s < 85636) \/ (n = -106752 /\ s >= 764)
\* classes of instants, only used to describe a finding: within 2^53 / 5^9 seconds of the epoch (1823-11-12 .. 2116-02-20: the
\* nanosecond count is exact as a double), within signed 64-bit nanoseconds (1677-09-21 .. 2262-04-11), beyond
RangeClass(n, s) == IF n > -53375 /\ n < 53375 THEN "near-epoch" ELSE IF InNsRange(n, s) THEN "ns64" ELSE "beyond-ns64"
FracClass(f) == IF f = 0 THEN "whole-second" ELSE "sub-second"
=============================================================================
