------------------------------ MODULE JoinCases ------------------------------
(***************************************************************************)
(* The bounded case space of C13: configurations x left file x right        *)
(* stream.  Records are written once as templates whose join fields are     *)
(* named "#1", "#2"; a configuration's -l / -r names are put in their       *)
(* place (a slot the configuration does not use becomes an ordinary field   *)
(* k / m present on both sides).                                            *)
(*                                                                          *)
(* Which cases are run is said in JoinGen.tla: one main configuration per   *)
(* mode and the two-join-field configurations on (nearly) every pair of     *)
(* lists, a seeded sample of the whole option cross product Configs1.       *)
(***************************************************************************)
EXTENDS Join, Randomization
CONSTANTS MaxLen,      \* longest left / right list of the one-join-field family
          MaxLen3,     \* same for the cross-name family
          MaxLen2,     \* same for the two-join-field family
          Wide,        \* TRUE: the larger record universe (keys "10", "9" as well)
          NCfg, PerCfg \* size of the sample of the option cross product

F(k, v) == <<k, v>>
\* ---- record templates ---------------------------------------------------------------------------
\* left: duplicate key a, a field c also present on the right, join field not first, empty key, no key
LT1 == { <<F("#1", "a"), F("x", "1")>>, <<F("#1", "a"), F("x", "2"), F("c", "3")>>, <<F("x", "4"), F("#1", "b")>>,
         <<F("#1", ""), F("x", "5")>>, <<F("x", "6")>> }
       \cup (IF Wide THEN { <<F("#1", "10"), F("x", "7")>>, <<F("#1", "9"), F("c", "8")>> } ELSE {})
RT1 == { <<F("#1", "a"), F("y", "1")>>, <<F("y", "2"), F("#1", "a"), F("c", "8")>>, <<F("#1", "b"), F("y", "3")>>,
         <<F("#1", ""), F("c", "9")>>, <<F("y", "5")>> }
       \cup (IF Wide THEN { <<F("#1", "10"), F("y", "6")>>, <<F("y", "7"), F("#1", "9")>> } ELSE {})
\* two join fields: <<"a,a","a">> and <<"a","a,a">> are different keys; a record with one of the two fields has no key
LT2 == { <<F("#1", "a,a"), F("#2", "a"), F("x", "1")>>, <<F("#1", "a"), F("#2", "a"), F("x", "2")>>,
         <<F("#2", "b"), F("x", "3"), F("#1", "a")>>, <<F("#1", "a"), F("x", "4")>>, <<F("#1", "a"), F("#2", ""), F("c", "5")>> }
RT2 == { <<F("#1", "a"), F("#2", "a,a"), F("y", "1")>>, <<F("#1", "a"), F("#2", "a"), F("y", "2")>>,
         <<F("#1", "a"), F("y", "3"), F("#2", "b")>>, <<F("#2", "a"), F("y", "4")>>, <<F("#1", "a"), F("#2", ""), F("c", "6")>> }

Lists(U, n) == UNION {[1..l -> U] : l \in 0..n}
Slot(name) == IF name = "#1" THEN 1 ELSE IF name = "#2" THEN 2 ELSE 0
Plain(name) == IF name = "#1" THEN "k" ELSE "m"
Inst(t, fs) == [i \in 1..Len(t) |->
                  IF Slot(t[i][1]) = 0 THEN t[i]
                  ELSE IF Slot(t[i][1]) <= Len(fs) THEN <<fs[Slot(t[i][1])], t[i][2]>>
                  ELSE <<Plain(t[i][1]), t[i][2]>>]
InstList(s, fs) == [i \in 1..Len(s) |-> Inst(s[i], fs)]

\* ---- lists, with the properties the options depend on (evaluated on the templates themselves) ------
Ref1(ie) == [ie |-> ie, lg |-> FALSE, rg |-> FALSE, j |-> <<"#1">>]
Ref2(ie) == [ie |-> ie, lg |-> FALSE, rg |-> FALSE, j |-> <<"#1", "#2">>]
Rect(s) == s # <<>> /\ \A i \in 1..Len(s) : KeysOf(s[i]) = KeysOf(s[1])
LL1 == Lists(LT1, MaxLen)
RL1 == Lists(RT1, MaxLen)
LL2 == Lists(LT2, MaxLen2)
RL2 == Lists(RT2, MaxLen2)
\* sorted lists (N: as the data stand, E: under --ignore-empty, where records with an empty key have no key)
SortedLL1N == {s \in LL1 : SortedBy(Ref1(FALSE), s, <<"#1">>)}
SortedLL1E == {s \in LL1 : SortedBy(Ref1(TRUE), s, <<"#1">>)}
SortedRL1N == {s \in RL1 : SortedBy(Ref1(FALSE), s, <<"#1">>)}
SortedRL1E == {s \in RL1 : SortedBy(Ref1(TRUE), s, <<"#1">>)}
SortedLL2N == {s \in LL2 : SortedBy(Ref2(FALSE), s, <<"#1", "#2">>)}
SortedLL2E == {s \in LL2 : SortedBy(Ref2(TRUE), s, <<"#1", "#2">>)}
SortedRL2N == {s \in RL2 : SortedBy(Ref2(FALSE), s, <<"#1", "#2">>)}
SortedRL2E == {s \in RL2 : SortedBy(Ref2(TRUE), s, <<"#1", "#2">>)}
RectLL1 == {s \in LL1 : Rect(s)}
RectSortedLL1N == SortedLL1N \cap RectLL1
RectSortedLL1E == SortedLL1E \cap RectLL1

\* ---- configurations ------------------------------------------------------------------------------
NoLk == [on |-> FALSE, f |-> <<>>]
Lk(f) == [on |-> TRUE, f |-> f]
Names1 == { [j |-> <<"k">>, l |-> <<"k">>, r |-> <<"k">>, lg |-> FALSE, rg |-> FALSE],
            [j |-> <<"k">>, l |-> <<"lk">>, r |-> <<"rk">>, lg |-> TRUE, rg |-> TRUE],
            [j |-> <<"k">>, l |-> <<"lk">>, r |-> <<"k">>, lg |-> TRUE, rg |-> FALSE],
            [j |-> <<"k">>, l |-> <<"k">>, r |-> <<"rk">>, lg |-> FALSE, rg |-> TRUE],
            [j |-> <<"k">>, l |-> <<"k">>, r |-> <<"k">>, lg |-> TRUE, rg |-> TRUE],
            [j |-> <<"o">>, l |-> <<"k">>, r |-> <<"k">>, lg |-> TRUE, rg |-> TRUE],
            [j |-> <<>>, l |-> <<>>, r |-> <<>>, lg |-> FALSE, rg |-> FALSE] }
Names2 == { [j |-> <<"k", "m">>, l |-> <<"k", "m">>, r |-> <<"k", "m">>, lg |-> FALSE, rg |-> FALSE],
            [j |-> <<"k", "m">>, l |-> <<"lk", "lm">>, r |-> <<"rk", "rm">>, lg |-> TRUE, rg |-> TRUE] }
\* "--np" alone is refused by mlr (no output possible), so it is not a case
Emits == {e \in [np : BOOLEAN, ul : BOOLEAN, ur : BOOLEAN] : ~(e.np /\ ~e.ul /\ ~e.ur)}
Cfg(n, e, lp, rp, lk, ie, mode, fmt, ifs) ==
  [j |-> n.j, l |-> n.l, r |-> n.r, lg |-> n.lg, rg |-> n.rg, np |-> e.np, ul |-> e.ul, ur |-> e.ur,
   lp |-> lp, rp |-> rp, lk |-> lk, ie |-> ie, mode |-> mode, fmt |-> fmt, ifs |-> ifs]
Modes == {"", "-u", "-s"}
Fmts == {"", "--ijson", "-i json", "--icsv", "-i csv"}
Lks == {NoLk, Lk(<<"c">>), Lk(<<>>), Lk(<<"x", "c">>), Lk(<<"nosuch">>)}
All == [np |-> FALSE, ul |-> TRUE, ur |-> TRUE]
PlainNames == [j |-> <<"k">>, l |-> <<"k">>, r |-> <<"k">>, lg |-> FALSE, rg |-> FALSE]
MainCfgU == Cfg(PlainNames, All, "", "", NoLk, FALSE, "", "", ",")
MainCfgS == Cfg(PlainNames, All, "", "", NoLk, FALSE, "-s", "", ",")
Configs1 == {Cfg(n, e, lp, rp, lk, ie, mode, fmt, ",") :
               n \in Names1, e \in Emits, lp \in {"", "L_"}, rp \in {"", "R_"}, lk \in Lks, ie \in BOOLEAN,
               mode \in Modes, fmt \in Fmts}
AllNp == [np |-> TRUE, ul |-> TRUE, ur |-> TRUE]
Configs2 ==
  IF Wide THEN {Cfg(n, e, lp, "", NoLk, ie, mode, "", ";") :
                  n \in Names2, e \in {All, AllNp}, lp \in {"", "L_"}, ie \in BOOLEAN, mode \in {"", "-s"}}
  ELSE LET plain == CHOOSE n \in Names2 : ~n.lg   renamed == CHOOSE n \in Names2 : n.lg IN
       { Cfg(plain, All, "", "", NoLk, FALSE, "", "", ";"), Cfg(renamed, AllNp, "L_", "", NoLk, TRUE, "", "", ";"),
         Cfg(plain, All, "L_", "", NoLk, TRUE, "-s", "", ";"), Cfg(renamed, All, "", "", NoLk, FALSE, "-s", "", ";") }

IsCsv(c) == c.fmt \in {"--icsv", "-i csv"}
\* the left files / right streams a configuration is run on: -s only on sorted inputs, a CSV left file only for
\* rectangular non-empty lists
Lefts1(c) == IF c.mode = "-s" THEN (IF c.ie THEN (IF IsCsv(c) THEN RectSortedLL1E ELSE SortedLL1E)
                                    ELSE (IF IsCsv(c) THEN RectSortedLL1N ELSE SortedLL1N))
             ELSE (IF IsCsv(c) THEN RectLL1 ELSE LL1)
Rights1(c) == IF c.mode = "-s" THEN (IF c.ie THEN SortedRL1E ELSE SortedRL1N) ELSE RL1
Lefts2(c) == IF c.mode = "-s" THEN (IF c.ie THEN SortedLL2E ELSE SortedLL2N) ELSE LL2
Rights2(c) == IF c.mode = "-s" THEN (IF c.ie THEN SortedRL2E ELSE SortedRL2N) ELSE RL2
Case(c, l, r) == [c |-> c, left |-> InstList(l, LF(c)), right |-> InstList(r, RF(c))]

\* ---- the cross-name family: -l and -r differ, and a record of one side carries an ORDINARY field named like the other
\* side's join field (template name "@o").  On its own side that field is a non-join field: it keeps its name (plus the
\* side's prefix) in paired and unpaired records alike.  Where the other side's name is also a join field of this side or
\* an output name (-l lk -r k -j k: a left field k would collide with the renamed lk) the reference says nothing, and the
\* field is called "w" instead.
OtherName(fs, ofs, js) == IF ofs # <<>> /\ ofs[1] \notin (Range(fs) \cup Range(js)) THEN ofs[1] ELSE "w"
InstX(t, fs, ofs, js) == [i \in 1..Len(t) |-> IF t[i][1] = "@o" THEN <<OtherName(fs, ofs, js), t[i][2]>> ELSE Inst(<<t[i]>>, fs)[1]]
InstListX(s, fs, ofs, js) == [i \in 1..Len(s) |-> InstX(s[i], fs, ofs, js)]
LT3 == { <<F("#1", "a"), F("@o", "7"), F("x", "1")>>, <<F("#1", "b"), F("@o", "8")>>, <<F("@o", "9"), F("x", "2")>>, <<F("#1", "a"), F("x", "3")>> }
RT3 == { <<F("#1", "a"), F("y", "1"), F("@o", "6")>>, <<F("#1", "9"), F("@o", "5")>>, <<F("@o", "4"), F("y", "2")>>, <<F("#1", "b"), F("y", "3")>> }
Configs3 == {Cfg(n, e, lp, rp, NoLk, FALSE, mode, "", ",") :
               n \in {n \in Names1 : LF(n) # RF(n)}, e \in {e \in Emits : e.ul \/ e.ur}, lp \in {"", "L_"}, rp \in {"", "R_"},
               mode \in {"", "-s"}}
Lefts3(c, n) == {s \in Lists(LT3, n) : c.mode = "-s" => SortedBy(Ref1(FALSE), s, <<"#1">>)}
Rights3(c, n) == {s \in Lists(RT3, n) : c.mode = "-s" => SortedBy(Ref1(FALSE), s, <<"#1">>)}
\* ---- the escape family: join values holding the characters an implementation might use to build a composite key -- the
\* comma, the backslash, a trailing backslash, a doubled backslash.  Values pair iff they are equal as text.
LT4 == { <<F("#1", "a\\b"), F("x", "1")>>, <<F("#1", "a\\"), F("x", "2")>>, <<F("#1", "a\\\\"), F("x", "3")>>, <<F("#1", "a,b"), F("x", "4")>>,
         <<F("#1", "a"), F("x", "5")>> }
RT4 == { <<F("#1", "a\\b"), F("y", "1")>>, <<F("#1", "a\\"), F("y", "2")>>, <<F("#1", "a\\\\"), F("y", "3")>>, <<F("#1", "a,b"), F("y", "4")>>,
         <<F("#1", "a"), F("y", "5")>> }
Configs4 == {Cfg(PlainNames, e, "", "", NoLk, FALSE, mode, fmt, ";") : e \in (IF Wide THEN {All, AllNp} ELSE {All}), mode \in {"", "-s"}, fmt \in {"", "--ijson"}}
Lefts4(c, n) == {s \in Lists(LT4, n) : c.mode = "-s" => SortedBy(Ref1(FALSE), s, <<"#1">>)}
Rights4(c, n) == {s \in Lists(RT4, n) : c.mode = "-s" => SortedBy(Ref1(FALSE), s, <<"#1">>)}
CaseX(c, l, r) == [c |-> c, left |-> InstListX(l, LF(c), RF(c), c.j), right |-> InstListX(r, RF(c), LF(c), c.j)]
\* ---- the collision family: a record carries an ORDINARY field named like the OUTPUT join field (-j o -l l -r r, and a left
\* or right record with a field o; template name "@j").  Which of the two values the output field o then shows is not
\* documented; these cases are judged by a law only: every output record is a record - no two of its fields have the same
\* name - and the run succeeds.
InstJ(t, fs, js) == [i \in 1..Len(t) |-> IF t[i][1] = "@j" THEN <<(IF js[1] \notin Range(fs) THEN js[1] ELSE "w"), t[i][2]>> ELSE Inst(<<t[i]>>, fs)[1]]
InstListJ(s, fs, js) == [i \in 1..Len(s) |-> InstJ(s[i], fs, js)]
LT5 == { <<F("#1", "a"), F("@j", "99"), F("x", "1")>>, <<F("#1", "b"), F("x", "2")>>, <<F("#1", "b"), F("@j", "98")>> }
RT5 == { <<F("#1", "a"), F("y", "1")>>, <<F("#1", "a"), F("@j", "1000"), F("y", "2")>>, <<F("#1", "c"), F("@j", "7")>> }
Configs5 == {Cfg(n, e, lp, rp, NoLk, FALSE, mode, "", ",") :
               n \in {n \in Names1 : n.j # LF(n) \/ n.j # RF(n)}, e \in Emits, lp \in {"", "L_"}, rp \in {"", "R_"}, mode \in {"", "-s"}}
Lefts5(c, n) == {s \in Lists(LT5, n) : c.mode = "-s" => SortedBy(Ref1(FALSE), s, <<"#1">>)}
Rights5(c, n) == {s \in Lists(RT5, n) : c.mode = "-s" => SortedBy(Ref1(FALSE), s, <<"#1">>)}
CaseJ(c, l, r) == [c |-> c, left |-> InstListJ(l, LF(c), c.j), right |-> InstListJ(r, RF(c), c.j), law |-> "distinct-names"]
=============================================================================
