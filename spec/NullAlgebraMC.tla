---------------------------- MODULE NullAlgebraMC ----------------------------
EXTENDS NullAlgebra
VARIABLE x
Init == x = 0
Next == UNCHANGED x
Laws == AccumulationIdentity /\ PredicatesConsistent /\ RulesSymmetric
=============================================================================
