------------------------- MODULE VerbsAggregateCases -------------------------
(***************************************************************************)
(* The bounded case space of C10.  One family per group of verbs: a record  *)
(* universe (integer texts incl. negatives, zero and a two-digit number whose*)
(* lexical and numerical order differ, the empty text, one non-numeric text, *)
(* missing value field, missing / empty group-by field, a bystander field)   *)
(* and a set of configurations.  Every configuration meets every stream of   *)
(* at most ExLen records, plus NSample random streams (TLC's RandomSubset,   *)
(* seeded by -seed) of each length ExLen+1 .. MaxLen.                         *)
(***************************************************************************)
EXTENDS VerbsAggregate, Randomization
CONSTANTS ExLen, MaxLen, NSample

P(k, v) == <<k, v>>
Acc(k) == [k |-> k, p |-> 0]
AccN(k, n) == [k |-> k, p |-> n]
Pct(p) == [k |-> "p", p |-> p]
Accs(ks) == [i \in 1..Len(ks) |-> Acc(ks[i])]
Cfg(v, g, f, a, n, o) == [v |-> v, g |-> g, f |-> f, a |-> a, n |-> n, o |-> o]

StreamsUpTo(RU, l) == UNION {[1..k -> RU] : k \in 0..l}
Min2(a, b) == IF a < b THEN a ELSE b
\* ---- counting verbs
RUcnt == { <<P("g", "a"), P("h", "1")>>, <<P("g", "b"), P("h", "1")>>, <<P("g", "a"), P("h", "2")>>, <<P("g", ""), P("h", "1")>>,
           <<P("h", "1")>>, <<P("g", "a")>>, <<P("h", "1"), P("g", "a")>>, <<P("g", "b"), P("h", "2"), P("z", "9")>> }
G1 == <<"g">>
G2 == <<"g", "h">>
G2r == <<"h", "g">>
CfgCnt ==
  {Cfg("count", g, <<>>, <<>>, 0, o) : g \in {<<>>, G1}, o \in {<<>>, <<"-o", "N">>}}
  \cup {Cfg("count", g, <<>>, <<>>, 0, <<>>) : g \in {G2, G2r}}
  \cup {Cfg("count", g, <<>>, <<>>, 0, <<"-n">>) : g \in {G1, G2}}
  \cup {Cfg("count-distinct", g, <<>>, <<>>, 0, o) : g \in {G1, G2}, o \in {<<>>, <<"-n">>, <<"-u">>}}
  \cup {Cfg("count-distinct", G2r, <<>>, <<>>, 0, <<>>), Cfg("count-distinct", G1, <<>>, <<>>, 0, <<"-o", "N">>)}
  \cup {Cfg("uniq", g, <<>>, <<>>, 0, o) : g \in {G1, G2}, o \in {<<>>, <<"-c">>, <<"-n">>}}
  \cup {Cfg("uniq", G2r, <<>>, <<>>, 0, <<>>), Cfg("uniq", G2r, <<>>, <<>>, 0, <<"-c">>), Cfg("uniq", G1, <<>>, <<>>, 0, <<"-c", "-o", "N">>)}
  \cup {Cfg("count-similar", G1, <<>>, <<>>, 0, <<>>), Cfg("count-similar", G2, <<>>, <<>>, 0, <<>>),
        Cfg("count-similar", G1, <<>>, <<>>, 0, <<"-o", "N">>)}
  \cup {Cfg(v, G1, <<>>, <<>>, n, o) : v \in {"most-frequent", "least-frequent"}, n \in {1, 2, 10}, o \in {<<>>, <<"-b">>}}
  \cup {Cfg(v, G2, <<>>, <<>>, n, <<>>) : v \in {"most-frequent", "least-frequent"}, n \in {1, 2}}
  \cup {Cfg(v, G1, <<>>, <<>>, 2, <<"-o", "N">>) : v \in {"most-frequent", "least-frequent"}}

\* ---- stats1
RUstat == { <<P("g", "a"), P("x", "3")>>, <<P("g", "a"), P("x", "-1")>>, <<P("g", "a"), P("x", "10")>>, <<P("g", "b"), P("x", "3")>>,
            <<P("g", "b"), P("x", "0")>>, <<P("g", "a"), P("x", "")>>, <<P("g", "a"), P("x", "abc")>>, <<P("x", "5")>>,
            <<P("g", "a"), P("y", "2")>>, <<P("g", "b"), P("x", "10"), P("y", "2")>>, <<P("g", ""), P("x", "-1")>> }
A1 == Accs(<<"count", "sum", "min", "max">>)
A2 == Accs(<<"mode", "antimode", "distinct_count", "null_count">>)
A3 == <<Acc("median"), Pct(10), Pct(25), Pct(50), Pct(75), Pct(90)>>
A4 == Accs(<<"mean", "minlen", "maxlen">>)
A5 == <<Acc("max"), Acc("count"), Pct(25), Acc("mode"), Acc("sum"), Acc("null_count"), Acc("min"), Acc("median"), Acc("antimode"),
        Acc("distinct_count"), Pct(75), Acc("mean"), Acc("maxlen")>>
FX == <<"x">>
FXY == <<"x", "y">>
CfgStat ==
  {Cfg("stats1", g, FX, a, 0, <<>>) : g \in {<<>>, G1}, a \in {A1, A2, A3, A4, A5}}
  \cup {Cfg("stats1", g, FXY, a, 0, <<>>) : g \in {<<>>, G1}, a \in {A1, A5}}

\* ---- the percentile sweep: every p in 0..100 on 1..6 values (one run computes all 101)
RUpct == { <<P("x", "1")>>, <<P("x", "2")>>, <<P("x", "3")>>, <<P("x", "5")>>, <<P("x", "10")>>, <<P("x", "-1")>>, <<P("x", "abc")>> }
AllPct == [p \in 1..101 |-> Pct(p - 1)]
CfgPct == {Cfg("stats1", <<>>, FX, AllPct, 0, <<>>)}

\* ---- the DSL statistics functions on the collected values of x
RUdsl == RUpct \cup { <<P("x", "")>>, <<P("y", "2")>>, <<P("x", "3")>> }
D1 == Accs(<<"count", "sum", "sum2", "mean", "null_count", "distinct_count", "mode", "antimode", "minlen", "maxlen", "median">>)
        \o <<Pct(10), Pct(25), Pct(75), Pct(90), Acc("sort_collection"), Acc("percentiles")>>
D2 == [p \in 1..21 |-> Pct(5 * (p - 1))]
CfgDsl == {Cfg("dsl-stats", <<>>, FX, a, 0, <<>>) : a \in {D1, D2}}

\* ---- merge-fields; the regular expression of the -r form, ^(x|y)$, names exactly the fields x and y
RUmerge == { <<P("x", "3"), P("y", "5"), P("z", "1")>>, <<P("x", ""), P("y", "2")>>, <<P("x", "-1"), P("y", "-1")>>,
             <<P("x", "abc"), P("y", "4")>>, <<P("y", "7")>>, <<P("x", ""), P("y", "")>>, <<P("z", "1")>>,
             <<P("y", "10"), P("x", "3")>>, <<P("x", "0"), P("z", "2"), P("y", "0")>> }
M1 == Accs(<<"sum", "count", "min", "max">>)
M2 == <<Acc("distinct_count"), Acc("minlen"), Acc("maxlen"), Acc("median"), Pct(25), Acc("mean")>>
M3 == Accs(<<"null_count", "count">>)
CfgMerge ==
  {Cfg("merge-fields", <<>>, FXY, a, 0, o) : a \in {M1, M2, M3}, o \in {<<"-o", "out">>, <<"-k", "-o", "out">>}}
  \cup {Cfg("merge-fields", <<>>, FXY, M1, 0, <<"-r", "^(x|y)$", "-o", "out">>), Cfg("merge-fields", <<>>, FX, M1, 0, <<"-o", "out">>)}
RUmergec == { <<P("a_in", "1"), P("a_out", "2"), P("b_in", "5"), P("c", "3")>>, <<P("a_in", ""), P("b_out", "4")>>, <<P("c", "1")>>,
              <<P("a_out", "10"), P("b_out", "0"), P("a_in", "-1")>>, <<P("b_in", "abc"), P("b_out", "2")>> }
CfgMergeC == {Cfg("merge-fields", <<>>, <<>>, a, 0, o) : a \in {M1, M3}, o \in {<<"-c", "_in,_out">>, <<"-k", "-c", "_in,_out">>}}

\* ---- step, top: integer data
RUint == { <<P("g", "a"), P("x", "3")>>, <<P("g", "a"), P("x", "-1")>>, <<P("g", "a"), P("x", "10")>>, <<P("g", "b"), P("x", "2")>>,
           <<P("g", "b"), P("x", "0")>>, <<P("x", "5")>>, <<P("g", "a"), P("y", "2")>>, <<P("g", "b"), P("x", "7"), P("y", "2")>> }
S1 == Accs(<<"shift", "delta", "counter", "rsum">>)
S2 == Accs(<<"shift_lag", "from-first", "rprod">>)
S3 == Accs(<<"shift_lead">>)
S4 == <<AccN("shift_lag", 2), AccN("delta", 2)>>
S5 == <<AccN("shift_lead", 2), Acc("counter")>>
S6 == Accs(<<"counter", "rsum", "shift">>)
CfgStep ==
  {Cfg("step", g, FX, a, 0, <<>>) : g \in {<<>>, G1}, a \in {S1, S2, S3, S4, S5}}
  \cup {Cfg("step", g, FXY, S6, 0, <<>>) : g \in {<<>>, G1}}
\* stats1 -w n (n = c.n) on the integer data
A6 == Accs(<<"mode", "median", "mean">>)
CfgWin ==
  {Cfg("stats1", g, FX, a, n, <<>>) : g \in {<<>>, G1}, a \in {A1, A6}, n \in {1, 2, 3}}
  \cup {Cfg("stats1", G1, FXY, A1, 2, <<>>)}
  \cup {Cfg("stats1", g, FX, a, 0, <<"-s">>) : g \in {<<>>, G1}, a \in {A1, A3, A6}}
CfgTop ==
  {Cfg("top", g, FX, <<>>, n, o) : g \in {<<>>, G1}, n \in {1, 2, 3}, o \in {<<>>, <<"--min">>}}
  \cup {Cfg("top", g, FX, <<>>, n, o) : g \in {<<>>, G1}, n \in {1, 2}, o \in {<<"-a">>, <<"-a", "--min">>}}
  \cup {Cfg("top", G1, FX, <<>>, 2, <<"-o", "N">>), Cfg("top", G1, FXY, <<>>, 2, <<>>), Cfg("top", <<>>, FXY, <<>>, 2, <<"--min">>)}

\* ---- fraction: positive integers
RUfrac == { <<P("g", "a"), P("x", "1")>>, <<P("g", "a"), P("x", "3")>>, <<P("g", "b"), P("x", "2")>>, <<P("g", "b"), P("x", "4")>>,
            <<P("x", "4")>>, <<P("g", "a"), P("y", "1")>> }
CfgFrac == {Cfg("fraction", g, FX, <<>>, 0, o) : g \in {<<>>, G1}, o \in {<<>>, <<"-p">>, <<"-c">>, <<"-p", "-c">>}}
\* values of mixed sign: the running sum of -c goes down, through zero and back to zero before the total is reached
RUfracNeg == { <<P("g", "a"), P("x", "1")>>, <<P("g", "a"), P("x", "-1")>>, <<P("g", "a"), P("x", "4")>>, <<P("g", "b"), P("x", "2")>>,
               <<P("g", "b"), P("x", "-2")>> }

\* ---- histogram: integers, two bins of width 2.5 or 1.5 (no integer on the inner edge)
RUhist == { <<P("x", "-1")>>, <<P("x", "0")>>, <<P("x", "1")>>, <<P("x", "2")>>, <<P("x", "3")>>, <<P("x", "4")>>, <<P("x", "5")>>,
            <<P("x", "6")>>, <<P("y", "2")>>, <<P("x", "1"), P("y", "4")>> }
CfgHist ==
  {Cfg("histogram", <<>>, f, <<>>, 2, o) : f \in {FX, FXY},
      o \in {<<"--lo", "0", "--hi", "5">>, <<"--lo", "0", "--hi", "3">>, <<"--lo", "1", "--hi", "4">>}}
  \cup {Cfg("histogram", <<>>, FX, <<>>, 2, <<"--lo", "0", "--hi", "5", "-o", "p_">>)}

\* ---- fill-down, fill-empty
RUfill == { <<P("a", "1"), P("b", "2")>>, <<P("a", ""), P("b", "3")>>, <<P("b", "4")>>, <<P("a", "5")>>, <<P("a", ""), P("b", "")>>,
            <<P("b", ""), P("a", "7")>> }
FA == <<"a">>
FAB == <<"a", "b">>
CfgFill ==
  {Cfg("fill-down", <<>>, f, <<>>, 0, o) : f \in {FA, FAB}, o \in {<<>>, <<"-a">>}}
  \cup {Cfg("fill-down", <<>>, <<>>, <<>>, 0, <<"--all">>)}
  \cup {Cfg("fill-empty", <<>>, <<>>, <<>>, 0, o) : o \in {<<>>, <<"-v", "X">>, <<"-v", "0">>, <<"-S", "-v", "0">>}}

\* ---- group-by values containing the comma (and the empty text): the group of a record is the TUPLE of its group-by values, so
\* ("x,y","z") and ("x","y,z") are different groups whatever text an implementation joins them into.  (The engine renders DKVP
\* with ";" as field separator so that values may contain commas.)
RUsep == { <<P("g", "x,y"), P("h", "z"), P("x", "1")>>, <<P("g", "x"), P("h", "y,z"), P("x", "2")>>, <<P("g", "x,y"), P("h", "z"), P("x", "4")>>,
           <<P("g", "x"), P("h", "y"), P("x", "8")>>, <<P("g", ","), P("h", ""), P("x", "16")>>, <<P("g", ""), P("h", ","), P("x", "32")>>,
           <<P("g", "x"), P("x", "64")>> }
CfgSep ==
  { Cfg("count", G2, <<>>, <<>>, 0, <<>>), Cfg("count", G2, <<>>, <<>>, 0, <<"-n">>), Cfg("count-distinct", G2, <<>>, <<>>, 0, <<>>),
    Cfg("count-distinct", G2, <<>>, <<>>, 0, <<"-n">>), Cfg("uniq", G2, <<>>, <<>>, 0, <<"-c">>), Cfg("uniq", G2, <<>>, <<>>, 0, <<"-n">>),
    Cfg("count-similar", G2, <<>>, <<>>, 0, <<>>), Cfg("most-frequent", G2, <<>>, <<>>, 10, <<>>), Cfg("least-frequent", G2, <<>>, <<>>, 10, <<>>),
    Cfg("stats1", G2, FX, A1, 0, <<>>), Cfg("step", G2, FX, S6, 0, <<>>), Cfg("top", G2, FX, <<>>, 1, <<>>),
    Cfg("fraction", G2, FX, <<>>, 0, <<>>), Cfg("stats1", G2, FX, A1, 2, <<>>) }

\* ---- names and group values whose plain concatenations collide: value fields x and x2, groups 5, 25, 2 and the empty text
\* ("x" . "25" = "x2" . "5", "x" . "2" = "x2" . ""): an accumulator belongs to the PAIR (value field, group), whatever text an
\* implementation glues together to find it
RUglue == { <<P("g", "25"), P("x", "1"), P("x2", "10")>>, <<P("g", "5"), P("x", "2"), P("x2", "20")>>, <<P("g", "25"), P("x", "3"), P("x2", "30")>>,
            <<P("g", "5"), P("x", "4"), P("x2", "70")>>, <<P("g", "2"), P("x", "5"), P("x2", "50")>>, <<P("g", "5"), P("x2", "9")>>,
            <<P("g", "25"), P("x", "8")>> }
FXX2 == <<"x", "x2">>
CfgGlue == {Cfg("stats1", G1, f, a, 0, <<>>) : f \in {FXX2, <<"x2", "x">>}, a \in {A1, A3, A5}}

Configs == CfgGlue \cup CfgSep \cup CfgCnt \cup CfgStat \cup CfgPct \cup CfgDsl \cup CfgMerge \cup CfgMergeC \cup CfgStep \cup CfgWin \cup CfgTop \cup CfgFrac \cup CfgHist \cup CfgFill
Fam(cfgs, ru, ex, mx) == [cfgs |-> cfgs, ru |-> ru, ex |-> ex, mx |-> mx]
Families ==
  { Fam(CfgCnt, RUcnt, ExLen, MaxLen), Fam(CfgStat, RUstat, ExLen, MaxLen + 1), Fam(CfgPct, RUpct, ExLen, 6), Fam(CfgDsl, RUdsl, ExLen, 6),
    Fam(CfgMerge, RUmerge, ExLen, ExLen + 1), Fam(CfgMergeC, RUmergec, ExLen, ExLen + 1),
    Fam(CfgStep, RUint, ExLen, MaxLen + 1), Fam(CfgWin, RUint, ExLen, MaxLen + 1), Fam(CfgTop, RUint, ExLen, MaxLen + 1),
    Fam(CfgFrac, RUfrac, ExLen, MaxLen), Fam(CfgHist, RUhist, ExLen, MaxLen), Fam(CfgFill, RUfill, ExLen, MaxLen),
    Fam(CfgSep, RUsep, ExLen, MaxLen), Fam(CfgGlue, RUglue, ExLen, MaxLen + 2), Fam(CfgFrac, RUfracNeg, 3, 4) }
\* x is a case: a configuration of a family with a short stream or one of the sampled longer ones.  (An operator with a parameter,
\* enumerated by TLC as VerbsAggregateGen's initial states: a constant definition of the whole set would be evaluated, with all
\* its samples, by every module that extends this one.)
IsCase(x) ==
  \E F \in Families : \E c \in F.cfgs :
    \E s \in StreamsUpTo(F.ru, F.ex) \cup UNION {RandomSubset(Min2(NSample, Cardinality(F.ru) ^ l), [1..l -> F.ru]) : l \in (F.ex + 1)..F.mx} :
      x = [c |-> c, s |-> s]
=============================================================================
