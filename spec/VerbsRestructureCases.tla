------------------------ MODULE VerbsRestructureCases ------------------------
(* The bounded case space of C12: verb configurations x streams.  Per-record verbs see all streams of          *)
(* <= MaxLen1 records and three long heterogeneous streams; verbs emitting several records per record all      *)
(* streams of <= MaxLen1 + 1 records; whole-stream verbs (regularize, unsparsify, nest implode across records, *)
(* reshape long-to-wide) all streams of <= MaxLen records.                                                     *)
EXTENDS VerbsRestructure
CONSTANTS MaxLen, MaxLen1

P(k, v) == <<k, v>>
C(x) == <<x>>                \* a one-character value
E == <<>>                    \* the empty value
StreamsOver(U, n) == UNION {[1..l -> U] : l \in 0..n}

\* ---- general records over the field names a, b, c, d: permuted, sparse, with empty values
RU == { <<P("a", C("1")), P("b", C("2")), P("c", C("3"))>>,
        <<P("c", C("4")), P("a", C("5")), P("b", C("6"))>>,
        <<P("a", C("7")), P("b", C("8"))>>,
        <<P("b", C("3")), P("d", C("4"))>>,
        <<P("d", C("1")), P("c", C("2")), P("b", C("3")), P("a", C("4"))>>,
        <<P("a", E), P("b", C("2")), P("c", E)>>,
        <<P("d", C("9"))>>,
        <<P("b", E), P("a", C("1"))>> }
\* wide records: the ordered map behind a record switches to a hashed index at 12 fields (and the harness runs these
\* cases with --hash-records, --no-hash-records and neither): 14 fields, 14 reversed with empties, exactly 12, and 11
\* (which template / unsparsify -f / nest explode push over the threshold)
W1 == <<P("a", C("1")), P("b", C("2")), P("c", C("3")), P("d", C("4")), P("e", C("5")), P("f", C("6")), P("g", C("7")),
        P("h", C("8")), P("i", C("9")), P("j", C("0")), P("l", C("p")), P("m", C("q")), P("n", C("r")), P("o", C("s"))>>
W2 == <<P("o", E), P("n", C("r")), P("m", C("2")), P("l", C("p")), P("j", E), P("i", C("9")), P("h", C("8")),
        P("g", C("7")), P("f", C("6")), P("e", C("5")), P("d", C("4")), P("c", E), P("b", C("2")), P("a", C("1"))>>
W3 == <<P("c", C("3")), P("a", C("1")), P("e", C("5")), P("f", C("6")), P("g", C("7")), P("h", C("8")), P("i", C("9")),
        P("j", C("0")), P("l", C("p")), P("m", C("q")), P("n", C("r")), P("b", C("2"))>>
W4 == <<P("b", C("2")), P("e", C("5")), P("f", E), P("g", C("7")), P("h", C("8")), P("i", C("9")), P("j", C("0")),
        P("l", C("p")), P("m", C("q")), P("a", C("1")), P("c", C("3"))>>
WideStreams == {<<W1>>, <<W2>>, <<W3>>, <<W4>>, <<W1, W2, <<P("b", C("3")), P("d", C("4"))>>, W4, W3>>}

\* further shapes for the per-record verbs: one field, four fields all empty, four fields starting late in the alphabet
RX == { <<P("a", C("1"))>>,
        <<P("c", E), P("d", E), P("a", E), P("b", E)>>,
        <<P("b", C("2")), P("c", C("3")), P("d", C("4")), P("a", C("1"))>> }
\* per-record verbs: every stream of <= MaxLen1 records, and three long heterogeneous streams in which every shape
\* occurs before and after every other one and after itself (one mlr process judges 11..22 records)
Fwd == << <<P("a", C("1")), P("b", C("2")), P("c", C("3"))>>,
          <<P("c", C("4")), P("a", C("5")), P("b", C("6"))>>,
          <<P("a", C("7")), P("b", C("8"))>>,
          <<P("c", E), P("d", E), P("a", E), P("b", E)>>,
          <<P("b", C("3")), P("d", C("4"))>>,
          <<P("d", C("1")), P("c", C("2")), P("b", C("3")), P("a", C("4"))>>,
          <<P("a", C("1"))>>,
          <<P("a", E), P("b", C("2")), P("c", E)>>,
          <<P("d", C("9"))>>,
          <<P("b", C("2")), P("c", C("3")), P("d", C("4")), P("a", C("1"))>>,
          <<P("b", E), P("a", C("1"))>> >>
ASSUME SetOf(Fwd) = RU \cup RX
LongStreams == {Fwd, Rev(Fwd), Fwd \o Fwd}
Streams1 == StreamsOver(RU, MaxLen1) \cup StreamsOver(RX, 1) \cup LongStreams \cup WideStreams
StreamsM == StreamsOver(RU, MaxLen1 + 1) \cup WideStreams      \* verbs emitting several records per record
StreamsN == StreamsOver(RU, MaxLen) \cup WideStreams          \* whole-stream verbs

\* field lists: present / absent (z) / overlapping / repeated / all, in and out of record order
Fs == {<<"a">>, <<"b", "a">>, <<"a", "b">>, <<"c", "a", "c">>, <<"z">>, <<"a", "z", "d">>, <<"d", "b", "a", "c">>, <<"b", "b">>}
X == <<C("X")>>              \* an explicit fill value
None == <<>>                 \* fill option not given
RenLists == {<<"a", "x">>, <<"a", "b">>, <<"a", "a">>, <<"a", "x", "b", "y">>, <<"a", "b", "b", "a">>, <<"a", "x", "x", "y">>,
             <<"z", "x">>, <<"a", "x", "a", "y">>, <<"a", "x", "b", "x">>, <<"d", "x", "a", "y">>, <<"x", "a">>, <<"b", "x">>}
LabelLists == {<<"x">>, <<"x", "y">>, <<"b", "a">>, <<"x", "y", "z", "w", "u">>, <<"c">>, <<"d", "x">>, <<"a">>}

ConfigsGeneral1 ==           \* per-record verbs over Streams1
       {Cfg("cut", o, f, <<>>, None) : o \in {"-f", "-o", "-x", "-r", "-rx"}, f \in Fs}
  \cup {Cfg("template", "", f, <<>>, w) : f \in Fs, w \in {None, X}}
  \cup {Cfg("template", "", <<"b", "z", "a">>, <<>>, <<E>>)}
  \cup {Cfg("reorder", o, f, <<>>, None) : o \in {"", "-e"}, f \in Fs}
  \cup {Cfg("reorder", o, f, <<x>>, None) : o \in {"-b", "-a"}, f \in {<<"a">>, <<"c", "a">>, <<"a", "z", "d">>, <<"d", "d">>}, x \in {"b", "z"}}
  \cup {Cfg("rename", o, f, <<>>, None) : o \in {"", "-r", "-g"}, f \in RenLists}
  \cup {Cfg("label", "", f, <<>>, None) : f \in LabelLists}
  \cup {Cfg("sort-within-records", o, <<>>, <<>>, None) : o \in {"", "-r", "-n"}}
  \cup {Cfg("sort-within-records", "-f", f, <<>>, None) : f \in {<<"a">>, <<"c", "a">>, <<"b", "z", "d">>, <<"a", "b", "c", "d">>}}
  \cup {Cfg("sparsify", "", <<>>, <<>>, w) : w \in {None, <<C("2")>>, <<E>>}}
  \cup {Cfg("sparsify", "-f", f, <<>>, w) : f \in {<<"a">>, <<"c", "a">>, <<"z", "b">>}, w \in {None, <<C("2")>>}}
  \cup {Cfg("fill-empty", o, <<>>, <<>>, w) : o \in {"", "-S"}, w \in {None, X, <<C("0")>>}}
  \cup {Cfg("unsparsify-f", "", f, <<>>, w) : f \in {<<"a">>, <<"z", "a", "z", "c">>, <<"b", "d">>, <<"z">>}, w \in {None, X}}
  \cup {Cfg("altkv", "", <<>>, <<>>, None)}
ConfigsGeneralM ==           \* several records per record, over StreamsM (and unsparsify --fill-with '' once more)
       {Cfg("unsparsify", "", <<>>, <<>>, <<E>>)} \cup
       {Cfg("reshape-w2l", o, f, <<"k", "v">>, None) : o \in {"-i", "-r"},
          f \in {<<"a">>, <<"a", "b">>, <<"b", "a">>, <<"c", "z">>, <<"a", "a">>, <<"z">>, <<"d", "c", "b", "a">>, <<"b", "c">>}}
ConfigsGeneralN ==           \* whole-stream verbs over StreamsN
       {Cfg("regularize", "", <<>>, <<>>, None)}
  \cup {Cfg("unsparsify", "", <<>>, <<>>, w) : w \in {None, X}}

\* ---- unspace: keys and values with spaces; the third record collides under the default filler
URU == { <<P("a b", <<"c", " ", "d">>), P("e", C("f"))>>,
         <<P("a", <<"x", " ", " ", "y">>)>>,
         <<P("a b", C("1")), P("a_b", C("2"))>>,
         <<P("d", <<"p", " ">>), P("a b", E)>> }
ConfigsUnspace == {Cfg("unspace", o, <<>>, <<>>, w) : o \in {"", "-k", "-v"}, w \in {None, X}}

\* ---- sec2gmt: integer seconds of the table, non-numbers, empty
T1234567890 == <<"1", "2", "3", "4", "5", "6", "7", "8", "9", "0">>
SRU == { <<P("a", C("0")), P("b", C("x")), P("c", T1234567890)>>,
         <<P("b", C("0")), P("d", E)>>,
         <<P("c", <<"y", "z">>), P("a", T1234567890)>> }
ConfigsSec2gmt == {Cfg("sec2gmt", o, f, <<>>, None) : o \in {"", "dsl"}, f \in {<<"a">>, <<"a", "c">>, <<"z", "b">>, <<"c", "a", "c">>}}

\* ---- case: letters in keys and values; the third record collides under -u -k
CRU == { <<P("a", <<"p", "Q">>), P("b", C("x"))>>,
         <<P("B", C("X")), P("a", C("1")), P("d", <<"q", " ", "p">>)>>,
         <<P("a", C("1")), P("A", C("2"))>>,
         <<P("D", E), P("c", <<"P", "q">>)>> }
ConfigsCase == {Cfg("case", o, f, p, None) : o \in {"-u", "-l"}, p \in {<<>>, <<"-k">>, <<"-v">>},
                                              f \in {<<>>, <<"a">>, <<"b", "a", "z">>, <<"B", "D", "d">>}}

\* ---- nest: values of field a are pieces joined by the nested field separator; pairs by the pair separator
Seps == {<<";", ":">>, <<"|", "/">>}          \* the documented defaults, and explicit --nested-fs/--nested-ps
Pair(k, v, ps) == k \o <<ps>> \o v
NV(fs) == { <<P("a", Join(<<C("p"), C("q")>>, fs)), P("b", C("1"))>>,
            <<P("b", C("2")), P("a", C("r")), P("c", C("3"))>>,
            <<P("a", Join(<<<<"p", "q">>, C("r"), C("p")>>, fs))>>,
            <<P("b", C("1")), P("c", C("2"))>>,
            <<P("c", C("5")), P("a", Join(<<C("q"), C("p")>>, fs))>>,
            <<P("a", C("s")), P("b", C("1"))>> }
NP(fs, ps) == { <<P("a", Join(<<Pair(C("p"), C("1"), ps), Pair(C("q"), C("2"), ps)>>, fs)), P("b", C("1"))>>,
                <<P("b", C("2")), P("a", Pair(C("r"), C("3"), ps)), P("c", C("3"))>>,
                <<P("a", Join(<<Pair(C("p"), C("1"), ps), Pair(<<"q", "r">>, E, ps), Pair(C("s"), <<"3", "4">>, ps)>>, fs))>>,
                <<P("b", C("1")), P("c", C("2"))>>,
                <<P("c", C("5")), P("a", Pair(C("q"), C("7"), ps))>> }
\* wide companions: field a in the middle of 13 / at the end of 12 fields
WideOthers == SubSeq(W1, 2, 7)
WideTail == SubSeq(W1, 8, 14)
NVW(fs) == { <<WideOthers \o <<P("a", Join(<<C("p"), C("q"), C("r")>>, fs))>> \o WideTail>>,
             <<SubSeq(W4, 1, 9) \o <<P("c", C("3")), P("d", E)>> \o <<P("a", Join(<<C("q"), C("p")>>, fs))>>,
               <<P("a", C("s")), P("b", C("1"))>>>> }
NPW(fs, ps) == { <<WideOthers \o <<P("a", Join(<<Pair(C("p"), C("1"), ps), Pair(C("q"), C("2"), ps)>>, fs))>> \o WideTail>>,
                 <<<<P("a", Join(<<Pair(C("x"), C("1"), ps), Pair(C("y"), E, ps), Pair(C("z"), C("3"), ps)>>, fs))>> \o SubSeq(W4, 1, 9),
                   <<P("b", C("1")), P("c", C("2"))>>>> }
NestFs == {<<"a">>, <<"z">>}
ExplodeRecordsCases ==
       UNION {{[c |-> Cfg("nest-explode-records", o, f, p, None), s |-> s] :
                 o \in {"explode-values-records", "evar"}, f \in NestFs, s \in StreamsOver(NV(p[1]), MaxLen1 + 1) \cup NVW(p[1])} : p \in Seps}
  \cup UNION {{[c |-> Cfg("nest-explode-records", "explode-pairs-records", f, p, None), s |-> s] :
                 f \in NestFs, s \in StreamsOver(NP(p[1], p[2]), MaxLen1 + 1) \cup NPW(p[1], p[2])} : p \in Seps}
\* implode across fields: what explode produces, and fields out of sequence / apart / with a gap
OddExploded == { <<P("a_1", C("p")), P("b", C("1")), P("a_2", C("q"))>>,
                 <<P("a_2", C("p")), P("a_1", C("q"))>>,
                 <<P("a_1", C("p")), P("a_3", C("q")), P("c", C("2"))>>,
                 <<P("c", C("2")), P("a_1", C("p")), P("a_2", C("q")), P("a_3", C("r")), P("b", C("1"))>> }
NestFieldsCases ==
       UNION {{[c |-> Cfg("nest-fields", "explode-values-fields", f, p, None), s |-> s] :
                 f \in NestFs, s \in StreamsOver(NV(p[1]), MaxLen1 + 1) \cup NVW(p[1])} : p \in Seps}
  \cup UNION {{[c |-> Cfg("nest-fields", "explode-pairs-fields", f, p, None), s |-> s] :
                 f \in NestFs, s \in StreamsOver(NP(p[1], p[2]), MaxLen1 + 1) \cup NPW(p[1], p[2])} : p \in Seps}
  \cup UNION {{[c |-> Cfg("nest-fields", "implode-values-fields", <<"a">>, p, None),
                s |-> Expected(Cfg("nest-fields", "explode-values-fields", <<"a">>, p, None), s)] :
                 s \in StreamsOver(NV(p[1]), MaxLen1 + 1) \cup NVW(p[1])} : p \in Seps}
  \cup {[c |-> Cfg("nest-fields", "implode-values-fields", f, <<";", ":">>, None), s |-> s] :
                 f \in NestFs, s \in StreamsOver(OddExploded, MaxLen1 + 1)}
\* implode across records: what explode produces, and hand-made streams (same other fields at a distance, field
\* a at another position, records without a)
IW(x) == WideOthers \o <<P("a", C(x))>> \o WideTail
IRW == { <<IW("p"), IW("q")>>, <<IW("p"), <<P("a", C("r")), P("b", C("2"))>>, W3, IW("q"), <<P("a", C("s"))>> \o SubSeq(W3, 3, 12)>> }
IRU == { <<P("a", C("p")), P("b", C("1"))>>, <<P("a", C("q")), P("b", C("1"))>>, <<P("a", C("r")), P("b", C("2"))>>,
         <<P("b", C("1"))>>, <<P("b", C("1")), P("a", C("s"))>>, <<P("a", C("p")), P("b", C("1")), P("c", C("2"))>> }
ImplodeRecordsCases ==
       UNION {{[c |-> Cfg("nest-implode-records", o, <<"a">>, p, None),
                s |-> Expected(Cfg("nest-explode-records", "explode-values-records", <<"a">>, p, None), s)] :
                 o \in {"implode-values-records", "ivar"}, s \in StreamsOver(NV(p[1]), MaxLen1 + 1) \cup NVW(p[1])} : p \in Seps}
  \cup {[c |-> Cfg("nest-implode-records", "implode-values-records", f, p, None), s |-> s] :
                 f \in NestFs, p \in Seps, s \in StreamsOver(IRU, MaxLen) \cup IRW}

\* ---- reshape long-to-wide: key field c, value field d; rectangular and ragged groups, repeated keys, records
\* lacking the key or the value field, groups differing in the order of their other fields
LRU == { <<P("a", C("1")), P("c", C("5")), P("d", C("1"))>>, <<P("a", C("1")), P("c", C("6")), P("d", C("2"))>>,
         <<P("a", C("2")), P("c", C("5")), P("d", C("3"))>>, <<P("a", C("2")), P("c", C("6")), P("d", C("4"))>>,
         <<P("a", C("1"))>>, <<P("c", C("5")), P("d", C("7"))>>,
         <<P("a", C("1")), P("b", C("1")), P("c", C("5")), P("d", C("8"))>>, <<P("a", C("1")), P("c", C("5"))>>,
         <<P("c", C("6")), P("a", C("1")), P("d", C("9"))>>, <<P("b", C("1")), P("a", C("1")), P("c", C("6")), P("d", E)>> }
LW(k, v) == SubSeq(W1, 5, 14) \o <<P("a", C("1")), P("b", C("2"))>> \o <<P("c", C(k)), P("d", C(v))>>
LRW == { <<LW("5", "1"), LW("6", "2")>>,
         <<LW("5", "1"), <<P("a", C("1")), P("c", C("5")), P("d", C("1"))>>, LW("6", "2"), <<P("a", C("1")), P("c", C("6")), P("d", C("2"))>>>> }
LRUCore == {r \in LRU : r[1][1] = "a" /\ Len(r) = 3} \cup {<<P("a", C("1"))>>}      \* the rectangular core and a pass-through
L2W == Cfg("reshape-l2w", "-s", <<>>, <<"c", "d">>, None)
L2WCases ==
       {[c |-> L2W, s |-> s] : s \in StreamsOver(LRU, IF MaxLen > 3 THEN 3 ELSE MaxLen) \cup StreamsOver(LRUCore, MaxLen) \cup LRW}
  \cup {[c |-> Cfg("reshape-l2w", "-s", <<>>, <<"k", "v">>, None),
         s |-> Expected(Cfg("reshape-w2l", "-i", f, <<"k", "v">>, None), s)] : f \in {<<"a", "b">>, <<"b">>}, s \in StreamsM}

\* ---- two verbs chained (the second works on the records the first left behind)
Chain(name) == Cfg("chain", name, <<>>, <<>>, None)
ChainCases ==
       {[c |-> Chain(n), s |-> s] : s \in Streams1,
          n \in {"rename-back", "rename-cut", "rename-r-reorder", "rename-sort", "reorder-rename", "reorder-cut", "cut-template",
                 "label-rename", "unsparsify-sparsify", "template-reorder"}}
  \cup {[c |-> Chain(n), s |-> s] : s \in StreamsM, n \in {"reshape-back", "reshape-cut", "unsparsify-regularize"}}
  \cup {[c |-> Chain(n), s |-> s] : s \in StreamsOver(NV(";"), MaxLen1 + 1) \cup NVW(";"),
          n \in {"nest-fields-back", "nest-records-back", "nest-fields-rename"}}
  \cup {[c |-> Chain("nest-pairs-cut"), s |-> s] : s \in StreamsOver(NP(";", ":"), MaxLen1 + 1) \cup NPW(";", ":")}

Cases ==
       {[c |-> c, s |-> s] : c \in ConfigsGeneral1, s \in Streams1}
  \cup {[c |-> c, s |-> s] : c \in ConfigsGeneralM, s \in StreamsM}
  \cup {[c |-> c, s |-> s] : c \in ConfigsGeneralN, s \in StreamsN}
  \cup {[c |-> c, s |-> s] : c \in ConfigsUnspace, s \in StreamsOver(URU, MaxLen1 + 1)}
  \cup {[c |-> c, s |-> s] : c \in ConfigsSec2gmt, s \in StreamsOver(SRU, MaxLen1 + 1)}
  \cup {[c |-> c, s |-> s] : c \in ConfigsCase, s \in StreamsOver(CRU, MaxLen1 + 1)}
  \cup ExplodeRecordsCases \cup NestFieldsCases \cup ImplodeRecordsCases \cup L2WCases \cup ChainCases

=============================================================================
