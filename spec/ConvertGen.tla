----------------------------- MODULE ConvertGen -----------------------------
(* Emits the cases of C02, one family per run. *)
EXTENDS ConvertCases, Json
CONSTANT Family
VARIABLE x
Init ==
  CASE Family = "nested" -> x \in {[r |-> r, ne |-> NoEmptyValues(<<Flatten(Dot, r)>>), shape |-> KeysOf(Flatten(Dot, r)),
                                    dom |-> InLawDomain(Dot, r)] : r \in NestedRecs}
    [] Family = "sepkeys" -> x \in {[r |-> r, ne |-> TRUE, shape |-> KeysOf(Flatten(<<"|">>, r)), dom |-> FALSE] : r \in SepKeyRecs}
    [] Family = "pairs" -> x \in Pairs
    [] Family = "triples" -> x \in Triples
    [] Family = "flags" -> x \in {[e |-> e, probe |-> Probe(e.probe)] : e \in Entries}
Next == UNCHANGED x
Emit == PrintT(ToJson(x))
=============================================================================
