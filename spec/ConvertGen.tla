----------------------------- MODULE ConvertGen -----------------------------
(* Emits the cases of C02, one family per run.  The family is cut into slices (one initial state each) only so   *)
(* that TLC's workers share the enumeration.                                                                     *)
EXTENDS ConvertCases, Json
CONSTANTS Family, Slices
VARIABLES x, p, go

RECURSIVE H(_)
H(v) == IF IsS(v) THEN (IF v[2] = "" THEN 1 ELSE 2)
        ELSE IF IsA(v) THEN (5 + Len(v[2]) + 7 * (IF Len(v[2]) >= 1 THEN H(v[2][1]) ELSE 0) + 11 * (IF Len(v[2]) >= 2 THEN H(v[2][2]) ELSE 0)) % 1009
        ELSE (3 + Len(v[2]) + 13 * (IF Len(v[2]) >= 1 THEN H(v[2][1][2]) + Len(v[2][1][1]) ELSE 0)
                + 17 * (IF Len(v[2]) >= 2 THEN H(v[2][2][2]) + Len(v[2][2][1]) ELSE 0)) % 1009
\* ne: no empty value (XTAB, PPRINT, markdown can carry it); shape: the flattened key list (equal shapes may share a CSV);
\* dom: inside the domain of the identity law; seps: the separators under which flattening gives distinct, clash-free names
\* je: flattens to a single empty value (no line-oriented format with a header can carry it)
Nested(r) == [r |-> r, ne |-> NoEmptyValues(<<Flatten(Dot, r)>>), je |-> ~NotJustEmpty(<<Flatten(Dot, r)>>), shape |-> KeysOf(Flatten(<<"|">>, r)), dom |-> InLawDomain(Dot, r),
              seps |-> {sep \in Seps : DistinctKeys(Flatten(sep, r)) /\ ~Clash(sep, Flatten(sep, r))}]
Slots == CASE Family \in {"pairs", "triples"} -> Formats
           [] Family \in {"nested", "sepkeys"} -> 0..(Slices - 1)
           [] Family = "flags" -> {0}
CasesFor(q) ==
  CASE Family = "nested" -> {Nested(r) : r \in {rr \in NestedRecs : H(M(rr)) % Slices = q}}
    [] Family = "sepkeys" -> {Nested(r) : r \in {rr \in SepKeyRecs : H(M(rr)) % Slices = q}}
    [] Family = "pairs" -> PairsFrom(q)
    [] Family = "triples" -> TriplesFrom(q)
    [] Family = "flags" -> {[e |-> e, probe |-> Probe(e.probe)] : e \in Entries}
Init == p \in Slots /\ go = FALSE /\ x = 0
Next == ~go /\ go' = TRUE /\ p' = p /\ x' \in CasesFor(p)
Emit == ~go \/ PrintT(ToJson(x))
=============================================================================
