SPECIFICATION Spec
CONSTANT Texts = {"0xff", "1.50", "abc", ""}
INVARIANTS PassThrough TextStable
