-------------------------- MODULE VerbsRestructureGen --------------------------
EXTENDS VerbsRestructureCases, Json
VARIABLE x
Init == x \in Cases
Next == UNCHANGED x
\* parts: the verb configurations the harness spells, joined by `then` (one, or the two of a chain)
Emit == PrintT(ToJson([c |-> x.c, s |-> x.s, parts |-> Parts(x.c)]))
=============================================================================
