-------------------------- MODULE VerbsRestructureGen --------------------------
EXTENDS VerbsRestructureCases, Json
VARIABLE x
Init == x \in Cases
Next == UNCHANGED x
Emit == PrintT(ToJson(x))
=============================================================================
