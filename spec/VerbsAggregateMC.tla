--------------------------- MODULE VerbsAggregateMC ---------------------------
(***************************************************************************)
(* The laws of C10 on the specification itself, over every stream of at most *)
(* MaxLen records of each family's record universe:                          *)
(*  - groups are emitted in first-appearance order;                          *)
(*  - a record lacking a group-by or value field is left out of that         *)
(*    accumulation only;                                                     *)
(*  - sums / min / max of integers are integer texts;                        *)
(*  - counts over all groups add up to the number of contributing records;   *)
(* and relations between the definitions (percentiles monotone, p0 = min,    *)
(* p100 = max, median = p50, mode is a most frequent value, last running sum *)
(* = sum, last counter = count, shift/shift_lead inverse, deltas telescope,  *)
(* top -n 1 = max, most-frequent -n 1 = mode, fill-down idempotent,          *)
(* histogram and fraction totals), plus the sanity that every pattern        *)
(* accepts its own realisations.                                             *)
(***************************************************************************)
EXTENDS VerbsAggregateCases
VARIABLE x
\* the streams of a family grow record by record (so that TLC's workers share the tree of streams)
Fams == {"cnt", "stat", "int", "merge", "mergec", "frac", "hist", "fill", "pct", "dsl"}
RUof(f) == CASE f = "cnt" -> RUcnt [] f = "stat" -> RUstat [] f = "int" -> RUint [] f = "merge" -> RUmerge [] f = "mergec" -> RUmergec
             [] f = "frac" -> RUfrac [] f = "hist" -> RUhist [] f = "fill" -> RUfill [] f = "pct" -> RUpct [] f = "dsl" -> RUdsl
LenOf(f) == IF f \in {"merge", "mergec"} THEN MaxLen - 1 ELSE MaxLen
Init == x \in {[fam |-> f, s |-> <<>>] : f \in Fams}
Next == Len(x.s) < LenOf(x.fam) /\ \E r \in RUof(x.fam) : x' = [fam |-> x.fam, s |-> Append(x.s, r)]

\* ---- reading numbers back out of a pattern
FieldOf(rp, k) == PatGet(OnePat(rp), k)[2]
NumField(rp, k) == NumOf[FieldOf(rp, k)]
SumOver(pat, k) == LET F[i \in 0..Len(pat)] == IF i = 0 THEN 0 ELSE F[i - 1] + NumField(pat[i], k) IN F[Len(pat)]
Keyed(s, g) == SelIdx(s, LAMBDA i : HasAll(s[i], g))
FirstIdxOf(s, g, k) == CHOOSE i \in 1..Len(s) : InGroup(s, g, k, i) /\ \A j \in 1..(i - 1) : ~InGroup(s, g, k, j)

\* every pattern accepts what it describes, with everything written and with everything optional left out
SelfAccepting(c, s) ==
  LET pat == Pattern(c, s) IN pat # <<>> => Allowed(c, s, Realize(pat, "7")) /\ Allowed(c, s, RealizeMin(pat))

\* ---- groups
FirstAppearance(s, g) ==
  LET ks == GroupKeys(s, g) IN
  /\ \A n, m \in 1..Len(ks) : n < m => ks[n] # ks[m] /\ FirstIdxOf(s, g, ks[n]) < FirstIdxOf(s, g, ks[m])
  /\ \A i \in 1..Len(s) : HasAll(s[i], g) => \E n \in 1..Len(ks) : ks[n] = GroupKey(s[i], g)
  /\ GroupKeysBy(s, g, <<>>, "keyed") = ks

LawsCnt(s) ==
  /\ \A c \in CfgCnt : SelfAccepting(c, s)
  /\ \A g \in {G1, G2, G2r} :
       LET cnt == ExpCount(Cfg("count", g, <<>>, <<>>, 0, <<>>), s)
           cd == ExpCountDistinct(Cfg("count-distinct", g, <<>>, <<>>, 0, <<>>), s)
           uc == ExpUniq(Cfg("uniq", g, <<>>, <<>>, 0, <<"-c">>), s)
           un == ExpUniq(Cfg("uniq", g, <<>>, <<>>, 0, <<"-n">>), s)
           cn == ExpCount(Cfg("count", g, <<>>, <<>>, 0, <<"-n">>), s)
           nkeyed == Len(Keyed(s, g))
       IN /\ FirstAppearance(s, g)
          /\ SumOver(cnt, "count") = nkeyed                      \* counts add up to the contributing records
          /\ cd = cnt /\ uc = cnt                                \* "Same as uniq -c"
          /\ NumField(un[1], "count") = Len(cnt) /\ cn = un
          /\ cnt = ExpCount(Cfg("count", g, <<>>, <<>>, 0, <<>>), Keyed(s, g))    \* records lacking a group-by field change nothing
          /\ \A n \in 1..Len(cnt) : NumField(cnt[n], "count") >= 1
          \* count-similar: the grouped records, each with its group's count
          /\ LET cs == [n \in 1..Len(Grouped(s, g)) |-> Grouped(s, g)[n] \o <<<<"count", ToString(GroupCount(s, g, GroupKey(Grouped(s, g)[n], g)))>>>>]
             IN /\ AllowedCountSimilar(Cfg("count-similar", g, <<>>, <<>>, 0, <<>>), s, cs)
                /\ Len(cs) = nkeyed
                /\ (nkeyed > 0 => ~AllowedCountSimilar(Cfg("count-similar", g, <<>>, <<>>, 0, <<>>), s, Tail(cs)))
  /\ NumField(ExpCount(Cfg("count", <<>>, <<>>, <<>>, 0, <<>>), s)[1], "count") = Len(s)
  \* unlashed counts add up per field
  /\ LET u == ExpCountDistinct(Cfg("count-distinct", G2, <<>>, <<>>, 0, <<"-u">>), s) IN
     \A f \in {"g", "h"} : SumOver(SelIdx(u, LAMBDA n : FieldOf(u[n], "field") = f), "count") = Cardinality({i \in 1..Len(s) : Has(s[i], f)})
  \* most-frequent -n 1 is the mode of the key texts, least-frequent -n 1 the antimode (first found wins is one of the allowed ties)
  /\ LET vs == Vals(s, <<>>, <<>>, "g") IN
     vs # <<>> =>
       /\ AllowedFrequent(Cfg("most-frequent", G1, <<>>, <<>>, 1, <<>>), s, << <<<<"g", Mode(vs)>>, <<"count", ToString(GroupCount(s, G1, <<Mode(vs)>>))>>>> >>)
       /\ AllowedFrequent(Cfg("least-frequent", G1, <<>>, <<>>, 1, <<"-b">>), s, << <<<<"g", AntiMode(vs)>>>> >>)
       /\ ~AllowedFrequent(Cfg("most-frequent", G1, <<>>, <<>>, 1, <<>>), s, <<>>)
  \* the complete frequency table in first-appearance order is allowed exactly when it happens to be sorted
  /\ LET tab == RealizeMin(ExpCount(Cfg("count", G1, <<>>, <<>>, 0, <<>>), s)) IN
     AllowedFrequent(Cfg("most-frequent", G1, <<>>, <<>>, 10, <<>>), s, tab)
       <=> \A n, m \in 1..Len(tab) : n < m => NumOf[tab[n][2][2]] >= NumOf[tab[m][2][2]]

\* ---- stats1
S1c(g, f, a) == Cfg("stats1", g, f, a, 0, <<>>)
WithoutLacking(s, f) == SelIdx(s, LAMBDA i : Has(s[i], f))
LawsStat(s) ==
  /\ \A c \in CfgStat : SelfAccepting(c, s)
  /\ \A g \in {<<>>, G1} :
       LET pat == ExpStats1(S1c(g, FX, A1 \o A2 \o A3 \o <<Pct(0), Pct(100)>>), s, "keyed")
           ks == GroupKeys(s, g)
       IN /\ Len(pat) = Len(ks)
          \* counts add up to the contributing records; count + null_count = records of the group having the field
          /\ SumOver(pat, "x_count") = Cardinality({i \in 1..Len(s) : HasAll(s[i], g) /\ Has(s[i], "x") /\ Get(s[i], "x") # ""})
          /\ \A n \in 1..Len(ks) :
               LET vs == Vals(s, g, ks[n], "x")  b == Bag(vs)  F(k) == FieldOf(pat[n], k) IN
               /\ NumOf[F("x_count")] + NumOf[F("x_null_count")] = Len(vs)
               /\ NumOf[F("x_distinct_count")] <= NumOf[F("x_count")]
               /\ b # <<>> =>
                    /\ \A i \in 1..Len(b) : Mult(b, i) <= Cardinality({j \in 1..Len(b) : b[j] = F("x_mode")})
                    /\ \A i \in 1..Len(b) : Mult(b, i) >= Cardinality({j \in 1..Len(b) : b[j] = F("x_antimode")})
                    \* first found wins: no value met before the mode is as frequent, none met before the antimode as rare
                    /\ LET fm == CHOOSE i \in 1..Len(b) : b[i] = F("x_mode") /\ \A j \in 1..(i - 1) : b[j] # b[i]
                           fa == CHOOSE i \in 1..Len(b) : b[i] = F("x_antimode") /\ \A j \in 1..(i - 1) : b[j] # b[i]
                       IN (\A j \in 1..(fm - 1) : Mult(b, j) < Mult(b, fm)) /\ (\A j \in 1..(fa - 1) : Mult(b, j) > Mult(b, fa))
               /\ (b # <<>> /\ OneText(b)) =>
                    /\ \A i \in 1..Len(b) : LeV(F("x_min"), b[i]) /\ LeV(b[i], F("x_max"))
                    /\ F("x_p0") = F("x_min") /\ F("x_p100") = F("x_max") /\ F("x_median") = F("x_p50")
                    /\ LeV(F("x_p0"), F("x_p10")) /\ LeV(F("x_p10"), F("x_p25")) /\ LeV(F("x_p25"), F("x_p50"))
                    /\ LeV(F("x_p50"), F("x_p75")) /\ LeV(F("x_p75"), F("x_p90")) /\ LeV(F("x_p90"), F("x_p100"))
                    /\ \E i \in 1..Len(b) : b[i] = F("x_p25")
               \* sums / min / max of integers are integer texts
               /\ (b # <<>> /\ AllNum(b)) => IsNum(F("x_sum")) /\ IsNum(F("x_min")) /\ IsNum(F("x_max"))
                                              /\ NumOf[F("x_min")] <= NumOf[F("x_max")]
                                              /\ NumOf[F("x_min")] * Len(b) <= NumOf[F("x_sum")] /\ NumOf[F("x_sum")] <= NumOf[F("x_max")] * Len(b)
          \* records lacking a group-by field change nothing
          /\ pat = ExpStats1(S1c(g, FX, A1 \o A2 \o A3 \o <<Pct(0), Pct(100)>>), Keyed(s, g), "keyed")
  \* a record lacking one value field is left out of that accumulation only: the x fields do not depend on the records without x
  \* (for the groups that remain), the y fields do not depend on the records without y
  /\ \A f \in {"x", "y"} :
       LET full == ExpStats1(S1c(G1, FXY, A1), s, "keyed")
           part == ExpStats1(S1c(G1, FXY, A1), WithoutLacking(s, f), "keyed")
           same(a, b) == \A k \in {f \o "_count", f \o "_sum", f \o "_min", f \o "_max"} : PatGet(OnePat(a), k) = PatGet(OnePat(b), k)
       IN \A n \in 1..Len(part) : \E m \in 1..Len(full) : FieldOf(full[m], "g") = FieldOf(part[n], "g") /\ same(full[m], part[n])
  \* mean * count = sum where the mean is an integer
  /\ LET pat == ExpStats1(S1c(<<>>, FX, Accs(<<"mean", "sum", "count">>)), s, "keyed") IN
     \A n \in 1..Len(pat) : LET p == OnePat(pat[n]) IN
        (PatGet(p, "x_mean")[3] = "req" /\ IsNum(PatGet(p, "x_mean")[2])) => NumOf[PatGet(p, "x_mean")[2]] * NumOf[PatGet(p, "x_count")[2]] = NumOf[PatGet(p, "x_sum")[2]]

\* ---- the percentile index on its own: every p in 0..100, n in 1..6
PctLaws ==
  \A n \in 1..6 :
    /\ PctIndex(0, n) = 0 /\ PctIndex(100, n) = n - 1
    /\ \A p \in 0..99 : PctIndex(p, n) <= PctIndex(p + 1, n) /\ PctIndex(p + 1, n) - PctIndex(p, n) <= 1
    /\ \A p \in 0..100 : PctIndex(p, n) \in 0..(n - 1) /\ (p < 100 => 100 * PctIndex(p, n) <= p * n /\ p * n < 100 * (PctIndex(p, n) + 1))
LawsPct(s) ==
  /\ \A c \in CfgPct : SelfAccepting(c, s)
  /\ LET b == Bag(Vals(s, <<>>, <<>>, "x")) IN
     (b # <<>> /\ OneText(b)) =>
        /\ \A p \in 0..99 : LeV(Percentile(b, p), Percentile(b, p + 1))
        /\ \A k \in 0..(Len(b) - 2) : LeV(SortedAt(b, k), SortedAt(b, k + 1))
        /\ \A i \in 1..Len(b) : \E k \in 0..(Len(b) - 1) : SortedAt(b, k) = b[i]

\* ---- the DSL functions agree with stats1 on collections without empty values, and count = count + null_count otherwise
LawsDsl(s) ==
  /\ \A c \in CfgDsl : SelfAccepting(c, s)
  /\ LET accs == A1 \o A2 \o A3 \o Accs(<<"minlen", "maxlen", "mean">>)
         d == OnePat(ExpDsl(Cfg("dsl-stats", <<>>, FX, accs, 0, <<>>), s)[1])
         st == ExpStats1(S1c(<<>>, FX, accs), s, "keyed")
         vs == Vals(s, <<>>, <<>>, "x")
     IN /\ Len(d) = Len(accs)
        /\ (Len(vs) >= 2 /\ NoEmpty(vs)) => \A n \in 1..Len(accs) :
              LET k == AccName(accs[n]) IN
              (k \notin {"min", "max"} /\ d[n][3] = "req") => PatGet(OnePat(st[1]), "x_" \o k) = Req("x_" \o k, d[n][2])
        /\ st # <<>> => NumOf[PatGet(d, "count")[2]] = NumOf[FieldOf(st[1], "x_count")] + NumOf[FieldOf(st[1], "x_null_count")]

\* ---- step, top (integer data)
StepC(g, a) == Cfg("step", g, FX, a, 0, <<>>)
SkipRd == [lag |-> "skip", ff |-> "from_first"]
LitRd == [lag |-> "literal", ff |-> "from_first"]
LawsInt(s) ==
  /\ \A c \in CfgStep \cup CfgWin \cup {c \in CfgTop : ~HasOpt(c, "-a")} : SelfAccepting(c, s)
  \* a window at least as long as the stream: the last record of each group carries the whole-stream statistics; the two
  \* readings of the window agree when no record of a group lacks the field
  /\ \A g \in {<<>>, G1} :
       LET cw == Cfg("stats1", g, FX, A1, Len(s) + 1, <<>>)
           w == ExpStats1W(cw, s, "records")
           st == ExpStats1(S1c(g, FX, A1), s, "keyed")
       IN /\ Len(w) = Len(s)
          /\ ~Gap(cw, s) => ExpStats1W(cw, s, "contributing") = w
          /\ \A i \in 1..Len(s) : (HasAll(s[i], g) /\ \A j \in (i + 1)..Len(s) : ~SameGroup(s, g, i, j)) =>
               \E n \in 1..Len(st) : (g = <<>> \/ FieldOf(st[n], "g") = Get(s[i], "g"))
                  /\ \A k \in {"x_count", "x_sum"} : FieldOf(st[n], k) = FieldOf(w[i], k)
  /\ \A g \in {<<>>, G1} :
       LET all == Accs(<<"counter", "rsum", "shift", "shift_lead", "delta", "from-first", "rprod">>)
           pat == ExpStep(StepC(g, all), s, SkipRd)
           st == ExpStats1(S1c(g, FX, A1), s, "keyed")
           has(i) == HasAll(s[i], g) /\ Has(s[i], "x")
           F(i, k) == FieldOf(pat[i], k)
           nextOf(i) == {j \in (i + 1)..Len(s) : has(j) /\ SameGroup(s, g, i, j) /\ \A m \in (i + 1)..(j - 1) : ~(has(m) /\ SameGroup(s, g, i, m))}
       IN /\ Len(pat) = Len(s)
          \* a record lacking the group-by or the value field is passed along untouched
          /\ \A i \in 1..Len(s) : ~has(i) => OnePat(pat[i]) = AsReq(s[i])
          /\ \A i \in 1..Len(s) : has(i) =>
               /\ Len(OnePat(pat[i])) = Len(s[i]) + Len(all)
               \* shift and shift_lead are inverse to each other; deltas telescope to from-first; the last of a group closes the totals
               /\ \A j \in nextOf(i) : F(i, "x_shift_lead") = Get(s[j], "x") /\ F(j, "x_shift") = Get(s[i], "x")
                                       /\ NumOf[F(j, "x_counter")] = NumOf[F(i, "x_counter")] + 1
                                       /\ NumOf[F(j, "x_rsum")] = NumOf[F(i, "x_rsum")] + NumOf[Get(s[j], "x")]
                                       /\ NumOf[F(j, "x_from_first")] = NumOf[F(i, "x_from_first")] + NumOf[F(j, "x_delta")]
               /\ nextOf(i) = {} =>
                    /\ F(i, "x_shift_lead") = ""
                    /\ \E n \in 1..Len(st) : (g = <<>> \/ FieldOf(st[n], "g") = Get(s[i], "g"))
                                              /\ FieldOf(st[n], "x_count") = F(i, "x_counter") /\ FieldOf(st[n], "x_sum") = F(i, "x_rsum")
               /\ F(i, "x_counter") = "1" => F(i, "x_shift") = "" /\ F(i, "x_delta") = "0" /\ F(i, "x_from_first") = "0" /\ F(i, "x_rprod") = Get(s[i], "x")
          \* the two readings of "previous record" agree when no record of a group lacks the field
          /\ ~Gap(StepC(g, all), s) => ExpStep(StepC(g, all), s, LitRd) = pat
          \* records lacking the group-by field change nothing for the others
          /\ SelIdx(pat, LAMBDA i : HasAll(s[i], g)) = ExpStep(StepC(g, all), Keyed(s, g), SkipRd)
          \* top -n 1 is the maximum, top --min -n 1 the minimum, group by group
          /\ LET hi == ExpTop(Cfg("top", g, FX, <<>>, 1, <<>>), s, "contributing")
                 lo == ExpTop(Cfg("top", g, FX, <<>>, 1, <<"--min">>), s, "contributing")
                 cst == ExpStats1(S1c(g, FX, A1), s, "contributing")
             IN /\ Len(hi) = Len(cst) /\ Len(lo) = Len(cst)
                /\ \A n \in 1..Len(cst) : FieldOf(hi[n], "x_top") = FieldOf(cst[n], "x_max") /\ FieldOf(lo[n], "x_top") = FieldOf(cst[n], "x_min")
          \* top -a -n 2: the records holding the two largest values are accepted, a record of another value is not
          /\ LET c == Cfg("top", g, FX, <<>>, Len(s) + 1, <<"-a">>) IN
             /\ AllowedTopA(c, s, <<>>) <=> \A i \in 1..Len(s) : ~has(i)
             /\ (\A i \in 1..Len(s) : has(i)) /\ Len(s) = 1 => AllowedTopA(c, s, s)

\* ---- merge-fields: what -k keeps, what is removed, count never exceeds the named fields
LawsMerge(s) ==
  /\ \A c \in CfgMerge : SelfAccepting(c, s)
  /\ LET c == Cfg("merge-fields", <<>>, FXY, M1 \o <<Acc("null_count")>>, 0, <<"-o", "out">>)
         ck == Cfg("merge-fields", <<>>, FXY, M1 \o <<Acc("null_count")>>, 0, <<"-k", "-o", "out">>)
         pat == ExpMerge(c, s)  patk == ExpMerge(ck, s)
     IN \A i \in 1..Len(s) :
          LET p == OnePat(pat[i])  pk == OnePat(patk[i])  nacc == Len(M1) + 1 IN
          /\ SubSeq(pk, 1, Len(s[i])) = AsReq(s[i])
          /\ SubSeq(pk, Len(s[i]) + 1, Len(pk)) = SubSeq(p, Len(p) - nacc + 1, Len(p))
          /\ \A n \in 1..(Len(p) - nacc) : p[n][1] \notin {"x", "y"}
          /\ NumOf[PatGet(p, "out_count")[2]] + NumOf[PatGet(p, "out_null_count")[2]] = Cardinality({n \in 1..Len(s[i]) : s[i][n][1] \in {"x", "y"}})
          \* one record's statistics never depend on the other records
          /\ pat[i] = ExpMerge(c, <<s[i]>>)[1]
LawsMergeC(s) ==
  /\ \A c \in CfgMergeC : SelfAccepting(c, s)
  /\ LET pat == ExpMergeCollapse(Cfg("merge-fields", <<>>, <<>>, M3, 0, <<"-c", "_in,_out">>), s) IN
     \A i \in 1..Len(s) : LET p == OnePat(pat[i]) IN
        \A sh \in {"a", "b"} : PatHas(p, sh \o "_count") =>
           NumOf[PatGet(p, sh \o "_count")[2]] + NumOf[PatGet(p, sh \o "_null_count")[2]] = Cardinality({n \in 1..Len(s[i]) : CollapseOf(s[i][n][1]) = sh})

\* ---- fraction: the last cumulative fraction of a group is 1; histogram: the bin counts add up to the values in [lo, hi]
LawsFrac(s) ==
  /\ \A c \in CfgFrac : SelfAccepting(c, s)
  /\ \A g \in {<<>>, G1} :
       LET pat == ExpFraction(Cfg("fraction", g, FX, <<>>, 0, <<"-c">>), s, "1")
           has(i) == HasAll(s[i], g) /\ Has(s[i], "x")
       IN \A i \in 1..Len(s) : (has(i) /\ \A j \in (i + 1)..Len(s) : ~(has(j) /\ SameGroup(s, g, i, j))) =>
            PatGet(OnePat(pat[i]), "x_cumulative_fraction") = Req("x_cumulative_fraction", "1")
LawsHist(s) ==
  /\ \A c \in CfgHist : SelfAccepting(c, s)
  /\ \A c \in CfgHist : \A m \in 1..Len(c.f) :
       SumOver(ExpHistogram(c, s), OptVal(c, "-o", "") \o c.f[m] \o "_count")
         = Cardinality({i \in 1..Len(s) : Has(s[i], c.f[m]) /\ NumOf[Get(s[i], c.f[m])] >= HistLo(c) /\ NumOf[Get(s[i], c.f[m])] <= HistHi(c)})

\* ---- fill-down: the output with absent fields appended is accepted, is a fixed point, and has nothing left to fill;
\* fill-empty leaves no empty value and is idempotent
FillDownCanon(c, s) ==
  [i \in 1..Len(s) |->
     LET r == s[i]  fills(f) == MissingIn(c, r, f) /\ LastSeen(c, s, f, i)[1]
         base == [n \in 1..Len(r) |-> IF Named(c, r[n][1]) /\ fills(r[n][1]) THEN <<r[n][1], LastSeen(c, s, r[n][1], i)[2]>> ELSE r[n]]
         add == SelIdx(c.f, LAMBDA m : ~Has(r, c.f[m]) /\ fills(c.f[m]))
     IN base \o [m \in 1..Len(add) |-> <<add[m], LastSeen(c, s, add[m], i)[2]>>]]
LawsFill(s) ==
  /\ \A c \in {c \in CfgFill : c.v = "fill-empty"} : SelfAccepting(c, s)
  /\ \A c \in {c \in CfgFill : c.v = "fill-down" /\ ~HasOpt(c, "--all")} :
       LET t == FillDownCanon(c, s) IN
       /\ AllowedFillDown(c, s, t)
       /\ AllowedFillDown(c, t, t)
       /\ (t # s => ~AllowedFillDown(c, s, s))
       \* after the first record that has the field every record has it (and non-empty, unless -a)
       /\ \A m \in 1..Len(c.f) : \A i \in 1..Len(t) : (\E j \in 1..(i - 1) : ~MissingIn(c, s[j], c.f[m])) => ~MissingIn(c, t[i], c.f[m])
  /\ AllowedFillDownAll(Cfg("fill-down", <<>>, <<>>, <<>>, 0, <<"--all">>), s, FillDownCanon(Cfg("fill-down", <<>>, <<"a", "b">>, <<>>, 0, <<>>), s))
  /\ LET t == RealizeMin(ExpFillEmpty(Cfg("fill-empty", <<>>, <<>>, <<>>, 0, <<>>), s)) IN
     /\ \A i \in 1..Len(t) : \A n \in 1..Len(t[i]) : t[i][n][2] # ""
     /\ RealizeMin(ExpFillEmpty(Cfg("fill-empty", <<>>, <<>>, <<>>, 0, <<>>), t)) = t

Laws ==
  /\ PctLaws
  /\ CASE x.fam = "cnt" -> LawsCnt(x.s)
       [] x.fam = "stat" -> LawsStat(x.s)
       [] x.fam = "pct" -> LawsPct(x.s)
       [] x.fam = "int" -> LawsInt(x.s)
       [] x.fam = "merge" -> LawsMerge(x.s)
       [] x.fam = "mergec" -> LawsMergeC(x.s)
       [] x.fam = "frac" -> LawsFrac(x.s)
       [] x.fam = "hist" -> LawsHist(x.s)
       [] x.fam = "fill" -> LawsFill(x.s)
       [] x.fam = "dsl" -> LawsDsl(x.s)
=============================================================================
