--------------------------- MODULE VerbsRestructureMC ---------------------------
(* The laws of C12 on the specification itself, over the whole bounded case space (every configuration with   *)
(* every stream of its family).                                                                                *)
EXTENDS VerbsRestructureCases
VARIABLE x
Init == x \in Cases
Next == UNCHANGED x
c == x.c
s == x.s

Names == {"a", "b", "c", "d", "x"}
KeyLists == {<<"5">>, <<"5", "6">>, <<"6", "5">>, <<"a", "b">>, <<"b">>}

LawCut == c.v = "cut" /\ c.o = "-f" => \A i \in 1..Len(s) : CutComplement(s[i], c.f)
LawRename == c.v = "rename" /\ c.o = "" => \A i \in 1..Len(s) : \A a, b \in Names : RenameRoundTrip(s[i], a, b)
LawUnsparsify == c.v = "unsparsify" => UnsparsifyRectangular(c, s)
LawNestFields == c.v = "nest-fields" /\ c.o = "explode-values-fields" => \A i \in 1..Len(s) : NestFieldsRoundTrip(c, s[i])
LawNestRecords == c.v = "nest-explode-records" /\ c.o \in {"explode-values-records", "evar"} => NestRecordsRoundTrip(c, s)
LawWideLongWide == c.v = "reshape-w2l" => ReshapeWideLongWide(c, s)
LawLongWideLong == c.v = "reshape-l2w" => \A F \in KeyLists : ReshapeLongWideLong(c, s, F)
LawBystanders == BystandersKept(c, s) /\ BystandersKeptMulti(c, s)
LawExpectedAllowed == Deterministic(c, s) => Allowed(c, s, Expected(c, s))
LawChains == ChainIdentity(c, s)
LawWellFormed == \A i \in 1..Len(s) : NoDup(KeysOf(s[i]))       \* (of the case space: records have distinct keys)
Laws == /\ LawWellFormed /\ LawChains /\ LawCut /\ LawRename /\ LawUnsparsify /\ LawNestFields /\ LawNestRecords /\ LawWideLongWide /\ LawLongWideLong
        /\ LawBystanders /\ LawExpectedAllowed

\* how much of the space each law's premise covers (for the notes; run by hand with -continue and count)
WitnessNestFields == ~(c.v = "nest-fields" /\ c.o = "explode-values-fields" /\ \E i \in 1..Len(s) :
                         Has(s[i], NestField(c)) /\ ExplodeDomain(c, s[i]) /\ ImplodeIdx(s[i], NestField(c)) = {})
WitnessNestRecords == ~(c.v = "nest-explode-records" /\ c.o \in {"explode-values-records", "evar"} /\ s # <<>>
                         /\ (\A i \in 1..Len(s) : ExplodeDomain(c, s[i]) /\ Has(s[i], NestField(c)))
                         /\ \A i, j \in 1..Len(s) : i # j => Others1(s[i], NestField(c)) # Others1(s[j], NestField(c)))
WitnessWideLongWide == ~(c.v = "reshape-w2l" /\ s # <<>> /\ WideDomain(c, s))
WitnessLongWideLong == ~(c.v = "reshape-l2w" /\ \E F \in KeyLists : Deterministic(c, s) /\ s # <<>> /\ KeysOf(L2WPairs(c, s, 1)) = F
     /\ (\A i \in 1..Len(s) : Len(Get(s[i], KF(c))) = 1 /\ KeysOf(s[i]) = KeysOf(OthersKV(c, s[i])) \o <<KF(c), VF(c)>>)
     /\ (\A i \in 1..(Len(s) - 1) : OthersKV(c, s[i]) = OthersKV(c, s[i + 1]) \/ \A j \in (i + 1)..Len(s) : OthersKV(c, s[j]) # OthersKV(c, s[i])))
WitnessDeterministic == ~Deterministic(c, s)
=============================================================================
