------------------------------- MODULE CodecGen -------------------------------
(* TLC prints every case of CodecCases ("tx" cases with the text the specification's encoder gives them) and checks
   the laws of CodecMC on it in the same pass. *)
EXTENDS CodecMC, Json
Emit == PrintT(ToJson([k |-> x.k, f |-> x.f, v |-> x.v, fam |-> x.fam, st |-> x.st, s |-> x.s,
                       text |-> IF x.k = "tx" THEN StyledText(x.f, x.v, x.st, x.s) ELSE <<>>]))
=============================================================================
