------------------------------- MODULE CodecGen -------------------------------
(* TLC prints every case of CodecCases; "tx" cases come with the text the specification's encoder gives them. *)
EXTENDS CodecCases, Json
VARIABLE x
Init == x \in Cases
Next == UNCHANGED x
Emit == PrintT(ToJson([k |-> x.k, f |-> x.f, v |-> x.v, fam |-> x.fam, st |-> x.st, s |-> x.s,
                       text |-> IF x.k = "tx" THEN StyledText(x.f, x.v, x.st, x.s) ELSE <<>>]))
=============================================================================
