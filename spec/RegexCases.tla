------------------------------ MODULE RegexCases ------------------------------
(* The bounded case space of the regex part of C15.  L: 3 = quick, 4 = thorough.                                   *)
(*  Patterns  x Subjects : every function on every pair, the regex spelled "P", "P"i, "(?i)P" and held in a field *)
(*  Programs             : several regex operations in one mlr process (RegexProg.tla)                            *)
EXTENDS RegexProg
CONSTANT L
Big == L >= 4
Seqs(S, lo, hi) == UNION {[1..n -> S] : n \in lo..hi}

\* ---- patterns ---------------------------------------------------------------------------------------------
la == Lit("a")
lb == Lit("b")
lA == Lit("A")
l1 == Lit("1")
le2 == Lit("e2")
cab == Cls(<<"a", "dash", "b">>)
cAB == Cls(<<"A", "dash", "B">>)
nota == NCls(<<"a">>)
R1(items) == << Cat(items) >>                                   \* a regex with one alternative
R2(i1, i2) == << Cat(i1), Cat(i2) >>                            \* two alternatives
Qs == {"", "*", "+", "?"}

Atoms == {la, lb, lA, l1, le2, Dot, Cls(<<"a", "b">>), cab, cAB, nota, Cls(<<"0", "dash", "9">>), Dig}
           \cup (IF Big THEN {Lit("B"), NCls(<<"a", "dash", "b">>), Cls(<<"a", "e2", "1">>), NCls(<<"A", "1">>)} ELSE {})
PSingle == {R1(<<Q(x, q)>>) : x \in Atoms, q \in Qs}
Firsts == {la, lA, Dot, cab} \cup (IF Big THEN {lb, nota, le2} ELSE {})
Seconds == {lb, la, nota} \cup (IF Big THEN {Dot, l1, cAB} ELSE {})
PPair == {R1(<<Q(x, q), Q(y, r)>>) : x \in Firsts, q \in Qs, y \in Seconds, r \in (IF Big THEN Qs ELSE {"", "+"})}
PTriple == {R1(<<la, Q(Dot, "*"), lb>>), R1(<<la, Dot, lb>>), R1(<<Q(cab, "+"), l1>>), R1(<<Q(la, "?"), Q(lb, "?"), Q(l1, "?")>>),
            R1(<<Dot, le2, Dot>>), R1(<<Q(la, "+"), Q(lb, "*"), lA>>), R1(<<Q(Dot, "*"), lb>>), R1(<<Q(la, "*"), la, lb>>),
            R1(<<Q(nota, "+"), la>>), R1(<<Q(la, "*"), Q(cab, "?"), lb>>)}
AnchBase == {<<la>>, <<lb>>, <<Q(la, "*")>>, <<Q(Dot, "+")>>, <<la, lb>>, <<Q(cab, "+")>>, <<lA, Q(Dot, "*")>>, <<nota>>}
PAnch == {R1(<<Bol>> \o x) : x \in AnchBase} \cup {R1(x \o <<Eol>>) : x \in AnchBase} \cup {R1(<<Bol>> \o x \o <<Eol>>) : x \in AnchBase}
           \cup {R1(<<Bol>>), R1(<<Eol>>), R1(<<Bol, Eol>>), R2(<<Bol, la>>, <<lb, Eol>>)}
PAlt == {R2(<<la>>, <<lb>>), R2(<<la, lb>>, <<la>>), R2(<<la>>, <<la, lb>>), R2(<<Q(la, "*")>>, <<lb>>), R2(<<Q(la, "+")>>, <<lA>>),
         R2(<<lb>>, <<Dot>>), R2(<<Q(lb, "*")>>, <<la>>), R2(<<l1>>, <<le2>>), << Cat(<<la>>), Cat(<<lb>>), Cat(<<l1>>) >>}
\* groups: one level; bodies
Bodies == {R1(<<la>>), R2(<<la>>, <<lb>>), R1(<<la, lb>>), R1(<<Dot>>), R1(<<Q(cab, "+")>>), R1(<<Q(la, "*")>>), R2(<<la, lb>>, <<la>>)}
            \cup (IF Big THEN {R1(<<lA>>), R1(<<nota, Q(lb, "?")>>), R2(<<Q(la, "+")>>, <<lb, l1>>), R1(<<le2>>)} ELSE {})
Groups == {Q(Grp(body), q) : body \in Bodies, q \in (IF Big THEN Qs ELSE {"", "+", "?"})}
Pre == {l1, Q(Dot, "*")} \cup (IF Big THEN {lA, Q(la, "?")} ELSE {})
Post == {lb, l1} \cup (IF Big THEN {Q(Dot, "+"), Eol} ELSE {})
G2 == {Grp(R1(<<Dot>>)), Grp(R1(<<lb>>))} \cup (IF Big THEN {Q(Grp(R2(<<l1>>, <<lb>>)), "?")} ELSE {})
PGroup == {re \in {R1(<<g>>) : g \in Groups} \cup {R1(<<x, g>>) : x \in Pre, g \in Groups} \cup {R1(<<g, y>>) : g \in Groups, y \in Post}
                    \cup {R1(<<g, h>>) : g \in Groups, h \in G2} \cup {R2(<<g>>, <<y>>) : g \in Groups, y \in Post}
                    \cup {R2(<<y>>, <<g>>) : g \in Groups, y \in Post} \cup {R2(<<g>>, <<h>>) : g \in Groups, h \in G2}
                    \cup {R1(<<Bol, g, Eol>>) : g \in Groups} : WellFormed(re)}
\* an escaped punctuation character: "\." ; these meet subjects with a "." in them
PEsc == {R1(<<Esc("dot")>>), R1(<<la, Esc("dot")>>), R1(<<Q(Esc("dot"), "+")>>), R1(<<Dot, Esc("dot")>>), R1(<<Grp(R1(<<Esc("dot")>>)), la>>),
         R1(<<Cls(<<"dot">>)>>), R1(<<Bol, Q(NCls(<<"dot">>), "*"), Eol>>)}

\* the replacement used with sub / gsub: a plain one and one with references to the match and to existing groups
RefT(re) == CASE NG(re) = 0 -> <<"lt", "bsl", "0", "gt">>
              [] NG(re) = 1 -> <<"lt", "bsl", "1", "colon", "bsl", "0", "gt">>
              [] OTHER -> <<"bsl", "2", "colon", "bsl", "1">>
Pat(re, sa) == [re |-> re, text |-> Text(re), ng |-> NG(re), nul |-> Nullable(re), sa |-> sa, t |-> RefT(re)]
Patterns == {Pat(re, "std") : re \in PSingle \cup PPair \cup PTriple \cup PAnch \cup PAlt \cup PGroup} \cup {Pat(re, "dot") : re \in PEsc}

\* ---- subjects ---------------------------------------------------------------------------------------------
SA == {"a", "A", "b", "1", "e2"} \cup (IF Big THEN {"B"} ELSE {})
Subjects(sa) == IF sa = "dot" THEN Seqs({"a", "dot", "b"}, 0, 3)
                ELSE Seqs(SA, 0, 3) \cup (IF Big THEN Seqs({"a", "A", "b", "e2"}, 4, 4) ELSE {})

\* ---- programs ---------------------------------------------------------------------------------------------
\* the patterns that several operations of one process share
pB == R1(<<lb>>)
paGb == R1(<<la, Grp(R1(<<lb>>))>>)
pCls == R1(<<Q(cab, "+")>>)
pGG == R1(<<Grp(R2(<<la>>, <<lb>>)), Grp(R1(<<l1>>))>>)
pUA == R1(<<lA>>)
pGplus == R1(<<Q(Grp(R1(<<lb>>)), "+")>>)
pAdot == R1(<<la, Dot>>)
pBolG == R1(<<Bol, Grp(R1(<<la>>))>>)
pBeol == R1(<<lb, Eol>>)
pAltG == R2(<<Grp(R1(<<la>>)), lb>>, <<Grp(R1(<<lA>>))>>)
Shared == {pB, paGb, pCls, pGG, pUA, pAdot} \cup (IF Big THEN {pGplus, pBolG, pBeol, pAltG} ELSE {})
SharedFew == {pB, paGb, pUA} \cup (IF Big THEN {pCls, pGG} ELSE {})

S1 == <<"a">>                      \* the field names of the input records
S2 == <<"B", "1">>
O(k) == <<"us", ToString(k)>>      \* output fields: _1 _2 ...
Rec2(x, y) == << F(S1, VStr(x)), F(S2, VStr(y)) >>
Stream1 == << Rec2(<<"a", "B", "1">>, <<"b">>), Rec2(<<"a", "b", "1">>, <<"A", "b">>), Rec2(<<"A", "B">>, <<"1">>),
              Rec2(<<"a", "B", "1">>, <<"e2", "b", "B">>) >>
Stream2 == << Rec2(<<"A", "b">>, <<"a">>), Rec2(<<"e2", "a", "b">>, <<"B">>), Rec2(<<"A", "b">>, <<"a", "1">>), Rec2(<<"1">>, <<"B", "1">>) >>
Streams == {Stream1, Stream2}
Prog(recs, chain) == [recs |-> recs, chain |-> chain]

Lit1(re) == RX("lit", re, <<>>)
Srcs == {"lit", "liti"} \cup (IF Big THEN {"flag"} ELSE {})
\* one use of a regex by function fn, writing fields o, o+1: a statement list.  plain: no "\1" in replacements (needed when a =~ is around)
Use(fn, k, s, rx, plain) ==
  CASE fn = "sub" -> <<St("sub", O(k), s, rx, IF plain THEN <<"us">> ELSE RefT(rx.re))>>
    [] fn = "gsub" -> <<St("gsub", O(k), s, rx, IF plain THEN <<"us">> ELSE RefT(rx.re))>>
    [] fn = "regextract" -> <<St("regextract", O(k), s, rx, <<>>)>>
    [] fn = "regextract_or_else" -> <<St("regextract_or_else", O(k), s, rx, <<"us">>)>>
    [] fn = "strmatch" -> <<St("strmatch", O(k), s, rx, <<>>)>>
    [] fn = "strmatchx" -> <<St("strmatchx", O(k), s, rx, <<>>)>>
    [] fn = "match" -> <<St("match", O(k), s, rx, <<>>), St("interp", O(k + 1), <<>>, Rx0, <<"lt", "bsl", "0", "colon", "bsl", "1", "gt">>)>>
    [] fn = "notmatch" -> <<St("notmatch", O(k), s, rx, <<>>), St("interp", O(k + 1), <<>>, Rx0, <<"lt", "bsl", "1", "gt">>)>>
Fns == {"sub", "gsub", "regextract", "regextract_or_else", "strmatch", "strmatchx", "match", "notmatch"}
FnPairs == {<<f, f>> : f \in Fns} \cup {<<"sub", "gsub">>, <<"match", "sub">>, <<"regextract", "strmatchx">>, <<"gsub", "match">>,
                                        <<"strmatch", "regextract_or_else">>, <<"notmatch", "match">>}
HasM(fp) == fp[1] \in {"match", "notmatch"} \/ fp[2] \in {"match", "notmatch"}

\* (1) the same pattern text twice in one put: case-sensitively and case-insensitively, in both orders, by one or two functions
PTwice == {Prog(rs, << PutV(Use(fp[1], 1, S1, RX(c1, re, <<>>), HasM(fp)) \o Use(fp[2], 3, S1, RX(c2, re, <<>>), HasM(fp)), Fn0) >>) :
             rs \in Streams, re \in Shared, fp \in FnPairs, c1 \in Srcs, c2 \in Srcs}

\* (2) the same pattern text in two puts of a chain with a verb in between that uses it too
MidVerbs(re) == {SubV("sub", <<S1>>, Lit1(re), <<"us">>), SubV("gsub", <<S1, S2>>, Lit1(re), <<"e2">>), SubV("ssub", <<S2>>, Lit1(re), <<"us">>),
                 CutV(<<RX("liti", re, <<>>)>>, FALSE), CutV(<<RX("lit", re, <<>>), RX("lit", R1(<<Lit("us")>>), <<>>)>>, FALSE),
                 CutV(<<RX("liti", re, <<>>)>>, TRUE),
                 HavingV("any", RX("liti", re, <<>>)), HavingV("none", RX("lit", re, <<>>)), HavingV("all", RX("liti", R1(<<Q(Dot, "*")>> \o Kids(re[1])), <<>>)),
                 RenameV(RX("liti", re, <<>>), IF NG(re) > 0 THEN <<"us", "bsl", "1">> ELSE <<"us">>, FALSE), RenameV(RX("lit", re, <<>>), <<"e2">>, TRUE),
                 GrepV(RX("liti", re, <<>>), FALSE), GrepV(RX("lit", re, <<>>), TRUE)}
ChainFns == {<<"sub", "sub">>, <<"gsub", "match">>, <<"match", "regextract_or_else">>, <<"regextract_or_else", "gsub">>}
              \cup (IF Big THEN {<<"strmatchx", "regextract">>, <<"regextract", "sub">>, <<"match", "match">>} ELSE {})
ChainModes == {<<"lit", "liti">>, <<"liti", "lit">>, <<"lit", "lit">>} \cup (IF Big THEN {<<"liti", "liti">>} ELSE {})
PChain == UNION {{Prog(rs, << PutV(Use(ff[1], 1, S1, RX(cc[1], re, <<>>), TRUE), Fn0), v, PutV(Use(ff[2], 3, S2, RX(cc[2], re, <<>>), TRUE), Fn0) >>) :
                    rs \in (IF Big THEN Streams ELSE {Stream1}), v \in MidVerbs(re), ff \in ChainFns, cc \in ChainModes} : re \in SharedFew}

\* (3) captures: set in one statement, used after intervening failed / successful matches, function calls, other regex functions
ShowT == <<"lt", "bsl", "1", "colon", "bsl", "2", "gt">>
FnM == Fn(TRUE, <<"1", "A">>, RX("liti", R1(<<Grp(R1(<<la>>))>>), <<>>), <<"lt", "bsl", "1", "bsl", "0", "gt">>)      \* f matches "1A" =~ "(a)"i itself
FnN == Fn(FALSE, <<>>, Rx0, <<"lt", "bsl", "1", "gt">>)                                                         \* f only returns "<\1>"
Ops(k) == {St("match", O(k), S1, Lit1(pGG), <<>>), St("match", O(k), S2, RX("liti", paGb, <<>>), <<>>), St("notmatch", O(k), S1, Lit1(paGb), <<>>),
           St("interp", O(k), <<>>, Rx0, ShowT), St("call", O(k), <<>>, Rx0, <<>>),
           St("sub", O(k), S1, Lit1(paGb), <<"us">>), St("strmatchx", O(k), S2, Lit1(pGG), <<>>), St("regextract", O(k), S1, RX("liti", pB, <<>>), <<>>),
           St("gsub", O(k), S2, RX("liti", pGG, <<>>), <<"e2">>)}
Firsts3 == {St("match", O(1), S1, Lit1(pGG), <<>>), St("match", O(1), S2, RX("liti", paGb, <<>>), <<>>), St("interp", O(1), <<>>, Rx0, ShowT),
            St("notmatch", O(1), S1, Lit1(paGb), <<>>)}
WithFn(s2, s3) == IF "call" \in {s2.k, s3.k} THEN {FnM, FnN} ELSE {FnN}
PCaps == UNION {{Prog(rs, << PutV(<<s1, s2, s3, St("interp", O(4), <<>>, Rx0, ShowT)>>, fn) >>) : rs \in (IF Big THEN Streams ELSE {Stream1}), s1 \in Firsts3, fn \in WithFn(s2, s3)} :
                  s2 \in Ops(2), s3 \in Ops(3)}
         \cup {Prog(rs, << PutV(<<s1, St("interp", O(2), <<>>, Rx0, ShowT)>>, FnN), PutV(<<St("interp", O(3), <<>>, Rx0, ShowT), s2, St("interp", O(5), <<>>, Rx0, ShowT)>>, FnN) >>) :
                 rs \in Streams, s1 \in Firsts3, s2 \in Ops(4)}
         \cup {Prog(rs, << PutV(<<St("match", O(1), S1, Lit1(re), <<>>), St("interp", O(2), <<>>, Rx0, t)>>, Fn0) >>) :
                 rs \in Streams, re \in Shared, t \in {<<"bsl", "1", "5">>, <<"bsl", "0", "bsl", "9">>, <<"bsl", "0", "bsl", "0">>, <<"bsl", "2", "bsl", "1", "bsl", "2">>}}

\* (4) regexes taken from a field, record after record (the same text again, another one, the first again), next to literals
RRec(x, re) == << F(S1, VStr(x)), F(<<"b">>, VRe(re)) >>
RStreams == { << RRec(<<"a", "B", "1">>, pB), RRec(<<"a", "b", "1">>, pB), RRec(<<"A", "b">>, paGb), RRec(<<"a", "B">>, pB), RRec(<<"a", "b", "B">>, pUA),
                 RRec(<<"a", "b">>, paGb), RRec(<<"A">>, pUA) >>,
              << RRec(<<"b", "B">>, pCls), RRec(<<"b", "B">>, pB), RRec(<<"b", "B">>, pCls), RRec(<<"a", "1">>, pGG), RRec(<<"B", "b">>, pB) >> }
FRX == RX("field", <<>>, <<"b">>)
PField == {Prog(rs, << PutV(Use(f1, 1, S1, FRX, FALSE) \o Use(f2, 3, S1, RX(c, re, <<>>), FALSE), Fn0) >>) :
             rs \in RStreams, f1 \in Fns \ {"notmatch"}, f2 \in {"sub", "gsub", "regextract_or_else", "strmatch"}, c \in {"lit", "liti"}, re \in {pB, paGb}}
          \cup {Prog(rs, << PutV(Use(f2, 1, S1, RX(c, re, <<>>), FALSE) \o Use(f1, 2, S1, FRX, FALSE), Fn0) >>) :
             rs \in RStreams, f1 \in {"sub", "gsub", "regextract_or_else", "strmatchx"}, f2 \in {"sub", "strmatch"}, c \in {"liti"}, re \in {pB, pUA}}

\* (5) the verbs alone: field names of both cases, with a digit and a 2-byte character, against "P" and "P"i
NRec(ns, x) == [k \in 1..Len(ns) |-> F(ns[k], VStr(x))]
NStreams == { << NRec(<< <<"a">>, <<"A", "b">>, <<"b", "1">>, <<"e2">> >>, <<"a", "b">>), NRec(<< <<"B">>, <<"1">> >>, <<"b">>), NRec(<< <<"a", "b", "a">> >>, <<>>) >>,
              << NRec(<< <<"b">>, <<"B", "b">> >>, <<"A", "b", "a", "B">>), NRec(<< <<"e2", "a">>, <<"A", "1">>, <<"a", "A">> >>, <<"B">>) >> }
VerbRes == {pB, paGb, pUA, pCls, R1(<<Bol, cab, Eol>>), R1(<<Q(Grp(R1(<<Dot>>)), "")>>), R2(<<Bol, la>>, <<l1, Eol>>), R1(<<Q(Dot, "*")>>)}
             \cup (IF Big THEN Shared \cup {R1(<<Bol, Q(nota, "+"), Eol>>), R1(<<Q(lb, "?")>>)} ELSE {})
VerbSrc == {"lit", "liti"}
PVerbs == {Prog(rs, <<v>>) : rs \in NStreams, v \in
             UNION {{CutV(<<RX(c, re, <<>>)>>, x) : x \in BOOLEAN} \cup {CutV(<<RX(c, re, <<>>), RX("lit", pUA, <<>>)>>, FALSE)}
                    \cup {HavingV(m, RX(c, re, <<>>)) : m \in {"any", "all", "none"}}
                    \cup {RenameV(RX(c, re, <<>>), t, g) : g \in BOOLEAN, t \in {<<"us">>, <<"e2", "1">>} \cup (IF NG(re) > 0 THEN {<<"lt", "bsl", "1", "gt">>} ELSE {})}
                    \cup {GrepV(RX(c, re, <<>>), x) : x \in BOOLEAN}
                    \cup {SubV(vn, f, RX("lit", re, <<>>), t) : vn \in {"sub", "gsub", "ssub"}, f \in {<< <<"a">>, <<"b">> >>, << <<"A", "b">>, <<"B">>, <<"e2", "a">>, <<"2">> >>},
                                                                t \in {<<"us">>, <<"e2", "e2">>}}
                    \cup {SubVR(vn, RX("lit", fr, <<>>), RX("lit", re, <<>>), <<"us">>) : vn \in {"sub", "gsub"}, fr \in {pB, R1(<<Bol, Dot, Eol>>)}}
                    \cup {SubVA(vn, RX("lit", re, <<>>), <<"1">>) : vn \in {"sub", "gsub", "ssub"}}
                    : re \in VerbRes, c \in VerbSrc}}

Programs == [twice |-> PTwice, chain |-> PChain, caps |-> PCaps, field |-> PField, verbs |-> PVerbs]
=============================================================================
