------------------------------- MODULE Records -------------------------------
(***************************************************************************)
(* The data layer shared by the stream-semantics specifications: a record   *)
(* is a sequence of <<key, value>> pairs with distinct keys (order is data), *)
(* a value is its text; a stream is a sequence of records.                  *)
(***************************************************************************)
EXTENDS Integers, Sequences, FiniteSets

Key(p) == p[1]
Val(p) == p[2]
KeysOf(r) == [i \in 1..Len(r) |-> r[i][1]]
KeySet(r) == {r[i][1] : i \in 1..Len(r)}
Has(r, k) == \E i \in 1..Len(r) : r[i][1] = k
Get(r, k) == r[CHOOSE i \in 1..Len(r) : r[i][1] = k][2]
HasAll(r, fs) == \A i \in 1..Len(fs) : Has(r, fs[i])
\* the grouping key: the texts of the named fields (only meaningful when HasAll)
GroupKey(r, fs) == [i \in 1..Len(fs) |-> Get(r, fs[i])]

\* s restricted to the indices satisfying P, in order
SelIdx(s, P(_)) ==
  LET F[i \in 0..Len(s)] == IF i = 0 THEN <<>> ELSE IF P(i) THEN Append(F[i - 1], s[i]) ELSE F[i - 1]
  IN F[Len(s)]
IdxWhere(s, P(_)) ==
  LET F[i \in 0..Len(s)] == IF i = 0 THEN <<>> ELSE IF P(i) THEN Append(F[i - 1], i) ELSE F[i - 1]
  IN F[Len(s)]

\* position of record i among the records of its group up to i; size of its group
SameGroup(s, g, i, j) == HasAll(s[i], g) /\ HasAll(s[j], g) /\ GroupKey(s[j], g) = GroupKey(s[i], g)
Rank(s, g, i) == Cardinality({j \in 1..i : SameGroup(s, g, i, j)})
GroupSize(s, g, i) == Cardinality({j \in 1..Len(s) : SameGroup(s, g, i, j)})
\* index of the first record of i's group
GroupFirst(s, g, i) == CHOOSE j \in 1..Len(s) : SameGroup(s, g, i, j) /\ \A m \in 1..(j - 1) : ~SameGroup(s, g, i, m)

Rev(s) == [i \in 1..Len(s) |-> s[Len(s) + 1 - i]]
RECURSIVE Flatten1(_)
Flatten1(ss) == IF ss = <<>> THEN <<>> ELSE Head(ss) \o Flatten1(Tail(ss))

\* records having all of g, batched by group in first-appearance order, input order within a group
Grouped(s, g) ==
  LET firsts == IdxWhere(s, LAMBDA i : HasAll(s[i], g) /\ GroupFirst(s, g, i) = i)
  IN Flatten1([n \in 1..Len(firsts) |-> SelIdx(s, LAMBDA j : SameGroup(s, g, firsts[n], j))])

\* the records of s that have all of g and satisfy P (an index predicate), batched by group in the order in
\* which the groups first appear in s
GroupedWhere(s, g, P(_)) ==
  LET firsts == IdxWhere(s, LAMBDA i : HasAll(s[i], g) /\ GroupFirst(s, g, i) = i)
  IN Flatten1([n \in 1..Len(firsts) |-> SelIdx(s, LAMBDA j : SameGroup(s, g, firsts[n], j) /\ P(j))])

\* t is a rearrangement of s
IsPerm(s, t) == /\ Len(s) = Len(t)
                /\ \E f \in [1..Len(s) -> 1..Len(s)] :
                      (\A i, j \in 1..Len(s) : i # j => f[i] # f[j]) /\ \A i \in 1..Len(s) : t[i] = s[f[i]]
\* t is a sub-multiset of s, i.e. an injection from positions of t into positions of s preserving contents
RECURSIVE RemoveOne(_, _)
RemoveOne(s, x) == IF s = <<>> THEN <<>> ELSE IF Head(s) = x THEN Tail(s) ELSE <<Head(s)>> \o RemoveOne(Tail(s), x)
RECURSIVE SubBag(_, _)
SubBag(t, s) == IF t = <<>> THEN TRUE
                ELSE (\E i \in 1..Len(s) : s[i] = Head(t)) /\ SubBag(Tail(t), RemoveOne(s, Head(t)))
SameBag(s, t) == Len(s) = Len(t) /\ SubBag(s, t)
\* every element of t occurs in s
AllFrom(t, s) == \A i \in 1..Len(t) : \E j \in 1..Len(s) : s[j] = t[i]

=============================================================================
