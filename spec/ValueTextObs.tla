----------------------------- MODULE ValueTextObs -----------------------------
(* line: [ops |-> Seq(op), inx, outx |-> Seq(text), pos |-> Seq(BOOLEAN), exit] *)
EXTENDS ValueText, Json
CONSTANT ObsFile
Obs == ndJsonDeserialize(ObsFile)
VARIABLE l
OInit == l = 1 /\ v = [orig |-> "", text |-> "", typed |-> FALSE, assigned |-> FALSE] /\ emitted = "-"
ONext == l < Len(Obs) /\ l' = l + 1 /\ UNCHANGED vars
Why(o) == IF o.exit # 0 THEN "run failed"
          ELSE IF ~TextsOK(o.ops, o.inx, o.outx) THEN "text of an unassigned field changed"
          ELSE IF ~PositionsOK(o.ops, o.pos) THEN "position of an unassigned field changed" ELSE "ok"
Conforms == Why(Obs[l]) = "ok" \/ PrintT(ToJson([line |-> l, why |-> Why(Obs[l])]))
=============================================================================
