----------------------------- MODULE ReaderCases -----------------------------
EXTENDS Reader
CONSTANTS MaxLen, MaxFiles
F(h, rows) == [header |-> h, rows |-> rows]
\* a small universe of files: differing headers, empty files, 1..3 rows
FileU == { F(<<"a", "b">>, << >>), F(<<"a", "b">>, << <<"1", "x">> >>), F(<<"a", "b">>, << <<"1", "x">>, <<"2", "y">>, <<"3", "">> >>),
           F(<<"b", "a">>, << <<"p", "4">>, <<"q", "5">> >>), F(<<"c">>, << <<"7">> >>), F(<<"a", "b", "c">>, << <<"1", "2", "3">>, <<"4", "5", "6">> >>) }
FileLists == UNION {[1..n -> FileU] : n \in 1..MaxFiles}
\* block files (CSV-lite, PPRINT): one to three non-empty blocks with same-width and different-width headers
BlockU == { F(<<"a", "b">>, << <<"1", "x">> >>), F(<<"a", "b">>, << <<"1", "x">>, <<"2", "y">> >>), F(<<"b", "a">>, << <<"p", "4">> >>),
            F(<<"d", "e">>, << <<"5", "6">>, <<"7", "8">> >>), F(<<"c">>, << <<"7">> >>), F(<<"a", "b", "c">>, << <<"1", "2", "3">> >>) }
\* (consecutive blocks have different headers: the same header again would not be a schema change)
BlockFiles == {bf \in UNION {[1..n -> BlockU] : n \in 1..3} : \A i \in 1..(Len(bf) - 1) : bf[i].header # bf[i + 1].header}
BlockFileLists == {<<bf>> : bf \in BlockFiles} \cup {<<a, b>> : a \in {x \in BlockFiles : Len(x) <= 2}, b \in {x \in BlockFiles : Len(x) <= 2}}
\* chains over the composable configurations of VerbsSelectCases-like space (smaller)
P(k, v) == <<k, v>>
RU == { <<P("a", "1"), P("b", "x")>>, <<P("a", "2"), P("b", "y")>>, <<P("a", "1"), P("b", "y")>>, <<P("b", "x")>>, <<P("a", "1")>> }
Streams == UNION {[1..l -> RU] : l \in 0..MaxLen}
Cfg(v, n, g, o) == [v |-> v, n |-> n, g |-> g, o |-> o]
ChainVerbs ==
  {Cfg("cat", 0, <<>>, ""), Cfg("tac", 0, <<>>, ""), Cfg("group-like", 0, <<>>, ""), Cfg("cat", 0, <<>>, "-n"), Cfg("cat", 0, <<>>, "-N"),
   Cfg("head", 1, <<>>, ""), Cfg("head", 2, <<"a">>, ""), Cfg("head", 1, <<"a">>, ""), Cfg("tail", 1, <<>>, ""), Cfg("tail", 1, <<"a">>, ""), Cfg("tail", 2, <<"b">>, ""),
   Cfg("decimate", 2, <<>>, "-b"), Cfg("decimate", 2, <<"a">>, "-e"), Cfg("filter", 0, <<>>, "is_present($a)"), Cfg("filter-x", 0, <<>>, "$b == \"x\""),
   Cfg("having-fields", 0, <<"a">>, "--at-least"), Cfg("group-by", 0, <<"a">>, ""), Cfg("group-by", 0, <<"b">>, ""), Cfg("uniq-a", 0, <<>>, ""),
   Cfg("uniq-a", 0, <<>>, "-c"), Cfg("uniq-a", 0, <<>>, "-n"), Cfg("skip-trivial-records", 0, <<>>, "")}
Chains2 == {<<a, b>> : a \in ChainVerbs, b \in ChainVerbs}
=============================================================================
