----------------------------- MODULE CalendarGen -----------------------------
(* Emits the case space of C16 from the specification's own sets: the probe lists (once), the instants with the      *)
(* number texts and the texts to be parsed, the durations, the non-numbers.  One variable; the configuration picks  *)
(* the INIT / NEXT / INVARIANT triple of one family.                                                               *)
EXTENDS CalendarCases, Json
VARIABLE x
Stay == UNCHANGED x

\* ---- the probe lists ---------------------------------------------------------------------------
InitSpace == x = 0
EmitSpace == x = 0 /\ PrintT(ToJson([sec |-> SecProbes, ns |-> NsProbes, dur |-> DurProbes, non |-> NonProbes, diff |-> DiffUnits]))

\* ---- instants ------------------------------------------------------------------------------------
CaseOut(c) ==
  LET ps == ProbesOf(c.kind) IN
  [kind |-> c.kind, n |-> c.n, s |-> c.s, f |-> c.f,
   t  |-> SecsText(c.n, c.s),
   tm |-> UnitText(c.n, c.s, c.f \div 1000000, 3),
   tu |-> UnitText(c.n, c.s, c.f \div 1000, 6),
   tn |-> IF InNsRange(c.n, c.s) THEN UnitText(c.n, c.s, c.f, 9) ELSE "",
   th |-> HalfText(c.n, c.s),
   iso |-> IsoText(c.n, c.s, 0, 0),
   x  |-> [i \in 1..Len(ps) |-> IF IsParse(ps[i]) THEN ParseInput(ps[i], c.n, c.s, c.f) ELSE ""]]
InitFixed == x \in FixedCases
EmitCase == PrintT(ToJson(CaseOut(x)))
\* pseudo-random instants: x = <<k, generator state>>
Start == Lehmer(Lehmer(Seed + 20011))
InitRand == x = <<1, Start>>
NextRand == x[1] < NRand /\ x' = <<x[1] + 1, Lehmer(Lehmer(Lehmer(x[2])))>>
EmitRand == PrintT(ToJson(CaseOut(RandCase(x[2]))))

\* ---- durations -----------------------------------------------------------------------------------
DurOut(c) ==
  [kind |-> "dur", sg |-> c.sg, d |-> c.d, r |-> c.r, t |-> DurText(c.sg, c.d, c.r), tf |-> DurFloatText(c.sg, c.d, c.r),
   x |-> [i \in 1..Len(DurProbes) |-> DurInput(DurProbes[i], c.sg, c.d, c.r)]]
InitDur == x \in DurCases
EmitDur == PrintT(ToJson(DurOut(x)))
IsZeroDur(c) == c.d = 0 /\ c.r = 0
Positive(c) == IF IsZeroDur(c) THEN [c EXCEPT !.sg = 1] ELSE c
EmitRandDur == PrintT(ToJson(DurOut(Positive(RandDur(x[2])))))

\* ---- pairs of instants for datediff ------------------------------------------------------------
DiffOut(c) == [kind |-> "diff", n1 |-> c.n1, s1 |-> c.s1, n2 |-> c.n2, s2 |-> c.s2, t1 |-> SecsText(c.n1, c.s1), t2 |-> SecsText(c.n2, c.s2),
               iso1 |-> IsoText(c.n1, c.s1, 0, 0), iso2 |-> IsoText(c.n2, c.s2, 0, 0)]
InitDiff == x \in DiffCases
EmitDiff == PrintT(ToJson(DiffOut(x)))
EmitRandDiff == PrintT(ToJson(DiffOut(RandDiff(x[2]))))

\* ---- non-numbers ---------------------------------------------------------------------------------
InitNon == x \in NonCases
EmitNon == PrintT(ToJson(x))
=============================================================================
