------------------------------- MODULE Codec -------------------------------
(***************************************************************************)
(* C01 - file formats as encoders/decoders over an ABSTRACT BYTE ALPHABET.  *)
(* A token is the name of a class of bytes that the format rules tell      *)
(* apart ("FS" = the field separator in use, "Q" = double quote, ...); a   *)
(* cell (key or value) and a text are sequences of tokens.  The harness    *)
(* maps every token to one representative byte string and back; that table *)
(* is rendering only.  Lower-case letters and digits are tokens that stand  *)
(* for themselves ("a" a plain letter; "t" "n" "r" "u" "b" "f" the letters  *)
(* used by TSV/JSON escapes; "1".."9","0" digits for positional keys).      *)
(*                                                                         *)
(* Sources: docs/src/file-formats.md, reference-main-separators.md,         *)
(* reference-main-flag-list.md, record-heterogeneity.md,                    *)
(* csv-with-and-without-headers.md; RFC 4180, IANA text/tab-separated-      *)
(* values, RFC 8259.  Nothing here is transcribed from the Go code.         *)
(***************************************************************************)
EXTENDS Integers, Sequences, FiniteSets, TLC

---------------------------------------------------------------------------
(* generic sequence helpers *)
Has(c, t) == \E i \in 1..Len(c) : c[i] = t
HasAny(c, S) == \E i \in 1..Len(c) : c[i] \in S
Last(c) == c[Len(c)]
RECURSIVE Cat(_)
Cat(ss) == IF ss = <<>> THEN <<>> ELSE Head(ss) \o Cat(Tail(ss))
JoinWith(ss, sep) == Cat([i \in 1..Len(ss) |-> IF i = 1 THEN ss[i] ELSE sep \o ss[i]])
Rep(t, n) == [i \in 1..n |-> t]
Max(a, b) == IF a > b THEN a ELSE b
Min(a, b) == IF a < b THEN a ELSE b

\* pieces of t between occurrences of tok: n occurrences give n+1 pieces
SplitOn(t, tok) ==
  LET F[i \in 0..Len(t)] ==
        IF i = 0 THEN << <<>> >>
        ELSE LET p == F[i - 1] IN
             IF t[i] = tok THEN Append(p, <<>>) ELSE [p EXCEPT ![Len(p)] = Append(@, t[i])]
  IN F[Len(t)]
NonEmpty(ss) == SelectSeq(ss, LAMBDA x : x # <<>>)
\* pieces between RUNS of tok; leading and trailing runs delimit nothing
SplitRuns(t, tok) == NonEmpty(SplitOn(t, tok))
RECURSIVE TrimL(_, _)
TrimL(c, tok) == IF c # <<>> /\ Head(c) = tok THEN TrimL(Tail(c), tok) ELSE c
RECURSIVE TrimR(_, _)
TrimR(c, tok) == IF c # <<>> /\ Last(c) = tok THEN TrimR(SubSeq(c, 1, Len(c) - 1), tok) ELSE c
Trim(c, tok) == TrimR(TrimL(c, tok), tok)
\* index of the first occurrence of tok in c (0 if none)
FirstIdx(c, tok) == IF Has(c, tok) THEN CHOOSE i \in 1..Len(c) : c[i] = tok /\ \A j \in 1..(i - 1) : c[j] # tok ELSE 0

\* Physical lines.  "Default line endings are newline which is interpreted to accept carriage-return/newline
\* files" (reference-main-flag-list.md, separator flags): a line ends at LF, one CR before it belongs to the
\* line ending.  A last line without terminator counts if it is not empty.
StripCR(c) == IF c # <<>> /\ Last(c) = "CR" THEN SubSeq(c, 1, Len(c) - 1) ELSE c
Lines(t) == LET p == SplitOn(t, "LF")
                q == IF Last(p) = <<>> THEN SubSeq(p, 1, Len(p) - 1) ELSE p
            IN [i \in 1..Len(q) |-> StripCR(q[i])]

---------------------------------------------------------------------------
(* records *)
KeysOf(r) == [i \in 1..Len(r) |-> r[i][1]]
ValsOf(r) == [i \in 1..Len(r) |-> r[i][2]]
Zip(ks, vs) == [i \in 1..Len(ks) |-> <<ks[i], vs[i]>>]
Distinct(ks) == \A i, j \in 1..Len(ks) : i # j => ks[i] # ks[j]
\* decimal spelling of a position 1..99 (positional keys of NIDX, implicit headers, ragged rows, keyless DKVP fields)
NumKey(n) == IF n < 10 THEN <<ToString(n)>> ELSE <<ToString(n \div 10), ToString(n % 10)>>
Positional(ks) == \A i \in 1..Len(ks) : ks[i] = NumKey(i)

OK(recs) == [ok |-> TRUE, recs |-> recs]
Bad == [ok |-> FALSE, recs |-> <<>>]
\* all-or-nothing sequence of partial results
AllOK(rs) == IF \A i \in 1..Len(rs) : rs[i].ok THEN OK([i \in 1..Len(rs) |-> rs[i].recs]) ELSE Bad

\* option variants are named by one string v; these read it
QuoteAll(v) == v = "quoteall"        \* --quote-all
CRLF(v) == v = "crlf"                \* --ors crlf
Headerless(v) == v = "headerless"    \* --headerless-csv-output on write, --implicit-csv-header on read
Ragged(v) == v = "ragged"            \* --allow-ragged-csv-input on read
EOL(v) == IF CRLF(v) THEN <<"CR", "LF">> ELSE <<"LF">>

\* Rows of a header-and-data format for a stream.  file-formats.md, "CSV and TSV, by contrast, do the following":
\* too few keys that match the header -> empty fields are emitted; too many keys that match the header up to its
\* length -> the extra fields are emitted; keys that do not match -> error (not writable).
HeaderWritable(s) == /\ Len(s) >= 1
                     /\ \A i \in 1..Len(s) : Len(s[i]) >= 1
                     /\ \A i \in 1..Len(s) : \A j \in 1..Min(Len(s[i]), Len(s[1])) : s[i][j][1] = s[1][j][1]
DataRow(s, i) == [j \in 1..Max(Len(s[i]), Len(s[1])) |-> IF j <= Len(s[i]) THEN s[i][j][2] ELSE <<>>]
\* the reverse: header row + data rows -> records (csv-with-and-without-headers.md, record-heterogeneity.md,
\* flags --implicit-csv-header "Use 1,2,3,... as field labels", --allow-ragged-csv-input "If a data line has more
\* fields than the header line, use integer field labels as in the implicit-header case.")
ZipRow(v, h, d) ==
  IF Len(d) = Len(h) THEN OK(Zip(h, d))
  ELSE IF ~Ragged(v) THEN Bad
  \* a data line shorter than the header: the flag text says "fill remaining keys with empty string", the worked example
  \* in record-heterogeneity.md shows the record without those keys -- contradictory, so not modelled
  ELSE IF Len(d) < Len(h) THEN Bad
  ELSE OK([j \in 1..Len(d) |-> <<IF j <= Len(h) THEN h[j] ELSE NumKey(j), d[j]>>])
ZipRows(v, rows) ==
  IF rows = <<>> THEN OK(<<>>)
  ELSE IF Headerless(v) THEN OK([i \in 1..Len(rows) |-> Zip([j \in 1..Len(rows[i]) |-> NumKey(j)], rows[i])])
  ELSE IF ~Distinct(rows[1]) THEN Bad      \* duplicate header names are renamed a_2, ...: not modelled
  ELSE AllOK([i \in 1..(Len(rows) - 1) |-> ZipRow(v, rows[1], rows[i + 1])])

---------------------------------------------------------------------------
(* CSV - RFC 4180.  file-formats.md: "Miller's --csv flag supports RFC-4180 CSV"; separators: ORS is newline or
   carriage-return/newline, IFS a single character, CR/LF line endings accepted on input. *)
CSVQuoted(c) == <<"Q">> \o Cat([i \in 1..Len(c) |-> IF c[i] = "Q" THEN <<"Q", "Q">> ELSE <<c[i]>>]) \o <<"Q">>
\* RFC 4180 2.6/2.7: fields containing line breaks, double quotes and the separator are enclosed in double quotes,
\* a quote inside is doubled; file-formats.md: "Any cell containing a comma or a carriage return within it must be
\* double-quoted".  Spaces are part of a field (RFC 4180 2.4): no quoting needed.
CSVMustQuote(c) == HasAny(c, {"FS", "Q", "CR", "LF"})
\* quoting styles: "min" only where needed, "all" every field (--quote-all), "alt" needlessly on every other field
CSVQuoteIt(q, line, fld) == q = "all" \/ (q = "alt" /\ (line + fld) % 2 = 0)
CSVField(q, line, fld, c) == IF CSVMustQuote(c) \/ CSVQuoteIt(q, line, fld) THEN CSVQuoted(c) ELSE c
CSVLine(q, line, cells) == JoinWith([j \in 1..Len(cells) |-> CSVField(q, line, j, cells[j])], <<"FS">>)
\* st = [hdr, q, eol, final, bom]
CSVRowsOf(st, s) == (IF st.hdr THEN <<KeysOf(s[1])>> ELSE <<>>) \o
                    [i \in 1..Len(s) |-> DataRow(s, i)]
CSVText(st, s) ==
  LET rows == CSVRowsOf(st, s)
      body == JoinWith([i \in 1..Len(rows) |-> CSVLine(st.q, i, rows[i])], st.eol)
  IN (IF st.bom THEN <<"BOM">> ELSE <<>>) \o body \o (IF st.final THEN st.eol ELSE <<>>)
CSVStyle(v) == [hdr |-> ~Headerless(v), q |-> IF QuoteAll(v) THEN "all" ELSE "min", eol |-> EOL(v),
                final |-> TRUE, bom |-> FALSE]
EncodeCSV(v, s) == CSVText(CSVStyle(v), s)

\* The RFC 4180 grammar as a machine over tokens.  m: "sor" start of record, "sof" start of a further field,
\* "unq" inside non-escaped, "q" inside escaped, "qq" after a quote inside escaped, "cr" after the CR of a CRLF.
\* A record ends at CRLF (RFC) or LF (accepted on input, reference-main-separators.md).  An empty line is, by the
\* grammar, a record of one empty field.
CSVStep(x, t) ==
  LET pushF == [x EXCEPT !.r = Append(x.r, x.f), !.f = <<>>]
      pushR(y) == [y EXCEPT !.out = Append(y.out, y.r), !.r = <<>>]
  IN IF x.bad THEN x
     ELSE CASE x.m \in {"sor", "sof"} ->
                 (CASE t = "Q" -> [x EXCEPT !.m = "q"]
                    [] t = "FS" -> [pushF EXCEPT !.m = "sof"]
                    [] t = "LF" -> [pushR(pushF) EXCEPT !.m = "sor"]
                    [] t = "CR" -> [pushF EXCEPT !.m = "cr"]
                    [] OTHER -> [x EXCEPT !.m = "unq", !.f = <<t>>])
            [] x.m = "unq" ->
                 (CASE t = "Q" -> [x EXCEPT !.bad = TRUE]
                    [] t = "FS" -> [pushF EXCEPT !.m = "sof"]
                    [] t = "LF" -> [pushR(pushF) EXCEPT !.m = "sor"]
                    [] t = "CR" -> [pushF EXCEPT !.m = "cr"]
                    [] OTHER -> [x EXCEPT !.f = Append(x.f, t)])
            [] x.m = "q" ->
                 (CASE t = "Q" -> [x EXCEPT !.m = "qq"]
                    [] OTHER -> [x EXCEPT !.f = Append(x.f, t)])
            [] x.m = "qq" ->
                 (CASE t = "Q" -> [x EXCEPT !.m = "q", !.f = Append(x.f, "Q")]
                    [] t = "FS" -> [pushF EXCEPT !.m = "sof"]
                    [] t = "LF" -> [pushR(pushF) EXCEPT !.m = "sor"]
                    [] t = "CR" -> [pushF EXCEPT !.m = "cr"]
                    [] OTHER -> [x EXCEPT !.bad = TRUE])
            [] x.m = "cr" ->
                 (CASE t = "LF" -> [pushR(x) EXCEPT !.m = "sor"]
                    [] OTHER -> [x EXCEPT !.bad = TRUE])
CSVRows(t) ==
  LET F[i \in 0..Len(t)] == IF i = 0 THEN [m |-> "sor", f |-> <<>>, r |-> <<>>, out |-> <<>>, bad |-> FALSE]
                            ELSE CSVStep(F[i - 1], t[i])
      x == F[Len(t)]
  IN IF x.bad \/ x.m \in {"q", "cr"} THEN Bad
     ELSE IF x.m = "sor" THEN OK(x.out)
     ELSE OK(Append(x.out, Append(x.r, x.f)))      \* "The last record in the file may or may not have an ending line break"
StripBOM(t) == IF t # <<>> /\ Head(t) = "BOM" THEN Tail(t) ELSE t
DecodeCSV(v, t) == LET r == CSVRows(StripBOM(t)) IN IF r.ok THEN ZipRows(v, r.recs) ELSE Bad

\* one empty field on a line of its own is an empty line
BlankRow(cells) == cells = << <<>> >>
RepresentableCSV(v, s) ==
  /\ HeaderWritable(s)                                 \* at least one record, no empty record
  /\ \A i \in 1..Len(s) : Distinct(KeysOf(s[i]))
  \* "CSV does not allow heterogeneous data" (file-formats.md): a shorter record comes back filled with empty values,
  \* so only equal key lists survive - except, for the ragged reader, extra fields whose keys are their positions
  /\ \A i \in 1..Len(s) :
        IF Ragged(v) THEN /\ Len(s[i]) >= Len(s[1])
                          /\ \A j \in (Len(s[1]) + 1)..Len(s[i]) : s[i][j][1] = NumKey(j)
        ELSE KeysOf(s[i]) = KeysOf(s[1])
  /\ Headerless(v) => Positional(KeysOf(s[1]))
  \* a blank line means something else in Miller's CSV family (schema change, --no-auto-unsparsify) and is skipped
  \* by many RFC readers: a lone empty field has no safe spelling unless quoted
  /\ ~BlankRow(KeysOf(s[1])) /\ \A i \in 1..Len(s) : ~BlankRow(ValsOf(s[i]))

---------------------------------------------------------------------------
(* TSV - IANA text/tab-separated-values with Miller's documented escapes (file-formats.md): "if fields have \r, \n,
   \t, or \\, those are decoded as carriage return, newline, tab, and backslash"; "On output, the reverse is done";
   FS is tab, RS is newline (or CRLF). *)
TSVEnc(c) == Cat([i \in 1..Len(c) |->
                   CASE c[i] = "TAB" -> <<"BS", "t">> [] c[i] = "LF" -> <<"BS", "n">>
                     [] c[i] = "CR" -> <<"BS", "r">> [] c[i] = "BS" -> <<"BS", "BS">> [] OTHER -> <<c[i]>>])
\* lazy spelling: a backslash that cannot be mistaken for an escape may stay single
TSVEncLazy(c) == Cat([i \in 1..Len(c) |->
                   CASE c[i] = "TAB" -> <<"BS", "t">> [] c[i] = "LF" -> <<"BS", "n">>
                     [] c[i] = "CR" -> <<"BS", "r">>
                     [] c[i] = "BS" -> IF i < Len(c) /\ c[i + 1] \notin {"t", "n", "r", "BS", "TAB", "LF", "CR"}
                                       THEN <<"BS">> ELSE <<"BS", "BS">>
                     [] OTHER -> <<c[i]>>])
TSVDec(f) ==
  LET F[i \in 0..Len(f)] ==
        IF i = 0 THEN [esc |-> FALSE, out |-> <<>>]
        ELSE LET x == F[i - 1] t == f[i] IN
             IF x.esc THEN [esc |-> FALSE, out |-> x.out \o (CASE t = "t" -> <<"TAB">> [] t = "n" -> <<"LF">>
                                                              [] t = "r" -> <<"CR">> [] t = "BS" -> <<"BS">>
                                                              [] OTHER -> <<"BS", t>>)]
             ELSE IF t = "BS" THEN [x EXCEPT !.esc = TRUE] ELSE [x EXCEPT !.out = Append(x.out, t)]
      x == F[Len(f)]
  IN IF x.esc THEN Append(x.out, "BS") ELSE x.out
\* st = [hdr, eol, final, lazy]
TSVText(st, s) ==
  LET rows == (IF st.hdr THEN <<KeysOf(s[1])>> ELSE <<>>) \o [i \in 1..Len(s) |-> DataRow(s, i)]
      enc(c) == IF st.lazy THEN TSVEncLazy(c) ELSE TSVEnc(c)
      body == JoinWith([i \in 1..Len(rows) |-> JoinWith([j \in 1..Len(rows[i]) |-> enc(rows[i][j])], <<"TAB">>)], st.eol)
  IN body \o (IF st.final THEN st.eol ELSE <<>>)
EncodeTSV(v, s) == TSVText([hdr |-> ~Headerless(v), eol |-> EOL(v), final |-> TRUE, lazy |-> FALSE], s)
DecodeTSV(v, t) ==
  LET ls == Lines(t)
      rows == [i \in 1..Len(ls) |-> LET fs == SplitOn(ls[i], "TAB") IN [j \in 1..Len(fs) |-> TSVDec(fs[j])]]
  IN ZipRows(v, rows)
RepresentableTSV(v, s) ==
  /\ HeaderWritable(s)
  /\ \A i \in 1..Len(s) : Distinct(KeysOf(s[i]))
  /\ \A i \in 1..Len(s) : KeysOf(s[i]) = KeysOf(s[1])      \* same unsparsify rules as CSV
  /\ Headerless(v) => Positional(KeysOf(s[1]))
  /\ \A j \in 1..Len(s[1]) : s[1][j][1] # <<>>              \* IANA: a field name is one or more characters
  /\ \A i \in 1..Len(s) : ~BlankRow(ValsOf(s[i]))           \* a lone empty field is an empty line

---------------------------------------------------------------------------
(* JSON and JSON Lines - RFC 8259 strings; records are flat objects whose values are strings (numbers, nesting:
   properties C03/C02).  file-formats.md: records are a sequence of objects or an array of objects; "whether you use
   --ijson or --ijsonl, Miller won't reject your input data for lack of outermost [...], nor ... for placement of
   newlines"; --ojson gives [...] and one pair per line, --ojsonl one record per line. *)
JHexOf(t) == CASE t = "a" -> <<"0", "0", "6", "1">> [] t = "b" -> <<"0", "0", "6", "2">>
               [] t = "f" -> <<"0", "0", "6", "6">> [] t = "n" -> <<"0", "0", "6", "e">>
               [] t = "r" -> <<"0", "0", "7", "2">> [] t = "t" -> <<"0", "0", "7", "4">>
               [] t = "u" -> <<"0", "0", "7", "5">> [] t = "1" -> <<"0", "0", "3", "1">>
               [] t = "Q" -> <<"0", "0", "2", "2">> [] t = "BS" -> <<"0", "0", "5", "c">>
               [] t = "SLASH" -> <<"0", "0", "2", "f">> [] t = "LF" -> <<"0", "0", "0", "a">>
               [] t = "CR" -> <<"0", "0", "0", "d">> [] t = "TAB" -> <<"0", "0", "0", "9">>
               [] t = "BSP" -> <<"0", "0", "0", "8">> [] t = "FF" -> <<"0", "0", "0", "c">>
               [] t = "C1" -> <<"0", "0", "0", "1">> [] t = "SP" -> <<"0", "0", "2", "0">>
               [] t = "COMMA" -> <<"0", "0", "2", "c">> [] t = "COLON" -> <<"0", "0", "3", "a">>
               [] t = "LBRACE" -> <<"0", "0", "7", "b">> [] t = "RBRACE" -> <<"0", "0", "7", "d">>
               [] t = "LBRACK" -> <<"0", "0", "5", "b">> [] t = "RBRACK" -> <<"0", "0", "5", "d">>
               [] t = "U2" -> <<"0", "0", "e", "9">>
               [] t = "k" -> <<"0", "0", "6", "b">>
               [] t = "m" -> <<"0", "0", "6", "d">>
               [] t = "x" -> <<"0", "0", "7", "8">>
               [] t = "y" -> <<"0", "0", "7", "9">>
               [] t = "z" -> <<"0", "0", "7", "a">>
               [] t = "c" -> <<"0", "0", "6", "3">>
               [] t = "d" -> <<"0", "0", "6", "4">>
               [] t = "e" -> <<"0", "0", "6", "5">>
               [] t = "0" -> <<"0", "0", "3", "0">>
               [] t = "2" -> <<"0", "0", "3", "2">>
               [] t = "3" -> <<"0", "0", "3", "3">>
               [] t = "4" -> <<"0", "0", "3", "4">>
               [] t = "5" -> <<"0", "0", "3", "5">>
               [] t = "6" -> <<"0", "0", "3", "6">>
               [] t = "7" -> <<"0", "0", "3", "7">>
               [] t = "8" -> <<"0", "0", "3", "8">>
               [] t = "9" -> <<"0", "0", "3", "9">>
JHexed == {"a", "b", "f", "n", "r", "t", "u", "1", "Q", "BS", "SLASH", "LF", "CR", "TAB", "BSP", "FF", "C1", "SP",
           "COMMA", "COLON", "LBRACE", "RBRACE", "LBRACK", "RBRACK", "U2", "k", "m", "x", "y", "z", "c", "d", "e", "0", "2", "3", "4", "5", "6", "7", "8", "9"}
JHi == <<"d", "8", "3", "d">>       \* U4 is U+1F600: the surrogate pair D83D DE00
JLo == <<"d", "e", "0", "0">>
JUnhex(h) == IF \E t \in JHexed : JHexOf(t) = h THEN CHOOSE t \in JHexed : JHexOf(t) = h ELSE "?"
JUpper(d) == CASE d = "a" -> "A" [] d = "b" -> "B" [] d = "c" -> "C" [] d = "d" -> "D" [] d = "e" -> "E" [] d = "f" -> "F" [] OTHER -> d
JLower(d) == CASE d = "A" -> "a" [] d = "B" -> "b" [] d = "C" -> "c" [] d = "D" -> "d" [] d = "E" -> "e" [] d = "F" -> "f" [] OTHER -> d
JHexDigits == {"0", "1", "2", "3", "4", "5", "6", "7", "8", "9", "a", "b", "c", "d", "e", "f", "A", "B", "C", "D", "E", "F"}
JU(up, h) == <<"BS", "u">> \o (IF up THEN [i \in 1..4 |-> JUpper(h[i])] ELSE h)
\* RFC 8259 section 7: quotation mark, reverse solidus and the control characters U+0000..U+001F must be escaped;
\* any character may be escaped; \" \\ \/ \b \f \n \r \t are the two-character forms.
JControls == {"LF", "CR", "TAB", "BSP", "FF", "C1"}
JChar(esc, t) ==
  IF esc \in {"u", "U"} THEN (IF t = "U4" THEN JU(esc = "U", JHi) \o JU(esc = "U", JLo) ELSE JU(esc = "U", JHexOf(t)))
  ELSE CASE t = "Q" -> <<"BS", "Q">> [] t = "BS" -> <<"BS", "BS">> [] t = "LF" -> <<"BS", "n">>
         [] t = "CR" -> <<"BS", "r">> [] t = "TAB" -> <<"BS", "t">> [] t = "BSP" -> <<"BS", "b">>
         [] t = "FF" -> <<"BS", "f">> [] t = "C1" -> JU(FALSE, JHexOf(t))
         [] t = "SLASH" -> (IF esc = "slash" THEN <<"BS", "SLASH">> ELSE <<t>>)
         [] OTHER -> <<t>>
JStr(esc, c) == <<"Q">> \o Cat([i \in 1..Len(c) |-> JChar(esc, c[i])]) \o <<"Q">>
JPair(st, p) == JStr(st.esc, p[1]) \o <<"COLON">> \o (IF st.sp THEN <<"SP">> ELSE <<>>) \o JStr(st.esc, p[2])
JObjLine(st, r) == <<"LBRACE">> \o JoinWith([j \in 1..Len(r) |-> JPair(st, r[j])],
                                            IF st.sp THEN <<"COMMA", "SP">> ELSE <<"COMMA">>) \o <<"RBRACE">>
JObjStack(st, r) == IF r = <<>> THEN <<"LBRACE", "RBRACE">>
                    ELSE <<"LBRACE", "LF">> \o JoinWith([j \in 1..Len(r) |-> <<"SP", "SP">> \o JPair(st, r[j])], <<"COMMA", "LF">>)
                         \o <<"LF", "RBRACE">>
\* st = [lay, esc, sp]
JSONText(st, s) ==
  CASE st.lay = "lines" -> Cat([i \in 1..Len(s) |-> JObjLine(st, s[i]) \o <<"LF">>])
    [] st.lay = "array" -> <<"LBRACK">> \o JoinWith([i \in 1..Len(s) |-> JObjLine(st, s[i])], <<"COMMA">>) \o <<"RBRACK", "LF">>
    [] st.lay = "stack" -> <<"LBRACK", "LF">> \o JoinWith([i \in 1..Len(s) |-> JObjStack(st, s[i])], <<"COMMA", "LF">>)
                           \o (IF s = <<>> THEN <<>> ELSE <<"LF">>) \o <<"RBRACK", "LF">>
    [] st.lay = "concat" -> Cat([i \in 1..Len(s) |-> JObjStack(st, s[i]) \o <<"LF">>])
EncodeJSON(v, s) == JSONText([lay |-> IF v = "jsonl" THEN "lines" ELSE IF v = "nowrap" THEN "concat" ELSE "stack",
                              esc |-> "min", sp |-> TRUE], s)

JWS == {"SP", "LF", "CR", "TAB"}
JInit == [m |-> "t0", str |-> <<>>, esc |-> 0, hex |-> <<>>, hi |-> FALSE, key |-> <<>>, r |-> <<>>, out |-> <<>>,
          arr |-> FALSE, bad |-> FALSE]
JFail(x) == [x EXCEPT !.bad = TRUE]
JCloseObj(x) == [x EXCEPT !.out = Append(x.out, x.r), !.r = <<>>, !.m = IF x.arr THEN "a1" ELSE "s1"]
\* one token inside a string (modes "ks", "vs")
JStrStep(x, t) ==
  CASE x.esc = 0 ->
         (IF x.hi THEN (IF t = "BS" THEN [x EXCEPT !.esc = 1] ELSE JFail(x))         \* a high surrogate needs its pair
          ELSE CASE t = "Q" -> (IF x.m = "ks" THEN [x EXCEPT !.key = x.str, !.str = <<>>, !.m = "c"]
                                ELSE [x EXCEPT !.r = Append(x.r, <<x.key, x.str>>), !.str = <<>>, !.m = "n"])
                 [] t = "BS" -> [x EXCEPT !.esc = 1]
                 [] t \in JControls -> JFail(x)
                 [] OTHER -> [x EXCEPT !.str = Append(x.str, t)])
    [] x.esc = 1 ->
         (IF x.hi /\ t # "u" THEN JFail(x)
          ELSE CASE t = "u" -> [x EXCEPT !.esc = 2, !.hex = <<>>]
                 [] t \in {"Q", "BS", "SLASH"} -> [x EXCEPT !.esc = 0, !.str = Append(x.str, t)]
                 [] t = "b" -> [x EXCEPT !.esc = 0, !.str = Append(x.str, "BSP")]
                 [] t = "f" -> [x EXCEPT !.esc = 0, !.str = Append(x.str, "FF")]
                 [] t = "n" -> [x EXCEPT !.esc = 0, !.str = Append(x.str, "LF")]
                 [] t = "r" -> [x EXCEPT !.esc = 0, !.str = Append(x.str, "CR")]
                 [] t = "t" -> [x EXCEPT !.esc = 0, !.str = Append(x.str, "TAB")]
                 [] OTHER -> JFail(x))
    [] OTHER ->
         (IF t \notin JHexDigits THEN JFail(x)
          ELSE LET h == Append(x.hex, JLower(t)) IN
               IF Len(h) < 4 THEN [x EXCEPT !.esc = x.esc + 1, !.hex = h]
               ELSE IF x.hi THEN (IF h = JLo THEN [x EXCEPT !.esc = 0, !.hi = FALSE, !.str = Append(x.str, "U4")] ELSE JFail(x))
               ELSE IF h = JHi THEN [x EXCEPT !.esc = 0, !.hi = TRUE]
               ELSE IF JUnhex(h) = "?" THEN JFail(x)
               ELSE [x EXCEPT !.esc = 0, !.str = Append(x.str, JUnhex(h))])
JStep(x, t) ==
  IF x.bad THEN x
  ELSE IF x.m \in {"ks", "vs"} THEN JStrStep(x, t)
  ELSE IF t \in JWS THEN x
  ELSE CASE x.m = "t0" -> (CASE t = "LBRACK" -> [x EXCEPT !.m = "a0", !.arr = TRUE]
                             [] t = "LBRACE" -> [x EXCEPT !.m = "k0"] [] OTHER -> JFail(x))
         [] x.m = "a0" -> (CASE t = "LBRACE" -> [x EXCEPT !.m = "k0"] [] t = "RBRACK" -> [x EXCEPT !.m = "end"] [] OTHER -> JFail(x))
         [] x.m = "a1" -> (CASE t = "COMMA" -> [x EXCEPT !.m = "a2"] [] t = "RBRACK" -> [x EXCEPT !.m = "end"] [] OTHER -> JFail(x))
         [] x.m = "a2" -> (IF t = "LBRACE" THEN [x EXCEPT !.m = "k0"] ELSE JFail(x))
         [] x.m = "s1" -> (IF t = "LBRACE" THEN [x EXCEPT !.m = "k0"] ELSE JFail(x))
         [] x.m = "end" -> JFail(x)
         [] x.m = "k0" -> (CASE t = "Q" -> [x EXCEPT !.m = "ks"] [] t = "RBRACE" -> JCloseObj(x) [] OTHER -> JFail(x))
         [] x.m = "k1" -> (IF t = "Q" THEN [x EXCEPT !.m = "ks"] ELSE JFail(x))
         [] x.m = "c" -> (IF t = "COLON" THEN [x EXCEPT !.m = "v"] ELSE JFail(x))
         [] x.m = "v" -> (IF t = "Q" THEN [x EXCEPT !.m = "vs"] ELSE JFail(x))      \* only string values are modelled
         [] x.m = "n" -> (CASE t = "COMMA" -> [x EXCEPT !.m = "k1"] [] t = "RBRACE" -> JCloseObj(x) [] OTHER -> JFail(x))
DecodeJSON(v, t) ==
  LET F[i \in 0..Len(t)] == IF i = 0 THEN JInit ELSE JStep(F[i - 1], t[i])
      x == F[Len(t)]
  IN IF x.bad \/ x.m \notin {"t0", "s1", "end"} THEN Bad
     ELSE IF \E i \in 1..Len(x.out) : ~Distinct(KeysOf(x.out[i])) THEN Bad     \* duplicate names: not modelled
     ELSE OK(x.out)
\* any flat record of strings, including the empty record and the empty string as a name
RepresentableJSON(v, s) == \A i \in 1..Len(s) : Distinct(KeysOf(s[i]))

---------------------------------------------------------------------------
(* The formats without any escaping: a cell must not contain what delimits it.  Common clauses: *)
\* a physical line cannot end in CR: "CR/LF line endings are accepted on input"
LineEndOK(c) == c = <<>> \/ Last(c) # "CR"
NoneOf(c, S) == ~HasAny(c, S)
\* width of a token on the screen (alignment only; the 4-byte representative is a double-width character)
Width(c) == LET F[i \in 0..Len(c)] == IF i = 0 THEN 0 ELSE F[i - 1] + (IF c[i] = "U4" THEN 2 ELSE 1) IN F[Len(c)]
PadTo(c, w, tok) == c \o Rep(tok, Max(0, w - Width(c)))
\* maximal runs of records with the same key list ("schema"), as index intervals <<lo, hi>>
BlockStarts(s) == SelectSeq([i \in 1..Len(s) |-> i], LAMBDA i : i = 1 \/ KeysOf(s[i]) # KeysOf(s[i - 1]))
Blocks(s) == LET b == BlockStarts(s) IN [n \in 1..Len(b) |-> <<b[n], IF n < Len(b) THEN b[n + 1] - 1 ELSE Len(s)>>]
\* reading blocks back: groups of lines separated by blank lines; the first line of a group is its header
LineGroups(ls) ==
  LET F[i \in 0..Len(ls)] ==
        IF i = 0 THEN << <<>> >>
        ELSE LET p == F[i - 1] IN IF ls[i] = <<>> THEN Append(p, <<>>) ELSE [p EXCEPT ![Len(p)] = Append(@, ls[i])]
  IN NonEmpty(F[Len(ls)])
\* header + data rows of one group -> records ("it's an error if the number of data fields doesn't match")
GroupRecs(rows) == IF ~Distinct(rows[1]) THEN Bad
                   ELSE AllOK([i \in 1..(Len(rows) - 1) |-> IF Len(rows[i + 1]) = Len(rows[1]) THEN OK(Zip(rows[1], rows[i + 1])) ELSE Bad])
FlatOK(rs) == LET a == AllOK(rs) IN IF a.ok THEN OK(Cat(a.recs)) ELSE Bad

(* DKVP (file-formats.md "DKVP: Key-value pairs", reference-main-separators.md): fields separated by FS, key and
   value by PS, records by newline; "Fields lacking an IPS will have positional index (starting at 1) used as the
   key".  special-symbols-and-formatting.md: no quoting, "commas within the data look like delimiters". *)
EncodeDKVP(v, s) == Cat([i \in 1..Len(s) |-> JoinWith([j \in 1..Len(s[i]) |-> s[i][j][1] \o <<"PS">> \o s[i][j][2]], <<"FS">>) \o <<"LF">>])
DKVPField(f, j) == LET k == FirstIdx(f, "PS") IN
                   IF k = 0 THEN <<NumKey(j), f>> ELSE <<SubSeq(f, 1, k - 1), SubSeq(f, k + 1, Len(f))>>
DecodeDKVP(v, t) ==
  LET ls == Lines(t)
      recs == [i \in 1..Len(ls) |-> IF ls[i] = <<>> THEN <<>>
                                    ELSE LET fs == SplitOn(ls[i], "FS") IN [j \in 1..Len(fs) |-> DKVPField(fs[j], j)]]
  IN IF \E i \in 1..Len(recs) : ~Distinct(KeysOf(recs[i])) THEN Bad ELSE OK(recs)
RepresentableDKVP(v, s) ==
  /\ \A i \in 1..Len(s) : Len(s[i]) >= 1 /\ Distinct(KeysOf(s[i]))
  /\ \A i \in 1..Len(s) : \A j \in 1..Len(s[i]) :
        /\ s[i][j][1] # <<>>                                   \* the documentation shows no pair without a key text
        /\ NoneOf(s[i][j][1], {"FS", "PS", "LF"}) /\ NoneOf(s[i][j][2], {"FS", "PS", "LF"})
  /\ \A i \in 1..Len(s) : LineEndOK(s[i][Len(s[i])][2])

(* NIDX (file-formats.md "NIDX: Index-numbered"): values separated by FS (default space), "integer field names
   starting with 1"; the keys are not written. *)
EncodeNIDX(v, s) == Cat([i \in 1..Len(s) |-> JoinWith(ValsOf(s[i]), <<"FS">>) \o <<"LF">>])
DecodeNIDX(v, t) ==
  LET ls == Lines(t)
  IN OK([i \in 1..Len(ls) |-> LET fs == SplitRuns(ls[i], "FS") IN [j \in 1..Len(fs) |-> <<NumKey(j), fs[j]>>]])
RepresentableNIDX(v, s) ==
  /\ \A i \in 1..Len(s) : Len(s[i]) >= 1 /\ Positional(KeysOf(s[i]))                   \* NIDX cannot carry keys
  /\ \A i \in 1..Len(s) : \A j \in 1..Len(s[i]) :
        s[i][j][2] # <<>> /\ NoneOf(s[i][j][2], {"FS", "LF"})                          \* repeated FS count as one
  /\ \A i \in 1..Len(s) : LineEndOK(s[i][Len(s[i])][2])

(* XTAB (file-formats.md "XTAB: Vertical tabular", reference-main-separators.md): one "key value" line per field,
   PS is "space with repeats" (keys are padded to a common width), records are separated by a blank line; the
   value is the rest of the line ("5 Unprivileged User"); special-symbols-and-formatting.md: no escaping. *)
\* st.pad: extra PS after the padded key (>= 1)
XTABText(pad, s) ==
  JoinWith([i \in 1..Len(s) |->
     LET w == CHOOSE w \in 0..1000 : (\A j \in 1..Len(s[i]) : Width(s[i][j][1]) <= w) /\ (\E j \in 1..Len(s[i]) : Width(s[i][j][1]) = w)
     IN Cat([j \in 1..Len(s[i]) |-> PadTo(s[i][j][1], w, "PS") \o Rep("PS", pad) \o s[i][j][2] \o <<"LF">>])], <<"LF">>)
EncodeXTAB(v, s) == XTABText(1, s)
XTABLine(l) == LET k == FirstIdx(l, "PS") IN
               IF k = 0 THEN <<l, <<>> >> ELSE <<SubSeq(l, 1, k - 1), TrimL(SubSeq(l, k, Len(l)), "PS")>>
DecodeXTAB(v, t) ==
  LET gs == LineGroups(Lines(t))
      recs == [i \in 1..Len(gs) |-> [j \in 1..Len(gs[i]) |-> XTABLine(gs[i][j])]]
  IN IF \E i \in 1..Len(recs) : ~Distinct(KeysOf(recs[i])) THEN Bad ELSE OK(recs)
RepresentableXTAB(v, s) ==
  /\ \A i \in 1..Len(s) : Len(s[i]) >= 1 /\ Distinct(KeysOf(s[i]))
  /\ \A i \in 1..Len(s) : \A j \in 1..Len(s[i]) :
        /\ s[i][j][1] # <<>> /\ NoneOf(s[i][j][1], {"PS", "LF"})                       \* the key ends at the first PS
        /\ NoneOf(s[i][j][2], {"LF"}) /\ LineEndOK(s[i][j][2])
        /\ (s[i][j][2] = <<>> \/ Head(s[i][j][2]) # "PS")                               \* leading PS are padding

(* PPRINT (file-formats.md "PPRINT: Pretty-printed tabular", record-heterogeneity.md): like CSV with column
   alignment, FS is "space with repeats"; a new header after a blank line when the keys change; an empty value is
   shown as "-" (and read back as empty).  --barred puts the cells between "| " and " |" under a +---+ border
   (--barred-input reads that).  al: "left" or "right"; gap: spaces between columns. *)
PPCell(c) == IF c = <<>> THEN <<"DASH">> ELSE c
PPBlockRows(s, b) == <<KeysOf(s[b[1]])>> \o [i \in 1..(b[2] - b[1] + 1) |-> [j \in 1..Len(s[b[1]]) |-> PPCell(s[b[1] + i - 1][j][2])]]
ColWidths(rows) == [j \in 1..Len(rows[1]) |->
                      CHOOSE w \in 0..1000 : (\A i \in 1..Len(rows) : Width(rows[i][j]) <= w) /\ (\E i \in 1..Len(rows) : Width(rows[i][j]) = w)]
PPAlign(al, c, w) == IF al = "right" THEN Rep("FS", Max(0, w - Width(c))) \o c ELSE PadTo(c, w, "FS")
PPRINTText(al, gap, s) ==
  LET bs == Blocks(s) IN
  JoinWith([n \in 1..Len(bs) |->
     LET rows == PPBlockRows(s, bs[n])  ws == ColWidths(rows) IN
     Cat([i \in 1..Len(rows) |-> JoinWith([j \in 1..Len(rows[i]) |-> PPAlign(al, rows[i][j], ws[j])], Rep("FS", gap)) \o <<"LF">>])], <<"LF">>)
BarLine(ws) == <<"PLUS">> \o Cat([j \in 1..Len(ws) |-> Rep("DASH", ws[j] + 2) \o <<"PLUS">>]) \o <<"LF">>
BarredText(s) ==
  LET bs == Blocks(s) IN
  JoinWith([n \in 1..Len(bs) |->
     LET rows == PPBlockRows(s, bs[n])  ws == ColWidths(rows)
         line(i) == <<"PIPE", "FS">> \o JoinWith([j \in 1..Len(rows[i]) |-> PadTo(rows[i][j], ws[j], "FS")], <<"FS", "PIPE", "FS">>) \o <<"FS", "PIPE", "LF">>
     IN BarLine(ws) \o line(1) \o BarLine(ws) \o Cat([i \in 1..(Len(rows) - 1) |-> line(i + 1)]) \o BarLine(ws)], <<"LF">>)
EncodePPRINT(v, s) == IF v = "barred" THEN BarredText(s) ELSE PPRINTText(IF v = "right" THEN "right" ELSE "left", 1, s)
UnDash(c) == IF c = <<"DASH">> THEN <<>> ELSE c
BarredCells(l) == LET p == SplitOn(l, "PIPE") IN [j \in 1..(Len(p) - 2) |-> Trim(p[j + 1], "FS")]
DecodePPRINT(v, t) ==
  LET ls0 == Lines(t)
      ls == IF v = "barred" THEN SelectSeq(ls0, LAMBDA l : l = <<>> \/ Head(l) # "PLUS") ELSE ls0
      gs == LineGroups(ls)
      cells(l) == IF v = "barred" THEN BarredCells(l) ELSE SplitRuns(l, "FS")
      rows(g) == [i \in 1..Len(g) |-> IF i = 1 THEN cells(g[i]) ELSE LET cs == cells(g[i]) IN [j \in 1..Len(cs) |-> UnDash(cs[j])]]
  IN FlatOK([n \in 1..Len(gs) |-> GroupRecs(rows(gs[n]))])
\* whitespace-aligned display format: the documentation says nothing about control whitespace inside cells
PPForbidden(v) == IF v = "barred" THEN {"FS", "LF", "CR", "TAB", "PIPE"} ELSE {"FS", "LF", "CR", "TAB"}
RepresentablePPRINT(v, s) ==
  /\ \A i \in 1..Len(s) : Len(s[i]) >= 1 /\ Distinct(KeysOf(s[i]))
  /\ \A i \in 1..Len(s) : \A j \in 1..Len(s[i]) :
        /\ s[i][j][1] # <<>> /\ NoneOf(s[i][j][1], PPForbidden(v)) /\ NoneOf(s[i][j][2], PPForbidden(v))
        /\ s[i][j][2] # <<"DASH">>                                  \* "-" stands for the empty value
        /\ (v = "barred" => Head(s[i][j][1]) # "PLUS")              \* a line starting with + is a border
  \* a schema change is marked by a blank line and a new header, so every record of a block has the block's keys;
  \* nothing else is needed: blocks are maximal runs

(* Markdown (file-formats.md "Markdown tabular"; separators: FS is "one or more spaces, then |, then one or more
   spaces", RS newline): header line, | --- | line, data lines; a new table after a blank line when keys change. *)
MDLine(cells) == <<"PIPE", "FS">> \o JoinWith(cells, <<"FS", "PIPE", "FS">>) \o <<"FS", "PIPE", "LF">>
EncodeMD(v, s) ==
  LET bs == Blocks(s) IN
  JoinWith([n \in 1..Len(bs) |->
     MDLine(KeysOf(s[bs[n][1]])) \o MDLine([j \in 1..Len(s[bs[n][1]]) |-> <<"DASH", "DASH", "DASH">>])
     \o Cat([i \in 1..(bs[n][2] - bs[n][1] + 1) |-> MDLine(ValsOf(s[bs[n][1] + i - 1]))])], <<"LF">>)
DecodeMD(v, t) ==
  LET gs == LineGroups(Lines(t))
      rows(g) == [i \in 1..(Len(g) - 1) |-> BarredCells(g[IF i = 1 THEN 1 ELSE i + 1])]      \* line 2 is the --- line
  IN FlatOK([n \in 1..Len(gs) |-> IF Len(gs[n]) < 2 THEN Bad ELSE GroupRecs(rows(gs[n]))])
RepresentableMD(v, s) ==
  /\ \A i \in 1..Len(s) : Len(s[i]) >= 1 /\ Distinct(KeysOf(s[i]))
  /\ \A i \in 1..Len(s) : \A j \in 1..Len(s[i]) : \A c \in {s[i][j][1], s[i][j][2]} :
        /\ NoneOf(c, {"PIPE", "LF", "CR", "TAB"})
        /\ (c = <<>> \/ (Head(c) # "FS" /\ Last(c) # "FS"))         \* spaces next to the | belong to the separator
  /\ \A i \in 1..Len(s) : \A j \in 1..Len(s[i]) : s[i][j][1] # <<>>

(* CSV-lite (file-formats.md, "differences between CSV and CSV-lite"): "naively splits lines on newline, and fields
   on comma -- embedded commas and newlines are not escaped in any way"; quotes are data; a schema change is written
   as "a newline and ... the header" again and read back the same way (record-heterogeneity.md). *)
EncodeCSVLite(v, s) ==
  LET bs == Blocks(s) IN
  JoinWith([n \in 1..Len(bs) |->
     (IF Headerless(v) THEN <<>> ELSE JoinWith(KeysOf(s[bs[n][1]]), <<"FS">>) \o <<"LF">>)
     \o Cat([i \in 1..(bs[n][2] - bs[n][1] + 1) |-> JoinWith(ValsOf(s[bs[n][1] + i - 1]), <<"FS">>) \o <<"LF">>])], <<"LF">>)
DecodeCSVLite(v, t) ==
  LET ls == Lines(StripBOM(t))
      gs == LineGroups(ls)
      rows(g) == [i \in 1..Len(g) |-> SplitOn(g[i], "FS")]
  IN IF Headerless(v) THEN ZipRows(v, rows(ls)) ELSE FlatOK([n \in 1..Len(gs) |-> GroupRecs(rows(gs[n]))])
RepresentableCSVLite(v, s) ==
  /\ \A i \in 1..Len(s) : Len(s[i]) >= 1 /\ Distinct(KeysOf(s[i]))
  /\ \A i \in 1..Len(s) : \A j \in 1..Len(s[i]) : NoneOf(s[i][j][1], {"FS", "LF"}) /\ NoneOf(s[i][j][2], {"FS", "LF"})
  /\ \A i \in 1..Len(s) : LineEndOK(s[i][Len(s[i])][1]) /\ LineEndOK(s[i][Len(s[i])][2])
  /\ \A i \in 1..Len(s) : ~BlankRow(KeysOf(s[i])) /\ ~BlankRow(ValsOf(s[i]))          \* a blank line ends a block
  /\ Headerless(v) => \A i \in 1..Len(s) : Positional(KeysOf(s[i])) /\ KeysOf(s[i]) = KeysOf(s[1])

---------------------------------------------------------------------------
(* dispatch *)
Formats == {"csv", "tsv", "json", "dkvp", "nidx", "xtab", "pprint", "markdown", "csvlite"}
Standard == {"csv", "tsv", "json"}           \* the formats with an outside standard: RFC 4180, IANA TSV, RFC 8259
Encode(f, v, s) == CASE f = "csv" -> EncodeCSV(v, s) [] f = "tsv" -> EncodeTSV(v, s) [] f = "json" -> EncodeJSON(v, s)
                     [] f = "dkvp" -> EncodeDKVP(v, s) [] f = "nidx" -> EncodeNIDX(v, s) [] f = "xtab" -> EncodeXTAB(v, s)
                     [] f = "pprint" -> EncodePPRINT(v, s) [] f = "markdown" -> EncodeMD(v, s) [] f = "csvlite" -> EncodeCSVLite(v, s)
Decode(f, v, t) == CASE f = "csv" -> DecodeCSV(v, t) [] f = "tsv" -> DecodeTSV(v, t) [] f = "json" -> DecodeJSON(v, t)
                     [] f = "dkvp" -> DecodeDKVP(v, t) [] f = "nidx" -> DecodeNIDX(v, t) [] f = "xtab" -> DecodeXTAB(v, t)
                     [] f = "pprint" -> DecodePPRINT(v, t) [] f = "markdown" -> DecodeMD(v, t) [] f = "csvlite" -> DecodeCSVLite(v, t)
Representable(f, v, s) ==
  CASE f = "csv" -> RepresentableCSV(v, s) [] f = "tsv" -> RepresentableTSV(v, s) [] f = "json" -> RepresentableJSON(v, s)
    [] f = "dkvp" -> RepresentableDKVP(v, s) [] f = "nidx" -> RepresentableNIDX(v, s) [] f = "xtab" -> RepresentableXTAB(v, s)
    [] f = "pprint" -> RepresentablePPRINT(v, s) [] f = "markdown" -> RepresentableMD(v, s) [] f = "csvlite" -> RepresentableCSVLite(v, s)

=============================================================================
