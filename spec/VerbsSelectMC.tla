----------------------------- MODULE VerbsSelectMC -----------------------------
(* The laws of C11 on the specification itself, over the whole bounded space. *)
EXTENDS VerbsSelectCases
VARIABLE s
Init == s \in Streams
Next == UNCHANGED s
Laws == /\ \A c \in Configs : OnlySelects(c, s)
        /\ \A k \in 0..(MaxLen + 1) : HeadTailSplit(s, k)
        /\ \A e \in Exprs : FilterPartition(e, s)
        /\ TacTwice(s)
        /\ \A g \in Gs : GroupSizesAddUp(s, g) /\ GroupByIsPermOfKeyed(s, g)
        /\ \A c \in Configs : Deterministic(c) => Allowed(c, s, Expected(c, s))
=============================================================================
