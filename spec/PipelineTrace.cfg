INIT TInit
NEXT TNext
CONSTANTS
  Configs = {}
  DoneSendBlocking = FALSE
  ExitStops = FALSE
  FirstErrorOnly = FALSE
  TraceFile = "traces.ndjson"
CONSTRAINT Track
INVARIANTS TypeOK PrefixOrder OutputCorrect SuccessDeterministic FailDeterministic
POSTCONDITION Report
CHECK_DEADLOCK FALSE
