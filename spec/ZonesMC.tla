------------------------------- MODULE ZonesMC -------------------------------
(***************************************************************************)
(* The laws of the zone part of C16, proved by TLC on the specification:    *)
(*  Table    - every segment is well formed: transitions strictly ordered   *)
(*             inside the segment, each changes something, offsets are      *)
(*             whole minutes within +-14 h, segments of a zone are disjoint;*)
(*  Lookup   - the bisection equals the definition (the last transition not *)
(*             after t), so offsets are constant between transitions and    *)
(*             change exactly at them;                                      *)
(*  Inverse  - every instant has one local time and is among the candidates *)
(*             of that local time; a local time has 0, 1 or 2 candidates;   *)
(*             0 exactly inside the gap of a transition that moves the      *)
(*             clock forward, 2 exactly inside the overlap of one that      *)
(*             moves it back;                                               *)
(*  RoundTrip- a text with the offset in force written out (%z) denotes its *)
(*             instant again, for ALL instants incl. both occurrences of an *)
(*             overlap, whose texts differ only in the offset; a text       *)
(*             without zone information rebuilds the local time;            *)
(*  Routes   - every setting of the case space selects its zone, and the    *)
(*             other routes name different zones;                           *)
(*  Examples - the worked examples of the reference.                        *)
(* One state per (segment, share of its instants); the states are visited   *)
(* along a binary tree so that TLC's workers share them.  The constants set *)
(* how dense the instants are.                                              *)
(***************************************************************************)
EXTENDS ZonesCases
CONSTANTS DayStep,      \* Lookup / Inverse on one instant every DayStep days (at an hour that rotates with the day) ...
          NearStep,     \* ... and on every NearStep seconds within 26 hours of every transition
          Parts         \* each segment's instants are dealt out to this many states
VARIABLE b
Init == b = 0
Next == \E j \in 1..2 : 2 * b + j < NSegs * Parts /\ b' = 2 * b + j
k == (b % NSegs) + 1
part == b \div NSegs
sg == Segs[k]

\* ---- Table ---------------------------------------------------------------------------------------------
StateOk(st) == st.off % 60 = 0 /\ st.off >= -50400 /\ st.off <= 50400 /\ st.dst \in BOOLEAN
Table ==
  /\ sg.zone \in {ZoneNames[i] : i \in 1..NZ} /\ sg.y1 <= sg.y2 /\ Lt(sg.lo, sg.hi) /\ StateOk(sg.init)
  /\ \A i \in 1..Len(sg.tr) :
       /\ StateOk(sg.tr[i]) /\ Lt(sg.lo, sg.tr[i].at) /\ Lt(sg.tr[i].at, sg.hi) /\ sg.tr[i].at[2] \in 0..86399
       /\ (i > 1 => Lt(sg.tr[i - 1].at, sg.tr[i].at))
       /\ (sg.tr[i].off # Before(sg, i).off \/ sg.tr[i].abbr # Before(sg, i).abbr \/ sg.tr[i].dst # Before(sg, i).dst)
       \* gaps and overlaps of neighbouring transitions stay apart
       /\ (i > 1 => Lt(Plus(sg.tr[i - 1].at, 172800), sg.tr[i].at))
  /\ \A j \in 1..NSegs : (j # k /\ Segs[j].zone = sg.zone) => (Leq(sg.hi, Segs[j].lo) \/ Leq(Segs[j].hi, sg.lo))

\* ---- the instants the laws run over ------------------------------------------------------------------------
Span == sg.hi[1] - sg.lo[1]
Daily == {<<sg.lo[1] + d, ((sg.lo[1] + d) % 24) * 3600 + ((sg.lo[1] + d) % 4) * 900>>
          : d \in {j * DayStep : j \in {i \in 0..((Span - 1) \div DayStep) : i % Parts = part}}}
Near(i) == {Plus(sg.tr[i].at, e) : e \in {j * NearStep : j \in (-(93600 \div NearStep))..(93600 \div NearStep)} \cup {-1, 1}}
MyTr == {i \in 1..Len(sg.tr) : i % Parts = part}
NearAll == UNION {Near(i) : i \in MyTr}
Instants == {t \in Daily \cup NearAll : InSeg(sg, t)}
\* far enough inside the segment for every candidate of t, read as a local time, to lie inside it
SafeL(t) == InSeg(sg, Plus(t, -172800)) /\ InSeg(sg, Plus(t, 172800))
\* a sparser set for the laws that build texts: three hours around every transition, and one instant a month
Sparse == {t \in UNION {{Plus(sg.tr[i].at, e) : e \in {j * 1800 : j \in -6..6} \cup {-1, 1}} : i \in MyTr}
                 \cup {<<sg.lo[1] + 3 + 30 * j, (j % 24) * 3600 + 1799>> : j \in {i \in 0..((Span - 6) \div 30) : i % Parts = part}} : Safe(sg, t)}
Edges == {t \in UNION {{Plus(sg.tr[i].at, e) : e \in {-1, 0}} : i \in MyTr} \cup {Plus(sg.lo, 200000)} : Safe(sg, t)}

\* ---- Lookup ----------------------------------------------------------------------------------------------
Lookup ==
  /\ \A t \in Instants : StateIn(sg, t) = StateDef(sg, t)
  /\ \A i \in MyTr : StateIn(sg, sg.tr[i].at) = sg.tr[i] /\ StateIn(sg, Plus(sg.tr[i].at, -1)) = Before(sg, i)
  /\ StateIn(sg, sg.lo) = sg.init

\* ---- Inverse ---------------------------------------------------------------------------------------------
InGapDef(L) == \E i \in 1..Len(sg.tr) : GapOf(sg, i, L)
InOverlapDef(L) == \E i \in 1..Len(sg.tr) : OverlapOf(sg, i, L)
\* the same, looking only at the one transition that can matter: transitions are more than two days apart (Table) and a
\* gap or overlap lies within 14 hours of its transition, so it is the last transition not after L + 14 h (NearLaw
\* compares the two forms on the sparse instants and on every gap point)
NearIdx(L) == CountLeq(sg.tr, Plus(L, 50400), 0, Len(sg.tr))
InGap(L) == NearIdx(L) > 0 /\ GapOf(sg, NearIdx(L), L)
InOverlap(L) == NearIdx(L) > 0 /\ OverlapOf(sg, NearIdx(L), L)
LocalLaw(L) ==
  LET C == Candidates(sg, L) IN
  /\ Cardinality(C) \in 0..2
  /\ (C = {}) = InGap(L)
  /\ (Cardinality(C) = 2) = InOverlap(L)
  /\ ~(InGap(L) /\ InOverlap(L))
  /\ \A c \in C : Local(sg, c) = L
InstantLaw(t) ==
  LET L == Local(sg, t) IN
  /\ L[2] \in 0..86399
  /\ (Safe(sg, t) => t \in Candidates(sg, L) /\ ~InGap(L))
\* local times taken as they are (they include times inside gaps), and the local times of the instants
NearLaw(L) == InGap(L) = InGapDef(L) /\ InOverlap(L) = InOverlapDef(L)
Inverse ==
  /\ \A t \in Sparse : NearLaw(t) /\ NearLaw(Local(sg, t))
  /\ \A i \in MyTr : IsGap(sg, i) => \A L \in GapPoints(sg, i) : NearLaw(L)
  /\ \A t \in Instants : InstantLaw(t) /\ (SafeL(t) => LocalLaw(t) /\ LocalLaw(Local(sg, t)))
  \* the gap / overlap of a transition is as long as the clock moves
  /\ \A i \in MyTr :
       LET a == sg.tr[i].at  o == Before(sg, i).off  n == sg.tr[i].off IN
       /\ (n > o => GapOf(sg, i, Plus(a, o)) /\ GapOf(sg, i, Plus(a, n - 1)) /\ ~GapOf(sg, i, Plus(a, n)) /\ ~GapOf(sg, i, Plus(a, o - 1)))
       /\ (n < o => OverlapOf(sg, i, Plus(a, n)) /\ OverlapOf(sg, i, Plus(a, o - 1)) /\ ~OverlapOf(sg, i, Plus(a, o))
                    /\ Candidates(sg, Plus(a, n)) = {Plus(a, n - o), a})
       /\ (n > o /\ Safe(sg, a) => \A L \in GapPoints(sg, i) : GapOf(sg, i, L) /\ Candidates(sg, L) = {})

\* ---- RoundTrip -------------------------------------------------------------------------------------------
\* the instant a text with %z denotes: the shown local fields, less the shown offset
RoundTripLaw(t) ==
  LET st == StateIn(sg, t)
      L  == Plus(t, st.off)
      C  == Candidates(sg, L)
      own == P("strptime_local", 0, PlainZ, Own)
  IN /\ Plus(L, -st.off) = t
     /\ Recover(Plain, Fields(L[1], L[2], 0)) = L /\ Determines(Plain) /\ Determines(PlainZ)
     /\ \A i \in 1..Len(LocalParse) : Determines(LocalParse[i]) /\ Recover(LocalParse[i], Fields(L[1], L[2], 0)) = L
     /\ Denoted(own, sg, t) = {t}
     /\ ParseInput(own, sg, t, 0) \in LocalFormatted(PlainZ, sg, t, 0)         \* the text to be parsed is the text printed
     /\ ParseInput(P("strptime_local", 0, Plain, NoZone), sg, t, 0) \in LocalFormatted(Plain, sg, t, 0)
     /\ \A c \in C : c # t => /\ LocalFormatted(Plain, sg, c, 0) = LocalFormatted(Plain, sg, t, 0)
                              /\ LocalFormatted(PlainZ, sg, c, 0) \cap LocalFormatted(PlainZ, sg, t, 0) = {}
                              /\ StateIn(sg, c).off # st.off
     /\ \A i \in 1..Len(FixedOffsets) : Plus(Plus(t, FixedOffsets[i] * 60), -(FixedOffsets[i] * 60)) = t
RoundTrip ==
  /\ \A t \in Sparse : RoundTripLaw(t)
  \* every probe of the case space has an answer
  /\ \A t \in Edges : \A i \in 1..Len(LocProbes) : Asked(LocProbes[i], sg, t) => Allowed(LocProbes[i], sg, t, 0) # {}

\* ---- Routes ----------------------------------------------------------------------------------------------
Routes4 == {Routes[i] : i \in 1..4}
RoutesLaw ==
  \A r \in Routes4 :
    LET set == Setting(r, sg.zone) IN
    /\ EffectiveZone(set) = sg.zone
    /\ \A other \in {set.arg, set.env, set.flag, set.var} \ {"", sg.zone} : other \in {ZoneNames[i] : i \in 1..NZ}
    /\ (r = "arg" => set.arg = sg.zone /\ set.env # "" /\ set.env # sg.zone /\ set.flag # "" /\ set.var # "")
    /\ (r = "env" => set.arg = "" /\ set.env = sg.zone /\ set.flag # "" /\ set.var # "")
    /\ (r = "flag" => set.arg = "" /\ set.env = "" /\ set.flag = sg.zone /\ set.var # "" /\ set.var # sg.zone)
    /\ (r = "var" => set.arg = "" /\ set.env = "" /\ set.flag = "" /\ set.var = sg.zone)

\* ---- the worked examples of the reference (each under the segment that holds it) -------------------------------------
Ex(z, t) == sg.zone = z /\ InSeg(sg, t)
Examples ==
  /\ (Ex("Asia/Istanbul", <<0, 0>>) =>
        /\ Stamp(Local(sg, <<0, 0>>), 0, 0) = "1970-01-01 02:00:00" /\ DateText(Local(sg, <<0, 0>>)[1]) = "1970-01-01"
        /\ Candidates(sg, Utc(1970, 1, 1, 0)) = {<<-1, 79200>>} /\ IsoText(-1, 79200, 0, 0) = "1969-12-31T22:00:00Z")
  /\ (Ex("America/Sao_Paulo", <<0, 0>>) =>
        /\ Stamp(Local(sg, <<0, 0>>), 0, 0) = "1969-12-31 21:00:00" /\ DateText(Local(sg, <<0, 0>>)[1]) = "1969-12-31"
        /\ Candidates(sg, Utc(1970, 1, 1, 0)) = {<<0, 10800>>})
  /\ (Ex("Asia/Istanbul", <<10958, 3845>>) =>
        /\ Candidates(sg, Utc(2000, 1, 2, 11045)) = {<<10958, 3845>>} /\ SecsText(10958, 3845) = "946775045"
        /\ Stamp(Local(sg, <<10956, 79200>>), 0, 0) = "2000-01-01 00:00:00"
        /\ Candidates(sg, Utc(2001, 2, 3, 14706)) = {<<11356, 7506>>} /\ SecsText(11356, 7506) = "981165906"
        /\ Stamp(Local(sg, <<14288, 84690>>), 123456000, 6) = "2009-02-14 01:31:30.123456"
        /\ "2015-08-28 16:33:21 +0300" \in LocalFormatted(PlainZ, sg, <<16675, 48801>>, 0)
        /\ "2015-08-28 16:33:21.700 +0300" \in LocalFormatted(Frac3Z, sg, <<16675, 48801>>, 700000000)
        /\ "2015-08-28 16:33:21.123456789 +0300" \in LocalFormatted(Frac9Z, sg, <<16675, 48801>>, 123456789)
        /\ DateText(Local(sg, <<16675, 48801>>)[1]) = "2015-08-28"
        /\ Candidates(sg, Utc(2015, 8, 28, 48801)) = {<<16675, 38001>>} /\ SecsText(16675, 38001) = "1440758001")
  /\ (Ex("America/Sao_Paulo", <<10958, 18245>>) => Candidates(sg, Utc(2000, 1, 2, 11045)) = {<<10958, 18245>>} /\ SecsText(10958, 18245) = "946789445")
  /\ (Ex("America/Anchorage", <<0, 0>>) =>
        /\ "1969-12-31 14:00:00 AHST" \in LocalFormatted(PlainN, sg, <<0, 0>>, 0) /\ "1969-12-31 14:00:00 -1000" \in LocalFormatted(PlainZ, sg, <<0, 0>>, 0)
        /\ "Wednesday, December 31, 1969" \in LocalFormatted(<<"%A", ", ", "%B", " ", "%e", ", ", "%Y">>, sg, <<0, 0>>, 0))
  /\ (Ex("America/Anchorage", <<18322, 32400>>) => Candidates(sg, Utc(2020, 3, 1, 0)) = {<<18322, 32400>>} /\ SecsText(18322, 32400) = "1583053200")
  /\ (Ex("Asia/Hong_Kong", <<0, 0>>) =>
        /\ "1970-01-01 08:00:00 HKT" \in LocalFormatted(PlainN, sg, <<0, 0>>, 0) /\ "1970-01-01 08:00:00 +0800" \in LocalFormatted(PlainZ, sg, <<0, 0>>, 0)
        /\ "Thursday, January  1, 1970" \in LocalFormatted(<<"%A", ", ", "%B", " ", "%e", ", ", "%Y">>, sg, <<0, 0>>, 0))
  /\ (Ex("Asia/Hong_Kong", <<18321, 57600>>) => Candidates(sg, Utc(2020, 3, 1, 0)) = {<<18321, 57600>>} /\ SecsText(18321, 57600) = "1582992000")
  \* shapes of the table that the cases rely on
  /\ (Ex("America/New_York", Utc(2024, 7, 1, 0)) =>
        /\ Candidates(sg, Utc(2024, 3, 10, 9000)) = {}                                          \* 02:30 on the day the clocks go forward
        /\ Candidates(sg, Utc(2024, 11, 3, 5400)) = {Utc(2024, 11, 3, 19800), Utc(2024, 11, 3, 23400)}   \* 01:30 twice: 05:30Z EDT, 06:30Z EST
        /\ Offset(sg, Utc(2024, 7, 1, 0)) = -14400 /\ Offset(sg, Utc(2024, 12, 1, 0)) = -18000
        /\ Offset(sg, Utc(2006, 3, 20, 0)) = -18000 /\ Offset(sg, Utc(2007, 3, 20, 0)) = -14400)  \* the rule changed in 2007
  /\ (Ex("Pacific/Apia", Utc(2011, 12, 30, 36000)) =>
        /\ Stamp(Local(sg, Utc(2011, 12, 30, 35999)), 0, 0) = "2011-12-29 23:59:59" /\ Stamp(Local(sg, Utc(2011, 12, 30, 36000)), 0, 0) = "2011-12-31 00:00:00"
        /\ Candidates(sg, Utc(2011, 12, 30, 43200)) = {})                                       \* the whole of 2011-12-30 is missing
  /\ (Ex("Australia/Lord_Howe", Utc(2024, 4, 6, 54000)) =>
        /\ Cardinality(Candidates(sg, Utc(2024, 4, 7, 6300))) = 2 /\ Cardinality(Candidates(sg, Utc(2024, 4, 7, 5399))) = 1   \* 01:45 twice, 01:29:59 once
        /\ Candidates(sg, Utc(2024, 10, 6, 7200)) = {} /\ Cardinality(Candidates(sg, Utc(2024, 10, 6, 9000))) = 1)          \* 02:00 missing, 02:30 there
  /\ (Ex("Asia/Kathmandu", Utc(1986, 1, 1, 0)) => Candidates(sg, Utc(1986, 1, 1, 600)) = {} /\ Cardinality(Candidates(sg, Utc(1986, 1, 1, 900))) = 1)
  /\ (Ex("Europe/London", <<0, 0>>) => Stamp(Local(sg, <<0, 0>>), 0, 0) = "1970-01-01 01:00:00")   \* British Standard Time
  /\ (Ex("Asia/Istanbul", Utc(2016, 9, 7, 0)) =>
        /\ StateIn(sg, Utc(2016, 9, 6, 75599)).abbr = "EEST" /\ StateIn(sg, Utc(2016, 9, 6, 75600)).abbr = "+03"
        /\ Offset(sg, Utc(2016, 9, 6, 75599)) = Offset(sg, Utc(2016, 9, 6, 75600)) /\ Offset(sg, Utc(2030, 1, 1, 0)) = 10800)
  /\ OffsetText(-150) = "-0230" /\ OffsetText(345) = "+0545" /\ OffsetText(840) = "+1400"
  /\ EffectiveZone([arg |-> "A", env |-> "B", flag |-> "C", var |-> "D"]) = "A" /\ EffectiveZone([arg |-> "", env |-> "B", flag |-> "C", var |-> "D"]) = "B"
  /\ EffectiveZone([arg |-> "", env |-> "", flag |-> "C", var |-> "D"]) = "C" /\ EffectiveZone([arg |-> "", env |-> "", flag |-> "", var |-> "D"]) = "D"

Laws == Table /\ Lookup /\ Inverse /\ RoundTrip /\ RoutesLaw /\ Examples
=============================================================================
