------------------------------- MODULE CodecObs -------------------------------
(* Judges what the real mlr did for each case.  A line is
   [k, f, v, fam, st, s, text, back, idem, ok]:
     "rt": text = the real writer's output for s (tokenised), back = what the real reader made of it, idem = the
           real writer applied to back gave the same bytes again, ok = every process exited 0;
     "tx": text = a legal spelling produced by the specification, back = what the real reader made of it. *)
EXTENDS Codec, Json
CONSTANT ObsFile
Obs == ndJsonDeserialize(ObsFile)
VARIABLE l
Init == l = 1
Next == l < Len(Obs) /\ l' = l + 1

FirstDiff(a, b) == LET n == Min(Len(a), Len(b))
                       d == {i \in 1..n : a[i] # b[i]}
                   IN IF d = {} THEN (IF Len(a) = Len(b) THEN 0 ELSE n + 1) ELSE CHOOSE i \in d : \A j \in d : i <= j
Whys(o) ==
  IF o.k = "rt"
  THEN (IF o.ok THEN {} ELSE {"exit"})
       \cup (IF o.ok /\ o.back # o.s THEN {"back"} ELSE {})                       \* real read . real write = identity
       \cup (IF o.ok /\ ~o.idem THEN {"idem"} ELSE {})                            \* mlr --fmt cat is idempotent on its own output
       \cup (IF o.ok /\ o.f \in Standard /\ Decode(o.f, o.v, o.text) # OK(o.s) THEN {"std"} ELSE {})   \* the standard reader recovers the cells
  ELSE LET d == Decode(o.f, o.v, o.text) IN
       (IF o.ok THEN {} ELSE {"exit"})
       \cup (IF ~d.ok \/ d.recs # o.s THEN {"spec"} ELSE {})                      \* cannot happen (CodecMC)
       \cup (IF o.ok /\ o.back # o.s THEN {"read"} ELSE {})                       \* the real reader recovers the cells of a legal spelling
\* not verdicts: does the real text mean the same to the specification's reader of a non-standard format, is it
\* byte-for-byte the specification's own spelling
Diag(o) == IF o.k # "rt" \/ ~o.ok THEN {}
           ELSE (IF o.f \notin Standard /\ Decode(o.f, o.v, o.text) # OK(o.s) THEN {"drift"} ELSE {})
                \cup (IF o.text # Encode(o.f, o.v, o.s) THEN {"bytes"} ELSE {})
Conforms == LET o == Obs[l] IN
  /\ Whys(o) = {} \/ PrintT(ToJson([line |-> l, whys |-> Whys(o), rec |-> FirstDiff(o.s, o.back)]))
  /\ Diag(o) = {} \/ PrintT(ToJson([dline |-> l, diag |-> Diag(o)]))
=============================================================================
