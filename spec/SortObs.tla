------------------------------- MODULE SortObs -------------------------------
(* Judges what the real mlr printed for each case.  A line is                 *)
(*   [fam |-> "sort", c, s, out, exit]   (mlr sort)                           *)
(*   [fam |-> "swr", o, r, out, exit]    (sort-within-records, one record)    *)
(*   [fam |-> "top", c, s, out, exit]                                         *)
(*   [fam |-> "fn", c, in, out, exit]    (DSL sort / sort_collection)         *)
(* Non-conforming lines are printed with the failing clause (never fails).    *)
EXTENDS Sort, Json
CONSTANT ObsFile
Obs == ndJsonDeserialize(ObsFile)
VARIABLE l
Init == l = 1
Next == l < Len(Obs) /\ l' = l + 1
Ok(o) == CASE o.fam = "sort" -> ValidSort(o.c, o.s, o.out)
           [] o.fam = "swr" -> ValidSWR(o.o, o.r, o.out)
           [] o.fam = "top" -> ValidTop(o.c, o.s, o.out)
           [] o.fam = "fn" -> ValidFn(o.c, o.in, o.out)
Why(o) == CASE o.exit # 0 -> "exit"
            [] o.fam = "sort" -> WhySort(o.c, o.s, o.out)
            [] o.fam = "fn" -> WhyFn(o.c, o.in, o.out)
            [] OTHER -> "invalid"
Mix(o) == IF o.exit = 0 /\ o.fam = "fn" THEN KeyMix(o.c, o.in) ELSE "n/a"
Conforms == LET o == Obs[l] IN
   (o.exit = 0 /\ Ok(o)) \/ PrintT(ToJson([line |-> l, why |-> Why(o), keymix |-> Mix(o)]))
\* for information only: outputs of mlr sort that are valid but not a stable sort (the help text's stronger claim)
StableInfo == LET o == Obs[l] IN
   (o.fam = "sort" /\ o.exit = 0 /\ ValidSort(o.c, o.s, o.out) /\ ~StableSort(o.c, o.s, o.out))
      => PrintT(ToJson([line |-> l, unstable |-> TRUE]))
=============================================================================
