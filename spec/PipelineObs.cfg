INIT Init
NEXT Next
CONSTANT ObsFile = "obs.ndjson"
INVARIANT Conforms
CHECK_DEADLOCK FALSE
