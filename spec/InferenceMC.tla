----------------------------- MODULE InferenceMC -----------------------------
(* Guards the recogniser: on all token strings up to MaxLen over the numeric alphabet it must agree with an   *)
(* independent set-based description of the grammar, be total, and be stable under the flag laws.             *)
EXTENDS Inference
CONSTANT MaxLen
Alphabet == {"0", "1", "7", "8", "9", "+", "-", ".", "e", "E", "x", "X", "o", "b", "a", "f", "F", "_", " "}
VARIABLE s
Init == s = <<>>
Next == Len(s) < MaxLen /\ \E c \in Alphabet : s' = Append(s, c)
\* independent description: the set of all int spellings of length <= MaxLen, built by concatenation
Cat(A, B) == {a \o b : a \in A, b \in B}
Seqs(S, lo, hi) == UNION {[1..n -> S] : n \in lo..hi}
OptSign == {<<>>, <<"+">>, <<"-">>}
DecInts == Cat(OptSign, {d \in Seqs(Digits \cap Alphabet, 1, MaxLen) : Len(d) = 1 \/ d[1] # "0"})
HexInts == Cat(OptSign, Cat({<<"0", "x">>}, Seqs(HexDigits \cap Alphabet, 1, MaxLen)))
BinInts == Cat(OptSign, Cat({<<"0", "b">>}, Seqs(BinDigits, 1, MaxLen)))
OctInts == Cat(OptSign, Cat({<<"0", "o">>}, Seqs(OctDigits \cap Alphabet, 1, MaxLen)))
Laws ==
  LET c == Classify({}, "field", s) IN
  /\ c.ks # {} /\ c.ks \subseteq {"int", "float", "string", "empty"}
  /\ (s \in DecInts \cup HexInts \cup BinInts \cup OctInts) = (c.ks = {"int"})
  /\ (c.ks = {"empty"}) = (s = <<>>)
  \* -S: never a number; -A: never an int, and exactly the default ints become floats; -O only changes leading-zero decimals
  /\ Classify({"-S"}, "field", s).ks \subseteq {"string", "empty"}
  /\ "int" \notin Classify({"-A"}, "field", s).ks
  /\ (c.ks = {"int"}) => Classify({"-A"}, "field", s).ks = {"float"}
  /\ (~LeadingZero(Unsigned(s))) => Classify({"-O"}, "field", s) = c
  /\ LeadingZero(Unsigned(s)) => (c.ks = {"string"} /\ Classify({"-O"}, "field", s).ks = {"int"})
  /\ Classify({}, "jsonstring", s).ks \subseteq {"string", "empty"}
  \* a definite int of a short string has a value, and negation flips it
  /\ (c.ks = {"int"} /\ Len(s) <= 6) => c.v # NoVal
=============================================================================
