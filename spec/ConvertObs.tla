------------------------------ MODULE ConvertObs ------------------------------
(* Judges what the real mlr did.  Lines:                                                                       *)
(*  [t |-> "path", path, sep, noun, s, out, exit]            a pipeline of conversions and the records read back *)
(*  [t |-> "flag", in, out, sep, probe, kind, same, recs, exit] a table entry: outputs under the flag and under   *)
(*        its expansion compared byte for byte by the harness' equality of the two texts (flagout = expout)     *)
EXTENDS ConvertCases, Json
CONSTANT ObsFile
Obs == ndJsonDeserialize(ObsFile)
VARIABLE l
Init == l = 1
Next == l < Len(Obs) /\ l' = l + 1
\* the same records but for the order of the fields inside maps (a diagnosis, not a licence: it is still reported)
RECURSIVE Unordered(_)
Unordered(v) == IF IsS(v) THEN v
                ELSE IF IsA(v) THEN A([i \in 1..Len(v[2]) |-> Unordered(v[2][i])])
                ELSE <<"m", {<<v[2][i][1], Unordered(v[2][i][2])>> : i \in 1..Len(v[2])}>>
SameUpToFieldOrder(s, t) == Len(s) = Len(t) /\ \A n \in 1..Len(s) : Unordered(M(s[n])) = Unordered(M(t[n]))
(* Diagnosis of one known defect (never an excuse: the line is reported all the same, under its own name): what   *)
(* the pipeline would give if every reader of YAML text sorted the keys of every map by byte order.              *)
Alphabet == <<"+", ".", "0", "1", "2", "3", "4", "5", "6", "7", "8", "9", ":", ";",
              "a", "b", "c", "d", "e", "f", "g", "h", "i", "j", "k", "l", "m", "n", "o", "p", "q", "r", "s", "t", "u", "v", "w", "x", "y", "z">>
Rank(c) == IF \E i \in 1..Len(Alphabet) : Alphabet[i] = c THEN CHOOSE i \in 1..Len(Alphabet) : Alphabet[i] = c ELSE 0
RECURSIVE LexLess(_, _)
LexLess(a, b) == IF a = <<>> THEN b # <<>> ELSE IF b = <<>> THEN FALSE
                 ELSE IF a[1] = b[1] THEN LexLess(Tail(a), Tail(b)) ELSE Rank(a[1]) < Rank(b[1])
RECURSIVE SortedVal(_), SortedBody(_), InsertField(_, _)
InsertField(f, b) == IF b = <<>> THEN <<f>> ELSE IF LexLess(f[1], b[1][1]) THEN <<f>> \o b ELSE <<b[1]>> \o InsertField(f, Tail(b))
SortedBody(b) == IF b = <<>> THEN <<>> ELSE InsertField(<<b[1][1], SortedVal(b[1][2])>>, SortedBody(Tail(b)))
SortedVal(v) == IF IsS(v) THEN v ELSE IF IsA(v) THEN A([i \in 1..Len(v[2]) |-> SortedVal(v[2][i])]) ELSE M(SortedBody(v[2]))
RECURSIVE PathIfYamlSorts(_, _, _, _)
PathIfYamlSorts(path, sep, noun, s) ==
  IF Len(path) < 2 THEN s
  ELSE PathIfYamlSorts(Tail(path), sep, noun,
         ConvertAB(path[1], path[2], sep, noun /\ Len(path) = 2, IF path[1] = "yaml" THEN [n \in 1..Len(s) |-> SortedBody(s[n])] ELSE s))

Conforms ==
  LET o == Obs[l] IN
  CASE o.t = "path" ->
         LET w == Walk(o.path, o.sep, o.noun, o.s) IN
         IF ~(Carries(o.path[1], o.s) /\ w[1])
         THEN PrintT(ToJson([line |-> l, why |-> "outside"]))
         ELSE (o.exit = 0 /\ o.out = w[2])
              \/ PrintT(ToJson([line |-> l, why |-> IF o.exit # 0 THEN "failed"
                                                        ELSE IF o.out = PathIfYamlSorts(o.path, o.sep, o.noun, o.s) THEN "yaml-reader-sorts-keys"
                                                        ELSE IF SameUpToFieldOrder(o.out, w[2]) THEN "field-order" ELSE "records"]))
    [] o.t = "flag" ->
         /\ (o.exit = 0 /\ o.flagout = o.expout) \/ PrintT(ToJson([line |-> l, why |-> "differs-from-expansion"]))
         /\ (o.exit = 0 /\ o.recs = ConvertPath(<<o.in, o.out, "jsonl">>, o.sep, FALSE, Probe(o.probe)))
            \/ PrintT(ToJson([line |-> l, why |-> "records"]))
=============================================================================
