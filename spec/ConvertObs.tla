------------------------------ MODULE ConvertObs ------------------------------
(* Judges what the real mlr did.  Lines:                                                                       *)
(*  [t |-> "path", path, sep, noun, s, out, exit]            a pipeline of conversions and the records read back *)
(*  [t |-> "flag", in, out, sep, probe, kind, same, recs, exit] a table entry: outputs under the flag and under   *)
(*        its expansion compared byte for byte by the harness' equality of the two texts (flagout = expout)     *)
EXTENDS ConvertCases, Json
CONSTANT ObsFile
Obs == ndJsonDeserialize(ObsFile)
VARIABLE l
Init == l = 1
Next == l < Len(Obs) /\ l' = l + 1
Conforms ==
  LET o == Obs[l] IN
  CASE o.t = "path" ->
         IF ~(Carries(o.path[1], o.s) /\ InDomain(o.path, o.sep, o.noun, o.s))
         THEN PrintT(ToJson([line |-> l, why |-> "outside"]))
         ELSE (o.exit = 0 /\ o.out = ConvertPath(o.path, o.sep, o.noun, o.s)) \/ PrintT(ToJson([line |-> l, why |-> "records"]))
    [] o.t = "flag" ->
         /\ (o.exit = 0 /\ o.flagout = o.expout) \/ PrintT(ToJson([line |-> l, why |-> "differs-from-expansion"]))
         /\ (o.exit = 0 /\ o.recs = ConvertPath(<<o.in, o.out, "jsonl">>, o.sep, FALSE, Probe(o.probe)))
            \/ PrintT(ToJson([line |-> l, why |-> "records"]))
=============================================================================
