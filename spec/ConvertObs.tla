------------------------------ MODULE ConvertObs ------------------------------
(* Judges what the real mlr did.  Lines:                                                                       *)
(*  [t |-> "path", path, sep, noun, s, out, exit]            a pipeline of conversions and the records read back *)
(*  [t |-> "flag", in, out, sep, probe, kind, same, recs, exit] a table entry: outputs under the flag and under   *)
(*        its expansion compared byte for byte by the harness' equality of the two texts (flagout = expout)     *)
EXTENDS ConvertCases, Json
CONSTANT ObsFile
Obs == ndJsonDeserialize(ObsFile)
VARIABLE l
Init == l = 1
Next == l < Len(Obs) /\ l' = l + 1
\* the same records but for the order of the fields inside maps (a diagnosis, not a licence: it is still reported)
RECURSIVE Unordered(_)
Unordered(v) == IF IsS(v) THEN v
                ELSE IF IsA(v) THEN A([i \in 1..Len(v[2]) |-> Unordered(v[2][i])])
                ELSE <<"m", {<<v[2][i][1], Unordered(v[2][i][2])>> : i \in 1..Len(v[2])}>>
SameUpToFieldOrder(s, t) == Len(s) = Len(t) /\ \A n \in 1..Len(s) : Unordered(M(s[n])) = Unordered(M(t[n]))
Conforms ==
  LET o == Obs[l] IN
  CASE o.t = "path" ->
         IF ~(Carries(o.path[1], o.s) /\ InDomain(o.path, o.sep, o.noun, o.s))
         THEN PrintT(ToJson([line |-> l, why |-> "outside"]))
         ELSE LET exp == ConvertPath(o.path, o.sep, o.noun, o.s) IN
              (o.exit = 0 /\ o.out = exp)
              \/ PrintT(ToJson([line |-> l, why |-> IF o.exit # 0 THEN "failed" ELSE IF SameUpToFieldOrder(o.out, exp) THEN "field-order" ELSE "records"]))
    [] o.t = "flag" ->
         /\ (o.exit = 0 /\ o.flagout = o.expout) \/ PrintT(ToJson([line |-> l, why |-> "differs-from-expansion"]))
         /\ (o.exit = 0 /\ o.recs = ConvertPath(<<o.in, o.out, "jsonl">>, o.sep, FALSE, Probe(o.probe)))
            \/ PrintT(ToJson([line |-> l, why |-> "records"]))
=============================================================================
