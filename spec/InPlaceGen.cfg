SPECIFICATION Spec
CONSTANTS
  Scenarios <- MCScenarios
  MaxFiles = 2
INVARIANT Emit
CHECK_DEADLOCK FALSE
