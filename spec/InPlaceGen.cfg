SPECIFICATION Spec
CONSTANTS
  MaxRuns = 1
  ReuseStaleTemp = FALSE
  Scenarios <- MCScenarios
  MaxFiles = 2
INVARIANT Emit
CHECK_DEADLOCK FALSE
