---------------------------- MODULE NullAlgebraObs ----------------------------
(* Judges the cells the real mlr evaluated. Lines:                                    *)
(*  [t |-> "binary", op, vals (operand per kind, matrix order), M (result matrix)]     *)
(*  [t |-> "unary", f, a, r]   [t |-> "pred", p, k, ans]   [t |-> "assign", lv, rhs, changed] *)
EXTENDS NullAlgebra, Json
CONSTANT ObsFile
Obs == ndJsonDeserialize(ObsFile)
VARIABLE l
Init == l = 1
Next == l < Len(Obs) /\ l' = l + 1
Conforms ==
  LET o == Obs[l] IN
  CASE o.t = "binary" ->
         /\ \A i, j \in 1..Len(o.vals) :
              BinaryOK(o.op, o.vals[i], o.vals[j], o.M[i][j])
              \/ PrintT(ToJson([line |-> l, i |-> i, j |-> j, rule |-> RuleOf(o.op, o.vals[i], o.vals[j])]))
         /\ (o.op \in Commutative) =>
              \A i, j \in 1..Len(o.vals) : (i < j /\ o.M[i][j].k # o.M[j][i].k) => PrintT(ToJson([line |-> l, i |-> i, j |-> j, rule |-> "commutative-kind"]))
    [] o.t = "unary" -> UnaryOK(o.f, o.a, o.r) \/ PrintT(ToJson([line |-> l, i |-> 0, j |-> 0, rule |-> UnaryRuleOf(o.f, o.a)]))
    [] o.t = "pred" -> PredOK(o.p, o.k, o.ans) \/ PrintT(ToJson([line |-> l, i |-> 0, j |-> 0, rule |-> "predicate"]))
    [] o.t = "assign" -> AssignOK(o.lv, o.rhs, o.changed) \/ PrintT(ToJson([line |-> l, i |-> 0, j |-> 0, rule |-> "assignment"]))
\* how many cells the rules decide (for the evidence): printed once per binary line
Decided == LET o == Obs[l] IN
  o.t # "binary" \/ PrintT(ToJson([count |-> Cardinality({<<i, j>> \in (1..Len(o.vals)) \X (1..Len(o.vals)) : RuleOf(o.op, o.vals[i], o.vals[j]) # ""}), op |-> o.op]))
=============================================================================
