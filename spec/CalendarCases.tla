---------------------------- MODULE CalendarCases ----------------------------
(***************************************************************************)
(* The bounded case space of C16 and the judgement of one observed text.    *)
(*                                                                          *)
(* A case is an instant or a duration; a probe is one way of asking mlr     *)
(* about it (a DSL function call or a verb).  Probes are data: the harness  *)
(* spells each as mlr source by a fixed table and sends the observed text   *)
(* back; Verdict says whether the documentation allows it.                  *)
(***************************************************************************)
EXTENDS TimeSplit
CONSTANTS Tier,         \* "quick" | "thorough"
          Seed,         \* selects the pseudo-random instants and durations
          NRand         \* how many of them

Thorough == Tier = "thorough"

(***************************************************************************)
(* Probes.  fn names the question, k a number of decimals, fmt a format as  *)
(* a sequence of tokens (a directive such as "%Y", or literal text), off a  *)
(* zone offset in minutes for strptime's %z.                                *)
(***************************************************************************)
P(fn, k, fmt, off) == [fn |-> fn, k |-> k, fmt |-> fmt, off |-> off]
None == <<>>
Iso      == <<"%Y", "-", "%m", "-", "%d", "T", "%H", ":", "%M", ":", "%S", "Z">>
IsoFT    == <<"%F", "T", "%T", "Z">>
Plain    == <<"%Y", "-", "%m", "-", "%d", " ", "%H", ":", "%M", ":", "%S">>
\* every documented strftime directive that has a calendar meaning, mostly one per format so that a finding names it
StrfFormats == <<
  Iso, IsoFT, Plain,
  <<"%Y">>, <<"%m">>, <<"%d">>, <<"%H">>, <<"%M">>, <<"%S">>, <<"%j">>, <<"%y">>, <<"%C">>, <<"%e">>, <<"%k">>, <<"%I">>,
  <<"%l">>, <<"%p">>, <<"%s">>, <<"%A">>, <<"%a">>, <<"%B">>, <<"%b">>, <<"%h">>, <<"%u">>, <<"%w">>, <<"%U">>, <<"%W">>,
  <<"%V">>, <<"%F">>, <<"%T">>, <<"%D">>, <<"%R">>, <<"%r">>, <<"%v">>,
  <<"%1S">>, <<"%2S">>, <<"%3S">>, <<"%4S">>, <<"%5S">>, <<"%6S">>, <<"%7S">>, <<"%8S">>, <<"%9S">>, <<"%N">>, <<"%O">>,
  <<"%Y", "-", "%m", "-", "%d", " ", "%H", ":", "%M", ":", "%S", " ", "%Z">>,
  <<"%Y", "-", "%m", "-", "%d", " ", "%H", ":", "%M", ":", "%S", " ", "%z">>,
  <<"%A", ", ", "%B", " ", "%e", ", ", "%Y">>,
  <<"%I", ":", "%M", " ", "%p">>,
  <<"%Y", "%m", "%d", "%H", "%M", "%S">>,
  <<"%d", "/", "%m", "/", "%Y", " 100", "%%", " ", "%j">>
>>
\* formats that determine the instant, built from the documented strptime directives
ParseFormats == <<
  Iso, IsoFT, Plain,
  <<"%Y", " ", "%j", " ", "%H", " ", "%M", " ", "%S">>,
  <<"%d", "/", "%m", "/", "%Y", " ", "%T">>,
  <<"%d", " ", "%b", " ", "%Y", " ", "%H", ":", "%M", ":", "%S">>,
  <<"%A", ", ", "%B", " ", "%e", ", ", "%Y", " ", "%T">>,
  <<"%a", " ", "%b", " ", "%e", " ", "%H", ":", "%M", ":", "%S", " ", "%Y">>,
  <<"%Y", "-", "%m", "-", "%d", " ", "%I", ":", "%M", ":", "%S", " ", "%p">>,
  <<"%F", " ", "%r">>,
  <<"%Y", "%m", "%d", "%H", "%M", "%S">>,
  <<"%H", ":", "%M", ":", "%S", " on ", "%h", " ", "%d", ", ", "%Y">>
>>
\* strptime's %c is documented as "Equivalent to %a %b %e %H:%M:%S %Y": the text is built with the long form
CLong == <<"%a", " ", "%b", " ", "%e", " ", "%H", ":", "%M", ":", "%S", " ", "%Y">>
ZoneFormat == <<"%Y", "-", "%m", "-", "%d", " ", "%H", ":", "%M", ":", "%S", " ", "%z">>
Offsets == <<0, -240, 120, 330, 840, -720, -1>>
MicroFormat == <<"%Y", "-", "%m", "-", "%d", " ", "%H", ":", "%M", ":", "%S", ".", "%f">>

Map(seq, Op(_)) == [i \in 1..Len(seq) |-> Op(seq[i])]
Family(secs) ==     \* secs: TRUE for the functions of integer seconds, FALSE for those of integer nanoseconds
  LET pre == IF secs THEN "" ELSE "n" IN
     [i \in 1..10 |-> P(IF secs THEN "sec2gmt" ELSE "nsec2gmt", i - 1, None, 0)]          \* 0 to 9 decimals
  \o <<P(IF secs THEN "sec2gmtdate" ELSE "nsec2gmtdate", 0, None, 0)>>
  \o Map(StrfFormats, LAMBDA f : P(IF secs THEN "strftime" ELSE "strfntime", 0, f, 0))
  \o <<P(IF secs THEN "gmt2sec" ELSE "gmt2nsec", 0, None, 0), P(IF secs THEN "gmt2sec.rt" ELSE "gmt2nsec.rt", 0, None, 0)>>
  \o Map(ParseFormats, LAMBDA f : P(IF secs THEN "strptime" ELSE "strpntime", 0, f, 0))
  \o Map(ParseFormats, LAMBDA f : P(IF secs THEN "strptime.rt" ELSE "strpntime.rt", 0, f, 0))
  \o <<P(IF secs THEN "strptime.c" ELSE "strpntime.c", 0, <<"%c">>, 0)>>
  \o Map(Offsets, LAMBDA o : P(IF secs THEN "strptime" ELSE "strpntime", 0, ZoneFormat, o))
  \o (IF secs THEN <<>> ELSE <<P("strpntime", 0, MicroFormat, 0)>>)
  \* the instant plus half a second, as a float: "seconds since epoch (integer part)"; sec2gmt(-1234567890.123) is the second
  \* that holds it, ...:29Z
  \o (IF secs THEN <<P("sec2gmt.h", 0, None, 0), P("sec2gmt.h", 1, None, 0), P("sec2gmt.h", 3, None, 0), P("sec2gmtdate.h", 0, None, 0),
                      P("strftime.h", 0, <<"%Y", "-", "%m", "-", "%d", " ", "%H", ":", "%M", ":", "%3S">>, 0),
                      P("strftime.h", 0, <<"%s">>, 0), P("strftime.h", 0, <<"%N">>, 0), P("strftime.h", 0, <<"%j", " ", "%T">>, 0)>> ELSE <<>>)
Verbs(secs) ==
     (IF secs THEN [i \in 1..10 |-> P("v.sec2gmt", i - 1, None, 0)] \o <<P("v.sec2gmtdate", 0, None, 0)>> ELSE <<>>)
  \o (IF secs THEN <<P("v.sec2gmt.h", 0, None, 0), P("v.sec2gmt.h", 1, None, 0), P("v.sec2gmt.h", 6, None, 0), P("v.sec2gmtdate.h", 0, None, 0)>> ELSE <<>>)
  \o Map(<<0, 1, 3, 6, 9>>, LAMBDA k : P("v.sec2gmt.millis", k, None, 0))
  \o Map(<<0, 3, 6, 9>>, LAMBDA k : P("v.sec2gmt.micros", k, None, 0))
  \o (IF secs THEN <<>> ELSE Map(<<0, 1, 5, 9>>, LAMBDA k : P("v.sec2gmt.nanos", k, None, 0)))
SecProbes == Family(TRUE) \o Verbs(TRUE)
NsProbes  == Family(FALSE) \o Verbs(FALSE)
ProbesOf(kind) == IF kind = "sec" THEN SecProbes ELSE NsProbes

\* ---- what a probe is given ---------------------------------------------------------------------
IsParse(p) == p.fn \in {"strptime", "strpntime", "strptime.c", "strpntime.c"}
TextFmt(p) == IF p.fn \in {"strptime.c", "strpntime.c"} THEN CLong
              ELSE [i \in 1..Len(p.fmt) |-> IF p.fmt[i] = "%z" THEN OffsetText(p.off) ELSE p.fmt[i]]
InYears(n) == n >= MinDay /\ n <= MaxDay
\* the text handed to a parsing probe ("" = the probe is not asked about this instant: the documentation does not
\* determine one text, or the shifted civil date leaves the years 1..9999)
ParseInput(p, n, s, f) ==
  LET n2 == ShiftN(n, s, p.off)
      s2 == ShiftS(n, s, p.off)
  IN IF InYears(n2) /\ Determined(TextFmt(p), n2, s2, f) THEN TheText(TextFmt(p), n2, s2, f) ELSE ""
\* the part of the nanoseconds a format shows
ShownFrac(p, f) == IF "%f" \in Shown(p.fmt, 1) THEN (f \div 1000) * 1000 ELSE 0

(***************************************************************************)
(* The judgement.  Allowed is the set of texts the documentation admits;    *)
(* Asked says whether the probe applies to the case at all.                 *)
(***************************************************************************)
UnitDigits(fn) == CASE fn = "v.sec2gmt.millis" -> 3 [] fn = "v.sec2gmt.micros" -> 6 [] fn = "v.sec2gmt.nanos" -> 9
\* an integer count of units as an instant's nanoseconds
UnitFrac(f, u) == (f \div Pow10(9 - u)) * Pow10(9 - u)
Asked(p, n, s, f) ==
  CASE IsParse(p) -> ParseInput(p, n, s, f) # ""
    [] p.fn \in {"strptime.rt", "strpntime.rt"} -> Determines(p.fmt)
    [] OTHER -> TRUE
Allowed(p, n, s, f) ==
  CASE p.fn \in {"sec2gmt", "v.sec2gmt", "nsec2gmt"} -> {IsoText(n, s, f, p.k)}
    [] p.fn \in {"sec2gmtdate", "v.sec2gmtdate", "nsec2gmtdate", "sec2gmtdate.h", "v.sec2gmtdate.h"} -> {DateText(n)}
    [] p.fn \in {"strftime", "strfntime"} -> Formatted(p.fmt, n, s, f)
    [] p.fn \in {"sec2gmt.h", "v.sec2gmt.h"} -> {IsoText(n, s, 500000000, p.k)}
    [] p.fn = "strftime.h" -> Formatted(p.fmt, n, s, 500000000)
    [] p.fn \in {"gmt2sec", "gmt2sec.rt"} -> {SecsText(n, s)}                       \* "integer seconds since the epoch"
    [] p.fn \in {"gmt2nsec", "gmt2nsec.rt"} -> {UnitText(n, s, 0, 9)}
    [] p.fn \in {"strptime", "strptime.rt", "strptime.c"} -> NumSpellings(SecsText(n, s))
    [] p.fn \in {"strpntime", "strpntime.rt", "strpntime.c"} -> {UnitText(n, s, ShownFrac(p, f), 9)}
    [] p.fn \in {"v.sec2gmt.millis", "v.sec2gmt.micros", "v.sec2gmt.nanos"} -> {IsoText(n, s, UnitFrac(f, UnitDigits(p.fn)), p.k)}
Verdict(p, n, s, f, x) == IF ~Asked(p, n, s, f) \/ x \in Allowed(p, n, s, f) THEN "ok" ELSE "value"

(***************************************************************************)
(* Instants.  Windows of days around every kind of calendar boundary, each  *)
(* with the seconds of the day where a field rolls over.                    *)
(***************************************************************************)
LeapAnchorYears == IF Thorough
  THEN {4, 96, 100, 104, 400, 800, 1000, 1200, 1500, 1582, 1600, 1700, 1800, 1900, 1904, 1968, 1972, 1996, 2000, 2004, 2020,
        2023, 2024, 2028, 2096, 2100, 2104, 2200, 2400, 3000, 4000, 5000, 8000, 9600, 9900, 9996}
  ELSE {4, 400, 1600, 1700, 1900, 1972, 2000, 2023, 2024, 2100, 9996}
YearEndYears == IF Thorough
  THEN {2, 5, 100, 101, 400, 401, 1000, 1583, 1600, 1601, 1678, 1700, 1900, 1901, 1902, 1970, 1971, 1999, 2000, 2001, 2010, 2016,
        2021, 2024, 2025, 2027, 2038, 2039, 2100, 2101, 2262, 2263, 2400, 5000, 9000, 9999}
  ELSE {2, 1000, 1600, 1678, 1900, 1970, 2000, 2001, 2021, 2025, 2038, 2100, 2262, 9999}
W == IF Thorough THEN 4 ELSE 2
MonthEndYears == IF Thorough THEN {1900, 2023, 2024} ELSE {2024}
\* the ends of signed 32-bit seconds and of signed 64-bit nanoseconds, 2^32 seconds
MachineDays == {-24856, -24855, 24855, 24856, 49710, 49711, -106753, -106752, -106751, 106750, 106751, 106752}
Days ==
  LET win(c, lo, hi) == {c + i : i \in lo..hi} IN
  {n \in    UNION {win(DaysFromCivil(y, 3, 1), -W, W - 1) : y \in LeapAnchorYears}
      \cup UNION {win(DaysFromCivil(y, 1, 1), -W, W - 1) : y \in YearEndYears}
      \cup UNION {win(DaysFromCivil(y, m, 1), -1, 0) : y \in MonthEndYears, m \in 1..12}
      \cup win(0, -2, 2) \cup win(MinDay, 0, W) \cup win(MaxDay, -W, 0) \cup MachineDays
      \cup {DaysFromCivil(2009, 2, 13), DaysFromCivil(2015, 8, 28), DaysFromCivil(2001, 2, 3), DaysFromCivil(2017, 7, 14)}
   : InYears(n)}
EdgeSods == {0, 86399}
OtherSods == IF Thorough
  THEN <<1, 9, 10, 59, 60, 61, 599, 600, 3599, 3600, 3601, 3661, 35999, 36000, 43199, 43200, 43201, 46799, 46800, 82800, 86340, 86398>>
  ELSE <<1, 59, 60, 61, 3599, 3600, 3661, 43199, 43200, 46799, 86340, 85636>>
\* each day gets the ends of the day and a rotating selection of the other boundary seconds
PerDay == IF Thorough THEN 8 ELSE 4
SodsOf(n) == EdgeSods \cup {OtherSods[((n + Seed + i) % Len(OtherSods)) + 1] : i \in 1..PerDay}
Fracs == <<0, 1, 123412341, 500000000, 999999999, 100000000, 987654321, 1000, 999999, 4999>>
FracsOf(n, s) == {Fracs[((n + s + Seed + i) % Len(Fracs)) + 1] : i \in 1..(IF Thorough THEN 3 ELSE 2)}
FixedCases ==
       UNION {{[kind |-> "sec", n |-> n, s |-> s, f |-> 0] : s \in SodsOf(n)} : n \in Days}
  \cup UNION {UNION {{[kind |-> "ns", n |-> n, s |-> s, f |-> f] : f \in FracsOf(n, s)}
                     : s \in {x \in SodsOf(n) : InNsRange(n, x)}} : n \in Days}

\* pseudo-random instants: the minimal-standard Lehmer generator, by Schrage's method so that nothing exceeds 2^31
Lehmer(x) == LET y == 16807 * (x % 127773) - 2836 * (x \div 127773) IN IF y > 0 THEN y ELSE y + 2147483647
RandCase(x) ==
  LET a == Lehmer(x)
      b == Lehmer(a)
      c == Lehmer(b)
      wide == [kind |-> "sec", n |-> MinDay + (a % (MaxDay - MinDay + 1)), s |-> b % 86400, f |-> 0]
      near == [kind |-> "ns", n |-> (a % 213000) - 106500, s |-> b % 86400, f |-> c % 1000000000]
  IN IF c % 3 = 0 THEN near ELSE wide

(***************************************************************************)
(* Durations for the splitters.                                             *)
(***************************************************************************)
DurDays == IF Thorough THEN {0, 1, 2, 3, 4, 5, 9, 10, 11, 41, 99, 100, 365, 999, 1000, 11574, 24854, 24855, 24856, 49710, 49711, 100000,
                             1000000, 2932896}
           ELSE {0, 1, 2, 4, 9, 10, 99, 100, 11574, 24855, 49710, 1000000, 2932896}
DurRests == IF Thorough THEN {0, 1, 2, 9, 10, 11, 59, 60, 61, 69, 70, 119, 120, 599, 600, 601, 609, 3599, 3600, 3601, 3609, 3660, 3661, 4200, 7199,
                              7200, 35999, 36000, 36610, 43199, 43200, 46800, 46810, 82800, 85636, 86339, 86340, 86390, 86399, 22920, 28800, 5000, 68000}
            ELSE {0, 1, 9, 10, 59, 60, 61, 600, 3599, 3600, 3601, 3661, 36000, 36610, 43200, 85636, 86399, 22920, 28800, 5000, 68000}
DurCases == {[kind |-> "dur", sg |-> sg, d |-> d, r |-> r] : sg \in {1, -1}, d \in DurDays, r \in DurRests}
            \ {[kind |-> "dur", sg |-> -1, d |-> 0, r |-> 0]}
RandDur(x) ==
  LET a == Lehmer(x)
      b == Lehmer(a)
      c == Lehmer(b)
  IN [kind |-> "dur", sg |-> IF c % 2 = 0 THEN 1 ELSE -1, d |-> IF c % 5 = 0 THEN a % 3000000 ELSE a % 120, r |-> b % 86400]
DurProbes == <<"sec2dhms", "fsec2dhms", "fsec2dhms.f", "sec2hms", "fsec2hms", "fsec2hms.f",
               "dhms2sec", "dhms2sec.short", "dhms2fsec", "hms2sec", "hms2fsec",
               "dhms2sec.rt", "dhms2fsec.rt", "hms2sec.rt", "hms2fsec.rt", "sec2dhms.rt", "sec2hms.rt">>
\* the text handed to a parsing probe ("" = not asked: negative, or the documentation does not fix one text)
DurInput(q, sg, d, r) ==
  IF sg < 0 THEN ""
  ELSE CASE q = "dhms2sec" -> (IF Cardinality(Sec2dhmsTexts(d, r)) = 1 THEN DhmsText(d, r, TRUE, TRUE, "") ELSE "")
         [] q = "dhms2sec.short" -> (IF ShortUnambiguous(d, r) THEN ShortDhms(d, r) ELSE "")
         [] q = "dhms2fsec" -> (IF Cardinality({DhmsText(d, r, TRUE, pad, ".000000") : pad \in BOOLEAN}) = 1 /\ d > 0
                                THEN DhmsText(d, r, TRUE, TRUE, ".000000") ELSE "")
         [] q = "hms2sec" -> HmsText(d, r, "")
         [] q = "hms2fsec" -> HmsText(d, r, ".000000")
         [] OTHER -> ""
DurIsParse(q) == q \in {"dhms2sec", "dhms2sec.short", "dhms2fsec", "hms2sec", "hms2fsec"}
\* out: the observed texts of all probes of the case, in DurProbes order (two of the laws relate two observations)
DurIdx(q) == CHOOSE i \in 1..Len(DurProbes) : DurProbes[i] = q
DurVerdict(q, sg, d, r, out) ==
  LET x == out[DurIdx(q)]
      v == DurText(sg, d, r)
  IN
  CASE DurIsParse(q) -> (IF DurInput(q, sg, d, r) = "" THEN "ok"
                         ELSE IF q \in {"dhms2sec", "dhms2sec.short", "hms2sec"} THEN (IF x = v THEN "ok" ELSE "value")
                         ELSE (IF x \in NumSpellings(v) THEN "ok" ELSE "value"))
    [] q = "sec2dhms" -> (IF sg < 0 \/ x \in Sec2dhmsTexts(d, r) THEN "ok" ELSE "value")
    [] q \in {"fsec2dhms", "fsec2dhms.f"} -> (IF sg < 0 \/ x \in Fsec2dhmsTexts(d, r) THEN "ok" ELSE "value")
    [] q = "sec2hms" -> (IF sg < 0 \/ x = HmsText(d, r, "") THEN "ok" ELSE "value")
    [] q \in {"fsec2hms", "fsec2hms.f"} -> (IF sg < 0 \/ x = HmsText(d, r, ".000000") THEN "ok" ELSE "value")
    \* "mutually inverse on all integers incl. negatives"
    [] q \in {"dhms2sec.rt", "hms2sec.rt"} -> (IF x = v THEN "ok" ELSE "not inverse")
    [] q \in {"dhms2fsec.rt", "hms2fsec.rt"} -> (IF x \in NumSpellings(v) THEN "ok" ELSE "not inverse")
    [] q = "sec2dhms.rt" -> (IF x = out[DurIdx("sec2dhms")] THEN "ok" ELSE "not inverse")
    [] q = "sec2hms.rt" -> (IF x = out[DurIdx("sec2hms")] THEN "ok" ELSE "not inverse")

(***************************************************************************)
(* Pairs of instants for datediff.                                          *)
(***************************************************************************)
DiffUnits == <<"d", "y", "m", "ym", "yd", "md", "D", "YM">>          \* "(case-insensitive)"
Canon(u) == CASE u = "D" -> "d" [] u = "YM" -> "ym" [] OTHER -> u
Deltas == <<0, 1, 2, 27, 28, 29, 30, 31, 32, 58, 59, 60, 61, 62, 89, 90, 91, 92, 364, 365, 366, 367, 730, 731, 1095, 1096, 1460, 1461, 1462,
            3652, 3653, 36524, 36525, 146096, 146097, 146098>>
DeltasOf(n) == IF Thorough THEN {Deltas[i] : i \in 1..Len(Deltas)}
               ELSE {Deltas[((n + Seed + 5 * i) % Len(Deltas)) + 1] : i \in 1..6}
\* the earlier date late in its day, the later date early in its day (and the other way round): time of day is ignored
DiffCases ==
  UNION {UNION {{[kind |-> "diff", n1 |-> n, s1 |-> 86399, n2 |-> n + dl, s2 |-> 0],
                 [kind |-> "diff", n1 |-> n + dl, s1 |-> (n + dl) % 86400, n2 |-> n, s2 |-> (7 * n + 86000) % 86400]}
                : dl \in {x \in DeltasOf(n) : InYears(n + x)}} : n \in Days}
RandDiff(x) ==
  LET a == Lehmer(x)
      b == Lehmer(a)
      c == Lehmer(b)
      e == Lehmer(c)
      n1 == MinDay + (a % (MaxDay - MinDay + 1))
      n2 == IF e % 4 = 0 THEN MinDay + (b % (MaxDay - MinDay + 1)) ELSE n1 + (b % 3000) - 1500
  IN [kind |-> "diff", n1 |-> n1, s1 |-> c % 86400, n2 |-> IF InYears(n2) THEN n2 ELSE n1, s2 |-> e % 86400]
DiffVerdict(u, n1, n2, x) == IF x \in {ToString(v) : v \in DateDiff(Canon(u), n1, n2)} THEN "ok" ELSE "value"

(***************************************************************************)
(* Values that are not numbers: the functions and the verbs leave them.     *)
(***************************************************************************)
NonNumbers == {"abc", "", "-", "12:34:56", "2009-02-13T23:31:30Z", "2009-02-13", "1d2h", "0x", "1e", "1_000", "1,5", "12 34", "--1", "1.2.3",
               "true", "N/A", "five"}
NonProbes == <<"sec2gmt", "sec2gmt.3", "sec2gmtdate", "nsec2gmt", "nsec2gmt.6", "nsec2gmtdate", "v.sec2gmt", "v.sec2gmt.1", "v.sec2gmt.9",
               "v.sec2gmt.millis", "v.sec2gmt.micros.6", "v.sec2gmt.nanos.9", "v.sec2gmtdate">>
NonCases == {[kind |-> "non", x |-> x] : x \in NonNumbers}
=============================================================================
