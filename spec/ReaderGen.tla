------------------------------ MODULE ReaderGen ------------------------------
(* Family "files": every file list; family "chains": every pair of composable verbs x stream (triples are formed by the  *)
(* harness from the same emitted verb set by seeded sampling).                                                          *)
EXTENDS ReaderCases, Json, SequencesExt
CONSTANT Family
VARIABLE x
Cases == IF Family = "files" THEN {[t |-> "files", files |-> fl] : fl \in FileLists}
         ELSE IF Family = "blocks" THEN {[t |-> "blocks", files |-> bfl] : bfl \in BlockFileLists}
         ELSE IF Family = "uses" THEN {[t |-> "uses", files |-> fl, use |-> u] : fl \in {fl \in FileLists : Len(fl) >= 2}, u \in Uses \ {[mode |-> "every", sel |-> "all"]}}
         ELSE {[t |-> "chain", cs |-> c, s |-> s] : c \in Chains2, s \in Streams}
Init == x \in Cases
Next == UNCHANGED x
Emit == PrintT(ToJson(x))
=============================================================================
