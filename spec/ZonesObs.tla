------------------------------ MODULE ZonesObs ------------------------------
(* Judges what the real mlr printed for the zone part of C16.  One line per case:                                    *)
(*   [kind |-> "loc", set, n, s, f, out]        out[i] = the text printed for LocProbes[i] at instant <<n, s>>, f ns   *)
(*   [kind |-> "gap", set, an, as, n, s, out]   out[i] for GapProbes[i]; <<an, as>> the transition, <<n, s>> the local *)
(*                                              time inside its gap                                                   *)
(* set = [arg, env, flag, var] is how zones were named to the process and the call; WHICH zone the answer is judged   *)
(* by is decided here (EffectiveZone), not by the harness.  Every non-conforming (line, probe) is printed; the        *)
(* invariant itself never fails.                                                                                      *)
EXTENDS ZonesCases, Json
CONSTANT ObsFile
Obs == ndJsonDeserialize(ObsFile)
VARIABLE l
Init == l = 1
Next == l < Len(Obs) /\ l' = l + 1
Report(i, fn, why, cls) == PrintT(ToJson([line |-> l, i |-> i, fn |-> fn, why |-> why, cls |-> cls]))     \* cls: a tuple of class names
Conforms ==
  LET o == Obs[l]
      z == EffectiveZone(o.set)
  IN
  CASE o.kind = "loc" ->
         LET t == <<o.n, o.s>> IN
         IF ~KnownAt(z, t) THEN Report(0, "", "zone not tabulated", <<>>)
         ELSE LET sg == Segs[SegAt(z, t)] IN
              /\ Len(o.out) = Len(LocProbes) \/ Report(0, "", "shape", <<>>)
              /\ \A i \in 1..Len(LocProbes) :
                   LET v == Verdict(LocProbes[i], sg, t, o.f, o.out[i]) IN
                   v = "ok" \/ Report(i, LocProbes[i].fn, v, <<OverlapClass(sg, t), NameClass(StateIn(sg, t).abbr)>>)
    [] o.kind = "gap" ->
         LET at == <<o.an, o.as>> IN
         IF ~KnownAt(z, at) THEN Report(0, "", "zone not tabulated", <<>>)
         ELSE LET sg == Segs[SegAt(z, at)] IN
              IF ~\E i \in 1..Len(sg.tr) : sg.tr[i].at = at /\ GapOf(sg, i, <<o.n, o.s>>) THEN Report(0, "", "not a gap", <<>>)
              ELSE LET i == CHOOSE j \in 1..Len(sg.tr) : sg.tr[j].at = at IN
                   /\ Len(o.out) = Len(GapProbes) \/ Report(0, "", "shape", <<>>)
                   /\ \A j \in 1..Len(GapProbes) :
                        LET v == GapVerdict(GapProbes[j], sg, i, <<o.n, o.s>>, o.out[j]) IN
                        v = "ok" \/ Report(j, GapProbes[j].fn, v, <<"gap", "">>)
=============================================================================
