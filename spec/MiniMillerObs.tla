---------------------------- MODULE MiniMillerObs ----------------------------
(* line: [c |-> the case (AST and typed input records) as emitted, out |-> output items parsed by the harness:     *)
(*        <<"p", line>>, <<"r", pairs>>, or the single item <<"fatal">> for a run that ended in an mlr error]      *)
EXTENDS MiniMiller, Json
CONSTANT ObsFile
Obs == ndJsonDeserialize(ObsFile)
VARIABLE l
Init == l = 1
Next == l < Len(Obs) /\ l' = l + 1
Conforms == LET o == Obs[l] IN (o.out = Run(o.c.p, o.c.recs)) \/ PrintT(ToJson([line |-> l, expected |-> Run(o.c.p, o.c.recs)]))
=============================================================================
