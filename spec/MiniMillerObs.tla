---------------------------- MODULE MiniMillerObs ----------------------------
(* line: [c |-> the case (AST and typed input records) as emitted, out |-> output items parsed by the harness:     *)
(*        <<"p", line>>, <<"r", pairs>>, or the single item <<"fatal">> for a run that ended in an mlr error]      *)
EXTENDS MiniMiller, Json
CONSTANT ObsFile
Obs == ndJsonDeserialize(ObsFile)
VARIABLE l
Init == l = 1
Next == l < Len(Obs) /\ l' = l + 1
\* a law case (family emitsnap): out0, the output of the cut-down run, must be a prefix of out
IsLaw(c) == "law" \in DOMAIN c
IsPrefixOf(a, b) == Len(a) <= Len(b) /\ SubSeq(b, 1, Len(a)) = a
Conforms == LET o == Obs[l] IN
  IF IsLaw(o.c) THEN (IsPrefixOf(o.out0, o.out) /\ o.out0 # <<>> /\ o.out0 # << <<"fatal">> >>)
                     \/ PrintT(ToJson([line |-> l, expected |-> <<"the output of the cut-down run as a prefix", o.out0>>]))
  ELSE (o.out = Run(o.c.p, o.c.recs)) \/ PrintT(ToJson([line |-> l, expected |-> Run(o.c.p, o.c.recs)]))
=============================================================================
