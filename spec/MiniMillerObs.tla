---------------------------- MODULE MiniMillerObs ----------------------------
(* line: [c |-> the case (AST and typed input records) as emitted, out |-> output items parsed by the harness:     *)
(*        <<"p", line>>, <<"r", pairs>>, or the single item <<"fatal">> for a run that ended in an mlr error]      *)
EXTENDS MiniMiller, Json
CONSTANT ObsFile
Obs == ndJsonDeserialize(ObsFile)
VARIABLE l
Init == l = 1
Next == l < Len(Obs) /\ l' = l + 1
\* a law case (family emitsnap): out0, the output of the cut-down run, must be a prefix of out
IsLaw(c) == "law" \in DOMAIN c
IsPrefixOf(a, b) == Len(a) <= Len(b) /\ SubSeq(b, 1, Len(a)) = a
NonEmpty(out) == SelectSeq(out, LAMBDA x : ~(Len(x) = 2 /\ x[1] = "r" /\ x[2] = <<>>))
Conforms == LET o == Obs[l] IN
  IF IsLaw(o.c) THEN (IsPrefixOf(o.out0, o.out) /\ o.out0 # <<>> /\ o.out0 # << <<"fatal">> >>)
                     \/ PrintT(ToJson([line |-> l, expected |-> <<"the output of the cut-down run as a prefix", o.out0>>]))
  \* (a record with no fields is a blank line of DKVP output, which the harness cannot tell from no line: such records
  \* are left out on both sides)
  ELSE (NonEmpty(o.out) = NonEmpty(Run(o.c.p, o.c.recs))) \/ PrintT(ToJson([line |-> l, expected |-> Run(o.c.p, o.c.recs)]))
=============================================================================
