------------------------------ MODULE ZonesGen ------------------------------
(* Emits the zone part of the case space of C16 from the specification's own sets: the probe lists and the zone table     *)
(* (once; the table also as the lines `zdump -v` prints for its transitions, so that the harness can compare them as     *)
(* text with the tz database installed on the machine), the instants with every number text and every text to be parsed, *)
(* the local times inside gaps.  One variable; the configuration picks the INIT / NEXT / INVARIANT triple of one family. *)
EXTENDS ZonesCases, Json
VARIABLE x
Stay == UNCHANGED x

\* ---- the probe lists and the table ---------------------------------------------------------------
ZdumpStamp == <<"%a", " ", "%b", " ", "%e", " ", "%H", ":", "%M", ":", "%S", " ", "%Y">>
ZLine(sg, t) ==
  LET st == StateIn(sg, t)
      L  == Plus(t, st.off)
  IN TheText(ZdumpStamp, t[1], t[2], 0) \o " UT = " \o TheText(ZdumpStamp, L[1], L[2], 0) \o " " \o st.abbr
     \o " isdst=" \o (IF st.dst THEN "1" ELSE "0") \o " gmtoff=" \o ToString(st.off)
TableOut(k) ==
  LET sg == Segs[k] IN
  [zone |-> sg.zone, y1 |-> sg.y1, y2 |-> sg.y2, years |-> [i \in 1..(sg.y2 - sg.y1 + 1) |-> ToString(sg.y1 + i - 1)],
   transitions |-> Len(sg.tr), gaps |-> Cardinality({i \in 1..Len(sg.tr) : IsGap(sg, i)}),
   overlaps |-> Cardinality({i \in 1..Len(sg.tr) : sg.tr[i].off < Before(sg, i).off}),
   offsets |-> Cardinality(OffsetsOf(sg)),
   init |-> OffsetText(sg.init.off \div 60) \o " " \o sg.init.abbr,
   lines |-> [j \in 1..(2 * Len(sg.tr)) |-> ZLine(sg, IF j % 2 = 1 THEN Plus(sg.tr[(j + 1) \div 2].at, -1) ELSE sg.tr[j \div 2].at)]]
InitSpace == x = 0
EmitSpace == x = 0 /\ PrintT(ToJson([loc |-> LocProbes, gap |-> GapProbes, zones |-> ZoneNames, segs |-> [k \in 1..NSegs |-> TableOut(k)]]))

\* ---- instants --------------------------------------------------------------------------------------
CaseOut(c) ==
  LET sg == Segs[c.k]
      t  == <<c.n, c.s>>
  IN [kind |-> "loc", k |-> c.k, zone |-> sg.zone, n |-> c.n, s |-> c.s, f |-> c.f, route |-> c.route, set |-> Setting(c.route, sg.zone),
      cls |-> OverlapClass(sg, t),
      \* the transition within three hours of the instant, if any (0: none), for the coverage report
      near |-> LET q == CountLeq(sg.tr, Plus(t, 10800), 0, Len(sg.tr)) IN IF q > 0 /\ Leq(Plus(sg.tr[q].at, -10800), t) THEN q ELSE 0,
      t  |-> SecsText(c.n, c.s), th |-> HalfText(c.n, c.s), tn |-> UnitText(c.n, c.s, c.f, 9), iso |-> IsoText(c.n, c.s, 0, 0),
      x  |-> [i \in 1..Len(LocProbes) |-> IF IsParse(LocProbes[i]) THEN ParseInput(LocProbes[i], sg, t, c.f) ELSE ""]]
InitLoc == x \in LocCases
EmitLoc == PrintT(ToJson(CaseOut(x)))
Start == Lehmer(Lehmer(Seed + 40009))
InitRand == x = <<1, Start>>
NextRand == x[1] < NRand /\ x' = <<x[1] + 1, Lehmer(Lehmer(Lehmer(x[2])))>>
EmitRand == PrintT(ToJson(CaseOut(RandCase(x[2]))))

\* ---- local times inside gaps -------------------------------------------------------------------------
GapOut(c) ==
  LET sg == Segs[c.k]
      L  == <<c.n, c.s>>
  IN [kind |-> "gap", k |-> c.k, zone |-> sg.zone, an |-> sg.tr[c.i].at[1], as |-> sg.tr[c.i].at[2], n |-> c.n, s |-> c.s, route |-> c.route,
      set |-> Setting(c.route, sg.zone), local |-> Stamp(L, 0, 0),
      x |-> [j \in 1..Len(GapProbes) |-> GapInput(GapProbes[j], sg, c.i, L)]]
InitGap == x \in GapCases
EmitGap == PrintT(ToJson(GapOut(x)))
=============================================================================
