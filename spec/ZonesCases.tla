----------------------------- MODULE ZonesCases -----------------------------
(***************************************************************************)
(* The case space of the zone part of C16 and the judgement of one observed *)
(* text.  A case is an instant in a zone of the table (kind "loc") or a     *)
(* local time that does not exist there (kind "gap"), together with a       *)
(* setting: how the zone is named to the process and the call.  A probe is  *)
(* one way of asking mlr; the harness spells it by a fixed table.           *)
(***************************************************************************)
EXTENDS Zones
CONSTANTS Tier,         \* "quick" | "thorough"
          Seed,
          NRand         \* number of pseudo-random instants

Thorough == Tier = "thorough"

(***************************************************************************)
(* Probes.  off says what zone information the text to be parsed carries:   *)
(* NoZone, Own (the offset in force, as %z), Alt (another offset of the     *)
(* same zone, as %z), OwnName (the abbreviation in force, as %Z), UtcName   *)
(* ("UTC" as %Z), or a fixed number of minutes (as %z).                     *)
(***************************************************************************)
NoZone == 10000
Own == 9999
Alt == 9998
OwnName == 9997
UtcName == 9996
P(fn, k, fmt, off) == [fn |-> fn, k |-> k, fmt |-> fmt, off |-> off]
None == <<>>
Plain   == <<"%Y", "-", "%m", "-", "%d", " ", "%H", ":", "%M", ":", "%S">>
PlainZ  == Plain \o <<" ", "%z">>
PlainN  == Plain \o <<" ", "%Z">>
IsoZ    == <<"%F", "T", "%T", "%z">>
IsoLit  == <<"%Y", "-", "%m", "-", "%d", "T", "%H", ":", "%M", ":", "%S", "Z">>   \* the literal Z of the reference's strptime_local example
Iso     == IsoLit
DateStyle == <<"%a", " ", "%b", " ", "%e", " ", "%H", ":", "%M", ":", "%S", " ", "%Z", " ", "%Y">>      \* as date(1) prints
Frac3Z  == <<"%Y", "-", "%m", "-", "%d", " ", "%H", ":", "%M", ":", "%3S", " ", "%z">>
Frac9Z  == <<"%Y", "-", "%m", "-", "%d", " ", "%H", ":", "%M", ":", "%9S", " ", "%z">>
LocalStrf == <<
  Plain, PlainN, PlainZ, IsoZ, <<"%s">>, <<"%j">>, <<"%A">>, <<"%H">>, <<"%d">>, <<"%Z">>, <<"%z">>,
  DateStyle,
  <<"%I", ":", "%M", " ", "%p">>,
  <<"%A", ", ", "%B", " ", "%e", ", ", "%Y">>,
  <<"%U", " ", "%W", " ", "%V", " ", "%u", " ", "%w">>,
  <<"%y", "%m", "%d", "%H", "%M", "%S">>
>>
LocalStrfN == <<Frac3Z, Frac9Z, <<"%6S">>, PlainN, <<"%s", " ", "%N">>, <<"%j", " ", "%H">>>>
\* formats without zone information that determine the local time, from the documented strptime directives
LocalParse == <<
  Plain, IsoLit,
  <<"%d", "/", "%m", "/", "%Y", " ", "%T">>,
  <<"%Y", " ", "%j", " ", "%H", " ", "%M", " ", "%S">>,
  <<"%Y", "-", "%m", "-", "%d", " ", "%I", ":", "%M", ":", "%S", " ", "%p">>,
  <<"%Y", "%m", "%d", "%H", "%M", "%S">>,
  <<"%a", " ", "%b", " ", "%e", " ", "%H", ":", "%M", ":", "%S", " ", "%Y">>
>>
FixedOffsets == <<0, -240, 330, 345, 840, -720, -150>>      \* +0000 -0400 +0530 +0545 +1400 -1200 -0230

Map(seq, Op(_)) == [i \in 1..Len(seq) |-> Op(seq[i])]
LocProbes ==
     Map(<<0, 1, 3, 6, 9>>, LAMBDA k : P("sec2localtime", k, None, NoZone))
  \o <<P("sec2localtime.h", 0, None, NoZone), P("sec2localtime.h", 3, None, NoZone), P("sec2localdate", 0, None, NoZone)>>
  \o Map(<<0, 3, 6, 9>>, LAMBDA k : P("nsec2localtime", k, None, NoZone))
  \o <<P("nsec2localdate", 0, None, NoZone)>>
  \o Map(LocalStrf, LAMBDA f : P("strftime_local", 0, f, NoZone))
  \o <<P("strftime_local.h", 0, Frac3Z, NoZone), P("strftime_local.h", 0, <<"%s">>, NoZone)>>
  \o Map(LocalStrfN, LAMBDA f : P("strfntime_local", 0, f, NoZone))
  \o <<P("gmt2localtime", 0, None, NoZone), P("localtime2sec", 0, None, NoZone), P("localtime2nsec", 0, None, NoZone),
       P("localtime2gmt", 0, None, NoZone)>>
  \o Map(LocalParse, LAMBDA f : P("strptime_local", 0, f, NoZone))
  \o <<P("strpntime_local", 0, Plain, NoZone), P("strpntime_local", 0, LocalParse[4], NoZone)>>
  \o <<P("strptime_local", 0, PlainZ, Own), P("strptime_local", 0, PlainZ, Alt)>>
  \o Map(FixedOffsets, LAMBDA o : P("strptime_local", 0, PlainZ, o))
  \o <<P("strptime_local", 0, IsoZ, Own), P("strpntime_local", 0, PlainZ, Own), P("strpntime_local", 0, PlainZ, Alt),
       P("strptime_local", 0, PlainN, OwnName), P("strptime_local", 0, DateStyle, OwnName), P("strptime_local", 0, PlainN, UtcName)>>
  \* round trips through the binary's own texts
  \o <<P("strptime_local.rt", 0, PlainZ, Own), P("strptime_local.rt", 0, IsoZ, Own), P("strptime_local.rt", 0, Plain, NoZone),
       P("strptime_local.rt", 0, PlainN, OwnName), P("strptime_local.rt", 0, DateStyle, OwnName), P("strpntime_local.rt", 0, PlainZ, Own),
       P("localtime2sec.rt", 0, None, NoZone), P("localtime2gmt.rt", 0, None, NoZone), P("gmt2localtime.rt", 0, None, NoZone),
       P("sec2localtime.rt", 0, None, NoZone)>>
  \* the GMT functions in the same process: the zone must not touch them
  \o <<P("sec2gmt", 0, None, NoZone), P("sec2gmtdate", 0, None, NoZone), P("strftime", 0, PlainN, NoZone), P("strftime", 0, PlainZ, NoZone),
       P("gmt2sec", 0, None, NoZone), P("strptime", 0, Plain, NoZone), P("strptime", 0, PlainZ, Own)>>
GapProbes == <<P("localtime2sec", 0, None, NoZone), P("localtime2nsec", 0, None, NoZone), P("localtime2gmt", 0, None, NoZone),
               P("strptime_local", 0, Plain, NoZone), P("strptime_local", 0, LocalParse[3], NoZone),
               P("strptime_local", 0, PlainZ, Own), P("strptime_local", 0, PlainZ, Alt)>>

(***************************************************************************)
(* The judgement of a "loc" case: segment sg, instant t = <<n, s>>,         *)
(* nanoseconds f.                                                           *)
(***************************************************************************)
IsParse(p) == p.fn \in {"strptime_local", "strpntime_local", "strptime", "localtime2sec", "localtime2nsec", "localtime2gmt",
                        "gmt2localtime", "gmt2sec", "sec2localtime.rt"}
OtherOffsets(sg, st) == OffsetsOf(sg) \ {st.off}
AltOffset(sg, st) == CHOOSE o \in OtherOffsets(sg, st) : \A q \in OtherOffsets(sg, st) : o <= q
Asked(p, sg, t) ==
  LET st == StateIn(sg, t) IN
  CASE p.off = Alt -> OtherOffsets(sg, st) # {}
    [] p.off = OwnName -> st.abbr \notin NumericAbbrs          \* "%Z  Time zone name. UTC, EST, CST": names only
    [] OTHER -> TRUE
\* the minutes written for %z
Minutes(p, sg, st) == CASE p.off = Own -> st.off \div 60 [] p.off = Alt -> AltOffset(sg, st) \div 60 [] OTHER -> p.off
\* the text handed to a parsing probe
ParseInput(p, sg, t, f) ==
  LET st == StateIn(sg, t)
      L  == Plus(t, st.off)
  IN CASE ~Asked(p, sg, t) -> ""
       [] p.fn \in {"localtime2sec", "localtime2nsec", "localtime2gmt", "sec2localtime.rt"} -> Stamp(L, 0, 0)
       [] p.fn \in {"gmt2localtime", "gmt2sec"} -> IsoText(t[1], t[2], 0, 0)
       [] p.fn = "strptime" /\ p.off = NoZone -> TheText(p.fmt, t[1], t[2], 0)                  \* the GMT text for the GMT function
       [] p.off = NoZone -> TheText(p.fmt, L[1], L[2], 0)
       [] p.off = OwnName -> TheText(FixedFmt(p.fmt, 0, st.abbr), L[1], L[2], 0)
       [] p.off = UtcName -> TheText(FixedFmt(p.fmt, 0, "UTC"), t[1], t[2], 0)
       [] OTHER -> LET m == Minutes(p, sg, st)  X == Plus(t, m * 60) IN TheText(FixedFmt(p.fmt, m, ""), X[1], X[2], 0)
SecTexts(S) == UNION {NumSpellings(SecsText(c[1], c[2])) : c \in S}      \* strptime: "seconds", printed 14400 or 1440768801.000000
IntTexts(S) == {SecsText(c[1], c[2]) : c \in S}                          \* localtime2sec: "integer seconds"
NsTexts(S) == {UnitText(c[1], c[2], 0, 9) : c \in S}
\* the instants a parsed text may denote
Denoted(p, sg, t) ==
  LET st == StateIn(sg, t)
      C  == Candidates(sg, Plus(t, st.off))
  IN CASE p.off = NoZone -> C
       [] p.off = OwnName -> {c \in C : StateIn(sg, c).abbr = st.abbr}      \* the name in the text says which of two
       [] OTHER -> {t}                                                       \* an offset in the text decides
Allowed(p, sg, t, f) ==
  LET st == StateIn(sg, t)
      L  == Plus(t, st.off)
  IN
  CASE p.fn = "sec2localtime" -> {Stamp(L, 0, p.k)}
    [] p.fn = "sec2localtime.h" -> {Stamp(L, 500000000, p.k)}
    [] p.fn = "nsec2localtime" -> {Stamp(L, f, p.k)}
    [] p.fn \in {"sec2localdate", "nsec2localdate"} -> {DateText(L[1])}
    [] p.fn = "strftime_local" -> LocalFormatted(p.fmt, sg, t, 0)
    [] p.fn = "strftime_local.h" -> LocalFormatted(p.fmt, sg, t, 500000000)
    [] p.fn = "strfntime_local" -> LocalFormatted(p.fmt, sg, t, f)
    [] p.fn \in {"gmt2localtime", "gmt2localtime.rt", "sec2localtime.rt"} -> {Stamp(L, 0, 0)}
    [] p.fn \in {"localtime2sec", "localtime2sec.rt"} -> IntTexts(Denoted(p, sg, t))
    [] p.fn = "localtime2nsec" -> NsTexts(Denoted(p, sg, t))
    [] p.fn \in {"localtime2gmt", "localtime2gmt.rt"} -> {IsoText(c[1], c[2], 0, 0) : c \in Denoted(p, sg, t)}
    [] p.fn \in {"strptime_local", "strptime_local.rt"} -> SecTexts(Denoted(p, sg, t))
    [] p.fn \in {"strpntime_local", "strpntime_local.rt"} -> NsTexts(Denoted(p, sg, t))
    \* the GMT functions
    [] p.fn = "sec2gmt" -> {IsoText(t[1], t[2], 0, 0)}
    [] p.fn = "sec2gmtdate" -> {DateText(t[1])}
    [] p.fn = "strftime" -> Formatted(p.fmt, t[1], t[2], 0)
    [] p.fn = "gmt2sec" -> IntTexts({t})
    [] p.fn = "strptime" -> SecTexts({t})
Verdict(p, sg, t, f, x) == IF ~Asked(p, sg, t) \/ x \in Allowed(p, sg, t, f) THEN "ok" ELSE "value"
\* class names for findings and for the coverage report
OverlapClass(sg, t) ==
  LET C == Candidates(sg, Local(sg, t)) IN
  IF Cardinality(C) = 1 THEN "unique" ELSE IF \A c \in C : Leq(t, c) THEN "overlap-first" ELSE "overlap-second"

(***************************************************************************)
(* The judgement of a "gap" case: transition i of sg, local time L in its   *)
(* gap.  Without zone information any of GapReadings or a refusal; with an  *)
(* offset in the text, that offset decides.                                 *)
(***************************************************************************)
GapMinutes(p, sg, i) == IF p.off = Own THEN Before(sg, i).off \div 60 ELSE sg.tr[i].off \div 60
GapInput(p, sg, i, L) ==
  CASE p.fn \in {"localtime2sec", "localtime2nsec", "localtime2gmt"} -> Stamp(L, 0, 0)
    [] p.off = NoZone -> TheText(p.fmt, L[1], L[2], 0)
    [] OTHER -> TheText(FixedFmt(p.fmt, GapMinutes(p, sg, i), ""), L[1], L[2], 0)
GapDenoted(p, sg, i, L) == IF p.off = NoZone THEN GapReadings(sg, i, L) ELSE {Plus(L, -(GapMinutes(p, sg, i) * 60))}
GapAllowed(p, sg, i, L) ==
  (IF p.off = NoZone THEN {"(error)"} ELSE {}) \cup
  (CASE p.fn = "localtime2sec" -> IntTexts(GapDenoted(p, sg, i, L))
     [] p.fn = "localtime2nsec" -> NsTexts(GapDenoted(p, sg, i, L))
     [] p.fn = "localtime2gmt" -> {IsoText(c[1], c[2], 0, 0) : c \in GapDenoted(p, sg, i, L)}
     [] p.fn = "strptime_local" -> SecTexts(GapDenoted(p, sg, i, L)))
GapVerdict(p, sg, i, L, x) == IF x \in GapAllowed(p, sg, i, L) THEN "ok" ELSE "value"

(***************************************************************************)
(* Settings: the four routes of naming the zone.  The other routes carry    *)
(* DIFFERENT zones, which must lose.                                        *)
(***************************************************************************)
Routes == <<"arg", "env", "flag", "var">>
NZ == Len(ZoneNames)
ZoneIdx(z) == CHOOSE i \in 1..NZ : ZoneNames[i] = z
Decoy(z, d) == ZoneNames[((ZoneIdx(z) + d - 1) % NZ) + 1]         \* another zone of the table, d = 1..NZ-1
\* decoys of the process (flag, var) do not depend on the case for the routes that share processes among zones
Setting(route, z) ==
  CASE route = "arg"  -> [arg |-> z,  env |-> Decoy(z, 4), flag |-> "Australia/Lord_Howe", var |-> "America/St_Johns"]
    [] route = "env"  -> [arg |-> "", env |-> z,           flag |-> "Asia/Kathmandu",      var |-> "America/Anchorage"]
    [] route = "flag" -> [arg |-> "", env |-> "",          flag |-> z,                     var |-> Decoy(z, 6)]
    [] route = "var"  -> [arg |-> "", env |-> "",          flag |-> "",                    var |-> z]
RouteOf(k, t) == Routes[((k + t[1] + (t[2] \div 900) + Seed) % 4) + 1]

(***************************************************************************)
(* Instants: windows around every transition of the chosen years, ordinary  *)
(* instants, the instants of the reference's examples, pseudo-random ones.  *)
(***************************************************************************)
\* always: the epoch year, the year Nepal moved, the first year of the present US rule, the year Samoa crossed the date line,
\* the year Turkey stopped, the year Brazil stopped, the year Samoa stopped, a recent year
SpecialYears == {1970, 1986, 2007, 2011, 2016, 2019, 2021, 2024}
YearOf(t) == CivilFromDays(t[1]).y
CaseYear(y) == Thorough \/ y \in SpecialYears \/ (y + Seed) % 9 = 0
Step == IF Thorough THEN 600 ELSE 900
WindowOffsets == {k * Step : k \in (-(10800 \div Step))..(10800 \div Step)} \cup {-1, 1} \cup (IF Thorough THEN {-59, 59, -3601, 3599} ELSE {})
\* far enough from the ends of the segment for every candidate instant to lie inside it
Safe(sg, t) == Cardinality(OffsetsOf(sg)) = 1 \/ (InSeg(sg, Plus(t, -172800)) /\ InSeg(sg, Plus(t, 172800)))
Around(sg) == UNION {{Plus(sg.tr[i].at, d) : d \in WindowOffsets} : i \in {j \in 1..Len(sg.tr) : CaseYear(YearOf(sg.tr[j].at))}}
OrdinaryIn(sg) ==
  {Utc(y, md[1], md[2], md[3]) : y \in {yy \in sg.y1..sg.y2 : CaseYear(yy) /\ (Thorough \/ yy % 3 = Seed % 3)},
                                 md \in {<<1, 15, 43200>>, <<2, 28, 86399>>, <<7, 15, 0>>, <<10, 10, 37056>>, <<12, 25, 62130>>}}
\* sec2localtime(0), 1234567890, 1440768801, 946775045, 981165906, 946684800 - 7200, 1583053200, 1582992000 of the reference
DocInstants == {<<0, 0>>, <<14288, 84690>>, <<16675, 48801>>, <<10958, 3845>>, <<11356, 7506>>, <<10956, 79200>>, <<18322, 32400>>,
                <<18321, 57600>>, <<16675, 38001>>}
InstantsOf(k) == LET sg == Segs[k] IN {t \in Around(sg) \cup OrdinaryIn(sg) \cup DocInstants : InSeg(sg, t) /\ Safe(sg, t)}
Fracs == <<1, 123412341, 500000000, 999999999, 100000000, 987654321, 1000, 999999, 4999, 0>>
FracOf(t) == Fracs[((t[1] + t[2] + Seed) % Len(Fracs)) + 1]
LocCase(k, t) == [kind |-> "loc", k |-> k, n |-> t[1], s |-> t[2], f |-> FracOf(t), route |-> RouteOf(k, t)]
LocCases == UNION {{LocCase(k, t) : t \in InstantsOf(k)} : k \in 1..NSegs}
\* pseudo-random instants (Lehmer generator by Schrage's method: nothing exceeds 2^31)
Lehmer(x) == LET y == 16807 * (x % 127773) - 2836 * (x \div 127773) IN IF y > 0 THEN y ELSE y + 2147483647
RandCase(x) ==
  LET a == Lehmer(x)
      b == Lehmer(a)
      c == Lehmer(b)
      k == (a % NSegs) + 1
      sg == Segs[k]
      span == sg.hi[1] - sg.lo[1] - 4
      t == <<sg.lo[1] + 2 + (b % span), c % 86400>>
  IN LocCase(k, t)

(***************************************************************************)
(* Local times inside gaps.                                                 *)
(***************************************************************************)
IsGap(sg, i) == sg.tr[i].off > Before(sg, i).off
GapPoints(sg, i) ==
  LET len == sg.tr[i].off - Before(sg, i).off
      g0  == Plus(sg.tr[i].at, Before(sg, i).off)
  IN {Plus(g0, d) : d \in {0, 1, len \div 2, len - 1} \cup (IF Thorough THEN {59, 60, len \div 3, len - 60} ELSE {})}
GapCases ==
  UNION {UNION {{[kind |-> "gap", k |-> k, i |-> i, n |-> L[1], s |-> L[2], route |-> RouteOf(k + i, L)] : L \in GapPoints(Segs[k], i)}
                : i \in {j \in 1..Len(Segs[k].tr) : IsGap(Segs[k], j) /\ CaseYear(YearOf(Segs[k].tr[j].at))}}
         : k \in 1..NSegs}
=============================================================================
