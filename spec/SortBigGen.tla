------------------------------ MODULE SortBigGen ------------------------------
(* every command x every list of at most ExLen values, plus NSample TLC-drawn lists (-seed) of each length up to MaxLen *)
EXTENDS SortBig, Randomization, Json
CONSTANTS ExLen, MaxLen, NSample
ASSUME TotalPreorder
Min2(a, b) == IF a < b THEN a ELSE b
Lists == UNION {[1..l -> UB] : l \in 0..ExLen}
         \cup UNION {RandomSubset(Min2(NSample, Cardinality(UB) ^ l), [1..l -> UB]) : l \in (ExLen + 1)..MaxLen}
VARIABLE x
Init == \E c \in Cmds, s \in Lists : x = [c |-> c, s |-> s]
Next == UNCHANGED x
Emit == PrintT(ToJson(x))
=============================================================================
