-------------------------------- MODULE JoinMC --------------------------------
(* The laws of C13 on the specification itself, over every pair of lists of the bounded space.  A state is      *)
(* <<family, left list, right list, stage>>: the left lists are the initial states, each one's successors add   *)
(* every right list (so that TLC's workers share the pairs); the laws are judged on the complete pairs.         *)
EXTENDS JoinCases
CONSTANT MCTotal     \* only pairs with Len(left) + Len(right) <= MCTotal
VARIABLE s
Init == s \in {<<fl[1], fl[2], <<>>, 0>> : fl \in ({1} \X LL1) \cup ({2} \X LL2)}
Next == /\ s[4] = 0
        /\ s' \in {<<s[1], s[2], r, 1>> : r \in {r \in (IF s[1] = 1 THEN RL1 ELSE RL2) : Len(s[2]) + Len(r) <= MCTotal}}

Renamed1 == [j |-> <<"k">>, l |-> <<"lk">>, r |-> <<"rk">>, lg |-> TRUE, rg |-> TRUE]
Renamed2 == [j |-> <<"k", "m">>, l |-> <<"lk", "lm">>, r |-> <<"rk", "rm">>, lg |-> TRUE, rg |-> TRUE]
\* laws about which records pair: every naming shape x --ignore-empty
MatchCfgs(names, ifs) == {Cfg(n, All, "", "", NoLk, ie, "", "", ifs) : n \in {n \in names : n.lg = n.rg}, ie \in BOOLEAN}
\* laws about the emitted records: plain names without prefixes; renamed join fields with --lp --rp --lk
ShapeCfgs(renamed, ifs) ==
  {Cfg(v[1], e, v[2], v[3], v[4], ie, mode, "", ifs) :
     v \in {<<PlainNames, "", "", NoLk>>, <<renamed, "L_", "R_", Lk(<<"c">>)>>},
     e \in {All, AllNp, [np |-> FALSE, ul |-> TRUE, ur |-> FALSE]}, ie \in BOOLEAN, mode \in {"", "-s"}}

MatchLaws(c, L, R) == /\ EveryRecordOnce(c, L, R) /\ IgnoreEmptyNeverPairs(c, L, R)
                      /\ PairOrder(c, L, R) /\ PairedShape(c, L, R)
ShapeLaws(c, L, R) == /\ ReferenceAllowed(c, L, R)
                      /\ c.mode = "-s" => MergeAgrees(c, L, R)
                      /\ c.mode = "" /\ ~c.np => NpRemovesPaired(c, L, R)

LawsOn(names, renamed, ifs) ==
  /\ \A c \in MatchCfgs(names, ifs) : MatchLaws(c, InstList(s[2], LF(c)), InstList(s[3], RF(c)))
  /\ \A c \in ShapeCfgs(renamed, ifs) : ShapeLaws(c, InstList(s[2], LF(c)), InstList(s[3], RF(c)))
Laws == s[4] = 1 => IF s[1] = 1 THEN LawsOn(Names1, Renamed1, ",") ELSE LawsOn(Names2, Renamed2, ";")
=============================================================================
