------------------------------- MODULE FanOut -------------------------------
(***************************************************************************)
(* Routed outputs (C20): the tee and split verbs and redirected              *)
(* tee/emit/print/dump statements send records to files chosen per record.   *)
(*                                                                         *)
(* Requirement (what the user relies on): at end of stream each target's     *)
(* file is ONE well-formed document of the output format holding exactly the *)
(* records routed to it, in stream order -- Render below -- appended to      *)
(* what was there in append mode.                                            *)
(*                                                                         *)
(* Implementation (pkg/output/file_output_handlers.go:                      *)
(* MultiOutputHandlerManager): an LRU cache of at most K open handlers; a    *)
(* miss at capacity takes the file away from the least recently used handler *)
(* and remembers it; a later miss on a remembered name re-opens the file in  *)
(* append mode.  Constant Suspend chooses between the two designs the code   *)
(* has had: TRUE (the tree as repaired) - the evicted handler keeps its      *)
(* record writer, which continues its document after the re-open and ends it *)
(* when the manager is closed; FALSE (the pinned tree) - eviction closes the  *)
(* handler (ending its document) and the re-open starts a FRESH record       *)
(* writer: kept as the design mutation TLC must still refute (Refines fails  *)
(* for documents with a header or brackets).  Written as a function Step over a state      *)
(* record so that both the model checker (actions) and the validation of     *)
(* real files (ImplFiles of a history) use the same definition.              *)
(*                                                                         *)
(* A file is a sequence of tokens: <<"X">> pre-existing contents,            *)
(* <<"H">> a header line, <<"O">>/<<"C">> opening/closing bracket of a       *)
(* document, <<"R", r>> record r.                                           *)
(***************************************************************************)
EXTENDS Integers, Sequences, FiniteSets, TLC

CONSTANTS Targets,     \* set of target ids (naturals)
          K,           \* cache capacity (the code's constant is 256)
          Kind,        \* "plain" (DKVP, NIDX, JSON Lines, XTAB, lines of text), "header" (CSV, TSV), "bracket" (JSON)
          Mode,        \* "write" (>) or "append" (>>)
          Pre,         \* set of targets whose file exists beforehand
          MaxWrites,   \* bound on the history length
          Suspend      \* TRUE: eviction suspends the handler (repaired design); FALSE: eviction closes it (pinned tree)

VARIABLES hist,        \* the routed input so far: sequence of <<target, record>>
          st,          \* implementation state (see Init0)
          closed       \* end of stream reached, manager closed

vars == <<hist, st, closed>>

H == <<"H">>
O == <<"O">>
C == <<"C">>
X == <<"X">>
R(r) == <<"R", r>>

RECURSIVE RecsOf(_, _)
RecsOf(h, t) == IF h = <<>> THEN <<>>
                ELSE IF Head(h)[1] = t THEN <<Head(h)[2]>> \o RecsOf(Tail(h), t) ELSE RecsOf(Tail(h), t)

Toks(rs) == [i \in 1..Len(rs) |-> R(rs[i])]

\* one well-formed document
Render(rs) == IF rs = <<>> THEN <<>>
              ELSE CASE Kind = "plain"   -> Toks(rs)
                     [] Kind = "header"  -> <<H>> \o Toks(rs)
                     [] Kind = "bracket" -> <<O>> \o Toks(rs) \o <<C>>

\* what each target's file must be at end of stream
Required(h, t) ==
  LET rs == RecsOf(h, t)
      old == IF t \in Pre THEN <<X>> ELSE <<>>
  IN IF rs = <<>> THEN old                       \* never written: untouched
     ELSE IF Mode = "append" THEN old \o Render(rs)
     ELSE Render(rs)                             \* truncated and rewritten

(***************************************************************************)
(* The implementation as a function                                         *)
(***************************************************************************)
Init0 == [lru     |-> <<>>,                                   \* open targets, most recently used first
          evicted |-> {},                                     \* closed by eviction, not re-opened since
          fresh   |-> [t \in Targets |-> TRUE],                \* the target's current writer has written nothing yet
          file    |-> [t \in Targets |-> IF t \in Pre THEN <<X>> ELSE <<>>],
          lastHit |-> FALSE, lastEvict |-> 0, lastAppend |-> FALSE]   \* replies of the last lookup (for trace validation)

Closing == IF Kind = "bracket" THEN <<C>> ELSE <<>>
Opening == CASE Kind = "plain" -> <<>> [] Kind = "header" -> <<H>> [] Kind = "bracket" -> <<O>>

Without(s, t) == SelectSeq(s, LAMBDA x : x # t)

\* closing a handler whose writer has written something emits the closing token
CloseTok(s, e) == IF s.fresh[e] THEN <<>> ELSE Closing

Step(s, t, r) ==
  IF \E i \in 1..Len(s.lru) : s.lru[i] = t
  THEN \* hit: move to the front, write through the existing writer
       [s EXCEPT !.lru = <<t>> \o Without(s.lru, t),
                 !.file[t] = @ \o (IF s.fresh[t] THEN Opening ELSE <<>>) \o <<R(r)>>,
                 !.fresh[t] = FALSE,
                 !.lastHit = TRUE, !.lastEvict = 0, !.lastAppend = FALSE]
  ELSE LET full == Len(s.lru) >= K
           e == IF full THEN s.lru[Len(s.lru)] ELSE 0
           s1 == IF full
                 THEN [s EXCEPT !.lru = SubSeq(s.lru, 1, Len(s.lru) - 1),
                                !.evicted = @ \cup {e},
                                \* (suspended: everything written so far is in the file, the document stays open)
                                !.file[e] = @ \o (IF Suspend THEN <<>> ELSE CloseTok(s, e))]
                 ELSE s
           app == Mode = "append" \/ t \in s1.evicted
           resumed == Suspend /\ t \in s1.evicted
       IN [s1 EXCEPT !.lru = <<t>> \o s1.lru,
                     !.evicted = @ \ {t},
                     \* a resumed handler continues its document; a new handler means a new record writer, which
                     \* starts its document afresh
                     !.file[t] = IF resumed THEN @ \o (IF s.fresh[t] THEN Opening ELSE <<>>) \o <<R(r)>>
                                 ELSE (IF app THEN @ ELSE <<>>) \o Opening \o <<R(r)>>,
                     !.fresh[t] = FALSE,
                     !.lastHit = FALSE, !.lastEvict = e, !.lastAppend = app]

RECURSIVE CloseAll(_, _)
CloseAll(s, open) == IF open = <<>> THEN [s EXCEPT !.lru = <<>>]
                     ELSE CloseAll([s EXCEPT !.file[Head(open)] = @ \o CloseTok(s, Head(open))], Tail(open))
\* the manager's Close: every open handler, and (repaired design) every suspended one, ends its document
SeqOfSet(S) == CHOOSE q \in [1..Cardinality(S) -> S] : \A i, j \in 1..Cardinality(S) : i # j => q[i] # q[j]
CloseManager(s) == LET s2 == CloseAll(s, s.lru \o (IF Suspend THEN SeqOfSet(s.evicted) ELSE <<>>))
                   IN IF Suspend THEN [s2 EXCEPT !.evicted = {}] ELSE s2

RECURSIVE Run(_, _)
Run(s, h) == IF h = <<>> THEN s ELSE Run(Step(s, Head(h)[1], Head(h)[2]), Tail(h))
\* the files the implementation leaves for a history
ImplFiles(h) == CloseManager(Run(Init0, h)).file

(***************************************************************************)
(* As a state machine                                                      *)
(***************************************************************************)
Init == hist = <<>> /\ st = Init0 /\ closed = FALSE
Write(t) == /\ ~closed /\ Len(hist) < MaxWrites
            /\ hist' = Append(hist, <<t, Len(hist) + 1>>)
            /\ st' = Step(st, t, Len(hist) + 1)
            /\ UNCHANGED closed
Close == /\ ~closed /\ closed' = TRUE /\ st' = CloseManager(st) /\ UNCHANGED hist
Next == (\E t \in Targets : Write(t)) \/ Close \/ (closed /\ UNCHANGED vars)
Spec == Init /\ [][Next]_vars

\* C20: every target ends up as one well-formed document with exactly its records, in order
Refines == closed => \A t \in Targets : st.file[t] = Required(hist, t)
\* weaker facts that hold whatever the format
RecsIn(f) == LET rs == SelectSeq(f, LAMBDA x : x[1] = "R") IN [i \in 1..Len(rs) |-> rs[i][2]]
CompleteAndOrdered == \A t \in Targets : RecsIn(st.file[t]) = RecsOf(hist, t)
AtMostKOpen == Len(st.lru) <= K
OpenNotEvicted == \A i \in 1..Len(st.lru) : st.lru[i] \notin st.evicted
=============================================================================
