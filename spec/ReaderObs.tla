------------------------------ MODULE ReaderObs ------------------------------
(* lines: [t |-> "files", files, names, use (Reader.tla: where the context variables are consulted), out, endnr (text of NR printed by the end block), exit]                         *)
(*        [t |-> "concat", out (the files read together), alone (sequence: each file read alone), exit]                          *)
(*        [t |-> "dslchain", s, out, piped, exit]: put/filter stages, each with its own functions, variables and begin/end blocks   *)
(*        [t |-> "chain", cs, s, out (the then-chain's output), piped (the output of the same verbs connected by pipes), exit] *)
EXTENDS Reader, Json
CONSTANT ObsFile
Obs == ndJsonDeserialize(ObsFile)
VARIABLE l
Init == l = 1
Next == l < Len(Obs) /\ l' = l + 1
\* with an implicit header (--implicit-csv-header, NIDX) the keys are the 1-up positions
Implicit(f) == [header |-> [i \in 1..Len(f.header) |-> ToString(i)], rows |-> f.rows]
FilesOf(o) == IF o.implicit THEN [k \in 1..Len(o.files) |-> Implicit(o.files[k])] ELSE o.files
\* a chain is judged when every verb is composable and no two counters write the same field name (what `cat -n`
\* does to a record that already has a field n is not documented)
ChainOK(cs) == /\ \A i \in 1..Len(cs) : Composable(cs[i])
               /\ \A i, j \in 1..Len(cs) : (i < j /\ cs[i].v = "cat" /\ cs[j].v = "cat" /\ cs[i].o # "" /\ cs[j].o # "") => cs[i].o # cs[j].o
               /\ \A i, j \in 1..Len(cs) : (i < j /\ cs[i].v = "uniq-a" /\ cs[i].o \in {"-c", "-n"}) => ~(cs[j].v = "uniq-a" /\ cs[j].o \in {"-c", "-n"})
Why(o) ==
  IF o.exit # 0 THEN "run failed"
  ELSE IF o.t = "files" THEN
       (IF o.out # Used(FilesOf(o), o.names, o.use.mode, o.use.sel) THEN "records or NR/FNR/FILENAME/FILENUM/NF wrong"
        ELSE IF o.endnr # ToString(FinalNR(o.files)) THEN "end block does not see the final NR" ELSE "ok")
  ELSE IF o.t = "blocks" THEN          \* files of several header blocks (CSV-lite, PPRINT)
       (IF o.out # AnnotatedB(o.files, o.names) THEN "records or NR/FNR/FILENAME/FILENUM/NF wrong"
        ELSE IF o.endnr # ToString(BFinalNR(o.files)) THEN "end block does not see the final NR" ELSE "ok")
  ELSE IF o.t = "concat" THEN          \* files in unusual byte spellings: together = the concatenation of each alone
       (IF o.out # ConcatOf(o.alone, 1, 0) THEN "files read together differ from the concatenation of each read alone" ELSE "ok")
  ELSE IF o.t = "dslchain" THEN        \* put/filter verbs with programs of their own: the law itself, then = pipe
       (IF o.piped # o.out THEN "then-chain differs from the piped verbs" ELSE "ok")
  ELSE IF ~ChainOK(o.cs) THEN "ok"      \* outside the composable space (sampled by the harness): not judged
  ELSE (IF o.out # ChainExpected(o.cs, o.s) THEN "then-chain differs from the composition of its verbs"
        ELSE IF o.piped # o.out THEN "then-chain differs from the piped verbs" ELSE "ok")
Conforms == Why(Obs[l]) = "ok" \/ PrintT(ToJson([line |-> l, why |-> Why(Obs[l])]))
=============================================================================
