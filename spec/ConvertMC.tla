------------------------------ MODULE ConvertMC ------------------------------
(* The laws of C02 on the specification itself. *)
EXTENDS ConvertCases
CONSTANTS Space,   \* "nested", "sepkeys", "paths" or "table"
          Slices   \* the space is cut into this many slices, one initial state each (so that TLC's workers share it)
VARIABLES r, p
TheSpace == CASE Space = "nested" -> NestedRecs [] Space = "sepkeys" -> SepKeyRecs [] Space = "paths" -> PathRecs [] Space = "table" -> {}
\* a cheap structural hash, only to cut the space into slices
RECURSIVE H(_)
H(v) == IF IsS(v) THEN (IF v[2] = "" THEN 1 ELSE 2)
        ELSE IF IsA(v) THEN (5 + Len(v[2]) + 7 * (IF Len(v[2]) >= 1 THEN H(v[2][1]) ELSE 0) + 11 * (IF Len(v[2]) >= 2 THEN H(v[2][2]) ELSE 0)) % 1009
        ELSE (3 + Len(v[2]) + 13 * (IF Len(v[2]) >= 1 THEN H(v[2][1][2]) + Len(v[2][1][1]) + (IF v[2][1][1][1] = "a" THEN 1 ELSE IF v[2][1][1][1] = "1" THEN 2 ELSE 3) ELSE 0)
                + 17 * (IF Len(v[2]) >= 2 THEN H(v[2][2][2]) + (IF v[2][2][1][1] = "a" THEN 1 ELSE IF v[2][2][1][1] = "1" THEN 2 ELSE 3) ELSE 0)) % 1009
Init == p \in 0..(Slices - 1) /\ r = <<>>
Next == r = <<>> /\ p' = p /\ r' \in {rec \in TheSpace : H(M(rec)) % Slices = p}

One(rec) == <<rec>>
JsonLike == {"json", "jsonl", "yaml"}
\* the tabular formats that can carry the flattened record
CanCarry(f, rec) == Carries(f, One(rec))

RecLaws(sep) ==
  LET f == Flatten(sep, r) IN
  \* flattening produces a flat record whose values are the leaves, depth first; the order of the fields is kept
  /\ IsFlat(f)
  /\ [i \in 1..Len(f) |-> f[i][2]] = Cat([i \in 1..Len(r) |-> Leaves(r[i][2])])
  /\ RecKeysFree(sep, r) => /\ DistinctKeys(f) /\ ~Clash(sep, f)
                            /\ Dedup([i \in 1..Len(f) |-> Pieces(sep, f[i][1])[1]]) = KeysOf(r)
                            \* unflatten undoes flatten up to the documented array heuristic ...
                            /\ Unflatten(sep, f) = ArrayifyRec(r)
                            /\ KeysOf(Unflatten(sep, f)) = KeysOf(r)
  \* ... and exactly on the domain of the property
  /\ InLawDomain(sep, r) => /\ Unflatten(sep, f) = r
                            /\ Flatten(sep, Unflatten(sep, f)) = f
  \* flattening twice is flattening once; a flat record without the separator is left alone by both
  /\ Flatten(sep, f) = f
  /\ (IsFlat(r) /\ RecKeysFree(sep, r)) => (Flatten(sep, r) = r /\ Unflatten(sep, r) = r)

\* conversions: JSON -> tabular -> JSON is the identity; A -> B = A -> C -> B for every intermediate; A -> B -> A = id.
\* (ConvertAB looks at a format only through Nestable, and Carries says which formats may take part.)
PathLaws(sep) ==
  LET f == Flatten(sep, r)
      one == One(r)
      onef == One(f)
      CP(path, s) == ConvertPath(path, sep, FALSE, s)
  IN InLawDomain(sep, r) =>
       /\ \A j1 \in JsonLike, j2 \in JsonLike : CP(<<j1, j2>>, one) = one
       /\ \A j1 \in JsonLike, t \in {tt \in Tabular : CanCarry(tt, f)} :
            /\ CP(<<j1, t>>, one) = onef
            /\ \A j2 \in JsonLike :
                 /\ InDomain(<<j1, t, j2>>, sep, FALSE, one)
                 /\ Walk(<<j1, t, j2>>, sep, FALSE, one) = <<TRUE, one>>
                 /\ CP(<<j1, t, j2>>, one) = one
                 /\ CP(<<j1, j2, t>>, one) = onef
                 /\ CP(<<t, j1, j2>>, onef) = one
            /\ \A t2 \in {tt \in Tabular : CanCarry(tt, f)} :
                 /\ CP(<<j1, t2, t>>, one) = onef
                 /\ CP(<<j1, t2, t, j1>>, one) = one
                 /\ CP(<<t, t2, t>>, onef) = onef
                 /\ CP(<<t, t2>>, onef) = onef
                 /\ CP(<<t, j1, t2>>, onef) = onef
                 /\ CP(<<t, j1, t>>, onef) = onef
Laws == \A sep \in Seps : RecLaws(sep)
AllPathLaws == \A sep \in Seps : PathLaws(sep)

\* flatten is injective on the domain: counted (the image has as many elements as the domain)
DomainOf(sep) == {rec \in NestedRecs : InLawDomain(sep, rec)}
Injective == \A sep \in Seps : Cardinality({Flatten(sep, rec) : rec \in DomainOf(sep)}) = Cardinality(DomainOf(sep))
\* the separator-freeness precondition is needed: some record with a separator inside a key does not come back
NeedsSepFree == \E sep \in Seps : \E rec \in SepKeyRecs : ~RecKeysFree(sep, rec) /\ RecNoArrayLike(rec) /\ Unflatten(sep, Flatten(sep, rec)) # rec

\* the flag table: naming convention, and every entry's expansion is well-formed and selects the formats it is filed under
TableLaws ==
  /\ NamingLaw
  /\ \A e \in Entries : e.in \in (Formats \cup {"asv", "usv", "dcf", "recutils", "dkvpx"}) /\ e.out \in (Formats \cup {"asv", "usv", "dcf", "recutils", "dkvpx"})
  /\ \A e \in Savers : e.bare # "" => (T(IFlag(e.in)) \in Range(e.exp) /\ (T(OFlag(e.out)) \in Range(e.exp)))
  /\ Cardinality(Savers) = 99 + 3 + 7 + 2 + 3
  /\ \A k \in 1..Len(Aliases) : Aliases[k][2] # <<>>
  /\ Cardinality({Aliases[k][1] : k \in 1..Len(Aliases)}) = 28
  \* flat probes come back unchanged whatever the two formats
  /\ \A e \in Entries : e.probe # "nested" => FlagExpected(e) = Probe(e.probe)
=============================================================================
