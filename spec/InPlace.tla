------------------------------- MODULE InPlace -------------------------------
(***************************************************************************)
(* The in-place protocol of `mlr -I` (pkg/entrypoint/entrypoint.go:         *)
(* processFilesInPlace / processFileInPlace), one action per step of the    *)
(* code -- each action is exactly one hook event of the verif build -- plus *)
(* Crash (the process is killed, enabled in every state) and Abort (a verb  *)
(* calls os.Exit inside the stream: no clean-up).                           *)
(*                                                                         *)
(* Decides C19: at every instant, crashed or not, each named file holds     *)
(* either its complete original or its complete transformed contents;       *)
(* files after the one being processed are untouched; error returns leave   *)
(* no temporary file; success means every file transformed with its mode    *)
(* restored; non-updatable inputs are refused before anything is modified.  *)
(***************************************************************************)
EXTENDS Integers, Sequences, FiniteSets, TLC

CONSTANTS Scenarios      \* set of scenarios explored from Init

(* A scenario is [files |-> Seq(file), prepipe |-> BOOLEAN]; a file is       *)
(*   [kind |-> k, n |-> records the transformed file has (written before     *)
(*    the failure, for failing kinds), gz |-> BOOLEAN]                       *)
(* kinds: "ok"        processed normally                                     *)
(*        "missing"   does not exist (first stat fails)                      *)
(*        "streamerr" the stream returns an error (DSL run-time error,       *)
(*                    malformed input, record the writer cannot express)     *)
(*        "writefail" the temp file cannot take the output (file size limit,  *)
(*                    full device): a write or the final flush fails, the    *)
(*                    stream returns an error like "streamerr"              *)
(*        "abort"     a verb exits the process directly inside the stream    *)
(*        "wrapfail"  cannot be recompressed (bzip2): fails after the temp   *)
(*                    file exists                                            *)
(*        "tempfail"  the temp file cannot be created (directory unwritable) *)
(* prepipe: the command line has --prepipe: every file is refused            *)

VARIABLES sc,        \* the scenario
          cur,       \* index of the file being processed (0 before the first)
          pc,        \* where processFileInPlace is
          content,   \* per file: "orig" or "new"  (the only values the protocol can produce)
          mode,      \* per file: "orig" or "temp" (the temp file's 0600)
          temp,      \* "none", "open" (exists, partially written), "complete"
          written,   \* records handed to the temp file's buffer
          alive, exit,
          leftovers, \* temp files left behind in the directory
          last, cnt  \* history: last hook site passed, occurrences per site (names the crash point)

vars == <<sc, cur, pc, content, mode, temp, written, alive, exit, leftovers, last, cnt>>

Sites == {"begin", "errReturn", "tempCreated", "wrapped", "wrote", "flushed", "streamDone", "wrapperClosed",
          "closed", "renamed", "chmodded"}

F == Len(sc.files)
File == sc.files[cur]

InitWith(s) ==
  /\ sc = s /\ cur = 0 /\ pc = "idle"
  /\ content = [f \in 1..Len(s.files) |-> "orig"]
  /\ mode = [f \in 1..Len(s.files) |-> "orig"]
  /\ temp = "none" /\ written = 0 /\ alive = TRUE /\ exit = "none" /\ leftovers = 0
  /\ last = "none" /\ cnt = [x \in Sites |-> 0]

Init == \E s \in Scenarios : InitWith(s)

Hook(site) == last' = site /\ cnt' = [cnt EXCEPT ![site] = @ + 1]

\* inplace.begin(name)
Begin == /\ alive /\ pc = "idle" /\ cur < F
         /\ cur' = cur + 1 /\ pc' = "begun" /\ written' = 0 /\ Hook("begin")
         /\ UNCHANGED <<sc, content, mode, temp, alive, exit, leftovers>>

ErrorExit == alive' = FALSE /\ exit' = "err"

\* inplace.errReturn("stat" | "refuse" | "temp"): nothing has been created yet
ErrEarly == /\ alive /\ pc = "begun"
            /\ (File.kind \in {"missing", "tempfail"} \/ sc.prepipe)
            /\ ErrorExit /\ pc' = "returned" /\ Hook("errReturn")
            /\ UNCHANGED <<sc, cur, content, mode, temp, written, leftovers>>
\* inplace.tempCreated(name)
TempCreated == /\ alive /\ pc = "begun" /\ File.kind \notin {"missing", "tempfail"} /\ ~sc.prepipe
               /\ temp' = "open" /\ pc' = "temp" /\ Hook("tempCreated")
               /\ UNCHANGED <<sc, cur, content, mode, written, alive, exit, leftovers>>
\* inplace.errReturn("wrap"): the temp file is removed first
ErrWrap == /\ alive /\ pc = "temp" /\ File.kind = "wrapfail"
           /\ temp' = "none" /\ ErrorExit /\ pc' = "returned" /\ Hook("errReturn")
           /\ UNCHANGED <<sc, cur, content, mode, written, leftovers>>
\* inplace.wrapped(isNew)
Wrapped == /\ alive /\ pc = "temp" /\ File.kind # "wrapfail"
           /\ pc' = "stream" /\ Hook("wrapped")
           /\ UNCHANGED <<sc, cur, content, mode, temp, written, alive, exit, leftovers>>
\* writer.wrote: one more record in the temp file's buffer
Wrote == /\ alive /\ pc = "stream" /\ written < File.n
         /\ written' = written + 1 /\ Hook("wrote")
         /\ UNCHANGED <<sc, cur, pc, content, mode, temp, alive, exit, leftovers>>
\* main.return: the stream's final flush
Flushed == /\ alive /\ pc = "stream" /\ (written = File.n \/ File.kind = "writefail") /\ File.kind # "abort"
           /\ pc' = "flushed" /\ Hook("flushed")
           /\ UNCHANGED <<sc, cur, content, mode, temp, written, alive, exit, leftovers>>
\* a verb exits the process inside the stream: no clean-up, no hook
Abort == /\ alive /\ pc = "stream" /\ File.kind = "abort"     \* whatever has been written so far
         /\ alive' = FALSE /\ exit' = "abort" /\ leftovers' = leftovers + 1 /\ pc' = "aborted"
         /\ UNCHANGED <<sc, cur, content, mode, temp, written, last, cnt>>
\* inplace.errReturn("stream"): the temp file is removed first
ErrStream == /\ alive /\ pc = "flushed" /\ File.kind \in {"streamerr", "writefail"}
             /\ temp' = "none" /\ ErrorExit /\ pc' = "returned" /\ Hook("errReturn")
             /\ UNCHANGED <<sc, cur, content, mode, written, leftovers>>
\* inplace.streamDone
StreamDone == /\ alive /\ pc = "flushed" /\ File.kind = "ok"
              /\ pc' = (IF File.gz THEN "streamed-gz" ELSE "streamed") /\ Hook("streamDone")
              /\ UNCHANGED <<sc, cur, content, mode, temp, written, alive, exit, leftovers>>
\* inplace.wrapperClosed (compressed inputs only)
WrapperClosed == /\ alive /\ pc = "streamed-gz"
                 /\ pc' = "streamed" /\ Hook("wrapperClosed")
                 /\ UNCHANGED <<sc, cur, content, mode, temp, written, alive, exit, leftovers>>
\* inplace.closed
Closed == /\ alive /\ pc = "streamed"
          /\ temp' = "complete" /\ pc' = "closed" /\ Hook("closed")
          /\ UNCHANGED <<sc, cur, content, mode, written, alive, exit, leftovers>>
\* inplace.renamed: the one step that changes a named file, atomically
Renamed == /\ alive /\ pc = "closed" /\ temp = "complete"
           /\ content' = [content EXCEPT ![cur] = "new"] /\ mode' = [mode EXCEPT ![cur] = "temp"]
           /\ temp' = "none" /\ pc' = "renamed" /\ Hook("renamed")
           /\ UNCHANGED <<sc, cur, written, alive, exit, leftovers>>
\* inplace.chmodded
Chmodded == /\ alive /\ pc = "renamed"
            /\ mode' = [mode EXCEPT ![cur] = "orig"] /\ pc' = "idle" /\ Hook("chmodded")
            /\ UNCHANGED <<sc, cur, content, temp, written, alive, exit, leftovers>>
\* all files done
Finish == /\ alive /\ pc = "idle" /\ cur = F
          /\ alive' = FALSE /\ exit' = "ok" /\ pc' = "finished"
          /\ UNCHANGED <<sc, cur, content, mode, temp, written, leftovers, last, cnt>>
\* the process is killed: nothing else changes; a temp file that exists stays
Crash == /\ alive /\ last # "none"
         /\ alive' = FALSE /\ exit' = "killed"
         /\ leftovers' = IF temp # "none" THEN leftovers + 1 ELSE leftovers
         /\ UNCHANGED <<sc, cur, pc, content, mode, temp, written, last, cnt>>

Step == Begin \/ ErrEarly \/ TempCreated \/ ErrWrap \/ Wrapped \/ Wrote \/ Flushed \/ Abort \/ ErrStream
        \/ StreamDone \/ WrapperClosed \/ Closed \/ Renamed \/ Chmodded \/ Finish
Next == Step \/ Crash \/ (~alive /\ UNCHANGED vars)
Spec == Init /\ [][Next]_vars

(***************************************************************************)
(* Properties (C19)                                                        *)
(***************************************************************************)
\* every named file is whole at every instant: the protocol has no state in which a named file is
\* anything but its original or its transformed contents
Atomic == \A f \in 1..F : content[f] \in {"orig", "new"}
\* files after the current one are untouched; files before it are finished
LaterUntouched == \A f \in 1..F : f > cur => content[f] = "orig" /\ mode[f] = "orig"
EarlierDone == \A f \in 1..F : f < cur => content[f] = "new" /\ mode[f] = "orig"
\* a failure reported through the normal error path leaves no temporary file, and leaves the
\* failing file as it was
NoTempAfterErrReturn == exit = "err" => temp = "none" /\ leftovers = 0 /\ content[cur] = "orig" /\ mode[cur] = "orig"
\* success: every file transformed, modes restored, nothing left behind
SuccessMeansAll == exit = "ok" => (\A f \in 1..F : content[f] = "new" /\ mode[f] = "orig") /\ temp = "none" /\ leftovers = 0
\* refusal (prepipe) and the other early failures happen before anything is modified or created
RefusedBeforeModify == (sc.prepipe /\ cur >= 1) => (\A f \in 1..F : content[f] = "orig") /\ temp = "none"
\* a file is replaced only by a complete, closed temp file
RenameOnlyComplete == [][Renamed => temp = "complete"]_vars
\* only a crash or an abort can leave a temp file behind
LeftoverOnlyByCrash == leftovers > 0 => exit \in {"killed", "abort"}
=============================================================================
