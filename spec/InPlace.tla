------------------------------- MODULE InPlace -------------------------------
(***************************************************************************)
(* The in-place protocol of `mlr -I` (pkg/entrypoint/entrypoint.go:         *)
(* processFilesInPlace / processFileInPlace), one action per step of the    *)
(* code -- each action is exactly one hook event of the verif build -- plus *)
(* Crash (the process is killed, enabled in every state) and Abort (a verb  *)
(* calls os.Exit inside the stream: no clean-up).                           *)
(*                                                                         *)
(* Decides C19: at every instant, crashed or not, each named file holds     *)
(* either its complete original or its complete transformed contents;       *)
(* files after the one being processed are untouched; error returns leave   *)
(* no temporary file; success means every file transformed with its mode    *)
(* restored; non-updatable inputs are refused before anything is modified.  *)
(***************************************************************************)
EXTENDS Integers, Sequences, FiniteSets, TLC

CONSTANTS Scenarios,     \* set of scenarios explored from Init
          MaxRuns,       \* 1: one run of mlr -I; 2: after a run has ended (killed, aborted, failed or succeeded) a SECOND
                         \*    command is run on the same files - the retry after a crash - with whatever the first left
                         \*    in the directories (stale temp files, a renamed file whose mode was not yet restored)
          ReuseStaleTemp \* FALSE in the design (os.CreateTemp: a fresh, empty, exclusively created file). TRUE is a
                         \*    design mutation used as a self-test: the temp file has a predictable name and is opened
                         \*    without truncation, so a run inherits the bytes a killed run left in it

(* A scenario is [files |-> Seq(file), prepipe |-> BOOLEAN]; a file is       *)
(*   [kind |-> k, n |-> records the transformed file has (written before     *)
(*    the failure, for failing kinds), gz |-> BOOLEAN]                       *)
(* kinds: "ok"        processed normally                                     *)
(*        "missing"   does not exist (first stat fails)                      *)
(*        "streamerr" the stream returns an error (DSL run-time error,       *)
(*                    malformed input, record the writer cannot express)     *)
(*        "writefail" the temp file cannot take the output (file size limit,  *)
(*                    full device): a write or the final flush fails, the    *)
(*                    stream returns an error like "streamerr"; with a       *)
(*                    compressed input (gz) the recompressor may hold the    *)
(*                    data back, so that the failure shows only when the     *)
(*                    recompressor is closed (errReturn "wrapperClose")      *)
(*        "abort"     a verb exits the process directly inside the stream    *)
(*        "wrapfail"  cannot be recompressed (bzip2): fails after the temp   *)
(*                    file exists                                            *)
(*        "tempfail"  the temp file cannot be created (directory unwritable) *)
(* prepipe: the command line has --prepipe: every file is refused            *)
(*                                                                         *)
(* The second command (run 2) is a different transformation T2 whose output  *)
(* is SHORTER than the first one's: it reads every record (so the files that *)
(* made the first command fail make it fail in the same way), prints nothing *)
(* per record and one record at the end of a non-empty file; T2 of a file    *)
(* transformed by the first command equals T2 of the original ("new2").     *)

VARIABLES sc,        \* the scenario
          cur,       \* index of the file being processed (0 before the first)
          pc,        \* where processFileInPlace is
          content,   \* per file: "orig", "new" (transformed by run 1) or "new2" (by run 2): the only values the
                     \* protocol can produce; "mixed" (new bytes followed by stale ones) only under ReuseStaleTemp
          mode,      \* per file: "orig" or "temp" (the temp file's 0600)
          run,       \* 1 or 2
          start,     \* [content, mode, leftovers] as they were when the current run started
          staleLen,  \* per file: records in the temp file a killed/aborted run left behind for it (0: none or empty)
          dirty,     \* records of a stale temp file inherited by the open temp file (always 0 in the design)
          prev,      \* history: how and where the previous run ended (names its crash point for the replay)
          temp,      \* "none", "open" (exists, partially written), "complete"
          written,   \* records handed to the temp file's buffer
          alive, exit,
          leftovers, \* temp files left behind in the directory
          last, cnt  \* history: last hook site passed, occurrences per site (names the crash point)

vars == <<sc, cur, pc, content, mode, temp, written, alive, exit, leftovers, last, cnt, run, start, staleLen, dirty, prev>>
rvars == <<run, start, staleLen, dirty, prev>>

Sites == {"begin", "errReturn", "tempCreated", "wrapped", "wrote", "flushed", "streamDone", "wrapperClosed",
          "closed", "renamed", "chmodded"}

F == Len(sc.files)
File == sc.files[cur]
Target == IF run = 1 THEN "new" ELSE "new2"
\* records the current command writes for the current file: at least RecsMin, at most RecsMax. (The second command
\* prints its one record at end of stream; after malformed input the end block may still run before the error is
\* reported, so a failing file of the second run may or may not get that record into its temp file.)
RecsMin == IF run = 1 THEN File.n ELSE IF File.kind = "ok" /\ File.n > 0 THEN 1 ELSE 0
RecsMax == IF run = 1 THEN File.n ELSE IF File.kind \in {"ok", "streamerr"} /\ File.n > 0 THEN 1 ELSE 0

InitWith(s) ==
  /\ sc = s /\ cur = 0 /\ pc = "idle"
  /\ content = [f \in 1..Len(s.files) |-> "orig"]
  /\ mode = [f \in 1..Len(s.files) |-> "orig"]
  /\ temp = "none" /\ written = 0 /\ alive = TRUE /\ exit = "none" /\ leftovers = 0
  /\ last = "none" /\ cnt = [x \in Sites |-> 0]
  /\ run = 1 /\ staleLen = [f \in 1..Len(s.files) |-> 0] /\ dirty = 0
  /\ prev = [how |-> "none", site |-> "none", n |-> 0]
  /\ start = [content |-> [f \in 1..Len(s.files) |-> "orig"], mode |-> [f \in 1..Len(s.files) |-> "orig"], leftovers |-> 0]

Init == \E s \in Scenarios : InitWith(s)

Hook(site) == last' = site /\ cnt' = [cnt EXCEPT ![site] = @ + 1]

\* inplace.begin(name)
Begin == /\ alive /\ pc = "idle" /\ cur < F
         /\ cur' = cur + 1 /\ pc' = "begun" /\ written' = 0 /\ Hook("begin")
         /\ UNCHANGED <<sc, content, mode, temp, alive, exit, leftovers, rvars>>

ErrorExit == alive' = FALSE /\ exit' = "err"

\* inplace.errReturn("stat" | "refuse" | "temp"): nothing has been created yet
ErrEarly == /\ alive /\ pc = "begun"
            /\ (File.kind \in {"missing", "tempfail"} \/ sc.prepipe)
            /\ ErrorExit /\ pc' = "returned" /\ Hook("errReturn")
            /\ UNCHANGED <<sc, cur, content, mode, temp, written, leftovers, rvars>>
\* inplace.tempCreated(name)
TempCreated == /\ alive /\ pc = "begun" /\ File.kind \notin {"missing", "tempfail"} /\ ~sc.prepipe
               /\ temp' = "open" /\ pc' = "temp" /\ Hook("tempCreated")
               /\ dirty' = IF ReuseStaleTemp THEN staleLen[cur] ELSE 0
               /\ UNCHANGED <<sc, cur, content, mode, written, alive, exit, leftovers, run, start, staleLen, prev>>
\* inplace.errReturn("wrap"): the temp file is removed first
ErrWrap == /\ alive /\ pc = "temp" /\ File.kind = "wrapfail"
           /\ temp' = "none" /\ ErrorExit /\ pc' = "returned" /\ Hook("errReturn")
           /\ UNCHANGED <<sc, cur, content, mode, written, leftovers, rvars>>
\* inplace.wrapped(isNew)
Wrapped == /\ alive /\ pc = "temp" /\ File.kind # "wrapfail"
           /\ pc' = "stream" /\ Hook("wrapped")
           /\ UNCHANGED <<sc, cur, content, mode, temp, written, alive, exit, leftovers, rvars>>
\* writer.wrote: one more record in the temp file's buffer
Wrote == /\ alive /\ pc = "stream" /\ written < RecsMax
         /\ written' = written + 1 /\ Hook("wrote")
         /\ UNCHANGED <<sc, cur, pc, content, mode, temp, alive, exit, leftovers, rvars>>
\* main.return: the stream's final flush
Flushed == /\ alive /\ pc = "stream" /\ (written >= RecsMin \/ File.kind = "writefail") /\ File.kind # "abort"
           /\ pc' = "flushed" /\ Hook("flushed")
           /\ UNCHANGED <<sc, cur, content, mode, temp, written, alive, exit, leftovers, rvars>>
\* a verb exits the process inside the stream: no clean-up, no hook
Abort == /\ alive /\ pc = "stream" /\ File.kind = "abort"     \* whatever has been written so far
         /\ alive' = FALSE /\ exit' = "abort" /\ leftovers' = leftovers + 1 /\ pc' = "aborted"
         /\ staleLen' = [staleLen EXCEPT ![cur] = written]
         /\ UNCHANGED <<sc, cur, content, mode, temp, written, last, cnt, run, start, dirty, prev>>
\* inplace.errReturn("stream"): the temp file is removed first
ErrStream == /\ alive /\ pc = "flushed" /\ File.kind \in {"streamerr", "writefail"}
             /\ temp' = "none" /\ ErrorExit /\ pc' = "returned" /\ Hook("errReturn")
             /\ UNCHANGED <<sc, cur, content, mode, written, leftovers, rvars>>
\* inplace.streamDone
StreamDone == /\ alive /\ pc = "flushed" /\ (File.kind = "ok" \/ (File.kind = "writefail" /\ File.gz))
              /\ pc' = (IF File.gz THEN "streamed-gz" ELSE "streamed") /\ Hook("streamDone")
              /\ UNCHANGED <<sc, cur, content, mode, temp, written, alive, exit, leftovers, rvars>>
\* inplace.wrapperClosed (compressed inputs only)
WrapperClosed == /\ alive /\ pc = "streamed-gz" /\ File.kind = "ok"
                 /\ pc' = "streamed" /\ Hook("wrapperClosed")
                 /\ UNCHANGED <<sc, cur, content, mode, temp, written, alive, exit, leftovers, rvars>>
\* inplace.errReturn("wrapperClose"): closing the recompressor writes what it held back; the temp file is removed first
ErrWrapperClose == /\ alive /\ pc = "streamed-gz" /\ File.kind = "writefail"
                   /\ temp' = "none" /\ ErrorExit /\ pc' = "returned" /\ Hook("errReturn")
                   /\ UNCHANGED <<sc, cur, content, mode, written, leftovers, rvars>>
\* inplace.closed
Closed == /\ alive /\ pc = "streamed"
          /\ temp' = "complete" /\ pc' = "closed" /\ Hook("closed")
          /\ UNCHANGED <<sc, cur, content, mode, written, alive, exit, leftovers, rvars>>
\* inplace.renamed: the one step that changes a named file, atomically
Renamed == /\ alive /\ pc = "closed" /\ temp = "complete"
           /\ content' = [content EXCEPT ![cur] = IF dirty > written THEN "mixed" ELSE Target] /\ mode' = [mode EXCEPT ![cur] = "temp"]
           /\ temp' = "none" /\ pc' = "renamed" /\ Hook("renamed")
           /\ UNCHANGED <<sc, cur, written, alive, exit, leftovers, rvars>>
\* inplace.chmodded: the mode the named file had when this run looked at it
Chmodded == /\ alive /\ pc = "renamed"
            /\ mode' = [mode EXCEPT ![cur] = start.mode[cur]] /\ pc' = "idle" /\ Hook("chmodded")
            /\ UNCHANGED <<sc, cur, content, temp, written, alive, exit, leftovers, rvars>>
\* all files done
Finish == /\ alive /\ pc = "idle" /\ cur = F
          /\ alive' = FALSE /\ exit' = "ok" /\ pc' = "finished"
          /\ UNCHANGED <<sc, cur, content, mode, temp, written, leftovers, last, cnt, rvars>>
\* the process is killed: nothing else changes; a temp file that exists stays
Crash == /\ alive /\ last # "none"
         /\ alive' = FALSE /\ exit' = "killed"
         /\ leftovers' = IF temp # "none" THEN leftovers + 1 ELSE leftovers
         /\ staleLen' = IF temp # "none" THEN [staleLen EXCEPT ![cur] = written] ELSE staleLen
         /\ UNCHANGED <<sc, cur, pc, content, mode, temp, written, last, cnt, run, start, dirty, prev>>

\* the second command is started on the same files: a new process, the directories as the first one left them
Restart == /\ ~alive /\ run < MaxRuns
           /\ run' = run + 1 /\ alive' = TRUE /\ exit' = "none" /\ cur' = 0 /\ pc' = "idle" /\ temp' = "none" /\ written' = 0
           /\ last' = "none" /\ cnt' = [x \in Sites |-> 0] /\ dirty' = 0
           /\ start' = [content |-> content, mode |-> mode, leftovers |-> leftovers]
           /\ prev' = [how |-> exit, site |-> last, n |-> IF last = "none" THEN 0 ELSE cnt[last]]
           /\ UNCHANGED <<sc, content, mode, leftovers, staleLen>>

Step == Begin \/ ErrEarly \/ TempCreated \/ ErrWrap \/ Wrapped \/ Wrote \/ Flushed \/ Abort \/ ErrStream
        \/ StreamDone \/ WrapperClosed \/ ErrWrapperClose \/ Closed \/ Renamed \/ Chmodded \/ Finish
Next == Step \/ Crash \/ Restart \/ (~alive /\ UNCHANGED vars)
Spec == Init /\ [][Next]_vars

(***************************************************************************)
(* Properties (C19)                                                        *)
(***************************************************************************)
\* every named file is whole at every instant: the protocol has no state in which a named file is
\* anything but its original or its transformed contents
Atomic == \A f \in 1..F : content[f] \in {"orig", "new", "new2"}
\* files after the current one are untouched; files before it are finished
LaterUntouched == \A f \in 1..F : f > cur => content[f] = start.content[f] /\ mode[f] = start.mode[f]
EarlierDone == \A f \in 1..F : f < cur => content[f] = Target /\ mode[f] = start.mode[f]
\* a failure reported through the normal error path leaves no temporary file, and leaves the
\* failing file as it was
NoTempAfterErrReturn == exit = "err" => temp = "none" /\ leftovers = start.leftovers /\ content[cur] = start.content[cur] /\ mode[cur] = start.mode[cur]
\* success: every file transformed, modes restored, nothing left behind
SuccessMeansAll == exit = "ok" => (\A f \in 1..F : content[f] = Target /\ mode[f] = start.mode[f]) /\ temp = "none" /\ leftovers = start.leftovers
\* refusal (prepipe) and the other early failures happen before anything is modified or created
RefusedBeforeModify == (sc.prepipe /\ cur >= 1) => (\A f \in 1..F : content[f] = start.content[f]) /\ temp = "none"
\* a file is replaced only by a complete, closed temp file
RenameOnlyComplete == [][Renamed => temp = "complete"]_vars
\* only a crash or an abort can leave a temp file behind
LeftoverOnlyByCrash == leftovers > start.leftovers => exit \in {"killed", "abort"}
\* a run never inherits anything from a temp file left by an earlier one
FreshTemp == dirty = 0
=============================================================================
