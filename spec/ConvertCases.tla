---------------------------- MODULE ConvertCases ----------------------------
(* The bounded case spaces of C02: nested records (laws and JSON <-> tabular round trips), flat streams x format   *)
(* paths, and the probes of the flag table.                                                                      *)
EXTENDS Convert, Flags
CONSTANTS MaxFields,   \* fields per map / elements per array in the nested space
          NumKeys,     \* 3: keys a, 1, 2;  4: keys a, b, 1, 2
          NumScalars,  \* 2: scalars "" and x;  3: also 7
          MaxLen       \* records per flat stream

K(c) == <<c>>
Dot == <<".">>
Colon == <<":">>
Semi == <<";">>
Seps == {Dot, Colon, Semi}

(* ---- nested records ------------------------------------------------------------------------------------ *)
NKeys == IF NumKeys = 4 THEN {K("a"), K("b"), K("1"), K("2")} ELSE {K("a"), K("1"), K("2")}
Scalars == IF NumScalars = 3 THEN {S(""), S("x"), S("7")} ELSE {S(""), S("x")}
Bodies(ks, vs, n) == {b \in UNION {[1..m -> ks \X vs] : m \in 0..n} : DistinctKeys(b)}
MapsOver(ks, vs, n) == {M(b) : b \in Bodies(ks, vs, n)}
ArraysOver(vs, n) == {A(e) : e \in UNION {[1..m -> vs] : m \in 0..n}}
D0 == Scalars
D1 == D0 \cup MapsOver(NKeys, D0, MaxFields) \cup ArraysOver(D0, MaxFields)
D2 == D0 \cup MapsOver(NKeys, D1, MaxFields) \cup ArraysOver(D1, MaxFields)
\* depth <= 3 counting the record itself: one field holding anything of D2, or up to MaxFields fields over D1
\* keys that READ as the numbers 1, 2 but are not their canonical spelling (zero-padded months, sequence numbers,
\* a plus sign), and 0 / 10: only a map whose keys are exactly "1".."n" in order is taken for an array
NumLike == {K("1"), K("2"), <<"0", "1">>, <<"0", "2">>, <<"+", "1">>, <<"+", "2">>, K("0"), <<"1", "0">>}
NumLikeRecs == {<< <<K("a"), M(b)>> >> : b \in {x \in Bodies(NumLike, {S("x")}, 2) : Len(x) >= 1}}
NestedRecs == {b \in Bodies(NKeys, D2, 1) : Len(b) = 1} \cup {b \in Bodies(NKeys, D1, MaxFields) : Len(b) >= 1} \cup NumLikeRecs

\* keys that contain one flatten separator (and are free of the others), small depth
SKeys == {K("a"), <<"p", ".", "q">>, <<"u", ":", "v">>, <<"1">>}
SD0 == {S("x")}
SD1 == SD0 \cup MapsOver(SKeys, SD0, 2) \cup ArraysOver(SD0, 1)
SepKeyRecs == {b \in Bodies(SKeys, SD1, 2) : Len(b) >= 1}
\* the small space on which the laws about paths of formats are checked for every combination of formats
PathRecs == {b \in Bodies(SKeys, SD1, 1) : Len(b) = 1}

\* the domain of the property: keys non-empty and free of the separator (at every level) ...
RECURSIVE KeysFree(_, _)
KeysFree(sep, v) ==
  IF IsS(v) THEN TRUE
  ELSE IF IsA(v) THEN \A i \in 1..Len(v[2]) : KeysFree(sep, v[2][i])
  ELSE \A i \in 1..Len(v[2]) : v[2][i][1] # <<>> /\ ~Contains(sep, v[2][i][1]) /\ KeysFree(sep, v[2][i][2])
RecKeysFree(sep, r) == KeysFree(sep, M(r))
\* ... and no map that the documented heuristic takes for an array (keys "1".."n" in order) ...
RECURSIVE NoArrayLike(_)
NoArrayLike(v) ==
  IF IsS(v) THEN TRUE
  ELSE IF IsA(v) THEN \A i \in 1..Len(v[2]) : NoArrayLike(v[2][i])
  ELSE /\ ~(Len(v[2]) >= 1 /\ \A i \in 1..Len(v[2]) : v[2][i][1] = DigitsOf(i))
       /\ \A i \in 1..Len(v[2]) : NoArrayLike(v[2][i][2])
RecNoArrayLike(r) == \A i \in 1..Len(r) : NoArrayLike(r[i][2])
\* ... and no scalar whose text is that of an empty collection (the cell alphabet excludes them by construction)
InLawDomain(sep, r) == RecKeysFree(sep, r) /\ RecNoArrayLike(r)

\* the scalars below a value, depth first
RECURSIVE Leaves(_)
Leaves(v) ==
  IF IsS(v) THEN <<v>>
  ELSE IF v[2] = <<>> THEN <<S(IF IsM(v) THEN EmptyMapText ELSE EmptyArrayText)>>
  ELSE IF IsM(v) THEN Cat([i \in 1..Len(v[2]) |-> Leaves(v[2][i][2])])
  ELSE Cat([i \in 1..Len(v[2]) |-> Leaves(v[2][i])])
RECURSIVE Dedup(_)
Dedup(s) == IF Len(s) <= 1 THEN s ELSE IF s[1] = s[2] THEN Dedup(Tail(s)) ELSE <<s[1]>> \o Dedup(Tail(s))

(* ---- flat streams and format paths --------------------------------------------------------------------- *)
Formats == {"csv", "tsv", "csvlite", "tsvlite", "json", "jsonl", "dkvp", "nidx", "xtab", "pprint", "markdown", "yaml"}
Tabular == Formats \ {"json", "jsonl", "yaml"}
P(k, v) == <<k, S(v)>>
RU == {
  <<P(K("a"), "x"), P(K("b"), "7")>>,
  <<P(K("a"), "7"), P(K("b"), "")>>,
  <<P(K("b"), "x"), P(K("a"), "7")>>,
  <<P(K("a"), "ab")>>,
  <<P(K("a"), "")>>,
  <<P(K("c"), "x"), P(K("a"), "7"), P(K("b"), "yz")>>,
  <<P(K("1"), "x"), P(K("2"), "7")>>,
  <<P(K("1"), "ab")>>,
  <<P(<<"a", ".", "b">>, "x"), P(<<"a", ".", "c">>, "7")>>,
  <<P(<<"a", ".", "b">>, "x"), P(K("c"), "7"), P(<<"a", ".", "d">>, "yz")>>,
  <<P(<<"a", ".">>, "x"), P(<<".", "b">>, "7"), P(<<"a", ".", ".", "b">>, "yz")>>,
  <<P(<<"a", ".", "1">>, "x"), P(<<"a", ".", "2">>, "7")>>,
  <<P(<<"a", ".", "2">>, "x"), P(<<"a", ".", "1">>, "7")>>,
  <<P(<<"a", ".", "1">>, "x"), P(<<"a", ".", "3">>, "7")>>,
  <<P(<<"a", ":", "b">>, "x"), P(<<"a", ":", "c", ":", "d">>, "7")>>,
  <<P(K("a"), "x"), P(<<"a", ".", "b">>, "7")>> }
FlatStreams == UNION {[1..n -> RU] : n \in 0..MaxLen}
FlatSeps == {Dot, Colon}

EndsReadable(path) == path[Len(path)] \in {"json", "jsonl"}
\* a path is completed by a read-back into JSON Lines when it does not end in JSON already
Complete(path) == IF EndsReadable(path) THEN path ELSE Append(path, "jsonl")
PathCase(path, sep, noun, s) == [path |-> Complete(path), sep |-> sep, noun |-> noun, s |-> s]
Valid(c) == Carries(c.path[1], c.s) /\ InDomain(c.path, c.sep, c.noun, c.s)
PairsFrom(a) == {c \in {PathCase(<<a, b>>, sep, noun, s) : b \in Formats, sep \in FlatSeps, noun \in BOOLEAN, s \in FlatStreams} : Valid(c)}
TriplesFrom(a) == {c \in {PathCase(<<a, m, b>>, sep, TRUE, s) : m \in Formats, b \in Formats, sep \in {Dot}, s \in FlatStreams} : Valid(c)}

(* ---- probes of the flag table ----------------------------------------------------------------------------- *)
Probe(kind) ==
  CASE kind = "named" -> <<<<P(K("a"), "x"), P(K("b"), "7")>>, <<P(K("a"), "yz"), P(K("b"), "12")>>>>
    [] kind = "pos" -> <<<<P(K("1"), "x"), P(K("2"), "7")>>, <<P(K("1"), "yz"), P(K("2"), "12")>>>>
    [] kind = "nested" -> <<<<P(K("a"), "x"), <<K("b"), M(<<P(K("c"), "7"), P(K("d"), "w")>>)>>>>,
                            <<P(K("a"), "yz"), <<K("b"), M(<<P(K("c"), "12"), P(K("d"), "v")>>)>>>>>>
\* what reading back the output of a table entry must give
FlagExpected(e) == ConvertPath(<<e.in, e.out, "jsonl">>, e.sep, FALSE, Probe(e.probe))
=============================================================================
