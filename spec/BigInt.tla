------------------------------- MODULE BigInt -------------------------------
(***************************************************************************)
(* Arbitrary-precision integers for TLC, whose own integers are 32-bit.     *)
(* A number is [neg |-> BOOLEAN, mag |-> Seq(0..9999)]: sign and magnitude, *)
(* the magnitude little-endian in base 10^4, NORMALISED (no zero limb at the *)
(* top; zero is [neg |-> FALSE, mag |-> <<>>]), so that equal numbers are   *)
(* equal values.  Every intermediate below stays under 2^31: a limb product *)
(* is < 10^8, "small" multipliers/divisors are at most SmallMax.            *)
(* Numbers cross the TLC/harness boundary as sequences of one-character     *)
(* decimal tokens (FromDigits / ToDigits): TLC cannot index strings.        *)
(* All recursion is in top-level RECURSIVE operators.                       *)
(***************************************************************************)
EXTENDS Integers, Sequences

Base == 10000
SmallMax == 200000          \* 9999 * SmallMax + SmallMax and SmallMax * Base + 9999 are below 2^31

Zero == [neg |-> FALSE, mag |-> <<>>]

RECURSIVE StripHi(_)
StripHi(m) == IF m # <<>> /\ m[Len(m)] = 0 THEN StripHi(SubSeq(m, 1, Len(m) - 1)) ELSE m

Mk(neg, mag) == LET m == StripHi(mag) IN [neg |-> neg /\ m # <<>>, mag |-> m]

IsBig(x) == /\ x.neg \in BOOLEAN
            /\ \A i \in 1..Len(x.mag) : x.mag[i] \in 0..(Base - 1)
            /\ (x.mag # <<>> => x.mag[Len(x.mag)] # 0)
            /\ (x.mag = <<>> => ~x.neg)

\* ---- TLC-sized integers in and out ------------------------------------------------------------
RECURSIVE MagOfNat(_)
MagOfNat(n) == IF n = 0 THEN <<>> ELSE <<n % Base>> \o MagOfNat(n \div Base)
FromInt(n) == IF n < 0 THEN [neg |-> TRUE, mag |-> MagOfNat(-n)] ELSE [neg |-> FALSE, mag |-> MagOfNat(n)]
One == [neg |-> FALSE, mag |-> <<1>>]
Two == [neg |-> FALSE, mag |-> <<2>>]
\* value of a number known to be small (at most two limbs)
SmallVal(x) == LET m == x.mag
                   v == IF m = <<>> THEN 0 ELSE IF Len(m) = 1 THEN m[1] ELSE m[1] + Base * m[2]
               IN IF x.neg THEN -v ELSE v
IsSmall(x) == Len(x.mag) <= 2

\* ---- magnitudes -------------------------------------------------------------------------------
RECURSIVE CmpFrom(_, _, _)
CmpFrom(a, b, i) == IF i = 0 THEN 0
                    ELSE IF a[i] < b[i] THEN -1 ELSE IF a[i] > b[i] THEN 1 ELSE CmpFrom(a, b, i - 1)
CmpMag(a, b) == IF Len(a) < Len(b) THEN -1 ELSE IF Len(a) > Len(b) THEN 1 ELSE CmpFrom(a, b, Len(a))

RECURSIVE AddFrom(_, _, _, _)
AddFrom(a, b, i, carry) ==
  IF i > Len(a) /\ i > Len(b) THEN (IF carry = 0 THEN <<>> ELSE <<carry>>)
  ELSE LET s == (IF i <= Len(a) THEN a[i] ELSE 0) + (IF i <= Len(b) THEN b[i] ELSE 0) + carry
       IN <<s % Base>> \o AddFrom(a, b, i + 1, s \div Base)
AddMag(a, b) == AddFrom(a, b, 1, 0)

RECURSIVE SubFrom(_, _, _, _)
SubFrom(a, b, i, borrow) ==             \* a >= b
  IF i > Len(a) THEN <<>>
  ELSE LET d == a[i] - (IF i <= Len(b) THEN b[i] ELSE 0) - borrow
       IN IF d < 0 THEN <<d + Base>> \o SubFrom(a, b, i + 1, 1) ELSE <<d>> \o SubFrom(a, b, i + 1, 0)
SubMag(a, b) == StripHi(SubFrom(a, b, 1, 0))

RECURSIVE MulSmallFrom(_, _, _, _)
MulSmallFrom(a, k, i, carry) ==
  IF i > Len(a) THEN MagOfNat(carry)
  ELSE LET p == a[i] * k + carry IN <<p % Base>> \o MulSmallFrom(a, k, i + 1, p \div Base)
MulSmallMag(a, k) == IF k = 0 THEN <<>> ELSE MulSmallFrom(a, k, 1, 0)       \* 0 <= k <= SmallMax

RECURSIVE MulFrom(_, _, _)
MulFrom(a, b, i) == IF i > Len(b) THEN <<>>                                  \* a * (b[i..]) by Horner
                    ELSE AddMag(MulSmallMag(a, b[i]), <<0>> \o MulFrom(a, b, i + 1))
MulMag(a, b) == IF a = <<>> \/ b = <<>> THEN <<>>
                ELSE IF Len(a) >= Len(b) THEN StripHi(MulFrom(a, b, 1)) ELSE StripHi(MulFrom(b, a, 1))

\* division by a small number 1..SmallMax: <<quotient, remainder (a TLC integer)>>
RECURSIVE DivSmallFrom(_, _, _, _)
DivSmallFrom(a, d, i, r) ==
  IF i = 0 THEN <<<<>>, r>>
  ELSE LET cur == r * Base + a[i]
           rest == DivSmallFrom(a, d, i - 1, cur % d)
       IN <<Append(rest[1], cur \div d), rest[2]>>
DivModSmallMag(a, d) == LET r == DivSmallFrom(a, d, Len(a), 0) IN <<StripHi(r[1]), r[2]>>

\* long division: one base-10^4 quotient limb at a time.  The limb q is the largest with q * b <= cur; the leading
\* limbs bound it (top \div (t + 1) <= q <= top \div t, t the divisor's leading limb) and bisection finds it.  Both
\* numbers are first scaled so that t >= Base / 2, which makes the two bounds at most a few units apart.
RECURSIVE QDigit(_, _, _, _)
QDigit(r, b, lo, hi) ==
  IF lo >= hi THEN lo
  ELSE LET mid == (lo + hi + 1) \div 2 IN
       IF CmpMag(MulSmallMag(b, mid), r) <= 0 THEN QDigit(r, b, mid, hi) ELSE QDigit(r, b, lo, mid - 1)
Min2(x, y) == IF x < y THEN x ELSE y
QLimb(cur, b) ==
  IF CmpMag(cur, b) < 0 THEN 0
  ELSE LET n == Len(b)
           top == cur[n] + (IF Len(cur) > n THEN Base * cur[n + 1] ELSE 0)      \* < 10^8: cur < b * Base
       IN QDigit(cur, b, top \div (b[n] + 1), Min2(Base - 1, top \div b[n]))
RECURSIVE DivFrom(_, _, _, _)
DivFrom(a, b, i, r) ==
  IF i = 0 THEN <<<<>>, r>>
  ELSE LET cur == StripHi(<<a[i]>> \o r)
           q == QLimb(cur, b)
           rest == DivFrom(a, b, i - 1, IF q = 0 THEN cur ELSE SubMag(cur, MulSmallMag(b, q)))
       IN <<Append(rest[1], q), rest[2]>>
\* <<quotient magnitude, remainder magnitude>>, b # <<>>
DivModMag(a, b) ==
  IF CmpMag(a, b) < 0 THEN <<<<>>, a>>
  ELSE IF Len(b) = 1 THEN (LET r == DivModSmallMag(a, b[1]) IN <<r[1], MagOfNat(r[2])>>)
  ELSE LET d == Base \div (b[Len(b)] + 1)                                        \* a = q b + r  <=>  d a = q (d b) + d r
           r == IF d = 1 THEN DivFrom(a, b, Len(a), <<>>)
                ELSE LET sa == MulSmallMag(a, d) IN DivFrom(sa, MulSmallMag(b, d), Len(sa), <<>>)
       IN <<StripHi(r[1]), IF d = 1 THEN r[2] ELSE DivModSmallMag(r[2], d)[1]>>

\* ---- signed numbers ---------------------------------------------------------------------------
Neg(x) == Mk(~x.neg, x.mag)
Abs(x) == [neg |-> FALSE, mag |-> x.mag]
IsZero(x) == x.mag = <<>>
Sign(x) == IF x.mag = <<>> THEN 0 ELSE IF x.neg THEN -1 ELSE 1
Cmp(x, y) == IF x.neg /\ ~y.neg THEN -1 ELSE IF ~x.neg /\ y.neg THEN 1
             ELSE IF x.neg THEN CmpMag(y.mag, x.mag) ELSE CmpMag(x.mag, y.mag)
Lt(x, y) == Cmp(x, y) < 0
Le(x, y) == Cmp(x, y) <= 0
Add(x, y) == IF x.neg = y.neg THEN Mk(x.neg, AddMag(x.mag, y.mag))
             ELSE IF CmpMag(x.mag, y.mag) >= 0 THEN Mk(x.neg, SubMag(x.mag, y.mag))
             ELSE Mk(y.neg, SubMag(y.mag, x.mag))
Sub(x, y) == Add(x, Neg(y))
Mul(x, y) == Mk(x.neg # y.neg, MulMag(x.mag, y.mag))
MulSmall(x, k) == Mk(x.neg, MulSmallMag(x.mag, k))          \* 0 <= k <= SmallMax

\* <<quotient, remainder>>, y # 0.  Truncating: quotient rounds toward zero, remainder has the sign of x.
DivModTrunc(x, y) == LET qr == DivModMag(x.mag, y.mag) IN <<Mk(x.neg # y.neg, qr[1]), Mk(x.neg, qr[2])>>
\* Flooring: quotient rounds toward minus infinity, remainder has the sign of y (or is zero).
DivModFloor(x, y) == LET t == DivModTrunc(x, y) IN
                     IF ~IsZero(t[2]) /\ (x.neg # y.neg) THEN <<Sub(t[1], One), Add(t[2], y)>> ELSE t
DivTrunc(x, y) == DivModTrunc(x, y)[1]
RemTrunc(x, y) == DivModTrunc(x, y)[2]
DivFloor(x, y) == DivModFloor(x, y)[1]
ModFloor(x, y) == DivModFloor(x, y)[2]
IsEven(x) == x.mag = <<>> \/ x.mag[1] % 2 = 0               \* the base is even

\* x ** n for a small natural n
RECURSIVE Pow(_, _)
Pow(x, n) == IF n = 0 THEN One ELSE Mul(x, Pow(x, n - 1))
\* 2^0 .. 2^64 as literal magnitudes (TLC re-evaluates a constant defined through a recursive operator at every
\* use; the table is checked against doubling and against Pow(Two, n) in ArithMC)
Pow2Mags == <<
  <<1>>, <<2>>, <<4>>, <<8>>,
  <<16>>, <<32>>, <<64>>, <<128>>,
  <<256>>, <<512>>, <<1024>>, <<2048>>,
  <<4096>>, <<8192>>, <<6384, 1>>, <<2768, 3>>,
  <<5536, 6>>, <<1072, 13>>, <<2144, 26>>, <<4288, 52>>,
  <<8576, 104>>, <<7152, 209>>, <<4304, 419>>, <<8608, 838>>,
  <<7216, 1677>>, <<4432, 3355>>, <<8864, 6710>>, <<7728, 3421, 1>>,
  <<5456, 6843, 2>>, <<912, 3687, 5>>, <<1824, 7374, 10>>, <<3648, 4748, 21>>,
  <<7296, 9496, 42>>, <<4592, 8993, 85>>, <<9184, 7986, 171>>, <<8368, 5973, 343>>,
  <<6736, 1947, 687>>, <<3472, 3895, 1374>>, <<6944, 7790, 2748>>, <<3888, 5581, 5497>>,
  <<7776, 1162, 995, 1>>, <<5552, 2325, 1990, 2>>, <<1104, 4651, 3980, 4>>, <<2208, 9302, 7960, 8>>,
  <<4416, 8604, 5921, 17>>, <<8832, 7208, 1843, 35>>, <<7664, 4417, 3687, 70>>, <<5328, 8835, 7374, 140>>,
  <<656, 7671, 4749, 281>>, <<1312, 5342, 9499, 562>>, <<2624, 684, 8999, 1125>>, <<5248, 1368, 7998, 2251>>,
  <<496, 2737, 5996, 4503>>, <<992, 5474, 1992, 9007>>, <<1984, 948, 3985, 8014, 1>>, <<3968, 1896, 7970, 6028, 3>>,
  <<7936, 3792, 5940, 2057, 7>>, <<5872, 7585, 1880, 4115, 14>>, <<1744, 5171, 3761, 8230, 28>>, <<3488, 342, 7523, 6460, 57>>,
  <<6976, 684, 5046, 2921, 115>>, <<3952, 1369, 92, 5843, 230>>, <<7904, 2738, 184, 1686, 461>>, <<5808, 5477, 368, 3372, 922>>,
  <<1616, 955, 737, 6744, 1844>> >>
Pow2(n) == [neg |-> FALSE, mag |-> Pow2Mags[n + 1]]          \* n in 0..64

\* ---- decimal text -----------------------------------------------------------------------------
DigitChars == <<"0", "1", "2", "3", "4", "5", "6", "7", "8", "9">>
DigitVal(c) == CASE c = "0" -> 0 [] c = "1" -> 1 [] c = "2" -> 2 [] c = "3" -> 3 [] c = "4" -> 4
                 [] c = "5" -> 5 [] c = "6" -> 6 [] c = "7" -> 7 [] c = "8" -> 8 [] c = "9" -> 9
IsDigits(s) == LET d == IF s # <<>> /\ s[1] \in {"-", "+"} THEN Tail(s) ELSE s
               IN d # <<>> /\ \A i \in 1..Len(d) : d[i] \in {"0", "1", "2", "3", "4", "5", "6", "7", "8", "9"}
RECURSIVE LimbVal(_, _, _)
LimbVal(d, i, j) == IF i > j THEN 0 ELSE LimbVal(d, i, j - 1) * 10 + DigitVal(d[j])      \* digits i..j, most significant first
RECURSIVE MagOfDigits(_, _)
MagOfDigits(d, n) == IF n <= 0 THEN <<>>                     \* the first n digits of d
                     ELSE <<LimbVal(d, IF n > 4 THEN n - 3 ELSE 1, n)>> \o MagOfDigits(d, n - 4)
\* [sign] digits, most significant first, one character per element
FromDigits(s) == LET neg == s # <<>> /\ s[1] = "-"
                     d == IF s # <<>> /\ s[1] \in {"-", "+"} THEN Tail(s) ELSE s
                 IN Mk(neg, MagOfDigits(d, Len(d)))
Limb4(v) == <<DigitChars[(v \div 1000) + 1], DigitChars[((v \div 100) % 10) + 1], DigitChars[((v \div 10) % 10) + 1], DigitChars[(v % 10) + 1]>>
RECURSIVE StripLeadingZeros(_)
StripLeadingZeros(d) == IF Len(d) > 1 /\ d[1] = "0" THEN StripLeadingZeros(Tail(d)) ELSE d
RECURSIVE DigitsOfMag(_, _)
DigitsOfMag(m, i) == IF i = 0 THEN <<>> ELSE Limb4(m[i]) \o DigitsOfMag(m, i - 1)
ToDigits(x) == IF x.mag = <<>> THEN <<"0">>
               ELSE (IF x.neg THEN <<"-">> ELSE <<>>) \o StripLeadingZeros(DigitsOfMag(x.mag, Len(x.mag)))

\* ---- the 64-bit range ---------------------------------------------------------------------------
TwoTo63 == [neg |-> FALSE, mag |-> <<5808, 5477, 368, 3372, 922>>]
TwoTo64 == [neg |-> FALSE, mag |-> <<1616, 955, 737, 6744, 1844>>]
MaxInt64 == [neg |-> FALSE, mag |-> <<5807, 5477, 368, 3372, 922>>]
MinInt64 == [neg |-> TRUE, mag |-> <<5808, 5477, 368, 3372, 922>>]
Fits64(x) == Cmp(x, MinInt64) >= 0 /\ Cmp(x, MaxInt64) <= 0
\* the 64-bit two's-complement reading of any integer: the representative of x modulo 2^64 in -2^63 .. 2^63-1
Unsigned64(x) == IF ~x.neg /\ CmpMag(x.mag, TwoTo64.mag) < 0 THEN x                 \* (the first two arms are short cuts)
                 ELSE IF x.neg /\ CmpMag(x.mag, TwoTo64.mag) <= 0 THEN Add(x, TwoTo64)
                 ELSE ModFloor(x, TwoTo64)
Wrap64(x) == IF Fits64(x) THEN x
             ELSE LET u == Unsigned64(x) IN IF Cmp(u, TwoTo63) >= 0 THEN Sub(u, TwoTo64) ELSE u
=============================================================================
