INIT TInit
NEXT TNext
CONSTANTS
  Scenarios = {}
  TraceFile = "traces.ndjson"
CONSTRAINT Track
INVARIANTS Atomic LaterUntouched EarlierDone NoTempAfterErrReturn SuccessMeansAll RefusedBeforeModify LeftoverOnlyByCrash
POSTCONDITION Report
CHECK_DEADLOCK FALSE
