INIT TInit
NEXT TNext
CONSTANTS
  MaxRuns = 2
  ReuseStaleTemp = FALSE
  Scenarios = {}
  TraceFile = "traces.ndjson"
CONSTRAINT Track
INVARIANTS Atomic LaterUntouched EarlierDone NoTempAfterErrReturn SuccessMeansAll RefusedBeforeModify LeftoverOnlyByCrash FreshTemp
POSTCONDITION Report
CHECK_DEADLOCK FALSE
