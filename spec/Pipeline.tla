------------------------------ MODULE Pipeline ------------------------------
(***************************************************************************)
(* The concurrent skeleton of Miller: stream.Stream (main), the record      *)
(* reader (two goroutines for line-oriented formats), one goroutine per     *)
(* verb of the then-chain, and the channel writer, joined by bounded        *)
(* channels with the capacities of the Go code.  One action per channel     *)
(* operation / critical section: every action below corresponds to exactly *)
(* one "End"-type hook event of the verif build (named in the comment at    *)
(* the action), which is what PipelineTrace.tla binds.                      *)
(*                                                                         *)
(* Decides C04 (output independent of batching and scheduling; every run    *)
(* terminates) and C17 (a fault is never silent) on the design, for every   *)
(* interleaving of a bounded configuration.                                 *)
(*                                                                         *)
(* Items travelling in batches:  r \in 1..99   a record (its input id)      *)
(*                               100 + r       text printed while           *)
(*                                             processing record r          *)
(*                               0             the end-of-stream marker     *)
(* Lines in input files:         r > 0 good line, r < 0 malformed line      *)
(***************************************************************************)
EXTENDS PipeSem, TLC

CONSTANTS Configs,          \* set of configurations explored from Init
          ExitStops,        \* TRUE: nothing moves once main has returned (the process exits); FALSE is
                            \* used by trace validation, where goroutines still log events for a few
                            \* microseconds after main's return
          FirstErrorOnly,   \* TRUE: main stops listening on the error channels once it has seen an error (a design
                            \* this code does NOT have; used as a self-test: with three input-side errors TLC must
                            \* find the reader blocked for ever on its error post). FALSE: the code.
          DoneSendBlocking  \* TRUE: done flags are sent with blocking sends (the code before the
                            \* "fix: downstream-done flags are sent non-blockingly" commit);
                            \* FALSE: a send on a full done channel is dropped (the code now)

(* A configuration is a record                                               *)
(*   files : Seq(file)     file = Missing or Seq(line)                       *)
(*   chain : Seq(verb)     verb = [k |-> kind, p |-> parameter]              *)
(*   b     : records per batch (>= 1)                                        *)
(*   sgp   : batch size of the seqgen producer (the code's constant is 500) *)
(*   werr  : 0, or j: the record writer fails on the j-th record            *)
(*   ferr  : TRUE iff the final flush of stdout fails                       *)
(* kinds: "cat" "filt" "dup" "head" "tac" "tee" "print" "fail" "seqgen"      *)

VARIABLES
  cfg,
  \* line-reader goroutine (one per file, never two alive at once)
  lpc, lpos, lbuf, lc, lclosed,
  \* record-reader goroutine
  rpc, rfile, rbuf,
  \* channels
  ch,      \* ch[0] reader->verb1 (cap 2); ch[i] verb i -> verb i+1 (cap 1); ch[n] -> writer (cap 1)
  dd,      \* dd[0] reader's downstream-done channel; dd[i] written by verb i+1, polled by verb i
  ie, de, dw,   \* input-error, data-error, done-writing channels (cap 1): number of buffered items
  \* verb goroutines
  vpc, vcur, vpos, vout, vs,
  teef, teeclosed,
  \* writer goroutine
  wpc, wcount, out,
  \* main
  mpc, ret, flushed,
  \* history
  fault,
  \* input arrival (tail -f): lines of the fed file delivered so far; end of input delivered
  avail, fedEof

vars == <<cfg, lpc, lpos, lbuf, lc, lclosed, rpc, rfile, rbuf, ch, dd, ie, de, dw,
          vpc, vcur, vpos, vout, vs, teef, teeclosed, wpc, wcount, out, mpc, ret, flushed, fault, avail, fedEof>>

N == Len(cfg.chain)
Verb(i) == cfg.chain[i]
Cap(i) == IF i = 0 THEN 2 ELSE 1

Alive == ExitStops => mpc # "exit"

(***************************************************************************)
(* Initial state                                                           *)
(***************************************************************************)
InitVs(v) == [cnt |-> 0, held |-> <<>>, sent |-> FALSE, next |-> 1]

InitWith(c) ==
  /\ cfg = c
  /\ lpc = "idle" /\ lpos = 1 /\ lbuf = <<>> /\ lc = <<>> /\ lclosed = FALSE
  /\ rpc = "next" /\ rfile = 0 /\ rbuf = <<>>
  /\ ch = [i \in 0..Len(c.chain) |-> <<>>]
  /\ dd = [i \in 0..Len(c.chain) |-> 0]
  /\ ie = 0 /\ de = 0 /\ dw = 0
  /\ vpc = [i \in 1..Len(c.chain) |-> IF c.chain[i].k = "seqgen" THEN "sgdrain" ELSE "recv"]
  /\ vcur = [i \in 1..Len(c.chain) |-> <<>>]
  /\ vpos = [i \in 1..Len(c.chain) |-> 1]
  /\ vout = [i \in 1..Len(c.chain) |-> <<>>]
  /\ vs = [i \in 1..Len(c.chain) |-> InitVs(c.chain[i])]
  /\ teef = [i \in 1..Len(c.chain) |-> <<>>]
  /\ teeclosed = [i \in 1..Len(c.chain) |-> FALSE]
  /\ wpc = "recv" /\ wcount = 0 /\ out = <<>>
  /\ mpc = "select" /\ ret = "none" /\ flushed = <<>>
  /\ fault = FALSE
  /\ avail = 0 /\ fedEof = FALSE

Init == \E c \in Configs : InitWith(c)

(***************************************************************************)
(* Line reader (pkg/input/line_reader.go: channelizedLineReader)           *)
(***************************************************************************)
UL == UNCHANGED <<lpc, lpos, lbuf, lc, lclosed>>
UR == UNCHANGED <<rpc, rfile, rbuf>>
UV == UNCHANGED <<vpc, vcur, vpos, vout, vs, teef, teeclosed>>
UF == UNCHANGED <<avail, fedEof>>
UW == UNCHANGED <<wpc, wcount, out>> /\ UF
UM == UNCHANGED <<mpc, ret, flushed>> /\ UF
UE == UNCHANGED <<ie, de, dw>>

CurFile == cfg.files[rfile]

\* Local reading up to the next poll point (a full batch) or end of file.  When the input is FED (cfg.feed: lines of the
\* single file arrive one at a time, the pipe is held open) the line reader blocks in its read ("wait") until a full
\* batch is available or end of input has been delivered.
Readable(f, pos) == IF cfg.feed THEN avail - pos + 1 ELSE Len(f) - pos + 1
AtEof(f) == IF cfg.feed THEN fedEof ELSE TRUE
FillPc(f, pos) == IF Readable(f, pos) >= cfg.b THEN "poll" ELSE IF AtEof(f) THEN "last" ELSE "wait"
FillBuf(f, pos) == IF Readable(f, pos) >= cfg.b THEN SubSeq(f, pos, pos + cfg.b - 1)
                   ELSE IF AtEof(f) THEN SubSeq(f, pos, Len(f)) ELSE <<>>
FillPos(f, pos) == IF Readable(f, pos) >= cfg.b THEN pos + cfg.b ELSE IF AtEof(f) THEN Len(f) + 1 ELSE pos
LFillPc(pos) == FillPc(CurFile, pos)
LFillBuf(pos) == FillBuf(CurFile, pos)
LFillPos(pos) == FillPos(CurFile, pos)

\* the blocked read returns: a full batch has arrived, or end of input (no hook: the read is inside lineReader.Read)
LWake == /\ Alive /\ lpc = "wait" /\ (Readable(CurFile, lpos) >= cfg.b \/ fedEof)
         /\ lpc' = LFillPc(lpos) /\ lbuf' = LFillBuf(lpos) /\ lpos' = LFillPos(lpos)
         /\ UNCHANGED <<cfg, lc, lclosed, ch, dd, fault>> /\ UR /\ UV /\ UW /\ UM /\ UE
\* the environment delivers one more line / closes the input
Feed == /\ cfg.feed /\ Len(cfg.files) = 1 /\ avail < Len(cfg.files[1]) /\ ~fedEof
        /\ avail' = avail + 1
        /\ UNCHANGED <<cfg, lpc, lpos, lbuf, lc, lclosed, rpc, rfile, rbuf, ch, dd, ie, de, dw, vpc, vcur, vpos, vout, vs, teef, teeclosed,
                       wpc, wcount, out, mpc, ret, flushed, fault, fedEof>>
FeedEof == /\ cfg.feed /\ Len(cfg.files) = 1 /\ avail = Len(cfg.files[1]) /\ ~fedEof
           /\ fedEof' = TRUE
           /\ UNCHANGED <<cfg, lpc, lpos, lbuf, lc, lclosed, rpc, rfile, rbuf, ch, dd, ie, de, dw, vpc, vcur, vpos, vout, vs, teef, teeclosed,
                          wpc, wcount, out, mpc, ret, flushed, fault, avail>>

\* lines.pollNone / lines.pollDone
LPollNone == /\ Alive /\ lpc = "poll" /\ dd[0] = 0
             /\ lpc' = "send"
             /\ UNCHANGED <<cfg, lpos, lbuf, lc, lclosed, ch, dd, fault>> /\ UR /\ UV /\ UW /\ UM /\ UE
LPollDone == /\ Alive /\ lpc = "poll" /\ dd[0] = 1
             /\ dd' = [dd EXCEPT ![0] = 0]
             /\ lpc' = "last"             \* the batch in hand is still delivered
             /\ UNCHANGED <<cfg, lpos, lbuf, lc, lclosed, ch, fault>> /\ UR /\ UV /\ UW /\ UM /\ UE
\* lines.sendEnd(len)
LSend == /\ Alive /\ lpc = "send" /\ Len(lc) < cfg.b
         /\ lc' = Append(lc, lbuf)
         /\ lpc' = LFillPc(lpos) /\ lbuf' = LFillBuf(lpos) /\ lpos' = LFillPos(lpos)
         /\ UNCHANGED <<cfg, lclosed, ch, dd, fault>> /\ UR /\ UV /\ UW /\ UM /\ UE
\* lines.lastSendEnd(len): final (possibly empty) batch, then close
LLast == /\ Alive /\ lpc = "last" /\ Len(lc) < cfg.b
         /\ lc' = Append(lc, lbuf) /\ lclosed' = TRUE /\ lpc' = "idle" /\ lbuf' = <<>>
         /\ UNCHANGED <<cfg, lpos, ch, dd, fault>> /\ UR /\ UV /\ UW /\ UM /\ UE

(***************************************************************************)
(* Record reader (record_reader_dkvp_nidx.go: Read/processHandle/           *)
(* getRecordBatch; the CSV reader has the same shape)                       *)
(***************************************************************************)
\* reader.fileStart(name): open the next file, start its line reader
RFileStart == /\ Alive /\ rpc = "next" /\ rfile < Len(cfg.files) /\ ~IsMissing(cfg.files[rfile + 1])
              /\ rfile' = rfile + 1 /\ rpc' = "recv"
              /\ LET f == cfg.files[rfile + 1]
                 IN /\ lpc' = FillPc(f, 1)
                    /\ lbuf' = FillBuf(f, 1)
                    /\ lpos' = FillPos(f, 1)
              /\ lc' = <<>> /\ lclosed' = FALSE
              /\ UNCHANGED <<cfg, rbuf, ch, dd, fault>> /\ UV /\ UW /\ UM /\ UE
\* reader.openErrEnd(name): blocking post of the open error; carry on with the next file
ROpenErr == /\ Alive /\ rpc = "next" /\ rfile < Len(cfg.files) /\ IsMissing(cfg.files[rfile + 1])
            /\ ie = 0 /\ ie' = 1 /\ fault' = TRUE
            /\ rfile' = rfile + 1
            /\ UNCHANGED <<cfg, rpc, rbuf, ch, dd, de, dw>> /\ UL /\ UV /\ UW /\ UM
\* reader.eosEnd: the end-of-stream marker is its own batch
REos == /\ Alive /\ rpc = "next" /\ rfile = Len(cfg.files) /\ Len(ch[0]) < Cap(0)
        /\ ch' = [ch EXCEPT ![0] = Append(@, <<EOS>>)]
        /\ rpc' = "exit"
        /\ UNCHANGED <<cfg, rfile, rbuf, dd, fault>> /\ UL /\ UV /\ UW /\ UM /\ UE

RECURSIVE GoodPrefix(_)
GoodPrefix(s) == IF s = <<>> \/ Head(s) < 0 THEN <<>> ELSE <<Head(s)>> \o GoodPrefix(Tail(s))
AllGood(s) == \A j \in 1..Len(s) : s[j] > 0

\* reader.linesRecvEnd(len, more)
RRecvBatch == /\ Alive /\ rpc = "recv" /\ lc # <<>>
              /\ lc' = Tail(lc)
              /\ LET lines == Head(lc) IN
                   IF AllGood(lines)
                   THEN /\ rbuf' = lines /\ rpc' = IF lines = <<>> THEN "recv" ELSE "send"
                   ELSE /\ rbuf' = GoodPrefix(lines) /\ rpc' = "dataerr"
              /\ UNCHANGED <<cfg, rfile, lpc, lpos, lbuf, lclosed, ch, dd, fault>> /\ UV /\ UW /\ UM /\ UE
RRecvClosed == /\ Alive /\ rpc = "recv" /\ lc = <<>> /\ lclosed
               /\ rpc' = "next"
               /\ UNCHANGED <<cfg, rfile, rbuf, ch, dd, fault>> /\ UL /\ UV /\ UW /\ UM /\ UE
\* reader.dataErrEnd: blocking post; the records already built are forwarded, the rest of the batch is dropped
RDataErr == /\ Alive /\ rpc = "dataerr" /\ ie = 0
            /\ ie' = 1 /\ fault' = TRUE
            /\ rpc' = IF rbuf = <<>> THEN "recv" ELSE "send"
            /\ UNCHANGED <<cfg, rfile, rbuf, ch, dd, de, dw>> /\ UL /\ UV /\ UW /\ UM
\* reader.sendEnd(len)
RSend == /\ Alive /\ rpc = "send" /\ Len(ch[0]) < Cap(0)
         /\ ch' = [ch EXCEPT ![0] = Append(@, rbuf)]
         /\ rpc' = "recv"
         /\ UNCHANGED <<cfg, rfile, rbuf, dd, fault>> /\ UL /\ UV /\ UW /\ UM /\ UE

(***************************************************************************)
(* Verbs (aaa_chain_transformer.go: runSingleTransformer/Batch; head.go;   *)
(* tee.go; aaa_record_transformer.go: HandleDefaultDownstreamDone)          *)
(***************************************************************************)
\* Text items are appended to the output without calling the verb (and without polling).
RECURSIVE SkipPos(_, _), SkipOut(_, _, _)
SkipPos(cur, pos) == IF pos <= Len(cur) /\ IsStr(cur[pos]) THEN SkipPos(cur, pos + 1) ELSE pos
SkipOut(cur, pos, o) == IF pos <= Len(cur) /\ IsStr(cur[pos]) THEN SkipOut(cur, pos + 1, Append(o, cur[pos])) ELSE o

\* Move on after the item at vpos[i] has been transformed; o is the verb's output so far.
Advance(i, o, st) ==
  LET cur == vcur[i]
      item == cur[vpos[i]]
      np == SkipPos(cur, vpos[i] + 1)
      no == SkipOut(cur, vpos[i] + 1, o)
  IN IF item = EOS
     THEN /\ vpos' = [vpos EXCEPT ![i] = Len(cur) + 1] /\ vout' = [vout EXCEPT ![i] = o]
          /\ vpc' = [vpc EXCEPT ![i] = "sendlast"] /\ vs' = [vs EXCEPT ![i] = st]
     ELSE /\ vpos' = [vpos EXCEPT ![i] = np] /\ vout' = [vout EXCEPT ![i] = no]
          /\ vpc' = [vpc EXCEPT ![i] = IF np > Len(cur) THEN "send" ELSE "item"]
          /\ vs' = [vs EXCEPT ![i] = st]

\* The verb proper, applied to the item at vpos[i] (after its poll).
Xform(i) ==
  LET v == Verb(i)
      st == vs[i]
      item == vcur[i][vpos[i]]
      o == vout[i]
  IN
  IF item = EOS THEN
       CASE v.k = "tac" -> Advance(i, o \o st.held \o <<EOS>>, st) /\ UNCHANGED <<teef, teeclosed>>
         [] v.k = "tee" -> Advance(i, Append(o, EOS), st) /\ teeclosed' = [teeclosed EXCEPT ![i] = TRUE] /\ UNCHANGED teef
         [] OTHER -> Advance(i, Append(o, EOS), st) /\ UNCHANGED <<teef, teeclosed>>
  ELSE
       CASE v.k = "cat"   -> Advance(i, Append(o, item), st) /\ UNCHANGED <<teef, teeclosed>>
         [] v.k = "filt"  -> Advance(i, IF item % 2 = 1 THEN Append(o, item) ELSE o, st) /\ UNCHANGED <<teef, teeclosed>>
         [] v.k = "dup"   -> Advance(i, o \o <<item, item>>, st) /\ UNCHANGED <<teef, teeclosed>>
         [] v.k = "print" -> Advance(i, o \o <<100 + item, item>>, st) /\ UNCHANGED <<teef, teeclosed>>
         [] v.k = "tac"   -> Advance(i, o, [st EXCEPT !.held = <<item>> \o @]) /\ UNCHANGED <<teef, teeclosed>>
         [] v.k = "tee"   -> Advance(i, Append(o, item), st) /\ teef' = [teef EXCEPT ![i] = Append(@, item)] /\ UNCHANGED teeclosed
         [] v.k = "head"  ->
              IF st.cnt + 1 <= v.p
              THEN Advance(i, Append(o, item), [st EXCEPT !.cnt = @ + 1]) /\ UNCHANGED <<teef, teeclosed>>
              ELSE IF ~st.sent
                   THEN \* head.ownDoneBegin: about to block on the upstream done channel
                        /\ vpc' = [vpc EXCEPT ![i] = "own"] /\ vs' = [vs EXCEPT ![i] = [st EXCEPT !.cnt = @ + 1]]
                        /\ UNCHANGED <<vpos, vout, teef, teeclosed>>
                   ELSE Advance(i, o, [st EXCEPT !.cnt = @ + 1]) /\ UNCHANGED <<teef, teeclosed>>
         [] v.k = "fail"  ->
              IF st.cnt + 1 = v.p
              THEN /\ vpc' = [vpc EXCEPT ![i] = "errpost"] /\ vs' = [vs EXCEPT ![i] = [st EXCEPT !.cnt = @ + 1]]
                   /\ UNCHANGED <<vpos, vout, teef, teeclosed>>
              ELSE Advance(i, Append(o, item), [st EXCEPT !.cnt = @ + 1]) /\ UNCHANGED <<teef, teeclosed>>

IsProducer(i) == Verb(i).k = "seqgen"

\* verb.recvEnd(len)
VRecv(i) == /\ Alive /\ vpc[i] = "recv" /\ ch[i - 1] # <<>>
            /\ LET cur == Head(ch[i - 1])
                   np == SkipPos(cur, 1)
               IN /\ vcur' = [vcur EXCEPT ![i] = cur]
                  /\ vpos' = [vpos EXCEPT ![i] = np]
                  /\ vout' = [vout EXCEPT ![i] = SkipOut(cur, 1, <<>>)]
                  /\ vpc' = [vpc EXCEPT ![i] = IF np > Len(cur) THEN "send" ELSE "item"]
            /\ ch' = [ch EXCEPT ![i - 1] = Tail(@)]
            /\ UNCHANGED <<cfg, dd, vs, teef, teeclosed, fault>> /\ UL /\ UR /\ UW /\ UM /\ UE
\* dd.pollNone / tee.pollNone: nothing pending; the verb transforms the item
VPollNone(i) == /\ Alive /\ vpc[i] = "item" /\ dd[i] = 0
                /\ Xform(i)
                /\ UNCHANGED <<cfg, vcur, ch, dd, fault>> /\ UL /\ UR /\ UW /\ UM /\ UE
\* dd.fwdBegin (flag taken, about to forward it) / tee.swallowed (flag taken and dropped)
VPollFlag(i) == /\ Alive /\ vpc[i] = "item" /\ dd[i] = 1
                /\ dd' = [dd EXCEPT ![i] = 0]
                /\ IF Verb(i).k = "tee"
                   THEN Xform(i)
                   ELSE /\ vpc' = [vpc EXCEPT ![i] = "fwd"] /\ UNCHANGED <<vpos, vout, vs, teef, teeclosed>>
                /\ UNCHANGED <<cfg, vcur, ch, fault>> /\ UL /\ UR /\ UW /\ UM /\ UE
\* dd.fwdEnd: send upstream (dropped if a flag is already pending), then the verb transforms the item
VFwd(i) == /\ Alive /\ vpc[i] = "fwd" /\ (DoneSendBlocking => dd[i - 1] = 0)
           /\ dd' = [dd EXCEPT ![i - 1] = 1]
           /\ Xform(i)
           /\ UNCHANGED <<cfg, vcur, ch, fault>> /\ UL /\ UR /\ UW /\ UM /\ UE
\* head.ownDoneEnd: head's own done-send (dropped if a flag is already pending)
VOwn(i) == /\ Alive /\ vpc[i] = "own" /\ (DoneSendBlocking => dd[i - 1] = 0)
           /\ dd' = [dd EXCEPT ![i - 1] = 1]
           /\ Advance(i, vout[i], [vs[i] EXCEPT !.sent = TRUE])
           /\ UNCHANGED <<cfg, vcur, ch, teef, teeclosed, fault>> /\ UL /\ UR /\ UW /\ UM /\ UE
\* verb.sendEnd(len)
VSend(i) == /\ Alive /\ vpc[i] \in {"send", "sendlast"} /\ Len(ch[i]) < Cap(i)
            /\ ch' = [ch EXCEPT ![i] = Append(@, vout[i])]
            /\ vpc' = [vpc EXCEPT ![i] = IF vpc[i] = "sendlast" THEN "exit" ELSE "recv"]
            /\ UNCHANGED <<cfg, dd, vcur, vpos, vout, vs, teef, teeclosed, fault>> /\ UL /\ UR /\ UW /\ UM /\ UE
\* verb.errPosted / verb.errDropped: non-blocking post of the error, before the marker goes downstream
VErrPost(i) == /\ Alive /\ vpc[i] = "errpost"
               /\ de' = 1 /\ fault' = TRUE
               /\ vout' = [vout EXCEPT ![i] = Append(@, EOS)]
               /\ vpc' = [vpc EXCEPT ![i] = "errsend"]
               /\ UNCHANGED <<cfg, ch, dd, ie, dw, vcur, vpos, vs, teef, teeclosed>> /\ UL /\ UR /\ UW /\ UM
\* verb.sendEnd(len) on the error path
VErrSend(i) == /\ Alive /\ vpc[i] = "errsend" /\ Len(ch[i]) < Cap(i)
               /\ ch' = [ch EXCEPT ![i] = Append(@, vout[i])]
               /\ vpc' = [vpc EXCEPT ![i] = "errdone"]
               /\ UNCHANGED <<cfg, dd, vcur, vpos, vout, vs, teef, teeclosed, fault>> /\ UL /\ UR /\ UW /\ UM /\ UE
\* verb.errDoneSent / verb.errDoneDropped: non-blocking done upstream, goroutine exits
VErrDone(i) == /\ Alive /\ vpc[i] = "errdone"
               /\ dd' = [dd EXCEPT ![i - 1] = 1]
               /\ vpc' = [vpc EXCEPT ![i] = "exit"]
               /\ UNCHANGED <<cfg, ch, vcur, vpos, vout, vs, teef, teeclosed, fault>> /\ UL /\ UR /\ UW /\ UM /\ UE

(***************************************************************************)
(* seqgen as a streaming producer (seqgen.go: ProduceStream)               *)
(***************************************************************************)
SgFill(i, st) ==
  LET total == Verb(i).p
      left == total - st.next + 1
  IN IF left >= cfg.sgp
     THEN /\ vout' = [vout EXCEPT ![i] = [j \in 1..cfg.sgp |-> st.next + j - 1]]
          /\ vs' = [vs EXCEPT ![i] = [st EXCEPT !.next = @ + cfg.sgp]]
          /\ vpc' = [vpc EXCEPT ![i] = "sgsend"]
     ELSE /\ vout' = [vout EXCEPT ![i] = [j \in 1..left + 1 |-> IF j <= left THEN st.next + j - 1 ELSE EOS]]
          /\ vs' = [vs EXCEPT ![i] = [st EXCEPT !.next = total + 1]]
          /\ vpc' = [vpc EXCEPT ![i] = "sglast"]
\* verb.drainEnd: consume the reader's lone marker
SgDrain(i) == /\ Alive /\ vpc[i] = "sgdrain" /\ ch[i - 1] # <<>>
              /\ ch' = [ch EXCEPT ![i - 1] = Tail(@)]
              /\ SgFill(i, vs[i])
              /\ UNCHANGED <<cfg, dd, vcur, vpos, teef, teeclosed, fault>> /\ UL /\ UR /\ UW /\ UM /\ UE
\* seqgen.sendEnd(len)
SgSend(i) == /\ Alive /\ vpc[i] = "sgsend" /\ Len(ch[i]) < Cap(i)
             /\ ch' = [ch EXCEPT ![i] = Append(@, vout[i])]
             /\ vpc' = [vpc EXCEPT ![i] = "sgpoll"]
             /\ UNCHANGED <<cfg, dd, vcur, vpos, vout, vs, teef, teeclosed, fault>> /\ UL /\ UR /\ UW /\ UM /\ UE
\* seqgen.pollNone
SgPollNone(i) == /\ Alive /\ vpc[i] = "sgpoll" /\ dd[i] = 0
                 /\ SgFill(i, vs[i])
                 /\ UNCHANGED <<cfg, ch, dd, vcur, vpos, teef, teeclosed, fault>> /\ UL /\ UR /\ UW /\ UM /\ UE
\* seqgen.fwdBegin
SgPollFlag(i) == /\ Alive /\ vpc[i] = "sgpoll" /\ dd[i] = 1
                 /\ dd' = [dd EXCEPT ![i] = 0]
                 /\ vpc' = [vpc EXCEPT ![i] = "sgfwd"]
                 /\ UNCHANGED <<cfg, ch, vcur, vpos, vout, vs, teef, teeclosed, fault>> /\ UL /\ UR /\ UW /\ UM /\ UE
\* seqgen.fwdEnd
SgFwd(i) == /\ Alive /\ vpc[i] = "sgfwd" /\ (DoneSendBlocking => dd[i - 1] = 0)
            /\ dd' = [dd EXCEPT ![i - 1] = 1]
            /\ vpc' = [vpc EXCEPT ![i] = "sgeos"]
            /\ UNCHANGED <<cfg, ch, vcur, vpos, vout, vs, teef, teeclosed, fault>> /\ UL /\ UR /\ UW /\ UM /\ UE
\* seqgen.eosSendEnd
SgEos(i) == /\ Alive /\ vpc[i] = "sgeos" /\ Len(ch[i]) < Cap(i)
            /\ ch' = [ch EXCEPT ![i] = Append(@, <<EOS>>)]
            /\ vpc' = [vpc EXCEPT ![i] = "exit"]
            /\ UNCHANGED <<cfg, dd, vcur, vpos, vout, vs, teef, teeclosed, fault>> /\ UL /\ UR /\ UW /\ UM /\ UE
\* seqgen.lastSendEnd(len)
SgLast(i) == /\ Alive /\ vpc[i] = "sglast" /\ Len(ch[i]) < Cap(i)
             /\ ch' = [ch EXCEPT ![i] = Append(@, vout[i])]
             /\ vpc' = [vpc EXCEPT ![i] = "exit"]
             /\ UNCHANGED <<cfg, dd, vcur, vpos, vout, vs, teef, teeclosed, fault>> /\ UL /\ UR /\ UW /\ UM /\ UE

(***************************************************************************)
(* Channel writer (pkg/output/channel_writer.go)                           *)
(***************************************************************************)
\* What the writer does with one batch: items are written in order up to the
\* marker, or up to the record on which the record writer fails.
RECURSIVE WriteBatch(_, _, _)
\* returns <<written items, records written count, status>>, status in "more" "eos" "err"
WriteBatch(batch, cnt, acc) ==
  IF batch = <<>> THEN <<acc, cnt, "more">>
  ELSE LET x == Head(batch) IN
       IF x = EOS THEN <<acc, cnt, "eos">>
       ELSE IF IsRec(x)
            THEN IF cfg.werr # 0 /\ cnt + 1 = cfg.werr THEN <<acc, cnt + 1, "err">>
                 ELSE WriteBatch(Tail(batch), cnt + 1, Append(acc, x))
            ELSE WriteBatch(Tail(batch), cnt, Append(acc, x))

\* writer.recvEnd(len)
WRecv == /\ Alive /\ wpc = "recv" /\ ch[N] # <<>>
         /\ ch' = [ch EXCEPT ![N] = Tail(@)]
         /\ LET r == WriteBatch(Head(ch[N]), wcount, <<>>) IN
              /\ out' = out \o r[1]
              /\ wcount' = r[2]
              /\ wpc' = CASE r[3] = "more" -> "recv" [] r[3] = "eos" -> "done" [] r[3] = "err" -> "errpost"
         /\ UNCHANGED <<cfg, dd, fault>> /\ UL /\ UR /\ UV /\ UM /\ UE
\* writer.errPosted / writer.errDropped
WErrPost == /\ Alive /\ wpc = "errpost"
            /\ de' = 1 /\ fault' = TRUE /\ wpc' = "done"
            /\ UNCHANGED <<cfg, ch, dd, ie, dw, wcount, out>> /\ UL /\ UR /\ UV /\ UM
\* writer.doneEnd
WDone == /\ Alive /\ wpc = "done" /\ dw = 0
         /\ dw' = 1 /\ wpc' = "exit"
         /\ UNCHANGED <<cfg, ch, dd, ie, de, wcount, out, fault>> /\ UL /\ UR /\ UV /\ UM

(***************************************************************************)
(* Main (pkg/stream/stream.go: Stream)                                     *)
(***************************************************************************)
\* main.gotInputErr
MGotInputErr == /\ mpc = "select" /\ ie = 1 /\ (FirstErrorOnly => ret = "none")
                /\ ie' = 0 /\ ret' = "err"
                /\ UNCHANGED <<cfg, ch, dd, de, dw, mpc, flushed, fault>> /\ UL /\ UR /\ UV /\ UW
\* main.gotDataErr
MGotDataErr == /\ mpc = "select" /\ de = 1 /\ (FirstErrorOnly => ret = "none")
               /\ de' = 0 /\ ret' = "err"
               /\ UNCHANGED <<cfg, ch, dd, ie, dw, mpc, flushed, fault>> /\ UL /\ UR /\ UV /\ UW
\* main.gotDone
MGotDone == /\ mpc = "select" /\ dw = 1
            /\ dw' = 0 /\ mpc' = IF ret = "none" THEN "drain1" ELSE "flush"
            /\ UNCHANGED <<cfg, ch, dd, ie, de, ret, flushed, fault>> /\ UL /\ UR /\ UV /\ UW
\* main.drainInputErr / main.drainInputNone
MDrain1 == /\ mpc = "drain1"
           /\ IF ie = 1 THEN ie' = 0 /\ ret' = "err" /\ mpc' = "flush"
                        ELSE UNCHANGED <<ie, ret>> /\ mpc' = "drain2"
           /\ UNCHANGED <<cfg, ch, dd, de, dw, flushed, fault>> /\ UL /\ UR /\ UV /\ UW
\* main.drainDataErr / main.drainDataNone
MDrain2 == /\ mpc = "drain2"
           /\ IF de = 1 THEN de' = 0 /\ ret' = "err" ELSE UNCHANGED <<de, ret>>
           /\ mpc' = "flush"
           /\ UNCHANGED <<cfg, ch, dd, ie, dw, flushed, fault>> /\ UL /\ UR /\ UV /\ UW
\* main.return(failed): final flush, whose failure is the last thing that can turn success into failure
MFlush == /\ mpc = "flush"
          /\ flushed' = IF cfg.ferr THEN <<>> ELSE out
          /\ ret' = IF ret = "none" THEN (IF cfg.ferr /\ out # <<>> THEN "err" ELSE "ok") ELSE ret
          /\ fault' = (fault \/ (cfg.ferr /\ out # <<>>))
          /\ mpc' = "exit"
          /\ UNCHANGED <<cfg, ch, dd, ie, de, dw>> /\ UL /\ UR /\ UV /\ UW

Terminated == mpc = "exit" /\ UNCHANGED vars

LNext == LPollNone \/ LPollDone \/ LSend \/ LLast \/ LWake
RNext == RFileStart \/ ROpenErr \/ REos \/ RRecvBatch \/ RRecvClosed \/ RDataErr \/ RSend
VNext(i) == \/ VRecv(i) \/ VPollNone(i) \/ VPollFlag(i) \/ VFwd(i) \/ VOwn(i) \/ VSend(i)
            \/ VErrPost(i) \/ VErrSend(i) \/ VErrDone(i)
            \/ SgDrain(i) \/ SgSend(i) \/ SgPollNone(i) \/ SgPollFlag(i) \/ SgFwd(i) \/ SgEos(i) \/ SgLast(i)
WNext == WRecv \/ WErrPost \/ WDone
MNext == MGotInputErr \/ MGotDataErr \/ MGotDone \/ MDrain1 \/ MDrain2 \/ MFlush

Internal == LNext \/ RNext \/ (\E i \in 1..N : VNext(i)) \/ WNext \/ MNext
Next == Internal \/ Feed \/ FeedEof \/ Terminated

Spec == Init /\ [][Next]_vars
FairSpec == Spec /\ WF_vars(LNext) /\ WF_vars(RNext) /\ (\A i \in 1..4 : WF_vars(i <= N /\ VNext(i)))
                 /\ WF_vars(WNext) /\ WF_vars(MNext)

(***************************************************************************)
(* Properties                                                              *)
(***************************************************************************)
IsPrefix(s, t) == Len(s) <= Len(t) /\ SubSeq(t, 1, Len(s)) = s

\* C04: what has been handed to stdout is always a prefix of the chain-defined
\* output: nothing lost, duplicated or reordered, text at the place it was produced.
\* (Stated for fault-free configurations: what a failing run has already written is not
\* constrained by the property, only its exit status is.)
PrefixOrder == FaultFree(cfg) => IsPrefix(out, Expected(cfg))

\* C04: a run that succeeds has written exactly the chain-defined output, for
\* every batch size and schedule; tee files are complete.
OutputCorrect ==
  (mpc = "exit" /\ ret = "ok") =>
      /\ flushed = Expected(cfg)
      /\ \A i \in 1..N : Verb(i).k = "tee" => teeclosed[i] /\ teef[i] = ExpectedTee(cfg, i - 1)

\* C04: the exit status does not depend on batching or scheduling: a fault-free
\* configuration always succeeds.
SuccessDeterministic == (mpc = "exit" /\ FaultFree(cfg)) => ret = "ok"

\* C17: a fault that occurred is never silent.
ErrorNotLost == (mpc = "exit" /\ fault) => ret = "err"
\* C17 converse: success means no fault occurred and all output was flushed.
SuccessMeansClean == (mpc = "exit" /\ ret = "ok") => (~fault /\ flushed = out)

\* C17/C04: faults that every schedule must run into are reported under every schedule
\* (MustFail, PipeSem.tla).
FailDeterministic == (mpc = "exit" /\ MustFail(cfg)) => ret = "err"

\* C04: every run terminates: TLC's deadlock check (the only self-loop is Terminated, after
\* main returned), plus the liveness property under weak fairness of every goroutine.
Termination == <>(mpc = "exit")

\* C04, the documented `tail -f` contract: with --records-per-batch 1 and a flush after every record, whenever the input
\* is held open after k lines and nothing inside mlr can move any more, everything the chain produces for those k lines
\* has been written (cfg.fflush: what the writer hands to the buffer is flushed at once, so `out` is what is visible)
TailF == (cfg.feed /\ cfg.fflush /\ cfg.b = 1 /\ ~fedEof /\ ~ENABLED Internal)
            => out = ApplyUpTo(cfg.chain, N, SubSeq(cfg.files[1], 1, avail))

\* (self-test of the model: the same claim for any batch size must FAIL for b > 1 -- lines wait for a full batch)
TailFAnyBatch == (cfg.feed /\ cfg.fflush /\ ~fedEof /\ ~ENABLED Internal)
                   => out = ApplyUpTo(cfg.chain, N, SubSeq(cfg.files[1], 1, avail))

\* at most one flag per done channel, capacities respected
TypeOK == /\ \A i \in 0..N : dd[i] \in {0, 1} /\ Len(ch[i]) <= Cap(i)
          /\ Len(lc) <= cfg.b
          /\ ie \in {0, 1} /\ de \in {0, 1} /\ dw \in {0, 1}

\* what an exhaustive run needs to distinguish states
View == vars
=============================================================================
