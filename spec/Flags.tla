-------------------------------- MODULE Flags --------------------------------
(***************************************************************************)
(* C02, third clause: how a selection of formats and separators may be      *)
(* spelled, and what each spelling is documented to stand for.               *)
(*                                                                          *)
(* Everything here is transcribed from the documentation:                    *)
(*   docs/src/reference-main-flag-list.md  ("File-format flags",             *)
(*       "Format-conversion keystroke-saver flags", "CSV/TSV-only flags",    *)
(*       "JSON-only flags", "Legacy flags", "PPRINT-only flags",              *)
(*       "Markdown-only flags", "Separator flags" incl. the alias list and   *)
(*       the table "Default separators by format"),                          *)
(*   docs/src/file-formats.md (the same matrix with its diagonal; CSV-lite / *)
(*       TSV-lite / ASV / USV paragraphs),                                    *)
(*   docs/src/reference-main-separators.md, docs/src/customization.md,       *)
(*   and `mlr help flag --X2b` (the seven --barred savers are documented     *)
(*   only in the on-line help).                                              *)
(* Nothing is taken from pkg/cli/option_parse.go.                            *)
(*                                                                          *)
(* An argv token is <<"t", text>>, or a separator given by its atoms:        *)
(* <<"raw", atoms>> (the bytes themselves) or <<"esc", atoms>> (typed as the *)
(* documentation prints it, e.g. \r\n or \x1f).  An atom is one printable    *)
(* character or one backslash escape exactly as the alias list prints it.    *)
(***************************************************************************)
EXTENDS Integers, Sequences, FiniteSets, TLC

T(s) == <<"t", s>>
Raw(atoms) == <<"raw", atoms>>
Esc(atoms) == <<"esc", atoms>>
Ts(ss) == [i \in 1..Len(ss) |-> T(ss[i])]
Range(f) == {f[i] : i \in DOMAIN f}

(***************************************************************************)
(* "The letters c, t, j, l, d, n, x, p, m, and y refer to formats CSV, TSV,  *)
(* JSON, JSON Lines, DKVP, NIDX, XTAB, PPRINT, markdown, and YAML,           *)
(* respectively."                                                            *)
(***************************************************************************)
Letters == <<"c", "t", "j", "l", "d", "n", "x", "p", "m", "y">>
LetterFormats == <<"csv", "tsv", "json", "jsonl", "dkvp", "nidx", "xtab", "pprint", "markdown", "yaml">>
LetterOf(f) == Letters[CHOOSE i \in 1..Len(Letters) : LetterFormats[i] = f]

(* The matrix, as printed by `mlr help format-conversion-keystroke-saver-flags` (file-formats.md); rows are  *)
(* "In", columns are "Out"; every cell is written here without its leading "--".  The copy in                *)
(* reference-main-flag-list.md is the same with an empty diagonal.  The printed cell "-p2p" is taken to be   *)
(* --p2p (the flag list has "--pprint or --p2p").  "" = empty cell.                                          *)
RowHeads == <<"csv", "tsv", "json", "jsonl", "dkvp", "nidx", "xtab", "pprint", "markdown", "yaml">>
ColHeads == <<"csv", "tsv", "json", "jsonl", "dkvp", "nidx", "xtab", "pprint", "markdown", "yaml">>
Matrix == <<
  <<"c2c", "c2t", "c2j", "c2l", "c2d", "c2n", "c2x", "c2p", "c2m", "c2y">>,
  <<"t2c", "t2t", "t2j", "t2l", "t2d", "t2n", "t2x", "t2p", "t2m", "t2y">>,
  <<"j2c", "j2t", "j2j", "j2l", "j2d", "j2n", "j2x", "j2p", "j2m", "j2y">>,
  <<"l2c", "l2t", "l2j", "l2l", "l2d", "l2n", "l2x", "l2p", "l2m", "l2y">>,
  <<"d2c", "d2t", "d2j", "d2l", "d2d", "d2n", "d2x", "d2p", "d2m", "d2y">>,
  <<"n2c", "n2t", "n2j", "n2l", "n2d", "n2n", "n2x", "n2p", "n2m", "n2y">>,
  <<"x2c", "x2t", "x2j", "x2l", "x2d", "x2n", "x2x", "x2p", "x2m", "x2y">>,
  <<"p2c", "p2t", "p2j", "p2l", "p2d", "p2n", "p2x", "p2p", "p2m", "p2y">>,
  <<"m2c", "m2t", "m2j", "m2l", "m2d", "m2n", "m2x", "m2p", "",    "m2y">>,
  <<"y2c", "y2t", "y2j", "y2l", "y2d", "y2n", "y2x", "y2p", "y2m", "y2y">> >>
\* second names printed in the diagonal cells "--c2c,-c", "--t2t,-t", "--j2j,-j" (one dash)
DiagonalShort == <<<<"c", "csv">>, <<"t", "tsv">>, <<"j", "json">>>>
\* `mlr help flag --c2b`: "Use CSV for input, PPRINT with `--barred` for output."  (c t j l d n x only)
Barred == <<<<"c2b", "csv">>, <<"t2b", "tsv">>, <<"j2b", "json">>, <<"l2b", "jsonl">>, <<"d2b", "dkvp">>,
            <<"n2b", "nidx">>, <<"x2b", "xtab">>>>

(* The naming convention: the cell in row X, column Y is spelled --x2y with the letters of the two formats.   *)
NamingLaw ==
  /\ Len(Matrix) = Len(RowHeads) /\ \A i \in 1..Len(Matrix) : Len(Matrix[i]) = Len(ColHeads)
  /\ \A i \in 1..Len(RowHeads), j \in 1..Len(ColHeads) :
        Matrix[i][j] # "" => Matrix[i][j] = LetterOf(RowHeads[i]) \o "2" \o LetterOf(ColHeads[j])
  /\ \A k \in 1..Len(Barred) : Barred[k][1] = LetterOf(Barred[k][2]) \o "2b"
  /\ \A k \in 1..Len(DiagonalShort) : DiagonalShort[k][1] = LetterOf(DiagonalShort[k][2])
  \* every off-diagonal cell is filled, and no flag is listed twice
  /\ \A i \in 1..Len(RowHeads), j \in 1..Len(ColHeads) : (Matrix[i][j] = "") => (i = j)
  /\ Cardinality({Matrix[i][j] : i \in 1..Len(RowHeads), j \in 1..Len(ColHeads)} \ {""}) = 99

(***************************************************************************)
(* File-format flags.  "--csv or -c or --c2c: Use CSV format for input and   *)
(* output data", "--icsv: ... for input data", "--ocsv: ... for output data".*)
(* Stems: for each format the names the list gives for the in+out flag       *)
(* (--<stem>, --i<stem>, --o<stem> are all listed).  The first stem of a     *)
(* group is the one used in expansions.                                      *)
(***************************************************************************)
Stems == <<
  <<"asv", <<"asv", "asvlite">>>>, <<"csv", <<"csv">>>>, <<"csvlite", <<"csvlite">>>>, <<"dcf", <<"dcf">>>>,
  <<"dkvp", <<"dkvp">>>>, <<"json", <<"json">>>>, <<"jsonl", <<"jsonl">>>>, <<"markdown", <<"md", "markdown">>>>,
  <<"nidx", <<"nidx">>>>, <<"pprint", <<"pprint">>>>, <<"recutils", <<"recutils">>>>, <<"tsv", <<"tsv">>>>,
  <<"tsvlite", <<"tsvlite">>>>, <<"usv", <<"usv", "usvlite">>>>, <<"xtab", <<"xtab">>>>, <<"yaml", <<"yaml">>>> >>
StemOf(f) == (CHOOSE k \in 1..Len(Stems) : Stems[k][1] = f)
FirstStem(f) == Stems[StemOf(f)][2][1]
IFlag(f) == "--i" \o FirstStem(f)
OFlag(f) == "--o" \o FirstStem(f)

\* "-i {format name}: ... `-i csv` is the same as `--icsv`"; "`--io csv` is the same as `--csv`".  The format names
\* are those of the table "Default separators by format" (minus the input-only pseudo-format gen and dkvpx, which
\* has no --idkvpx), plus jsonl ("-i yaml / -o yaml", "-i recutils / -o recutils" are spelled out in file-formats.md).
FormatNames == <<"csv", "csvlite", "dcf", "dkvp", "json", "jsonl", "markdown", "nidx", "pprint", "recutils", "tsv", "xtab", "yaml">>

(***************************************************************************)
(* Documented equalities between formats:                                    *)
(*  "TSV-lite is simply CSV-lite with the field separator set to tab";       *)
(*  "ASV and USV are nothing more than CSV-lite with different values for FS *)
(*  and RS": "ASCII FS and RS 0x1f and 0x1e", "Unicode FS and RS U+241F      *)
(*  (UTF-8 0xe2909f) and U+241E (UTF-8 0xe2909e)" -- the aliases asv_fs,      *)
(*  asv_rs, usv_fs, usv_rs.   <<format, <<role, alias>>, ...>>                *)
(***************************************************************************)
LiteFamily == <<
  <<"tsvlite", <<<<"fs", "tab">>>>>>,
  <<"asv", <<<<"fs", "asv_fs">>, <<"rs", "asv_rs">>>>>>,
  <<"usv", <<<<"fs", "usv_fs">>, <<"rs", "usv_rs">>>>>> >>

(***************************************************************************)
(* Separator aliases ("you can use any of the following names"), as printed. *)
(***************************************************************************)
Aliases == <<
  <<"ascii_esc", <<"\\x1b">>>>, <<"ascii_etx", <<"\\x03">>>>, <<"ascii_fs", <<"\\x1c">>>>, <<"ascii_gs", <<"\\x1d">>>>,
  <<"ascii_null", <<"\\x00">>>>, <<"ascii_rs", <<"\\x1e">>>>, <<"ascii_soh", <<"\\x01">>>>, <<"ascii_stx", <<"\\x02">>>>,
  <<"ascii_us", <<"\\x1f">>>>, <<"asv_fs", <<"\\x1f">>>>, <<"asv_rs", <<"\\x1e">>>>, <<"colon", <<":">>>>,
  <<"comma", <<",">>>>, <<"cr", <<"\\r">>>>, <<"crcr", <<"\\r", "\\r">>>>, <<"crlf", <<"\\r", "\\n">>>>,
  <<"crlfcrlf", <<"\\r", "\\n", "\\r", "\\n">>>>, <<"equals", <<"=">>>>, <<"lf", <<"\\n">>>>, <<"lflf", <<"\\n", "\\n">>>>,
  <<"newline", <<"\\n">>>>, <<"pipe", <<"|">>>>, <<"semicolon", <<";">>>>, <<"slash", <<"/">>>>, <<"space", <<" ">>>>,
  <<"tab", <<"\\t">>>>, <<"usv_fs", <<"\\xe2", "\\x90", "\\x9f">>>>, <<"usv_rs", <<"\\xe2", "\\x90", "\\x9e">>>> >>
AliasValue(a) == Aliases[CHOOSE k \in 1..Len(Aliases) : Aliases[k][1] = a][2]
\* "Similarly, you can use the following for --ifs-regex and --ips-regex" (the value is typed as that regex)
RegexAliases == <<<<"spaces", "( )+">>, <<"tabs", "(\\t)+">>, <<"whitespace", "([ \\t])+">>>>

(* "Default separators by format": <<format, FS, PS, RS>>, N/A = <<>>; the rows dcf, json, recutils, yaml are  *)
(* all N/A, gen is an input-only generator.                                                                  *)
Defaults == <<
  <<"csv", <<",">>, <<>>, <<"\\n">>>>, <<"csvlite", <<",">>, <<>>, <<"\\n">>>>, <<"dkvp", <<",">>, <<"=">>, <<"\\n">>>>,
  <<"dkvpx", <<",">>, <<"=">>, <<"\\n">>>>, <<"markdown", <<" ">>, <<>>, <<"\\n">>>>, <<"nidx", <<" ">>, <<>>, <<"\\n">>>>,
  <<"pprint", <<" ">>, <<>>, <<"\\n">>>>, <<"tsv", <<"\\t">>, <<>>, <<"\\n">>>>, <<"xtab", <<"\\n">>, <<" ">>, <<"\\n", "\\n">>>> >>

(* "Legacy flags": "These are flags which don't do anything in the current Miller version. They are accepted   *)
(* as no-op flags in order to keep old scripts from breaking."                                               *)
Legacy == <<"--jknquoteint", "--jquoteall", "--json-fatal-arrays-on-input", "--json-map-arrays-on-input",
            "--json-skip-arrays-on-input", "--jsonx", "--mmap", "--no-mmap", "--ojsonx", "--quote-minimal", "--quote-none",
            "--quote-numeric", "--quote-original", "--vflatsep">>

(***************************************************************************)
(* The table of spellings.  An entry says: running mlr with the options      *)
(* `argv` (and the .mlrrc files `rc`) is the same as running it with `exp`   *)
(* and no .mlrrc; it reads format `in` and writes format `out`.              *)
(*   isep / osep: the <<FS, PS, RS>> atoms of the probe text / of the text   *)
(*       written, when they are not the format's defaults (<<>> = defaults)  *)
(*   rd:  extra reader options needed to read the output back                *)
(*   hdr: FALSE = the probe text has no header line                          *)
(*   probe: "named" (keys a, b), "pos" (keys 1, 2), "nested" (a map value)   *)
(*   sep: the flatten separator in force                                     *)
(*   bare: for a flag that is one token spelled --<bare>: <bare>, else ""    *)
(***************************************************************************)
E(grp, argv, exp, in, out) ==
  [grp |-> grp, rc |-> <<>>, argv |-> argv, exp |-> exp, in |-> in, out |-> out, isep |-> <<>>, osep |-> <<>>,
   rd |-> <<>>, hdr |-> TRUE, probe |-> IF "nidx" \in {in, out} THEN "pos" ELSE "named", sep |-> <<".">>, bare |-> ""]
DD(grp, bare, exp, in, out) == [E(grp, <<T("--" \o bare)>>, exp, in, out) EXCEPT !.bare = bare]
InOut(f) == <<T(IFlag(f)), T(OFlag(f))>>

Savers ==
  {DD("saver", Matrix[c[1]][c[2]], <<T(IFlag(RowHeads[c[1]])), T(OFlag(ColHeads[c[2]]))>>, RowHeads[c[1]], ColHeads[c[2]]) :
      c \in {cc \in (1..Len(RowHeads)) \X (1..Len(ColHeads)) : Matrix[cc[1]][cc[2]] # ""}}
  \cup {E("saver", <<T("-" \o DiagonalShort[k][1])>>, InOut(DiagonalShort[k][2]), DiagonalShort[k][2], DiagonalShort[k][2]) :
          k \in 1..Len(DiagonalShort)}
  \cup {[DD("saver", Barred[k][1], <<T(IFlag(Barred[k][2])), T("--opprint"), T("--barred")>>, Barred[k][2], "pprint")
           EXCEPT !.rd = <<"--barred-input">>] : k \in 1..Len(Barred)}
  \* "-p is a keystroke-saver for --nidx --fs space --repifs";  "-T is a keystroke-saver for --nidx --fs tab"
  \cup {[E("saver", <<T("-p")>>, Ts(<<"--nidx", "--fs", "space", "--repifs">>), "nidx", "nidx")
           EXCEPT !.isep = <<<<" ", " ">>, <<>>, <<"\\n">>>>],
        [E("saver", <<T("-T")>>, Ts(<<"--nidx", "--fs", "tab">>), "nidx", "nidx")
           EXCEPT !.isep = <<<<"\\t">>, <<>>, <<"\\n">>>>, !.osep = <<<<"\\t">>, <<>>, <<"\\n">>>>]}
  \* "-N: Keystroke-saver for --implicit-csv-header --headerless-csv-output"
  \cup {[E("saver", Ts(<<"--" \o FirstStem(g), "-N">>), Ts(<<"--" \o FirstStem(g), "--implicit-csv-header", "--headerless-csv-output">>), g, g)
           EXCEPT !.hdr = FALSE, !.probe = "pos", !.rd = <<"--implicit-csv-header">>] : g \in {"csv", "tsv", "csvlite"}}

FormatFlags ==
  UNION {(LET f == Stems[k][1]
              st == Stems[k][2]
          IN {DD("format", st[n], InOut(f), f, f) : n \in 1..Len(st)}
             \cup {DD("format", "i" \o st[n], <<T(IFlag(f))>>, f, "dkvp") : n \in 2..Len(st)}
             \cup {DD("format", "o" \o st[n], <<T(OFlag(f))>>, "dkvp", f) : n \in 2..Len(st)})
         : k \in 1..Len(Stems)}
  \* "--dkvpx: Use DKVPX format for input and output data" (no --idkvpx/--odkvpx in the list): "--io dkvpx"
  \cup {E("format", Ts(<<"--io", "dkvpx">>), <<T("--dkvpx")>>, "dkvpx", "dkvpx")}
  \* -i / -o / --io with a format name
  \cup {E("format", Ts(<<"-i", FormatNames[k]>>), <<T(IFlag(FormatNames[k]))>>, FormatNames[k], "dkvp") : k \in 1..Len(FormatNames)}
  \cup {E("format", Ts(<<"-o", FormatNames[k]>>), <<T(OFlag(FormatNames[k]))>>, "dkvp", FormatNames[k]) : k \in 1..Len(FormatNames)}
  \cup {E("format", Ts(<<"--io", FormatNames[k]>>), <<T("--" \o FirstStem(FormatNames[k]))>>, FormatNames[k], FormatNames[k]) :
          k \in 1..Len(FormatNames)}
  \cup {E("format", Ts(<<"-i", FormatNames[k], "-o", FormatNames[m]>>), <<T(IFlag(FormatNames[k])), T(OFlag(FormatNames[m]))>>,
          FormatNames[k], FormatNames[m]) : k \in 1..Len(FormatNames), m \in 1..Len(FormatNames)}
  \* the lite family: --tsvlite = --csvlite --fs tab, --iasv = --icsvlite --ifs asv_fs --irs asv_rs, ...
  \cup UNION {(LET f == LiteFamily[k][1]
                   ss == LiteFamily[k][2]
                   seps(side) == Ts(<<"--" \o side \o ss[1][1], ss[1][2]>>)
                                 \o (IF Len(ss) = 1 THEN <<>> ELSE Ts(<<"--" \o side \o ss[2][1], ss[2][2]>>))
               IN {DD("lite", FirstStem(f), <<T("--csvlite")>> \o seps(""), f, f),
                   DD("lite", "i" \o FirstStem(f), <<T("--icsvlite")>> \o seps("i"), f, "dkvp"),
                   DD("lite", "o" \o FirstStem(f), <<T("--ocsvlite")>> \o seps("o"), "dkvp", f)})
              : k \in 1..Len(LiteFamily)}

\* "A or B" spellings of one flag in the format-related sections of the flag list, each in a context where it has
\* a visible effect:  <<context options, first name, other name, in, out, hdr, probe, rd>>
Synonyms == <<
  <<<<"--icsv", "--ojson">>, "--implicit-csv-header", "--headerless-csv-input", "csv", "json", FALSE, "pos", <<>>>>,
  <<<<"--icsv", "--ojson">>, "--implicit-csv-header", "--hi", "csv", "json", FALSE, "pos", <<>>>>,
  <<<<"--itsv", "--ojson">>, "--implicit-csv-header", "--implicit-tsv-header", "tsv", "json", FALSE, "pos", <<>>>>,
  <<<<"--icsv", "--ocsv">>, "--headerless-csv-output", "--ho", "csv", "csv", TRUE, "pos", <<"--implicit-csv-header">>>>,
  <<<<"--icsv", "--otsv">>, "--headerless-csv-output", "--headerless-tsv-output", "csv", "tsv", TRUE, "pos", <<"--implicit-csv-header">>>>,
  <<<<"--icsv", "--ojson">>, "--allow-ragged-csv-input", "--ragged", "csv", "json", TRUE, "named", <<>>>>,
  <<<<"--icsv", "--ojson">>, "--allow-ragged-csv-input", "--allow-ragged-tsv-input", "csv", "json", TRUE, "named", <<>>>>,
  <<<<"--icsv", "--ojson", "--implicit-csv-header">>, "--no-implicit-csv-header", "--no-implicit-tsv-header", "csv", "json", TRUE, "named", <<>>>>,
  <<<<"--icsv", "--ojson", "--no-jlistwrap">>, "--jlistwrap", "--jl", "csv", "json", TRUE, "named", <<>>>>,
  <<<<"--icsv", "--opprint">>, "--barred", "--barred-output", "csv", "pprint", TRUE, "named", <<"--barred-input">>>>,
  <<<<"--icsv", "--oyaml", "--no-yarray">>, "--yarray", "--ya", "csv", "yaml", TRUE, "named", <<>>>>,
  <<<<"--icsv">>, "--omd-aligned", "--omarkdown-aligned", "csv", "markdown", TRUE, "named", <<>>>>,
  <<<<>>, "--md-aligned", "--markdown-aligned", "markdown", "markdown", TRUE, "named", <<>>>> >>
SynonymEntries ==
  {[E("synonym", Ts(Synonyms[k][1]) \o <<T(Synonyms[k][3])>>, Ts(Synonyms[k][1]) \o <<T(Synonyms[k][2])>>, Synonyms[k][4], Synonyms[k][5])
      EXCEPT !.hdr = Synonyms[k][6], !.probe = Synonyms[k][7], !.rd = Synonyms[k][8]] : k \in 1..Len(Synonyms)}
  \* "--omd-aligned ... Implies --omd", "--md-aligned ... Implies --md"
  \cup {E("synonym", Ts(<<"--icsv", "--omd-aligned">>), Ts(<<"--icsv", "--omd", "--omd-aligned">>), "csv", "markdown"),
        E("synonym", Ts(<<"--md-aligned">>), Ts(<<"--md", "--md-aligned">>), "markdown", "markdown")}
  \* JSON-only flags: "--jvstack ... This is the default for JSON output format", "--jlistwrap ... default for JSON output",
  \* "--no-jlistwrap / --no-jvstack ... This is the default for JSON Lines output format", "--yarray ... default for YAML"
  \cup {E("default", Ts(<<"--ojson">>), Ts(<<"--ojson", "--jvstack", "--jlistwrap">>), "dkvp", "json"),
        E("default", Ts(<<"--ojsonl">>), Ts(<<"--ojsonl", "--no-jvstack", "--no-jlistwrap">>), "dkvp", "jsonl"),
        E("default", Ts(<<"--ojsonl">>), Ts(<<"--ojson", "--no-jvstack", "--no-jlistwrap">>), "dkvp", "jsonl"),
        E("default", Ts(<<"--oyaml">>), Ts(<<"--oyaml", "--yarray">>), "dkvp", "yaml"),
        E("default", Ts(<<"--icsv", "--ojson">>), Ts(<<"--icsv", "--ojson", "--no-implicit-csv-header">>), "csv", "json")}
  \* flatten separator: "--flatsep or --jflatsep"; "Defaults to ."
  \cup {[E("synonym", Ts(<<"--ijson", "--ocsv", "--jflatsep", ":">>), Ts(<<"--ijson", "--ocsv", "--flatsep", ":">>), "json", "csv")
           EXCEPT !.probe = "nested", !.sep = <<":">>],
        [E("default", Ts(<<"--ijson", "--ocsv">>), Ts(<<"--ijson", "--ocsv", "--flatsep", ".">>), "json", "csv") EXCEPT !.probe = "nested"]}
  \* legacy no-ops
  \cup {E("legacy", Ts(<<"--icsv", "--ojson", Legacy[k]>>), Ts(<<"--icsv", "--ojson">>), "csv", "json") : k \in 1..Len(Legacy)}
  \cup {E("legacy", Ts(<<Legacy[k]>>), <<>>, "dkvp", "dkvp") : k \in 1..Len(Legacy)}

(***************************************************************************)
(* Named separators.  `--ifs semicolon` is the same as `--ifs ';'`: for every *)
(* alias, in every role (FS, PS, RS) and on every side (--ifs, --ofs, --fs), *)
(* against the value typed out as bytes and typed as the escape sequence the *)
(* alias list prints.  The probe is DKVP ("the fields are separated by a     *)
(* comma, the key-value pairs by =, and each record from the next by a       *)
(* newline"); the two other separators keep their defaults unless the value  *)
(* under test shares an atom with them, then a spare one is taken.           *)
(***************************************************************************)
Disjoint(x, y) == Range(x) \cap Range(y) = {}
Roles == {"fs", "ps", "rs"}
DkvpDefault == [r \in Roles |-> CASE r = "fs" -> <<",">> [] r = "ps" -> <<"=">> [] r = "rs" -> <<"\\n">>]
Spare == [r \in Roles |-> CASE r = "fs" -> <<";">> [] r = "ps" -> <<":">> [] r = "rs" -> <<"|">>]
SepsFor(role, val) ==
  [r \in Roles |-> IF r = role THEN val ELSE IF Disjoint(DkvpDefault[r], val) THEN DkvpDefault[r] ELSE Spare[r]]
Triple(f) == <<f["fs"], f["ps"], f["rs"]>>
\* options that set the non-default other separators (typed as escapes), on side "i", "o" or ""
Others(side, role, seps) ==
  LET one(r) == IF r # role /\ seps[r] # DkvpDefault[r] THEN <<T("--" \o side \o r), Esc(seps[r])>> ELSE <<>>
  IN one("fs") \o one("ps") \o one("rs")
HasNul(val) == "\\x00" \in Range(val)
Printable(val) == \A i \in 1..Len(val) : Len(val[i]) = 1

AliasEntries ==
  UNION {UNION {(LET a == Aliases[k][1]
                     val == Aliases[k][2]
                     seps == SepsFor(role, val)
                     base(side, tok) == Others(side, role, seps) \o <<T("--" \o side \o role), tok>>
                     ent(side, form) ==
                       [E("alias", base(side, T(a)), base(side, IF form = "raw" THEN Raw(val) ELSE Esc(val)), "dkvp", "dkvp")
                          EXCEPT !.isep = IF side = "o" THEN <<>> ELSE Triple(seps), !.osep = IF side = "i" THEN <<>> ELSE Triple(seps)]
                 IN {ent(side, form) : side \in {"i", "o", ""},
                                       form \in (IF HasNul(val) THEN {} ELSE {"raw"}) \cup (IF Printable(val) THEN {} ELSE {"esc"})})
                : role \in Roles}
         : k \in 1..Len(Aliases)}
  \* "--ifs semicolon" for CSV, "--ifs comma" for NIDX ("Headerless CSV overlaps quite a bit with NIDX format using comma for IFS"),
  \* "--ofs pipe" for CSV (the example of reference-main-separators.md), tab for NIDX
  \cup {[E("alias", Ts(<<"--icsv", "--ojson", "--ifs", "semicolon">>), <<T("--icsv"), T("--ojson"), T("--ifs"), Raw(<<";">>)>>, "csv", "json")
           EXCEPT !.isep = <<<<";">>, <<>>, <<"\\n">>>>],
        [E("alias", Ts(<<"--csv", "--ofs", "pipe">>), <<T("--csv"), T("--ofs"), Raw(<<"|">>)>>, "csv", "csv")
           EXCEPT !.osep = <<<<"|">>, <<>>, <<"\\n">>>>],
        [E("alias", Ts(<<"--inidx", "--ojson", "--ifs", "comma">>), <<T("--inidx"), T("--ojson"), T("--ifs"), Raw(<<",">>)>>, "nidx", "json")
           EXCEPT !.isep = <<<<",">>, <<>>, <<"\\n">>>>],
        [E("alias", Ts(<<"--inidx", "--ojson", "--ifs", "tab">>), <<T("--inidx"), T("--ojson"), T("--ifs"), Raw(<<"\\t">>)>>, "nidx", "json")
           EXCEPT !.isep = <<<<"\\t">>, <<>>, <<"\\n">>>>]}
  \* regex aliases: "--ifs-regex spaces" is "--ifs-regex '( )+'"
  \cup {[E("alias", Ts(<<"--inidx", "--ojson", "--ifs-regex", RegexAliases[k][1]>>), Ts(<<"--inidx", "--ojson", "--ifs-regex", RegexAliases[k][2]>>), "nidx", "json")
           EXCEPT !.isep = <<IF RegexAliases[k][1] = "tabs" THEN <<"\\t", "\\t">> ELSE <<" ", " ">>, <<>>, <<"\\n">>>>] : k \in 1..Len(RegexAliases)}
  \cup {[E("alias", Ts(<<"--idkvp", "--ojson", "--ips-regex", RegexAliases[k][1]>>), Ts(<<"--idkvp", "--ojson", "--ips-regex", RegexAliases[k][2]>>), "dkvp", "json")
           EXCEPT !.isep = <<<<",">>, IF RegexAliases[k][1] = "tabs" THEN <<"\\t", "\\t">> ELSE <<" ", " ">>, <<"\\n">>>>] : k \in 1..Len(RegexAliases)}

(* Saying the default separator of a format explicitly changes nothing.  Not claimed where the text qualifies the *)
(* table: XTAB ("IRS/ORS are ignored ... XTAB's default IFS/OFS are auto", input PS is "space with repeats"),      *)
(* markdown ("FS/PS are ignored"), PPRINT input ("space with repeats"); dkvpx has no one-sided flags.               *)
DefaultEntries ==
  UNION {(LET f == Defaults[k][1]
              role(n) == <<"fs", "ps", "rs">>[n]
              given(n) == Defaults[k][n + 1] # <<>> /\ f # "dkvpx"
              claimedIn(n) == given(n) /\ f # "xtab" /\ ~(f = "markdown" /\ n < 3) /\ ~(f = "pprint" /\ n = 1)
              claimedOut(n) == given(n) /\ ~(f = "xtab" /\ n # 2) /\ ~(f = "markdown" /\ n < 3)
          IN {E("sepdefault", <<T(IFlag(f))>>, <<T(IFlag(f)), T("--i" \o role(n)), Esc(Defaults[k][n + 1])>>, f, "dkvp") : n \in {m \in 1..3 : claimedIn(m)}}
             \cup {E("sepdefault", <<T(OFlag(f))>>, <<T(OFlag(f)), T("--o" \o role(n)), Esc(Defaults[k][n + 1])>>, "dkvp", f) : n \in {m \in 1..3 : claimedOut(m)}})
         : k \in 1..Len(Defaults)}

(***************************************************************************)
(* .mlrrc (customization.md).  "one flag beginning with -- per line";        *)
(* "you can leave off the initial --"; "Comments are from a # to the end of  *)
(* the line"; "Empty lines are ignored -- including lines which are empty    *)
(* after comments are removed".  The settings are defaults: "mlr --json ...  *)
(* at the command line will still override the defaults".  Locations: $MLRRC *)
(* ("__none__": nothing is processed; otherwise only that file), else        *)
(* $HOME/.mlrrc, then $XDG_CONFIG_HOME/miller/mlrrc (default                 *)
(* $HOME/.config/miller/mlrrc), then ./.mlrrc, "letting them stack";         *)
(* --norc.  Profiles: "[name]" sections selected by --profile / -P.           *)
(* rc is a sequence of <<where, lines>>.                                     *)
(***************************************************************************)
MlrrcEntries ==
  \* every format flag and keystroke-saver that is a single --token, as a line with and without the leading "--"
  {[e EXCEPT !.grp = "mlrrc", !.rc = <<<<"env", <<"--" \o e.bare>>>>>>, !.exp = e.argv, !.argv = <<>>] : e \in {x \in Savers \cup FormatFlags : x.bare # ""}}
  \cup {[e EXCEPT !.grp = "mlrrc", !.rc = <<<<"env", <<e.bare>>>>>>, !.exp = e.argv, !.argv = <<>>] : e \in {x \in Savers \cup FormatFlags : x.bare # ""}}

RcCase(rc, argv, exp, in, out) == [E("mlrrc", Ts(argv), Ts(exp), in, out) EXCEPT !.rc = rc]
SemiDkvp == <<<<";">>, <<"=">>, <<"\\n">>>>
ProfileFile == <<"icsv", "", "[j]", "ojson", "jvstack", "", "[tsvout]", "otsv">>
MlrrcForms ==
  {\* the sample file of the documentation, cut to its format-related lines
   RcCase(<<<<"env", <<"# Input and output formats are CSV by default (unless otherwise specified", "# on the mlr command line):", "csv", "",
                       "# These are no-ops for CSV, but when I do use JSON output, I want these", "# pretty-printing options to be used:",
                       "jvstack", "jlistwrap">>>>>>, <<>>, <<"--csv", "--jvstack", "--jlistwrap">>, "csv", "csv"),
   RcCase(<<<<"env", <<"icsv", "ojson">>>>>>, <<>>, <<"--icsv", "--ojson">>, "csv", "json"),
   RcCase(<<<<"env", <<"--icsv", "ojson">>>>>>, <<>>, <<"--icsv", "--ojson">>, "csv", "json"),
   RcCase(<<<<"env", <<"icsv # reads CSV", "", "#ojson", "oxtab#writes XTAB">>>>>>, <<>>, <<"--icsv", "--oxtab">>, "csv", "xtab"),
   RcCase(<<<<"env", <<"", "#", "c2p", "">>>>>>, <<>>, <<"--c2p">>, "csv", "pprint"),
   \* an option with its value on the line: "nr-progress-mod 1000 is the same as --nr-progress-mod 1000"
   [RcCase(<<<<"env", <<"ojson", "ifs semicolon">>>>>>, <<>>, <<"--ojson", "--ifs", "semicolon">>, "dkvp", "json") EXCEPT !.isep = SemiDkvp],
   [RcCase(<<<<"env", <<"ojson", "--ifs semicolon">>>>>>, <<>>, <<"--ojson", "--ifs", "semicolon">>, "dkvp", "json") EXCEPT !.isep = SemiDkvp],
   [RcCase(<<<<"env", <<"ojson", "ifs ;">>>>>>, <<>>, <<"--ojson", "--ifs", ";">>, "dkvp", "json") EXCEPT !.isep = SemiDkvp],
   RcCase(<<<<"env", <<"io json">>>>>>, <<>>, <<"--io", "json">>, "json", "json"),
   [RcCase(<<<<"env", <<"ijson", "ocsv", "flatsep :">>>>>>, <<>>, <<"--ijson", "--ocsv", "--flatsep", ":">>, "json", "csv")
      EXCEPT !.probe = "nested", !.sep = <<":">>],
   \* the command line overrides the defaults of the file
   RcCase(<<<<"env", <<"csv">>>>>>, <<"--ojson">>, <<"--csv", "--ojson">>, "csv", "json"),
   RcCase(<<<<"env", <<"csv">>>>>>, <<"--json">>, <<"--csv", "--json">>, "json", "json"),
   RcCase(<<<<"env", <<"c2p">>>>>>, <<"--c2j">>, <<"--c2p", "--c2j">>, "csv", "json"),
   RcCase(<<<<"env", <<"icsv", "ojson">>>>>>, <<"--oxtab">>, <<"--icsv", "--ojson", "--oxtab">>, "csv", "xtab"),
   \* locations
   RcCase(<<<<"home", <<"c2j">>>>>>, <<>>, <<"--c2j">>, "csv", "json"),
   RcCase(<<<<"cwd", <<"c2j">>>>>>, <<>>, <<"--c2j">>, "csv", "json"),
   RcCase(<<<<"xdg", <<"c2j">>>>>>, <<>>, <<"--c2j">>, "csv", "json"),
   RcCase(<<<<"xdgdefault", <<"c2j">>>>>>, <<>>, <<"--c2j">>, "csv", "json"),
   \* "current-directory .mlrrc defaults are stacked over home-directory .mlrrc defaults"
   RcCase(<<<<"home", <<"icsv", "ojson">>>>, <<"cwd", <<"oxtab">>>>>>, <<>>, <<"--icsv", "--ojson", "--oxtab">>, "csv", "xtab"),
   RcCase(<<<<"home", <<"icsv", "ojson">>>>, <<"xdg", <<"opprint">>>>, <<"cwd", <<"itsv">>>>>>, <<>>, <<"--icsv", "--ojson", "--opprint", "--itsv">>, "tsv", "pprint"),
   \* "Any .mlrrc in your home directory, XDG config directory, or current directory is ignored whenever MLRRC is set"
   RcCase(<<<<"home", <<"ojson">>>>, <<"cwd", <<"oxtab">>>>, <<"env", <<"icsv">>>>>>, <<>>, <<"--icsv">>, "csv", "dkvp"),
   RcCase(<<<<"home", <<"ojson">>>>, <<"cwd", <<"oxtab">>>>, <<"envnone", <<>>>>>>, <<>>, <<>>, "dkvp", "dkvp"),
   \* --norc
   RcCase(<<<<"home", <<"ojson">>>>, <<"cwd", <<"oxtab">>>>>>, <<"--norc">>, <<>>, "dkvp", "dkvp"),
   RcCase(<<<<"env", <<"ojson">>>>>>, <<"--norc", "--icsv">>, <<"--icsv">>, "csv", "dkvp"),
   \* profiles: global settings first, then the selected section; without --profile the sections are ignored
   RcCase(<<<<"env", ProfileFile>>>>, <<>>, <<"--icsv">>, "csv", "dkvp"),
   RcCase(<<<<"env", ProfileFile>>>>, <<"-P", "j">>, <<"--icsv", "--ojson", "--jvstack">>, "csv", "json"),
   RcCase(<<<<"env", ProfileFile>>>>, <<"--profile", "tsvout">>, <<"--icsv", "--otsv">>, "csv", "tsv"),
   RcCase(<<<<"env", <<"icsv", "[ j ] # the JSON profile", "ojson", "[k]", "oxtab", "[j]", "no-jvstack">>>>>>, <<"--profile", "j">>,
          <<"--icsv", "--ojson", "--no-jvstack">>, "csv", "json"),
   RcCase(<<<<"home", <<"icsv", "[j]", "ojson">>>>, <<"cwd", <<"[k]", "oxtab">>>>>>, <<"-P", "j">>, <<"--icsv", "--ojson">>, "csv", "json")}

Entries == Savers \cup FormatFlags \cup SynonymEntries \cup AliasEntries \cup DefaultEntries \cup MlrrcEntries \cup MlrrcForms
=============================================================================
