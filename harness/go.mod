module verif/harness

go 1.25.0

require github.com/johnkerl/miller/v6 v6.0.0

replace github.com/johnkerl/miller/v6 => /repo
