// runner executes many command-line cases in parallel and reports what each
// did. It knows nothing about Miller: it writes the files a case lists,
// runs argv under a timeout, and records stdout, stderr, exit status and the
// files left behind.
//
// usage: runner [-j N] cases.ndjson results.ndjson
package main

import (
	"bufio"
	"bytes"
	"context"
	"encoding/base64"
	"encoding/json"
	"flag"
	"fmt"
	"os"
	"os/exec"
	"path/filepath"
	"sort"
	"sync"
	"syscall"
	"time"
)

type Case struct {
	ID        any               `json:"id"`
	Argv      []string          `json:"argv"`
	Stdin     string            `json:"stdin"`
	StdinB64  string            `json:"stdin_b64"`
	Files     map[string]string `json:"files"`
	FilesB64  map[string]string `json:"files_b64"`
	Modes     map[string]uint32 `json:"modes"`
	Env       map[string]string `json:"env"`
	TimeoutMs int               `json:"timeout_ms"`
	Collect   bool              `json:"collect"` // report files in the case directory afterwards
	B64       bool              `json:"b64"`     // report stdout/files base64-encoded too
	Shell     string            `json:"shell"`   // if set, run via /bin/sh -c instead of argv
	KeepDir   bool              `json:"keep_dir"`
	MaxOut    int               `json:"max_out"`
}

type Result struct {
	ID        any               `json:"id"`
	Stdout    string            `json:"stdout"`
	StdoutB64 string            `json:"stdout_b64,omitempty"`
	Stderr    string            `json:"stderr"`
	Exit      int               `json:"exit"`
	Signal    string            `json:"signal,omitempty"`
	TimedOut  bool              `json:"timed_out"`
	Files     map[string]string `json:"files,omitempty"`
	FilesB64  map[string]string `json:"files_b64,omitempty"`
	Modes     map[string]uint32 `json:"modes,omitempty"`
	Dir       string            `json:"dir,omitempty"`
	WallMs    int64             `json:"wall_ms"`
	Err       string            `json:"err,omitempty"`
	Truncated bool              `json:"truncated,omitempty"`
}

type capWriter struct {
	buf   bytes.Buffer
	max   int
	trunc bool
}

func (w *capWriter) Write(p []byte) (int, error) {
	room := w.max - w.buf.Len()
	if room <= 0 {
		w.trunc = true
		return len(p), nil
	}
	if len(p) > room {
		w.buf.Write(p[:room])
		w.trunc = true
		return len(p), nil
	}
	w.buf.Write(p)
	return len(p), nil
}

func runCase(c *Case, scratch string, idx int) Result {
	res := Result{ID: c.ID}
	dir, err := os.MkdirTemp(scratch, fmt.Sprintf("c%d-", idx))
	if err != nil {
		res.Err = err.Error()
		res.Exit = -1
		return res
	}
	if c.KeepDir {
		res.Dir = dir
	} else {
		defer os.RemoveAll(dir)
	}
	write := func(name string, data []byte) error {
		p := filepath.Join(dir, name)
		if err := os.MkdirAll(filepath.Dir(p), 0755); err != nil {
			return err
		}
		return os.WriteFile(p, data, 0644)
	}
	for name, content := range c.Files {
		if err := write(name, []byte(content)); err != nil {
			res.Err = err.Error()
			res.Exit = -1
			return res
		}
	}
	for name, content := range c.FilesB64 {
		data, err := base64.StdEncoding.DecodeString(content)
		if err == nil {
			err = write(name, data)
		}
		if err != nil {
			res.Err = err.Error()
			res.Exit = -1
			return res
		}
	}
	for name, mode := range c.Modes {
		_ = os.Chmod(filepath.Join(dir, name), os.FileMode(mode))
	}
	timeout := time.Duration(c.TimeoutMs) * time.Millisecond
	if timeout == 0 {
		timeout = 10 * time.Second
	}
	ctx, cancel := context.WithTimeout(context.Background(), timeout)
	defer cancel()
	var cmd *exec.Cmd
	if c.Shell != "" {
		cmd = exec.CommandContext(ctx, "/bin/sh", "-c", c.Shell)
	} else {
		cmd = exec.CommandContext(ctx, c.Argv[0], c.Argv[1:]...)
	}
	cmd.Dir = dir
	cmd.SysProcAttr = &syscall.SysProcAttr{Setpgid: true}
	cmd.Cancel = func() error {
		return syscall.Kill(-cmd.Process.Pid, syscall.SIGKILL)
	}
	cmd.WaitDelay = 2 * time.Second
	env := os.Environ()
	for k, v := range c.Env {
		env = append(env, k+"="+v)
	}
	cmd.Env = env
	if c.StdinB64 != "" {
		data, _ := base64.StdEncoding.DecodeString(c.StdinB64)
		cmd.Stdin = bytes.NewReader(data)
	} else {
		cmd.Stdin = bytes.NewReader([]byte(c.Stdin))
	}
	max := c.MaxOut
	if max == 0 {
		max = 4 << 20
	}
	stdout := &capWriter{max: max}
	stderr := &capWriter{max: 64 << 10}
	cmd.Stdout = stdout
	cmd.Stderr = stderr
	t0 := time.Now()
	err = cmd.Run()
	res.WallMs = time.Since(t0).Milliseconds()
	res.Stdout = stdout.buf.String()
	res.Stderr = stderr.buf.String()
	res.Truncated = stdout.trunc
	if c.B64 {
		res.StdoutB64 = base64.StdEncoding.EncodeToString(stdout.buf.Bytes())
	}
	if ctx.Err() == context.DeadlineExceeded {
		res.TimedOut = true
	}
	if err != nil {
		if ee, ok := err.(*exec.ExitError); ok {
			res.Exit = ee.ExitCode()
			if ws, ok := ee.Sys().(syscall.WaitStatus); ok && ws.Signaled() {
				res.Signal = ws.Signal().String()
			}
		} else {
			res.Exit = -1
			res.Err = err.Error()
		}
	}
	if c.Collect {
		res.Files = map[string]string{}
		res.Modes = map[string]uint32{}
		if c.B64 {
			res.FilesB64 = map[string]string{}
		}
		_ = filepath.Walk(dir, func(p string, info os.FileInfo, err error) error {
			if err != nil || info.IsDir() {
				return nil
			}
			rel, _ := filepath.Rel(dir, p)
			data, rerr := os.ReadFile(p)
			if rerr != nil {
				return nil
			}
			if len(data) > max {
				data = data[:max]
			}
			res.Files[rel] = string(data)
			res.Modes[rel] = uint32(info.Mode().Perm())
			if c.B64 {
				res.FilesB64[rel] = base64.StdEncoding.EncodeToString(data)
			}
			return nil
		})
	}
	return res
}

func main() {
	jobs := flag.Int("j", 16, "parallel workers")
	scratch := flag.String("scratch", "", "scratch directory (default: alongside results)")
	flag.Parse()
	if flag.NArg() != 2 {
		fmt.Fprintln(os.Stderr, "usage: runner [-j N] cases.ndjson results.ndjson")
		os.Exit(2)
	}
	in, err := os.Open(flag.Arg(0))
	if err != nil {
		fmt.Fprintln(os.Stderr, err)
		os.Exit(2)
	}
	defer in.Close()
	if *scratch == "" {
		*scratch = filepath.Join(filepath.Dir(flag.Arg(1)), "runner-scratch")
	}
	if err := os.MkdirAll(*scratch, 0755); err != nil {
		fmt.Fprintln(os.Stderr, err)
		os.Exit(2)
	}
	var cases []*Case
	sc := bufio.NewScanner(in)
	sc.Buffer(make([]byte, 1<<20), 256<<20)
	for sc.Scan() {
		line := bytes.TrimSpace(sc.Bytes())
		if len(line) == 0 {
			continue
		}
		c := &Case{}
		if err := json.Unmarshal(line, c); err != nil {
			fmt.Fprintln(os.Stderr, "bad case line:", err)
			os.Exit(2)
		}
		cases = append(cases, c)
	}
	results := make([]Result, len(cases))
	var wg sync.WaitGroup
	ch := make(chan int)
	for w := 0; w < *jobs; w++ {
		wg.Add(1)
		go func() {
			defer wg.Done()
			for i := range ch {
				results[i] = runCase(cases[i], *scratch, i)
			}
		}()
	}
	for i := range cases {
		ch <- i
	}
	close(ch)
	wg.Wait()
	out, err := os.Create(flag.Arg(1))
	if err != nil {
		fmt.Fprintln(os.Stderr, err)
		os.Exit(2)
	}
	bw := bufio.NewWriterSize(out, 1<<20)
	enc := json.NewEncoder(bw)
	enc.SetEscapeHTML(false)
	for i := range results {
		_ = enc.Encode(&results[i])
	}
	bw.Flush()
	out.Close()
	_ = sort.Strings
	_ = os.Remove(*scratch)
}
