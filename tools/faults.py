"""Black-box fault scenarios for C17. Each scenario is a situation in which processing certainly cannot
complete (the fault is constructed, not guessed), so the property itself is the oracle: non-zero exit and
a diagnostic on stderr; a hang or a crash is a violation too. No Miller semantics here."""
import base64
import gzip
import io
import zlib


def _half(b):
    return b[:len(b) // 2]


def _b64(b):
    return base64.b64encode(b).decode()


def scenarios(mlr):
    recs = "".join("a=%d,b=%d\n" % (i, i * i) for i in range(1, 21))
    csv = "a,b\n" + "".join("%d,%d\n" % (i, i * i) for i in range(1, 21))
    json_good = "[\n" + ",\n".join('{"a": %d, "b": %d}' % (i, i * i) for i in range(1, 21)) + "\n]\n"
    gz = gzip.compress((recs * 200).encode())
    zl = zlib.compress((recs * 200).encode())
    S = []

    def add(name, argv, files=None, files_b64=None, shell=None, setup_dirs=None, key=None):
        S.append({"name": name, "argv": argv, "files": files or {}, "files_b64": files_b64 or {}, "shell": shell,
                  "key": key or name})

    # --- unreadable / missing inputs
    add("missing-file-only", ["cat", "nope.dkvp"])
    add("missing-file-first", ["cat", "nope.dkvp", "in.dkvp"], {"in.dkvp": recs})
    add("missing-file-last", ["cat", "in.dkvp", "nope.dkvp"], {"in.dkvp": recs})
    add("missing-file-middle-head", ["head", "-n", "1", "in.dkvp", "nope.dkvp", "in.dkvp"], {"in.dkvp": recs})
    add("missing-file-tac", ["tac", "in.dkvp", "nope.dkvp"], {"in.dkvp": recs})
    add("missing-file-csv", ["--icsv", "--ojson", "cat", "in.csv", "nope.csv"], {"in.csv": csv})
    add("missing-file-json", ["--json", "cat", "nope.json", "in.json"], {"in.json": json_good})
    add("missing-file-nothing", ["nothing", "nope.dkvp"])
    add("missing-from", ["--from", "nope.dkvp", "cat"])
    add("input-is-directory", ["cat", "d/"], {"d/x": "a=1\n"})
    add("input-is-directory-csv", ["--icsv", "--ojson", "cat", "d/"], {"d/x": "a=1\n"})
    add("input-is-directory-json", ["--json", "cat", "d/"], {"d/x": "a=1\n"})
    add("truncated-gz-dkvp", ["cat", "in.dkvp.gz"], files_b64={"in.dkvp.gz": _b64(gz[:len(gz) // 2])})
    add("truncated-gz-flag", ["--gzin", "cat", "in.bin"], files_b64={"in.bin": _b64(gz[:len(gz) // 2])})
    add("truncated-gz-csv", ["--icsv", "--ojson", "cat", "in.csv.gz"],
        files_b64={"in.csv.gz": _b64(_half(gzip.compress((csv * 50).encode())))})
    add("truncated-gz-json", ["--ijsonl", "--ojson", "cat", "in.json.gz"],
        files_b64={"in.json.gz": _b64(_half(gzip.compress(('{"a":1}\n' * 5000).encode())))})
    add("truncated-zlib", ["cat", "in.dkvp.z"], files_b64={"in.dkvp.z": _b64(zl[:len(zl) // 2])})
    add("not-gz-with-gzin", ["--gzin", "cat", "in.dkvp"], {"in.dkvp": recs})
    add("corrupt-bz2", ["cat", "in.dkvp.bz2"], files_b64={"in.dkvp.bz2": _b64(b"BZh91AY&SY" + b"\x00" * 40)})
    add("corrupt-zst", ["cat", "in.dkvp.zst"], files_b64={"in.dkvp.zst": _b64(b"\x28\xb5\x2f\xfd" + b"\xff" * 40)})
    add("prepipe-fails", ["--prepipe", "false <", "cat", "in.dkvp"], {"in.dkvp": recs})
    add("prepipe-missing-command", ["--prepipe", "/nonexistent/cmd", "cat", "in.dkvp"], {"in.dkvp": recs})

    # --- malformed input at several record positions
    for pos in (1, 2, 10, 20):
        rows = ["%d,%d" % (i, i * i) for i in range(1, 21)]
        rows[pos - 1] = rows[pos - 1] + ",extra"
        add("csv-ragged-row-%d" % pos, ["--icsv", "--ojson", "cat", "in.csv"], {"in.csv": "a,b\n" + "\n".join(rows) + "\n"},
            key="csv-ragged-row")
        add("csv-ragged-row-tac-%d" % pos, ["--icsv", "--ojson", "tac", "in.csv"], {"in.csv": "a,b\n" + "\n".join(rows) + "\n"},
            key="csv-ragged-row")
        add("tsv-ragged-row-%d" % pos, ["--itsv", "--ojson", "cat", "in.tsv"],
            {"in.tsv": "a\tb\n" + "\n".join(r.replace(",", "\t") for r in rows) + "\n"}, key="tsv-ragged-row")
        add("csvlite-ragged-row-%d" % pos, ["--icsvlite", "--ojson", "cat", "in.csv"],
            {"in.csv": "a,b\n" + "\n".join(rows) + "\n"}, key="csvlite-ragged-row")
        objs = ['{"a": %d, "b": %d}' % (i, i * i) for i in range(1, 21)]
        objs[pos - 1] = '{"a": %d, "b": }' % pos
        add("json-bad-value-%d" % pos, ["--json", "cat", "in.json"], {"in.json": "[\n" + ",\n".join(objs) + "\n]\n"},
            key="json-bad-value")
        add("jsonl-bad-value-%d" % pos, ["--ijsonl", "--ojson", "cat", "in.jsonl"], {"in.jsonl": "\n".join(objs) + "\n"},
            key="jsonl-bad-value")
        rows2 = ["%d,%d" % (i, i * i) for i in range(1, 21)]
        rows2[pos - 1] = '"%d,%d' % (pos, pos)
        add("csv-unterminated-quote-%d" % pos, ["--icsv", "--ojson", "cat", "in.csv"],
            {"in.csv": "a,b\n" + "\n".join(rows2) + "\n"}, key="csv-unterminated-quote")
    add("json-truncated", ["--json", "cat", "in.json"], {"in.json": json_good[:len(json_good) // 2]})
    add("json-scalar-toplevel", ["--json", "cat", "in.json"], {"in.json": "3\n"})
    add("json-array-of-scalars", ["--json", "cat", "in.json"], {"in.json": "[1,2,3]\n"})
    add("csv-data-without-header-lengths", ["--icsv", "--ojson", "cat", "in.csv"], {"in.csv": "a,b,c\n1,2\n"})
    add("pprint-barred-ragged", ["--ipprint", "--ojson", "cat", "in.txt"], {"in.txt": "a b c\n1 2\n"})
    add("xtab-ok-control", ["--ixtab", "--ojson", "cat", "nope.xtab"])
    add("markdown-missing-file", ["--imd", "--ojson", "cat", "nope.md"])

    # --- DSL run-time failures, main and end blocks, several chain positions
    for pos in (1, 2, 20):
        add("dsl-typegate-main-%d" % pos, ["put", 'NR == %d {int z = "x"}' % pos, "in.dkvp"], {"in.dkvp": recs}, key="dsl-typegate-main")
        add("dsl-typegate-second-verb-%d" % pos, ["cat", "then", "put", 'NR == %d {int z = "x"}' % pos, "then", "tac", "in.dkvp"],
            {"in.dkvp": recs}, key="dsl-typegate-main")
        add("dsl-typegate-after-head-%d" % pos, ["head", "-n", "20", "then", "put", 'NR == %d {str s = 1}' % pos, "in.dkvp"],
            {"in.dkvp": recs}, key="dsl-typegate-main")
    add("dsl-typegate-end", ["put", 'end {int z = "x"}', "in.dkvp"], {"in.dkvp": recs})
    add("dsl-typegate-end-q", ["put", "-q", 'end {map m = 1}', "in.dkvp"], {"in.dkvp": recs})
    add("dsl-typegate-begin", ["put", 'begin {int z = "x"}', "in.dkvp"], {"in.dkvp": recs})
    add("dsl-filter-non-boolean", ["filter", "$a . \"x\"", "in.dkvp"], {"in.dkvp": recs})
    add("dsl-func-return-type", ["put", 'func f(x): int { return "s" } $y = f($a)', "in.dkvp"], {"in.dkvp": recs})
    add("dsl-tee-unwritable", ["put", "-q", 'tee > "/nonexistent-dir/x.out", $*', "in.dkvp"], {"in.dkvp": recs})
    add("dsl-print-unwritable", ["put", "-q", 'print > "/nonexistent-dir/x.out", $a', "in.dkvp"], {"in.dkvp": recs})
    add("dsl-emit-unwritable", ["put", "-q", 'emit > "/nonexistent-dir/x.out", $*', "in.dkvp"], {"in.dkvp": recs})
    add("dsl-emit-end-unwritable", ["put", "-q", '@s[$a] = $b; end {emit > "/nonexistent-dir/x.out", @s, "a"}', "in.dkvp"], {"in.dkvp": recs})
    add("dsl-dump-unwritable", ["put", "-q", '@s = $a; end {dump > "/nonexistent-dir/x.out"}', "in.dkvp"], {"in.dkvp": recs})
    add("dsl-tee-dir-target", ["put", "-q", 'tee > "d", $*', "in.dkvp"], {"in.dkvp": recs, "d/x": ""})
    add("dsl-tee-devfull", ["put", "-q", 'tee > "/dev/full", $*', "in.dkvp"], {"in.dkvp": recs * 400})
    add("dsl-print-devfull", ["put", "-q", 'print > "/dev/full", $a', "in.dkvp"], {"in.dkvp": recs * 400})
    add("dsl-emit-devfull-end", ["put", "-q", '@c[NR] = $a; end {emit > "/dev/full", @c, "NR"}', "in.dkvp"], {"in.dkvp": recs * 100})
    add("dsl-print-devfull-small", ["put", "-q", 'print > "/dev/full", $a', "in.dkvp"], {"in.dkvp": recs})
    add("dsl-tee-devfull-small", ["put", "-q", 'tee > "/dev/full", $*', "in.dkvp"], {"in.dkvp": recs})

    # --- verbs that write files
    add("tee-verb-unwritable", ["tee", "/nonexistent-dir/x.out", "in.dkvp"], {"in.dkvp": recs})
    add("tee-verb-devfull", ["tee", "/dev/full", "in.dkvp"], {"in.dkvp": recs * 400})
    add("tee-verb-devfull-small", ["tee", "/dev/full", "in.dkvp"], {"in.dkvp": recs})
    add("tee-verb-devfull-then-head", ["tee", "/dev/full", "then", "head", "-n", "1", "in.dkvp"], {"in.dkvp": recs * 400})
    add("split-unwritable-prefix", ["split", "-n", "2", "--prefix", "/nonexistent-dir/out", "in.dkvp"], {"in.dkvp": recs})
    add("split-g-unwritable-prefix", ["split", "-g", "a", "--prefix", "/nonexistent-dir/out", "in.dkvp"], {"in.dkvp": recs})
    add("case-missing-required-flag-control", ["tee"], {})

    # --- a fan-out target that cannot be written (symlink to /dev/full), at every position among the targets:
    # the failing file is closed by roll-over / eviction / end of stream depending on where it is
    big = "".join("a=%d,b=%d\n" % (i % 3 + 1, i) for i in range(1, 2001))
    for data, tag in ((recs, "small"), (big, "big")):
        nrec = data.count("\n")
        for bad in (1, 2, 4):
            add("split-n-devfull-file%d-%s" % (bad, tag), None, {"in.dkvp": data}, key="split-n-devfull",
                shell="ln -s /dev/full split_%d.dkvp; %s split -n %d in.dkvp" % (bad, mlr, max(1, nrec // 4)))
            add("split-n-csv-devfull-file%d-%s" % (bad, tag), None, {"in.dkvp": data}, key="split-n-devfull",
                shell="ln -s /dev/full split_%d.csv; %s --ocsv split -n %d in.dkvp" % (bad, mlr, max(1, nrec // 4)))
        for bad in (1, 2):
            add("split-m-devfull-file%d-%s" % (bad, tag), None, {"in.dkvp": data}, key="split-m-devfull",
                shell="ln -s /dev/full split_%d.dkvp; %s split -m 2 in.dkvp" % (bad, mlr))
    for bad in (1, 2, 3):
        add("split-g-devfull-group%d" % bad, None, {"in.dkvp": big}, key="split-g-devfull",
            shell="ln -s /dev/full split_%d.dkvp; %s split -g a in.dkvp" % (bad, mlr))
        add("split-g-devfull-group%d-then-cat" % bad, None, {"in.dkvp": big}, key="split-g-devfull",
            shell="ln -s /dev/full split_%d.dkvp; %s split -g a then put -q 'end{emit @x}' in.dkvp" % (bad, mlr))
        add("dsl-tee-devfull-target%d" % bad, None, {"in.dkvp": big}, key="dsl-tee-devfull-target",
            shell="ln -s /dev/full t%d.out; %s put -q 'tee > \"t\".$a.\".out\", $*' in.dkvp" % (bad, mlr))
        add("dsl-print-devfull-target%d" % bad, None, {"in.dkvp": big}, key="dsl-print-devfull-target",
            shell="ln -s /dev/full t%d.out; %s put -q 'print > \"t\".$a.\".out\", $b' in.dkvp" % (bad, mlr))
        add("dsl-emit-devfull-target%d" % bad, None, {"in.dkvp": big}, key="dsl-emit-devfull-target",
            shell="ln -s /dev/full t%d.out; %s put -q 'emit > \"t\".$a.\".out\", mapsum($*, {})' in.dkvp" % (bad, mlr))
        add("dsl-tee-devfull-small-target%d" % bad, None, {"in.dkvp": recs}, key="dsl-tee-devfull-target",
            shell="ln -s /dev/full t%d.out; %s put -q 'tee > \"t\".$a.\".out\", $*' in.dkvp" % (bad, mlr))
    # more targets than the handle cache holds (256): the failing one is evicted - flushed and closed - long before the end of
    # the stream, and is or is not written again afterwards; every redirect form
    many1 = "".join("k=%d,v=hello%d\n" % (i, i) for i in range(1, 301))
    many2 = many1 + many1
    for data, tag in ((many1, "once"), (many2, "twice")):
        for bad in (1, 20, 150, 300):
            for form, prog in (("print", "print > \"t\".$k.\".out\", $v"), ("printn", "printn > \"t\".$k.\".out\", $v"),
                               ("dump", "@v = $v; dump > \"t\".$k.\".out\""), ("tee", "tee > \"t\".$k.\".out\", $*"),
                               ("emit", "emit > \"t\".$k.\".out\", mapsum($*, {})"), ("print-append", "print >> \"t\".$k.\".out\", $v")):
                add("many-targets-%s-devfull-target%d-%s" % (form, bad, tag), None, {"in.dkvp": data}, key="many-targets-devfull",
                    shell="ln -s /dev/full t%d.out; %s put -q '%s' in.dkvp" % (bad, mlr, prog))
            add("many-targets-split-devfull-target%d-%s" % (bad, tag), None, {"in.dkvp": data}, key="many-targets-devfull",
                shell="ln -s /dev/full split_%d.dkvp; %s split -g k in.dkvp" % (bad, mlr))
    add("tee-verb-devfull-symlink-small", None, {"in.dkvp": recs}, shell="ln -s /dev/full t.out; %s tee t.out in.dkvp" % mlr)
    add("tee-p-verb-failing-command", None, {"in.dkvp": big * 20}, shell="%s tee -p 'head -c 10 > /dev/null' in.dkvp > /dev/null" % mlr)

    # --- records the output format cannot express
    add("csv-schema-change", ["--ocsv", "put", "NR == 5 {unset $a; $z = 1}", "in.dkvp"], {"in.dkvp": recs})
    add("csv-schema-change-last", ["--ocsv", "put", "NR == 20 {unset $a; $z = 1}", "in.dkvp"], {"in.dkvp": recs})
    add("tsv-schema-change", ["--otsv", "put", "NR == 5 {unset $a; $z = 1}", "in.dkvp"], {"in.dkvp": recs})
    add("csv-schema-change-tee", ["--ocsv", "put", "-q", "NR == 5 {unset $a; $z = 1} tee > \"out.csv\", $*", "in.dkvp"], {"in.dkvp": recs})
    add("csv-schema-change-split", ["--ocsv", "put", "NR == 5 {unset $a; $z = 1}", "then", "split", "-n", "100", "in.dkvp"], {"in.dkvp": recs})      # (all 20 records go to one split file)

    # --- stdout that cannot be written
    add("stdout-devfull-small", None, {"in.dkvp": recs}, shell="%s cat in.dkvp > /dev/full" % mlr)
    add("stdout-devfull-big", None, {"in.dkvp": recs * 400}, shell="%s cat in.dkvp > /dev/full" % mlr)
    add("stdout-devfull-tac", None, {"in.dkvp": recs * 400}, shell="%s tac in.dkvp > /dev/full" % mlr)
    add("stdout-devfull-json", None, {"in.dkvp": recs * 400}, shell="%s --ojson cat in.dkvp > /dev/full" % mlr)
    add("stdout-devfull-pprint", None, {"in.dkvp": recs}, shell="%s --opprint cat in.dkvp > /dev/full" % mlr)
    add("stdout-devfull-print", None, {"in.dkvp": recs}, shell="%s put -q 'print $a' in.dkvp > /dev/full" % mlr)
    add("stdout-devfull-end-emit", None, {"in.dkvp": recs}, shell="%s put -q '@s=$a; end{emit @s}' in.dkvp > /dev/full" % mlr)
    # every output format x record size (a record bigger than the output buffer goes to the file in one piece) x
    # where the text comes from x flush policy
    for size, stag in ((6, "small"), (6000, "6k"), (70000, "70k")):
        wide = "".join("a=%d,b=%s\n" % (i, "x" * size) for i in range(1, 4))
        for of in ("--ojson", "--ojsonl", "--ocsv", "--otsv", "--oxtab", "--onidx", "--opprint", "--omd", "--odkvp"):
            add("stdout-devfull-%s-%s" % (of[3:], stag), None, {"in.dkvp": wide}, key="stdout-devfull-wide",
                shell="%s %s cat in.dkvp > /dev/full" % (mlr, of))
        for fl in ("--fflush", "--no-fflush", "--records-per-batch 1"):
            add("stdout-devfull-%s-%s" % (fl.strip("-").replace(" ", ""), stag), None, {"in.dkvp": wide}, key="stdout-devfull-wide",
                shell="%s %s --ojsonl cat in.dkvp > /dev/full" % (mlr, fl))
        add("stdout-devfull-print-%s" % stag, None, {"in.dkvp": wide}, key="stdout-devfull-wide",
            shell="%s put -q 'print $b' in.dkvp > /dev/full" % mlr)
        add("stdout-devfull-printn-%s" % stag, None, {"in.dkvp": wide}, key="stdout-devfull-wide",
            shell="%s put -q 'printn $b' in.dkvp > /dev/full" % mlr)
        add("stdout-devfull-dump-%s" % stag, None, {"in.dkvp": wide}, key="stdout-devfull-wide",
            shell="%s put -q '@s[NR] = $b; end {dump}' in.dkvp > /dev/full" % mlr)
        add("stdout-devfull-emit-end-%s" % stag, None, {"in.dkvp": wide}, key="stdout-devfull-wide",
            shell="%s put -q '@s[NR] = $b; end {emit @s}' in.dkvp > /dev/full" % mlr)
        add("stdout-devfull-tee-stdout-%s" % stag, None, {"in.dkvp": wide}, key="stdout-devfull-wide",
            shell="%s put -q 'tee > stdout, $*' in.dkvp > /dev/full" % mlr)
        add("stdout-devfull-chain-%s" % stag, None, {"in.dkvp": wide}, key="stdout-devfull-wide",
            shell="%s cat then tac then put '$c = 1' in.dkvp > /dev/full" % mlr)
    # (no scenario "standard output closed" (`mlr ... >&-`): the Go runtime opens /dev/null on a standard descriptor it finds
    # closed at start-up, before main runs, so the process cannot tell it from `> /dev/null` - there is no fault to report)
    return S
