#!/bin/sh
# usage: tools/mkseedwt.sh <seed-id e.g. C05a> <property-id>
# Creates a scratch worktree /tmp/mut/<seed-id> of /repo's HEAD, the parser overlay and the prompt for a seeding sub-agent.
# The prompt holds the property text only -- nothing from /verif.
set -eu
SID=$1; PID=$2
mkdir -p /tmp/mut /tmp/mut/$SID.work
if [ ! -s /tmp/mut/parser.go ]; then
  python3 -c "import sys; sys.path.insert(0,'/verif/tools'); import vlib, shutil; shutil.copy(vlib.ensure_parser(), '/tmp/mut/parser.go')"
fi
git -C /repo worktree add --detach /tmp/mut/$SID HEAD >/dev/null 2>&1
echo "{\"Replace\": {\"/tmp/mut/$SID/pkg/parsing/parser/parser.go\": \"/tmp/mut/parser.go\"}}" > /tmp/mut/$SID.overlay.json
python3 - "$SID" "$PID" <<'PY'
import json, sys
sid, pid = sys.argv[1:3]
p = next(json.loads(l) for l in open('/verif/properties.jsonl') if json.loads(l)['id'] == pid)
anchors = ", ".join(p['anchors']['files'])
t = open('/verif/tools/seed_prompt.tmpl').read()
t = t.replace('@SID@', sid).replace('@TITLE@', p['title']).replace('@STATEMENT@', p['statement']).replace('@QUANT@', p['quantifier']['text']).replace('@ANCHORS@', str(anchors))
open('/tmp/mut/%s.prompt.txt' % sid, 'w').write(t)
PY
echo /tmp/mut/$SID.prompt.txt
