"""Generic machinery for binding B3: TLC enumerates cases from a specification's own constants (XGen.tla),
the real binary runs each, TLC judges the observations (XObs.tla). The helpers here only move data."""
import json
from concurrent.futures import ThreadPoolExecutor

import vlib


def cfg_text(consts, init="Init", next_="Next", invariants=(), extra=""):
    lines = ["INIT %s" % init, "NEXT %s" % next_]
    if consts:
        lines.append("CONSTANTS")
        for k, v in consts.items():
            lines.append("  %s = %s" % (k, v))
    for inv in invariants:
        lines.append("INVARIANT %s" % inv)
    lines.append("CHECK_DEADLOCK FALSE")
    if extra:
        lines.append(extra)
    return "\n".join(lines) + "\n"


def gen_cases(module, consts, timeout=3000, workers=1, invariant="Emit", simulate=None, seed=None, depth=None,
              init="Init", next_="Next"):
    cfg = cfg_text(consts, init=init, next_=next_, invariants=[invariant])
    r = vlib.tlc(module, cfg="gen.cfg", extra_files={"gen.cfg": cfg}, workers=workers, timeout=timeout,
                 simulate=simulate, seed=seed, depth=depth)
    if r.error or r.violated:
        raise vlib.Inconclusive("%s failed: %s\n%s" % (module, r.error or r.violated, r.out[-2500:]))
    return r.printed, r


def check_laws(module, consts, invariants=("Laws",), timeout=3000, workers=None):
    cfg = cfg_text(consts, invariants=invariants)
    r = vlib.tlc(module, cfg="gen.cfg", extra_files={"gen.cfg": cfg}, workers=workers, timeout=timeout)
    if r.error:
        raise vlib.Inconclusive("%s failed: %s\n%s" % (module, r.error, r.out[-2500:]))
    return r


def validate(module, obs, consts=None, chunk=20000, threads=8, timeout=3000, invariant="Conforms", init="Init", next_="Next"):
    """Returns (sorted list of non-conforming indices (0-based) with the printed record, states visited)."""
    consts = dict(consts or {})
    consts["ObsFile"] = '"obs.ndjson"'
    cfg = cfg_text(consts, init=init, next_=next_, invariants=[invariant])
    parts = [(s, obs[s:s + chunk]) for s in range(0, len(obs), chunk)]

    def one(p):
        start, part = p
        text = "".join(json.dumps(o) + "\n" for o in part)
        r = vlib.tlc(module, cfg="gen.cfg", extra_files={"gen.cfg": cfg, "obs.ndjson": text}, workers=1, timeout=timeout)
        if r.error or r.violated:
            raise vlib.Inconclusive("%s failed: %s\n%s" % (module, r.error or r.violated, r.out[-3000:]))
        if r.distinct != len(part):
            raise vlib.Inconclusive("%s visited %d of %d observations" % (module, r.distinct, len(part)))
        return [(start + p_["line"] - 1, p_) for p_ in r.printed if isinstance(p_, dict) and "line" in p_], r.distinct
    bad, states = [], 0
    with ThreadPoolExecutor(threads) as ex:
        for b, n in ex.map(one, parts):
            bad.extend(b)
            states += n
    bad.sort(key=lambda x: x[0])
    return bad, states


# ---- records <-> DKVP text (rendering only) ----------------------------------------------------

def dkvp(stream, sep=","):
    return "".join(sep.join("%s=%s" % (k, v) for k, v in rec) + "\n" for rec in stream)


def parse_dkvp(text, sep=","):
    out = []
    lines = text.split("\n")
    if lines and lines[-1] == "":
        lines.pop()
    for line in lines:
        rec = []
        if line != "":
            for pair in line.split(sep):
                k, _, v = pair.partition("=")
                rec.append([k, v])
        out.append(rec)
    return out


def selftest_corruption(module, obs, consts=None, mutate=None, tries=12, **kw):
    """Non-vacuity of an Obs module: a corrupted copy of a CONFORMING observation must be reported (and the observation
    itself must not be). Candidates whose uncorrupted form does not conform -- which happens on a tree that breaks the
    property -- are skipped, so that a broken tree yields violations, not an inconclusive self-test."""
    import copy
    tried = 0
    for o in obs:
        if not o.get("out"):
            continue
        a = copy.deepcopy(o)
        if mutate:
            mutate(a)
        else:
            a["out"] = a["out"][1:]       # drop the first output record
        if a == o:
            continue
        bad, _ = validate(module, [a, o], consts, **kw)
        idx = [b[0] for b in bad]
        if 1 in idx:
            tried += 1
            if tried >= tries:
                break
            continue
        return {"ok": idx == [0], "reported": idx}
    # (callers raise Inconclusive only on ok == False: a candidate was found and its corruption went unnoticed)
    return {"ok": None if tried else False, "why": "no conforming candidate" if tried else "no candidate"}
