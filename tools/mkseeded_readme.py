#!/usr/bin/env python3
"""Generates seeded/README.md from seeded/*/meta.json."""
import glob
import json
import os

ROOT = os.path.dirname(os.path.dirname(os.path.abspath(__file__)))
rows = []
for f in sorted(glob.glob(os.path.join(ROOT, "seeded", "*", "meta.json"))):
    rows.append(json.load(open(f)))
out = ["# Seeded changes", "",
       "Each directory holds one change to johnkerl/miller that breaks a listed property while compiling and passing the",
       "existing tests, written by a fresh sub-agent that saw only the property text and a scratch worktree (nothing from",
       "/verif). `patch.diff` is the change, `demo.sh <mlr>` the seeding agent's own demonstration (exit 0 = property holds,",
       "1 = violated), `meta.json` what it needs to manifest, what was run and which check section reports it.",
       "None of them is ever applied to /repo; `tools/seeded_check.sh <id>` applies one to a scratch worktree of /repo's HEAD,",
       "runs the property's check against it and removes the worktree.", "",
       "| id | property | file | change | needs | first result | strengthening | caught by |", "|---|---|---|---|---|---|---|---|"]
for m in rows:
    out.append("| %s | %s | `%s` | %s | %s | %s | %s | %s |" % tuple(
        str(m.get(k, "")).replace("|", "\\|").replace("\n", " ") for k in
        ("id", "property", "file", "change", "needs", "first_result", "strengthening", "caught_by")))
missed_first = [m["id"] for m in rows if not str(m.get("first_result", "")).startswith("caught")]
out += ["", "%d changes stored; %d were reported by the checks as they stood, %d only after the strengthening described "
        "(each strengthening is a general extension of a specification family or scenario catalogue, not a test for the change)."
        % (len(rows), len(rows) - len(missed_first), len(missed_first)), ""]
open(os.path.join(ROOT, "seeded", "README.md"), "w").write("\n".join(out))
print("seeded/README.md: %d changes" % len(rows))
