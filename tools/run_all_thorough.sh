#!/bin/sh
# usage: tools/run_all_thorough.sh [ID...]   runs the thorough tier of every (or the named) check in turn and prints one line each
# (for `vp run`: the results land under $VERIF_OUT if set, else in evidence/ of the copy it runs in)
cd "$(dirname "$0")/.."
IDS=${*:-$(python3 -c "import json;print(' '.join(c['property_id'] for c in json.load(open('MANIFEST.json'))['checks']))")}
for id in $IDS; do
  s=$(date +%s)
  timeout 14400 ./check $id --tier thorough > thorough_$id.log 2>&1
  rc=$?
  echo "$id thorough exit=$rc wall=$(( $(date +%s) - s ))s violations=$(grep -c '^VIOLATION' thorough_$id.log) known=$(grep -c '^KNOWN-FINDING' thorough_$id.log)"
done
