#!/usr/bin/python3
"""Regenerates /verif/MANIFEST.json from the table below (one entry per property with a working check;
everything else is listed under not_applicable with its reason)."""
import json
import os
import subprocess

VERIF = os.path.dirname(os.path.dirname(os.path.abspath(__file__)))

PIPE_TRUST = ("Exhaustive only within the bounds (<=2-3 user verbs + the implicit trailing verb, <=2-3 files of <=4 records, "
              "batch sizes 1..3); real schedules are sampled (perturbation seeds, GOMAXPROCS, single-site delays). Trusted: "
              "TLC, the fixed table mapping model verbs/faults to real ones, the hook placement (re-validated by the "
              "corruption self-test on every run).")

CHECKS = {
    "C04": dict(
        engine="pipeline",
        technique="TLA+ model checking (TLC) of Pipeline.tla over all interleavings; trace validation of hook logs "
                  "(PipelineTrace.tla); TLC-judged execution of every model configuration on the rebuilt binary "
                  "(PipelineGen/PipelineObs.tla); single-site delay sweep",
        level=dict(category="model_checking", design_ref="DESIGN.md §4.1, §5 C04",
                   text="Pipeline.tla transcribes the reader/verb/writer/main goroutines and their bounded channels, one "
                        "action per channel operation. TLC checks OutputCorrect, PrefixOrder, SuccessDeterministic, "
                        "deadlock freedom and Termination (weak fairness) for every interleaving of every bounded "
                        "configuration (chains x file lists x batch sizes). The specification is bound to the code on "
                        "each run: every configuration is executed on the rebuilt binary and PipelineObs.tla judges "
                        "stdout/exit/termination; hook traces of real runs are validated against the specification; "
                        "every controlled hook site is delayed in turn. --seed reproducibility and the tail -f contract "
                        "are checked on the real binary."),
        note=PIPE_TRUST),
    "C17": dict(
        engine="pipeline",
        technique="TLA+ model checking (TLC) of Pipeline.tla with fault actions over all interleavings; trace validation; "
                  "TLC-judged fault injection on the rebuilt binary; single-site delay sweep",
        level=dict(category="model_checking", design_ref="DESIGN.md §4.1, §5 C17",
                   text="Pipeline.tla with fault actions (missing file, malformed record, failing verb, failing record "
                        "writer, failing final flush, two simultaneous faults): TLC checks ErrorNotLost, "
                        "SuccessMeansClean, FailDeterministic and deadlock freedom for every fault position, batch size "
                        "and interleaving in the bound, including both orders of 'error buffered' and 'writer done'. "
                        "Bound to the code by executing every fault configuration (PipelineObs.tla judges exit status "
                        "and diagnostic), by trace validation of the error paths, by delaying every hook site in turn, "
                        "and by a catalogue of black-box fault scenarios (unreadable inputs, /dev/full, unwritable "
                        "tee/split/redirect targets, closed pipes) whose expected outcome is the property itself."),
        note=PIPE_TRUST),
    "C19": dict(
        engine="inplace",
        technique="TLA+ model checking (TLC) of InPlace.tla with Crash enabled in every state; crash points enumerated by "
                  "TLC and replayed on the rebuilt binary (SIGKILL at the hook site); hook log and resulting directory "
                  "validated against the specification (InPlaceTrace.tla)",
        level=dict(category="model_checking", design_ref="DESIGN.md §4.2, §5 C19",
                   text="InPlace.tla is processFileInPlace step by step (one action per hook) plus Crash in every state and "
                        "Abort. TLC checks Atomic, LaterUntouched, EarlierDone, NoTempAfterErrReturn, SuccessMeansAll, "
                        "RefusedBeforeModify, RenameOnlyComplete exhaustively for all file lists of <= 3 files over 11 file "
                        "kinds. InPlaceGen enumerates every (scenario, crash point); the real binary is killed at each; "
                        "InPlaceTrace.tla requires the hook log to be a behaviour of the specification and the directory "
                        "found afterwards to be the specification's post-crash state. Independently of the model each "
                        "named file's bytes are compared with the original and with what the same command without -I "
                        "prints for that file alone. A second run (Restart) of a different, shorter command on the directories "
                        "the first one left - after a kill at every crash point, an abort, a failure or a success - is part of "
                        "the specification and of the replay (stale temp files, unrestored modes); the design that reuses a "
                        "stale temp file is a constant (ReuseStaleTemp) TLC must refute on every run."),
        note="SIGKILL stands for a crash (no fsync modelling). Crash points are the hook sites of processFileInPlace, every "
             "written record and the final flush. Quick tier: all scenarios of <= 2 files and a seeded sample of 3-file "
             "scenarios; thorough: all. Trusted: TLC, hook placement (corruption self-test on every run), chattr +i as the "
             "unwritable directory."),
    "C20": dict(
        engine="fanout",
        technique="TLA+ refinement check (TLC) of the handle-cache implementation model against the one-document-per-target "
                  "requirement (FanOut.tla); TLC-enumerated write histories replayed through the CLI with a block mapping "
                  "onto the real capacity 256; files judged by FanOutObs.tla; cache hook log validated by FanOutTrace.tla",
        level=dict(category="model_checking", design_ref="DESIGN.md §4.3, §5 C20",
                   text="FanOut.tla states the requirement (Required: each target's file is one well-formed document of "
                        "exactly its records in order, appended to prior contents in append mode) and transcribes "
                        "MultiOutputHandlerManager (LRU, eviction, append re-open) as Step/ImplFiles, in both designs the code has had "
                        "(constant Suspend: the evicted handler keeps its record writer - the tree as repaired - or is closed and "
                        "re-opened with a fresh writer - the pinned tree, which TLC must still refute on every run). "
                        "TLC checks Refines for capacities 1..3, three document kinds, write/append, pre-existing files. "
                        "Every write history up to the bound is replayed on the rebuilt binary via redirected "
                        "tee/emit/print, split -g and pipes; FanOutObs.tla judges each produced file against Required "
                        "(verdict) and against ImplFiles (conformance); the cache's hit/evict/open hook log is validated "
                        "against the model with the real capacity. Volume histories (every write standing for 700 records) "
                        "exercise per-file batching."),
        note="Histories bounded to <= 4-6 writes over 3 abstract targets; capacity K of the model mapped onto the code's "
             "constant 256 by blocks of 256/K real files written in sequence. Files are tokenised by the harness (header "
             "lines, records, JSON top-level values). Trusted: TLC, the tokeniser, the fixed table of CLI forms."),
    "C11": dict(
        engine="verbs-select",
        technique="TLA+ definitions of the selecting verbs over whole streams (VerbsSelect.tla); laws of the property checked "
                  "by TLC on the definitions; TLC-enumerated cases executed on the rebuilt binary and judged by TLC "
                  "(VerbsSelectGen/VerbsSelectObs.tla)",
        level=dict(category="model_checking", design_ref="DESIGN.md §4.5, §5 C11",
                   text="Every selecting verb (head incl. negative counts, tail incl. +k, decimate -b/-e, filter/-x over boolean "
                        "and absent expressions, having-fields, tac, group-by, group-like, uniq -a [-c|-n], "
                        "skip-trivial-records, nothing, cat -n/-N/-g, grep -i/-v/-a on literal patterns, the regex modes of "
                        "having-fields on tabulated patterns; shuffle, bootstrap, sample as predicates) is a "
                        "definition over the whole input stream. TLC proves the laws of the statement on the definitions "
                        "(outputs are sub-multisets, head k ++ tail +(k+1) = input, filter/filter -x partition, tac twice, "
                        "group sizes add up) over the whole bounded space, enumerates every (configuration, stream) case, "
                        "and judges the real binary's output for each. A slow-arrival family (streams of 4-5 records, one record per "
                        "batch, a pause after every line at the reader's hook) runs the early-exit and grouping verbs on input "
                        "that has mostly not been read yet."),
        note="Bounded: streams of <= 3 (quick) / 4 (thorough) records over 6 record shapes, counts in {-2..3,5}, <= 2 group-by "
             "fields. grep for literal patterns only. Trusted: TLC; the harness only spells options and "
             "splits DKVP lines (corruption self-test on every run)."),
}

NOT_BUILT = "engine not built yet in this round (see DESIGN.md §9 work order)"
NOT_APPLICABLE = {
    "C18": "robustness to arbitrary bytes/programs is a fuzzing/memory-safety property: its specification is TRUE on every "
           "input and gives TLC nothing to explore (DESIGN.md §6); crashes and hangs met by other checks are reported there",
}


def load_entries():
    """Per-property entries dropped into tools/manifest_entries/<ID>.json:
    {"engine": .., "engine_path": .., "engine_kind": .., "technique": .., "level": {category, text, design_ref}, "note": ..}"""
    d = os.path.join(VERIF, "tools", "manifest_entries")
    info = {}
    if os.path.isdir(d):
        for fn in sorted(os.listdir(d)):
            if fn.endswith(".json"):
                with open(os.path.join(d, fn)) as f:
                    e = json.load(f)
                pid = fn[:-5]
                CHECKS[pid] = dict(engine=e["engine"], technique=e["technique"], level=e["level"], note=e["note"])
                info[e["engine"]] = (e.get("engine_path", ""), e.get("engine_kind", ""))
    return info


def main():
    extra_info = load_entries()
    ids = [json.loads(l)["id"] for l in open(os.path.join(VERIF, "properties.jsonl"))]
    try:
        commits = subprocess.run(["git", "-C", "/repo", "log", "--format=%H %s"], capture_output=True, text=True).stdout
        hook_commits = [l.split()[0] for l in commits.splitlines() if " verif hooks:" in l]
    except Exception:
        hook_commits = []
    checks = []
    na = []
    for pid in ids:
        if pid in CHECKS and os.path.exists(os.path.join(VERIF, "tools", "engines", pid.lower() + ".py")):
            c = CHECKS[pid]
            checks.append({
                "property_id": pid,
                "quick_cmd": "./check %s --tier quick" % pid,
                "thorough_cmd": "./check %s --tier thorough" % pid,
                "evidence_file": "/verif/evidence/%s.json" % pid,
                "replay_cmd_template": "./check %s --replay {path}" % pid,
                "engine": c["engine"],
                "level_claimed": c["level"],
                "level_note": c["note"],
                "technique": c["technique"],
            })
        else:
            na.append({"property_id": pid, "reason": NOT_APPLICABLE.get(pid, NOT_BUILT)})
    engines = {}
    for c in checks:
        engines.setdefault(c["engine"], []).append(c["property_id"])
    ENGINE_INFO = {
        "verbs-select": ("spec/VerbsSelect.tla", "TLA+ stream-level definitions + TLC case enumeration + TLC-judged real runs"),
        "fanout": ("spec/FanOut.tla", "TLA+ requirement + implementation model of the output-handle cache, refinement by TLC, "
                                      "history replay through the CLI, trace validation of the cache"),
        "inplace": ("spec/InPlace.tla", "TLA+ spec of the -I protocol + TLC-enumerated crash replay + trace/state validation"),
        "pipeline": ("spec/Pipeline.tla", "TLA+ spec of the goroutine/channel skeleton + TLC exhaustive runs + trace "
                                          "validation + TLC-judged real executions"),
    }
    ENGINE_INFO.update(extra_info)
    manifest = {
        "version": 1,
        "setup_cmd": "./tools/setup.sh",
        "hooks": {
            "guard": "verif",
            "enable": "go build -tags verif ./cmd/mlr (checks add -overlay for the regenerated DSL parser; tools/vlib.py)",
            "baseline_off_cmd": "cd /repo && GOFLAGS=-mod=mod GOPROXY=off go test -vet=off -count=1 ./...",
            "source_commits": hook_commits,
            "add_only": True,
        },
        "engines": [{"name": n, "path": ENGINE_INFO.get(n, ("", ""))[0], "serves_properties": ps,
                     "kind_free_text": ENGINE_INFO.get(n, ("", ""))[1]} for n, ps in engines.items()],
        "checks": checks,
        "notes": "Every check: ./check <id> [--tier quick|thorough]; exit 0 held (KNOWN-FINDING lines possible), "
                 "1 VIOLATION, 2 no verdict. Genuine defects recorded in known_findings.jsonl (known / fixed).",
        "not_applicable": na,
    }
    with open(os.path.join(VERIF, "MANIFEST.json"), "w") as f:
        json.dump(manifest, f, indent=1)
    print("MANIFEST.json: %d checks, %d not applicable" % (len(checks), len(na)))


if __name__ == "__main__":
    main()
