#!/bin/sh
# usage: tools/try_seeded.sh <worktree-with-the-change-applied> <ID> [tier]
# Runs ./check <ID> against a scratch worktree (not /repo), with its own build and output directories.
set -u
WT=$1; ID=$2; TIER=${3:-quick}
OUT=/tmp/seedrun/$(basename $WT)-$ID
rm -rf $OUT; mkdir -p $OUT/build
cd /verif
VERIF_REPO=$WT VERIF_BUILD=$OUT/build VERIF_OUT=$OUT VERIF_JOBS=${VERIF_JOBS:-8} VERIF_TLC_WORKERS=${VERIF_TLC_WORKERS:-6} \
  timeout 2400 ./check $ID --tier $TIER > $OUT/log.txt 2>&1
echo "exit=$?" >> $OUT/log.txt
grep -c "^VIOLATION" $OUT/log.txt
tail -4 $OUT/log.txt | cut -c1-300
