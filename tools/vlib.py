"""Common machinery for the /verif checks: building mlr from /repo's working tree,
running TLC, running cases against the real binary, evidence, known findings.

Nothing in this file knows Miller semantics: oracles live in the TLA+ modules
under /verif/spec and are evaluated by TLC.
"""
import hashlib
import json
import os
import re
import shutil
import subprocess
import sys
import tempfile
import time

VERIF = os.path.dirname(os.path.dirname(os.path.abspath(__file__)))
REPO = os.environ.get("VERIF_REPO", "/repo")
# (VERIF_REPO / VERIF_BUILD / VERIF_OUT let the same checks be pointed at a scratch worktree -- e.g. one with a seeded
# change applied -- without touching /repo, the shared build directory or the committed evidence)
BUILD = os.environ.get("VERIF_BUILD", os.path.join(VERIF, "build"))
SPEC = os.path.join(VERIF, "spec")
HARNESS = os.path.join(VERIF, "harness")
EVIDENCE = os.path.join(os.environ.get("VERIF_OUT", VERIF), "evidence")
REPLAYS = os.path.join(os.environ.get("VERIF_OUT", VERIF), "replays")
GO = "go1.26"
NPROC = os.cpu_count() or 4

GOENV = dict(os.environ)
GOENV.update({
    "GOFLAGS": "-mod=mod", "GOPROXY": "off", "GOSUMDB": "off", "GOTOOLCHAIN": "local",
})


class Inconclusive(Exception):
    """The check could not reach a verdict (exit 2, never a violation)."""


def log(*a):
    print(*a, file=sys.stderr, flush=True)


def sh(cmd, cwd=None, env=None, timeout=None, check=True, input=None):
    p = subprocess.run(cmd, cwd=cwd, env=env, timeout=timeout, input=input,
                       stdout=subprocess.PIPE, stderr=subprocess.PIPE, text=True)
    if check and p.returncode != 0:
        raise Inconclusive("command failed (%d): %s\n%s\n%s" % (
            p.returncode, " ".join(cmd) if isinstance(cmd, list) else cmd, p.stdout[-4000:], p.stderr[-4000:]))
    return p


# ---------------------------------------------------------------------------
# Build plumbing

def _sha(path):
    h = hashlib.sha256()
    with open(path, "rb") as f:
        h.update(f.read())
    return h.hexdigest()


def ensure_parser():
    """Returns the path of a go build overlay json, or None if /repo has its own parser."""
    os.makedirs(BUILD, exist_ok=True)
    repo_parser = os.path.join(REPO, "pkg/parsing/parser/parser.go")
    if os.path.getsize(repo_parser) > 0:
        return None
    bnf = os.path.join(REPO, "pkg/parsing/mlr.bnf")
    key = _sha(bnf)[:16]
    gen = os.path.join(BUILD, "parser-%s.go" % key)
    shared = os.path.join(VERIF, "build", "parser-%s.go" % key)
    if not os.path.exists(gen) and os.path.exists(shared):
        gen = shared            # the regenerated parser depends only on mlr.bnf: reuse it
    if not os.path.exists(gen):
        log("[build] regenerating parser from mlr.bnf (%s) ..." % key)
        tmpj = os.path.join(BUILD, "parser-%s.json.tmp" % key)
        tmpg = gen + ".tmp"
        sh([GO, "run", "github.com/johnkerl/pgpg/go/generators/cmd/parsegen-tables", "-o", tmpj,
            "pkg/parsing/mlr.bnf"], cwd=REPO, env=GOENV, timeout=1200)
        sh([GO, "run", "github.com/johnkerl/pgpg/go/generators/cmd/parsegen-code", "-o", tmpg,
            "-package", "parser", "-type", "MlrParser", tmpj], cwd=REPO, env=GOENV, timeout=600)
        os.remove(tmpj)
        os.rename(tmpg, gen)
    overlay = os.path.join(BUILD, "overlay-%s.json" % key)
    with open(overlay, "w") as f:
        json.dump({"Replace": {repo_parser: gen}}, f)
    return overlay


_built = {}


def build_mlr(tags="verif", name=None):
    """Rebuilds mlr from /repo's current working tree. Returns the binary path."""
    name = name or ("mlr" if tags == "verif" else "mlr-" + (tags or "plain"))
    if name in _built:
        return _built[name]
    overlay = ensure_parser()
    out = os.path.join(BUILD, name)
    cmd = [GO, "build"]
    if tags:
        cmd += ["-tags", tags]
    if overlay:
        cmd += ["-overlay", overlay]
    cmd += ["-o", out, "./cmd/mlr"]
    t0 = time.time()
    sh(cmd, cwd=REPO, env=GOENV, timeout=1800)
    log("[build] %s built in %.1fs" % (name, time.time() - t0))
    _built[name] = out
    return out


def build_harness(cmdname, tags="verif"):
    """Builds /verif/harness/cmd/<cmdname> against /repo's working tree."""
    key = "h-" + cmdname
    if key in _built:
        return _built[key]
    overlay = ensure_parser()
    shutil.copy(os.path.join(REPO, "go.sum"), os.path.join(HARNESS, "go.sum"))
    out = os.path.join(BUILD, cmdname)
    cmd = [GO, "build"]
    if tags:
        cmd += ["-tags", tags]
    if overlay:
        cmd += ["-overlay", overlay]
    cmd += ["-o", out, "./cmd/" + cmdname]
    sh(cmd, cwd=HARNESS, env=GOENV, timeout=1800)
    _built[key] = out
    return out


def scratch(prefix):
    d = os.path.join(BUILD, "tmp")
    os.makedirs(d, exist_ok=True)
    return tempfile.mkdtemp(prefix=prefix + "-", dir=d)


# ---------------------------------------------------------------------------
# Running cases on the real binary

def run_cases(cases, jobs=None, workdir=None):
    """cases: list of dicts for harness/cmd/runner. Returns list of result dicts (same order)."""
    runner = build_harness("runner", tags="")
    own = workdir is None
    workdir = workdir or scratch("run")
    cin = os.path.join(workdir, "cases.ndjson")
    cout = os.path.join(workdir, "results.ndjson")
    with open(cin, "w") as f:
        for c in cases:
            f.write(json.dumps(c) + "\n")
    sh([runner, "-j", str(jobs or int(os.environ.get("VERIF_JOBS", NPROC))), cin, cout], timeout=6 * 3600)
    res = []
    with open(cout) as f:
        for line in f:
            res.append(json.loads(line))
    if own:
        shutil.rmtree(workdir, ignore_errors=True)
    if len(res) != len(cases):
        raise Inconclusive("runner returned %d results for %d cases" % (len(res), len(cases)))
    return res


def confirm_timeouts(cases, results, factor=8, jobs=4):
    """A timeout counts as a hang only if it persists with a much longer allowance, on a quiet
    machine (few parallel jobs) and without injected delays. Results are updated in place."""
    idx = [i for i, r in enumerate(results) if r.get("timed_out")]
    if not idx:
        return 0
    if len(idx) > 40:
        # too many to re-run at leisure (and too many to be load): confirm a spread sample with a shorter allowance; the
        # rest keep their verdict
        step = len(idx) // 12
        keep = idx[::step][:12]
        log("[confirm_timeouts] %d timeouts; confirming %d of them" % (len(idx), len(keep)))
        idx = keep
        factor, jobs = min(factor, 4), max(jobs, 6)
    elif len(idx) > 8:
        factor, jobs = min(factor, 5), max(jobs, 8)
    again = []
    for i in idx:
        c = dict(cases[i])
        c["timeout_ms"] = int(c.get("timeout_ms", 10000)) * factor
        env = dict(c.get("env") or {})
        env.pop("MLR_VERIF_PERTURB", None)
        env.pop("MLR_VERIF_DELAY", None)
        c["env"] = env
        again.append(c)
    res2 = run_cases(again, jobs=jobs)
    cleared = 0
    for i, r in zip(idx, res2):
        if not r.get("timed_out"):
            cleared += 1
        results[i] = r
    return cleared


# ---------------------------------------------------------------------------
# TLC

class TLCResult:
    def __init__(self):
        self.rc = None
        self.out = ""
        self.generated = 0
        self.distinct = 0
        self.depth = 0
        self.printed = []      # values printed with PrintT(ToJson(x)) decoded from JSON
        self.raw_printed = []  # other quoted strings
        self.violated = None   # name of violated invariant/property, "deadlock", or None
        self.error = None      # TLC runtime/parse error text
        self.wall = 0.0
        self.coverage_zero = []

    @property
    def ok(self):
        return self.rc == 0 and self.violated is None and self.error is None


_TLC_JAR = "/opt/veriftools/tla/tla2tools.jar:/opt/veriftools/tla/CommunityModules-deps.jar"


def tlc(module, cfg=None, spec_dir=SPEC, workers=None, timeout=1800, simulate=None, depth=None,
        seed=None, extra_files=None, heap=None, deadlock=True, coverage=False, dfs=False,
        defines=None, keep=False, extra_args=None, xss="64m"):
    """Runs TLC on spec_dir/module.tla in a scratch copy. extra_files: {name: content or path}.
    defines: {NAME: tla-expression} written to a generated module `<module>_defs.tla`? (not used)
    Returns TLCResult. Raises Inconclusive on timeout/crash of TLC itself."""
    work = scratch("tlc")
    for fn in os.listdir(spec_dir):
        if fn.endswith(".tla") or fn.endswith(".cfg"):
            shutil.copy(os.path.join(spec_dir, fn), work)
    for name, content in (extra_files or {}).items():
        dst = os.path.join(work, name)
        if isinstance(content, str) and os.path.isabs(content) and os.path.exists(content) and "\n" not in content:
            shutil.copy(content, dst)
        else:
            with open(dst, "w") as f:
                f.write(content)
    cfgname = cfg or (module + ".cfg")
    jopts = ["-XX:+UseParallelGC", "-Xss" + xss]
    if heap:
        jopts.append("-Xmx" + heap)
    if dfs:
        jopts.append("-Dtlc2.tool.queue.IStateQueue=StateDeque")
    cmd = ["java"] + jopts + ["-cp", _TLC_JAR, "tlc2.TLC", "-metadir", os.path.join(work, "meta"),
                              "-config", cfgname]
    cmd += ["-workers", str(workers or os.environ.get("VERIF_TLC_WORKERS", "auto"))]
    if not deadlock:
        cmd += ["-deadlock"]
    if coverage:
        cmd += ["-coverage", "1"]
    if simulate is not None:
        s = "num=%d" % simulate
        cmd += ["-simulate", s]
    if depth is not None:
        cmd += ["-depth", str(depth)]
    if seed is not None:
        cmd += ["-seed", str(seed)]
    cmd += list(extra_args or [])
    cmd += [module + ".tla"]
    r = TLCResult()
    t0 = time.time()
    try:
        p = subprocess.run(cmd, cwd=work, stdout=subprocess.PIPE, stderr=subprocess.STDOUT, text=True,
                           timeout=timeout)
    except subprocess.TimeoutExpired:
        subprocess.run(["pkill", "-f", "metadir " + os.path.join(work, "meta")])
        if not keep:
            shutil.rmtree(work, ignore_errors=True)
        raise Inconclusive("TLC timeout after %ss on %s/%s" % (timeout, module, cfgname))
    r.wall = time.time() - t0
    r.rc = p.returncode
    r.out = p.stdout
    _parse_tlc(r)
    r.workdir = work
    if not keep:
        shutil.rmtree(work, ignore_errors=True)
    return r


_re_states = re.compile(r"^(\d+) states generated, (\d+) distinct states found", re.M)
_re_depth = re.compile(r"The depth of the complete state graph search is (\d+)")
_re_inv = re.compile(r"Error: Invariant (\S+) is violated")
_re_prop = re.compile(r"Error: (?:Temporal properties were violated|Action property (\S+) is violated)")


def _parse_tlc(r):
    out = r.out
    m = None
    for m in _re_states.finditer(out):
        pass
    if m:
        r.generated, r.distinct = int(m.group(1)), int(m.group(2))
    m = _re_depth.search(out)
    if m:
        r.depth = int(m.group(1))
    m = _re_inv.search(out)
    if m:
        r.violated = m.group(1)
    elif "Error: Deadlock reached" in out:
        r.violated = "deadlock"
    elif _re_prop.search(out):
        mm = _re_prop.search(out)
        r.violated = mm.group(1) or "temporal"
    elif "is violated" in out and "Error:" in out:
        mm = re.search(r"Error: (.*is violated.*)", out)
        r.violated = mm.group(1) if mm else "unknown"
    if r.violated is None and ("Error:" in out or r.rc not in (0,)):
        # runtime error, parse error, assertion, postcondition failure
        mm = re.search(r"Error: (.*)", out)
        r.error = (mm.group(1) if mm else "TLC exit %s" % r.rc)
        if "Postcondition" in out or "POSTCONDITION" in out.upper() and "violated" in out:
            r.violated = "postcondition"
            r.error = None
    for line in out.splitlines():
        if len(line) >= 2 and line[0] == '"' and line[-1] == '"':
            try:
                s = json.loads(_tla_unquote(line))
            except Exception:
                continue
            try:
                r.printed.append(json.loads(s))
            except Exception:
                r.raw_printed.append(s)
    for mm in re.finditer(r"^\s*(<\S+ line \d+.*?>|\|?line \d+, col \d+ to line \d+, col \d+ of module \S+): 0\s*$", out, re.M):
        r.coverage_zero.append(mm.group(1))


def _tla_unquote(line):
    # A TLA+ string printed by TLC escapes \ and " like JSON does; tabs/newlines do not occur.
    return line


def tla_str(s):
    return '"' + s.replace("\\", "\\\\").replace('"', '\\"') + '"'


# ---------------------------------------------------------------------------
# Known findings, violations, evidence

def load_known():
    path = os.path.join(VERIF, "known_findings.jsonl")
    out = []
    if os.path.exists(path):
        with open(path) as f:
            for line in f:
                line = line.strip()
                if line and not line.startswith("#"):
                    out.append(json.loads(line))
    return out


class Verdicts:
    """Collects violations of one property, matching them against known_findings.jsonl."""

    def __init__(self, prop):
        self.prop = prop
        self.known = [k for k in load_known() if k["property"] == prop and k.get("status") == "known"]
        self.violations = []
        self.known_hits = {}
        self.notes = []

    def match_known(self, key):
        for k in self.known:
            if all(key.get(f) == v for f, v in k["key"].items()):
                return k
        return None

    def violation(self, key, detail):
        """key: dict identifying the failing input/call site/history; detail: replay material."""
        k = self.match_known(key)
        if k is not None:
            kid = json.dumps(k["key"], sort_keys=True)
            self.known_hits.setdefault(kid, [k, 0])
            self.known_hits[kid][1] += 1
            return False
        self.violations.append({"key": key, "detail": detail})
        return True

    def finish(self):
        """Prints KNOWN-FINDING / VIOLATION lines; returns exit status."""
        for kid, (k, n) in sorted(self.known_hits.items()):
            print("KNOWN-FINDING: property=%s %s (%d occurrence%s this run)" % (
                self.prop, k["what"], n, "" if n == 1 else "s"), flush=True)
        if not self.violations:
            return 0
        if os.environ.get("VERIF_DUMP"):
            with open(os.environ["VERIF_DUMP"], "w") as f:
                for v in self.violations:
                    f.write(json.dumps(v, default=str) + "\n")
        d = os.path.join(REPLAYS, self.prop)
        os.makedirs(d, exist_ok=True)
        # one replay file per distinct key first, so that every kind of violation is written out
        seen, first, rest = set(), [], []
        for v in self.violations:
            k = json.dumps(v["key"], sort_keys=True, default=str)
            (rest if k in seen else first).append(v)
            seen.add(k)
        counts = {}
        for v in self.violations:
            k = json.dumps(v["key"], sort_keys=True, default=str)
            counts[k] = counts.get(k, 0) + 1
        for k, n in sorted(counts.items(), key=lambda x: -x[1])[:40]:
            log("[violations] %6d x %s" % (n, k))
        self.violations = first + rest
        for i, v in enumerate(self.violations[:20]):
            h = hashlib.sha1(json.dumps(v, sort_keys=True, default=str).encode()).hexdigest()[:12]
            path = os.path.join(d, "%s.json" % h)
            with open(path, "w") as f:
                json.dump(v, f, indent=1, default=str)
            print("VIOLATION property=%s replay=%s" % (self.prop, path), flush=True)
        if len(self.violations) > 20:
            print("(%d further violations of %s not written out)" % (len(self.violations) - 20, self.prop))
        return 1


def write_evidence(prop, tier, seed, wall, coverage, assumptions, violations=0, level="model_checking"):
    os.makedirs(EVIDENCE, exist_ok=True)
    ev = {
        "property_id": prop,
        "tier": tier,
        "seed": int(seed),
        "level": level,
        "coverage": coverage,
        "assumptions": assumptions,
        "wall_s": round(wall, 2),
        "violations": int(violations),
    }
    path = os.path.join(EVIDENCE, "%s.json" % prop)
    tmp = path + ".tmp"
    with open(tmp, "w") as f:
        json.dump(ev, f, indent=1, default=str)
    os.replace(tmp, path)
    return path


def tier_and_seed(argv_tier=None):
    tier = argv_tier or os.environ.get("VERIF_TIER") or "quick"
    if tier not in ("quick", "thorough"):
        tier = "quick"
    try:
        seed = int(os.environ.get("VERIF_SEED", "1"))
    except ValueError:
        seed = 1
    return tier, seed
