#!/bin/sh
# usage: tools/seeded_check.sh <seeded-id> [<check-ID> [tier]]
# Applies /verif/seeded/<seeded-id>/patch.diff to a scratch worktree of /repo's HEAD (never to /repo itself), runs
# ./check <check-ID> against it with its own build/output directories, prints the outcome and removes the worktree.
# Expected outcome for every stored change: exit=1 with VIOLATION lines.
set -u
SID=$1
PROP=${2:-$(python3 -c "import json,sys;m=json.load(open('/verif/seeded/$SID/meta.json'));print(m.get('check',m['property']))")}
TIER=${3:-quick}
BASE=$(python3 -c "import json;print(json.load(open('/verif/seeded/$SID/meta.json')).get('check_base','HEAD'))")
WT=/tmp/seedwt/$SID
git -C /repo worktree remove --force $WT 2>/dev/null
rm -rf $WT; mkdir -p /tmp/seedwt
git -C /repo worktree add --detach $WT $BASE >/dev/null 2>&1 || { echo "cannot create worktree"; exit 2; }
git -C $WT apply /verif/seeded/$SID/patch.diff || { echo "patch does not apply"; git -C /repo worktree remove --force $WT; exit 2; }
sh /verif/tools/try_seeded.sh $WT $PROP $TIER
rc=$(grep -o 'exit=[0-9]*' /tmp/seedrun/$SID-$PROP/log.txt | tail -1)
echo "$SID $PROP $TIER $rc"
git -C /repo worktree remove --force $WT
rm -rf /tmp/seedrun/$SID-$PROP/build
