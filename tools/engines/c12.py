"""C12 — field-restructuring verbs do exactly their rearrangement and invert cleanly.

VerbsRestructure.tla defines cut, template, reorder, rename, label, regularize, sort-within-records, unsparsify,
sparsify, fill-empty, nest (explode/implode x values/pairs x records/fields), reshape (wide-to-long, long-to-wide),
altkv, unspace and sec2gmt from reference-verbs.md; TLC proves the laws of the property on the definitions
(VerbsRestructureMC), enumerates the bounded case space configuration x stream (VerbsRestructureGen), the rebuilt
binary runs every case and VerbsRestructureObs judges each output.

This file only spells options (a fixed table) and joins/splits text: a value is a list of characters in the
specification and a string on the command line."""
import json
import time

import b3
import vlib

PROP = "C12"


def text(chars):
    return "".join(chars)


def names(f):
    return ",".join(f)


def regex_of(f):
    """The one regular-expression form used: exactly the listed names."""
    return "^(" + "|".join(f) + ")$"


NEST_MODES = {
    "explode-values-records": ["--explode", "--values", "--across-records"],
    "explode-values-fields": ["--explode", "--values", "--across-fields"],
    "explode-pairs-records": ["--explode", "--pairs", "--across-records"],
    "explode-pairs-fields": ["--explode", "--pairs", "--across-fields"],
    "implode-values-records": ["--implode", "--values", "--across-records"],
    "implode-values-fields": ["--implode", "--values", "--across-fields"],
}


def argv_of(c):
    v, o, f, p, w = c["v"], c["o"], list(c["f"]), list(c["p"]), list(c["w"])
    fill = [text(w[0])] if w else None
    if v == "cut":
        return ["cut"] + {"-f": ["-f", names(f)], "-o": ["-o", "-f", names(f)], "-x": ["-x", "-f", names(f)],
                          "-r": ["-r", "-f", regex_of(f)], "-rx": ["-x", "-r", "-f", regex_of(f)]}[o]
    if v == "template":
        return ["template", "-f", names(f)] + (["--fill-with"] + fill if fill else [])
    if v == "reorder":
        return ["reorder"] + ([o] + p if o in ("-b", "-a") else [o] if o else []) + ["-f", names(f)]
    if v == "rename":
        if o == "":
            return ["rename", names(f)]
        spelled = ["^%s$" % n if i % 2 == 0 else n for i, n in enumerate(f)]
        return ["rename"] + (["-r", "-g"] if o == "-g" else ["-r"]) + [names(spelled)]
    if v == "label":
        return ["label", names(f)]
    if v == "regularize":
        return ["regularize"]
    if v == "sort-within-records":
        return ["sort-within-records"] + (["-f", names(f)] if o == "-f" else [o] if o else [])
    if v == "sparsify":
        return ["sparsify"] + (["-s"] + fill if fill else []) + (["-f", names(f)] if o == "-f" else [])
    if v == "fill-empty":
        return ["fill-empty"] + (["-v"] + fill if fill else []) + ([o] if o else [])
    if v == "unsparsify":
        return ["unsparsify"] + (["--fill-with"] + fill if fill else [])
    if v == "unsparsify-f":
        return ["unsparsify"] + (["--fill-with"] + fill if fill else []) + ["-f", names(f)]
    if v == "altkv":
        return ["altkv"]
    if v == "unspace":
        return ["unspace"] + ([o] if o else []) + (["-f"] + fill if fill else [])
    if v == "case":
        return ["case", o] + p + (["-f", names(f)] if f else [])
    if v == "sec2gmt":
        if o == "dsl":      # "mlr sec2gmt time1,time2 is the same as mlr put '$time1 = sec2gmt($time1); $time2 = ...'"
            return ["put", "; ".join("$%s = sec2gmt($%s)" % (n, n) for n in f)]
        return ["sec2gmt", names(f)]
    if v in ("nest-explode-records", "nest-fields", "nest-implode-records"):
        if o == "evar":
            return ["nest", "--evar", p[0], "-f", f[0]]
        if o == "ivar":
            return ["nest", "--ivar", p[0], "-f", f[0]]
        seps = [] if p == [";", ":"] else ["--nested-fs", p[0], "--nested-ps", p[1]]
        return ["nest"] + NEST_MODES[o] + ["-f", f[0]] + seps
    if v == "reshape-w2l":
        return ["reshape"] + (["-i", names(f)] if o == "-i" else ["-r", regex_of(f)]) + ["-o", names(p)]
    if v == "reshape-l2w":
        return ["reshape", "-s", names(p)]
    raise ValueError(v)


def to_text_stream(s):
    return [[[k, text(val)] for k, val in rec] for rec in s]


def to_char_stream(recs):
    return [[[k, list(val)] for k, val in rec] for rec in recs]


def key_of(c):
    return {"verb": c["v"], "o": c["o"], "f": names(c["f"]), "p": names(c["p"]),
            "fill": text(c["w"][0]) if c["w"] else None}


def _drop_record(a):
    a["out"] = a["out"][1:]
    return True


def _swap_fields(a):
    for rec in a["out"]:
        if len(rec) >= 2 and rec[0] != rec[1]:
            rec[0], rec[1] = rec[1], rec[0]
            return True
    return False


def _change_value(a):
    for rec in a["out"]:
        if rec:
            rec[-1][1] = rec[-1][1] + ["!"]
            return True
    return False


def _drop_field(a):
    for rec in a["out"]:
        if rec:
            rec.pop()
            return True
    return False


MUTATIONS = {"drop-record": _drop_record, "swap-fields": _swap_fields, "change-value": _change_value,
             "drop-field": _drop_field}


def sensitivity(obs, bad_idx, per_verb=12):
    """Non-vacuity of the judgement, verb by verb: corrupted copies of conforming observations (a record dropped, two
    fields exchanged, a value text changed, a field dropped) are judged by the same module; every verb must have each
    kind of corruption noticed at least once, and the rates are recorded. (Some corruptions are legitimately allowed
    where the specification is a predicate, e.g. exchanging two fields that a repeated name list leaves unordered.)"""
    import copy
    by_verb = {}
    for i, o in enumerate(obs):
        if i not in bad_idx and o["out"]:
            by_verb.setdefault(o["c"]["v"], []).append(o)
    picked = []
    for v, lst in by_verb.items():      # evenly spread over each verb's cases
        step = max(1, len(lst) // per_verb)
        picked += lst[step // 2::step][:per_verb]
    mutated, tags = [], []
    for o in picked:
        for name, fn in MUTATIONS.items():
            a = copy.deepcopy(o)
            if fn(a):
                mutated.append(a)
                tags.append((o["c"]["v"], name))
    bad, _ = b3.validate("VerbsRestructureObs", mutated)
    noticed = {i for i, _ in bad}
    table = {}
    for i, (v, name) in enumerate(tags):
        cell = table.setdefault(v, {}).setdefault(name, [0, 0])
        cell[1] += 1
        if i in noticed:
            cell[0] += 1
    blind = ["%s/%s" % (v, name) for v, row in sorted(table.items()) for name, (hit, n) in sorted(row.items()) if hit == 0]
    if blind:
        raise vlib.Inconclusive("the judgement noticed no corruption of kind(s): %s" % ", ".join(blind))
    return {v: {name: "%d/%d" % tuple(cell) for name, cell in row.items()} for v, row in table.items()}


def run(tier, seed):
    t0 = time.time()
    V = vlib.Verdicts(PROP)
    mlr = vlib.build_mlr()
    thorough = tier == "thorough"
    cov = {"tlc_runs": [], "samples": []}
    consts = {"MaxLen": 4, "MaxLen1": 2} if thorough else {"MaxLen": 3, "MaxLen1": 1}

    laws = b3.check_laws("VerbsRestructureMC", consts, timeout=6000)
    cov["tlc_runs"].append({"module": "VerbsRestructureMC", **consts, "distinct_states": laws.distinct,
                            "result": laws.violated or "no error"})
    if laws.violated:
        raise vlib.Inconclusive("the specification itself violates a law of the property: %s" % laws.violated)
    states, transitions = laws.distinct, laws.generated
    vlib.log("[c12] laws checked on %d cases in %.0fs" % (laws.distinct, time.time() - t0))

    cases, g = b3.gen_cases("VerbsRestructureGen", consts, timeout=6000)
    states += g.distinct
    transitions += g.generated
    # one mlr process per case; cases with a wide record (the record's ordered map builds a hashed index at 12 fields)
    # are run three times: default, --hash-records, --no-hash-records
    generated = cases
    cases, runs = [], []
    for k, x in enumerate(generated):
        flags = []
        if (k + seed) % 5 == 0:
            flags = ["--records-per-batch", "1"]
        elif (k + seed) % 5 == 1:
            flags = ["--records-per-batch", "2"]
        wide = any(len(rec) >= 11 for rec in x["s"])
        for mode in ([[], ["--hash-records"], ["--no-hash-records"]] if wide else [[]]):
            cases.append(x)
            verbs = []
            for part in x["parts"]:          # one verb, or the two of a chain joined by `then`
                verbs += (["then"] if verbs else []) + argv_of(part)
            runs.append({"argv": [mlr] + flags + mode + verbs, "stdin": b3.dkvp(to_text_stream(x["s"])),
                         "timeout_ms": 10000})
    vlib.log("[c12] %d cases generated, %d runs, %.0fs" % (len(generated), len(runs), time.time() - t0))
    res = vlib.run_cases(runs)
    vlib.log("[c12] cases run, %.0fs" % (time.time() - t0))
    vlib.confirm_timeouts(runs, res)
    obs = []
    for x, r in zip(cases, res):
        obs.append({"c": x["c"], "s": x["s"], "out": to_char_stream(b3.parse_dkvp(r["stdout"])),
                    "exit": -2 if r["timed_out"] else r["exit"]})
    bad, n = b3.validate("VerbsRestructureObs", obs, chunk=4000)
    states += n
    transitions += n
    vlib.log("[c12] observations judged, %d not conforming, %.0fs" % (len(bad), time.time() - t0))
    for idx, _ in bad:
        c = cases[idx]["c"]
        V.violation(key_of(c),
                    {"argv": runs[idx]["argv"][1:], "input": b3.dkvp(to_text_stream(cases[idx]["s"])),
                     "observed": res[idx]["stdout"][:2000], "exit": obs[idx]["exit"], "stderr": res[idx]["stderr"][:500],
                     "case": cases[idx]})
    badset = {i for i, _ in bad}
    good = [o for i, o in enumerate(obs) if i not in badset]
    st = b3.selftest_corruption("VerbsRestructureObs", [o for o in good if o["c"]["v"] == "reorder"] + good[:50])
    cov["obs_selftest"] = st
    if st["ok"] is False:
        raise vlib.Inconclusive("observation self-test failed: %r" % st)
    cov["obs_sensitivity"] = sensitivity(obs, badset)
    nontrivial = {json.dumps(o, sort_keys=True) for o in obs if o["out"] != o["s"] and o["out"]}
    per_verb = {}
    for x in generated:
        per_verb[x["c"]["v"]] = per_verb.get(x["c"]["v"], 0) + 1
    cov["samples"] += [{"argv": runs[i]["argv"][1:], "input": runs[i]["stdin"], "output": res[i]["stdout"]}
                       for i in (len(runs) // 7, len(runs) // 2, len(runs) - 5)]
    nconf = len({json.dumps(x["c"], sort_keys=True) for x in generated})
    cov["cases_generated"] = len(generated)
    cov["wide_record_cases"] = (len(runs) - len(generated)) // 2
    cov.update({
        "states": states, "transitions": transitions, "traces_validated_against_impl": len(runs),
        "evaluations": len(runs), "distinct_nontrivial": len(nontrivial),
        "rule": "every (verb configuration, stream) of VerbsRestructureCases.tla: %d configurations, streams of <= %d records "
                "(per-record verbs) / <= %d records (whole-stream verbs) over the record universes of that module; non-trivial "
                "= output non-empty and different from the input; distinct by case and output"
                % (nconf, consts["MaxLen1"], consts["MaxLen"]),
        "exhaustive": True, "verb_configurations": nconf, "cases_per_verb": per_verb,
    })
    rc = V.finish()
    vlib.write_evidence(PROP, tier, seed, time.time() - t0, cov, [
        "bounded: field names a,b,c,d (+ absent z, new x,y), one-character values, streams of <= %d / <= %d records"
        % (consts["MaxLen1"], consts["MaxLen"]),
        "regular-expression options only in the form ^(name|name)$ derived from a list of names",
        "where reference-verbs.md is silent (repeated names, renaming onto an existing field, label colliding with a later "
        "field, records lacking the field of a non-streaming verb, ragged long-to-wide input) the specification demands "
        "only what the property statement says (bystander fields intact) or nothing",
        "flatten/unflatten, json-stringify/json-parse, case, sub/gsub/ssub, sec2gmt beyond two integer values, template -t, "
        "reorder -b/-a, fill-down are not covered",
        "the expectations are VerbsRestructure.tla's, written from reference-verbs.md; the harness only spells verb "
        "options and joins/splits DKVP text and characters",
    ], len(V.violations))
    return rc


def replay(path):
    with open(path) as f:
        v = json.load(f)
    d = v.get("detail", {})
    print(json.dumps(v, indent=1))
    if "argv" in d:
        import subprocess
        mlr = vlib.build_mlr()
        p = subprocess.run([mlr] + d["argv"], input=d.get("input", ""), capture_output=True, text=True, timeout=60)
        print("--- re-run now: exit %d\n%s%s" % (p.returncode, p.stdout, p.stderr))
        case = d.get("case")
        if case:
            o = {"c": case["c"], "s": case["s"], "out": to_char_stream(b3.parse_dkvp(p.stdout)), "exit": p.returncode}
            bad, _ = b3.validate("VerbsRestructureObs", [o])
            print("--- judged by VerbsRestructureObs: %s" % ("NOT conforming" if bad else "conforming"))
            return 1 if bad else 0
    return 0
