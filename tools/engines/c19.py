"""C19 — in-place mode never leaves a file half-written.

InPlace.tla is the protocol of `mlr -I` step by step with Crash enabled in every state. TLC checks Atomic,
LaterUntouched, EarlierDone, NoTempAfterErrReturn, SuccessMeansAll, RefusedBeforeModify exhaustively; InPlaceGen
enumerates every crash point (hook site, n-th passage) of every scenario; the rebuilt binary is killed there
(MLR_VERIF_CRASH) and InPlaceTrace.tla validates both the hook log and the directory found afterwards."""
import base64
import gzip
import json
import random
import time

import vlib

PROP = "C19"
# per-file state (begin block, oosvar counter, NR/FNR/FILENAME) is part of the transformed contents, so that a run
# whose files are not processed independently produces a file that is neither original nor transformed
DSL = ('begin {@c = 100} $i == 13 {int z = "x"} $i == 66 {$y = asserting_null($i)} '
       '@c += 1; $c = @c; $nr = NR; $fnr = FNR; $f = FILENAME')
# the second command of the "retry" cases (InPlace.tla, run 2): reads every record, so the files that made the first command
# fail make it fail in the same way; prints one short record per non-empty file, so its output is SHORTER than anything
# the first command can have left in a temp file; and T2(T1(file)) = T2(file) because T1 keeps the first record's i
DSL2 = ('$i == 13 {int z = "x"} $i == 66 {$y = asserting_null($i)} NR == 1 {@r = {"i": $i}} end {emit @r}')
SITE = {"begin": "inplace.begin", "errReturn": "inplace.errReturn", "tempCreated": "inplace.tempCreated",
        "wrapped": "inplace.wrapped", "wrote": "writer.wrote", "flushed": "main.return",
        "streamDone": "inplace.streamDone", "wrapperClosed": "inplace.wrapperClosed", "closed": "inplace.closed",
        "renamed": "inplace.renamed", "chmodded": "inplace.chmodded"}
RSITE = {v: k for k, v in SITE.items()}
WRITEFAIL_PAD = 30000            # two such records exceed the limit below several times over
WRITEFAIL_LIMIT_BLOCKS = 8       # (sh counts 512-byte blocks: 4 KiB)
WRITEFAIL_GZ_PAD = 6000          # two such records are little enough for the recompressor to hold them back until it is
                                 # closed, and their compressed form still exceeds the limit
FORMATS = {
    "dkvp": {"flags": [], "rec": lambda i: "i=%d\n" % i, "head": "", "ext": "dkvp"},
    "csv": {"flags": ["--csv"], "rec": lambda i: "%d\n" % i, "head": "i\n", "ext": "csv"},
    "json": {"flags": ["--json"], "rec": lambda i: '{"i": %d}\n' % i, "head": "", "ext": "json"},
    "tsv": {"flags": ["--tsv"], "rec": lambda i: "%d\n" % i, "head": "i\n", "ext": "tsv"},
}


def file_plan(sc, fmt):
    """names, original bytes and modes of the scenario's files (a rendering table, no semantics)."""
    F = FORMATS[fmt]
    plan = []
    for f, fd in enumerate(sc["files"], start=1):
        kind, n, gz = fd["kind"], fd["n"], fd["gz"]
        name = "d%d/f%d.%s" % (f, f, F["ext"])
        ids = [100 * f + k for k in range(1, n + 1)]
        if kind == "streamerr":
            ids.append(13)
        if kind == "abort":
            ids.append(66)
        body = F["head"] + "".join(F["rec"](i) for i in ids)
        if kind == "writefail":
            # records too big for the file size limit the command runs under (render): the temp file cannot take them
            import hashlib

            def pad(i):
                if not gz:
                    return "p" * WRITEFAIL_PAD
                # text that does not compress, different in every record: the recompressed output, too, exceeds the limit
                return "".join(hashlib.sha256(("%d:%d" % (i, j)).encode()).hexdigest() for j in range(WRITEFAIL_GZ_PAD // 64 + 1))[:WRITEFAIL_GZ_PAD]
            body = {"dkvp": "".join("i=%d,pad=%s\n" % (i, pad(i)) for i in ids),
                    "csv": "i,pad\n" + "".join("%d,%s\n" % (i, pad(i)) for i in ids),
                    "tsv": "i\tpad\n" + "".join("%d\t%s\n" % (i, pad(i)) for i in ids),
                    "json": "".join('{"i": %d, "pad": "%s"}\n' % (i, pad(i)) for i in ids)}[fmt]
        if kind == "streamerr" and fmt in ("csv", "tsv") and f % 2 == 0:
            # malformed input instead of a DSL error: a ragged last row
            body = body[:-len(F["rec"](13))] + ("13,extra\n" if fmt == "csv" else "13\textra\n")
        body = body.encode()
        if kind == "wrapfail":
            name += ".bz2"
        if gz:
            name += ".gz"
            body = gzip.compress(body)
        plan.append({"name": name, "bytes": body, "mode": 0o644 if f % 2 else 0o755, "kind": kind, "gz": gz,
                     "dir": "d%d" % f})
    return plan


def render(mlr, sc, fmt, crash):
    plan = file_plan(sc, fmt)
    files_b64, modes = {}, {}
    for p in plan:
        if p["kind"] != "missing":
            files_b64[p["name"]] = base64.b64encode(p["bytes"]).decode()
            modes[p["name"]] = p["mode"]
        else:
            files_b64[p["dir"] + "/.keep"] = ""
    argv = [mlr, "-I"] + FORMATS[fmt]["flags"]
    if sc["prepipe"]:
        argv += ["--prepipe", "cat"]
    argv += ["put", DSL] + [p["name"] for p in plan]
    env = {"MLR_VERIF_TRACE": "trace.ndjson"}
    if crash:
        env["MLR_VERIF_CRASH"] = "%s#%d" % (SITE[crash[0]], crash[1])
    case = {"argv": argv, "files_b64": files_b64, "modes": modes, "env": env, "collect": True, "b64": True,
            "timeout_ms": 15000}
    imm = [p["dir"] for p in plan if p["kind"] == "tempfail"]
    limited = any(p["kind"] == "writefail" for p in plan)
    if imm or limited:
        import shlex
        cmd = " ".join(shlex.quote(a) for a in argv)
        if limited:
            # the limit applies to every file the process writes: the hook log goes through a FIFO to a reader outside the limit
            cmd = ("mkfifo tr.fifo; cat tr.fifo > trace.ndjson & (ulimit -f %d; MLR_VERIF_TRACE=tr.fifo exec %s); rc=$?; wait; "
                   "rm -f tr.fifo; (exit $rc)" % (WRITEFAIL_LIMIT_BLOCKS, cmd))
        if imm:
            cmd = "chattr +i %s; %s; rc=$?; chattr -i %s; exit $rc" % (" ".join(imm), cmd, " ".join(imm))
        case["shell"] = cmd
    return case, plan


def render_rerun(mlr, sc, fmt, crash, crash2=None):
    """the first command (killed at the crash point, if any), then the second command on the same files (killed at its own
    crash point, if any)"""
    import shlex
    case, plan = render(mlr, sc, fmt, crash)
    argv1 = case["argv"]
    argv2 = [mlr, "-I"] + FORMATS[fmt]["flags"] + (["--prepipe", "cat"] if sc["prepipe"] else []) + ["put", "-q", DSL2] + [p["name"] for p in plan]
    env1 = "MLR_VERIF_TRACE=trace.ndjson" + (" MLR_VERIF_CRASH='%s#%d'" % (SITE[crash[0]], crash[1]) if crash else "")
    case = dict(case)
    case["env"] = {}
    env2 = "MLR_VERIF_TRACE=trace2.ndjson" + (" MLR_VERIF_CRASH='%s#%d'" % (SITE[crash2[0]], crash2[1]) if crash2 else "")
    case["shell"] = "%s %s 2>err1.txt; echo $? > rc1.txt; %s exec %s" % (
        env1, " ".join(shlex.quote(a) for a in argv1), env2, " ".join(shlex.quote(a) for a in argv2))
    case["argv2"] = argv2
    return case, plan


def reference2_cases(mlr, p, fmt, ref1):
    """what the second command prints for this file alone: on the original bytes and on the first command's output"""
    out = []
    raw = gzip.decompress(p["bytes"]) if p["gz"] else p["bytes"]
    for tag, body in (("orig", raw), ("new", ref1)):
        name = "x." + FORMATS[fmt]["ext"]
        out.append({"argv": [mlr] + FORMATS[fmt]["flags"] + ["put", "-q", DSL2, name],
                    "files_b64": {name: base64.b64encode(body).decode()}, "b64": True})
    return out


def reference_cases(mlr, sc, fmt):
    """the property's own definition of the transformed contents: the same command without -I on each file alone"""
    plan = file_plan(sc, fmt)
    out = []
    for p in plan:
        if p["kind"] != "ok":
            out.append(None)
            continue
        argv = [mlr] + FORMATS[fmt]["flags"] + ["put", DSL, p["name"]]
        out.append({"argv": argv, "files_b64": {p["name"]: base64.b64encode(p["bytes"]).decode()}, "b64": True})
    return out


def observe(sc, plan, refs, res, refs2=None):
    files = []
    got = res.get("files_b64") or {}
    modes = res.get("modes") or {}
    for p, ref in zip(plan, refs):
        if p["name"] not in got:
            files.append({"exists": False, "isOrig": False, "isNew": False, "mode": "none"})
            if refs2 is not None:
                files[-1]["isNew2"] = False
            continue
        data = base64.b64decode(got[p["name"]])
        is_new = False
        if ref is not None:
            if p["gz"]:
                try:
                    is_new = gzip.decompress(data) == ref
                except Exception:
                    is_new = False
            else:
                is_new = data == ref
        m = modes.get(p["name"])
        files.append({"exists": True, "isOrig": data == p["bytes"], "isNew": is_new,
                      "mode": "orig" if m == p["mode"] else "temp" if m == 0o600 else "other"})
        if refs2 is not None:
            r2 = refs2[len(files) - 1]
            is2 = False
            if r2 is not None:
                try:
                    is2 = (gzip.decompress(data) if p["gz"] else data) == r2
                except Exception:
                    is2 = False
            files[-1]["isNew2"] = is2
    temps = sum(1 for name in got if "mlr-in-place-" in name)
    killed = res.get("signal") == "killed" or res["exit"] == 137 or res["exit"] == -1 and res.get("signal")
    ex = "killed" if killed else "ok" if res["exit"] == 0 else "err"
    return {"exit": ex, "temps": temps, "files": files}


def events(res, name="trace.ndjson"):
    raw = []
    for line in ((res.get("files") or {}).get(name, "")).splitlines():
        if line.strip().endswith("}"):
            try:
                raw.append(json.loads(line))
            except ValueError:
                pass
    raw.sort(key=lambda e: e["n"])
    ev = []
    for e in raw:
        if e["site"] in RSITE and not e["role"].startswith("fw:"):
            ev.append({"s": RSITE[e["site"]], "a": e.get("a", [])})
    return ev


def validate(runs):
    text = "".join(json.dumps(r) + "\n" for r in runs)
    r = vlib.tlc("InPlaceTrace", extra_files={"traces.ndjson": text}, workers=1, timeout=3000)
    if r.error:
        raise vlib.Inconclusive("InPlaceTrace failed: %s\n%s" % (r.error, r.out[-3000:]))
    rej = [p for p in r.printed if isinstance(p, dict) and "rejected" in p]
    return rej, r


def run(tier, seed):
    t0 = time.time()
    rnd = random.Random(seed)
    V = vlib.Verdicts(PROP)
    mlr = vlib.build_mlr()
    thorough = tier == "thorough"
    cov = {"tlc_runs": [], "samples": [], "model_drift": []}

    # ---- 1. the protocol with Crash in every state, exhaustively -----------------------------
    mf = 3
    cfg = ("SPECIFICATION Spec\nCONSTANTS\n  Scenarios <- MCScenarios\n  MaxFiles = %d\n  MaxRuns = 2\n  ReuseStaleTemp = FALSE\n"
           "INVARIANTS Atomic LaterUntouched EarlierDone NoTempAfterErrReturn SuccessMeansAll RefusedBeforeModify LeftoverOnlyByCrash FreshTemp\n"
           "PROPERTY RenameOnlyComplete\nCHECK_DEADLOCK TRUE\n" % mf)
    r = vlib.tlc("MCInPlace", cfg="gen.cfg", extra_files={"gen.cfg": cfg}, timeout=3000)
    if r.error:
        raise vlib.Inconclusive("TLC error: %s\n%s" % (r.error, r.out[-2000:]))
    states, transitions = r.distinct, r.generated
    cov["tlc_runs"].append({"module": "MCInPlace", "max_files": mf, "distinct_states": r.distinct,
                            "states_generated": r.generated, "result": r.violated or "no error"})
    design_violation = r.violated
    # self-test of the design check: a temp file with a predictable name, opened without truncation, inherits what a killed
    # run left in it; TLC must find the named file "mixed" after the retry
    mcfg = ("SPECIFICATION Spec\nCONSTANTS\n  Scenarios <- MCScenarios\n  MaxFiles = 1\n  MaxRuns = 2\n  ReuseStaleTemp = TRUE\n"
            "INVARIANTS Atomic\nCHECK_DEADLOCK TRUE\n")
    m = vlib.tlc("MCInPlace", cfg="gen.cfg", extra_files={"gen.cfg": mcfg}, timeout=3000)
    cov["design_selftest"] = {"mutation": "ReuseStaleTemp", "expected": "Atomic violated", "result": m.violated or m.error or "no error"}
    if m.violated != "Atomic":
        raise vlib.Inconclusive("design self-test: ReuseStaleTemp not detected by TLC: %r" % (m.violated or m.error))

    # ---- 2. every crash point of every scenario, on the real binary --------------------------
    gen_mf = 3 if thorough else 2
    gcfg = ("SPECIFICATION Spec\nCONSTANTS\n  Scenarios <- MCScenarios\n  MaxFiles = %d\n  MaxRuns = 1\n  ReuseStaleTemp = FALSE\n"
            "INVARIANT Emit\nCHECK_DEADLOCK FALSE\n" % gen_mf)
    g = vlib.tlc("InPlaceGen", cfg="gen.cfg", extra_files={"gen.cfg": gcfg}, workers=1, timeout=3000)
    if not g.ok:
        raise vlib.Inconclusive("InPlaceGen failed: %s" % (g.error or g.violated))
    gen = g.printed
    if not thorough:
        # all runs of all scenarios of <= 2 files, plus a seeded sample of the 3-file ones
        g3cfg = gcfg.replace("MaxFiles = 2", "MaxFiles = 3")
        g3 = vlib.tlc("InPlaceGen", cfg="gen.cfg", extra_files={"gen.cfg": g3cfg}, workers=1, timeout=3000)
        if not g3.ok:
            raise vlib.Inconclusive("InPlaceGen failed: %s" % (g3.error or g3.violated))
        three = [x for x in g3.printed if len(x["sc"]["files"]) == 3]
        gen = gen + rnd.sample(three, min(len(three), 2500))
    cases, meta = [], []
    fmts_cycle = ["dkvp", "csv", "json", "tsv"]
    for k, gcase in enumerate(gen):
        sc = gcase["sc"]
        fmt = "dkvp" if not thorough and k % 3 else fmts_cycle[k % 4]
        crash = (gcase["site"], gcase["n"]) if gcase["crash"] else None
        case, plan = render(mlr, sc, fmt, crash)
        cases.append(case)
        meta.append((sc, fmt, crash, plan, False, None))
    # the retry: a second, different command on the same files after the first has ended in any way, itself killed at every
    # one of ITS crash points or run to its end - every pair of runs the specification has (MaxRuns = 2)
    g2cfg = gcfg.replace("MaxRuns = 1", "MaxRuns = 2").replace("MaxFiles = 3", "MaxFiles = 2")
    g2 = vlib.tlc("InPlaceGen", cfg="gen.cfg", extra_files={"gen.cfg": g2cfg}, workers=1, timeout=3000)
    if not g2.ok:
        raise vlib.Inconclusive("InPlaceGen (two runs) failed: %s" % (g2.error or g2.violated))
    pairs = [x for x in g2.printed if not any(fd["kind"] in ("writefail", "tempfail") for fd in x["sc"]["files"])]
    if thorough:
        g3cfg = g2cfg.replace("MaxFiles = 2", "MaxFiles = 3")
        g23 = vlib.tlc("InPlaceGen", cfg="gen.cfg", extra_files={"gen.cfg": g3cfg}, workers=1, timeout=6000)
        if not g23.ok:
            raise vlib.Inconclusive("InPlaceGen (two runs, three files) failed: %s" % (g23.error or g23.violated))
        three = [x for x in g23.printed if len(x["sc"]["files"]) == 3 and
                 not any(fd["kind"] in ("writefail", "tempfail") for fd in x["sc"]["files"])]
        pairs += rnd.sample(three, min(len(three), 20000))
    elif len(pairs) > 5000:
        pairs = rnd.sample(pairs, 5000)
    for k, x in enumerate(pairs):
        sc = x["sc"]
        fmt = "dkvp" if not thorough and k % 3 else fmts_cycle[k % 4]
        crash1 = (x["prev"]["site"], x["prev"]["n"]) if x["prev"]["how"] == "killed" else None
        crash2 = (x["site"], x["n"]) if x["crash"] else None
        case2, plan2 = render_rerun(mlr, sc, fmt, crash1, crash2)
        cases.append(case2)
        meta.append((sc, fmt, crash1, plan2, True, crash2))
    # reference transformed contents (one run per distinct file)
    ref_cache = {}
    ref_cases = []
    for sc, fmt, crash, plan, rerun, crash2 in meta:
        for p, rc in zip(plan, reference_cases(mlr, sc, fmt)):
            key = (fmt, p["name"], p["bytes"])
            if rc is not None and key not in ref_cache:
                ref_cache[key] = len(ref_cases)
                ref_cases.append(rc)
    ref_res = vlib.run_cases(ref_cases)
    for rr in ref_res:
        if rr["exit"] != 0:
            raise vlib.Inconclusive("reference run without -I failed: %s" % rr["stderr"][:500])
    # what the second command prints for each distinct file: T2(original) must equal T2(T1(original))
    ref2_cache, ref2_cases = {}, []
    for sc, fmt, crash, plan, rerun, crash2 in meta:
        if not rerun:
            continue
        for p in plan:
            key = (fmt, p["name"], p["bytes"])
            if key in ref_cache and key not in ref2_cache:
                ref2_cache[key] = len(ref2_cases)
                ref2_cases += reference2_cases(mlr, p, fmt, base64.b64decode(ref_res[ref_cache[key]].get("stdout_b64", "")))
    ref2_res = vlib.run_cases(ref2_cases)
    for k in range(0, len(ref2_res), 2):
        a, b = ref2_res[k], ref2_res[k + 1]
        if a["exit"] != 0 or b["exit"] != 0 or a.get("stdout_b64") != b.get("stdout_b64"):
            raise vlib.Inconclusive("second command: T2(T1(file)) differs from T2(file), or the reference run failed: %r / %r"
                                    % (a["stderr"][:300], b["stderr"][:300]))
    res = vlib.run_cases(cases)
    vlib.confirm_timeouts(cases, res)
    runs = []
    for (sc, fmt, crash, plan, rerun, crash2), case, rr in zip(meta, cases, res):
        refs, refs2 = [], []
        for p in plan:
            key = (fmt, p["name"], p["bytes"])
            refs.append(base64.b64decode(ref_res[ref_cache[key]].get("stdout_b64", "")) if key in ref_cache else None)
            refs2.append(base64.b64decode(ref2_res[ref2_cache[key]].get("stdout_b64", "")) if key in ref2_cache else None)
        o = observe(sc, plan, refs, rr, refs2 if rerun else None)
        ev = events(rr)
        if rerun:
            rc1 = ((rr.get("files") or {}).get("rc1.txt", "") or "").strip()
            if not rc1.isdigit():
                raise vlib.Inconclusive("retry case: the first command's exit status was not recorded: %r" % rr["stderr"][:300])
            how = "killed" if rc1 == "137" else "ok" if rc1 == "0" else "err"
            ev = ev + [{"s": "exit", "a": [how]}, {"s": "restart", "a": []}] + events(rr, "trace2.ndjson")
        runs.append({"sc": sc, "ev": ev, "obs": o, "_crash": crash, "_crash2": crash2, "_fmt": fmt, "_argv": case["argv"][1:],
                     "_argv2": case.get("argv2", [None])[1:] if rerun else None, "_rerun": rerun,
                     "_stderr": rr["stderr"][:500], "_timedout": rr["timed_out"]})

    # the property, judged directly on what was observed (independent of the protocol model):
    # every named file whole; later files untouched; no temp after a normal error return
    for rn in runs:
        o = rn["obs"]
        key_base = {"fmt": rn["_fmt"], "crash": list(rn["_crash"]) if rn["_crash"] else None}
        if rn["_rerun"]:
            key_base["retry"] = True
            key_base["crash2"] = list(rn["_crash2"]) if rn["_crash2"] else None
        if rn["_timedout"]:
            V.violation(dict(key_base, why="hang"), rn)
            continue
        for f, (fd, x) in enumerate(zip(rn["sc"]["files"], o["files"]), start=1):
            if fd["kind"] == "missing":
                continue
            if not x["exists"] or not (x["isOrig"] or x["isNew"] or x.get("isNew2")):
                V.violation(dict(key_base, why="file neither original nor transformed", kind=fd["kind"]),
                            {"file": f, "run": rn})
        if o["exit"] == "ok" and rn["_rerun"]:
            # (modes and left-over temp files depend on where the first command was killed: judged by the specification)
            for f, (fd, x) in enumerate(zip(rn["sc"]["files"], o["files"]), start=1):
                if not x.get("isNew2"):
                    V.violation(dict(key_base, why="second command succeeded but file is not what it prints for that file"), {"file": f, "run": rn})
        elif o["exit"] == "ok":
            for f, (fd, x) in enumerate(zip(rn["sc"]["files"], o["files"]), start=1):
                if not (x["isNew"] and x["mode"] == "orig"):
                    V.violation(dict(key_base, why="success but file not transformed or mode not preserved"), {"file": f, "run": rn})
            if o["temps"]:
                V.violation(dict(key_base, why="temp file left after success"), rn)
    # the protocol: hook log and directory against the specification
    tl_runs = [{k: v for k, v in rn.items() if not k.startswith("_")} for rn in runs]
    rejected = []
    tstates = tgen = 0
    for s in range(0, len(tl_runs), 4000):
        rej, tr = validate(tl_runs[s:s + 4000])
        tstates += tr.distinct
        tgen += tr.generated
        for x in rej:
            x = dict(x)
            x["rejected"] += s
            rejected.append(x)
        if tr.violated and tr.violated != "postcondition":
            cov["model_drift"].append({"invariant_violated_on_real_trace": tr.violated})
    states += tstates
    transitions += tgen
    for rj in rejected:
        rn = runs[rj["rejected"] - 1]
        ev = rn["ev"]
        at = ev[rj["matched"]] if rj["matched"] < len(ev) else "directory after the run"
        # A run the specification cannot explain. If what was observed breaks the property, the direct
        # judgement above has already reported it; otherwise it is drift between model and code.
        d = {"scenario": rn["sc"], "crash": rn["_crash"], "fmt": rn["_fmt"], "matched": rj["matched"],
             "total": rj["total"], "first_unmatched": at, "obs": rn["obs"]}
        cov["model_drift"].append(d)
        # leftovers after a normal error return, or a temp where the protocol has none, are violations of
        # the statement itself ("failures reported through the normal error path leave no temporary file")
        o = rn["obs"]
        if o["exit"] == "err" and o["temps"] and not rn["_rerun"] and not any(fd["kind"] == "abort" for fd in rn["sc"]["files"]):
            V.violation({"why": "temp file left after error return", "fmt": rn["_fmt"]}, rn)

    # self-test of the binding: corrupt an observation and a log, both must be rejected
    st = selftest([r for k, r in enumerate(tl_runs) if k not in {rj["rejected"] - 1 for rj in rejected}])
    cov["trace_selftest"] = st
    if st["ok"] is False:
        raise vlib.Inconclusive("in-place trace self-test failed: %r" % st)

    crash_runs = sum(1 for rn in runs if rn["_crash"])
    killed = sum(1 for rn in runs if rn["obs"]["exit"] == "killed" or
                 rn["_rerun"] and any(e["s"] == "exit" and e["a"] == ["killed"] for e in rn["ev"]))
    cov["samples"].append({"kind": "crash replay", "argv": runs[len(runs) // 2]["_argv"], "crash": runs[len(runs) // 2]["_crash"],
                           "events": [e["s"] for e in runs[len(runs) // 2]["ev"]], "observed": runs[len(runs) // 2]["obs"]})
    cov["samples"].append({"kind": "crash replay", "argv": runs[-1]["_argv"], "crash": runs[-1]["_crash"],
                           "events": [e["s"] for e in runs[-1]["ev"]], "observed": runs[-1]["obs"]})
    distinct = {json.dumps([rn["sc"], rn["_crash"], rn["_crash2"], rn["_fmt"], rn["_rerun"]], sort_keys=True) for rn in runs}
    cov.update({
        "states": states, "transitions": transitions,
        "traces_validated_against_impl": len(runs),
        "evaluations": len(runs) + len(ref_cases),
        "distinct_nontrivial": len({json.dumps([rn["sc"], rn["_crash"], rn["_crash2"], rn["_fmt"], rn["_rerun"]], sort_keys=True) for rn in runs if rn["_crash"] or rn["_crash2"]}),
        "retry_runs_killed_twice": sum(1 for rn in runs if rn["_rerun"] and rn["_crash"] and rn["_crash2"] and rn["obs"]["exit"] == "killed"),
        "retry_runs": sum(1 for rn in runs if rn["_rerun"]),
        "retry_runs_after_a_kill": sum(1 for rn in runs if rn["_rerun"] and any(e["s"] == "exit" and e["a"] == ["killed"] for e in rn["ev"])),
        "rule": "scenarios (file lists x failure kinds x compression) and crash points (hook site, n-th passage) enumerated by TLC "
                "from InPlace.tla; non-trivial = the process is killed at a crash point; distinct by (scenario, crash point, format)",
        "crash_runs": crash_runs, "runs_actually_killed": killed, "rejected_by_spec": len(rejected),
        "exhaustive": True,
        "scenarios": len({json.dumps(rn["sc"], sort_keys=True) for rn in runs}),
        "distinct_cases": len(distinct),
    })
    rc = V.finish()
    assumptions = [
        "SIGKILL at a hook site stands for a crash; loss of un-synced data at power failure is outside the model (Miller does not fsync)",
        "crash points are the hook sites of processFileInPlace, every written record and the stream's final flush",
        "the retry after a crash is one fixed second command (put -q with the same failure triggers, one short record per file at end of stream), itself killed at each of its crash points or run to its end",
        "the transformed contents of a file are what the same command without -I prints for that file alone (run on the same binary)",
        "directories made immutable (chattr +i) stand for an unwritable directory, since the checks run as root",
    ]
    if killed < crash_runs:
        cov["model_drift"].append({"note": "%d crash runs were not killed (crash point not reached)" % (crash_runs - killed)})
    if design_violation and rc == 0:
        print("INCONCLUSIVE %s: design-level violation %s not reproduced" % (PROP, design_violation))
        rc = 2
    vlib.write_evidence(PROP, tier, seed, time.time() - t0, cov, assumptions, len(V.violations))
    return rc


def selftest(tl_runs):
    import copy
    cands = [r for r in tl_runs if r["obs"]["exit"] == "killed" and len(r["ev"]) >= 6 and
             any(e["s"] == "renamed" for e in r["ev"]) and
             any(x["isNew"] and not x["isOrig"] for x in r["obs"]["files"])]
    if not cands:
        # every candidate run was rejected (the tree does not follow the protocol): nothing to corrupt; the rejections
        # themselves are reported
        return {"ok": None, "why": "no accepted candidate run"}
    base = cands[0]
    a = copy.deepcopy(base)      # claim the renamed file still has its original contents
    for x in a["obs"]["files"]:
        if x["isNew"] and not x["isOrig"]:
            x["isNew"], x["isOrig"] = False, True
            break
    b = copy.deepcopy(base)      # drop the "closed" step: rename before close
    b["ev"] = [e for e in b["ev"] if e["s"] != "closed"]
    c = copy.deepcopy(base)
    batch, expected = [a, b, c], [1, 2]
    rr = [r for r in tl_runs if any(e["s"] == "restart" for e in r["ev"]) and any(x.get("isNew2") for x in r["obs"]["files"])]
    if rr:
        d = copy.deepcopy(rr[0])      # the second command's result is claimed not to be its own output
        for x in d["obs"]["files"]:
            if x.get("isNew2"):
                x["isNew2"] = False
                x["isOrig"] = x["isNew"] = False
                break
        e = copy.deepcopy(rr[0])      # the second command's log without its restart
        e["ev"] = [v for v in e["ev"] if v["s"] != "restart"]
        batch += [d, e, copy.deepcopy(rr[0])]
        expected += [4, 5]
    rej, r = validate(batch)
    got = sorted(x["rejected"] for x in rej)
    return {"ok": got == expected, "rejected": got, "expected": expected}


def replay(path):
    with open(path) as f:
        print(f.read())
    return 0
