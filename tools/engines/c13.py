"""C13 — join pairs exactly the matching records and accounts for every record once.

Join.tla is the relational definition of `mlr join` written from its usage text and questions-about-joins.md; TLC
checks the property's laws on the definition (JoinMC: counting identity, --np, --ignore-empty, pair order, merge join
= relational join on sorted inputs), enumerates the case space configuration x left file x right stream (JoinGen),
the rebuilt binary runs every case (left file on disk, right stream on stdin) and JoinObs judges each output."""
import json
import os
import time
from concurrent.futures import ThreadPoolExecutor

import b3
import vlib

PROP = "C13"

LEFT_NAME = {"": "left.dkvp", "--ijson": "left.json", "-i json": "left.json", "--icsv": "left.csv", "-i csv": "left.csv"}


# ---- rendering only: records -> file text, options -> argv, output text -> records ---------------------

def dkvp(stream, fs):
    return "".join(fs.join("%s=%s" % (k, v) for k, v in rec) + "\n" for rec in stream)


def parse_dkvp(text, fs):
    out = []
    lines = text.split("\n")
    if lines and lines[-1] == "":
        lines.pop()
    for line in lines:
        rec = []
        if line != "":
            for pair in line.split(fs):
                k, _, v = pair.partition("=")
                rec.append([k, v])
        out.append(rec)
    return out


def left_text(c, left):
    fmt = c["fmt"]
    if fmt == "":
        return dkvp(left, c["ifs"])
    if fmt in ("--ijson", "-i json"):
        return "".join("{" + ", ".join("%s: %s" % (json.dumps(k), json.dumps(v)) for k, v in rec) + "}\n" for rec in left)
    if fmt in ("--icsv", "-i csv"):     # only generated for non-empty lists of records with the same field names
        return ",".join(k for k, _ in left[0]) + "\n" + "".join(",".join(v for _, v in rec) + "\n" for rec in left)
    raise ValueError(fmt)


def argv_of(c):
    main = [] if c["ifs"] == "," else ["--ifs", c["ifs"], "--ofs", c["ifs"]]
    a = main + ["join"] + (c["fmt"].split(" ") if c["fmt"] else [])
    if c["mode"]:
        a.append(c["mode"])
    for flag, name in (("np", "--np"), ("ul", "--ul"), ("ur", "--ur")):
        if c[flag]:
            a.append(name)
    if c["lp"]:
        a += ["--lp", c["lp"]]
    if c["rp"]:
        a += ["--rp", c["rp"]]
    if c["lk"]["on"]:
        a += ["--lk", ",".join(c["lk"]["f"])]
    if c["ie"]:
        a.append("--ignore-empty")
    if c["lg"]:
        a += ["-l", ",".join(c["l"])]
    if c["rg"]:
        a += ["-r", ",".join(c["r"])]
    a += ["-j", ",".join(c["j"]), "-f", LEFT_NAME[c["fmt"]]]
    return a


def shape_of(c):
    """A coarse name of the configuration for violation keys (spelling only)."""
    names = "none" if not c["j"] else ("two" if len(c["j"]) == 2 else "one")
    return {"mode": c["mode"] or "-u", "join_fields": names, "renamed": bool(c["lg"] or c["rg"]),
            "emit": "".join(k for k in ("np", "ul", "ur") if c[k]) or "paired", "prefix": bool(c["lp"] or c["rp"]),
            "lk": c["lk"]["on"], "ignore_empty": c["ie"], "left_format": c["fmt"] or "dkvp"}


def joined_keys_collide(x):
    """A fact about the input text, used only to label a disagreement: some left record and some right record have
    different join-field values whose comma-joined texts are the same (<<"a,a","a">> and <<"a","a,a">>)."""
    c = x["c"]
    lf = c["l"] if c["lg"] else c["j"]
    rf = c["r"] if c["rg"] else c["j"]

    def keys(recs, fs):
        out = set()
        for rec in recs:
            d = dict((k, v) for k, v in rec)
            if all(f in d for f in fs):
                out.add(tuple(d[f] for f in fs))
        return out
    return any(a != b and ",".join(a) == ",".join(b) for a in keys(x["left"], lf) for b in keys(x["right"], rf))


SIZES = {
    # gen: constants of JoinGen.tla; laws: constants of JoinMC.tla (one TLC run each)
    "quick": {"gen": {"MaxLen": 3, "MaxLen2": 2, "MaxLen3": 1, "Wide": "FALSE", "NCfg": 800, "PerCfg": 3,
                      "NLongU": 2500, "NLongS": 1000, "NLong2": 100},
              "laws": [{"MaxLen": 3, "MaxLen2": 2, "MaxLen3": 1, "Wide": "FALSE", "MCTotal": 4}]},
    "thorough": {"gen": {"MaxLen": 3, "MaxLen2": 2, "MaxLen3": 2, "Wide": "TRUE", "NCfg": 10000, "PerCfg": 4,
                         "NLongU": 30000, "NLongS": 15000, "NLong2": 0},
                 "laws": [{"MaxLen": 3, "MaxLen2": 2, "MaxLen3": 1, "Wide": "FALSE", "MCTotal": 6},
                          {"MaxLen": 3, "MaxLen2": 2, "MaxLen3": 1, "Wide": "TRUE", "MCTotal": 4}]},
}


def check_laws(size):
    out = []
    for consts in size["laws"]:
        k = dict(consts, NCfg=0, PerCfg=0)
        out.append((consts, b3.check_laws("JoinMC", k, timeout=3000)))
    return out


def run(tier, seed):
    t0 = time.time()
    V = vlib.Verdicts(PROP)
    mlr = vlib.build_mlr()
    vlib.build_harness("runner", tags="")
    size = SIZES["thorough" if tier == "thorough" else "quick"]
    cov = {"tlc_runs": [], "samples": []}
    states = transitions = 0

    # the laws on the specification itself are checked while the cases are generated and run
    pool = ThreadPoolExecutor(1)
    laws_future = pool.submit(check_laws, size)

    # quick: one TLC process generates all parts of the case space; thorough: one process per part
    parts = [0] if tier != "thorough" else [1, 2, 3, 4, 5, 6, 7, 8]
    with ThreadPoolExecutor(len(parts)) as ex:
        gens = list(ex.map(lambda p: b3.gen_cases("JoinGen", dict(size["gen"], Part=p), timeout=6000, seed=seed), parts))
    seen, cases = set(), []
    for printed, g in gens:
        for x in printed:                   # the parts of the case space overlap in a few cases
            k = json.dumps(x, sort_keys=True)
            if k not in seen:
                seen.add(k)
                cases.append(x)
        states += g.distinct
        transitions += g.generated
    t_gen = time.time() - t0

    runs = []
    for k, x in enumerate(cases):
        c = x["c"]
        flags = ["--records-per-batch", "1"] if k % 4 == 1 else (["--records-per-batch", "2"] if k % 4 == 2 else [])
        runs.append({"argv": [mlr] + flags + argv_of(c), "stdin": dkvp(x["right"], c["ifs"]),
                     "files": {LEFT_NAME[c["fmt"]]: left_text(c, x["left"])}, "timeout_ms": 10000})
    res = vlib.run_cases(runs)
    vlib.confirm_timeouts(runs, res)
    t_run = time.time() - t0 - t_gen
    obs = []
    for x, r in zip(cases, res):
        obs.append({"c": x["c"], "left": x["left"], "right": x["right"], "out": parse_dkvp(r["stdout"], x["c"]["ifs"]),
                    "exit": -2 if r["timed_out"] else r["exit"]})
        if "law" in x:                      # a case judged by a law only (JoinCases.tla, collision family)
            obs[-1]["law"] = x["law"]
    bad, n = b3.validate("JoinObs", obs, chunk=4000, threads=int(os.environ.get("VERIF_JOBS", "8")))
    states += n
    transitions += n
    for idx, p in bad:
        key = shape_of(cases[idx]["c"])
        key["why"] = p.get("why", "")
        key["joined_key_texts_collide"] = joined_keys_collide(cases[idx])
        V.violation(key, {"argv": runs[idx]["argv"][1:], "left": cases[idx]["left"], "right": cases[idx]["right"],
                          "left_file": runs[idx]["files"], "stdin": runs[idx]["stdin"], "observed": obs[idx]["out"],
                          "exit": obs[idx]["exit"], "stderr": res[idx]["stderr"][:500]})
    t_judge = time.time() - t0 - t_gen - t_run
    for consts, laws in laws_future.result():
        cov["tlc_runs"].append(dict(consts, module="JoinMC", distinct_states=laws.distinct, wall_s=round(laws.wall, 1),
                                    result=laws.violated or "no error"))
        if laws.violated:
            raise vlib.Inconclusive("the specification itself violates a law of the property: %s" % laws.violated)
        states += laws.distinct
        transitions += laws.generated
    bad_idx = {i for i, _ in bad}
    st = b3.selftest_corruption("JoinObs", [o for i, o in enumerate(obs) if i not in bad_idx and len(o["out"]) >= 3][:50])
    cov["obs_selftest"] = st
    if st["ok"] is False:
        raise vlib.Inconclusive("observation self-test failed: %r" % st)

    def swap(a):                             # exchange the first two different output records: order must be judged
        out = a["out"]
        for i in range(len(out) - 1):
            if out[i] != out[i + 1]:
                out[i], out[i + 1] = out[i + 1], out[i]
                return
    cand = [o for i, o in enumerate(obs) if i not in bad_idx and o["c"]["mode"] != "-s" and not o["c"]["np"]
            and not o["c"]["ul"] and not o["c"]["ur"] and len({json.dumps(r) for r in o["out"]}) >= 2]
    st2 = b3.selftest_corruption("JoinObs", cand[:12], mutate=swap) if cand else {"ok": None, "why": "no candidate"}
    cov["obs_selftest_order"] = st2
    if st2["ok"] is False:
        raise vlib.Inconclusive("observation self-test (order) failed: %r" % st2)

    # measured, not judged (the reference is silent): unsorted outputs that differ from the reference order
    probe = [o for i, o in enumerate(obs) if i not in bad_idx and o["c"]["mode"] != "-s" and o["c"]["ul"]][:4000]
    off, n2 = b3.validate("JoinObs", probe, invariant="InReferenceOrder")
    states += n2
    transitions += n2
    cov["measured_not_judged"] = {
        "what": "default-mode outputs with --ul that are not in the order 'right stream in order, then unpaired left "
                "records in left-file order' (allowed: the reference fixes neither the order among unpaired records nor "
                "the place of unpaired right records)",
        "examined": len(probe), "different": len(off),
        "example": ({"left": probe[off[0][0]]["left"], "right": probe[off[0][0]]["right"],
                     "output": probe[off[0][0]]["out"]} if off else None)}

    nontrivial = {json.dumps(o, sort_keys=True) for o in obs if o["out"] and o["left"] and o["right"]}
    configs = {json.dumps(x["c"], sort_keys=True) for x in cases}
    by_mode = {}
    for x in cases:
        by_mode[x["c"]["mode"] or "default"] = by_mode.get(x["c"]["mode"] or "default", 0) + 1
    cov["samples"] += [{"argv": runs[i]["argv"][1:], "left_file": runs[i]["files"], "stdin": runs[i]["stdin"],
                        "output": obs[i]["out"]} for i in (len(runs) // 7, len(runs) // 2, len(runs) - 5)]
    cov.update({
        "states": states, "transitions": transitions, "traces_validated_against_impl": len(runs),
        "evaluations": len(runs), "distinct_nontrivial": len(nontrivial),
        "rule": "JoinGen.tla: `join --ul --ur -j k` on every (left, right) pair of lists of <= %d records; `join -s --ul --ur "
                "-j k` on every pair of sorted lists; the two-join-field configurations on every pair of lists of <= %d "
                "records (of the pairs of two longest lists: %s / %s / %s per configuration); %d configurations drawn (seed) "
                "from the option cross product x %d list pairs each; non-trivial = both inputs and the output non-empty; "
                "distinct by case and output"
                % (size["gen"]["MaxLen"], size["gen"]["MaxLen2"],
                   *[("all" if size["gen"][k] == 0 else "%d draws" % size["gen"][k]) for k in ("NLongU", "NLongS", "NLong2")],
                   size["gen"]["NCfg"], size["gen"]["PerCfg"]),
        "exhaustive": False,
        "configurations": len(configs), "cases_by_mode": by_mode,
        "wall_parts_s": {"generate": round(t_gen, 1), "run": round(t_run, 1), "judge": round(t_judge, 1),
                         "laws_in_parallel": round(sum(l.wall for _, l in laws_future.result()), 1)},
    })
    rc = V.finish()
    vlib.write_evidence(PROP, tier, seed, time.time() - t0, cov, [
        "bounded inputs: lists of <= %d records over %s record shapes per side (keys a, b%s, empty, missing; duplicate "
        "keys, a non-key field name on both sides, join field not first)" % (
            size["gen"]["MaxLen"], "7" if size["gen"]["Wide"] == "TRUE" else "5", ", 10, 9" if size["gen"]["Wide"] == "TRUE" else ""),
        "the option cross product (naming shapes x emit flags x --lp/--rp x --lk x --ignore-empty x -u/-s x left-file "
        "format) is sampled by seed, only `--ul --ur -j k` (both modes) and the two-field configurations are run on every "
        "list pair",
        "-s is only run on inputs whose keyed records are in ascending lexical order on both sides; its output is judged "
        "as a multiset",
        "where the documentation is silent (place of unpaired right records, order among unpaired records) nothing is "
        "required; the expectations are Join.tla's, written from the usage text and questions-about-joins.md; the harness "
        "only spells options, writes DKVP/JSON/CSV text and splits DKVP lines",
        "--prepipe/--prepipex, separators other than , and ;, implicit-header options, main-stream formats other than "
        "DKVP are not covered",
    ], len(V.violations))
    return rc


def replay(path):
    with open(path) as f:
        v = json.load(f)
    print(json.dumps(v, indent=1))
    d = v.get("detail", {})
    if "argv" in d:
        mlr = vlib.build_mlr()
        r = vlib.run_cases([{"argv": [mlr] + d["argv"], "stdin": d.get("stdin", ""), "files": d.get("left_file", {}),
                             "timeout_ms": 10000}])[0]
        print("--- now: exit %s\n%s%s" % (r["exit"], r["stdout"], r["stderr"]))
    return 0
