"""C10 — aggregating verbs equal first-principles recomputation, group by group.

VerbsAggregate.tla defines every counting / statistics / stepping verb as set and sequence comprehensions over the whole
input stream (from reference-verbs.md and the null-data reference); TLC checks the laws of the property on the
definitions (VerbsAggregateMC), enumerates the bounded case space verb configuration x stream (VerbsAggregateGen: all
short streams, TLC-sampled longer ones), the rebuilt binary runs every case (one process per case, DKVP in and out) and
VerbsAggregateObs judges each output.  Python spells command lines and splits DKVP text; it computes no expected value."""
import copy
import json
import os
import time

import b3
import vlib

PROP = "C10"


def acc_name(a):
    return "p%d" % a["p"] if a["k"] == "p" else a["k"]


def step_name(a):
    return a["k"] + ("_%d" % a["p"] if a["p"] else "")


def argv_of(c):
    """The fixed spelling table: configuration -> mlr verb words."""
    v, g, f, a, n, o = c["v"], list(c["g"]), list(c["f"]), list(c["a"]), c["n"], list(c["o"])
    gl = ["-g", ",".join(g)] if g else []
    fl = ["-f", ",".join(f)] if f else []
    if v in ("count", "count-similar"):
        return [v] + gl + o
    if v == "count-distinct":
        return [v, "-f", ",".join(g)] + o
    if v == "uniq":
        return [v, "-g", ",".join(g)] + o
    if v == "stats1":
        return [v, "-a", ",".join(acc_name(x) for x in a)] + fl + gl + (["-w", str(n)] if n else []) + o
    if v == "merge-fields":
        return [v, "-a", ",".join(acc_name(x) for x in a)] + ([] if ("-r" in o or "-c" in o) else fl) + o
    if v == "step":
        return [v, "-a", ",".join(step_name(x) for x in a)] + fl + gl
    if v == "top":
        return [v, "-n", str(n)] + fl + gl + o
    if v in ("most-frequent", "least-frequent"):
        return [v, "-f", ",".join(g), "-n", str(n)] + o
    if v == "fill-down":
        return [v] + fl + o
    if v == "fill-empty":
        return [v] + o
    if v == "fraction":
        return [v] + fl + gl + o
    if v == "histogram":
        return [v, "--nbins", str(n)] + fl + o
    if v == "dsl-stats":
        calls = []
        for x in a:
            k = acc_name(x)
            call = {"p": "percentile(@v,%d)" % x["p"], "percentiles": "percentiles(@v,[25,75])"}.get(x["k"], "%s(@v)" % x["k"])
            calls.append('@o["%s"]=%s;' % (k, call))
        return ["put", "-q", "begin{@v={}} @v[NR]=$%s; end{@o={}; %s emit @o}" % (f[0], " ".join(calls))]
    raise ValueError(v)


def key_of(c, diag):
    """Identifies a kind of disagreement: the verb form and what TLC says differs (never an expected value)."""
    k = {"verb": c["v"], "opts": " ".join(c["o"]), "grouped": bool(c["g"]),
         "accs": ",".join((step_name if c["v"] == "step" else acc_name)(x) for x in c["a"])}
    for f in ("why", "mismatch", "nullonly", "gap", "gapfirst", "lead", "short", "multi"):
        if f in diag:
            k[f] = ",".join(sorted(diag[f])) if isinstance(diag[f], list) else diag[f]
    return k


BOUNDS = {"quick": {"ExLen": 2, "MaxLen": 4, "NSample": 25},
          "thorough": {"ExLen": 3, "MaxLen": 5, "NSample": 150}}
LAWLEN = {"quick": 3, "thorough": 4}


def run(tier, seed):
    t0 = time.time()
    V = vlib.Verdicts(PROP)
    mlr = vlib.build_mlr()
    cov = {"tlc_runs": [], "samples": []}
    bounds = BOUNDS[tier]

    laws = b3.check_laws("VerbsAggregateMC", {"MaxLen": LAWLEN[tier], "ExLen": 0, "NSample": 0}, timeout=1500)
    cov["tlc_runs"].append({"module": "VerbsAggregateMC", "MaxLen": LAWLEN[tier], "distinct_states": laws.distinct,
                            "result": laws.violated or "no error", "wall_s": round(laws.wall, 1)})
    if laws.violated:
        raise vlib.Inconclusive("the specification itself violates a law of the property: %s" % laws.violated)
    states, transitions = laws.distinct, laws.generated

    cases, g = b3.gen_cases("VerbsAggregateGen", bounds, timeout=3000, seed=seed)
    cases.sort(key=lambda x: json.dumps(x, sort_keys=True))
    cov["tlc_runs"].append({"module": "VerbsAggregateGen", "bounds": bounds, "cases": len(cases), "wall_s": round(g.wall, 1)})
    states += g.distinct
    transitions += g.generated
    runs = []
    for k, x in enumerate(cases):
        flags = []
        if k % 5 == 0:
            flags += ["--records-per-batch", "1"]
        elif k % 5 == 1:
            flags += ["--records-per-batch", "2"]
        # ";" separates fields so that values may contain commas (VerbsAggregateCases.RUsep)
        runs.append({"argv": [mlr, "--ifs", ";", "--ofs", ";"] + flags + argv_of(x["c"]), "stdin": b3.dkvp(x["s"], ";"),
                     "timeout_ms": 10000})
    t1 = time.time()
    res = vlib.run_cases(runs)
    vlib.confirm_timeouts(runs, res)
    cov["run_wall_s"] = round(time.time() - t1, 1)
    obs = []
    for x, r in zip(cases, res):
        obs.append({"c": x["c"], "s": x["s"], "out": b3.parse_dkvp(r["stdout"], ";"),
                    "exit": -2 if r["timed_out"] else r["exit"]})
    t1 = time.time()
    bad, n = b3.validate("VerbsAggregateObs", obs, chunk=2500, threads=int(os.environ.get("VERIF_JOBS", 8)))
    cov["validate_wall_s"] = round(time.time() - t1, 1)
    states += n
    transitions += n
    for idx, diag in bad:
        c = cases[idx]["c"]
        V.violation(key_of(c, diag),
                    {"argv": runs[idx]["argv"][1:], "input": cases[idx]["s"], "stdin": runs[idx]["stdin"],
                     "observed": obs[idx]["out"], "exit": obs[idx]["exit"], "stderr": res[idx]["stderr"][:500], "tlc": diag})
    st = b3.selftest_corruption("VerbsAggregateObs", [o for o in obs if o["c"]["v"] == "count" and o["c"]["g"]])
    cov["obs_selftest"] = st
    if st["ok"] is False:
        raise vlib.Inconclusive("observation self-test failed: %r" % st)

    def mutate(a):       # a wrong number in the last field of the first record must be noticed, too
        a["out"][0][-1][1] = a["out"][0][-1][1] + "0"
    st2 = b3.selftest_corruption("VerbsAggregateObs", [o for o in obs if o["c"]["v"] == "stats1" and len(o["s"]) >= 2
                                                       and o["c"]["a"][0]["k"] == "count"], mutate=mutate)
    cov["obs_selftest_value"] = st2
    if st2["ok"] is False:
        raise vlib.Inconclusive("observation self-test (value) failed: %r" % st2)
    per_verb = {}
    for x in cases:
        per_verb[x["c"]["v"]] = per_verb.get(x["c"]["v"], 0) + 1
    # non-vacuity verb by verb: corrupted copies of conforming observations (first record dropped / a value altered / the
    # first two records swapped or the first one doubled) must be reported
    badset = {i for i, _ in bad}
    picked, per, cand = [], {}, {}
    for i, o in enumerate(obs):
        if i not in badset and o["out"] and o["out"][0]:
            cand.setdefault(o["c"]["v"], []).append(i)
    spread = sorted(i for v, ii in cand.items() for i in ii[::max(1, len(ii) // 24)][:24])
    for i in spread:
        o = obs[i]
        v = o["c"]["v"]
        m = copy.deepcopy(o)
        kind = per.get(v, 0) % 3
        if kind == 0:
            m["out"] = m["out"][1:]
        elif kind == 1:
            m["out"][0][-1][1] = m["out"][0][-1][1] + "1"
        elif len(m["out"]) >= 2 and m["out"][0] != m["out"][1]:
            m["out"][0], m["out"][1] = m["out"][1], m["out"][0]
        else:
            m["out"] = [m["out"][0]] + m["out"]
        per[v] = per.get(v, 0) + 1
        picked.append((v, kind, m))
    mbad, _ = b3.validate("VerbsAggregateObs", [m for _, _, m in picked], chunk=2500)
    caught = {i for i, _ in mbad}
    kills = {}
    for i, (v, kind, _) in enumerate(picked):
        k = kills.setdefault(v, [0, 0])
        k[1] += 1
        k[0] += i in caught
    cov["corruption_selftest_per_verb"] = {v: "%d/%d" % tuple(k) for v, k in sorted(kills.items())}
    weak = [v for v, k in kills.items() if k[0] * 2 < k[1]]
    if weak or len(kills) < len(per_verb):
        raise vlib.Inconclusive("corrupted observations were not noticed for %r (%r)" % (weak, cov["corruption_selftest_per_verb"]))
    nontrivial = {json.dumps(o, sort_keys=True) for o in obs if o["out"] != o["s"] and o["out"]}
    ncfg = len({json.dumps(x["c"], sort_keys=True) for x in cases})
    cov["samples"] += [{"argv": runs[i]["argv"][1:], "input": cases[i]["s"], "output": obs[i]["out"]}
                       for i in (len(runs) // 7, len(runs) // 2, len(runs) - 5)]
    cov.update({
        "states": states, "transitions": transitions, "traces_validated_against_impl": len(runs),
        "evaluations": len(runs), "distinct_nontrivial": len(nontrivial),
        "rule": "every (verb configuration, stream) of VerbsAggregateCases.tla: %d configurations; all streams of <= %d records "
                "of the family's record universe plus %d TLC-sampled streams per configuration and length up to %d (percentile "
                "sweep p = 0..100 on up to 6 values); non-trivial = output non-empty and different from the input; distinct by "
                "case and output" % (ncfg, bounds["ExLen"], bounds["NSample"], bounds["MaxLen"] + 1),
        "exhaustive": False,
        "verb_configurations": ncfg, "cases_per_verb": per_verb,
    })
    rc = V.finish()
    vlib.write_evidence(PROP, tier, seed, time.time() - t0, cov, [
        "streams are bounded (all streams of <= %d records, sampled ones up to %d records) over per-family record universes "
        "of 5-11 record shapes: small integers incl. negative, zero and a two-digit one, the empty text, one non-numeric "
        "text, missing value field, missing and empty group-by field" % (bounds["ExLen"], bounds["MaxLen"] + 1),
        "decided: integer-exact quantities and halves / dyadic fractions; floating-point accumulators (var, stddev, meaneb, "
        "skewness, kurtosis, mad, ewma, ratio, slwin, interpolated percentiles) are not",
        "where the documentation is silent (empty accumulations, arithmetic on non-numeric text, ties of most-frequent and "
        "top -a, records lacking the group-by field in count-similar, position of a filled-in absent field) the "
        "specification is a predicate that accepts any outcome",
        "the expectations are VerbsAggregate.tla's, written from reference-verbs.md; the harness only spells verb options "
        "and splits DKVP lines",
    ], len(V.violations))
    return rc


def replay(path):
    with open(path) as f:
        v = json.load(f)
    print(json.dumps(v, indent=1))
    d = v.get("detail", {})
    if "argv" in d:
        mlr = vlib.build_mlr()
        r = vlib.run_cases([{"argv": [mlr] + d["argv"], "stdin": d.get("stdin", ""), "timeout_ms": 10000}])[0]
        print("now prints:\n" + r["stdout"])
    return 0
