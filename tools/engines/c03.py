"""C03 — fields a chain does not assign pass through byte-for-byte.

ValueText.tla: the value machine (Infer/ReadBy/Copy keep the text; TLC checks PassThrough/TextStable) and the catalogue of
operations that read field x but never assign it, with what each may legitimately do to the stream. ValueTextGen emits
spellings and catalogue; every chain of one or two read-only operations (sampled triples) is run on the rebuilt binary over a
file holding every spelling, under every inference flag and several non-JSON formats; ValueTextObs judges text and position
of the untouched field in every output record."""
import csv
import io
import itertools
import json
import random
import time

import b3
import vlib

PROP = "C03"
FLAGS = [[], ["-S"], ["-A"], ["-O"]]
FORMATS = ["dkvp", "csv", "csv2tsv"]


def render_input(fmt, spellings):
    if fmt == "dkvp":
        return "".join("k=r%d\tx=%s\ty=%d\te=\n" % (i, s, i % 4 + 1) for i, s in enumerate(spellings, start=1))
    buf = io.StringIO()
    w = csv.writer(buf, lineterminator="\n")
    w.writerow(["k", "x", "y", "e"])          # e: a field that is empty in every record (the catalogue assigns INTO it)
    for i, s in enumerate(spellings, start=1):
        w.writerow(["r%d" % i, s, i % 4 + 1, ""])
    return buf.getvalue()


def fmt_flags(fmt):
    return {"dkvp": ["--ifs", "tab", "--ofs", "tab"], "csv": ["--csv"], "csv2tsv": ["--icsv", "--otsv"]}[fmt]


def parse_output(fmt, text):
    recs = []
    if fmt == "dkvp":
        for line in text.split("\n"):
            if line == "":
                continue
            rec = []
            for pair in line.split("\t"):
                k, _, v = pair.partition("=")
                rec.append((k, v))
            recs.append(rec)
        return recs
    if fmt == "csv":
        rows = list(csv.reader(io.StringIO(text)))
    else:
        rows = [line.split("\t") if line != "" else [] for line in text.split("\n")]
        rows = [[c.replace("\\t", "\t").replace("\\n", "\n").replace("\\\\", "\\") for c in r] for r in rows]
    # schema changes start a new block: blank line, new header
    header = None
    for r in rows:
        if r == [] or r == [""]:
            header = None
            continue
        if header is None:
            header = r
            continue
        recs.append(list(zip(header, r)))
    return recs


ORIG = ["k", "x", "y", "e"]


def observe(fmt, spellings, res):
    recs = parse_output(fmt, res["stdout"])
    outx, pos = [], []
    for rec in recs:
        keys = [k for k, _ in rec]
        if "x" not in keys:
            continue
        outx.append(dict(rec)["x"])
        present = [k for k in keys if k in ORIG]
        pos.append(present == [k for k in ORIG if k in present])
    return outx, pos


def run(tier, seed):
    t0 = time.time()
    rnd = random.Random(seed)
    V = vlib.Verdicts(PROP)
    mlr = vlib.build_mlr()
    thorough = tier == "thorough"
    cov = {"tlc_runs": [], "samples": []}
    r = vlib.tlc("ValueText", cfg="ValueTextMC.cfg", timeout=600)
    if not r.ok:
        raise vlib.Inconclusive("ValueText machine: %s" % (r.violated or r.error))
    states, transitions = r.distinct, r.generated
    cov["tlc_runs"].append({"module": "ValueText", "invariants": ["PassThrough", "TextStable"], "distinct_states": r.distinct, "result": "no error"})
    space, _ = b3.gen_cases("ValueTextGen", {"Texts": '{"a"}'}, invariant="Emit", init="GInit", next_="GNext")
    # gen_cases uses INIT Init / NEXT Next of the module named; ValueTextGen defines GInit/GNext
    space = space[0]
    spellings = sorted(space["spellings"])
    ops = sorted(space["ops"], key=lambda o: json.dumps(o["argv"]))
    copyops = sorted(space["copyops"], key=lambda o: json.dumps(o["argv"]))
    chains = [[o] for o in ops] + [[c] for c in copyops] + [[o, c] for o in ops for c in copyops]
    pairs = [list(p) for p in itertools.product(ops, repeat=2)]
    rnd.shuffle(pairs)
    chains += pairs if thorough else pairs[:1500]
    for _ in range(6000 if thorough else 600):
        chains.append([rnd.choice(ops) for _ in range(3)])
    cases, meta = [], []
    for ci, chain in enumerate(chains):
        for fi, flags in enumerate(FLAGS):
            fmts = FORMATS if (len(chain) == 1 or thorough) else [FORMATS[(ci + fi) % len(FORMATS)]]
            for fmt in fmts:
                argv = [mlr] + fmt_flags(fmt) + flags
                for j, o in enumerate(chain):
                    argv += (["then"] if j else []) + list(o["argv"])
                cases.append({"argv": argv, "stdin": render_input(fmt, spellings), "timeout_ms": 15000})
                meta.append((chain, flags, fmt))
    res = vlib.run_cases(cases)
    vlib.confirm_timeouts(cases, res)
    obs, omap, failed = [], [], 0
    for i, ((chain, flags, fmt), rr) in enumerate(zip(meta, res)):
        if pipeline_crash(rr):
            V.violation({"why": "crash", "argv": cases[i]["argv"][1:]}, {"stderr": rr["stderr"][:800]})
            continue
        if rr["exit"] != 0 or rr["timed_out"]:
            failed += 1           # a data-dependent fatal error of some function: not this property's business
            continue
        outx, pos = observe(fmt, spellings, rr)
        obs.append({"ops": chain, "inx": spellings, "outx": outx, "pos": pos, "exit": 0})
        omap.append(i)
    bad, n = b3.validate("ValueTextObs", obs, consts={"Texts": '{"a"}'}, chunk=3000, init="OInit", next_="ONext")
    # (ValueTextObs uses OInit/ONext)
    states += n
    transitions += n
    for idx, p in bad:
        i = omap[idx]
        chain, flags, fmt = meta[i]
        o = obs[idx]
        changed = [x for x in o["outx"] if x not in spellings][:5]
        V.violation({"why": p["why"], "ops": [" ".join(c["argv"]) for c in chain], "fmt": fmt, "flags": flags},
                    {"argv": cases[i]["argv"][1:], "changed_texts": changed, "outx_len": len(o["outx"])})
    import copy
    badset = {idx for idx, _ in bad}
    base = next((o for k, o in enumerate(obs) if k not in badset and len(o["ops"]) == 1 and len(o["outx"]) > 5), None)
    if base is None:
        st = {"ok": None, "why": "no conforming observation to corrupt"}
    else:
        cor = copy.deepcopy(base)
        cor["outx"][3] = cor["outx"][3] + "0"
        sb, _ = b3.validate("ValueTextObs", [cor, base], consts={"Texts": '{"a"}'}, init="OInit", next_="ONext")
        st = {"ok": [b[0] for b in sb] == [0]}
    cov["obs_selftest"] = st
    if st["ok"] is False:
        raise vlib.Inconclusive("observation self-test failed")
    fields = sum(len(o["outx"]) for o in obs)
    cov["samples"] += [{"argv": cases[omap[k]]["argv"][1:], "x_texts_out": obs[k]["outx"][:8]} for k in (0, len(obs) // 2)]
    cov.update({
        "states": states, "transitions": transitions, "traces_validated_against_impl": len(obs),
        "evaluations": len(cases), "distinct_nontrivial": len({json.dumps([m[0], m[1], m[2]], sort_keys=True) for m in meta}),
        "rule": "%d read-only operations from ValueText.tla's catalogue: all singles, %d pairs, %d triples x {default,-S,-A,-O} x "
                "{DKVP, CSV, CSV->TSV}, each over a file with all %d spellings; every case reads the field (non-trivial); distinct "
                "by (chain, flags, format)" % (len(ops), len(chains) - len(ops) - (6000 if thorough else 600), 6000 if thorough else 600, len(spellings)),
        "field_observations": fields, "runs_with_fatal_function_errors_skipped": failed, "exhaustive": False,
    })
    rc = V.finish()
    vlib.write_evidence(PROP, tier, seed, time.time() - t0, cov, [
        "the oracle is identity; the strength is the catalogue of readers (ValueText.tla) and the spellings",
        "JSON/YAML output and --ofmt are excluded (documented re-renderings)",
        "a run that ends with a fatal function error on some spelling is skipped (counted), not judged",
    ], len(V.violations))
    return rc


def pipeline_crash(rr):
    s = rr.get("stderr", "")
    return "panic:" in s or "fatal error:" in s or ("goroutine " in s and "[running]" in s)


def replay(path):
    with open(path) as f:
        print(f.read())
    return 0
